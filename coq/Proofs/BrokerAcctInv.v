(* C12: the accounting invariant is preserved by every broker operation. One lemma per operation function. *)
From UM Require Import Base.BytesDef Model.Ranges Model.Broker Proofs.BrokerBase Proofs.BrokerAcctBase Proofs.BrokerAcctAlloc.
From Coq Require Import ZifyBool ZifyNat ZifyN Permutation.

(* ---------- tagging and half_ok ---------- *)
Lemma half_ok_tag_keep ps addrs c name a h n0 n1 :
  half_ok ps name a h n0 n1 -> ~ In a addrs -> half_ok (tag_proxies ps addrs c) name a h n0 n1.
Proof.
  intros (r & L & H) Hn. exists r. split; [|exact H]. rewrite alookup_tag, L.
  apply smem_false_In in Hn. rewrite Hn. reflexivity.
Qed.

Lemma half_ok_tag_same ps addrs name a h n0 n1 :
  half_ok ps name a h n0 n1 -> half_ok (tag_proxies ps addrs (Some name)) name a h n0 n1.
Proof.
  intros (r & L & C & H). rewrite <- C at 1. unfold half_ok. rewrite alookup_tag, L.
  destruct (smem a addrs); eexists; (split; [reflexivity|]); cbn; rewrite ?C; auto.
Qed.

Lemma half_ok_tag_set ps addrs name a r :
  alookup a ps = Some r -> In a addrs ->
  half_ok (tag_proxies ps addrs (Some name)) name a (pr_host r) (pr_n0 r) (pr_n1 r).
Proof.
  intros L Hin. unfold half_ok. rewrite alookup_tag, L. apply smem_In in Hin. rewrite Hin.
  eexists. split; [reflexivity|]. cbn. auto.
Qed.

Lemma cluster_ok_tag_keep ps addrs c n cl :
  cluster_ok ps n cl -> (forall a, In a (cluster_proxies cl) -> ~ In a addrs) ->
  cluster_ok (tag_proxies ps addrs c) n cl.
Proof.
  intros [HF Hnd] Hdis. split; [|exact Hnd]. rewrite Forall_forall in *. intros ck Hck.
  destruct (HF _ Hck) as [H0 H1].
  assert (Hin : forall a, In a (chunk_proxies ck) -> In a (cluster_proxies cl)).
  { intros a Ha. unfold cluster_proxies. apply in_flat_map. eauto. }
  split; apply half_ok_tag_keep; auto; apply Hdis, Hin; cbn; auto.
Qed.

Lemma res_or_default_found s a r : alookup a (st_proxies s) = Some r -> res_or_default s a = r.
Proof. unfold res_or_default. intros ->. reflexivity. Qed.

(* ---------- growth: add_cluster / auto_add_nodes ---------- *)
Lemma acct_grow s name old new pairs e cfg :
  acct (st_proxies s) (st_clusters s) ->
  match alookup name (st_clusters s) with Some c => cl_chunks c = old | None => old = [] end ->
  pairs_ok (st_proxies s) pairs ->
  map ck_skel new = map (pair_skel s) pairs ->
  acct (tag_proxies (st_proxies s) (cluster_proxies (mkCluster e (old ++ new) cfg)) (Some name))
       (ainsert name (mkCluster e (old ++ new) cfg) (st_clusters s)).
Proof.
  set (ps := st_proxies s). set (cs := st_clusters s). set (cl' := mkCluster e (old ++ new) cfg).
  intros (Hps & Hcs & Hok & Hback) Hold [Hnd Hfree] Hnew.
  assert (Hprox : cluster_proxies cl' = flat_map chunk_proxies old ++ flat_pairs pairs).
  { unfold cluster_proxies, cl'. cbn [cl_chunks]. rewrite flat_map_app. f_equal.
    change (flat_map chunk_proxies new) with (cluster_proxies (mkCluster 0 new 0)).
    rewrite cluster_proxies_skel. unfold cl_skel. cbn [cl_chunks]. rewrite Hnew. apply flat_map_pair_skel. }
  assert (Hold_ok : Forall (chunk_ok ps name) old /\ NoDup (flat_map chunk_proxies old)).
  { destruct (alookup name cs) as [c|] eqn:L.
    - subst old. apply (Hok _ _ L).
    - subst old. split; constructor. }
  assert (Hold_tag : forall a, In a (flat_map chunk_proxies old) -> exists r, alookup a ps = Some r /\ pr_cluster r = Some name).
  { intros a Ha. apply (in_cluster_tagged ps name (mkCluster 0 old 0)); [exact Hold_ok|exact Ha]. }
  split; [apply tag_sorted; exact Hps|]. split; [apply ainsert_sorted; exact Hcs|]. split.
  - intros n c2. rewrite alookup_ainsert. destruct (N.eqb n name) eqn:E.
    + apply N.eqb_eq in E. subst n. intros H. inversion H; subst c2. clear H. split.
      * unfold cl' at 2. cbn [cl_chunks]. apply Forall_app. split.
        -- destruct Hold_ok as [HF _]. rewrite Forall_forall in *. intros ck Hck. destruct (HF _ Hck) as [H0 H1].
           split; apply half_ok_tag_same; assumption.
        -- apply Forall_chunk_ok_skel. rewrite Hnew. rewrite Forall_map. rewrite Forall_forall. intros [a b] Hab.
           assert (Ha : In a (flat_pairs pairs)) by (unfold flat_pairs; apply in_flat_map; exists (a, b); cbn; auto).
           assert (Hb : In b (flat_pairs pairs)) by (unfold flat_pairs; apply in_flat_map; exists (a, b); cbn; auto).
           destruct (Hfree _ Ha) as (ra & La & _). destruct (Hfree _ Hb) as (rb & Lb & _).
           unfold pair_skel, skel_ok. cbn [fst snd].
           rewrite (res_or_default_found s a ra La), (res_or_default_found s b rb Lb).
           split; apply half_ok_tag_set; auto; rewrite Hprox; apply in_or_app; right; assumption.
      * rewrite Hprox. apply NoDup_app_intro; [apply Hold_ok|exact Hnd|].
        intros a Ha Hb. destruct (Hold_tag _ Ha) as (r & L & C). destruct (Hfree _ Hb) as (r' & L' & C'). congruence.
    + intros L. apply cluster_ok_tag_keep; [apply Hok; exact L|].
      intros a Ha. destruct (in_cluster_tagged ps n c2 a (Hok _ _ L) Ha) as (r & La & Ca).
      rewrite Hprox. rewrite in_app_iff. intros [Hb|Hb].
      * destruct (Hold_tag _ Hb) as (r' & L' & C'). rewrite La in L'. inversion L'; subst r'.
        rewrite Ca in C'. inversion C'; subst. rewrite N.eqb_refl in E. discriminate.
      * destruct (Hfree _ Hb) as (r' & L' & C'). congruence.
  - intros a r' n. rewrite alookup_tag. destruct (alookup a ps) as [r|] eqn:La; [|discriminate].
    intros H. inversion H; subst r'. clear H. rewrite alookup_ainsert.
    destruct (smem a (cluster_proxies cl')) eqn:Em.
    + cbn. intros H. inversion H; subst n. rewrite N.eqb_refl. eexists. split; [reflexivity|]. apply smem_In. exact Em.
    + intros Ca. destruct (Hback _ _ _ La Ca) as (c2 & L2 & Hin). destruct (N.eqb n name) eqn:E.
      * apply N.eqb_eq in E. subst n. exfalso. apply smem_false_In in Em. apply Em. rewrite Hprox. apply in_or_app. left.
        fold cs in Hold. rewrite L2 in Hold. subst old. exact Hin.
      * eauto.
Qed.

(* ---------- removal of a whole cluster ---------- *)
Lemma acct_remove_cluster ps cs name cl :
  acct ps cs -> alookup name cs = Some cl ->
  acct (tag_proxies ps (cluster_proxies cl) None) (aremove name cs).
Proof.
  intros (Hps & Hcs & Hok & Hback) L.
  split; [apply tag_sorted; exact Hps|]. split; [apply aremove_sorted; exact Hcs|]. split.
  - intros n c2 L2. destruct (N.eqb n name) eqn:E.
    + apply N.eqb_eq in E. subst n. rewrite alookup_aremove_same in L2; [discriminate|exact Hcs].
    + apply N.eqb_neq in E. rewrite alookup_aremove_other in L2 by exact E.
      apply cluster_ok_tag_keep; [apply Hok; exact L2|].
      intros a Ha Hb. destruct (in_cluster_tagged ps n c2 a (Hok _ _ L2) Ha) as (r & La & Ca).
      destruct (in_cluster_tagged ps name cl a (Hok _ _ L) Hb) as (r' & La' & Ca'). congruence.
  - intros a r' n. rewrite alookup_tag. destruct (alookup a ps) as [r|] eqn:La; [|discriminate].
    intros H. inversion H; subst r'. clear H.
    destruct (smem a (cluster_proxies cl)) eqn:Em; [cbn; discriminate|].
    intros Ca. destruct (Hback _ _ _ La Ca) as (c2 & L2 & Hin).
    assert (n <> name).
    { intros ->. rewrite L in L2. inversion L2; subst c2. apply smem_false_In in Em. auto. }
    rewrite alookup_aremove_other by assumption. eauto.
Qed.

(* ---------- removal of some chunks of a cluster (auto_delete_free_nodes) ---------- *)
Lemma acct_shrink ps cs name cl (p : chunk -> bool) e cfg :
  acct ps cs -> alookup name cs = Some cl ->
  acct (tag_proxies ps (flat_map chunk_proxies (filter p (cl_chunks cl))) None)
       (ainsert name (mkCluster e (filter (fun c => negb (p c)) (cl_chunks cl)) cfg) cs).
Proof.
  intros (Hps & Hcs & Hok & Hback) L.
  destruct (Hok _ _ L) as [HF Hnd]. unfold cluster_proxies in Hnd.
  split; [apply tag_sorted; exact Hps|]. split; [apply ainsert_sorted; exact Hcs|]. split.
  - intros n c2. rewrite alookup_ainsert. destruct (N.eqb n name) eqn:E.
    + apply N.eqb_eq in E. subst n. intros H. inversion H; subst c2. clear H.
      apply cluster_ok_tag_keep.
      * split; [|apply NoDup_flat_map_filter; exact Hnd]. cbn [cl_chunks].
        rewrite Forall_forall in *. intros ck Hck. apply filter_In in Hck. apply HF. tauto.
      * unfold cluster_proxies. cbn [cl_chunks]. intros a Ha Hb. eapply flat_map_filter_disj; eauto.
    + intros L2. apply cluster_ok_tag_keep; [apply Hok; exact L2|].
      intros a Ha Hb. apply flat_map_filter_sub in Hb.
      destruct (in_cluster_tagged ps n c2 a (Hok _ _ L2) Ha) as (r & La & Ca).
      destruct (in_cluster_tagged ps name cl a (Hok _ _ L) Hb) as (r' & La' & Ca').
      rewrite La in La'. inversion La'; subst r'. rewrite Ca in Ca'. inversion Ca'; subst. rewrite N.eqb_refl in E. discriminate.
  - intros a r' n. rewrite alookup_tag. destruct (alookup a ps) as [r|] eqn:La; [|discriminate].
    intros H. inversion H; subst r'. clear H.
    destruct (smem a _) eqn:Em; [cbn; discriminate|].
    intros Ca. destruct (Hback _ _ _ La Ca) as (c2 & L2 & Hin). rewrite alookup_ainsert.
    destruct (N.eqb n name) eqn:E; [|eauto].
    apply N.eqb_eq in E. subst n. rewrite L in L2. inversion L2; subst c2. eexists. split; [reflexivity|].
    unfold cluster_proxies in *. cbn [cl_chunks].
    destruct (flat_map_filter_split chunk_proxies p _ _ Hin) as [H|H]; [|exact H].
    apply smem_false_In in Em. contradiction.
Qed.

(* ---------- replacement of one proxy (replace_failed_proxy) ---------- *)
Lemma replace_in_chunks_In chunks f r rr a :
  In a (flat_map chunk_proxies (replace_in_chunks chunks f r rr)) -> a = r \/ In a (flat_map chunk_proxies chunks).
Proof.
  induction chunks as [|c rest IH]; cbn [replace_in_chunks flat_map]; [tauto|].
  destruct (N.eqb (ck_proxy0 c) f); [|destruct (N.eqb (ck_proxy1 c) f)]; cbn [flat_map chunk_proxies ck_proxy0 ck_proxy1 app In]; rewrite ?in_app_iff; cbn [In]; intuition.
Qed.

Lemma replace_in_chunks_keep chunks f r rr a :
  In a (flat_map chunk_proxies chunks) -> a <> f -> In a (flat_map chunk_proxies (replace_in_chunks chunks f r rr)).
Proof.
  intros Hin Hne. induction chunks as [|c rest IH]; cbn [replace_in_chunks flat_map] in *; [tauto|].
  destruct (N.eqb (ck_proxy0 c) f) eqn:E0; [|destruct (N.eqb (ck_proxy1 c) f) eqn:E1];
    cbn [flat_map chunk_proxies ck_proxy0 ck_proxy1 app In] in *; rewrite ?in_app_iff in *; cbn [In] in *.
  - apply N.eqb_eq in E0. intuition congruence.
  - apply N.eqb_eq in E1. intuition congruence.
  - intuition.
Qed.

Lemma replace_in_chunks_new chunks f r rr :
  In f (flat_map chunk_proxies chunks) -> In r (flat_map chunk_proxies (replace_in_chunks chunks f r rr)).
Proof.
  induction chunks as [|c rest IH]; cbn [replace_in_chunks flat_map]; [tauto|].
  destruct (N.eqb (ck_proxy0 c) f) eqn:E0; [|destruct (N.eqb (ck_proxy1 c) f) eqn:E1];
    cbn [flat_map chunk_proxies ck_proxy0 ck_proxy1 app In]; rewrite ?in_app_iff; cbn [In]; auto.
  apply N.eqb_neq in E0, E1. intuition.
Qed.

Lemma replace_in_chunks_NoDup chunks f r rr :
  NoDup (flat_map chunk_proxies chunks) -> ~ In r (flat_map chunk_proxies chunks) ->
  NoDup (flat_map chunk_proxies (replace_in_chunks chunks f r rr)).
Proof.
  induction chunks as [|c rest IH]; cbn [replace_in_chunks flat_map]; [auto|].
  cbn [chunk_proxies app]. intros Hnd Hr.
  apply NoDup_cons_iff in Hnd. destruct Hnd as [Hn0 Hnd]. apply NoDup_cons_iff in Hnd. destruct Hnd as [Hn1 Hnd].
  cbn [In] in Hr, Hn0.
  destruct (N.eqb (ck_proxy0 c) f) eqn:E0; [|destruct (N.eqb (ck_proxy1 c) f) eqn:E1];
    cbn [flat_map chunk_proxies ck_proxy0 ck_proxy1 app].
  - constructor; [cbn [In]; intuition|]. constructor; assumption.
  - constructor; [cbn [In]; intuition|]. constructor; [intuition|assumption].
  - assert (IH' := IH Hnd ltac:(intuition)).
    constructor.
    + cbn [In]. intros [H|H]; [intuition|]. apply replace_in_chunks_In in H. intuition.
    + constructor; [|exact IH']. intros H. apply replace_in_chunks_In in H. intuition.
Qed.

Lemma replace_in_chunks_ok ps ps' name chunks f r rr :
  NoDup (flat_map chunk_proxies chunks) ->
  Forall (chunk_ok ps name) chunks ->
  (forall a h n0 n1, a <> f -> half_ok ps name a h n0 n1 -> half_ok ps' name a h n0 n1) ->
  half_ok ps' name r (pr_host rr) (pr_n0 rr) (pr_n1 rr) ->
  Forall (chunk_ok ps' name) (replace_in_chunks chunks f r rr).
Proof.
  intros Hnd HF Hkeep Hr. induction chunks as [|c rest IH]; cbn [replace_in_chunks]; [constructor|].
  cbn [flat_map chunk_proxies app] in Hnd.
  apply NoDup_cons_iff in Hnd. destruct Hnd as [Hn0 Hnd]. apply NoDup_cons_iff in Hnd. destruct Hnd as [Hn1 Hnd].
  cbn [In] in Hn0. inversion HF as [|? ? [H0 H1] HF']; subst.
  assert (Hrest : forall f', (f' = ck_proxy0 c \/ f' = ck_proxy1 c) -> f' = f -> Forall (chunk_ok ps' name) rest).
  { intros f' Hf' ->. rewrite Forall_forall in *. intros ck Hck. destruct (HF' _ Hck) as [G0 G1].
    assert (In (ck_proxy0 ck) (flat_map chunk_proxies rest)) by (apply in_flat_map; exists ck; cbn; auto).
    assert (In (ck_proxy1 ck) (flat_map chunk_proxies rest)) by (apply in_flat_map; exists ck; cbn; auto).
    split; apply Hkeep; auto; intros E; rewrite E in *; destruct Hf' as [->| ->]; intuition. }
  destruct (N.eqb (ck_proxy0 c) f) eqn:E0; [|destruct (N.eqb (ck_proxy1 c) f) eqn:E1].
  - apply N.eqb_eq in E0. constructor; [|apply (Hrest (ck_proxy0 c)); auto].
    split; cbn; [exact Hr|]. apply Hkeep; [|exact H1]. intros E. apply Hn0. left. congruence.
  - apply N.eqb_eq in E1. apply N.eqb_neq in E0. constructor; [|apply (Hrest (ck_proxy1 c)); auto].
    split; cbn; [|exact Hr]. apply Hkeep; [|exact H0]. exact E0.
  - apply N.eqb_neq in E0, E1. constructor; [|apply IH; assumption].
    split; apply Hkeep; assumption.
Qed.

Lemma alookup_tag1 ps a0 c a :
  alookup a (tag_proxies ps [a0] c) =
  match alookup a ps with Some r => Some (if N.eqb a a0 then set_pr_cluster r c else r) | None => None end.
Proof. rewrite alookup_tag. unfold smem. cbn [existsb]. rewrite orb_false_r. reflexivity. Qed.

Lemma acct_replace ps cs name cl failed fr r rr e cfg :
  acct ps cs -> alookup name cs = Some cl ->
  alookup failed ps = Some fr -> pr_cluster fr = Some name ->
  alookup r ps = Some rr -> pr_cluster rr = None ->
  acct (tag_proxies (tag_proxies ps [failed] None) [r] (Some name))
       (ainsert name (mkCluster e (replace_in_chunks (cl_chunks cl) failed r rr) cfg) cs).
Proof.
  intros (Hps & Hcs & Hok & Hback) L Lf Cf Lr Cr.
  assert (Hrf : r <> failed) by (intros ->; congruence).
  destruct (Hok _ _ L) as [HF Hnd]. unfold cluster_proxies in Hnd.
  assert (Hfin : In failed (cluster_proxies cl)).
  { destruct (Hback _ _ _ Lf Cf) as (c2 & L2 & Hin). congruence. }
  assert (Hrnot : forall n c2, alookup n cs = Some c2 -> ~ In r (cluster_proxies c2)).
  { intros n c2 L2 Hin. destruct (in_cluster_tagged ps n c2 r (Hok _ _ L2) Hin) as (r' & L' & C'). congruence. }
  set (ps' := tag_proxies (tag_proxies ps [failed] None) [r] (Some name)).
  assert (Hlk : forall a, alookup a ps' = match alookup a ps with
                                          | Some x => Some (if N.eqb a r then set_pr_cluster x (Some name)
                                                            else if N.eqb a failed then set_pr_cluster x None else x)
                                          | None => None end).
  { intros a. unfold ps'. rewrite !alookup_tag1. destruct (alookup a ps); [|reflexivity].
    destruct (N.eqb a r), (N.eqb a failed); reflexivity. }
  assert (Hkeep : forall n a h n0 n1, a <> failed -> a <> r -> half_ok ps n a h n0 n1 -> half_ok ps' n a h n0 n1).
  { intros n a h n0 n1 H1 H2 (x & Lx & Hx). exists x. split; [|exact Hx]. rewrite Hlk, Lx.
    apply N.eqb_neq in H1, H2. rewrite H1, H2. reflexivity. }
  split; [unfold ps'; apply tag_sorted, tag_sorted; exact Hps|]. split; [apply ainsert_sorted; exact Hcs|]. split.
  - intros n c2. rewrite alookup_ainsert. destruct (N.eqb n name) eqn:E.
    + apply N.eqb_eq in E. subst n. intros H. inversion H; subst c2. clear H. split.
      * cbn [cl_chunks]. eapply replace_in_chunks_ok; [exact Hnd|exact HF| |].
        -- intros a h n0 n1 Hne Hh. apply Hkeep; auto. intros ->. destruct Hh as (x & Lx & Cx & _). congruence.
        -- unfold half_ok. rewrite Hlk, Lr, N.eqb_refl. eexists. split; [reflexivity|]. cbn. auto.
      * unfold cluster_proxies. cbn [cl_chunks]. apply replace_in_chunks_NoDup; [exact Hnd|]. apply (Hrnot _ _ L).
    + intros L2. destruct (Hok _ _ L2) as [HF2 Hnd2]. split; [|exact Hnd2].
      rewrite Forall_forall in *. intros ck Hck. destruct (HF2 _ Hck) as [G0 G1].
      assert (Hx : forall a h n0 n1, half_ok ps n a h n0 n1 -> half_ok ps' n a h n0 n1).
      { intros a h n0 n1 Hh. apply Hkeep; auto; intros ->; destruct Hh as (x & Lx & Cx & _).
        - rewrite Lf in Lx. inversion Lx; subst x. rewrite Cf in Cx. inversion Cx; subst. rewrite N.eqb_refl in E. discriminate.
        - congruence. }
      split; apply Hx; assumption.
  - intros a x' n. rewrite Hlk. destruct (alookup a ps) as [x|] eqn:La; [|discriminate].
    intros H. inversion H; subst x'. clear H. rewrite alookup_ainsert.
    destruct (N.eqb a r) eqn:Er.
    + apply N.eqb_eq in Er. subst a. cbn. intros H. inversion H; subst n. rewrite N.eqb_refl.
      eexists. split; [reflexivity|]. unfold cluster_proxies. cbn [cl_chunks]. apply replace_in_chunks_new. exact Hfin.
    + destruct (N.eqb a failed) eqn:Ef; [cbn; discriminate|].
      intros Ca. destruct (Hback _ _ _ La Ca) as (c2 & L2 & Hin).
      destruct (N.eqb n name) eqn:E; [|eauto].
      apply N.eqb_eq in E. subst n. rewrite L in L2. inversion L2; subst c2.
      eexists. split; [reflexivity|]. unfold cluster_proxies. cbn [cl_chunks]. apply replace_in_chunks_keep; [exact Hin|].
      apply N.eqb_neq. exact Ef.
Qed.

(* ---------- proxies added / removed ---------- *)
Lemma acct_add_proxy ps cs addr res :
  acct ps cs -> alookup addr ps = None -> pr_cluster res = None -> acct (ainsert addr res ps) cs.
Proof.
  intros (Hps & Hcs & Hok & Hback) Ln Cn.
  split; [apply ainsert_sorted; exact Hps|]. split; [exact Hcs|]. split.
  - intros n cl L. destruct (Hok _ _ L) as [HF Hnd]. split; [|exact Hnd].
    rewrite Forall_forall in *. intros ck Hck. destruct (HF _ Hck) as [G0 G1].
    assert (Hx : forall a h n0 n1, half_ok ps n a h n0 n1 -> half_ok (ainsert addr res ps) n a h n0 n1).
    { intros a h n0 n1 (x & Lx & Hx). exists x. split; [|exact Hx]. rewrite alookup_ainsert_other; [exact Lx|congruence]. }
    split; apply Hx; assumption.
  - intros a r n. rewrite alookup_ainsert. destruct (N.eqb a addr); [|apply Hback].
    intros H. inversion H; subst. congruence.
Qed.

Lemma acct_remove_proxy ps cs addr r :
  acct ps cs -> alookup addr ps = Some r -> pr_cluster r = None -> acct (aremove addr ps) cs.
Proof.
  intros (Hps & Hcs & Hok & Hback) L Cn.
  split; [apply aremove_sorted; exact Hps|]. split; [exact Hcs|]. split.
  - intros n cl Lc. destruct (Hok _ _ Lc) as [HF Hnd]. split; [|exact Hnd].
    rewrite Forall_forall in *. intros ck Hck. destruct (HF _ Hck) as [G0 G1].
    assert (Hx : forall a h n0 n1, half_ok ps n a h n0 n1 -> half_ok (aremove addr ps) n a h n0 n1).
    { intros a h n0 n1 (x & Lx & Cx & Hx). exists x. split; [|auto]. rewrite alookup_aremove_other; [exact Lx|congruence]. }
    split; apply Hx; assumption.
  - intros a x n La Ca. destruct (N.eqb a addr) eqn:E.
    + apply N.eqb_eq in E. subst a. rewrite alookup_aremove_same in La; [discriminate|exact Hps].
    + apply N.eqb_neq in E. rewrite alookup_aremove_other in La by exact E. eauto.
Qed.
