(* Control-plane model: what one complete fault-free round of the compiled coordinator code does.
   - meta-sync round: every listed proxy ends up holding the broker's current view (C07 bound: one round), also when
     the broker history restarted from a snapshot (C13: no monotonicity assumed, only "served epoch > installed epoch")
   - migration-sync round: every reported migration is committed (exactly once by CtrlProofsMain) *)
From UM Require Import Base.BytesDef Model.Ctrl Proofs.CtrlProofsInv Proofs.CtrlProofsMain.
From Coq Require Import ZifyBool ZifyNat ZifyN.

Definition queue_free (k : coord) (st : state) : Prop := forall kc, In kc (queue st) -> fst kc <> k.

Lemma take_first_free_app : forall k q c r,
  (forall kc, In kc q -> fst kc <> k) -> take_first k (q ++ (k, c) :: r) = Some (c, q ++ r).
Proof.
  induction q as [|[k' c'] q IH]; intros c r H; cbn [app take_first].
  - rewrite N.eqb_refl. reflexivity.
  - destruct (N.eqb k k') eqn:E.
    + apply N.eqb_eq in E. exfalso. apply (H (k', c')); [left; reflexivity | cbn; congruence].
    + rewrite IH; [reflexivity|]. intros kc Hk. apply H. right; assumption.
Qed.

Lemma nth_error_app_last {A} : forall (l : list A) c, nth_error (l ++ [c]) (length l) = Some c.
Proof. intros. rewrite nth_error_app2 by lia. rewrite Nat.sub_diag. reflexivity. Qed.

Lemma remove_nth_app_last {A} : forall (l : list A) c, remove_nth (length l) (l ++ [c]) = l.
Proof. induction l as [|x l IH]; intros c; cbn [length app remove_nth]; [reflexivity | rewrite IH; reflexivity]. Qed.

Section Round.
Variable served : nat -> addr -> option (N * N).
Notation step := (step served).
Notation run := (run served).
Notation Inv := (Inv served).

(* ---------- one fault-free send of the current view to proxy a ---------- *)

Definition ff_events (k : coord) (a : addr) (tag : N) (i : nat) : list event :=
  [Fetch k a tag; Issue k; Deliver i; Issue k; Deliver i].

Lemma ff_effect : forall s k a tag E C,
  queue_free k s -> served (now s) a = Some (E, C) ->
  let s' := run (ff_events k a tag (length (net s))) s in
  now s' = now s /\ queue s' = queue s /\ net s' = net s /\ pending s' = pending s /\ commits s' = commits s /\
  (forall b kd, installed s' b kd = if N.eqb b a then fst (accept (installed s b kd) E C) else installed s b kd).
Proof.
  intros s k a tag E C Hq HS. unfold ff_events, Ctrl.run. cbn [fold_left].
  set (c1 := {| c_tag := tag; c_to := a; c_kind := KRepl; c_epoch := E; c_content := C; c_time := now s |}).
  set (c2 := {| c_tag := tag; c_to := a; c_kind := KCluster; c_epoch := E; c_content := C; c_time := now s |}).
  set (p1 := fst (deliver_to (lookup (proxies s) a) c1)).
  set (r1 := snd (deliver_to (lookup (proxies s) a) c1)).
  set (ps1 := (a, p1) :: proxies s).
  set (p2 := fst (deliver_to (lookup ps1 a) c2)).
  set (r2 := snd (deliver_to (lookup ps1 a) c2)).
  pose (s1 := {| now := now s; proxies := proxies s; queue := queue s ++ [(k, c1); (k, c2)]; net := net s;
                 pending := pending s; started := started s; commits := commits s; dlog := dlog s; rlog := rlog s |}).
  pose (s2 := {| now := now s; proxies := proxies s; queue := queue s ++ [(k, c2)]; net := net s ++ [c1];
                 pending := pending s; started := started s; commits := commits s; dlog := dlog s; rlog := rlog s |}).
  pose (s3 := {| now := now s; proxies := ps1; queue := queue s ++ [(k, c2)]; net := net s;
                 pending := pending s; started := started s; commits := commits s;
                 dlog := (c1, r1) :: dlog s; rlog := rlog s |}).
  pose (s4 := {| now := now s; proxies := ps1; queue := queue s ++ []; net := net s ++ [c2];
                 pending := pending s; started := started s; commits := commits s;
                 dlog := (c1, r1) :: dlog s; rlog := rlog s |}).
  pose (s5 := {| now := now s; proxies := (a, p2) :: ps1; queue := queue s ++ []; net := net s;
                 pending := pending s; started := started s; commits := commits s;
                 dlog := (c2, r2) :: (c1, r1) :: dlog s; rlog := rlog s |}).
  assert (E1 : step s (Fetch k a tag) = s1).
  { cbn [Ctrl.step]. rewrite HS. reflexivity. }
  assert (E2 : step s1 (Issue k) = s2).
  { unfold s1. cbn [Ctrl.step queue]. rewrite take_first_free_app by exact Hq. reflexivity. }
  assert (E3 : step s2 (Deliver (length (net s))) = s3).
  { unfold s2. cbn [Ctrl.step net]. rewrite nth_error_app_last. rewrite remove_nth_app_last.
    cbn [proxies c_to c1]. rewrite (deliver_to_split (lookup (proxies s) a) c1). reflexivity. }
  assert (E4 : step s3 (Issue k) = s4).
  { unfold s3. cbn [Ctrl.step queue]. rewrite take_first_free_app by exact Hq. reflexivity. }
  assert (E5 : step s4 (Deliver (length (net s))) = s5).
  { unfold s4. cbn [Ctrl.step net]. rewrite nth_error_app_last. rewrite remove_nth_app_last.
    cbn [proxies c_to c2]. rewrite (deliver_to_split (lookup ps1 a) c2). reflexivity. }
  rewrite E1, E2, E3, E4, E5. unfold s5.
  cbn [now queue net pending commits]. rewrite app_nil_r.
  repeat (split; [reflexivity|]).
  intros b kd. unfold installed. cbn [proxies].
  pose proof (deliver_installed ps1 c2 b kd) as D2. cbn [c_to c_kind c_epoch c_content c2] in D2.
  fold p2 in D2. rewrite D2. clear D2.
  pose proof (deliver_installed (proxies s) c1 b kd) as D1. cbn [c_to c_kind c_epoch c_content c1] in D1.
  fold p1 in D1. fold ps1 in D1. rewrite D1. clear D1.
  destruct (N.eqb b a); [|reflexivity].
  destruct kd.
  - destruct (kind_eq_dec KCluster KRepl) as [X|_]; [discriminate|].
    destruct (kind_eq_dec KRepl KRepl) as [_|X]; [reflexivity | congruence].
  - destruct (kind_eq_dec KCluster KCluster) as [_|X]; [|congruence].
    destruct (kind_eq_dec KRepl KCluster) as [X|_]; [discriminate | reflexivity].
Qed.

(* ---------- the compiled code under the empty script ---------- *)

Variable reports : nat -> list mig.
Notation ff := (no_faults reports).

Lemma sync_proxy_ff : forall k a n s,
  queue_free k s ->
  sync_proxy served ff k a n s =
  match served (now s) a with
  | None => ([], S n, Continue)
  | Some _ => (ff_events k a (N.of_nat n) (length (net s)), S (S (S n)), Continue)
  end.
Proof.
  intros k a n s Hq. unfold sync_proxy. cbn [sc_fault sc_inject no_faults].
  rewrite run_nil. destruct (served (now s) a) as [[E C]|] eqn:HS; [|reflexivity].
  cbn [app]. unfold send_call. cbn [sc_fault sc_inject no_faults]. rewrite !run_nil. cbn [app].
  (* first send: the net is unchanged by Fetch *)
  assert (L1 : length (net (run [Fetch k a (N.of_nat n)] s)) = length (net s)).
  { unfold Ctrl.run. cbn [fold_left Ctrl.step]. rewrite HS. reflexivity. }
  rewrite L1.
  assert (L2 : length (net (run ([Fetch k a (N.of_nat n)] ++ [Issue k; Deliver (length (net s))]) s)) = length (net s)).
  { cbn [app]. unfold Ctrl.run. cbn [fold_left]. cbn [Ctrl.step]. rewrite HS. cbn [queue].
    rewrite take_first_free_app by exact Hq. cbn [net]. rewrite nth_error_app_last.
    match goal with |- context [deliver_to ?p ?c] => rewrite (deliver_to_split p c) end.
    cbn [net]. rewrite remove_nth_app_last. reflexivity. }
  cbn [app] in L2. rewrite L2. reflexivity.
Qed.

(* the loop over the proxies, fault-free: the broker is not touched, the queue of k is empty again, no proxy restarts,
   and every visited proxy with a view has been offered that view for both kinds *)
Lemma meta_round_from_ff : forall addrs k n s,
  queue_free k s ->
  let evs := fst (fst (meta_round_from served ff k addrs n s)) in
  let s' := run evs s in
  now s' = now s /\ queue s' = queue s /\ pending s' = pending s /\ commits s' = commits s /\
  (forall x, no_restart x evs = true) /\
  (forall b kd, ~ In b addrs -> installed s' b kd = installed s b kd) /\
  (forall a E C kd, In a addrs -> served (now s) a = Some (E, C) ->
     E <= k_epoch (installed s' a kd) /\
     (k_epoch (installed s a kd) < E \/ installed s a kd = {| k_epoch := E; k_content := C |} ->
      installed s' a kd = {| k_epoch := E; k_content := C |})).
Proof.
  induction addrs as [|a addrs IH]; intros k n s Hq.
  - cbn [meta_round_from fst]. rewrite run_nil. repeat split; auto; try contradiction.
  - cbn [meta_round_from]. rewrite sync_proxy_ff by assumption.
    destruct (served (now s) a) as [[Ea Ca]|] eqn:HS.
    + set (e1 := ff_events k a (N.of_nat n) (length (net s))).
      destruct (ff_effect s k a (N.of_nat n) Ea Ca Hq HS) as [F1 [F2 [F3 [F4 [F5 F6]]]]].
      fold e1 in F1, F2, F3, F4, F5, F6.
      set (s1 := run e1 s) in *.
      assert (Hq1 : queue_free k s1) by (unfold queue_free; rewrite F2; exact Hq).
      specialize (IH k (S (S (S n))) s1 Hq1).
      destruct (meta_round_from served ff k addrs (S (S (S n))) s1) as [[e2 n2] o2] eqn:M.
      cbn [fst] in *. rewrite run_app. fold s1.
      destruct IH as [G1 [G2 [G3 [G4 [G5 [G6 G7]]]]]].
      split; [congruence|]. split; [congruence|]. split; [congruence|]. split; [congruence|].
      split; [intros x; rewrite no_restart_app; rewrite G5; reflexivity|].
      split.
      * intros b kd Hb. rewrite G6 by (intros X; apply Hb; right; exact X).
        rewrite F6. destruct (N.eqb b a) eqn:Eb; [|reflexivity].
        apply N.eqb_eq in Eb. exfalso. apply Hb. left; congruence.
      * intros a' E C kd Hin HS'.
        destruct (N.eq_dec a' a) as [-> | Hne].
        -- rewrite HS in HS'. inversion HS'; subst Ea Ca. clear HS'.
           pose proof (F6 a kd) as Fa. rewrite N.eqb_refl in Fa.
           assert (Mono : k_epoch (installed s1 a kd) <= k_epoch (installed (run e2 s1) a kd))
             by (apply epoch_run_mono; apply G5).
           split.
           ++ pose proof (accept_epoch_ge (installed s a kd) E C). rewrite <- Fa in H. lia.
           ++ intros Hpre.
              assert (X1 : installed s1 a kd = {| k_epoch := E; k_content := C |}).
              { rewrite Fa. destruct Hpre as [Hlt | Heq].
                - destruct (accept_cases (installed s a kd) E C) as [[Hle _] | [_ ->]]; [lia | reflexivity].
                - rewrite Heq. unfold accept. cbn [k_epoch]. rewrite N.leb_refl. reflexivity. }
              destruct (in_dec N.eq_dec a addrs) as [Hi | Hni].
              ** rewrite <- F1 in HS. destruct (G7 a E C kd Hi HS) as [_ G]. apply G. right; exact X1.
              ** rewrite G6 by assumption. exact X1.
        -- destruct Hin as [-> | Hin]; [congruence|].
           rewrite <- F1 in HS'. destruct (G7 a' E C kd Hin HS') as [Ga Gb].
           pose proof (F6 a' kd) as Fa. apply N.eqb_neq in Hne. rewrite Hne in Fa.
           split; [exact Ga|]. intros Hpre. apply Gb. rewrite Fa. exact Hpre.
    + (* proxy unknown to the broker: nothing sent *)
      rewrite run_nil. specialize (IH k (S n) s Hq).
      destruct (meta_round_from served ff k addrs (S n) s) as [[e2 n2] o2] eqn:M.
      cbn [fst app] in *.
      destruct IH as [G1 [G2 [G3 [G4 [G5 [G6 G7]]]]]].
      repeat (split; [assumption|]).
      split.
      * intros b kd Hb. apply G6. intros X. apply Hb. right; exact X.
      * intros a' E C kd [-> | Hin] HS'; [congruence|]. apply G7; assumption.
Qed.

Lemma meta_round_ff_events : forall k addrs n s,
  fst (fst (meta_round served ff k addrs n s)) = fst (fst (meta_round_from served ff k addrs (S n) s)).
Proof.
  intros. unfold meta_round, listing. cbn [sc_fault sc_inject no_faults]. rewrite run_nil.
  destruct (meta_round_from served ff k addrs (S n) s) as [[e1 n1] o1]. reflexivity.
Qed.

(* C13 half: no assumption on the history; the recovered epochs are above everything installed *)
Theorem reconverge_round : forall k addrs n s,
  queue_free k s ->
  (forall a E C kd, In a addrs -> served (now s) a = Some (E, C) -> k_epoch (installed s a kd) < E) ->
  let s' := run (fst (fst (meta_round served ff k addrs n s))) s in
  forall a E C kd, In a addrs -> served (now s) a = Some (E, C) ->
    installed s' a kd = {| k_epoch := E; k_content := C |}.
Proof.
  intros k addrs n s Hq Hlt s' a E C kd Hin HS. unfold s'. rewrite meta_round_ff_events.
  destruct (meta_round_from_ff addrs k (S n) s Hq) as [_ [_ [_ [_ [_ [_ G]]]]]].
  destruct (G a E C kd Hin HS) as [_ G']. apply G'. left. eapply Hlt; eauto.
Qed.

End Round.

(* C07: one complete fault-free meta-sync round from any reachable state, whatever is still in flight *)
Section RoundC07.
Variable served : nat -> addr -> option (N * N).
Hypothesis served_mono : served_mono_prop served.
Hypothesis served_same_epoch_same_content : served_same_prop served.
Notation run := (run served).

Theorem converge_round_inv : forall reports k addrs n s,
  Inv served s -> queue_free k s ->
  let s' := run (fst (fst (meta_round served (no_faults reports) k addrs n s))) s in
  now s' = now s /\
  forall a E C kd, In a addrs -> served (now s) a = Some (E, C) -> 0 < E ->
    installed s' a kd = {| k_epoch := E; k_content := C |}.
Proof.
  intros reports k addrs n s I Hq s'. unfold s'. rewrite meta_round_ff_events.
  destruct (meta_round_from_ff served reports addrs k (S n) s Hq) as [G1 [_ [_ [_ [_ [_ G]]]]]].
  split; [exact G1|].
  intros a E C kd Hin HS HE. destruct (G a E C kd Hin HS) as [Gge _].
  set (sf := run (fst (fst (meta_round_from served (no_faults reports) k addrs (S n) s))) s) in *.
  assert (If : Inv served sf) by (apply Inv_run; assumption).
  rewrite <- G1 in HS.
  pose proof (installed_le_current served served_mono sf a kd E C If HS) as Hle.
  destruct (inv_prox served sf If a kd) as [H0 | [t [Ht Hs]]]; [lia|].
  assert (Eq : k_epoch (installed sf a kd) = E) by lia.
  apply kstate_eq; auto. rewrite Eq in Hs. eapply served_same_epoch_same_content; eauto.
Qed.

End RoundC07.
