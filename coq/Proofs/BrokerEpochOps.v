(* C04: every operation function of Model/Broker.v leads to a `good` successor store
   (served pair of every address unchanged or served at an epoch above the old global epoch; global epoch monotone;
    epoch_inv preserved). *)
From UM Require Import Base.BytesDef Model.Ranges Model.Broker Proofs.BrokerBase Proofs.BrokerEpochReach Proofs.BrokerEpochInv.
From Coq Require Import ZifyBool ZifyNat ZifyN Lia.

Ltac dmatch :=
  repeat match goal with
         | |- context [match ?x with _ => _ end] => destruct x eqn:?
         end.

Ltac ep_simpl :=
  cbn [fst snd cl_epoch cl_chunks cl_config st_epoch st_clusters st_proxies st_failed st_failures st_ordered
       bump with_epoch with_clusters with_proxies with_failed with_failures set_cl_epoch].

Tactic Notation "ins_tac" constr(n) uconstr(l1) uconstr(l2) :=
  eapply (good_insert _ _ n _ l1 l2); [reflexivity | reflexivity | ep_simpl; lia | ep_simpl; lia].

Ltac frame_tac := apply good_frame; ep_simpl; solve [reflexivity | lia].

(* ---------- proxies ---------- *)
Lemma good_new_proxy s s' a r :
  st_clusters s' = st_clusters s -> st_proxies s' = ainsert a r (st_proxies s) -> pr_cluster r = None ->
  st_epoch s < st_epoch s' -> good s s'.
Proof.
  intros Ec Ep Hr He. split; [lia|]. intros (H1 & H2 & H3). split.
  - apply step_rel_build; [lia| |].
    + intros n. left. rewrite Ec. reflexivity.
    + intros a0. unfold pr_rel. rewrite Ep, alookup_ainsert. destruct (N.eqb a0 a); [|left; reflexivity].
      right. rewrite Hr. exact He.
  - unfold epoch_inv. rewrite Ec, Ep. repeat split; auto.
    + apply ainsert_sorted; exact H2.
    + intros n c Hn. specialize (H3 _ _ Hn). lia.
Qed.

Lemma good_del_proxy s s' a :
  st_clusters s' = st_clusters s -> st_proxies s' = aremove a (st_proxies s) ->
  st_epoch s <= st_epoch s' -> good s s'.
Proof.
  intros Ec Ep He. split; [lia|]. intros (H1 & H2 & H3). split.
  - apply step_rel_build; [lia| |].
    + intros n. left. rewrite Ec. reflexivity.
    + intros a0. unfold pr_rel. rewrite Ep, (alookup_aremove _ _ _ H2). destruct (N.eqb a0 a); [right; exact I|left; reflexivity].
  - unfold epoch_inv. rewrite Ec, Ep. repeat split; auto.
    + apply aremove_sorted; exact H2.
    + intros n c Hn. specialize (H3 _ _ Hn). lia.
Qed.

Lemma good_add_proxy s a h i : good s (fst (add_proxy s a h i)).
Proof.
  unfold add_proxy. destruct (if st_ordered s then i else Some 0) as [idx|]; [|apply good_refl].
  cbn [fst]. destruct (amem a (st_proxies s)) eqn:Ex.
  - cbn [negb orb]. destruct (smem a (st_failed s) || amem a (st_failures s)); frame_tac.
  - cbn [negb orb]. eapply good_new_proxy; ep_simpl; try reflexivity. lia.
Qed.

Lemma good_remove_proxy s a : good s (fst (remove_proxy s a)).
Proof.
  unfold remove_proxy. destruct (alookup a (st_proxies s)) as [r|]; [|apply good_refl].
  destruct (pr_cluster r); [apply good_refl|].
  cbn [fst]. eapply good_del_proxy; ep_simpl; try reflexivity. lia.
Qed.

(* ---------- clusters ---------- *)
Lemma good_add_cluster s n k cfg ch : good s (fst (add_cluster s n k cfg ch)).
Proof.
  unfold add_cluster. dmatch; cbn [fst]; try apply good_refl.
  cbv zeta. ins_tac n [] _.
Qed.

Lemma good_remove_cluster s n : good s (fst (remove_cluster s n)).
Proof.
  unfold remove_cluster. dmatch; cbn [fst]; try apply good_refl.
  cbv zeta. eapply good_remove with (name := n); [reflexivity|reflexivity|ep_simpl; lia].
Qed.

Lemma good_auto_add_nodes s n k ch : good s (fst (auto_add_nodes s n k ch)).
Proof.
  unfold auto_add_nodes. dmatch; cbn [fst]; try apply good_refl.
  cbv zeta. ins_tac n [] _.
Qed.

Lemma good_auto_scale_up s n k ch : good s (fst (auto_scale_up_nodes s n k ch)).
Proof.
  unfold auto_scale_up_nodes. dmatch; cbn [fst]; try apply good_refl. apply good_auto_add_nodes.
Qed.

Lemma good_auto_delete s n : good s (fst (auto_delete_free_nodes s n)).
Proof.
  unfold auto_delete_free_nodes. dmatch; cbn [fst]; try apply good_refl.
  cbv zeta. ins_tac n _ [].
Qed.

Lemma good_auto_delete_if s n : good s (fst (auto_delete_free_nodes_if_exists s n)).
Proof.
  unfold auto_delete_free_nodes_if_exists. pose proof (good_auto_delete s n) as H.
  destruct (auto_delete_free_nodes s n) as [s1 r1]. cbn [fst] in H.
  dmatch; cbn [fst]; exact H.
Qed.

(* ---------- migration ---------- *)
Lemma good_migrate_slots s n : good s (fst (migrate_slots s n)).
Proof.
  unfold migrate_slots. cbv zeta. dmatch; cbn [fst]; try frame_tac.
  ins_tac n [] [].
Qed.

Lemma good_scale_down s n k : good s (fst (migrate_slots_to_scale_down s n k)).
Proof.
  unfold migrate_slots_to_scale_down. cbv zeta. dmatch; cbn [fst]; try frame_tac.
  ins_tac n [] [].
Qed.

Lemma good_commit s n rl tag e : good s (fst (commit_migration s n rl tag e)).
Proof.
  unfold commit_migration. cbv zeta. dmatch; cbn [fst]; try apply good_refl.
  all: ins_tac n [] [].
Qed.

Lemma good_commit_api s n rl tag e clr : good s (fst (commit_migration_api s n rl tag e clr)).
Proof.
  unfold commit_migration_api. pose proof (good_commit s n rl tag e) as H.
  destruct (commit_migration s n rl tag e) as [s1 r1]. cbn [fst] in H.
  dmatch; cbn [fst]; try exact H.
  eapply good_trans; [exact H|]. apply good_auto_delete_if.
Qed.

(* ---------- failover ---------- *)
Lemma takeover_epoch cl failed e : takeover_master cl failed e = cl \/ cl_epoch (takeover_master cl failed e) = e.
Proof. unfold takeover_master. destruct (takeover_first (cl_chunks cl) failed e) as [[chunks ps]|]; [right|left]; reflexivity. Qed.

Lemma good_replace s a ch : good s (fst (replace_failed_proxy s a ch)).
Proof.
  unfold replace_failed_proxy.
  destruct (alookup a (st_proxies s)) as [fr|]; [|apply good_refl].
  destruct (pr_cluster fr) as [name|]; [|cbn [fst]; frame_tac].
  cbv zeta.
  destruct (alookup name (st_clusters (bump s))) as [cl|] eqn:Ecl; [|cbn [fst]; frame_tac].
  change (st_clusters (bump s)) with (st_clusters s) in Ecl.
  set (s2 := with_clusters (bump s) (ainsert name (takeover_master cl a (st_epoch (bump s))) (st_clusters (bump s)))).
  assert (G2 : good s s2).
  { destruct (takeover_epoch cl a (st_epoch (bump s))) as [E|E].
    - unfold s2. rewrite E. eapply good_reinsert with (name := name); [exact Ecl|reflexivity|reflexivity|ep_simpl; lia].
    - eapply (good_insert _ _ name _ [] []); [reflexivity|reflexivity|rewrite E; unfold s2; ep_simpl; lia|rewrite E; unfold s2; ep_simpl; lia]. }
  destruct (st_ordered s2) eqn:Eord.
  - cbn [fst]. eapply good_trans; [exact G2|]. frame_tac.
  - set (s3 := with_failed s2 (sinsert a (st_failed s2))).
    assert (G3 : good s s3) by (eapply good_trans; [exact G2|]; unfold s3; frame_tac).
    destruct (generate_new_free_proxy s3 a ch) as [r|e|]; cbn [fst]; try exact G3.
    destruct (alookup name (st_clusters (bump s3))) as [cl2|]; cbn [fst].
    + eapply good_trans; [exact G3|].
      ins_tac name [a] [r].
    + eapply good_trans; [exact G3|]. frame_tac.
Qed.

Lemma good_balance s n : good s (fst (balance_masters s n)).
Proof.
  unfold balance_masters. dmatch; cbn [fst]; try apply good_refl.
  ins_tac n [] [].
Qed.

Lemma good_change_config s n v c : good s (fst (change_config s n v c)).
Proof.
  unfold change_config. dmatch; cbn [fst]; try apply good_refl.
  ins_tac n [] [].
Qed.

(* ---------- failure reports ---------- *)
Lemma good_add_failure s a r now : good s (fst (add_failure s a r now)).
Proof. unfold add_failure. dmatch; cbn [fst]; try apply good_refl; frame_tac. Qed.

Lemma good_get_failures s now ttl q : good s (fst (get_failures s now ttl q)).
Proof. unfold get_failures. cbn [fst]. frame_tac. Qed.

Lemma good_cleanup_failures s now ttl q : good s (fst (cleanup_failures s now ttl q)).
Proof. unfold cleanup_failures. cbn [fst]. apply good_get_failures. Qed.

(* ---------- epochs ---------- *)
Lemma good_force_bump s e : good s (fst (force_bump_all_epoch s e)).
Proof.
  unfold force_bump_all_epoch. destruct (N.leb e (st_epoch s)) eqn:E; cbn [fst]; [apply good_refl|].
  apply good_setall. apply N.leb_gt in E. exact E.
Qed.

Lemma good_recover s e : good s (recover_epoch s e).
Proof. unfold recover_epoch. apply good_setall. lia. Qed.

(* ---------- composite node-number API ---------- *)
Lemma good_auto_scale_out s n k : good s (fst (auto_scale_out_node_number s n k)).
Proof. unfold auto_scale_out_node_number. dmatch; cbn [fst]; try apply good_refl. apply good_migrate_slots. Qed.

Lemma good_auto_change s n k ch : good s (fst (auto_change_node_number s n k ch)).
Proof.
  unfold auto_change_node_number.
  destruct (alookup n (st_clusters s)); [|apply good_refl].
  destruct (cluster_is_migrating c); [apply good_refl|].
  pose proof (good_auto_delete s n) as H.
  destruct (auto_delete_free_nodes s n) as [s1 r1]. cbn [fst] in H.
  assert (Hup : good s (fst (auto_scale_up_nodes s1 n k ch)))
    by (eapply good_trans; [exact H|apply good_auto_scale_up]).
  assert (Hdn : good s (fst (migrate_slots_to_scale_down s1 n k)))
    by (eapply good_trans; [exact H|apply good_scale_down]).
  destruct (auto_scale_up_nodes s1 n k ch) as [s2 r2].
  destruct (migrate_slots_to_scale_down s1 n k) as [s3 r3].
  cbn [fst] in *.
  dmatch; cbn [fst]; assumption.
Qed.

(* ---------- restore ---------- *)
Lemma restore_epoch_mono s snap : st_epoch s <= st_epoch (fst (restore s snap)).
Proof. unfold restore. destruct (N.ltb (st_epoch snap) (st_epoch s)) eqn:E; cbn [fst]; [lia|]. apply N.ltb_ge in E. exact E. Qed.

Lemma restore_inv s snap : epoch_inv s -> epoch_inv snap -> epoch_inv (fst (restore s snap)).
Proof. unfold restore. destruct (N.ltb (st_epoch snap) (st_epoch s)); cbn [fst]; auto. Qed.

(* ---------- step ---------- *)
Definition restore_ok (s : store) (o : op) : Prop := exists snap, o = ORestore snap /\ snd (step s o) = ROk.

Lemma fst_lift_unit r : fst (lift_unit r) = fst r.
Proof. destruct r as [s []]; reflexivity. Qed.

Lemma good_step s o : ~ restore_ok s o -> good s (fst (step s o)).
Proof.
  intros Hno. destruct o; cbn [step]; rewrite ?fst_lift_unit.
  - apply good_add_proxy.
  - apply good_remove_proxy.
  - apply good_add_cluster.
  - apply good_remove_cluster.
  - apply good_auto_add_nodes.
  - apply good_auto_scale_up.
  - apply good_auto_delete.
  - apply good_migrate_slots.
  - apply good_scale_down.
  - apply good_commit_api.
  - destruct (nth_out_entry s name j); rewrite fst_lift_unit; apply good_commit_api.
  - pose proof (good_auto_change s name expected choices) as H.
    destruct (auto_change_node_number s name expected choices) as [s' []]; exact H.
  - apply good_auto_scale_out.
  - pose proof (good_replace s addr choice) as H.
    destruct (replace_failed_proxy s addr choice) as [s' []]; exact H.
  - apply good_balance.
  - apply good_change_config.
  - pose proof (good_add_failure s addr reporter now) as H.
    destruct (add_failure s addr reporter now) as [s' b]; exact H.
  - pose proof (good_get_failures s now ttl quorum) as H.
    destruct (get_failures s now ttl quorum) as [s' l]; exact H.
  - pose proof (good_cleanup_failures s now ttl quorum) as H.
    destruct (cleanup_failures s now ttl quorum) as [s' b]; exact H.
  - apply good_force_bump.
  - apply good_recover.
  - unfold restore. destruct (N.ltb (st_epoch snapshot) (st_epoch s)) eqn:E; cbn [fst]; [apply good_refl|].
    exfalso. apply Hno. exists snapshot. split; [reflexivity|]. cbn [step]. unfold restore. rewrite E. reflexivity.
Qed.

(* global epoch: every operation, Restore included, no invariant needed *)
Lemma global_mono s o : st_epoch s <= st_epoch (fst (step s o)).
Proof.
  destruct (is_restore o) eqn:E.
  - destruct o; try discriminate. cbn [step]. rewrite fst_lift_unit. apply restore_epoch_mono.
  - assert (Hno : ~ restore_ok s o) by (intros [snap [-> _]]; discriminate).
    exact (proj1 (good_step s o Hno)).
Qed.
