(* C10, balance half: every reachable store keeps every cluster balanced (balance_inv), a balanced cluster without
   pending migration is an exact fair partition, the two slot-migration planners never panic, and every successful commit
   removes exactly one pending migration.
   Pieces: BrokerBalanceDefs (definitions, share arithmetic, compaction keeps slot numbers), BrokerBalanceFrame (operations
   that do not move slots, node addition / removal), BrokerBalanceCreate (add_cluster), BrokerBalanceCommit (commit and the
   progress measure), BrokerBalanceOutNum / BrokerBalanceDownNum (numbers of the two planners), BrokerBalanceAssign
   (assign_dst_slots), BrokerBalanceOutTotal / BrokerBalanceDownTotal (the planners terminate with Done). *)
From UM Require Import Base.BytesDef Model.Ranges Model.Broker Proofs.BrokerBase Proofs.BrokerPartRanges Proofs.BrokerPartDefs
  Proofs.BrokerPartMigrateBase Proofs.BrokerPartMigrateSum Proofs.BrokerPartMigrateOut Proofs.BrokerPartMigrateDown
  Proofs.BrokerPartMigrateBounds Proofs.BrokerPartMigrate
  Proofs.BrokerPartOpsFrame Proofs.BrokerPartOpsNodes Proofs.BrokerPartOpsCommit Proofs.BrokerPartOps Proofs.BrokerPartMain
  Proofs.BrokerScale
  Proofs.BrokerBalanceDefs Proofs.BrokerBalanceCompact Proofs.BrokerBalancePlanDefs Proofs.BrokerBalanceQuiet
  Proofs.BrokerBalanceFrame Proofs.BrokerBalanceCreate Proofs.BrokerBalanceCommit Proofs.BrokerBalanceAssign
  Proofs.BrokerBalanceOutNum Proofs.BrokerBalanceDownNum Proofs.BrokerBalanceOutTotal Proofs.BrokerBalanceDownTotal.
From Coq Require Import ZifyBool ZifyNat ZifyN.

(* ---------- the two planners establish the new balance ---------- *)
Lemma no_migs_same l : BrokerPartMigrateBase.no_migs l -> BrokerPartOpsNodes.no_migs l.
Proof. intros H. exact H. Qed.

(* cluster level: the new number of slot-holding chunks is explicit *)
Theorem migrate_plan_balanced_at cl epoch chunks migs chunks' :
  part_inv (cl_chunks cl) -> balance_inv (cl_chunks cl) -> cluster_is_migrating cl = false ->
  remove_slots_from_src cl epoch = Done (chunks, migs) -> assign_dst_slots chunks migs = Done chunks' ->
  balanced_at (length (cl_chunks cl)) (compact_slots chunks') /\ length (compact_slots chunks') = length (cl_chunks cl).
Proof.
  intros Hinv [k Hk] Em Er Ea.
  pose proof (remove_src_ok cl _ chunks migs Hinv Em Er) as Hok.
  pose proof (remove_src_length cl _ chunks migs Er) as Hlen.
  destruct (scale_out_remove_numbers cl _ k chunks migs Hinv Em Hk Er) as [Hnum Hdst].
  pose proof Hk as (Hk0 & Hkl & _).
  assert (Hb : balanced_at (length (cl_chunks cl)) chunks').
  { apply (plan_balanced (length (cl_chunks cl)) chunks migs chunks'); [lia|lia|exact (ro_no_migs _ _ Hok)|exact Ea| | |exact Hdst].
    - intros i c p Hn _. apply Hnum. exact Hn.
    - intros i c p Hn Hi. assert (i < length chunks)%nat by (apply nth_error_Some; congruence). lia. }
  split.
  - apply balanced_at_compact; [eapply assign_part_inv_of_remove; eassumption|exact Hb].
  - unfold compact_slots. rewrite map_length. destruct Hb as (_ & _ & _). 
    destruct (assign_numeric migs chunks chunks' Ea) as [Hl _]. lia.
Qed.

Theorem scale_down_plan_balanced_at cl epoch k chunks migs chunks' :
  part_inv (cl_chunks cl) -> balance_inv (cl_chunks cl) -> cluster_is_migrating cl = false ->
  existsb has_empty_stable (cl_chunks cl) = false -> (0 < k)%nat -> (k <= length (cl_chunks cl))%nat ->
  remove_slots_from_src_to_scale_down cl epoch k = Done (chunks, migs) -> assign_dst_slots chunks migs = Done chunks' ->
  balanced_at k (compact_slots chunks') /\ length (compact_slots chunks') = length (cl_chunks cl).
Proof.
  intros Hinv [k0 Hk0] Em Ee Hkpos Hkle Er Ea.
  pose proof (BrokerPartMigrateBase.not_migrating_no_migs cl Em) as Hno.
  assert (k0 = length (cl_chunks cl)) by (eapply all_stable_k; eassumption). subst k0.
  pose proof (remove_src_down_ok cl _ k chunks migs Hinv Em Hkpos Er) as Hok.
  pose proof (remove_src_down_length cl _ k chunks migs Er) as Hlen.
  destruct (scale_down_remove_numbers cl _ k chunks migs Hinv Em Hk0 Hkpos Hkle Er) as (Hnum & Hnone & Hdst).
  split.
  - apply balanced_at_compact; [eapply assign_part_inv_of_remove; eassumption|].
    apply (plan_balanced k chunks migs chunks'); [exact Hkpos|lia|exact (ro_no_migs _ _ Hok)|exact Ea|exact Hnum|exact Hnone|exact Hdst].
  - unfold compact_slots. rewrite map_length. destruct (assign_numeric migs chunks chunks' Ea) as [Hl _]. lia.
Qed.

(* the arithmetic of the request: 0 < n/4 < number of chunks *)
Lemma scale_down_request_k n len :
  N.eqb n 0 || negb (N.eqb (n mod 4) 0) || N.leb (4 * N.of_nat len) n = false ->
  (0 < N.to_nat (n / 4))%nat /\ (N.to_nat (n / 4) < len)%nat.
Proof.
  intros E3. apply orb_false_iff in E3. destruct E3 as [E3 E3c]. apply orb_false_iff in E3. destruct E3 as [E3a E3b].
  apply negb_false_iff in E3b.
  assert (Hn4 : 4 <= n).
  { assert (n <> 0) by lia. assert (n mod 4 = 0) by lia. pose proof (N.div_mod n 4 ltac:(lia)) as Hdm. lia. }
  assert (Hq1 : 1 <= n / 4) by (apply N.div_le_lower_bound; lia).
  assert (Hq2 : n / 4 < N.of_nat len) by (apply N.div_lt_upper_bound; lia).
  lia.
Qed.

Theorem migrate_slots_balance s name :
  store_part_inv s -> store_balance_inv s -> store_balance_inv (fst (migrate_slots s name)).
Proof.
  intros Hp Hb. unfold migrate_slots.
  assert (Hb1 : store_balance_inv (bump s)) by exact Hb.
  assert (Hp1 : store_part_inv (bump s)) by exact Hp.
  destruct (alookup name (st_clusters (bump s))) as [cl|] eqn:El; [|exact Hb1].
  destruct (negb (existsb has_empty_stable (cl_chunks cl))); [exact Hb1|].
  destruct (cluster_is_migrating cl) eqn:Em; [exact Hb1|].
  destruct (remove_slots_from_src cl (st_epoch (bump s))) as [[chunks migs]|e|] eqn:Er; [|exact Hb1|exact Hb1].
  destruct (assign_dst_slots chunks migs) as [chunks'|e|] eqn:Ea; [|exact Hb1|exact Hb1].
  cbn [fst]. eapply store_balance_insert; [exact Hb1| |reflexivity]. cbn [cl_chunks].
  apply alookup_In in El.
  exists (length (cl_chunks cl)).
  apply (migrate_plan_balanced_at cl _ chunks migs chunks' (Hp1 _ _ El) (Hb1 _ _ El) Em Er Ea).
Qed.

Theorem scale_down_balance s name n :
  store_part_inv s -> store_balance_inv s -> store_balance_inv (fst (migrate_slots_to_scale_down s name n)).
Proof.
  intros Hp Hb. unfold migrate_slots_to_scale_down.
  assert (Hb1 : store_balance_inv (bump s)) by exact Hb.
  assert (Hp1 : store_part_inv (bump s)) by exact Hp.
  destruct (alookup name (st_clusters (bump s))) as [cl|] eqn:El; [|exact Hb1].
  destruct (existsb has_empty_stable (cl_chunks cl)) eqn:Ee; [exact Hb1|].
  destruct (cluster_is_migrating cl) eqn:Em; [exact Hb1|].
  destruct (N.eqb n 0 || negb (N.eqb (n mod 4) 0) || N.leb (4 * N.of_nat (length (cl_chunks cl))) n) eqn:E3; [exact Hb1|].
  destruct (remove_slots_from_src_to_scale_down cl (st_epoch (bump s)) (N.to_nat (n / 4))) as [[chunks migs]|e|] eqn:Er;
    [|exact Hb1|exact Hb1].
  destruct (assign_dst_slots chunks migs) as [chunks'|e|] eqn:Ea; [|exact Hb1|exact Hb1].
  cbn [fst]. eapply store_balance_insert; [exact Hb1| |reflexivity]. cbn [cl_chunks].
  apply alookup_In in El.
  destruct (scale_down_request_k n _ E3) as [Hk1 Hk2].
  exists (N.to_nat (n / 4)).
  apply (scale_down_plan_balanced_at cl _ _ chunks migs chunks' (Hp1 _ _ El) (Hb1 _ _ El) Em Ee Hk1 ltac:(lia) Er Ea).
Qed.

(* ---------- composite operations ---------- *)
Theorem commit_migration_api_balance s name rl tag e clr :
  store_part_inv s -> store_balance_inv s -> store_balance_inv (fst (commit_migration_api s name rl tag e clr)).
Proof.
  intros Hp Hb. unfold commit_migration_api.
  pose proof (commit_migration_part_inv s name rl tag e Hp) as Hp1.
  pose proof (commit_migration_balance s name rl tag e Hp Hb) as Hb1.
  destruct (commit_migration s name rl tag e) as [s' [[]|err|]]; cbn [fst] in *; try exact Hb1.
  destruct clr; cbn [fst]; [|exact Hb1]. apply auto_delete_free_nodes_if_exists_balance; assumption.
Qed.

Lemma auto_change_tail_balance s1 name expected choices :
  store_part_inv s1 -> store_balance_inv s1 ->
  let r :=
    match alookup name (st_clusters s1) with
    | None => (s1, Fail E_ClusterNotFound)
    | Some cl1 =>
      let existing := 4 * N.of_nat (length (cl_chunks cl1)) in
      if N.eqb existing expected then (s1, Done NoOp)
      else if N.ltb existing expected then
        match auto_scale_up_nodes s1 name expected choices with
        | (s2, Done _) => (s2, Done ScaleOut)
        | (s2, Fail e) => (s2, Fail e)
        | (s2, Panic) => (s2, Panic)
        end
      else
        match migrate_slots_to_scale_down s1 name expected with
        | (s2, Done _) => (s2, Done ScaleDown)
        | (s2, Fail e) => (s2, Fail e)
        | (s2, Panic) => (s2, Panic)
        end
    end in
  store_balance_inv (fst r).
Proof.
  intros Hp1 Hb1. cbv zeta.
  destruct (alookup name (st_clusters s1)) as [cl1|]; cbn [fst]; [|exact Hb1].
  destruct (N.eqb _ expected); cbn [fst]; [exact Hb1|].
  destruct (N.ltb _ expected); cbn [fst].
  - pose proof (auto_scale_up_nodes_balance s1 name expected choices Hb1) as H2.
    destruct (auto_scale_up_nodes s1 name expected choices) as [s2 [u|e|]]; cbn [fst] in *; exact H2.
  - pose proof (scale_down_balance s1 name expected Hp1 Hb1) as H2.
    destruct (migrate_slots_to_scale_down s1 name expected) as [s2 [u|e|]]; cbn [fst] in *; exact H2.
Qed.

Theorem auto_change_node_number_balance s name expected choices :
  store_part_inv s -> store_balance_inv s -> store_balance_inv (fst (auto_change_node_number s name expected choices)).
Proof.
  intros Hp Hb. unfold auto_change_node_number.
  destruct (alookup name (st_clusters s)) as [cl|]; cbn [fst]; [|exact Hb].
  destruct (cluster_is_migrating cl); cbn [fst]; [exact Hb|].
  pose proof (auto_delete_free_nodes_part_inv s name Hp) as Hp1.
  pose proof (auto_delete_free_nodes_balance s name Hp Hb) as Hb1.
  destruct (auto_delete_free_nodes s name) as [s1 r1]. cbn [fst] in Hp1, Hb1.
  destruct r1 as [u|e|].
  - apply (auto_change_tail_balance s1 name expected choices Hp1 Hb1).
  - destruct e; try (cbn [fst]; exact Hb1).
    apply (auto_change_tail_balance s1 name expected choices Hp1 Hb1).
  - cbn [fst]. exact Hb1.
Qed.

Theorem auto_scale_out_node_number_balance s name expected :
  store_part_inv s -> store_balance_inv s -> store_balance_inv (fst (auto_scale_out_node_number s name expected)).
Proof.
  intros Hp Hb. unfold auto_scale_out_node_number.
  destruct (alookup name (st_clusters s)) as [cl|]; cbn [fst]; [|exact Hb].
  destruct (N.ltb _ expected); cbn [fst]; [apply migrate_slots_balance; assumption|exact Hb].
Qed.

(* ---------- every operation keeps every cluster balanced ---------- *)
Theorem step_balance : forall s o,
  store_part_inv s -> store_balance_inv s -> (forall snap, o = ORestore snap -> store_balance_inv snap) ->
  store_balance_inv (fst (step s o)).
Proof.
  intros s o Hp Hb Hsnap. destruct o; cbn [step] in *; rewrite ?lift_unit_fst.
  - apply add_proxy_balance; exact Hb.
  - apply remove_proxy_balance; exact Hb.
  - apply add_cluster_balance; exact Hb.
  - apply remove_cluster_balance; exact Hb.
  - apply auto_add_nodes_balance; exact Hb.
  - apply auto_scale_up_nodes_balance; exact Hb.
  - apply auto_delete_free_nodes_balance; assumption.
  - apply migrate_slots_balance; assumption.
  - apply scale_down_balance; assumption.
  - apply commit_migration_api_balance; assumption.
  - destruct (nth_out_entry s name j); rewrite lift_unit_fst; apply commit_migration_api_balance; assumption.
  - pose proof (auto_change_node_number_balance s name expected choices Hp Hb) as H1.
    destruct (auto_change_node_number s name expected choices) as [s' [u|e|]]; cbn [fst] in *; exact H1.
  - apply auto_scale_out_node_number_balance; assumption.
  - pose proof (replace_failed_proxy_balance s addr choice Hb) as H1.
    destruct (replace_failed_proxy s addr choice) as [s' [u|e|]]; cbn [fst] in *; exact H1.
  - apply balance_masters_balance; exact Hb.
  - apply change_config_balance; exact Hb.
  - pose proof (add_failure_balance s addr reporter now Hb) as H1.
    destruct (add_failure s addr reporter now) as [s' b]. exact H1.
  - pose proof (get_failures_balance s now ttl quorum Hb) as H1.
    destruct (get_failures s now ttl quorum) as [s' b]. exact H1.
  - pose proof (cleanup_failures_balance s now ttl quorum Hb) as H1.
    destruct (cleanup_failures s now ttl quorum) as [s' b]. exact H1.
  - apply force_bump_balance; exact Hb.
  - cbn [fst]. apply recover_epoch_balance; exact Hb.
  - apply restore_balance; [exact Hb|]. apply Hsnap. reflexivity.
Qed.

Theorem reachable_store_balance : forall s, reachable s -> store_balance_inv s.
Proof.
  intros s Hr. induction Hr as [o|s o Hr IH Hsnap IHsnap Hnp].
  - intros name cl Hin. destruct Hin.
  - apply step_balance; [apply reachable_keeps_partition; exact Hr|exact IH|exact IHsnap].
Qed.

Theorem reachable_balance : forall s, reachable s -> forall name cl, In (name, cl) (st_clusters s) -> balance_inv (cl_chunks cl).
Proof. intros s Hr name cl Hin. exact (reachable_store_balance s Hr name cl Hin). Qed.

(* ---------- what balance means once no migration is pending ---------- *)
Theorem quiescent_balanced : forall chunks,
  part_inv chunks -> balance_inv chunks -> (forall c, In c chunks -> ck_mig0 c = [] /\ ck_mig1 c = []) ->
  exists k, (0 < k)%nat /\ (k <= length chunks)%nat /\
    (* the first k chunks hold exactly their shares, as stable slots *)
    (forall i c p, nth_error chunks i = Some c -> (i < k)%nat ->
        exists st, ck_stable c p = Some st /\ slots_total st = share (2 * N.of_nat k) (mindex i p)) /\
    (* all later chunks hold nothing *)
    (forall i c, nth_error chunks i = Some c -> (k <= i)%nat -> ck_stable0 c = None /\ ck_stable1 c = None) /\
    (* all slots are accounted for *)
    slots_total (stable_ranges chunks) = SLOT_NUM.
Proof.
  intros chunks Hinv [k Hk] Hno. exists k. pose proof Hk as (Hk0 & Hkl & _).
  split; [exact Hk0|]. split; [exact Hkl|]. split; [|split].
  - intros i c p Hn Hi. destruct (quiescent_shape k chunks Hinv Hk Hno i c p Hn) as [A _].
    destruct (A Hi) as (Hs & _ & st & Hst). exists st. split; [exact Hst|].
    unfold stable_num in Hs. rewrite Hst in Hs. exact Hs.
  - intros i c Hn Hi. split.
    + apply (quiescent_shape k chunks Hinv Hk Hno i c false Hn). exact Hi.
    + apply (quiescent_shape k chunks Hinv Hk Hno i c true Hn). exact Hi.
  - destruct (part_inv_stable chunks Hinv Hno) as [Hw Hc]. apply covers_total; assumption.
Qed.

(* any two masters that keep slots differ by at most one slot *)
Corollary share_differ_by_one m i j : share m i <= share m j + 1 /\ share m j <= share m i + 1.
Proof. split; apply share_close. Qed.

(* ---------- the planners never panic and the model's loop fuel is sufficient ---------- *)
Theorem planners_no_panic : forall s name n,
  store_part_inv s -> store_balance_inv s ->
  snd (migrate_slots s name) <> Panic /\ snd (migrate_slots s name) <> Fail E_BadChoice /\
  snd (migrate_slots_to_scale_down s name n) <> Panic /\ snd (migrate_slots_to_scale_down s name n) <> Fail E_BadChoice.
Proof.
  intros s name n Hp Hb. destruct (migrate_slots_total s name Hp) as [A B].
  destruct (scale_down_total s name n Hp Hb) as [C D]. auto.
Qed.

Corollary reachable_planners_no_panic : forall s name n, reachable s ->
  snd (migrate_slots s name) <> Panic /\ snd (migrate_slots s name) <> Fail E_BadChoice /\
  snd (migrate_slots_to_scale_down s name n) <> Panic /\ snd (migrate_slots_to_scale_down s name n) <> Fail E_BadChoice.
Proof.
  intros s name n Hr. apply planners_no_panic; [apply reachable_keeps_partition|apply reachable_store_balance]; exact Hr.
Qed.
