(* Bookkeeping shared by the numeric analysis of the two slot-migration planners: how many slots the pending
   migrations deliver to each destination master. *)
From UM Require Import Base.BytesDef Model.Ranges Model.Broker Proofs.BrokerBase Proofs.BrokerPartRanges Proofs.BrokerPartDefs
  Proofs.BrokerPartMigrateBase Proofs.BrokerBalanceDefs.
From Coq Require Import ZifyBool ZifyNat ZifyN Permutation.
Ltac Zify.zify_post_hook ::= Z.div_mod_to_equations.

(* master index of the destination of a migration *)
Definition dst_master (m : mig_meta) : N := mindex (mm_dst_idx m) (mm_dst_part m).

(* number of slots the pending migrations deliver to master d *)
Fixpoint msum (d : N) (migs : list (rangelist * mig_meta)) : N :=
  match migs with
  | [] => 0
  | (rl, m) :: r => (if N.eqb (dst_master m) d then slots_total rl else 0) + msum d r
  end.

Lemma msum_cons d rl m r : msum d ((rl, m) :: r) = (if N.eqb (dst_master m) d then slots_total rl else 0) + msum d r.
Proof. reflexivity. Qed.

Lemma msum_app d a b : msum d (a ++ b) = msum d a + msum d b.
Proof. induction a as [|[rl m] a IH]; cbn [app msum]; [lia|]. rewrite IH. lia. Qed.

Lemma msum_rev d l : msum d (rev l) = msum d l.
Proof. induction l as [|[rl m] l IH]; cbn [rev]; [reflexivity|]. rewrite msum_app, IH. cbn [msum]. lia. Qed.

Lemma msum_none d migs : (forall rl m, In (rl, m) migs -> dst_master m <> d) -> msum d migs = 0.
Proof.
  induction migs as [|[rl m] r IH]; intros H; [reflexivity|]. cbn [msum].
  assert (E : N.eqb (dst_master m) d = false) by (apply N.eqb_neq; apply (H rl m); left; reflexivity).
  rewrite E, IH; [lia|]. intros rl' m' Hin. apply (H rl' m'). right. exact Hin.
Qed.

Lemma mindex_inj i p i' p' : mindex i p = mindex i' p' -> i = i' /\ p = p'.
Proof. unfold mindex, b2n. destruct p, p'; intros H; split; try lia; reflexivity. Qed.

Lemma mindex_lt i p k : (i < k)%nat -> mindex i p < 2 * N.of_nat k.
Proof. unfold mindex, b2n. destruct p; lia. Qed.

Lemma mindex_ge i p k : (k <= i)%nat -> 2 * N.of_nat k <= mindex i p.
Proof. unfold mindex, b2n. destruct p; lia. Qed.

Lemma mindex_succ i : mindex i true = mindex i false + 1 /\ mindex (S i) false = mindex i true + 1.
Proof. unfold mindex, b2n. lia. Qed.

(* the destination position computed by both planners from the running destination-master counter a *)
Lemma dst_master_meta epoch idx part base a :
  dst_master (mkMeta epoch idx part (base + N.to_nat (a / 2)) (N.eqb (a mod 2) 1)) = 2 * N.of_nat base + a.
Proof.
  unfold dst_master, mindex. cbn [mm_dst_idx mm_dst_part]. unfold b2n.
  destruct (N.eqb (a mod 2) 1) eqn:E; lia.
Qed.

(* the model computes the remainder by subtraction *)
Lemma rem_is_mod m : 0 < m -> SLOT_NUM - SLOT_NUM / m * m = SLOT_NUM mod m.
Proof.
  intros H. pose proof (N.div_mod SLOT_NUM m ltac:(lia)) as Hdm. rewrite (N.mul_comm m) in Hdm.
  generalize dependent (SLOT_NUM / m * m). intros x Hdm. lia.
Qed.

Lemma share_unfold m j : 0 < m -> SLOT_NUM / m + b2n (N.ltb j (SLOT_NUM - SLOT_NUM / m * m)) = share m j.
Proof. intros H. rewrite (rem_is_mod m H). unfold share, b2n. reflexivity. Qed.

