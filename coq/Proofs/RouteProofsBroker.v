(* C02 on broker histories, part 4: assembly.  For every store reachable by ANY operation sequence, every served cluster view
   satisfies partition_ok (C01) and view_wfb; every proxy of the cluster gets, from its own proxy view, exactly the tables
   install_ns of that cluster view; hence the routing theorems hold with phases_ok as the only remaining hypothesis. *)
From UM Require Import Base.BytesDef Model.Ranges Model.Broker Model.Route Proofs.BrokerBase Proofs.BrokerPartRanges
     Proofs.BrokerPartDefs Proofs.BrokerPartMigrateBase Proofs.BrokerPartOpsCompact Proofs.BrokerPartView Proofs.BrokerPartMain
     Proofs.BrokerAcctBase Proofs.BrokerCommitAccepts Proofs.BrokerTotal
     Proofs.RouteProofsBase Proofs.RouteProofs Proofs.RouteProofsDyn Proofs.RouteProofsGlue
     Proofs.RouteProofsBrokerInv Proofs.RouteProofsBrokerOps Proofs.RouteProofsBrokerView.
From Coq Require Import ZifyBool ZifyNat ZifyN.

(* ---------- limit_migration keeps role, proxies and node addresses of every chunk ---------- *)
Lemma frame_set_stable c p v : ck_frame (set_stable c p v) = ck_frame c.
Proof. destruct p; reflexivity. Qed.
Lemma frame_set_mig c p v : ck_frame (set_mig c p v) = ck_frame c.
Proof. destruct p; reflexivity. Qed.

Lemma limit_loop_frame lim : forall R C num outs C', limit_loop lim R C num outs = Some C' -> map ck_frame C' = map ck_frame C.
Proof.
  induction R as [|e R IH]; intros C num outs C' H; cbn [limit_loop] in H; [inversion H; reflexivity|].
  destruct (Nat.ltb (mm_src_idx (ms_meta e)) (length C)); [|discriminate].
  destruct (N.leb lim num || pos_mem (mm_src_idx (ms_meta e), mm_src_part (ms_meta e)) outs).
  - apply IH in H. rewrite H. apply map_update_nth_same. intros a. apply frame_set_stable.
  - destruct (Nat.ltb (mm_dst_idx (ms_meta e)) (length C)); [|discriminate].
    apply IH in H. rewrite H. rewrite !map_update_nth_same; [reflexivity| |]; intros a; apply frame_set_mig.
Qed.

Lemma limit_migration_frame lim cl cl' : limit_migration lim cl = Some cl' -> map ck_frame (cl_chunks cl') = map ck_frame (cl_chunks cl).
Proof.
  unfold limit_migration. destruct (N.eqb lim 0); [intros H; inversion H; reflexivity|].
  destruct (limit_loop lim (out_entries (cl_chunks cl)) (map clear_migs (cl_chunks cl)) 0 []) as [C'|] eqn:E; [|discriminate].
  intros H. inversion H; subst cl'. cbn [cl_chunks]. rewrite (limit_loop_frame _ _ _ _ _ _ E), map_map.
  apply map_ext. intros c. unfold clear_migs. rewrite !frame_set_mig. reflexivity.
Qed.

Definition frame_proxies (f : role_pos * N * N * N * N * N * N) : list N := let '(_, p0, p1, _, _, _, _) := f in [p0; p1].

Lemma chunk_proxies_frame l : flat_map chunk_proxies l = flat_map frame_proxies (map ck_frame l).
Proof. induction l as [|c l IH]; cbn [flat_map map]; [reflexivity|]. rewrite IH. reflexivity. Qed.

Lemma frame_In l l' c' : map ck_frame l' = map ck_frame l -> In c' l' -> exists c, In c l /\ ck_frame c = ck_frame c'.
Proof.
  intros E Hc'. apply (in_map ck_frame) in Hc'. rewrite E in Hc'. apply in_map_iff in Hc'. destruct Hc' as [c [Ec Hc]]. eauto.
Qed.

(* ---------- the chunk list behind a served cluster view ---------- *)
Section Served.
Variable s : store.
Hypothesis Hra : reachable_any s.
Variable lim name : N.
Variable v : vcluster.
Hypothesis Hv : view_cluster lim s name = Some (Some v).

Lemma served_chunks : exists cl cl',
  alookup name (st_clusters s) = Some cl /\ limit_migration lim cl = Some cl' /\ cluster_inv cl' /\
  cluster_nodes cl' = Some (vc_nodes v) /\ vc_nodes v = flat_map (nodes_of (cl_chunks cl')) (cl_chunks cl').
Proof.
  pose proof (reachable_keeps_partition s (reachable_any_reachable s Hra)) as Hp.
  unfold view_cluster in Hv. destruct (alookup name (st_clusters s)) as [cl|] eqn:El; [|discriminate].
  pose proof (Hp _ _ (alookup_In _ _ _ El)) as Hcl.
  destruct (limit_migration_part_inv_main lim cl Hcl) as [cl' [E1 [Hcl' _]]]. rewrite E1 in Hv.
  rewrite (cluster_nodes_total cl' Hcl') in Hv. injection Hv as Hv'. rewrite <- Hv'. cbn [vc_nodes].
  exists cl, cl'. split; [reflexivity|split; [exact E1|split; [exact Hcl'|split; [apply cluster_nodes_total; exact Hcl'|reflexivity]]]].
Qed.

Theorem served_view_wf : view_wfb (vc_nodes v) = true.
Proof.
  destruct served_chunks as [cl [cl' [El [E1 [Hcl' [_ Ens]]]]]]. rewrite Ens.
  pose proof (reachable_any_reachable s Hra) as Hr.
  pose proof (reachable_keeps_partition s Hr) as Hp.
  pose proof (reachable_acct s Hr) as Ha.
  pose proof (reachable_any_rinv s Hra) as [Hres Hcls].
  pose proof (Hp _ _ (alookup_In _ _ _ El)) as Hcl.
  destruct Ha as (_ & _ & Hok & _). destruct (Hok name cl El) as [Hchunks Hnd].
  pose proof (limit_migration_frame lim cl cl' E1) as Hfr.
  apply chunks_view_wf.
  - exact Hcl'.
  - intros c' e2 Hc' He2. apply ck_ents_In in He2. destruct He2 as [p He2].
    apply In_nth_error in Hc'. destruct Hc' as [i Hi].
    assert (Hat : In e2 (entries_at (cl_chunks cl') (i, p))) by (rewrite (entries_at_some _ _ _ _ Hi); exact He2).
    destruct (limited_entry_stored lim cl cl' (i, p) e2 Hcl E1 Hat) as [e [He [Er Em]]].
    destruct (BrokerPartViewLimit.out_entries_in _ _ He) as [c [q [Hc [Hin _]]]].
    assert (Hok_e : ent_ok e). { apply (Hcls name cl (alookup_In _ _ _ El) c e Hc). apply ck_ents_In. exists q. exact Hin. }
    destruct Hok_e as [H1 H2]. split; [unfold ent_pre; rewrite <- Em; exact H1|rewrite <- Er; exact H2].
  - rewrite chunk_proxies_frame, Hfr, <- chunk_proxies_frame. exact Hnd.
  - intros c' Hc'. destruct (frame_In _ _ c' Hfr Hc') as [c [Hc Ef]].
    rewrite Forall_forall in Hchunks. destruct (Hchunks c Hc) as [[r0 [A0 [_ [_ [B0 C0]]]]] [r1 [A1 [_ [_ [B1 C1]]]]]].
    destruct (Hres _ _ (alookup_In _ _ _ A0)) as [D0 E0]. destruct (Hres _ _ (alookup_In _ _ _ A1)) as [D1 E1'].
    unfold ck_frame in Ef. inversion Ef. repeat split; congruence.
Qed.

Theorem served_partition : partition_ok (vc_nodes v).
Proof.
  destruct (cluster_view_partition s (reachable_any_reachable s Hra) lim name _ Hv) as [v' [E H]]. injection E as E. rewrite E. exact H.
Qed.

(* what proxy a holds after the coordinator delivered the broker's current view of a *)
Definition installed (a : N) : pmeta :=
  match view_proxy lim s a with
  | Some (Some pv) => install pv
  | _ => mkPMeta false [] []
  end.

Lemma installed_eq a : In a (proxies_of (vc_nodes v)) -> installed a = install_ns (vc_nodes v) a.
Proof.
  intros Hin. destruct served_chunks as [cl [cl' [El [E1 [Hcl' [En Ens]]]]]].
  pose proof (reachable_acct s (reachable_any_reachable s Hra)) as Ha.
  destruct Ha as (_ & _ & Hok & _). pose proof (Hok name cl El) as Hcok.
  (* a is a chunk proxy of the stored cluster *)
  assert (Hpos : In a (cluster_proxies cl)).
  { unfold proxies_of in Hin. rewrite Ens in Hin. apply in_map_iff in Hin. destruct Hin as [n [<- Hn]].
    apply in_flat_map in Hn. destruct Hn as [c' [Hc' Hn]].
    destruct (frame_In _ _ c' (limit_migration_frame lim cl cl' E1) Hc') as [c [Hc Ef]].
    unfold cluster_proxies. apply in_flat_map. exists c. split; [exact Hc|].
    assert (Hp : In (vn_proxy n) [ck_proxy0 c'; ck_proxy0 c'; ck_proxy1 c'; ck_proxy1 c']).
    { rewrite <- (nodes_of_proxies (cl_chunks cl') c'). apply in_map. exact Hn. }
    unfold ck_frame in Ef. inversion Ef. unfold chunk_proxies. cbn [In] in *. intuition congruence. }
  destruct (in_cluster_tagged _ _ _ _ Hcok Hpos) as [r [Ar Cr]].
  unfold installed.
  assert (Evp : view_proxy lim s a = Some (Some (mkVProxy (Some name) (cl_epoch cl')
                  (filter (fun n => N.eqb (vn_proxy n) a) (vc_nodes v))
                  (group_peers (filter (fun n => vn_master n && negb (N.eqb (vn_proxy n) a)) (vc_nodes v)) [])
                  (Some (cl_config cl'))))).
  { unfold view_proxy. rewrite Ar, Cr, El, E1, En. reflexivity. }
  rewrite Evp. apply (install_of_view lim s a _ name v Evp eq_refl Hv).
Qed.

Lemma path_installed ph sl start tr : partition_ok (vc_nodes v) -> view_wfb (vc_nodes v) = true -> phases_ok ph (vc_nodes v) = true ->
  sl < SLOT_NUM -> In start (proxies_of (vc_nodes v)) ->
  path ph installed sl start tr -> path ph (install_ns (vc_nodes v)) sl start tr.
Proof.
  intros Hpo Hwf Hph Hsl Hstart Hpath. induction Hpath as [p o Ho|p q tr Hmv Hpath IH].
  - apply path_one. rewrite <- (installed_eq p Hstart). exact Ho.
  - rewrite (installed_eq p Hstart) in Hmv.
    assert (Hq : In q (proxies_of (vc_nodes v))).
    { apply (route_no_stray _ ph sl p [(p, Moved q)] Hpo Hwf Hph Hsl Hstart (path_one _ _ _ _ _ Hmv) p (Moved q)). left. reflexivity. }
    apply path_cons; [exact Hmv|apply IH; exact Hq].
Qed.

Theorem reachable_route_main ph sl start tr :
  phases_ok ph (vc_nodes v) = true -> sl < SLOT_NUM -> In start (proxies_of (vc_nodes v)) ->
  path ph installed sl start tr ->
  ((redirections tr <= if migrating_slot (vc_nodes v) sl then 2 else 1)%nat
   /\ exists p o, last_step tr = Some (p, o) /\ In p (proxies_of (vc_nodes v)) /\
        match o with
        | Exec n => designated ph (vc_nodes v) sl = Some n
        | Queued n => node_blocked ph (installed p) n = true /\ In n (allowed_nodes (vc_nodes v) sl)
        | Moved q => In q (proxies_of (vc_nodes v)) /\ route_step ph (installed q) sl <> []
        | Err _ => False
        end)
  /\ (forall p o, In (p, o) tr ->
        match o with
        | Exec n | Queued n => In n (allowed_nodes (vc_nodes v) sl)
        | Moved q => In q (proxies_of (vc_nodes v))
        | Err _ => False
        end).
Proof.
  intros Hph Hsl Hstart Hpath.
  pose proof served_partition as Hpo. pose proof served_view_wf as Hwf.
  pose proof (path_installed ph sl start tr Hpo Hwf Hph Hsl Hstart Hpath) as Hp'.
  split.
  - destruct (route_correct _ ph sl start tr Hpo Hwf Hph Hsl Hstart Hp') as [H1 [p [o [El [Hp Ho]]]]].
    split; [exact H1|]. exists p, o. split; [exact El|split; [exact Hp|]].
    destruct o as [n|q|n|e]; try exact Ho.
    + destruct Ho as [Hq Hne]. split; [exact Hq|]. rewrite (installed_eq q Hq). exact Hne.
    + rewrite (installed_eq p Hp). exact Ho.
  - exact (route_no_stray _ ph sl start tr Hpo Hwf Hph Hsl Hstart Hp').
Qed.

Lemma dpath_installed phs sl start tr : partition_ok (vc_nodes v) -> view_wfb (vc_nodes v) = true ->
  Forall (fun ph => phases_ok ph (vc_nodes v) = true) phs -> sl < SLOT_NUM -> In start (proxies_of (vc_nodes v)) ->
  dpath installed sl phs start tr -> dpath (install_ns (vc_nodes v)) sl phs start tr.
Proof.
  intros Hpo Hwf Hall Hsl Hstart Hd. induction Hd as [ph p o Ho|ph ph' phs p q tr Hmv Hd IH].
  - apply dpath_one. rewrite <- (installed_eq p Hstart). exact Ho.
  - inversion Hall as [|? ? Hph Hall']; subst. rewrite (installed_eq p Hstart) in Hmv.
    assert (Hq : In q (proxies_of (vc_nodes v))).
    { apply (route_no_stray _ ph sl p [(p, Moved q)] Hpo Hwf Hph Hsl Hstart (path_one _ _ _ _ _ Hmv) p (Moved q)). left. reflexivity. }
    apply dpath_cons; [exact Hmv|apply IH; [exact Hall'|exact Hq]].
Qed.

Theorem reachable_route_dynamic_main sl start phs tr :
  sl < SLOT_NUM -> In start (proxies_of (vc_nodes v)) ->
  Forall (fun ph => phases_ok ph (vc_nodes v) = true) phs -> chain phs ->
  dpath installed sl phs start tr ->
  (redirections tr <= if migrating_slot (vc_nodes v) sl then 3 else 1)%nat
  /\ exists ph p o, last_ph phs = Some ph /\ last_step tr = Some (p, o) /\ In p (proxies_of (vc_nodes v)) /\
       match o with
       | Exec n => designated ph (vc_nodes v) sl = Some n
       | Queued n => node_blocked ph (installed p) n = true /\ In n (allowed_nodes (vc_nodes v) sl)
       | Moved q => In q (proxies_of (vc_nodes v))
       | Err _ => False
       end.
Proof.
  intros Hsl Hstart Hall Hch Hd.
  pose proof served_partition as Hpo. pose proof served_view_wf as Hwf.
  pose proof (dpath_installed phs sl start tr Hpo Hwf Hall Hsl Hstart Hd) as Hd'.
  destruct (route_dynamic _ sl start phs tr Hpo Hwf Hsl Hstart Hall Hch Hd') as [H1 [ph [p [o [El [Els [Hp Ho]]]]]]].
  split; [exact H1|]. exists ph, p, o. split; [exact El|split; [exact Els|split; [exact Hp|]]].
  destruct o as [n|q|n|e]; try exact Ho. rewrite (installed_eq p Hp). exact Ho.
Qed.

End Served.
