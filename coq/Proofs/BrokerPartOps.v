(* Slot-partition invariant (C01, C10): every broker operation preserves store_part_inv; the one-step theorem and the
   invariant for all reachable stores.  The two slot-migration planners are premises (proved in BrokerPartMigrate*.v). *)
From UM Require Import Base.BytesDef Model.Ranges Model.Broker Proofs.BrokerBase Proofs.BrokerPartRanges Proofs.BrokerPartDefs
  Proofs.BrokerPartOpsFrame Proofs.BrokerPartOpsFail Proofs.BrokerPartOpsNodes Proofs.BrokerPartOpsCreate
  Proofs.BrokerPartOpsCompact Proofs.BrokerPartOpsCommit.
From Coq Require Import ZifyBool ZifyNat ZifyN.

Lemma lift_unit_fst r : fst (lift_unit r) = fst r.
Proof. destruct r as [s [u|e|]]; reflexivity. Qed.

Lemma lift_unit_panic r : snd (lift_unit r) <> RPanic -> snd r <> Panic.
Proof. destruct r as [s [u|e|]]; cbn [lift_unit snd]; congruence. Qed.

Theorem commit_migration_api_part_inv s name rl tag e clr :
  store_part_inv s -> store_part_inv (fst (commit_migration_api s name rl tag e clr)).
Proof.
  intros H. unfold commit_migration_api.
  pose proof (commit_migration_part_inv s name rl tag e H) as H1.
  destruct (commit_migration s name rl tag e) as [s' [[]|err|]]; cbn [fst] in *; try exact H1.
  destruct clr; cbn [fst]; [|exact H1]. apply auto_delete_free_nodes_if_exists_part_inv. exact H1.
Qed.


Section StepInv.
  Hypothesis migrate_ok : forall s name,
    store_part_inv s -> snd (migrate_slots s name) <> Panic -> store_part_inv (fst (migrate_slots s name)).
  Hypothesis scale_down_ok : forall s name n,
    store_part_inv s -> snd (migrate_slots_to_scale_down s name n) <> Panic ->
    store_part_inv (fst (migrate_slots_to_scale_down s name n)).

  Lemma auto_change_tail_part_inv s1 name expected choices :
    store_part_inv s1 ->
    let r :=
      match alookup name (st_clusters s1) with
      | None => (s1, Fail E_ClusterNotFound)
      | Some cl1 =>
        let existing := 4 * N.of_nat (length (cl_chunks cl1)) in
        if N.eqb existing expected then (s1, Done NoOp)
        else if N.ltb existing expected then
          match auto_scale_up_nodes s1 name expected choices with
          | (s2, Done _) => (s2, Done ScaleOut)
          | (s2, Fail e) => (s2, Fail e)
          | (s2, Panic) => (s2, Panic)
          end
        else
          match migrate_slots_to_scale_down s1 name expected with
          | (s2, Done _) => (s2, Done ScaleDown)
          | (s2, Fail e) => (s2, Fail e)
          | (s2, Panic) => (s2, Panic)
          end
      end in
    snd r <> Panic -> store_part_inv (fst r).
  Proof.
    intros H1. cbv zeta.
    destruct (alookup name (st_clusters s1)) as [cl1|]; cbn [fst snd]; [|intros _; exact H1].
    destruct (N.eqb _ expected); cbn [fst snd]; [intros _; exact H1|].
    destruct (N.ltb _ expected); cbn [fst snd].
    - intros _. pose proof (auto_scale_up_nodes_part_inv s1 name expected choices H1) as H2.
      destruct (auto_scale_up_nodes s1 name expected choices) as [s2 [u|e|]]; cbn [fst] in *; exact H2.
    - pose proof (scale_down_ok s1 name expected H1) as H2.
      destruct (migrate_slots_to_scale_down s1 name expected) as [s2 [u|e|]]; cbn [fst snd] in *; intros Hnp;
        apply H2; congruence.
  Qed.

  Theorem auto_change_node_number_part_inv s name expected choices :
    store_part_inv s -> snd (auto_change_node_number s name expected choices) <> Panic ->
    store_part_inv (fst (auto_change_node_number s name expected choices)).
  Proof.
    intros H. unfold auto_change_node_number.
    destruct (alookup name (st_clusters s)) as [cl|]; cbn [fst snd]; [|intros _; exact H].
    destruct (cluster_is_migrating cl); cbn [fst snd]; [intros _; exact H|].
    pose proof (auto_delete_free_nodes_part_inv s name H) as H1.
    destruct (auto_delete_free_nodes s name) as [s1 r1]. cbn [fst] in H1.
    destruct r1 as [u|e|].
    - apply (auto_change_tail_part_inv s1 name expected choices H1).
    - destruct e; try (cbn [fst snd]; intros _; exact H1).
      apply (auto_change_tail_part_inv s1 name expected choices H1).
    - cbn [fst snd]. intros _. exact H1.
  Qed.

  Theorem auto_scale_out_node_number_part_inv s name expected :
    store_part_inv s -> snd (auto_scale_out_node_number s name expected) <> Panic ->
    store_part_inv (fst (auto_scale_out_node_number s name expected)).
  Proof.
    intros H. unfold auto_scale_out_node_number.
    destruct (alookup name (st_clusters s)) as [cl|]; cbn [fst snd]; [|intros _; exact H].
    destruct (N.ltb _ expected); cbn [fst snd]; [apply migrate_ok; exact H|intros _; exact H].
  Qed.

  Theorem step_part_inv : forall s o,
    store_part_inv s -> (forall snap, o = ORestore snap -> store_part_inv snap) -> snd (step s o) <> RPanic ->
    store_part_inv (fst (step s o)).
  Proof.
    intros s o H Hsnap Hnp. destruct o; cbn [step] in *; rewrite ?lift_unit_fst; try apply lift_unit_panic in Hnp.
    - apply add_proxy_part_inv; exact H.
    - apply remove_proxy_part_inv; exact H.
    - apply add_cluster_part_inv; exact H.
    - apply remove_cluster_part_inv; exact H.
    - apply auto_add_nodes_part_inv; exact H.
    - apply auto_scale_up_nodes_part_inv; exact H.
    - apply auto_delete_free_nodes_part_inv; exact H.
    - apply migrate_ok; assumption.
    - apply scale_down_ok; assumption.
    - apply commit_migration_api_part_inv; exact H.
    - destruct (nth_out_entry s name j); rewrite lift_unit_fst; apply commit_migration_api_part_inv; exact H.
    - pose proof (auto_change_node_number_part_inv s name expected choices H) as H1.
      destruct (auto_change_node_number s name expected choices) as [s' [u|e|]]; cbn [fst snd] in *;
        apply H1; congruence.
    - apply auto_scale_out_node_number_part_inv; assumption.
    - pose proof (replace_failed_proxy_part_inv s addr choice H) as H1.
      destruct (replace_failed_proxy s addr choice) as [s' [u|e|]]; cbn [fst] in *; exact H1.
    - apply balance_masters_part_inv; exact H.
    - apply change_config_part_inv; exact H.
    - pose proof (add_failure_part_inv s addr reporter now H) as H1.
      destruct (add_failure s addr reporter now) as [s' b]. exact H1.
    - pose proof (get_failures_part_inv s now ttl quorum H) as H1.
      destruct (get_failures s now ttl quorum) as [s' b]. exact H1.
    - pose proof (cleanup_failures_part_inv s now ttl quorum H) as H1.
      destruct (cleanup_failures s now ttl quorum) as [s' b]. exact H1.
    - apply force_bump_part_inv; exact H.
    - cbn [fst]. apply recover_epoch_part_inv; exact H.
    - apply restore_part_inv; [exact H|]. apply Hsnap. reflexivity.
  Qed.

  Theorem reachable_part_inv : forall s, reachable s -> store_part_inv s.
  Proof.
    intros s Hr. induction Hr as [o|s o Hr IH Hsnap IHsnap Hnp].
    - intros name cl Hin. destruct Hin.
    - apply step_part_inv; assumption.
  Qed.
End StepInv.
