(* Totality of the scale-out planner (migrate.rs remove_slots_from_src / migrate_slots, model Broker.remove_slots_from_src /
   Broker.migrate_slots): on a cluster that satisfies the slot-partition invariant and has no running migration the
   remove phase returns `Done`: none of the checked subtractions / `expect`s panics, and the fuel of the model's mirror of
   the `while` loop suffices, so the artificial `Fail E_BadChoice` is never produced.
   Termination measure of the while loop: (number of ranges left in the source) + (destination masters not yet filled). *)
From UM Require Import Base.BytesDef Model.Ranges Model.Broker Proofs.BrokerBase Proofs.BrokerPartRanges Proofs.BrokerPartDefs
  Proofs.BrokerPartMigrateBase Proofs.BrokerPartMigrateOut Proofs.BrokerPartMigrateBounds.
From Coq Require Import ZifyBool ZifyNat ZifyN.
From UM Require Proofs.BrokerPartMigrateEx.   (* only for the witnesses at the end of the file *)

(* ---------- small generic facts ---------- *)
Lemma csub_ok a b : b <= a -> csub a b = Some (a - b).
Proof. unfold csub. intros H. destruct (N.ltb a b) eqn:E; [lia|reflexivity]. Qed.

Lemma slots_total_nil : slots_total [] = 0.
Proof. reflexivity. Qed.

Lemma slots_total_snoc front r : slots_total (front ++ [r]) = slots_total front + (snd r - fst r + 1).
Proof. rewrite slots_total_app, slots_total_cons, slots_total_nil. lia. Qed.

Lemma split_last_snoc {A} (l : list A) : l <> [] -> exists front r, split_last l = Some (front, r) /\ l = front ++ [r].
Proof.
  intros Hne. destruct (split_last l) as [[front r]|] eqn:E.
  - exists front, r. split; [reflexivity|]. apply split_last_spec. exact E.
  - apply split_last_none in E. contradiction.
Qed.

Section OutTotal.
Variables epoch avg rem smn dmn : N.
Variable scn : nat.
Hypothesis Havg : 1 <= avg.

Local Notation dF := (dst_final avg rem smn).
Local Notation sF := (src_final avg rem).

(* ---------- inner loop ---------- *)
Definition loop_good (o : outcome (rangelist * macc)) : Prop :=
  exists rl' acc', o = Done (rl', acc') /\ Forall wf_range rl' /\ a_dst acc' <= dmn /\ a_num acc' < dF (a_dst acc').

Definition loop_total (fuel : nat) : Prop := forall idx part rl acc,
  Forall wf_range rl -> a_dst acc <= dmn -> a_num acc < dF (a_dst acc) ->
  (length rl + N.to_nat (dmn - a_dst acc) < fuel)%nat ->
  loop_good (scale_out_loop fuel epoch avg rem smn dmn scn idx part rl acc).

Lemma loop_good_done rl acc : Forall wf_range rl -> a_dst acc <= dmn -> a_num acc < dF (a_dst acc) ->
  loop_good (Done (rl, acc)).
Proof. intros H1 H2 H3. exists rl, acc. auto. Qed.

(* the part of the loop body after the last range has been (partly) moved to the accumulator *)
Lemma loop_tail_total fuel' idx part rl2 dst cur2 num2 migs :
  loop_total fuel' -> Forall wf_range rl2 -> dst + 1 <= dmn ->
  (length rl2 + N.to_nat (dmn - (dst + 1)) < fuel')%nat ->
  (N.leb (dF dst) num2 = false -> N.leb (slots_total rl2) (sF idx part) = false ->
   (length rl2 + N.to_nat (dmn - dst) < fuel')%nat) ->
  loop_good (loop_tail epoch avg rem smn dmn scn fuel' idx part rl2 dst cur2 num2 migs).
Proof.
  intros IH Hw Hdst Hadv Hstay. unfold loop_tail. rewrite (slots_num_total rl2 Hw).
  pose proof (dst_final_pos avg rem smn Havg (dst + 1)) as Hpos.
  destruct (N.leb (dF dst) num2) eqn:E1; destruct (N.leb (slots_total rl2) (sF idx part)) eqn:E2;
    cbn [orb]; cbv beta iota zeta.
  - (* flush, advance, source done *)
    apply loop_good_done; cbn [a_dst a_num]; [assumption|lia|lia].
  - (* flush, advance, continue *)
    apply IH; cbn [a_dst a_num]; [assumption|lia|lia|assumption].
  - (* flush without advance, source done *)
    apply loop_good_done; cbn [a_dst a_num]; [assumption|lia|lia].
  - (* no flush *)
    apply IH; cbn [a_dst a_num]; [assumption|lia|lia|auto].
Qed.

Lemma loop_total_all fuel : loop_total fuel.
Proof.
  induction fuel as [|fuel' IH]; intros idx part rl acc Hw Hd Hnum Hm; [lia|].
  cbn [scale_out_loop].
  fold (src_final avg rem idx part). fold (dst_final avg rem smn (a_dst acc)).
  destruct (N.eqb (a_dst acc) dmn) eqn:Edst.
  { apply loop_good_done; assumption. }
  rewrite (slots_num_total rl Hw).
  destruct (N.leb (slots_total rl) (sF idx part)) eqn:Esrc.
  { apply loop_good_done; assumption. }
  rewrite (csub_ok (dF (a_dst acc)) (a_num acc)) by lia.
  assert (Hne : rl <> []).
  { intros ->. rewrite slots_total_nil in Esrc. lia. }
  destruct (split_last_snoc rl Hne) as (front & r & Esl & Erl). rewrite Esl. subst rl.
  pose proof Hw as Hw0. apply Forall_snoc in Hw0. destruct Hw0 as [Hwf Hwr].
  rewrite (range_len_wf r Hwr).
  rewrite app_length in Hm. cbn [length] in Hm.
  assert (Hdst : a_dst acc + 1 <= dmn) by lia.
  rewrite slots_total_snoc in Esrc.
  destruct (N.leb (snd r - fst r + 1) (N.min (dF (a_dst acc) - a_num acc) (slots_total (front ++ [r]) - sF idx part))) eqn:Ecase.
  - (* the whole last range moves *)
    change (loop_good (loop_tail epoch avg rem smn dmn scn fuel' idx part front (a_dst acc) (a_cur acc ++ [r])
                                 (a_num acc + (snd r - fst r + 1)) (a_migs acc))).
    apply loop_tail_total; [exact IH|exact Hwf|exact Hdst|lia|intros _ _; lia].
  - (* the last range is split *)
    change (loop_good (loop_tail epoch avg rem smn dmn scn fuel' idx part
              (front ++ [(fst r, snd r - N.min (dF (a_dst acc) - a_num acc) (slots_total (front ++ [r]) - sF idx part))])
              (a_dst acc)
              (a_cur acc ++ [(snd r - N.min (dF (a_dst acc) - a_num acc) (slots_total (front ++ [r]) - sF idx part) + 1, snd r)])
              (a_num acc + N.min (dF (a_dst acc) - a_num acc) (slots_total (front ++ [r]) - sF idx part)) (a_migs acc))).
    rewrite slots_total_snoc in Ecase. unfold wf_range in Hwr.
    apply loop_tail_total.
    + exact IH.
    + apply Forall_snoc. split; [exact Hwf|]. unfold wf_range. cbn [fst snd]. rewrite slots_total_snoc. lia.
    + exact Hdst.
    + rewrite app_length. cbn [length]. lia.
    + intros E1 E2. exfalso. rewrite !slots_total_snoc in E2. cbn [fst snd] in E2. rewrite !slots_total_snoc in E1. lia.
Qed.

Lemma scale_out_loop_total : forall fuel idx part rl acc,
  Forall wf_range rl -> a_dst acc <= dmn -> a_num acc < dF (a_dst acc) ->
  (length rl + N.to_nat (dmn - a_dst acc) < fuel)%nat ->
  exists rl' acc', scale_out_loop fuel epoch avg rem smn dmn scn idx part rl acc = Done (rl', acc') /\
    Forall wf_range rl' /\ a_dst acc' <= dmn /\ a_num acc' < dF (a_dst acc').
Proof. intros fuel idx part rl acc H1 H2 H3 H4. exact (loop_total_all fuel idx part rl acc H1 H2 H3 H4). Qed.

(* ---------- outer loops ---------- *)
Lemma do_part_total idx part c acc :
  Forall wf_range (chunk_stable c) -> a_dst acc <= dmn -> a_num acc < dF (a_dst acc) ->
  exists c' acc', do_part epoch avg rem smn dmn scn idx part c acc = Done (c', acc') /\
    Forall wf_range (chunk_stable c') /\ a_dst acc' <= dmn /\ a_num acc' < dF (a_dst acc').
Proof.
  intros Hwc Hd Hnum. unfold do_part.
  destruct (ck_stable c part) as [rl|] eqn:Est.
  - destruct (chunk_stable_set avg Havg c part rl rl Est) as (other0 & _ & _ & W1 & _).
    destruct (W1 Hwc) as [Hwrl _].
    destruct (scale_out_loop_total (loop_fuel rl dmn) idx part rl acc Hwrl Hd Hnum) as (rl' & acc' & E & Hw' & Hd' & Hn').
    { unfold loop_fuel. lia. }
    rewrite E. exists (set_stable c part (Some rl')), acc'. split; [reflexivity|].
    split; [|split; assumption].
    destruct (chunk_stable_set avg Havg c part rl rl' Est) as (other & _ & _ & V1 & V2).
    destruct (V1 Hwc) as [_ Hwo]. apply V2; assumption.
  - exists c, acc. auto.
Qed.

Lemma scale_out_chunks_total : forall chunks idx acc,
  Forall wf_range (stable_ranges chunks) -> a_dst acc <= dmn -> a_num acc < dF (a_dst acc) ->
  exists chunks' acc', scale_out_chunks epoch avg rem smn dmn scn idx chunks acc = Done (chunks', acc') /\
    a_dst acc' <= dmn /\ a_num acc' < dF (a_dst acc').
Proof.
  induction chunks as [|c rest IH]; intros idx acc Hws Hd Hnum.
  - cbn [scale_out_chunks]. exists [], acc. auto.
  - rewrite scale_out_chunks_cons.
    rewrite stable_ranges_cons in Hws. apply Forall_app in Hws. destruct Hws as [Hwc Hwr].
    destruct (do_part_total idx false c acc Hwc Hd Hnum) as (c1 & acc1 & E1 & Hw1 & Hd1 & Hn1). rewrite E1.
    destruct (do_part_total idx true c1 acc1 Hw1 Hd1 Hn1) as (c2 & acc2 & E2 & Hw2 & Hd2 & Hn2). rewrite E2.
    destruct (IH (S idx) acc2 Hwr Hd2 Hn2) as (rest' & acc3 & E3 & Hd3 & Hn3). rewrite E3.
    exists (c2 :: rest'), acc3. auto.
Qed.

End OutTotal.

(* ---------- top level ---------- *)
Theorem scale_out_remove_total cl epoch :
  part_inv (cl_chunks cl) -> cluster_is_migrating cl = false ->
  exists chunks migs, remove_slots_from_src cl epoch = Done (chunks, migs).
Proof.
  intros Hinv Hmig.
  pose proof (not_migrating_no_migs cl Hmig) as Hnm.
  destruct (part_inv_stable _ Hinv Hnm) as [Hws Hcov].
  pose proof (pi_size _ Hinv) as Hsz.
  assert (Hlen : (0 < length (cl_chunks cl))%nat).
  { destruct (length (cl_chunks cl)) eqn:El; [|lia]. exfalso.
    apply length_zero_iff_nil in El. specialize (Hcov 0). rewrite El, slot_ind_zero in Hcov.
    cbn [stable_ranges flat_map] in Hcov. rewrite cnt_nil in Hcov. discriminate. }
  pose proof (average_pos _ Hlen Hsz) as Havg.
  unfold remove_slots_from_src. cbv zeta.
  match goal with
  | |- context [scale_out_chunks ?e ?a ?r ?sm ?dm ?sc 0%nat _ _] =>
    destruct (scale_out_chunks_total e a r sm dm sc Havg (cl_chunks cl) 0%nat (mkAcc 0 [] 0 []) Hws) as (ch & acc & E & _)
  end.
  - cbn [a_dst]. lia.
  - cbn [a_num a_dst]. eapply N.lt_le_trans; [|apply dst_final_pos; exact Havg]. lia.
  - rewrite E. eauto.
Qed.

Theorem migrate_slots_total s name :
  store_part_inv s -> snd (migrate_slots s name) <> Panic /\ snd (migrate_slots s name) <> Fail E_BadChoice.
Proof.
  intros Hinv. unfold migrate_slots. cbv zeta.
  destruct (alookup name (st_clusters (bump s))) as [cl|] eqn:El; [|cbn [snd]; split; discriminate].
  destruct (negb (existsb has_empty_stable (cl_chunks cl))); [cbn [snd]; split; discriminate|].
  destruct (cluster_is_migrating cl) eqn:Emig; [cbn [snd]; split; discriminate|].
  assert (Hcl : part_inv (cl_chunks cl)).
  { apply alookup_In in El. change (st_clusters (bump s)) with (st_clusters s) in El. exact (Hinv _ _ El). }
  destruct (scale_out_remove_total cl (st_epoch (bump s)) Hcl Emig) as (chunks & migs & E). rewrite E.
  destruct (remove_src_assign_done _ _ _ _ E) as [chunks' E']. rewrite E'.
  cbn [snd]. split; discriminate.
Qed.

(* ---------- the hypotheses are satisfiable by a non-trivial value ---------- *)
(* one full chunk and one free chunk: the invariant holds, no migration runs, the remove phase plans two migrations *)
Example scale_out_remove_total_ex :
  let cl := mkCluster 5 [BrokerPartMigrateEx.ex_chunk (Some [(0, 8191)]) (Some [(8192, 16383)]) 0;
                         BrokerPartMigrateEx.ex_chunk None None 10] 0 in
  part_inv (cl_chunks cl) /\ cluster_is_migrating cl = false /\
  exists chunks migs, remove_slots_from_src cl 6 = Done (chunks, migs) /\ length migs = 2%nat.
Proof.
  cbv zeta. split; [|split].
  - apply (BrokerPartMigrateEx.ex_out_inv 1). left. reflexivity.
  - reflexivity.
  - eexists. eexists. split; [vm_compute; reflexivity|reflexivity].
Qed.

Example migrate_slots_total_ex :
  store_part_inv BrokerPartMigrateEx.ex_out_store /\ snd (migrate_slots BrokerPartMigrateEx.ex_out_store 1) = Done tt.
Proof. split; [exact BrokerPartMigrateEx.ex_out_inv|exact BrokerPartMigrateEx.ex_out_done]. Qed.

Print Assumptions scale_out_remove_total.
Print Assumptions migrate_slots_total.
