(* C02 on broker histories, part 1: the store invariant behind view_wfb.
     res_ok     every registered proxy a has the node addresses 2a and 2a+1 (add_proxy is the only creator of resources)
     ent_ok     every migration entry goes from one chunk to a DIFFERENT chunk and its range list is strictly ascending
                (every entry went through compact_slots when it was created or last rewritten)
   Definitions, RangeList::compact producing ascending lists, and the two planners creating entries between different chunks. *)
From UM Require Import Base.BytesDef Model.Ranges Model.Broker Model.Route Proofs.BrokerBase Proofs.BrokerPartRanges
     Proofs.BrokerPartDefs Proofs.BrokerPartMigrateBase Proofs.BrokerBalanceDefs Proofs.BrokerBalanceQuiet.
From Coq Require Import ZifyBool ZifyNat ZifyN Permutation.

(* ---------- ascending range lists ---------- *)
Fixpoint rl_ascb (rl : rangelist) : bool :=
  match rl with
  | [] => true
  | r :: rest =>
    N.leb (fst r) (snd r)
    && match rest with
       | [] => true
       | r' :: _ => N.ltb (snd r) (fst r')
       end
    && rl_ascb rest
  end.

Lemma merge_sorted_asc : forall rest cur,
  wf_range cur -> Forall wf_range rest -> sorted_starts (cur :: rest) ->
  rl_ascb (merge_sorted cur rest) = true /\ exists h t, merge_sorted cur rest = h :: t /\ fst h = fst cur.
Proof.
  induction rest as [|e rest IH]; intros cur Hc Hr Hs; cbn [merge_sorted].
  - split; [|exists cur, []; auto]. cbn [rl_ascb]. unfold wf_range in Hc. lia.
  - inversion Hr as [|? ? He Hr']; subst. destruct Hs as [Hcur [He' Hs']]. unfold wf_range in *.
    destruct (N.leb (fst e) (snd cur + 1)) eqn:E.
    + destruct (IH (fst cur, N.max (snd cur) (snd e))) as [A [h [t [Eq Hh]]]].
      * unfold wf_range. cbn [fst snd]. lia.
      * exact Hr'.
      * cbn [sorted_starts]. split; [|exact Hs']. intros x Hx. cbn [fst]. apply Hcur. right. exact Hx.
      * split; [exact A|]. exists h, t. split; [exact Eq|exact Hh].
    + destruct (IH e He Hr') as [A [h [t [Eq Hh]]]].
      * cbn [sorted_starts]. split; assumption.
      * split; [|exists cur, (merge_sorted e rest); auto]. rewrite Eq in *. cbn [rl_ascb] in *.
        rewrite A. assert (N.leb (fst cur) (snd cur) = true) by lia. assert (N.ltb (snd cur) (fst h) = true) by lia.
        rewrite H, H0. reflexivity.
Qed.

Theorem compact_asc l : rl_ascb (compact l) = true.
Proof.
  unfold compact.
  pose proof (sort_acc_perm (map norm_range l) []) as Hp. cbn [app] in Hp.
  pose proof (sort_acc_sorted (map norm_range l) [] I) as Hs.
  assert (Hw : Forall wf_range (sort_ranges_stable_acc [] (map norm_range l))).
  { eapply Permutation_Forall; [exact Hp|]. apply Forall_forall. intros x Hx. apply in_map_iff in Hx.
    destruct Hx as [y [<- _]]. apply norm_range_is_wf. }
  destruct (sort_ranges_stable_acc [] (map norm_range l)) as [|c r]; [reflexivity|].
  inversion Hw; subst. apply merge_sorted_asc; assumption.
Qed.

(* ---------- the invariant ---------- *)
Definition ent_pre (e : mig_store) : Prop := mm_src_idx (ms_meta e) <> mm_dst_idx (ms_meta e).
Definition ent_ok (e : mig_store) : Prop := ent_pre e /\ rl_ascb (ms_ranges e) = true.

Definition ck_ents (c : chunk) : list mig_store := ck_mig0 c ++ ck_mig1 c.
Definition chunks_ok (P : mig_store -> Prop) (l : list chunk) : Prop := forall c e, In c l -> In e (ck_ents c) -> P e.

Definition res_ok (ps : list (N * presource)) : Prop := forall a r, In (a, r) ps -> pr_n0 r = 2 * a /\ pr_n1 r = 2 * a + 1.

Definition rinv (s : store) : Prop :=
  res_ok (st_proxies s) /\ forall name cl, In (name, cl) (st_clusters s) -> chunks_ok ent_ok (cl_chunks cl).

Lemma ent_ok_pre e : ent_ok e -> ent_pre e.
Proof. intros [H _]. exact H. Qed.

Lemma ent_ok_compact e : ent_pre e -> ent_ok (compact_mig e).
Proof. intros H. split; [exact H|]. cbn [compact_mig ms_ranges]. apply compact_asc. Qed.

Lemma ent_ok_epoch x e : ent_ok e -> ent_ok (set_mig_epoch x e).
Proof. intros [H1 H2]. split; [exact H1|exact H2]. Qed.

Lemma ck_ents_In c e : In e (ck_ents c) <-> exists p, In e (ck_mig c p).
Proof.
  unfold ck_ents. rewrite in_app_iff. split.
  - intros [H|H]; [exists false|exists true]; exact H.
  - intros [[|] H]; [right|left]; exact H.
Qed.

Lemma chunks_ok_weaken (P Q : mig_store -> Prop) l : (forall e, P e -> Q e) -> chunks_ok P l -> chunks_ok Q l.
Proof. intros H HP c e Hc He. apply H. eapply HP; eauto. Qed.

Lemma chunks_ok_compact l : chunks_ok ent_pre l -> chunks_ok ent_ok (compact_slots l).
Proof.
  intros H c' e' Hc' He'. unfold compact_slots in Hc'. apply in_map_iff in Hc'. destruct Hc' as [c [<- Hc]].
  unfold ck_ents, compact_chunk in He'. cbn [ck_mig0 ck_mig1] in He'. rewrite <- map_app in He'.
  apply in_map_iff in He'. destruct He' as [e [<- He]]. apply ent_ok_compact. eapply H; eauto.
Qed.

Lemma chunks_ok_no_migs P l : no_migs l -> chunks_ok P l.
Proof. intros H c e Hc He. destruct (H c Hc) as [H0 H1]. unfold ck_ents in He. rewrite H0, H1 in He. destruct He. Qed.

Lemma chunks_ok_app P a b : chunks_ok P a -> chunks_ok P b -> chunks_ok P (a ++ b).
Proof. intros Ha Hb c e Hc He. apply in_app_or in Hc. destruct Hc; [eapply Ha|eapply Hb]; eauto. Qed.

Lemma chunks_ok_filter P f l : chunks_ok P l -> chunks_ok P (filter f l).
Proof. intros H c e Hc He. apply filter_In in Hc. eapply H; [apply Hc|exact He]. Qed.

(* lists with the same entries chunk by chunk *)
Lemma chunks_ok_same_ents P l l' : map ck_ents l' = map ck_ents l -> chunks_ok P l -> chunks_ok P l'.
Proof.
  intros E H c' e Hc' He. apply (in_map ck_ents) in Hc'. rewrite E in Hc'. apply in_map_iff in Hc'.
  destruct Hc' as [c [Ec Hc]]. apply (H c e Hc). rewrite Ec. exact He.
Qed.

Lemma ents_set_stable c p v : ck_ents (set_stable c p v) = ck_ents c.
Proof. destruct p; reflexivity. Qed.
Lemma ents_set_role c r : ck_ents (set_role c r) = ck_ents c.
Proof. reflexivity. Qed.

(* ---------- the remove phases do not touch entries ---------- *)
Lemma scale_out_chunks_ents epoch av rem smn dmn scn : forall chunks idx acc chunks' acc',
  scale_out_chunks epoch av rem smn dmn scn idx chunks acc = Done (chunks', acc') ->
  map ck_ents chunks' = map ck_ents chunks.
Proof.
  induction chunks as [|c rest IH]; intros idx acc chunks' acc'; cbn [scale_out_chunks].
  - intros H. inversion H. reflexivity.
  - cbv beta zeta.
    destruct (ck_stable c false) as [rl0|].
    + destruct (scale_out_loop _ _ _ _ _ _ _ _ _ rl0 acc) as [[rl0' acc0]|?|]; [|discriminate|discriminate].
      destruct (ck_stable (set_stable c false (Some rl0')) true) as [rl1|].
      * destruct (scale_out_loop _ _ _ _ _ _ _ _ _ rl1 acc0) as [[rl1' acc1]|?|]; [|discriminate|discriminate].
        destruct (scale_out_chunks _ _ _ _ _ _ _ rest acc1) as [[rest' acc3]|?|] eqn:E; [|discriminate|discriminate].
        intros H. inversion H; subst. cbn [map]. rewrite (IH _ _ _ _ E). reflexivity.
      * destruct (scale_out_chunks _ _ _ _ _ _ _ rest acc0) as [[rest' acc3]|?|] eqn:E; [|discriminate|discriminate].
        intros H. inversion H; subst. cbn [map]. rewrite (IH _ _ _ _ E). reflexivity.
    + destruct (ck_stable c true) as [rl1|].
      * destruct (scale_out_loop _ _ _ _ _ _ _ _ _ rl1 acc) as [[rl1' acc1]|?|]; [|discriminate|discriminate].
        destruct (scale_out_chunks _ _ _ _ _ _ _ rest acc1) as [[rest' acc3]|?|] eqn:E; [|discriminate|discriminate].
        intros H. inversion H; subst. cbn [map]. rewrite (IH _ _ _ _ E). reflexivity.
      * destruct (scale_out_chunks _ _ _ _ _ _ _ rest acc) as [[rest' acc3]|?|] eqn:E; [|discriminate|discriminate].
        intros H. inversion H; subst. cbn [map]. rewrite (IH _ _ _ _ E). reflexivity.
Qed.

Lemma scale_down_chunks_ents epoch av rem dmn de : forall chunks idx acc chunks' acc',
  scale_down_chunks epoch av rem dmn de idx chunks acc = Done (chunks', acc') ->
  map ck_ents chunks' = map ck_ents chunks.
Proof.
  induction chunks as [|c rest IH]; intros idx acc chunks' acc'; cbn [scale_down_chunks].
  - intros H. inversion H. reflexivity.
  - cbv beta zeta.
    destruct (ck_stable c false) as [rl0|].
    + destruct (scale_down_loop _ _ _ _ _ _ _ _ rl0 acc) as [[rl0' acc0]|?|]; [|discriminate|discriminate].
      destruct (ck_stable (set_stable c false None) true) as [rl1|].
      * destruct (scale_down_loop _ _ _ _ _ _ _ _ rl1 acc0) as [[rl1' acc1]|?|]; [|discriminate|discriminate].
        destruct (scale_down_chunks _ _ _ _ _ _ rest acc1) as [[rest' acc3]|?|] eqn:E; [|discriminate|discriminate].
        intros H. inversion H; subst. cbn [map]. rewrite (IH _ _ _ _ E). reflexivity.
      * destruct (scale_down_chunks _ _ _ _ _ _ rest acc0) as [[rest' acc3]|?|] eqn:E; [|discriminate|discriminate].
        intros H. inversion H; subst. cbn [map]. rewrite (IH _ _ _ _ E). reflexivity.
    + destruct (ck_stable c true) as [rl1|].
      * destruct (scale_down_loop _ _ _ _ _ _ _ _ rl1 acc) as [[rl1' acc1]|?|]; [|discriminate|discriminate].
        destruct (scale_down_chunks _ _ _ _ _ _ rest acc1) as [[rest' acc3]|?|] eqn:E; [|discriminate|discriminate].
        intros H. inversion H; subst. cbn [map]. rewrite (IH _ _ _ _ E). reflexivity.
      * destruct (scale_down_chunks _ _ _ _ _ _ rest acc) as [[rest' acc3]|?|] eqn:E; [|discriminate|discriminate].
        intros H. inversion H; subst. cbn [map]. rewrite (IH _ _ _ _ E). reflexivity.
Qed.

(* ---------- assign_dst_slots only adds entries built from the planned metas ---------- *)
Lemma In_update_nth {A} (f : A -> A) : forall l n x, In x (update_nth n f l) -> In x l \/ exists y, In y l /\ x = f y.
Proof.
  induction l as [|a l IH]; intros [|n] x; cbn [update_nth In]; try tauto.
  - intros [<-|H]; [right; exists a; auto|left; auto].
  - intros [<-|H]; [left; auto|]. destruct (IH n x H) as [?|[y [? ?]]]; [left; auto|right; exists y; auto].
Qed.

Lemma ents_push c p x e : In e (ck_ents (set_mig c p (ck_mig c p ++ [x]))) -> In e (ck_ents c) \/ e = x.
Proof.
  destruct p; unfold ck_ents, set_mig; cbn [ck_mig ck_mig0 ck_mig1]; rewrite !in_app_iff; cbn [In]; intuition (subst; auto).
Qed.

Definition metas_pre (migs : list (rangelist * mig_meta)) : Prop := forall l m, In (l, m) migs -> mm_src_idx m <> mm_dst_idx m.

Lemma assign_dst_slots_pre : forall migs chunks chunks',
  assign_dst_slots chunks migs = Done chunks' -> metas_pre migs -> chunks_ok ent_pre chunks -> chunks_ok ent_pre chunks'.
Proof.
  induction migs as [|[rl m] rest IH]; intros chunks chunks'; cbn [assign_dst_slots].
  - intros H _ Hc. inversion H; subst. exact Hc.
  - destruct (_ && _); [|discriminate]. intros H Hm Hc. apply IH in H; [exact H| |].
    + intros l' m' Hin. apply (Hm l' m'). right. exact Hin.
    + assert (Hnew : mm_src_idx m <> mm_dst_idx m) by (apply (Hm rl m); left; reflexivity).
      intros c e Hin He.
      apply In_update_nth in Hin. destruct Hin as [Hin|[c1 [Hin ->]]].
      * apply In_update_nth in Hin. destruct Hin as [Hin|[c0 [Hin ->]]]; [eapply Hc; eauto|].
        apply ents_push in He. destruct He as [He| ->]; [eapply Hc; eauto|exact Hnew].
      * apply ents_push in He. destruct He as [He| ->]; [|exact Hnew].
        apply In_update_nth in Hin. destruct Hin as [Hin|[c0 [Hin ->]]]; [eapply Hc; eauto|].
        apply ents_push in He. destruct He as [He| ->]; [eapply Hc; eauto|exact Hnew].
Qed.

(* ---------- scale-out: source chunks lie before src_chunk_num, destinations at or after it ---------- *)
Section OutD.
Variables (epoch avg rem smn dmn : N) (scn : nat).

Lemma scale_out_loop_pre : forall fuel idx part rl acc rl' acc',
  scale_out_loop fuel epoch avg rem smn dmn scn idx part rl acc = Done (rl', acc') ->
  (idx < scn)%nat -> metas_pre (a_migs acc) -> metas_pre (a_migs acc').
Proof.
  induction fuel as [|fuel IH]; intros idx part rl acc rl' acc' H Hidx Hok; cbn [scale_out_loop] in H; [discriminate|].
  destruct (N.eqb (a_dst acc) dmn) eqn:Ed; [inversion H; subst; auto|].
  set (sf := avg + b2n (N.ltb (2 * N.of_nat idx + b2n part) rem)) in H.
  set (df := avg + b2n (N.ltb (smn + a_dst acc) rem)) in H.
  destruct (slots_num rl) as [n|]; [|discriminate].
  destruct (N.leb n sf); [inversion H; subst; auto|].
  destruct (csub df (a_num acc)) as [need|]; [|discriminate].
  destruct (split_last rl) as [[front r]|]; [|discriminate].
  destruct (range_len r) as [num|]; [|discriminate].
  match type of H with context [if N.leb ?a ?b then (?x, ?y, ?z) else ?w] =>
    destruct (if N.leb a b then (x, y, z) else w) as [[rl1 cur1] num1] end.
  destruct (slots_num rl1) as [n1|]; [|discriminate].
  destruct (N.leb df num1 || N.leb n1 sf).
  - set (meta := mkMeta epoch idx part (scn + N.to_nat (a_dst acc / 2)) (N.eqb (a_dst acc mod 2) 1)) in H.
    assert (Hok' : metas_pre ((rl_new cur1, meta) :: a_migs acc)).
    { intros l m [E|Hin]; [inversion E; subst; unfold meta; cbn [mm_src_idx mm_dst_idx]; lia|eapply Hok; exact Hin]. }
    destruct (N.leb n1 sf).
    + inversion H; subst rl' acc'. destruct (N.leb df num1); cbn [a_migs]; exact Hok'.
    + apply IH in H; auto; destruct (N.leb df num1); cbn [a_migs]; exact Hok'.
  - apply IH in H; auto.
Qed.

Lemma scale_out_chunks_pre : forall chunks idx acc chunks' acc',
  scale_out_chunks epoch avg rem smn dmn scn idx chunks acc = Done (chunks', acc') ->
  (forall j c p, nth_error chunks j = Some c -> ck_stable c p <> None -> (idx + j < scn)%nat) ->
  metas_pre (a_migs acc) -> metas_pre (a_migs acc').
Proof.
  induction chunks as [|c rest IH]; intros idx acc chunks' acc' H Hsrc Hok; cbn [scale_out_chunks] in H.
  - inversion H; subst. auto.
  - assert (Hstep : forall part c0 acc0 c1 acc1,
      (ck_stable c0 part <> None -> (idx < scn)%nat) ->
      match ck_stable c0 part with
      | Some rl =>
        match scale_out_loop (loop_fuel rl dmn) epoch avg rem smn dmn scn idx part rl acc0 with
        | Done (rl', acc'0) => Done (set_stable c0 part (Some rl'), acc'0)
        | Fail e => Fail e
        | Panic => Panic
        end
      | None => Done (c0, acc0)
      end = Done (c1, acc1) ->
      metas_pre (a_migs acc0) -> metas_pre (a_migs acc1)).
    { intros part c0 acc0 c1 acc1 Hi Hp Hok0. destruct (ck_stable c0 part) as [rl|].
      - destruct (scale_out_loop (loop_fuel rl dmn) epoch avg rem smn dmn scn idx part rl acc0) as [[rl' acc'0]|e|] eqn:El;
          try discriminate.
        inversion Hp; subst. eapply scale_out_loop_pre; [exact El|apply Hi; discriminate|exact Hok0].
      - inversion Hp; subst. auto. }
    match type of H with match ?X with _ => _ end = _ => destruct X as [[c1 acc1]|e|] eqn:E0; try discriminate end.
    match type of H with match ?X with _ => _ end = _ => destruct X as [[c2 acc2]|e|] eqn:E1; try discriminate end.
    match type of H with match ?X with _ => _ end = _ => destruct X as [[rest' acc3]|e|] eqn:E2; try discriminate end.
    inversion H; subst chunks' acc3.
    assert (Hc : forall p, ck_stable c p <> None -> (idx < scn)%nat).
    { intros p Hp. specialize (Hsrc 0%nat c p eq_refl Hp). lia. }
    pose proof (Hstep false c acc c1 acc1 (Hc false) E0 Hok) as Hok1.
    assert (Hc1 : ck_stable c1 true <> None -> (idx < scn)%nat).
    { intros Hp. destruct (ck_stable c false) as [rl|] eqn:Es.
      - apply (Hc false). rewrite Es. discriminate.
      - inversion E0; subst c1. apply (Hc true). exact Hp. }
    pose proof (Hstep true c1 acc1 c2 acc2 Hc1 E1 Hok1) as Hok2.
    eapply IH; [exact E2| |exact Hok2].
    intros j c' p Hn Hp. specialize (Hsrc (S j) c' p Hn Hp). lia.
Qed.
End OutD.

Lemma remove_src_pre cl epoch chunks migs :
  part_inv (cl_chunks cl) -> balance_inv (cl_chunks cl) -> no_migs (cl_chunks cl) ->
  remove_slots_from_src cl epoch = Done (chunks, migs) -> metas_pre migs.
Proof.
  intros Hp [k Hb] Hnm. unfold remove_slots_from_src. intros H.
  rewrite (quiescent_filter_empty k _ Hp Hb Hnm) in H.
  match type of H with match ?X with _ => _ end = _ => destruct X as [[chunks' acc]|e|] eqn:E; try discriminate end.
  inversion H; subst chunks migs. clear H.
  pose proof Hb as (_ & Hkl & _).
  assert (Hm : metas_pre (a_migs acc)).
  { eapply scale_out_chunks_pre; [exact E| |intros l m []].
    intros j c p Hn Hs. destruct (quiescent_shape k _ Hp Hb Hnm j c p Hn) as [_ Hge].
    destruct (Nat.lt_ge_cases j k) as [Hlt|Hle]; [lia|]. specialize (Hge Hle). congruence. }
  intros l m Hin. apply in_rev in Hin. eapply Hm. exact Hin.
Qed.

(* ---------- scale-down: destinations lie before new_chunk_num, sources at or after it ---------- *)
Section DownD.
Variables (epoch avg rem : N) (ex : list N) (ncn : nat).
Let dmn : N := 2 * N.of_nat ncn.

Lemma scale_down_loop_pre : forall fuel idx part rl acc rl' acc',
  scale_down_loop fuel epoch avg rem dmn ex idx part rl acc = Done (rl', acc') ->
  (ncn <= idx)%nat -> a_dst acc <= dmn -> metas_pre (a_migs acc) ->
  a_dst acc' <= dmn /\ metas_pre (a_migs acc').
Proof.
  induction fuel as [|fuel IH]; intros idx part rl acc rl' acc' H Hidx Hle Hok; cbn [scale_down_loop] in H; [discriminate|].
  destruct (N.eqb (a_dst acc) dmn) eqn:Ed; [inversion H; subst; auto|].
  set (df := avg + b2n (N.ltb (a_dst acc) rem)) in H.
  assert (Hlt : a_dst acc < dmn) by lia.
  destruct (nth_error ex (N.to_nat (a_dst acc))) as [e|]; [|discriminate].
  destruct (csub df (a_num acc)) as [d1|]; [|discriminate].
  destruct (csub d1 e) as [need|]; [|discriminate].
  destruct (N.eqb need 0).
  { apply IH in H; cbn [a_dst a_migs]; auto. lia. }
  destruct (slots_num rl) as [av|]; [|discriminate].
  destruct (N.eqb av 0); [inversion H; subst; auto|].
  destruct rl as [|r tail]; [discriminate|].
  destruct (range_len r) as [num|]; [|discriminate].
  match type of H with context [if N.leb ?a ?b then (?x, ?y, ?z) else ?w] =>
    destruct (if N.leb a b then (x, y, z) else w) as [[rl1 cur1] num1] end.
  destruct (slots_num rl1) as [n1|]; [|discriminate].
  destruct (N.leb df (num1 + e) || N.eqb n1 0).
  - set (meta := mkMeta epoch idx part (N.to_nat (a_dst acc / 2)) (N.eqb (a_dst acc mod 2) 1)) in H.
    assert (Hok' : metas_pre ((rl_new cur1, meta) :: a_migs acc)).
    { intros l m [E|Hin]; [|eapply Hok; exact Hin]. inversion E; subst. unfold meta. cbn [mm_src_idx mm_dst_idx].
      assert (a_dst acc / 2 < N.of_nat ncn) by (apply N.div_lt_upper_bound; unfold dmn in Hlt; lia). lia. }
    destruct (N.eqb n1 0).
    + inversion H; subst rl' acc'. destruct (N.leb df (num1 + e)); cbn [a_dst a_migs]; split; auto; lia.
    + apply IH in H; auto; destruct (N.leb df (num1 + e)); cbn [a_dst a_migs]; auto; lia.
  - apply IH in H; auto.
Qed.

Lemma scale_down_chunks_pre : forall chunks idx acc chunks' acc',
  scale_down_chunks epoch avg rem dmn ex idx chunks acc = Done (chunks', acc') ->
  (ncn <= idx)%nat -> a_dst acc <= dmn -> metas_pre (a_migs acc) ->
  a_dst acc' <= dmn /\ metas_pre (a_migs acc').
Proof.
  induction chunks as [|c rest IH]; intros idx acc chunks' acc' H Hidx Hle Hok; cbn [scale_down_chunks] in H.
  - inversion H; subst. auto.
  - assert (Hstep : forall part c0 acc0 c1 acc1,
      match ck_stable c0 part with
      | Some rl =>
        match scale_down_loop (loop_fuel rl dmn) epoch avg rem dmn ex idx part rl acc0 with
        | Done (_, acc'0) => Done (set_stable c0 part None, acc'0)
        | Fail e => Fail e
        | Panic => Panic
        end
      | None => Done (c0, acc0)
      end = Done (c1, acc1) ->
      a_dst acc0 <= dmn -> metas_pre (a_migs acc0) -> a_dst acc1 <= dmn /\ metas_pre (a_migs acc1)).
    { intros part c0 acc0 c1 acc1 Hp Hle0 Hok0. destruct (ck_stable c0 part) as [rl|].
      - destruct (scale_down_loop (loop_fuel rl dmn) epoch avg rem dmn ex idx part rl acc0) as [[rl' acc'0]|e|] eqn:El;
          try discriminate.
        inversion Hp; subst. eapply scale_down_loop_pre; [exact El|lia|exact Hle0|exact Hok0].
      - inversion Hp; subst. auto. }
    match type of H with match ?X with _ => _ end = _ => destruct X as [[c1 acc1]|e|] eqn:E0; try discriminate end.
    match type of H with match ?X with _ => _ end = _ => destruct X as [[c2 acc2]|e|] eqn:E1; try discriminate end.
    match type of H with match ?X with _ => _ end = _ => destruct X as [[rest' acc3]|e|] eqn:E2; try discriminate end.
    inversion H; subst chunks' acc3.
    destruct (Hstep _ _ _ _ _ E0 Hle Hok) as [Hle1 Hok1].
    destruct (Hstep _ _ _ _ _ E1 Hle1 Hok1) as [Hle2 Hok2].
    eapply IH; [exact E2|lia|exact Hle2|exact Hok2].
Qed.
End DownD.

Lemma remove_src_down_pre cl epoch k chunks migs :
  remove_slots_from_src_to_scale_down cl epoch k = Done (chunks, migs) -> metas_pre migs.
Proof.
  unfold remove_slots_from_src_to_scale_down. intros H.
  destruct (existing_nums (firstn k (cl_chunks cl))) as [ex|]; [|discriminate].
  match type of H with match ?X with _ => _ end = _ => destruct X as [[chunks' acc]|e|] eqn:E; try discriminate end.
  inversion H; subst chunks migs. clear H.
  pose proof (scale_down_chunks_pre epoch _ _ _ k _ _ _ _ _ E) as Hm.
  cbn [a_dst a_migs] in Hm. destruct Hm as [_ Hm]; [lia|lia|intros l m []|].
  intros l m Hin. apply in_rev in Hin. eapply Hm. exact Hin.
Qed.
