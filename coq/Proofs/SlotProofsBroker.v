(* C09 x C02: the key-level corollary.  Model/Slot.v (hashing: key -> slot) and Model/Route.v (slot-level routing over broker views)
   both define `route`, `install`, `installed`, ... so the composed statements are packaged here as named propositions
   (the way Proofs/C17BrokerHalf.v does) and quoted by Props/C09.v.  Slot names are used qualified. *)
From UM Require Import Base.BytesDef Model.Ranges Model.Broker Model.Route
     Proofs.BrokerPartRanges Proofs.BrokerPartDefs Proofs.RouteProofs Proofs.RouteProofsDyn Proofs.RouteProofsGlue
     Proofs.BrokerTotal Proofs.RouteProofsBroker.
From UM Require Model.Slot Proofs.SlotProofs.

(* for every key, its slot satisfies exactly the premise `sl < SLOT_NUM` of C02_route / C02_reachable_route
   (Ranges.SLOT_NUM, the constant of the route group's statements) *)
Definition key_slot_in_range_stmt : Prop := forall k : bytes, Slot.slot k < Ranges.SLOT_NUM.

Lemma key_slot_in_range_holds : key_slot_in_range_stmt.
Proof. intros k. exact (SlotProofs.slot_range k). Qed.

(* the two models agree on the constant *)
Lemma slot_num_same : Slot.SLOT_NUM = Ranges.SLOT_NUM.
Proof. reflexivity. Qed.

(* C02_reachable_route instantiated at `slot k`: for every store reached by ANY broker operation sequence, every served cluster
   view, every consistent phase assignment, every KEY and every start proxy of the cluster, every chase (following MOVED answers,
   each proxy holding what the coordinator installs from the broker's view of it) for the slot the key hashes to makes at most one
   redirection (two for a migrating slot), ends executed on the designated node or parked at an allowed node whose barrier is raised,
   never in an error, and no decision on the way executes the command on a node that is not allowed for that slot *)
Definition key_route_stmt : Prop :=
  forall s, reachable_any s -> forall lim name v, view_cluster lim s name = Some (Some v) ->
  forall ph (k : bytes) start tr,
  phases_ok ph (vc_nodes v) = true -> In start (proxies_of (vc_nodes v)) ->
  path ph (installed s lim) (Slot.slot k) start tr ->
  ((redirections tr <= if migrating_slot (vc_nodes v) (Slot.slot k) then 2 else 1)%nat
   /\ exists p o, last_step tr = Some (p, o) /\ In p (proxies_of (vc_nodes v)) /\
        match o with
        | Exec n => designated ph (vc_nodes v) (Slot.slot k) = Some n
        | Queued n => node_blocked ph (installed s lim p) n = true /\ In n (allowed_nodes (vc_nodes v) (Slot.slot k))
        | Moved q => In q (proxies_of (vc_nodes v)) /\ route_step ph (installed s lim q) (Slot.slot k) <> []
        | Err _ => False
        end)
  /\ (forall p o, In (p, o) tr ->
        match o with
        | Exec n | Queued n => In n (allowed_nodes (vc_nodes v) (Slot.slot k))
        | Moved q => In q (proxies_of (vc_nodes v))
        | Err _ => False
        end).

Lemma key_route_holds : key_route_stmt.
Proof.
  intros s Hr lim name v Hv ph k start tr Hph Hst Hp.
  exact (reachable_route_main s Hr lim name v Hv ph (Slot.slot k) start tr Hph (key_slot_in_range_holds k) Hst Hp).
Qed.

(* the same with the handshakes progressing during the chase (C02_reachable_route_dynamic at `slot k`) *)
Definition key_route_dynamic_stmt : Prop :=
  forall s, reachable_any s -> forall lim name v, view_cluster lim s name = Some (Some v) ->
  forall (k : bytes) start phs tr,
  In start (proxies_of (vc_nodes v)) ->
  Forall (fun ph => phases_ok ph (vc_nodes v) = true) phs -> chain phs ->
  dpath (installed s lim) (Slot.slot k) phs start tr ->
  (redirections tr <= if migrating_slot (vc_nodes v) (Slot.slot k) then 3 else 1)%nat
  /\ exists ph p o, last_ph phs = Some ph /\ last_step tr = Some (p, o) /\ In p (proxies_of (vc_nodes v)) /\
       match o with
       | Exec n => designated ph (vc_nodes v) (Slot.slot k) = Some n
       | Queued n => node_blocked ph (installed s lim p) n = true /\ In n (allowed_nodes (vc_nodes v) (Slot.slot k))
       | Moved q => In q (proxies_of (vc_nodes v))
       | Err _ => False
       end.

Lemma key_route_dynamic_holds : key_route_dynamic_stmt.
Proof.
  intros s Hr lim name v Hv k start phs tr Hst Hph Hch Hp.
  exact (reachable_route_dynamic_main s Hr lim name v Hv (Slot.slot k) start phs tr (key_slot_in_range_holds k) Hst Hph Hch Hp).
Qed.

(* every proxy of the cluster answers something for the slot of every key (C02_progress at `slot k`) *)
Definition key_progress_stmt : Prop :=
  forall ns ph (k : bytes) p,
  partition_ok ns -> view_wfb ns = true -> In p (proxies_of ns) ->
  route_step ph (install_ns ns p) (Slot.slot k) <> [].

Lemma key_progress_holds : key_progress_stmt.
Proof. intros ns ph k p Hpo Hwf Hp. exact (route_progress ns ph (Slot.slot k) p Hpo Hwf (key_slot_in_range_holds k) Hp). Qed.
