(* Control-plane model: the compiled migration-sync round.
   Fault-free: every migration a proxy reports is sent to the broker for commit (exactly once then follows from
   CtrlProofsMain.commit_exactly_once). *)
From UM Require Import Base.BytesDef Model.Ctrl Proofs.CtrlProofsInv Proofs.CtrlProofsMain Proofs.CtrlProofsRound
  Proofs.CtrlProofsOrder.
From Coq Require Import ZifyBool ZifyNat ZifyN.

Definition commits_reports (evs : list event) : Prop :=
  forall a m, In (Report a m) evs -> In (Commit (m_id m)) evs.

Definition no_report (evs : list event) : Prop := forall a m, ~ In (Report a m) evs.

Lemma commits_reports_app : forall e1 e2, commits_reports e1 -> commits_reports e2 -> commits_reports (e1 ++ e2).
Proof.
  intros e1 e2 H1 H2 a m H. apply in_app_or in H. apply in_or_app. destruct H; [left; eapply H1 | right; eapply H2]; eassumption.
Qed.

Lemma no_report_commits : forall e, no_report e -> commits_reports e.
Proof. intros e H a m Hi. exfalso. eapply H; eauto. Qed.

Section Mig.
Variable served : nat -> addr -> option (N * N).
Variable reports : nat -> list mig.
Notation step := (step served).
Notation run := (run served).
Notation ff := (no_faults reports).

Lemma ff_events_no_report : forall k a tag i, no_report (ff_events k a tag i).
Proof. intros k a tag i a' m H. cbn in H. intuition discriminate. Qed.

(* fault-free sync of one proxy: always Continue, leaves k's queue as it was, emits no Report *)
Lemma sync_proxy_ff_facts : forall k a n s,
  queue_free k s ->
  let r := sync_proxy served ff k a n s in
  snd r = Continue /\ no_report (fst (fst r)) /\ queue (run (fst (fst r)) s) = queue s.
Proof.
  intros k a n s Hq. cbv zeta. rewrite sync_proxy_ff by assumption.
  destruct (served (now s) a) as [[E C]|] eqn:HS; cbn [fst snd].
  - split; [reflexivity|]. split; [apply ff_events_no_report|].
    destruct (ff_effect served s k a (N.of_nat n) E C Hq HS) as [_ [F2 _]]. exact F2.
  - split; [reflexivity|]. split; [intros a' m []|]. reflexivity.
Qed.

Lemma queue_run_report_commit : forall a m s, queue (run [Report a m; Commit (m_id m)] s) = queue s.
Proof.
  intros. unfold Ctrl.run. cbn [fold_left]. cbn [Ctrl.step pending].
  destruct (mem (m_id m) (pending s)); reflexivity.
Qed.

Lemma sync_migration_ff_facts : forall k a m n s,
  queue_free k s ->
  let r := sync_migration served ff k a m n s in
  snd r = Continue /\ commits_reports (fst (fst r)) /\ queue (run (fst (fst r)) s) = queue s.
Proof.
  intros k a m n s Hq. cbv zeta. unfold sync_migration, commit_call. cbn [sc_fault sc_inject no_faults app].
  set (e0 := [Report a m; Commit (m_id m)]).
  assert (Q0 : queue (run e0 s) = queue s) by apply queue_run_report_commit.
  assert (Hq0 : queue_free k (run e0 s)) by (unfold queue_free; rewrite Q0; exact Hq).
  destruct (sync_proxy_ff_facts k (m_dst m) (S n) (run e0 s) Hq0) as [D1 [D2 D3]].
  destruct (sync_proxy served ff k (m_dst m) (S n) (run e0 s)) as [[ed nd] od] eqn:SD.
  cbn [fst snd] in D1, D2, D3. subst od.
  assert (Q1 : queue (run (e0 ++ ed) s) = queue s) by (rewrite run_app; congruence).
  assert (Hq1 : queue_free k (run (e0 ++ ed) s)) by (unfold queue_free; rewrite Q1; exact Hq).
  destruct (sync_proxy_ff_facts k (m_src m) nd (run (e0 ++ ed) s) Hq1) as [S1 [S2 S3]].
  change (e0 ++ ed) with (Report a m :: Commit (m_id m) :: ed) in *.
  destruct (sync_proxy served ff k (m_src m) nd (run (Report a m :: Commit (m_id m) :: ed) s)) as [[es ns] os] eqn:SS.
  cbn [fst snd] in *. subst os.
  split; [reflexivity|]. split.
  - intros a' m' H.
    destruct H as [H | [H | H]].
    + inversion H; subst. right; left; reflexivity.
    + discriminate.
    + exfalso. apply in_app_or in H. destruct H; [eapply D2 | eapply S2]; eauto.
  - change (Report a m :: Commit (m_id m) :: ed ++ es) with ((Report a m :: Commit (m_id m) :: ed) ++ es).
    rewrite run_app. rewrite S3. exact Q1.
Qed.

Lemma sync_migrations_ff_facts : forall ms k a n s,
  queue_free k s ->
  let r := sync_migrations served ff k a ms n s in
  snd r = Continue /\ commits_reports (fst (fst r)) /\ queue (run (fst (fst r)) s) = queue s.
Proof.
  induction ms as [|m ms IH]; intros k a n s Hq; cbv zeta; cbn [sync_migrations].
  - cbn [fst snd]. split; [reflexivity|]. split; [intros a' m' []|reflexivity].
  - destruct (sync_migration_ff_facts k a m n s Hq) as [M1 [M2 M3]].
    destruct (sync_migration served ff k a m n s) as [[e1 n1] o1] eqn:SM. cbn [fst snd] in *. subst o1.
    assert (Hq1 : queue_free k (run e1 s)) by (unfold queue_free; rewrite M3; exact Hq).
    destruct (IH k a n1 (run e1 s) Hq1) as [R1 [R2 R3]].
    destruct (sync_migrations served ff k a ms n1 (run e1 s)) as [[e2 n2] o2] eqn:SR. cbn [fst snd] in *.
    split; [assumption|]. split; [apply commits_reports_app; assumption|].
    rewrite run_app. congruence.
Qed.

Lemma check_and_sync_ff_facts : forall k a n s,
  queue_free k s ->
  let r := check_and_sync served ff k a n s in
  snd r = Continue /\ commits_reports (fst (fst r)) /\ queue (run (fst (fst r)) s) = queue s.
Proof.
  intros k a n s Hq. cbv zeta. unfold check_and_sync. cbn [sc_fault sc_inject sc_reports no_faults]. rewrite run_nil.
  destruct (sync_migrations_ff_facts (reports n) k a (S n) s Hq) as [R1 [R2 R3]].
  destruct (sync_migrations served ff k a (reports n) (S n) s) as [[e1 n1] o1]. cbn [fst snd app] in *. auto.
Qed.

Lemma mig_round_from_ff_facts : forall addrs k n s,
  queue_free k s ->
  let evs := fst (fst (mig_round_from served ff k addrs n s)) in
  commits_reports evs /\ queue (run evs s) = queue s.
Proof.
  induction addrs as [|a addrs IH]; intros k n s Hq; cbv zeta; cbn [mig_round_from].
  - cbn [fst]. split; [intros a' m' []|reflexivity].
  - destruct (check_and_sync_ff_facts k a n s Hq) as [C1 [C2 C3]].
    destruct (check_and_sync served ff k a n s) as [[e1 n1] o1]. cbn [fst snd] in *. subst o1.
    assert (Hq1 : queue_free k (run e1 s)) by (unfold queue_free; rewrite C3; exact Hq).
    destruct (IH k n1 (run e1 s) Hq1) as [I1 I2].
    destruct (mig_round_from served ff k addrs n1 (run e1 s)) as [[e2 n2] o2]. cbn [fst] in *.
    split; [apply commits_reports_app; assumption|]. rewrite run_app. congruence.
Qed.

Lemma mig_round_ff_facts : forall k addrs n s,
  queue_free k s ->
  let evs := fst (fst (mig_round served ff k addrs n s)) in
  commits_reports evs /\ queue (run evs s) = queue s.
Proof.
  intros k addrs n s Hq. cbv zeta. unfold mig_round, listing. cbn [sc_fault sc_inject no_faults]. rewrite run_nil.
  pose proof (mig_round_from_ff_facts addrs k (S n) s Hq) as H. cbv zeta in H.
  destruct (mig_round_from served ff k addrs (S n) s) as [[e1 n1] o1]. cbn [fst app] in *. exact H.
Qed.

Theorem mig_round_commits_all : forall k addrs n s,
  queue_free k s -> commits_reports (fst (fst (mig_round served ff k addrs n s))).
Proof. intros. apply mig_round_ff_facts. assumption. Qed.

(* ---------- the compiled rounds never abandon a migration (no BrokerCancel event), whatever the call faults ---------- *)
Definition no_cancel (evs : list event) : Prop := forall ids, ~ In (BrokerCancel ids) evs.

Lemma no_cancel_app : forall e1 e2, no_cancel e1 -> no_cancel e2 -> no_cancel (e1 ++ e2).
Proof. intros e1 e2 H1 H2 ids H. apply in_app_or in H. destruct H; [eapply H1 | eapply H2]; eauto. Qed.

Lemma no_cancel_cons_app : forall x l r, no_cancel (x :: l) -> no_cancel r -> no_cancel (x :: l ++ r).
Proof. intros x l r H1 H2. change (x :: l ++ r) with ((x :: l) ++ r). apply no_cancel_app; assumption. Qed.

Lemma no_cancel_of_all : forall x evs, no_cancel evs -> no_cancel_of x evs = true.
Proof.
  intros x evs H. unfold no_cancel_of. apply forallb_forall. intros ev Hin.
  destruct ev; try reflexivity. exfalso. eapply H; eauto.
Qed.

Section Shape.
Variable sc : script.
Hypothesis NI : no_inject sc.

Lemma send_call_nc : forall k n s, no_cancel (fst (send_call served sc k n s)).
Proof.
  intros k n s. unfold send_call. rewrite NI. cbn [app].
  destruct (sc_fault sc n); cbn [fst]; intros ids H; cbn in H; intuition discriminate.
Qed.

Lemma sync_proxy_nc : forall k d n s, no_cancel (fst (fst (sync_proxy served sc k d n s))).
Proof.
  intros k d n s ids H. apply (sync_proxy_events served sc NI) in H.
  destruct H as [H | [H | [x [y H]]]]; try discriminate. eapply send_call_nc; eauto.
Qed.

Lemma sync_migration_nc : forall k a m n s, no_cancel (fst (fst (sync_migration served sc k a m n s))).
Proof.
  intros k a m n s. unfold sync_migration, commit_call. rewrite NI. cbn [app].
  assert (E0 : forall l, (forall ev, In ev l -> ev = Commit (m_id m) \/ ev = CoordinatorCrash k) -> no_cancel (Report a m :: l)).
  { intros l Hl ids [H | H]; [discriminate|]. destruct (Hl _ H); subst; discriminate. }
  destruct (sc_fault sc n); cbn [fst];
    try (apply E0; intros ev Hev; cbn in Hev; intuition).
  all: match goal with
       | |- context [sync_proxy served sc ?kk ?dd ?nn ?ss] =>
         pose proof (sync_proxy_nc kk dd nn ss) as Hd;
         destruct (sync_proxy served sc kk dd nn ss) as [[ed nd] od]
       end; cbn [fst] in Hd;
       destruct od;
       try (cbn [fst]; apply no_cancel_cons_app; [apply E0; intros ev Hev; cbn in Hev; intuition | exact Hd]).
  all: match goal with
       | |- context [sync_proxy served sc ?kk ?dd ?nn ?ss] =>
         pose proof (sync_proxy_nc kk dd nn ss) as Hs;
         destruct (sync_proxy served sc kk dd nn ss) as [[es ns] os]
       end; cbn [fst] in Hs |- *;
       apply no_cancel_cons_app; [apply E0; intros ev Hev; cbn in Hev; intuition | apply no_cancel_app; assumption].
Qed.

Lemma sync_migrations_nc : forall ms k a n s, no_cancel (fst (fst (sync_migrations served sc k a ms n s))).
Proof.
  induction ms as [|m ms IH]; intros k a n s; cbn [sync_migrations]; [intros ids []|].
  pose proof (sync_migration_nc k a m n s) as H1.
  destruct (sync_migration served sc k a m n s) as [[e1 n1] o1]. cbn [fst] in H1.
  destruct o1; try exact H1.
  pose proof (IH k a n1 (run e1 s)) as H2.
  destruct (sync_migrations served sc k a ms n1 (run e1 s)) as [[e2 n2] o2]. cbn [fst] in *.
  apply no_cancel_app; assumption.
Qed.

Lemma check_and_sync_nc : forall k a n s, no_cancel (fst (fst (check_and_sync served sc k a n s))).
Proof.
  intros k a n s. unfold check_and_sync. rewrite NI.
  destruct (sc_fault sc n); cbn [fst app]; try (intros ids H; cbn in H; intuition discriminate).
  all: pose proof (sync_migrations_nc (sc_reports sc n) k a (S n) (run [] s)) as H;
       destruct (sync_migrations served sc k a (sc_reports sc n) (S n) (run [] s)) as [[e1 n1] o1]; exact H.
Qed.

Lemma mig_round_from_nc : forall addrs k n s, no_cancel (fst (fst (mig_round_from served sc k addrs n s))).
Proof.
  induction addrs as [|a addrs IH]; intros k n s; cbn [mig_round_from]; [intros ids []|].
  pose proof (check_and_sync_nc k a n s) as H1.
  destruct (check_and_sync served sc k a n s) as [[e1 n1] o1]. cbn [fst] in H1.
  destruct o1;
    try (pose proof (IH k n1 (run e1 s)) as H2;
         destruct (mig_round_from served sc k addrs n1 (run e1 s)) as [[e2 n2] o2]; cbn [fst] in *;
         apply no_cancel_app; assumption).
  exact H1.
Qed.

Lemma mig_round_nc : forall k addrs n s, no_cancel (fst (fst (mig_round served sc k addrs n s))).
Proof.
  intros k addrs n s. unfold mig_round, listing. rewrite NI.
  destruct (sc_fault sc n); cbn [fst app]; try (intros ids H; cbn in H; intuition discriminate).
  all: pose proof (mig_round_from_nc addrs k (S n) (run [] s)) as H;
       destruct (mig_round_from served sc k addrs (S n) (run [] s)) as [[e1 n1] o1]; exact H.
Qed.

End Shape.

Lemma ff_no_inject : no_inject ff.
Proof. intros n st. reflexivity. Qed.

(* one complete fault-free migration-sync round: every reported migration that was pending is committed exactly once *)
Theorem mig_round_exactly_once : forall k addrs n s a m,
  Inv served s -> queue_free k s ->
  let evs := fst (fst (mig_round served ff k addrs n s)) in
  In (Report a m) evs -> In (m_id m) (pending s) ->
  count_occ N.eq_dec (commits (run evs s)) (m_id m) = 1%nat /\ ~ In (m_id m) (pending (run evs s)).
Proof.
  intros k addrs n s a m I Hq evs Hr Hp.
  apply commit_exactly_once_inv; auto.
  - eapply mig_round_commits_all; eauto.
  - apply no_cancel_of_all. apply (mig_round_nc ff ff_no_inject).
Qed.

End Mig.
