(* C12: what a successful allocation returns (both allocators): distinct, registered, untagged proxies;
   for the host-aware allocator the two halves of every pair are on different hosts. *)
From UM Require Import Base.BytesDef Model.Ranges Model.Broker Proofs.BrokerBase Proofs.BrokerAcctBase.
From Coq Require Import ZifyBool ZifyNat ZifyN Permutation.

Definition flat_pairs (l : list (N * N)) : list N := flat_map (fun p => [fst p; snd p]) l.

Definition free_in (ps : list (N * presource)) (a : N) : Prop :=
  exists r, alookup a ps = Some r /\ pr_cluster r = None.

Definition pairs_ok (ps : list (N * presource)) (pairs : list (N * N)) : Prop :=
  NoDup (flat_pairs pairs) /\ forall a, In a (flat_pairs pairs) -> free_in ps a.

Lemma is_free_untagged s a r : is_free s (a, r) = true -> pr_cluster r = None.
Proof. unfold is_free. cbn [snd]. destruct (pr_cluster r); [discriminate|reflexivity]. Qed.

(* ---------- alloc_one: inversion of a successful step ---------- *)
Definition cand_filter (ha : N) (cnts1 : list (N * N)) (e : N * N) : bool :=
  negb (N.eqb (fst e) ha) && amem (fst e) cnts1 && negb (N.eqb (cnt_of cnts1 (fst e)) 0).

Lemma alloc_one_done s cnts links taken a b cnts' links' :
  alloc_one s cnts links taken a b = Done (cnts', links') ->
  exists ra rb peers cb,
    alookup a (st_proxies s) = Some ra /\ alookup b (st_proxies s) = Some rb /\
    is_free s (a, ra) = true /\ is_free s (b, rb) = true /\
    smem a taken = false /\ smem b taken = false /\ a <> b /\
    cnts <> [] /\ counts_max cnts <> 0 /\
    cnt_of cnts (pr_host ra) = counts_max cnts /\
    alookup (pr_host ra) links = Some peers /\
    alookup (pr_host rb) (filter (cand_filter (pr_host ra) (ainsert (pr_host ra) (counts_max cnts - 1) cnts)) peers) = Some cb /\
    cnts' = ainsert (pr_host rb) (cnt_of (ainsert (pr_host ra) (counts_max cnts - 1) cnts) (pr_host rb) - 1)
                    (ainsert (pr_host ra) (counts_max cnts - 1) cnts) /\
    links' = lt_add (lt_add links (pr_host ra) (pr_host rb) 1) (pr_host rb) (pr_host ra) 1.
Proof.
  unfold alloc_one. intros H.
  assert (Hne : cnts <> []) by (destruct cnts; [discriminate|congruence]).
  assert (H' : (if N.eqb (counts_max cnts) 0 then Panic else
            match alookup a (st_proxies s), alookup b (st_proxies s) with
            | Some ra, Some rb =>
              let ha := pr_host ra in let hb := pr_host rb in
              if negb (is_free s (a, ra)) || negb (is_free s (b, rb)) || smem a taken || smem b taken || N.eqb a b then Fail E_BadChoice
              else if negb (N.eqb (cnt_of cnts ha) (counts_max cnts)) then Fail E_BadChoice
              else
                let cnts1 := ainsert ha (counts_max cnts - 1) cnts in
                match alookup ha links with
                | None => Panic
                | Some peers =>
                  let cands := filter (cand_filter ha cnts1) peers in
                  match cands with
                  | [] => Panic
                  | _ =>
                    match alookup hb cands with
                    | None => Fail E_BadChoice
                    | Some cb =>
                      if forallb (fun e => second_host_le cb (cnt_of cnts1 hb) (snd e) (cnt_of cnts1 (fst e))) cands
                      then Done (ainsert hb (cnt_of cnts1 hb - 1) cnts1, lt_add (lt_add links ha hb 1) hb ha 1)
                      else Fail E_BadChoice
                    end
                  end
                end
            | _, _ => Fail E_BadChoice
            end) = Done (cnts', links')).
  { destruct cnts; [congruence|exact H]. }
  clear H. destruct (N.eqb (counts_max cnts) 0) eqn:Emx; [discriminate|].
  destruct (alookup a (st_proxies s)) as [ra|] eqn:La; [|discriminate].
  destruct (alookup b (st_proxies s)) as [rb|] eqn:Lb; [|discriminate].
  cbv zeta in H'.
  destruct (negb (is_free s (a, ra)) || negb (is_free s (b, rb)) || smem a taken || smem b taken || N.eqb a b) eqn:Eg; [discriminate|].
  destruct (negb (N.eqb (cnt_of cnts (pr_host ra)) (counts_max cnts))) eqn:Ec; [discriminate|].
  destruct (alookup (pr_host ra) links) as [peers|] eqn:Ll; [|discriminate].
  destruct (filter (cand_filter (pr_host ra) (ainsert (pr_host ra) (counts_max cnts - 1) cnts)) peers) as [|c0 cr] eqn:Ef; [discriminate|].
  destruct (alookup (pr_host rb) (c0 :: cr)) as [cb|] eqn:Lc; [|discriminate].
  destruct (forallb _ (c0 :: cr)); [|discriminate].
  inversion H'; subst cnts' links'. clear H'.
  repeat (apply orb_false_iff in Eg; destruct Eg as [Eg ?]).
  exists ra, rb, peers, cb.
  repeat split; auto.
  - destruct (is_free s (a, ra)); [reflexivity|discriminate].
  - destruct (is_free s (b, rb)); [reflexivity|discriminate].
  - apply N.eqb_neq. assumption.
  - apply N.eqb_neq. assumption.
  - apply negb_false_iff in Ec. apply N.eqb_eq in Ec. exact Ec.
  - rewrite Ef. exact Lc.
Qed.

(* the pairs accepted by the loop: free, fresh, and on two different hosts *)
Fixpoint pairs_good (s : store) (taken : list N) (l : list (N * N)) : Prop :=
  match l with
  | [] => True
  | (a, b) :: rest =>
    (exists ra rb, alookup a (st_proxies s) = Some ra /\ alookup b (st_proxies s) = Some rb /\
                   is_free s (a, ra) = true /\ is_free s (b, rb) = true /\ pr_host ra <> pr_host rb) /\
    a <> b /\ ~ In a taken /\ ~ In b taken /\ pairs_good s (a :: b :: taken) rest
  end.

Lemma alloc_loop_done s need cnts links taken choices acc res :
  alloc_loop s need cnts links taken choices acc = Done res ->
  res = rev acc ++ choices /\ pairs_good s taken choices.
Proof.
  revert cnts links taken choices acc. induction need as [|need IH]; intros cnts links taken choices acc; cbn [alloc_loop].
  - destruct choices; [|discriminate]. intros H. inversion H. rewrite app_nil_r. split; [reflexivity|exact I].
  - destruct choices as [|[a b] rest].
    + destruct (alloc_stuck cnts links); discriminate.
    + destruct (alloc_one s cnts links taken a b) as [[cnts' links']|e|] eqn:E1; [|discriminate|discriminate].
      intros H. apply IH in H. destruct H as [-> Hg].
      apply alloc_one_done in E1.
      destruct E1 as (ra & rb & peers & cb & La & Lb & Fa & Fb & Ta & Tb & Hab & _ & _ & _ & _ & Lc & _ & _).
      split; [cbn [rev]; rewrite <- app_assoc; reflexivity|].
      cbn [pairs_good]. split; [|split; [exact Hab|split; [apply smem_false_In; exact Ta|split; [apply smem_false_In; exact Tb|exact Hg]]]].
      exists ra, rb. repeat split; auto.
      apply alookup_filter in Lc. destruct Lc as [_ Hc]. unfold cand_filter in Hc. cbn [fst] in Hc.
      apply andb_true_iff in Hc. destruct Hc as [Hc _]. apply andb_true_iff in Hc. destruct Hc as [Hc _].
      apply negb_true_iff in Hc. apply N.eqb_neq in Hc. congruence.
Qed.

Lemma pairs_good_props s taken l :
  pairs_good s taken l ->
  NoDup (flat_pairs l) /\ (forall x, In x (flat_pairs l) -> ~ In x taken) /\
  (forall x, In x (flat_pairs l) -> free_in (st_proxies s) x) /\
  (forall a b, In (a, b) l -> exists ra rb, alookup a (st_proxies s) = Some ra /\ alookup b (st_proxies s) = Some rb /\
                                            pr_host ra <> pr_host rb).
Proof.
  revert taken. induction l as [|[a b] rest IH]; intros taken; cbn [pairs_good flat_pairs flat_map fst snd app].
  - intros _. split; [constructor|]. split; [intros x []|]. split; [intros x []|intros ? ? []].
  - intros ((ra & rb & La & Lb & Fa & Fb & Hh) & Hab & Ta & Tb & Hg).
    destruct (IH _ Hg) as (Hnd & Hfresh & Hfree & Hhosts). fold (flat_pairs rest) in *.
    split; [|split; [|split]].
    + constructor.
      * cbn [In]. intros [E|Hin]; [congruence|]. apply (Hfresh _ Hin). left. reflexivity.
      * constructor; [|exact Hnd]. intros Hin. apply (Hfresh _ Hin). right. left. reflexivity.
    + intros x [<-|[<-|Hin]]; auto. intros Hx. apply (Hfresh _ Hin). right. right. exact Hx.
    + intros x [<-|[<-|Hin]]; auto.
      * exists ra. split; [exact La|eapply is_free_untagged; eauto].
      * exists rb. split; [exact Lb|eapply is_free_untagged; eauto].
    + intros a' b' [E|Hin]; [inversion E; subst; eauto|eauto].
Qed.

Lemma generate_free_chunks_done s k choices pairs :
  generate_free_chunks s k choices = Done pairs ->
  pairs = choices /\ pairs_good s [] pairs.
Proof.
  unfold generate_free_chunks.
  destruct (N.ltb _ k); [discriminate|]. destruct (N.ltb _ _); [discriminate|].
  intros H. apply alloc_loop_done in H. cbn [rev app] in H. destruct H as [-> H]. auto.
Qed.

(* ---------- ordered allocator ---------- *)
Lemma insert_by_index_perm e l : Permutation (insert_by_index e l) (e :: l).
Proof.
  induction l as [|x l IH]; cbn [insert_by_index]; [reflexivity|].
  destruct (N.ltb _ _); [reflexivity|]. rewrite IH. apply perm_swap.
Qed.

Lemma fold_insert_perm l acc :
  Permutation (fold_left (fun acc e => insert_by_index e acc) l acc) (l ++ acc).
Proof.
  revert acc. induction l as [|x l IH]; intros acc; cbn [fold_left app]; [reflexivity|].
  rewrite IH. rewrite insert_by_index_perm. symmetry. apply Permutation_middle.
Qed.

Lemma pair_up_flat : forall l ps, pair_up l = Some ps -> flat_pairs ps = map fst l.
Proof.
  fix IH 1. intros l ps. destruct l as [|a [|b l]]; cbn [pair_up].
  - intros H. inversion H. reflexivity.
  - discriminate.
  - destruct (pair_up l) as [r|] eqn:E; [|discriminate]. intros H. inversion H; subst ps.
    cbn [flat_pairs flat_map fst snd app map]. f_equal. f_equal. apply IH. exact E.
Qed.

Lemma NoDup_map_fst_filter {V} (p : N * V -> bool) l : NoDup (map fst l) -> NoDup (map fst (filter p l)).
Proof.
  induction l as [|x l IH]; cbn [filter map]; intros H; [constructor|].
  apply NoDup_cons_iff in H. destruct H as [Hn Hd].
  destruct (p x); cbn [map]; [|auto]. constructor; [|auto].
  intros Hin. apply Hn. apply in_map_iff in Hin. destruct Hin as (y & E & Hy). apply filter_In in Hy.
  apply in_map_iff. exists y. tauto.
Qed.

Lemma firstn_In' {A} n (l : list A) x : In x (firstn n l) -> In x l.
Proof. intros H. rewrite <- (firstn_skipn n l). apply in_or_app. left. exact H. Qed.

Lemma generate_ordered_chunks_ok s k first pairs :
  keys_sorted (st_proxies s) ->
  generate_ordered_chunks s k first = Done pairs -> pairs_ok (st_proxies s) pairs.
Proof.
  intros Hs. unfold generate_ordered_chunks.
  destruct (N.ltb _ k); [discriminate|].
  set (sorted := fold_left (fun acc e => insert_by_index e acc) (free_proxies s) []).
  destruct (negb _); [discriminate|].
  destruct (pair_up (firstn (N.to_nat k) sorted)) as [ps|] eqn:E; [|discriminate].
  intros H. inversion H; subst ps. clear H.
  apply pair_up_flat in E.
  assert (Hperm : Permutation sorted (free_proxies s)).
  { unfold sorted. rewrite fold_insert_perm. rewrite app_nil_r. reflexivity. }
  split.
  - rewrite E. rewrite <- firstn_map.
    assert (Hnd : NoDup (map fst sorted)).
    { eapply Permutation_NoDup; [apply Permutation_map; symmetry; exact Hperm|].
      unfold free_proxies. apply NoDup_map_fst_filter. apply keys_sorted_NoDup. exact Hs. }
    rewrite <- (firstn_skipn (N.to_nat k) (map fst sorted)) in Hnd. eapply NoDup_app_l. exact Hnd.
  - intros a Ha. rewrite E in Ha. apply in_map_iff in Ha. destruct Ha as ([a' r] & Ea & Hin). cbn [fst] in Ea. subst a'.
    apply firstn_In' in Hin. eapply Permutation_in in Hin; [|exact Hperm].
    unfold free_proxies in Hin. apply filter_In in Hin. destruct Hin as [Hin Hf].
    exists r. split; [apply In_alookup_sorted; auto|eapply is_free_untagged; eauto].
Qed.

Lemma pairs_good_ok s pairs : pairs_good s [] pairs -> pairs_ok (st_proxies s) pairs.
Proof. intros H. apply pairs_good_props in H. destruct H as (H1 & _ & H3 & _). split; assumption. Qed.

Lemma gen_chunks_ok s k first choices pairs :
  keys_sorted (st_proxies s) ->
  gen_chunks s k first choices = Done pairs -> pairs_ok (st_proxies s) pairs.
Proof.
  intros Hs. unfold gen_chunks. destruct (st_ordered s).
  - apply generate_ordered_chunks_ok. exact Hs.
  - intros H. apply generate_free_chunks_done in H. destruct H as [_ H]. apply pairs_good_ok. exact H.
Qed.

(* ---------- the chunks built from the pairs ---------- *)
Definition pair_skel (s : store) (p : N * N) : skel :=
  let ra := res_or_default s (fst p) in
  let rb := res_or_default s (snd p) in
  (fst p, snd p, pr_host ra, pr_host rb, pr_n0 ra, pr_n1 ra, pr_n0 rb, pr_n1 rb).

Lemma chunks_of_pairs_skel s pairs ws av rem i curr :
  map ck_skel (chunks_of_pairs s pairs ws av rem i curr) = map (pair_skel s) pairs.
Proof.
  revert i curr. induction pairs as [|[a b] rest IH]; intros i curr; cbn [chunks_of_pairs map]; [reflexivity|].
  rewrite IH. reflexivity.
Qed.

Lemma prtcs_skel s pairs ws : map ck_skel (proxy_resource_to_chunk_store s pairs ws) = map (pair_skel s) pairs.
Proof. apply chunks_of_pairs_skel. Qed.

Lemma flat_map_pair_skel s pairs : flat_map skel_proxies (map (pair_skel s) pairs) = flat_pairs pairs.
Proof. induction pairs as [|[a b] rest IH]; cbn [map flat_map flat_pairs]; [reflexivity|]. fold (flat_pairs rest). rewrite IH. reflexivity. Qed.
