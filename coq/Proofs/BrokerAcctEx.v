(* C12: concrete stores used by the Examples of Props/C12.v *)
From UM Require Import Base.BytesDef Model.Ranges Model.Broker.

Definition ex_proxies : list op :=
  [OAddProxy 1 (Some 10) None; OAddProxy 2 (Some 10) None; OAddProxy 3 (Some 11) None; OAddProxy 4 (Some 11) None;
   OAddProxy 5 (Some 12) None; OAddProxy 6 (Some 12) None].
Definition ex_free : store := run (init_store false) ex_proxies.
Definition ex_ops : list op :=
  [OAddProxy 1 (Some 10) None; OAddProxy 2 (Some 10) None; OAddProxy 3 (Some 11) None; OAddProxy 4 (Some 11) None;
   OAddProxy 5 (Some 12) None; OAddProxy 6 (Some 12) None;
   OAddCluster 1 4 1 [(1, 3)]; OAutoAddNodes 1 4 [(5, 2)]; OMigrateSlots 1].
Definition ex_store : store := run (init_store false) ex_ops.
Definition ex_one_ops : list op :=
  [OAddProxy 1 (Some 10) None; OAddProxy 2 (Some 10) None; OAddProxy 3 (Some 11) None; OAddProxy 4 (Some 11) None;
   OAddProxy 5 (Some 12) None; OAddProxy 6 (Some 12) None; OAddCluster 1 4 1 [(1, 3)]].
Definition ex_one : store := run (init_store false) ex_one_ops.
Definition ex_three : store :=
  run (init_store false) [OAddProxy 1 (Some 10) None; OAddProxy 2 (Some 11) None; OAddProxy 3 (Some 12) None].
Definition ex_closed_ops : list op :=
  [OAddProxy 1 (Some 10) None; OAddProxy 2 (Some 10) None; OAddProxy 3 (Some 11) None; OAddProxy 4 (Some 11) None;
   OAddProxy 5 (Some 12) None; OAddProxy 6 (Some 12) None;
   OAddCluster 1 4 1 [(1, 3)]; ORestore ex_store; OReplaceFailed 1 (Some 6)].
Definition ex_closed : store := run (init_store false) ex_closed_ops.
