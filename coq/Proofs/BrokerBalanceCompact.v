(* compact_slots keeps every master's stable / incoming slot numbers, hence balance_inv (under part_inv). *)
From UM Require Import Base.BytesDef Model.Ranges Model.Broker Proofs.BrokerBase Proofs.BrokerPartRanges Proofs.BrokerPartDefs
  Proofs.BrokerPartMigrateBase Proofs.BrokerPartOpsCompact Proofs.BrokerBalanceDefs.
From Coq Require Import ZifyBool ZifyNat ZifyN.

Lemma compact_ok_total r : ok_rl r -> slots_total (compact r) = slots_total r.
Proof. intros [Hw Hc]. apply compact_total; assumption. Qed.

Lemma in_ranges_compact_total es : (forall e, In e es -> ok_rl (ms_ranges e)) ->
  slots_total (in_ranges (map compact_mig es)) = slots_total (in_ranges es).
Proof.
  induction es as [|e es IH]; intros H; [reflexivity|]. cbn [map]. rewrite !in_ranges_cons, !slots_total_app.
  rewrite IH by (intros; apply H; right; assumption). cbn [compact_mig ms_out ms_ranges].
  destruct (ms_out e); [reflexivity|]. rewrite compact_ok_total by (apply H; left; reflexivity). reflexivity.
Qed.

Lemma ck_stable_compact c p : ck_stable (compact_chunk c) p = option_map compact (ck_stable c p).
Proof. destruct p; reflexivity. Qed.

Lemma ck_mig_compact c p : ck_mig (compact_chunk c) p = map compact_mig (ck_mig c p).
Proof. destruct p; reflexivity. Qed.

Lemma stable_num_compact l c p : part_inv l -> In c l -> stable_num (compact_chunk c) p = stable_num c p.
Proof.
  intros H Hc. unfold stable_num. rewrite ck_stable_compact.
  destruct (ck_stable c p) as [st|] eqn:E; cbn [option_map opt_ranges]; [|reflexivity].
  apply compact_ok_total. eapply stable_ok; eassumption.
Qed.

Lemma incoming_num_compact l c p : part_inv l -> In c l -> incoming_num (compact_chunk c) p = incoming_num c p.
Proof.
  intros H Hc. unfold incoming_num. rewrite ck_mig_compact. apply in_ranges_compact_total.
  intros e He. eapply chunk_entries_ok; eassumption.
Qed.

Lemma projected_compact l c p : part_inv l -> In c l -> projected (compact_chunk c) p = projected c p.
Proof. intros H Hc. unfold projected. rewrite (stable_num_compact l), (incoming_num_compact l); auto. Qed.

Theorem balanced_at_compact k l : part_inv l -> balanced_at k l -> balanced_at k (compact_slots l).
Proof.
  intros H (Hk0 & Hkl & Hh & Ht). unfold compact_slots. split; [exact Hk0|]. split; [rewrite map_length; exact Hkl|]. split.
  - intros i c' p Hn Hi. rewrite nth_error_map in Hn. destruct (nth_error l i) as [c|] eqn:E; [|discriminate].
    inversion Hn; subst c'. rewrite (projected_compact l) by (eauto using nth_error_In). eapply Hh; eassumption.
  - intros i c' p Hn Hi. rewrite nth_error_map in Hn. destruct (nth_error l i) as [c|] eqn:E; [|discriminate].
    inversion Hn; subst c'. destruct (Ht i c p E Hi) as [Hs Ho]. split.
    + rewrite ck_stable_compact, Hs. reflexivity.
    + intros e He. rewrite ck_mig_compact in He. apply in_map_iff in He. destruct He as (e0 & <- & He0).
      cbn [compact_mig ms_out]. apply Ho. exact He0.
Qed.

Theorem balance_inv_compact l : part_inv l -> balance_inv l -> balance_inv (compact_slots l).
Proof. intros H [k Hk]. exists k. apply balanced_at_compact; assumption. Qed.
