(* Parser soundness: whatever the parsers accept is, token by token, equivalent to the printer's encoding of a value whose
   normal form is the result; nothing else is accepted.  `tok_equiv` is the lexical freedom the parsers allow:
   the number syntax of str::parse::<u64> (leading '+', leading zeros), range tokens with such numbers and with ignored
   pieces after a second '-', and the case of the MIGRATING / IMPORTING keywords. *)
From UM Require Import Base.BytesDef Base.Dec Model.Wire Proofs.WireProofsBase Proofs.WireProofsLeaf Proofs.WireProofsCluster.
From Coq Require Import ZifyBool ZifyNat ZifyN.

Definition tok_equiv (t u : tok) : Prop :=
  t = u
  \/ (exists n, parse_u64 t = Some n /\ u = to_dec n)
  \/ (exists r, parse_range_tok t = Some r /\ u = range_tok r)
  \/ (to_upper t = u /\ (u = kw_MIGRATING \/ u = kw_IMPORTING)).

Definition shaped_like (toks canon : list tok) : Prop := Forall2 tok_equiv toks canon.

Lemma shaped_like_app : forall a b c d, shaped_like a b -> shaped_like c d -> shaped_like (a ++ c) (b ++ d).
Proof. intros. apply Forall2_app; assumption. Qed.

Lemma shaped_like_refl : forall a, shaped_like a a.
Proof. induction a as [|x a IH]; constructor; [left; reflexivity|exact IH]. Qed.

(* ---------- RangeList ---------- *)
Lemma parse_ranges_sound : forall toks n rs rest, parse_ranges toks n = Some (rs, rest) ->
  exists pre, toks = pre ++ rest /\ shaped_like pre (map range_tok rs) /\ n = N.of_nat (length rs).
Proof.
  induction toks as [|t toks IH]; intros n rs rest H; cbn [parse_ranges] in H.
  - destruct (n =? 0) eqn:E; [|discriminate]. inversion H; subst. exists []. repeat split; [constructor|cbn; lia].
  - destruct (n =? 0) eqn:E.
    + inversion H; subst. exists []. repeat split; [constructor|cbn; lia].
    + destruct (parse_range_tok t) as [rg|] eqn:Et; [|discriminate].
      destruct (parse_ranges toks (n - 1)) as [[rs' r']|] eqn:E2; [|discriminate].
      inversion H; subst. destruct (IH _ _ _ E2) as (pre & -> & Hs & Hn).
      exists (t :: pre). repeat split.
      * constructor; [|exact Hs]. right. right. left. exists rg. split; [exact Et|reflexivity].
      * cbn [length]. lia.
Qed.

(* the raw range list a token vector spells; the parse result is its compaction *)
Lemma parse_range_list_sound : forall toks c rest, parse_range_list toks = Ok (c, rest) ->
  exists rs pre, toks = pre ++ rest /\ shaped_like pre (rl_to_strings rs) /\ compact rs = Some c.
Proof.
  intros toks c rest H. unfold parse_range_list in H. destruct toks as [|t toks]; [discriminate|].
  destruct (parse_u64 t) as [n|] eqn:En; [|discriminate].
  destruct (parse_ranges toks n) as [[rs r']|] eqn:E; [|discriminate].
  destruct (compact rs) as [c'|] eqn:Ec; [|discriminate]. inversion H; subst.
  destruct (parse_ranges_sound _ _ _ _ E) as (pre & -> & Hs & Hn).
  exists rs, (t :: pre). repeat split; [|exact Ec].
  unfold rl_to_strings. constructor; [|exact Hs]. right. left. exists n. split; [exact En|]. rewrite Hn. reflexivity.
Qed.

Lemma parse_mig_meta_sound : forall toks m rest, parse_mig_meta toks = Ok (m, rest) ->
  exists pre, toks = pre ++ rest /\ shaped_like pre (mm_to_strings m).
Proof.
  intros toks m rest H. unfold parse_mig_meta in H.
  destruct toks as [|e [|a [|b [|c [|d r]]]]]; try discriminate.
  destruct (parse_u64 e) as [ep|] eqn:E; [|discriminate]. inversion H; subst.
  exists [e; a; b; c; d]. split; [reflexivity|]. unfold mm_to_strings. cbn [mm_epoch mm_src_proxy mm_src_node mm_dst_proxy mm_dst_node].
  constructor; [right; left; exists ep; split; [exact E|reflexivity]|]. apply shaped_like_refl.
Qed.

(* ---------- SlotRange: the consumed tokens spell a raw slot range sr0; the result is its normal form ---------- *)
Lemma norm_rl_of_compact : forall rs c, compact rs = Some c -> norm_rl rs = c.
Proof. intros rs c H. unfold norm_rl. rewrite H. reflexivity. Qed.

Lemma parse_tagged_sound : forall mk kw toks sr rest, (mk = TMigrating /\ kw = kw_MIGRATING \/ mk = TImporting /\ kw = kw_IMPORTING) ->
  parse_tagged mk toks = Ok (sr, rest) ->
  exists sr0 pre tl, toks = pre ++ rest /\ sr_to_strings sr0 = kw :: tl /\ shaped_like pre tl /\ sr = norm_sr sr0 /\ compact (sr_ranges sr0) <> None.
Proof.
  intros mk kw toks sr rest Hk H. unfold parse_tagged in H.
  destruct (parse_range_list toks) as [[rl r1]|e|] eqn:E1; try discriminate.
  destruct (parse_mig_meta r1) as [[m r2]|e|] eqn:E2; try discriminate. inversion H; subst.
  destruct (parse_range_list_sound _ _ _ E1) as (rs & pre1 & -> & S1 & C1).
  destruct (parse_mig_meta_sound _ _ _ E2) as (pre2 & -> & S2).
  exists (MkSR rs (mk m)), (pre1 ++ pre2), (rl_to_strings rs ++ mm_to_strings m).
  split; [rewrite app_assoc; reflexivity|]. split; [|split; [|split]].
  - unfold sr_to_strings. cbn [sr_ranges sr_tag]. destruct Hk as [[-> ->]|[-> ->]]; reflexivity.
  - apply shaped_like_app; assumption.
  - unfold norm_sr. cbn [sr_ranges sr_tag]. rewrite (norm_rl_of_compact _ _ C1). reflexivity.
  - cbn [sr_ranges]. congruence.
Qed.

Theorem parse_sr_sound : forall toks sr rest, parse_sr toks = Ok (sr, rest) ->
  exists sr0 pre, toks = pre ++ rest /\ shaped_like pre (sr_to_strings sr0) /\ sr = norm_sr sr0 /\ compact (sr_ranges sr0) <> None.
Proof.
  intros toks sr rest H. unfold parse_sr in H. destruct toks as [|t toks]; [discriminate|].
  destruct (bytes_eqb (to_upper t) kw_MIGRATING) eqn:EM.
  { apply beqb_eq in EM.
    destruct (parse_tagged_sound TMigrating kw_MIGRATING toks sr rest (or_introl (conj eq_refl eq_refl)) H) as (sr0 & pre & tl & -> & Es & S & N & C).
    exists sr0, (t :: pre). split; [reflexivity|]. split; [|split; assumption].
    rewrite Es. constructor; [|exact S]. right. right. right. split; [exact EM|left; reflexivity]. }
  destruct (bytes_eqb (to_upper t) kw_IMPORTING) eqn:EI.
  { apply beqb_eq in EI.
    destruct (parse_tagged_sound TImporting kw_IMPORTING toks sr rest (or_intror (conj eq_refl eq_refl)) H) as (sr0 & pre & tl & -> & Es & S & N & C).
    exists sr0, (t :: pre). split; [reflexivity|]. split; [|split; assumption].
    rewrite Es. constructor; [|exact S]. right. right. right. split; [exact EI|right; reflexivity]. }
  destruct (parse_range_list (t :: toks)) as [[rl r1]|e|] eqn:E1; try discriminate. inversion H; subst.
  destruct (parse_range_list_sound _ _ _ E1) as (rs & pre & E & S & C).
  exists (MkSR rs TNone), pre. split; [exact E|]. split; [exact S|]. split.
  - unfold norm_sr. cbn [sr_ranges sr_tag]. rewrite (norm_rl_of_compact _ _ C). reflexivity.
  - cbn [sr_ranges]. congruence.
Qed.

(* ---------- NodeMap: the consumed tokens are a sequence of groups `address :: slot-range tokens`; nothing else ---------- *)
Definition group_ok (g : tok * slot_range) : Prop := is_section_kw (fst g) = false /\ compact (sr_ranges (snd g)) <> None.

Lemma PN_sound : forall n toks acc nm rest, (length toks <= n)%nat -> PN toks acc = Ok (nm, rest) ->
  exists gs pre, toks = pre ++ rest /\ shaped_like pre (groups_toks gs) /\ nm = push_groups gs acc /\ stops rest /\ Forall group_ok gs.
Proof.
  induction n as [|n IH]; intros toks acc nm rest Hn H.
  - destruct toks; [|cbn in Hn; lia]. rewrite PN_nil in H. inversion H; subst.
    exists [], []. split; [reflexivity|]. split; [constructor|]. split; [reflexivity|]. split; [left; reflexivity|constructor].
  - destruct toks as [|a t].
    + rewrite PN_nil in H. inversion H; subst. exists [], [].
      split; [reflexivity|]. split; [constructor|]. split; [reflexivity|]. split; [left; reflexivity|constructor].
    + destruct (is_section_kw a) eqn:Ea.
      * rewrite (PN_kw a t acc Ea) in H. inversion H; subst. exists [], [].
        split; [reflexivity|]. split; [constructor|]. split; [reflexivity|]. split; [|constructor].
        right. exists a, t. split; [reflexivity|exact Ea].
      * rewrite (PN_step a t acc Ea) in H. destruct (parse_sr t) as [[sr r']|e|] eqn:E; try discriminate.
        destruct (parse_sr_sound _ _ _ E) as (sr0 & pre1 & -> & S1 & N1 & C1).
        pose proof (parse_sr_len _ _ _ E) as L. cbn [length] in Hn.
        destruct (IH r' _ nm rest ltac:(lia) H) as (gs & pre & -> & S & Hnm & Hst & Hok).
        exists ((a, sr0) :: gs), (a :: pre1 ++ pre). split; [cbn [app]; rewrite app_assoc; reflexivity|].
        split; [|split; [|split]].
        -- unfold groups_toks. cbn [flat_map]. unfold group_toks at 1. cbn [fst snd app].
           constructor; [left; reflexivity|]. apply shaped_like_app; assumption.
        -- rewrite Hnm. unfold push_groups. cbn [fold_left fst snd]. rewrite N1. reflexivity.
        -- exact Hst.
        -- constructor; [split; assumption|exact Hok].
Qed.

Theorem parse_nodemap_sound : forall toks nm rest, parse_nodemap toks = Ok (nm, rest) ->
  exists gs pre, toks = pre ++ rest /\ shaped_like pre (groups_toks gs) /\ nm = push_groups gs [] /\ stops rest /\ Forall group_ok gs.
Proof. intros toks nm rest H. rewrite parse_nodemap_PN in H. apply (PN_sound (length toks) toks [] nm rest); [lia|exact H]. Qed.

(* ---------- ClusterConfig ---------- *)
Lemma starts_with_skipn : forall p l, starts_with p l = true -> l = p ++ skipn (length p) l.
Proof.
  induction p as [|x p IH]; intros l H; [reflexivity|].
  destruct l as [|y l]; [discriminate|]. cbn [starts_with] in H. apply andb_true_iff in H. destruct H as [H1 H2].
  apply N.eqb_eq in H1. subst y. cbn [length skipn app]. f_equal. apply IH. exact H2.
Qed.

(* what a successful set_field did: the (lower-cased) name is one of the five field names and exactly that field changed,
   to the value the value token spells *)
Definition field_set (c : config) (fld : cfield) (v : tok) (c1 : config) : Prop :=
  match fld with
  | FStrategy => exists s, strategy_from_str v = Some s /\ c1 = MkCfg s (c_max_migration_time c) (c_max_blocking_time c) (c_scan_interval c) (c_scan_count c)
  | FMaxMigration => exists x, parse_u64 v = Some x /\ c1 = MkCfg (c_strategy c) x (c_max_blocking_time c) (c_scan_interval c) (c_scan_count c)
  | FMaxBlocking => exists x, parse_u64 v = Some x /\ c1 = MkCfg (c_strategy c) (c_max_migration_time c) x (c_scan_interval c) (c_scan_count c)
  | FScanInterval => exists x, parse_u64 v = Some x /\ c1 = MkCfg (c_strategy c) (c_max_migration_time c) (c_max_blocking_time c) x (c_scan_count c)
  | FScanCount => exists x, parse_u64 v = Some x /\ x <> 0 /\ c1 = MkCfg (c_strategy c) (c_max_migration_time c) (c_max_blocking_time c) (c_scan_interval c) x
  end.

Lemma set_field_sound : forall c f v c1, set_field c f v = Some c1 -> exists fld, to_lower f = field_name fld /\ field_set c fld v c1.
Proof.
  intros c f v c1 H. unfold set_field in H.
  destruct (bytes_eqb (to_lower f) kw_compression_strategy) eqn:E0.
  { apply beqb_eq in E0. exists FStrategy. split; [exact E0|]. cbn [field_set].
    destruct (strategy_from_str v) as [s|]; [|discriminate]. inversion H. eauto. }
  destruct (starts_with kw_migration_ (to_lower f)) eqn:E1; [|discriminate].
  apply starts_with_skipn in E1. change (length kw_migration_) with 10%nat in E1.
  unfold mig_set_field in H. set (g := skipn 10 (to_lower f)) in *.
  assert (Lg : to_lower g = g).
  { unfold g, to_lower. rewrite <- skipn_map, map_map. f_equal. apply map_ext. intros b. unfold lower_byte.
    destruct ((65 <=? b) && (b <=? 90)) eqn:E; [|rewrite E; reflexivity].
    destruct ((65 <=? b + 32) && (b + 32 <=? 90)) eqn:E'; [lia|reflexivity]. }
  rewrite Lg in H.
  destruct (bytes_eqb g kw_max_migration_time) eqn:E2.
  { apply beqb_eq in E2. exists FMaxMigration. split; [rewrite E1, E2; reflexivity|]. cbn [field_set].
    destruct (parse_u64 v) as [x|]; [|discriminate]. inversion H. eauto. }
  destruct (bytes_eqb g kw_max_blocking_time) eqn:E3.
  { apply beqb_eq in E3. exists FMaxBlocking. split; [rewrite E1, E3; reflexivity|]. cbn [field_set].
    destruct (parse_u64 v) as [x|]; [|discriminate]. inversion H. eauto. }
  destruct (bytes_eqb g kw_scan_interval) eqn:E4.
  { apply beqb_eq in E4. exists FScanInterval. split; [rewrite E1, E4; reflexivity|]. cbn [field_set].
    destruct (parse_u64 v) as [x|]; [|discriminate]. inversion H. eauto. }
  destruct (bytes_eqb g kw_scan_count) eqn:E5; [|discriminate].
  apply beqb_eq in E5. exists FScanCount. split; [rewrite E1, E5; reflexivity|]. cbn [field_set].
  destruct (parse_u64 v) as [x|]; [|discriminate]. destruct (x =? 0) eqn:Ex; [discriminate|]. inversion H.
  exists x. repeat split. apply N.eqb_neq. exact Ex.
Qed.

Inductive cfg_pairs : list tok -> config -> config -> Prop :=
| cp_nil : forall c, cfg_pairs [] c c
| cp_cons : forall f v r c c1 c' fld, is_section_kw f = false -> to_lower f = field_name fld -> field_set c fld v c1 ->
    cfg_pairs r c1 c' -> cfg_pairs (f :: v :: r) c c'.

Lemma parse_config_sound_n : forall n toks c c' rest, (length toks <= n)%nat -> parse_config toks c = (Some c', rest) ->
  exists pre, toks = pre ++ rest /\ cfg_pairs pre c c' /\ stops rest.
Proof.
  induction n as [|n IH]; intros toks c c' rest Hn H; destruct toks as [|f t]; cbn [parse_config] in H.
  - inversion H; subst. exists []. repeat split; [constructor|left; reflexivity].
  - cbn [length] in Hn. lia.
  - inversion H; subst. exists []. repeat split; [constructor|left; reflexivity].
  - destruct (is_section_kw f) eqn:Ef.
    + inversion H; subst. exists []. repeat split; [constructor|]. right. exists f, t. split; [reflexivity|exact Ef].
    + destruct t as [|v t']; [discriminate|]. destruct (set_field c f v) as [c1|] eqn:Es; [|discriminate].
      cbn [length] in Hn. destruct (IH t' c1 c' rest ltac:(lia) H) as (pre & -> & Hp & Hst).
      destruct (set_field_sound _ _ _ _ Es) as (fld & F1 & F2).
      exists (f :: v :: pre). repeat split; [|exact Hst]. econstructor; eassumption.
Qed.

Theorem parse_config_sound : forall toks c c' rest, parse_config toks c = (Some c', rest) ->
  exists pre, toks = pre ++ rest /\ cfg_pairs pre c c' /\ stops rest.
Proof. intros toks c c' rest H. apply (parse_config_sound_n (length toks)); [lia|exact H]. Qed.

(* ---------- the PEER / CONFIG sections after the local groups ---------- *)
Inductive sections (local : nodemap) : list tok -> nodemap -> config -> bool -> nodemap -> config -> bool -> Prop :=
| sec_end : forall p c e, sections local [] p c e p c e
| sec_peer : forall t pre gs rest p c e p' c' e',
    to_upper t = kw_PEER -> shaped_like pre (groups_toks gs) -> Forall group_ok gs -> stops rest ->
    sections local rest (push_groups gs []) c e p' c' e' ->
    sections local (t :: pre ++ rest) p c e p' c' e'
| sec_config : forall t pre rest p c c1 e p' c' e',
    to_upper t = kw_CONFIG -> cfg_pairs pre default_config c1 -> stops rest ->
    sections local rest p c1 e p' c' e' ->
    sections local (t :: pre ++ rest) p c e p' c' e'
| sec_config_tolerated : forall t body rest p c e p' c' e',
    to_upper t = kw_CONFIG -> parse_config body default_config = (None, rest) -> is_nil local = false -> is_nil p = false ->
    sections local rest p c false p' c' e' ->
    sections local (t :: body) p c e p' c' e'.

Lemma PL_cons : forall t r local peer cfg ext,
  PL (t :: r) local peer cfg ext =
  if bytes_eqb (to_upper t) kw_PEER then
    match parse_nodemap r with
    | Ok (nm, r') => PL r' local nm cfg ext
    | Err e => Err e
    | Panic => Panic
    end
  else if bytes_eqb (to_upper t) kw_CONFIG then
    match parse_config r default_config with
    | (Some c, r') => PL r' local peer c ext
    | (None, r') => if is_nil local || is_nil peer then Err EInvalidArgs else PL r' local peer cfg false
    end
  else Err EInvalidArgs.
Proof.
  intros. unfold PL. rewrite pcm_loop_S.
  destruct (bytes_eqb (to_upper t) kw_PEER).
  - destruct (parse_nodemap r) as [[nm r']|e|] eqn:E; try reflexivity.
    apply parse_nodemap_len in E. apply pcm_loop_fuel; cbn [length]; lia.
  - destruct (bytes_eqb (to_upper t) kw_CONFIG); [|reflexivity].
    destruct (parse_config r default_config) as [[c|] r'] eqn:E; apply parse_config_len in E.
    + apply pcm_loop_fuel; cbn [length]; lia.
    + destruct (is_nil local || is_nil peer); [reflexivity|]. apply pcm_loop_fuel; cbn [length]; lia.
Qed.

Lemma PL_sound : forall n toks local p c e p' c' e', (length toks <= n)%nat ->
  PL toks local p c e = Ok (p', c', e') -> sections local toks p c e p' c' e'.
Proof.
  induction n as [|n IH]; intros toks local p c e p' c' e' Hn H.
  - destruct toks; [|cbn in Hn; lia]. rewrite PL_nil in H. inversion H; subst. constructor.
  - destruct toks as [|t r]; [rewrite PL_nil in H; inversion H; subst; constructor|].
    rewrite PL_cons in H. cbn [length] in Hn.
    destruct (bytes_eqb (to_upper t) kw_PEER) eqn:EP.
    + apply beqb_eq in EP. destruct (parse_nodemap r) as [[nm r']|x|] eqn:E; try discriminate.
      pose proof (parse_nodemap_len _ _ _ E) as L.
      destruct (parse_nodemap_sound _ _ _ E) as (gs & pre & -> & S & -> & Hst & Hok).
      eapply sec_peer; try eassumption. apply IH; [lia|exact H].
    + destruct (bytes_eqb (to_upper t) kw_CONFIG) eqn:EC; [|discriminate]. apply beqb_eq in EC.
      destruct (parse_config r default_config) as [[c1|] r'] eqn:E; pose proof (parse_config_len _ _ _ _ E) as L.
      * destruct (parse_config_sound _ _ _ _ E) as (pre & -> & Hp & Hst).
        eapply sec_config; try eassumption. apply IH; [lia|exact H].
      * destruct (is_nil local) eqn:E1; [discriminate|]. destruct (is_nil p) eqn:E2; [discriminate|]. cbn [orb] in H.
        eapply sec_config_tolerated; try eassumption. apply IH; [lia|exact H].
Qed.

(* ---------- ProxyClusterMeta: only grammatical vectors are accepted, and the result is what they say ---------- *)
Theorem parse_pcm_sound : forall unpack toks m ext, parse_pcm unpack toks = Ok (m, ext) ->
  exists et ft tail, toks = kw_v2 :: et :: ft :: tail /\ parse_u64 et = Some (p_epoch m) /\ flags_from_arg ft = p_flags m /\
  ((f_compress (p_flags m) = true /\ ext = true /\
    exists data ignored, tail = data :: ignored /\ unpack data = Some (pcm_data_of m))
   \/
   (f_compress (p_flags m) = false /\
    exists pre gs rest, tail = p_name m :: pre ++ rest /\ valid_cluster_name (p_name m) = true /\
      shaped_like pre (groups_toks gs) /\ Forall group_ok gs /\ p_local m = push_groups gs [] /\ stops rest /\
      sections (p_local m) rest [] default_config true (p_peer m) (p_config m) ext)).
Proof.
  intros unpack toks m ext H. unfold parse_pcm in H.
  destruct toks as [|v r0]; [discriminate|].
  destruct (bytes_eqb v kw_v2) eqn:Ev; [|discriminate]. apply beqb_eq in Ev. subst v. cbn [negb] in H.
  destruct r0 as [|et r1]; [discriminate|]. destruct (parse_u64 et) as [epoch|] eqn:Ee; [|discriminate].
  destruct r1 as [|ft r2]; [discriminate|].
  exists et, ft, r2. split; [reflexivity|].
  destruct (f_compress (flags_from_arg ft)) eqn:Ef.
  - destruct r2 as [|data ign]; [discriminate|]. destruct (unpack data) as [[[[name local] peer] cfg]|] eqn:Eu; [|discriminate].
    inversion H; subst. cbn [p_epoch p_flags]. split; [exact Ee|]. split; [reflexivity|].
    left. split; [exact Ef|]. split; [reflexivity|]. exists data, ign. split; [reflexivity|exact Eu].
  - destruct r2 as [|name r3]; [discriminate|]. destruct (valid_cluster_name name) eqn:En; [|discriminate]. cbn [negb] in H.
    destruct (parse_nodemap r3) as [[local r4]|x|] eqn:E; try discriminate.
    fold (PL r4 local [] default_config true) in H.
    destruct (PL r4 local [] default_config true) as [[[peer cfg] ext']|x|] eqn:El; try discriminate.
    inversion H; subst. cbn [p_epoch p_flags p_name p_local p_peer p_config]. split; [exact Ee|]. split; [reflexivity|].
    right. split; [exact Ef|].
    destruct (parse_nodemap_sound _ _ _ E) as (gs & pre & -> & S & -> & Hst & Hok).
    exists pre, gs, r4. split; [reflexivity|]. split; [exact En|]. split; [exact S|]. split; [exact Hok|].
    split; [reflexivity|]. split; [exact Hst|]. apply (PL_sound (length r4)); [lia|exact El].
Qed.
