(* A balanced cluster without pending migration: the first k chunks hold exactly their shares as stable slots,
   all later chunks hold nothing. *)
From UM Require Import Base.BytesDef Model.Ranges Model.Broker Proofs.BrokerBase Proofs.BrokerPartRanges Proofs.BrokerPartDefs
  Proofs.BrokerPartMigrateBase Proofs.BrokerPartMigrateSum Proofs.BrokerBalanceDefs.
From Coq Require Import ZifyBool ZifyNat ZifyN.

Lemma no_migs_nth l i c : no_migs l -> nth_error l i = Some c -> ck_mig0 c = [] /\ ck_mig1 c = [].
Proof. intros H Hn. apply H. eapply nth_error_In. exact Hn. Qed.

Lemma no_migs_incoming l i c p : no_migs l -> nth_error l i = Some c -> incoming_num c p = 0.
Proof.
  intros H Hn. destruct (no_migs_nth l i c H Hn) as [H0 H1]. unfold incoming_num, ck_mig.
  destruct p; [rewrite H1|rewrite H0]; reflexivity.
Qed.

Theorem quiescent_shape k l : part_inv l -> balanced_at k l -> no_migs l ->
  forall i c p, nth_error l i = Some c ->
    ((i < k)%nat -> stable_num c p = share (2 * N.of_nat k) (mindex i p) /\ 1 <= stable_num c p /\
                    exists st, ck_stable c p = Some st) /\
    ((k <= i)%nat -> ck_stable c p = None).
Proof.
  intros Hinv Hb Hnm i c p Hn. pose proof Hb as (Hk0 & Hkl & Hh & Ht). split.
  - intros Hi. pose proof (Hh i c p Hn Hi) as Hp. unfold projected in Hp.
    rewrite (no_migs_incoming l i c p Hnm Hn), N.add_0_r in Hp.
    assert (Hpos : 1 <= stable_num c p).
    { rewrite Hp. apply share_pos; [lia|]. pose proof (pi_size l Hinv). lia. }
    split; [exact Hp|]. split; [exact Hpos|].
    unfold stable_num in Hpos. destruct (ck_stable c p) as [st|]; [eauto|]. cbn [opt_ranges] in Hpos.
    change (slots_total []) with 0 in Hpos. lia.
  - intros Hi. apply (Ht i c p Hn Hi).
Qed.

(* the model's tests on such a cluster *)
Lemma quiescent_chunk_empty k l : part_inv l -> balanced_at k l -> no_migs l ->
  forall i c, nth_error l i = Some c -> chunk_empty_stable c = negb (Nat.ltb i k) /\ has_empty_stable c = negb (Nat.ltb i k).
Proof.
  intros Hinv Hb Hnm i c Hn.
  destruct (quiescent_shape k l Hinv Hb Hnm i c false Hn) as [A0 B0].
  destruct (quiescent_shape k l Hinv Hb Hnm i c true Hn) as [A1 B1].
  unfold chunk_empty_stable, has_empty_stable. cbn [ck_stable] in *.
  destruct (Nat.ltb i k) eqn:E; cbn [negb].
  - destruct A0 as (_ & _ & st0 & ->); [lia|]. destruct A1 as (_ & _ & st1 & ->); [lia|]. split; reflexivity.
  - rewrite B0, B1 by lia. split; reflexivity.
Qed.

(* all stable: k is the number of chunks *)
Lemma all_stable_k k l : part_inv l -> balanced_at k l -> no_migs l -> existsb has_empty_stable l = false -> k = length l.
Proof.
  intros Hinv Hb Hnm He. pose proof Hb as (Hk0 & Hkl & _).
  destruct (Nat.eq_dec k (length l)) as [|Hne]; [assumption|exfalso].
  destruct (nth_error l k) as [c|] eqn:En; [|apply nth_error_None in En; lia].
  destruct (quiescent_chunk_empty k l Hinv Hb Hnm k c En) as [_ H]. rewrite Nat.ltb_irrefl in H. cbn [negb] in H.
  assert (existsb has_empty_stable l = true) by (apply existsb_exists; exists c; split; [eapply nth_error_In; exact En|exact H]).
  congruence.
Qed.

(* number of slot-less chunks = length - k *)
Lemma quiescent_filter_empty k l : part_inv l -> balanced_at k l -> no_migs l ->
  length (filter chunk_empty_stable l) = (length l - k)%nat.
Proof.
  intros Hinv Hb Hnm. pose proof Hb as (Hk0 & Hkl & _).
  assert (H : forall i c, nth_error l i = Some c -> chunk_empty_stable c = negb (Nat.ltb i k)).
  { intros i c Hn. apply (quiescent_chunk_empty k l Hinv Hb Hnm i c Hn). }
  clear Hinv Hb Hnm Hk0. revert k Hkl H. induction l as [|c l IH]; intros k Hkl H; [reflexivity|].
  cbn [filter length]. pose proof (H 0%nat c eq_refl) as H0. destruct k as [|k].
  - cbn in H0. rewrite H0. cbn [length]. rewrite (IH 0%nat); [lia|lia|]. intros i c' Hn. apply (H (S i) c' Hn).
  - cbn in H0. rewrite H0. cbn [length] in Hkl. rewrite (IH k); [lia|lia|].
    intros i c' Hn. rewrite (H (S i) c' Hn). reflexivity.
Qed.
