(* Witnesses for the hypotheses of migrate_slots_part_inv / scale_down_part_inv: concrete stores that satisfy the
   partition invariant, on which the planners succeed (Done) and really create migrations. *)
From UM Require Import Base.BytesDef Model.Ranges Model.Broker Proofs.BrokerBase Proofs.BrokerPartRanges Proofs.BrokerPartDefs
  Proofs.BrokerPartMigrateBase Proofs.BrokerPartMigrate.
From Coq Require Import ZifyBool ZifyNat ZifyN.

Definition ex_chunk (s0 s1 : option rangelist) (b : N) : chunk :=
  mkChunk RNormal s0 s1 [] [] (b + 1) (b + 2) (b + 3) (b + 4) (b + 5) (b + 6) (b + 7) (b + 8).

Lemma ex_entries_nil2 c0 c1 pos : ck_mig0 c0 = [] -> ck_mig1 c0 = [] -> ck_mig0 c1 = [] -> ck_mig1 c1 = [] ->
  entries_at [c0; c1] pos = [].
Proof.
  intros A B C D. apply no_migs_entries. intros c [<-|[<-|[]]]; auto.
Qed.

Lemma ex_part_inv2 c0 c1 :
  ck_mig0 c0 = [] -> ck_mig1 c0 = [] -> ck_mig0 c1 = [] -> ck_mig1 c1 = [] ->
  Forall wf_range (chunk_stable c0 ++ chunk_stable c1) ->
  (forall s, cnt s (chunk_stable c0 ++ chunk_stable c1) = slot_ind s) ->
  part_inv [c0; c1].
Proof.
  intros A B C D Hw Hc.
  assert (Hn : no_migs [c0; c1]) by (intros c [<-|[<-|[]]]; auto).
  constructor.
  - cbn [length]. unfold SLOT_NUM. lia.
  - rewrite (no_migs_all_ranges _ Hn). cbn [stable_ranges flat_map]. rewrite app_nil_r. exact Hw.
  - intros pos e He. rewrite (no_migs_entries _ pos Hn) in He. destruct He.
  - intros s. rewrite (no_migs_owned _ Hn). cbn [stable_ranges flat_map]. rewrite app_nil_r. apply Hc.
  - intros s. rewrite (no_migs_all_in _ Hn), (no_migs_all_out _ Hn). reflexivity.
  - intros pos e He. rewrite (no_migs_entries _ pos Hn) in He. destruct He.
Qed.

(* ---------- scale out: one full chunk and one free chunk ---------- *)
Definition ex_out_store : store :=
  mkStore 5 [(1, mkCluster 5 [ex_chunk (Some [(0, 8191)]) (Some [(8192, 16383)]) 0; ex_chunk None None 10] 0)] [] [] [] false.

Example ex_out_inv : store_part_inv ex_out_store.
Proof.
  intros name cl [H|[]]. inversion H; subst. unfold cluster_inv. cbn [cl_chunks].
  apply ex_part_inv2; try reflexivity.
  - cbn. repeat constructor; unfold wf_range; cbn [fst snd]; lia.
  - intros s. cbn [chunk_stable ex_chunk ck_stable0 ck_stable1 opt_ranges app].
    rewrite !cnt_cons, cnt_nil. unfold ind, in_range, slot_ind, SLOT_NUM. cbn [fst snd].
    destruct (N.leb 0 s && N.leb s 8191) eqn:A; destruct (N.leb 8192 s && N.leb s 16383) eqn:B;
      destruct (N.ltb s 16384) eqn:C; lia.
Qed.

Example ex_out_done : snd (migrate_slots ex_out_store 1) = Done tt.
Proof. vm_compute. reflexivity. Qed.

(* the planner created two migrations (four entries) and the result still satisfies the invariant *)
Example ex_out_result :
  store_part_inv (fst (migrate_slots ex_out_store 1)) /\
  exists cl, alookup 1 (st_clusters (fst (migrate_slots ex_out_store 1))) = Some cl /\ cluster_is_migrating cl = true
             /\ length (flat_map (fun c => ck_mig0 c ++ ck_mig1 c) (cl_chunks cl)) = 4%nat.
Proof.
  split.
  - apply migrate_slots_part_inv; [exact ex_out_inv|]. rewrite ex_out_done. discriminate.
  - eexists. split; [vm_compute; reflexivity|]. split; vm_compute; reflexivity.
Qed.

(* ---------- scale down: two balanced chunks to one ---------- *)
Definition ex_down_store : store :=
  mkStore 9 [(1, mkCluster 9 [ex_chunk (Some [(0, 4095)]) (Some [(4096, 8191)]) 0;
                              ex_chunk (Some [(8192, 12287)]) (Some [(12288, 16383)]) 10] 0)] [] [] [] false.

Example ex_down_inv : store_part_inv ex_down_store.
Proof.
  intros name cl [H|[]]. inversion H; subst. unfold cluster_inv. cbn [cl_chunks].
  apply ex_part_inv2; try reflexivity.
  - cbn. repeat constructor; unfold wf_range; cbn [fst snd]; lia.
  - intros s. cbn [chunk_stable ex_chunk ck_stable0 ck_stable1 opt_ranges app].
    rewrite !cnt_cons, cnt_nil. unfold ind, in_range, slot_ind, SLOT_NUM. cbn [fst snd].
    destruct (N.leb 0 s && N.leb s 4095) eqn:A; destruct (N.leb 4096 s && N.leb s 8191) eqn:B;
      destruct (N.leb 8192 s && N.leb s 12287) eqn:C; destruct (N.leb 12288 s && N.leb s 16383) eqn:D;
      destruct (N.ltb s 16384) eqn:E; lia.
Qed.

Example ex_down_done : snd (migrate_slots_to_scale_down ex_down_store 1 4) = Done tt.
Proof. vm_compute. reflexivity. Qed.

Example ex_down_result :
  store_part_inv (fst (migrate_slots_to_scale_down ex_down_store 1 4)) /\
  exists cl, alookup 1 (st_clusters (fst (migrate_slots_to_scale_down ex_down_store 1 4))) = Some cl
             /\ cluster_is_migrating cl = true
             /\ length (flat_map (fun c => ck_mig0 c ++ ck_mig1 c) (cl_chunks cl)) = 4%nat.
Proof.
  split.
  - apply scale_down_part_inv; [exact ex_down_inv|]. rewrite ex_down_done. discriminate.
  - eexists. split; [vm_compute; reflexivity|]. split; vm_compute; reflexivity.
Qed.
