(* Leaf records: RangeList (with compaction), MigrationMeta, SlotRange, MigrationTaskMeta, SwitchArg.
   Round trips with a continuation, extension stability of the parsers, rejection of every strict prefix. *)
From UM Require Import Base.BytesDef Base.Dec Model.Wire Proofs.WireProofsBase.
From Coq Require Import ZifyBool ZifyNat ZifyN.

(* ---------- compaction ---------- *)
Definition rb (r : range) : bool := (fst r <? usize_max) && (snd r <? usize_max).

Lemma rb_norm : forall r, rb r = true -> rb (norm_range r) = true.
Proof. intros [s e] H. unfold rb, norm_range in *. cbn [fst snd] in *. destruct (e <? s); cbn [fst snd]; lia. Qed.

Lemma rb_insert : forall r l, rb r = true -> forallb rb l = true -> forallb rb (insert_range r l) = true.
Proof.
  intros r l Hr. induction l as [|x l IH]; intros Hl; cbn [insert_range forallb] in *.
  - rewrite Hr. reflexivity.
  - apply andb_true_iff in Hl. destruct Hl as [Hx Hl]. destruct (fst r <=? fst x); cbn [forallb].
    + rewrite Hr, Hx, Hl. reflexivity.
    + rewrite Hx, (IH Hl). reflexivity.
Qed.

Lemma rb_sort : forall l, forallb rb l = true -> forallb rb (sort_ranges l) = true.
Proof.
  induction l as [|r l IH]; intros H; cbn [sort_ranges forallb] in *; [reflexivity|].
  apply andb_true_iff in H. destruct H as [Hr Hl]. apply rb_insert; auto.
Qed.

Lemma rb_map_norm : forall l, forallb rb l = true -> forallb rb (map norm_range l) = true.
Proof.
  induction l as [|r l IH]; intros H; cbn [map forallb] in *; [reflexivity|].
  apply andb_true_iff in H. destruct H as [Hr Hl]. rewrite (rb_norm r Hr), (IH Hl). reflexivity.
Qed.

Lemma merge_no_panic : forall rest cur, rb cur = true -> forallb rb rest = true -> merge_ranges cur rest <> None.
Proof.
  induction rest as [|e rest IH]; intros cur Hc Hr; cbn [merge_ranges]; [discriminate|].
  cbn [forallb] in Hr. apply andb_true_iff in Hr. destruct Hr as [He Hr].
  unfold rb in Hc, He. destruct (usize_max <=? snd cur) eqn:E1; [lia|].
  destruct (fst e <=? snd cur + 1).
  - apply IH; [|exact Hr]. unfold rb. cbn [fst snd]. lia.
  - specialize (IH e). destruct (merge_ranges e rest); [discriminate|]. exfalso. apply IH; auto.
Qed.

Lemma wf_rl_rb : forall rl, wf_rl rl = true -> forallb rb rl = true.
Proof. intros rl H. unfold wf_rl in H. apply andb_true_iff in H. destruct H as [H _]. exact H. Qed.

(* under wf_rl the overflow panic of compact is unreachable *)
Lemma compact_no_panic : forall rl, wf_rl rl = true -> compact rl <> None.
Proof.
  intros rl H. apply wf_rl_rb in H. unfold compact.
  pose proof (rb_sort _ (rb_map_norm _ H)) as Hs.
  destruct (sort_ranges (map norm_range rl)) as [|c r]; [discriminate|].
  cbn [forallb] in Hs. apply andb_true_iff in Hs. destruct Hs. apply merge_no_panic; auto.
Qed.

Lemma compact_norm_rl : forall rl, wf_rl rl = true -> compact rl = Some (norm_rl rl).
Proof.
  intros rl H. unfold norm_rl. pose proof (compact_no_panic rl H). destruct (compact rl); congruence.
Qed.

Lemma compact_map_norm_id : forall l, is_compact l = true -> map norm_range l = l.
Proof.
  induction l as [|r l IH]; intros H; cbn [map is_compact] in *; [reflexivity|].
  apply andb_true_iff in H. destruct H as [H Hl]. apply andb_true_iff in H. destruct H as [Hr _].
  rewrite (IH Hl). f_equal. unfold norm_range. destruct (snd r <? fst r) eqn:E; [lia|reflexivity].
Qed.

Lemma compact_sort_id : forall l, is_compact l = true -> sort_ranges l = l.
Proof.
  induction l as [|r l IH]; intros H; cbn [sort_ranges]; [reflexivity|].
  cbn [is_compact] in H. apply andb_true_iff in H. destruct H as [H Hl]. apply andb_true_iff in H. destruct H as [Hr Hn].
  rewrite (IH Hl). destruct l as [|r' l']; cbn [insert_range]; [reflexivity|].
  destruct (fst r <=? fst r') eqn:E; [reflexivity|lia].
Qed.

Lemma compact_merge_id : forall l c, is_compact (c :: l) = true -> forallb rb (c :: l) = true ->
  merge_ranges c l = Some (c :: l).
Proof.
  induction l as [|e l IH]; intros c H Hb; cbn [merge_ranges]; [reflexivity|].
  cbn [is_compact] in H. apply andb_true_iff in H. destruct H as [H Hl]. apply andb_true_iff in H. destruct H as [Hr Hn].
  cbn [forallb] in Hb. apply andb_true_iff in Hb. destruct Hb as [Hc Hb]. unfold rb in Hc.
  destruct (usize_max <=? snd c) eqn:E1; [lia|].
  destruct (fst e <=? snd c + 1) eqn:E2; [lia|].
  rewrite (IH e Hl Hb). reflexivity.
Qed.

(* a list that RangeList::new would leave unchanged is left unchanged *)
Lemma compact_id : forall rl, wf_rl rl = true -> is_compact rl = true -> compact rl = Some rl.
Proof.
  intros rl Hw Hc. unfold compact. rewrite (compact_map_norm_id rl Hc), (compact_sort_id rl Hc).
  destruct rl as [|c r]; [reflexivity|]. apply compact_merge_id; [exact Hc|]. apply wf_rl_rb. exact Hw.
Qed.

Lemma norm_rl_id : forall rl, wf_rl rl = true -> is_compact rl = true -> norm_rl rl = rl.
Proof. intros rl Hw Hc. unfold norm_rl. rewrite (compact_id rl Hw Hc). reflexivity. Qed.

(* ---------- RangeList ---------- *)
Lemma parse_ranges_cons : forall t r n, parse_ranges (t :: r) n =
  if n =? 0 then Some ([], t :: r)
  else match parse_range_tok t with
       | None => None
       | Some rg => match parse_ranges r (n - 1) with
                    | None => None
                    | Some (rs, r') => Some (rg :: rs, r')
                    end
       end.
Proof. reflexivity. Qed.

Lemma parse_ranges_zero : forall toks, parse_ranges toks 0 = Some ([], toks).
Proof. intros [|t r]; reflexivity. Qed.

Lemma parse_ranges_step : forall s e r n rs r', s <= u64_max -> e <= u64_max ->
  parse_ranges r n = Some (rs, r') -> parse_ranges (range_tok (s, e) :: r) (N.succ n) = Some ((s, e) :: rs, r').
Proof.
  intros s e r n rs r' Hs He H. rewrite parse_ranges_cons.
  destruct (N.succ n =? 0) eqn:E; [apply N.eqb_eq in E; destruct (N.neq_succ_0 _ E)|].
  rewrite (parse_range_tok_range_tok s e Hs He).
  rewrite <- N.pred_sub, N.pred_succ. rewrite H. reflexivity.
Qed.
Lemma parse_ranges_roundtrip : forall rl rest, forallb rb rl = true ->
  parse_ranges (map range_tok rl ++ rest) (N.of_nat (length rl)) = Some (rl, rest).
Proof.
  induction rl as [|[s e] rl IH]; intros rest H.
  - apply parse_ranges_zero.
  - cbn [forallb] in H. apply andb_true_iff in H. destruct H as [Hr Hl]. unfold rb in Hr. cbn [fst snd] in Hr.
    apply andb_true_iff in Hr. destruct Hr as [H1 H2]. apply N.ltb_lt in H1, H2.
    cbn [map app length]. rewrite Nat2N.inj_succ. apply parse_ranges_step.
    + apply N.lt_le_incl. exact H1.
    + apply N.lt_le_incl. exact H2.
    + apply IH. exact Hl.
Qed.

Lemma parse_range_list_roundtrip : forall rl rest, wf_rl rl = true ->
  parse_range_list (rl_to_strings rl ++ rest) = Ok (norm_rl rl, rest).
Proof.
  intros rl rest H. unfold rl_to_strings. cbn [app parse_range_list].
  pose proof H as H'. unfold wf_rl in H'. apply andb_true_iff in H'. destruct H' as [Hb Hlen].
  rewrite parse_u64_to_dec by (unfold usize_max in *; lia).
  rewrite (parse_ranges_roundtrip rl rest Hb). rewrite (compact_norm_rl rl H). reflexivity.
Qed.

(* ---------- extension stability: what a parser accepts (or panics on) does not depend on later tokens ---------- *)
Definition ext_stable {A} (p : list tok -> res (A * list tok)) : Prop :=
  forall t s, (forall a r, p t = Ok (a, r) -> p (t ++ s) = Ok (a, r ++ s)) /\ (p t = Panic -> p (t ++ s) = Panic).

Definition is_err {A} (r : res A) : bool := match r with Err _ => true | _ => false end.

Lemma ext_stable_truncation : forall A (p : list tok -> res (A * list tok)) E x,
  ext_stable p -> p E = Ok (x, []) -> forall k, (k < length E)%nat -> is_err (p (firstn k E)) = true.
Proof.
  intros A p E x Hs HE k Hk.
  destruct (Hs (firstn k E) (skipn k E)) as [H1 H2]. rewrite firstn_skipn in H1, H2.
  destruct (p (firstn k E)) as [[a r]|e|] eqn:Ep; [| reflexivity |].
  - specialize (H1 a r eq_refl). rewrite HE in H1. inversion H1 as [[Ha Hr]].
    symmetry in Hr. apply app_eq_nil in Hr. destruct Hr as [_ Hsk].
    assert (length (skipn k E) = 0%nat) by (rewrite Hsk; reflexivity). rewrite skipn_length in H. lia.
  - specialize (H2 eq_refl). congruence.
Qed.

Lemma parse_ranges_ext : forall t n rs r s, parse_ranges t n = Some (rs, r) -> parse_ranges (t ++ s) n = Some (rs, r ++ s).
Proof.
  induction t as [|x t IH]; intros n rs r s H; cbn [parse_ranges app] in *.
  - destruct (n =? 0) eqn:E; [|discriminate]. inversion H; subst. cbn [app].
    destruct s; cbn [parse_ranges]; rewrite E; reflexivity.
  - destruct (n =? 0) eqn:E.
    + inversion H; subst. reflexivity.
    + destruct (parse_range_tok x); [|discriminate].
      destruct (parse_ranges t (n - 1)) as [[rs' r']|] eqn:E2; [|discriminate].
      inversion H; subst. rewrite (IH _ _ _ s E2). reflexivity.
Qed.

Lemma parse_range_list_ext : ext_stable parse_range_list.
Proof.
  intros t s. unfold parse_range_list. destruct t as [|x t]; cbn [app].
  - split; intros; discriminate.
  - destruct (parse_u64 x); [|split; intros; discriminate].
    destruct (parse_ranges t n) as [[rs r]|] eqn:E; [|split; intros; discriminate].
    rewrite (parse_ranges_ext _ _ _ _ s E).
    destruct (compact rs); split; intros; try discriminate; try reflexivity.
    inversion H; subst. reflexivity.
Qed.

Lemma parse_mig_meta_ext : ext_stable parse_mig_meta.
Proof.
  intros t s. unfold parse_mig_meta.
  destruct t as [|e [|a [|b [|c [|d r]]]]]; cbn [app]; try (split; intros; discriminate).
  destruct (parse_u64 e); split; intros; try discriminate. inversion H; subst. reflexivity.
Qed.

Lemma parse_tagged_ext : forall mk, ext_stable (parse_tagged mk).
Proof.
  intros mk t s. unfold parse_tagged.
  destruct (parse_range_list_ext t s) as [H1 H2].
  destruct (parse_range_list t) as [[rl r1]|e|].
  - rewrite (H1 rl r1 eq_refl).
    destruct (parse_mig_meta_ext r1 s) as [G1 G2].
    destruct (parse_mig_meta r1) as [[m r2]|e|].
    + rewrite (G1 m r2 eq_refl). split; intros; try discriminate. inversion H; subst. reflexivity.
    + split; intros; discriminate.
    + rewrite (G2 eq_refl). split; intros; try discriminate. reflexivity.
  - split; intros; discriminate.
  - rewrite (H2 eq_refl). split; intros; try discriminate. reflexivity.
Qed.

Lemma parse_sr_ext : ext_stable parse_sr.
Proof.
  intros t s. unfold parse_sr. destruct t as [|x t]; cbn [app]; [split; intros; discriminate|].
  destruct (bytes_eqb (to_upper x) kw_MIGRATING); [apply parse_tagged_ext|].
  destruct (bytes_eqb (to_upper x) kw_IMPORTING); [apply parse_tagged_ext|].
  destruct (parse_range_list_ext (x :: t) s) as [H1 H2]. cbn [app] in H1, H2.
  destruct (parse_range_list (x :: t)) as [[rl r1]|e|].
  - rewrite (H1 rl r1 eq_refl). split; intros; try discriminate. inversion H; subst. reflexivity.
  - split; intros; discriminate.
  - rewrite (H2 eq_refl). split; intros; try discriminate. reflexivity.
Qed.

Lemma parse_task_ext : ext_stable parse_task.
Proof.
  intros t s. unfold parse_task. destruct t as [|x t]; cbn [app]; [split; intros; discriminate|].
  destruct (valid_cluster_name x); [|split; intros; discriminate].
  destruct (parse_sr_ext t s) as [H1 H2].
  destruct (parse_sr t) as [[sr r1]|e|].
  - rewrite (H1 sr r1 eq_refl). split; intros; try discriminate. inversion H; subst. reflexivity.
  - split; intros; discriminate.
  - rewrite (H2 eq_refl). split; intros; try discriminate. reflexivity.
Qed.

Lemma parse_switch_ext : ext_stable parse_switch.
Proof.
  intros t s. unfold parse_switch. destruct t as [|x t]; cbn [app]; [split; intros; discriminate|].
  destruct (parse_task_ext t s) as [H1 H2].
  destruct (parse_task t) as [[tm r1]|e|].
  - rewrite (H1 tm r1 eq_refl). split; intros; try discriminate. inversion H; subst. reflexivity.
  - split; intros; discriminate.
  - rewrite (H2 eq_refl). split; intros; try discriminate. reflexivity.
Qed.

(* ---------- MigrationMeta ---------- *)
Lemma parse_mig_meta_roundtrip : forall m rest, wf_mm m = true -> parse_mig_meta (mm_to_strings m ++ rest) = Ok (m, rest).
Proof.
  intros [e a b c d] rest H. unfold wf_mm in H. cbn [mm_epoch] in H.
  unfold mm_to_strings, parse_mig_meta. cbn [app mm_epoch mm_src_proxy mm_src_node mm_dst_proxy mm_dst_node].
  rewrite parse_u64_to_dec by lia. reflexivity.
Qed.

(* ---------- SlotRange ---------- *)
Lemma rl_to_strings_hd : forall rl, exists n r, rl_to_strings rl = to_dec n :: r.
Proof. intros rl. eexists _, _. reflexivity. Qed.

Lemma parse_tagged_roundtrip : forall mk rl m rest, wf_rl rl = true -> wf_mm m = true ->
  parse_tagged mk (rl_to_strings rl ++ mm_to_strings m ++ rest) = Ok (MkSR (norm_rl rl) (mk m), rest).
Proof.
  intros mk rl m rest Hr Hm. unfold parse_tagged.
  rewrite (parse_range_list_roundtrip rl _ Hr). rewrite (parse_mig_meta_roundtrip m rest Hm). reflexivity.
Qed.

Lemma parse_sr_roundtrip : forall sr rest, wf_sr sr = true -> parse_sr (sr_to_strings sr ++ rest) = Ok (norm_sr sr, rest).
Proof.
  intros [rl t] rest H. unfold wf_sr in H. cbn [sr_ranges sr_tag] in H. apply andb_true_iff in H. destruct H as [Hr Ht].
  unfold sr_to_strings, norm_sr. cbn [sr_ranges sr_tag]. destruct t as [|m|m]; cbn [wf_tag] in Ht.
  - unfold parse_sr. unfold rl_to_strings at 1. cbn [app].
    rewrite (to_dec_not_kw _ kw_MIGRATING 77 _ eq_refl eq_refl).
    rewrite (to_dec_not_kw _ kw_IMPORTING 73 _ eq_refl eq_refl).
    change (to_dec (N.of_nat (length rl)) :: map range_tok rl ++ rest) with (rl_to_strings rl ++ rest).
    rewrite (parse_range_list_roundtrip rl rest Hr). reflexivity.
  - cbn [app parse_sr]. replace (bytes_eqb (to_upper kw_MIGRATING) kw_MIGRATING) with true by reflexivity.
    rewrite <- app_assoc. apply parse_tagged_roundtrip; assumption.
  - cbn [app parse_sr]. replace (bytes_eqb (to_upper kw_IMPORTING) kw_MIGRATING) with false by reflexivity.
    replace (bytes_eqb (to_upper kw_IMPORTING) kw_IMPORTING) with true by reflexivity.
    rewrite <- app_assoc. apply parse_tagged_roundtrip; assumption.
Qed.

(* ---------- MigrationTaskMeta, SwitchArg ---------- *)
Definition norm_task (t : task_meta) : task_meta := MkTM (tm_cluster t) (norm_sr (tm_sr t)).
Definition norm_switch (a : switch_arg) : switch_arg := MkSA (sa_version a) (norm_task (sa_meta a)).

Lemma parse_task_roundtrip : forall t rest, wf_task t = true -> parse_task (tm_to_strings t ++ rest) = Ok (norm_task t, rest).
Proof.
  intros [n sr] rest H. unfold wf_task in H. cbn [tm_cluster tm_sr] in H. apply andb_true_iff in H. destruct H as [Hn Hs].
  unfold tm_to_strings, parse_task, norm_task. cbn [tm_cluster tm_sr app]. rewrite Hn.
  rewrite (parse_sr_roundtrip sr rest Hs). reflexivity.
Qed.

Lemma parse_switch_roundtrip : forall a rest, wf_task (sa_meta a) = true ->
  parse_switch (sa_to_strings a ++ rest) = Ok (norm_switch a, rest).
Proof.
  intros [v t] rest H. cbn [sa_meta] in H. unfold sa_to_strings, parse_switch, norm_switch. cbn [sa_version sa_meta app].
  rewrite (parse_task_roundtrip t rest H). reflexivity.
Qed.

(* a descriptor whose range list is as RangeList::new leaves it comes back equal *)
Definition task_compact (t : task_meta) : bool := is_compact (sr_ranges (tm_sr t)).

Lemma norm_task_id : forall t, wf_task t = true -> task_compact t = true -> norm_task t = t.
Proof.
  intros [n [rl tg]] Hw Hc. unfold task_compact in Hc. cbn [tm_sr sr_ranges] in Hc.
  unfold wf_task, wf_sr in Hw. cbn [tm_cluster tm_sr sr_ranges sr_tag] in Hw.
  apply andb_true_iff in Hw. destruct Hw as [_ Hw]. apply andb_true_iff in Hw. destruct Hw as [Hr _].
  unfold norm_task, norm_sr. cbn [tm_cluster tm_sr sr_ranges sr_tag]. rewrite (norm_rl_id rl Hr Hc). reflexivity.
Qed.

(* the INFOMGR journey: join(" ") at the proxy, split(' ') + from_strings at the coordinator *)
Lemma range_tok_no_space : forall r, no_space (range_tok r) = true.
Proof.
  intros [s e]. unfold range_tok, no_space. cbn [fst snd]. rewrite existsb_app. cbn [existsb].
  rewrite (digits_no_byte c_SP (to_dec s)), (digits_no_byte c_SP (to_dec e)) by (try reflexivity; apply to_dec_digits).
  reflexivity.
Qed.

Lemma rl_strings_no_space : forall rl, forallb no_space (rl_to_strings rl) = true.
Proof.
  intros rl. unfold rl_to_strings. cbn [forallb]. rewrite digits_no_space by apply to_dec_digits. cbn [andb].
  induction rl as [|r rl IH]; cbn [map forallb]; [reflexivity|]. rewrite range_tok_no_space, IH. reflexivity.
Qed.

Lemma name_no_space : forall n, valid_cluster_name n = true -> no_space n = true.
Proof.
  intros n H. unfold valid_cluster_name in H. apply andb_true_iff in H. destruct H as [H _].
  unfold no_space. apply negb_true_iff. induction n as [|c n IH]; cbn [existsb forallb] in *; [reflexivity|].
  apply andb_true_iff in H. destruct H as [Hc Hn]. rewrite (IH Hn). unfold name_char in Hc. unfold c_SP.
  destruct (N.eqb 32 c) eqn:E; [|reflexivity]. apply N.eqb_eq in E. subst c. discriminate.
Qed.

Lemma mm_strings_no_space : forall m, mm_no_space m = true -> forallb no_space (mm_to_strings m) = true.
Proof.
  intros m H. unfold mm_no_space in H. unfold mm_to_strings. cbn [forallb].
  rewrite digits_no_space by apply to_dec_digits.
  repeat (apply andb_true_iff in H; destruct H as [H ?]). rewrite H, H0, H1, H2. reflexivity.
Qed.

Lemma tm_strings_no_space : forall t, wf_task_str t = true -> forallb no_space (tm_to_strings t) = true.
Proof.
  intros [n [rl tg]] H. unfold wf_task_str, wf_task in H. cbn [tm_cluster tm_sr sr_tag] in H.
  apply andb_true_iff in H. destruct H as [H Hsp]. apply andb_true_iff in H. destruct H as [Hn _].
  unfold tm_to_strings, sr_to_strings. cbn [tm_cluster tm_sr sr_tag sr_ranges forallb].
  rewrite (name_no_space n Hn). cbn [andb].
  destruct tg as [|m|m]; cbn [tag_no_space] in Hsp.
  - apply rl_strings_no_space.
  - cbn [forallb]. rewrite forallb_app, rl_strings_no_space, (mm_strings_no_space m Hsp). reflexivity.
  - cbn [forallb]. rewrite forallb_app, rl_strings_no_space, (mm_strings_no_space m Hsp). reflexivity.
Qed.

Lemma task_string_roundtrip : forall t, wf_task_str t = true -> task_of_string (task_to_string t) = Ok (norm_task t).
Proof.
  intros t H. unfold task_of_string, task_to_string.
  rewrite split_join; [|destruct t; discriminate|apply tm_strings_no_space; exact H].
  assert (Hw : wf_task t = true) by (unfold wf_task_str in H; apply andb_true_iff in H; tauto).
  pose proof (parse_task_roundtrip t [] Hw) as R. rewrite app_nil_r in R. rewrite R. reflexivity.
Qed.

(* ---------- every strict prefix of a leaf record is rejected ---------- *)
Lemma rl_truncation : forall rl k, wf_rl rl = true -> (k < length (rl_to_strings rl))%nat ->
  is_err (parse_range_list (firstn k (rl_to_strings rl))) = true.
Proof.
  intros rl k H Hk. eapply ext_stable_truncation; [apply parse_range_list_ext| |exact Hk].
  pose proof (parse_range_list_roundtrip rl [] H) as R. rewrite app_nil_r in R. exact R.
Qed.

Lemma mm_truncation : forall m k, wf_mm m = true -> (k < length (mm_to_strings m))%nat ->
  is_err (parse_mig_meta (firstn k (mm_to_strings m))) = true.
Proof.
  intros m k H Hk. eapply ext_stable_truncation; [apply parse_mig_meta_ext| |exact Hk].
  pose proof (parse_mig_meta_roundtrip m [] H) as R. rewrite app_nil_r in R. exact R.
Qed.

Lemma sr_truncation : forall sr k, wf_sr sr = true -> (k < length (sr_to_strings sr))%nat ->
  is_err (parse_sr (firstn k (sr_to_strings sr))) = true.
Proof.
  intros sr k H Hk. eapply ext_stable_truncation; [apply parse_sr_ext| |exact Hk].
  pose proof (parse_sr_roundtrip sr [] H) as R. rewrite app_nil_r in R. exact R.
Qed.

Lemma task_truncation : forall t k, wf_task t = true -> (k < length (tm_to_strings t))%nat ->
  is_err (parse_task (firstn k (tm_to_strings t))) = true.
Proof.
  intros t k H Hk. eapply ext_stable_truncation; [apply parse_task_ext| |exact Hk].
  pose proof (parse_task_roundtrip t [] H) as R. rewrite app_nil_r in R. exact R.
Qed.

Lemma switch_truncation : forall a k, wf_task (sa_meta a) = true -> (k < length (sa_to_strings a))%nat ->
  is_err (parse_switch (firstn k (sa_to_strings a))) = true.
Proof.
  intros a k H Hk. eapply ext_stable_truncation; [apply parse_switch_ext| |exact Hk].
  pose proof (parse_switch_roundtrip a [] H) as R. rewrite app_nil_r in R. exact R.
Qed.
