(* C06, part 6 (invariant): every migration epoch stored in any cluster is at most the global epoch, for every operation.
   In-based form (every stored entry of the cluster list, also shadowed ones), which implies store_epochs_le. *)
From UM Require Import Base.BytesDef Model.Ranges Model.Broker Proofs.BrokerBase Proofs.BrokerFailoverStruct
  Proofs.BrokerFailoverTakeover Proofs.BrokerFailoverStore.
From Coq Require Import ZifyBool ZifyNat ZifyN.

Definition chunk_entries (c : chunk) : list mig_store := ck_mig0 c ++ ck_mig1 c.

Definition metas_le (chunks : list chunk) (E : N) : Prop :=
  forall c m, In c chunks -> In m (chunk_entries c) -> mm_epoch (ms_meta m) <= E.

Definition store_metas_le (s : store) : Prop :=
  forall n cl, In (n, cl) (st_clusters s) -> metas_le (cl_chunks cl) (st_epoch s).

Lemma metas_le_epochs_le chunks E : metas_le chunks E <-> epochs_le chunks E.
Proof.
  split.
  - intros H j cj p m Hj Hm. apply (H cj m (nth_error_In _ _ Hj)).
    unfold chunk_entries. apply in_app_iff. destruct p; cbn [ck_mig] in Hm; auto.
  - intros H c m Hc Hm. apply In_nth_error in Hc. destruct Hc as (j & Hj).
    unfold chunk_entries in Hm. apply in_app_iff in Hm.
    destruct Hm as [Hm|Hm]; [apply (H j c false m Hj Hm)|apply (H j c true m Hj Hm)].
Qed.

Lemma store_metas_le_implies s : store_metas_le s -> store_epochs_le s.
Proof. intros H n cl Hl. apply metas_le_epochs_le. apply (H n cl). apply alookup_In. exact Hl. Qed.

Lemma metas_le_mono chunks E E' : metas_le chunks E -> E <= E' -> metas_le chunks E'.
Proof. intros H Hle c m Hc Hm. specialize (H c m Hc Hm). lia. Qed.

(* chunks' only contains entries whose meta occurs in chunks, or whose epoch is e *)
Definition metas_from (chunks chunks' : list chunk) (e : N) : Prop :=
  forall c' m', In c' chunks' -> In m' (chunk_entries c') ->
    mm_epoch (ms_meta m') = e
    \/ exists c m, In c chunks /\ In m (chunk_entries c) /\ ms_meta m' = ms_meta m.

Lemma metas_from_le chunks chunks' e E E' :
  metas_from chunks chunks' e -> metas_le chunks E -> E <= E' -> e <= E' -> metas_le chunks' E'.
Proof.
  intros Hf Hle H1 H2 c' m' Hc' Hm'. destruct (Hf c' m' Hc' Hm') as [->|(c & m & Hc & Hm & ->)]; [exact H2|].
  specialize (Hle c m Hc Hm). lia.
Qed.

Lemma metas_from_refl chunks e : metas_from chunks chunks e.
Proof. intros c m Hc Hm. right. exists c, m. auto. Qed.

Lemma metas_from_trans a b c e : metas_from a b e -> metas_from b c e -> metas_from a c e.
Proof.
  intros H1 H2 c' m' Hc' Hm'. destruct (H2 c' m' Hc' Hm') as [He|(cb & mb & Hcb & Hmb & Heq)]; [auto|].
  destruct (H1 cb mb Hcb Hmb) as [He|(ca & ma & Hca & Hma & Heq2)]; [left; congruence|].
  right. exists ca, ma. split; [exact Hca|]. split; [exact Hma|congruence].
Qed.

(* per-chunk version: every chunk of the result comes from a chunk of the input with entries drawn from it (or epoch e) *)
Definition chunk_from (c c' : chunk) (e : N) : Prop :=
  forall m', In m' (chunk_entries c') ->
    mm_epoch (ms_meta m') = e \/ exists m, In m (chunk_entries c) /\ ms_meta m' = ms_meta m.

Lemma metas_from_pointwise chunks chunks' e :
  (forall c', In c' chunks' -> exists c, In c chunks /\ chunk_from c c' e) -> metas_from chunks chunks' e.
Proof.
  intros H c' m' Hc' Hm'. destruct (H c' Hc') as (c & Hc & Hcf).
  destruct (Hcf m' Hm') as [He|(m & Hm & Heq)]; [auto|]. right. exists c, m. auto.
Qed.

Lemma chunk_from_same_entries c c' e : chunk_entries c' = chunk_entries c -> chunk_from c c' e.
Proof. intros H m' Hm'. right. exists m'. rewrite <- H. auto. Qed.

Lemma In_update_nth {A} (h : A -> A) i l x : In x (update_nth i h l) -> In x l \/ exists y, In y l /\ x = h y.
Proof.
  revert i. induction l as [|a l IH]; intros [|i]; cbn [update_nth In]; try tauto.
  - intros [H|H]; [right; exists a; auto|auto].
  - intros [H|H]; [auto|]. destruct (IH i H) as [H1|(y & Hy & ->)]; [auto|right; exists y; auto].
Qed.

Lemma metas_from_map chunks h e :
  (forall c, chunk_from c (h c) e) -> metas_from chunks (map h chunks) e.
Proof.
  intros Hh. apply metas_from_pointwise. intros c' Hc'. apply in_map_iff in Hc'. destruct Hc' as (c & <- & Hc). eauto.
Qed.

Lemma metas_from_update_nth chunks i h e :
  (forall c, chunk_from c (h c) e) -> metas_from chunks (update_nth i h chunks) e.
Proof.
  intros Hh. apply metas_from_pointwise. intros c' Hc'.
  destruct (In_update_nth h i chunks c' Hc') as [H|(c & Hc & ->)].
  - exists c'. split; [exact H|]. apply chunk_from_same_entries. reflexivity.
  - exists c. auto.
Qed.

Lemma entries_set_stable c p v : chunk_entries (set_stable c p v) = chunk_entries c.
Proof. destruct p; reflexivity. Qed.
Lemma entries_set_role c r : chunk_entries (set_role c r) = chunk_entries c.
Proof. reflexivity. Qed.

(* ---------- the migration planners only create metas with the given epoch ---------- *)
Ltac break_match H :=
  match type of H with
  | context [match ?x with _ => _ end] => destruct x eqn:?; try discriminate
  end.

Lemma scale_out_loop_migs : forall fuel e av rem smn dmn scn si sp rl acc rl' acc',
  scale_out_loop fuel e av rem smn dmn scn si sp rl acc = Done (rl', acc') ->
  forall x, In x (a_migs acc') -> In x (a_migs acc) \/ mm_epoch (snd x) = e.
Proof.
  induction fuel as [|fuel IH]; intros e av rem smn dmn scn si sp rl acc rl' acc' H x Hx; cbn [scale_out_loop] in H;
    [discriminate|].
  repeat break_match H;
    try (inversion H; subst; auto; fail);
    try (inversion H; subst; cbn [a_migs] in Hx; destruct Hx as [<-|Hx]; [right; reflexivity|auto]; fail);
    try (destruct (IH _ _ _ _ _ _ _ _ _ _ _ _ H x Hx) as [Hy|Hy]; [|auto];
         cbn [a_migs] in Hy; try (destruct Hy as [<-|Hy]; [right; reflexivity|]); auto; fail).
Qed.

Lemma scale_down_loop_migs : forall fuel e av rem dmn ex si sp rl acc rl' acc',
  scale_down_loop fuel e av rem dmn ex si sp rl acc = Done (rl', acc') ->
  forall x, In x (a_migs acc') -> In x (a_migs acc) \/ mm_epoch (snd x) = e.
Proof.
  induction fuel as [|fuel IH]; intros e av rem dmn ex si sp rl acc rl' acc' H x Hx; cbn [scale_down_loop] in H;
    [discriminate|].
  repeat break_match H;
    try (inversion H; subst; auto; fail);
    try (inversion H; subst; cbn [a_migs] in Hx; destruct Hx as [<-|Hx]; [right; reflexivity|auto]; fail);
    try (destruct (IH _ _ _ _ _ _ _ _ _ _ _ H x Hx) as [Hy|Hy]; [|auto];
         cbn [a_migs] in Hy; try (destruct Hy as [<-|Hy]; [right; reflexivity|]); auto; fail).
Qed.

Definition ents (l : list chunk) : list (list mig_store) := map chunk_entries l.

Lemma metas_from_same_ents a b e : ents b = ents a -> metas_from a b e.
Proof.
  intros H. apply metas_from_pointwise. intros c' Hc'. apply In_nth_error in Hc'. destruct Hc' as (j & Hj).
  assert (Hx : nth_error (ents a) j = Some (chunk_entries c')).
  { rewrite <- H. unfold ents. rewrite nth_error_map, Hj. reflexivity. }
  unfold ents in Hx. rewrite nth_error_map in Hx. destruct (nth_error a j) as [c|] eqn:Ea; [|discriminate].
  cbn in Hx. inversion Hx as [Hx']. exists c. split; [apply (nth_error_In _ _ Ea)|].
  apply chunk_from_same_entries. symmetry. exact Hx'.
Qed.

Lemma scale_out_chunks_migs e av rem smn dmn scn : forall chunks idx acc chunks' acc',
  scale_out_chunks e av rem smn dmn scn idx chunks acc = Done (chunks', acc') ->
  ents chunks' = ents chunks /\ forall x, In x (a_migs acc') -> In x (a_migs acc) \/ mm_epoch (snd x) = e.
Proof.
  induction chunks as [|c rest IH]; intros idx acc chunks' acc' H; cbn [scale_out_chunks] in H.
  - inversion H. split; [reflexivity|auto].
  - cbv zeta in H.
    assert (Hstep : forall p cx ax cy ay,
              match ck_stable cx p with
              | Some rl =>
                match scale_out_loop (loop_fuel rl dmn) e av rem smn dmn scn idx p rl ax with
                | Done (rl', acc') => Done (set_stable cx p (Some rl'), acc')
                | Fail e0 => Fail e0
                | Panic => Panic
                end
              | None => Done (cx, ax)
              end = Done (cy, ay) ->
              chunk_entries cy = chunk_entries cx /\ forall x, In x (a_migs ay) -> In x (a_migs ax) \/ mm_epoch (snd x) = e).
    { intros p cx ax cy ay Hp. destruct (ck_stable cx p) as [rl|].
      - destruct (scale_out_loop _ e av rem smn dmn scn idx p rl ax) as [[rl' a']|?|] eqn:El; try discriminate.
        inversion Hp; subst. split; [apply entries_set_stable|]. apply (scale_out_loop_migs _ _ _ _ _ _ _ _ _ _ _ _ _ El).
      - inversion Hp; subst. split; [reflexivity|auto]. }
    match type of H with match ?d0 with _ => _ end = _ => destruct d0 as [[c1 acc1]|?|] eqn:E0; try discriminate end.
    match type of H with match ?d1 with _ => _ end = _ => destruct d1 as [[c2 acc2]|?|] eqn:E1; try discriminate end.
    destruct (scale_out_chunks e av rem smn dmn scn (S idx) rest acc2) as [[rest' acc3]|?|] eqn:Er; try discriminate.
    inversion H; subst chunks' acc'.
    destruct (Hstep _ _ _ _ _ E0) as [Hc1 Ha1]. destruct (Hstep _ _ _ _ _ E1) as [Hc2 Ha2].
    destruct (IH _ _ _ _ Er) as [Hr Ha3].
    split.
    + unfold ents in *. cbn [map]. rewrite Hr, Hc2, Hc1. reflexivity.
    + intros x Hx. destruct (Ha3 x Hx) as [H3|H3]; [|auto]. destruct (Ha2 x H3) as [H2|H2]; [|auto]. apply (Ha1 x H2).
Qed.

Lemma scale_down_chunks_migs e av rem dmn ex : forall chunks idx acc chunks' acc',
  scale_down_chunks e av rem dmn ex idx chunks acc = Done (chunks', acc') ->
  ents chunks' = ents chunks /\ forall x, In x (a_migs acc') -> In x (a_migs acc) \/ mm_epoch (snd x) = e.
Proof.
  induction chunks as [|c rest IH]; intros idx acc chunks' acc' H; cbn [scale_down_chunks] in H.
  - inversion H. split; [reflexivity|auto].
  - cbv zeta in H.
    assert (Hstep : forall p cx ax cy ay,
              match ck_stable cx p with
              | Some rl =>
                match scale_down_loop (loop_fuel rl dmn) e av rem dmn ex idx p rl ax with
                | Done (_, acc') => Done (set_stable cx p None, acc')
                | Fail e0 => Fail e0
                | Panic => Panic
                end
              | None => Done (cx, ax)
              end = Done (cy, ay) ->
              chunk_entries cy = chunk_entries cx /\ forall x, In x (a_migs ay) -> In x (a_migs ax) \/ mm_epoch (snd x) = e).
    { intros p cx ax cy ay Hp. destruct (ck_stable cx p) as [rl|].
      - destruct (scale_down_loop _ e av rem dmn ex idx p rl ax) as [[rl' a']|?|] eqn:El; try discriminate.
        inversion Hp; subst. split; [apply entries_set_stable|]. apply (scale_down_loop_migs _ _ _ _ _ _ _ _ _ _ _ _ El).
      - inversion Hp; subst. split; [reflexivity|auto]. }
    match type of H with match ?d0 with _ => _ end = _ => destruct d0 as [[c1 acc1]|?|] eqn:E0; try discriminate end.
    match type of H with match ?d1 with _ => _ end = _ => destruct d1 as [[c2 acc2]|?|] eqn:E1; try discriminate end.
    destruct (scale_down_chunks e av rem dmn ex (S idx) rest acc2) as [[rest' acc3]|?|] eqn:Er; try discriminate.
    inversion H; subst chunks' acc'.
    destruct (Hstep _ _ _ _ _ E0) as [Hc1 Ha1]. destruct (Hstep _ _ _ _ _ E1) as [Hc2 Ha2].
    destruct (IH _ _ _ _ Er) as [Hr Ha3].
    split.
    + unfold ents in *. cbn [map]. rewrite Hr, Hc2, Hc1. reflexivity.
    + intros x Hx. destruct (Ha3 x Hx) as [H3|H3]; [|auto]. destruct (Ha2 x H3) as [H2|H2]; [|auto]. apply (Ha1 x H2).
Qed.

Lemma remove_slots_from_src_migs cl e chunks migs :
  remove_slots_from_src cl e = Done (chunks, migs) ->
  ents chunks = ents (cl_chunks cl) /\ forall x, In x migs -> mm_epoch (snd x) = e.
Proof.
  unfold remove_slots_from_src.
  match goal with |- context [scale_out_chunks ?a ?b ?c ?d ?e0 ?f ?g ?h ?i] =>
    destruct (scale_out_chunks a b c d e0 f g h i) as [[ch acc]|?|] eqn:E end; try discriminate.
  intros H. inversion H; subst. destruct (scale_out_chunks_migs _ _ _ _ _ _ _ _ _ _ _ E) as [H1 H2].
  split; [exact H1|]. intros x Hx. apply in_rev in Hx. destruct (H2 x Hx) as [[]|Hy]. exact Hy.
Qed.

Lemma remove_slots_scale_down_migs cl e k chunks migs :
  remove_slots_from_src_to_scale_down cl e k = Done (chunks, migs) ->
  ents chunks = ents (cl_chunks cl) /\ forall x, In x migs -> mm_epoch (snd x) = e.
Proof.
  unfold remove_slots_from_src_to_scale_down.
  destruct (existing_nums (firstn k (cl_chunks cl))) as [ex|]; [|discriminate].
  match goal with |- context [scale_down_chunks ?a ?b ?c ?d ?e0 ?f ?g ?h] =>
    destruct (scale_down_chunks a b c d e0 f g h) as [[ch acc]|?|] eqn:E end; try discriminate.
  intros H. inversion H; subst. destruct (scale_down_chunks_migs _ _ _ _ _ _ _ _ _ _ E) as [H1 H2].
  split.
  - unfold ents in *. rewrite map_app, H1, <- map_app, firstn_skipn. reflexivity.
  - intros x Hx. apply in_rev in Hx. destruct (H2 x Hx) as [[]|Hy]. exact Hy.
Qed.

Lemma chunk_from_append c p new e : mm_epoch (ms_meta new) = e -> chunk_from c (set_mig c p (ck_mig c p ++ [new])) e.
Proof.
  intros He m' Hm'. unfold chunk_entries in *.
  destruct p; cbn [set_mig ck_mig ck_mig0 ck_mig1] in Hm'; rewrite ?in_app_iff in Hm'; cbn [In] in Hm'.
  - destruct Hm' as [H|[H|[<-|[]]]]; [right; exists m'; rewrite in_app_iff; auto|right; exists m'; rewrite in_app_iff; auto|auto].
  - destruct Hm' as [[H|[<-|[]]]|H]; [right; exists m'; rewrite in_app_iff; auto|auto|right; exists m'; rewrite in_app_iff; auto].
Qed.

Lemma assign_dst_slots_metas e : forall migs chunks chunks',
  (forall x, In x migs -> mm_epoch (snd x) = e) ->
  assign_dst_slots chunks migs = Done chunks' -> metas_from chunks chunks' e.
Proof.
  induction migs as [|[rl m] rest IH]; intros chunks chunks' Hm H; cbn [assign_dst_slots] in H.
  - inversion H. apply metas_from_refl.
  - destruct (Nat.ltb (mm_src_idx m) (length chunks) && Nat.ltb (mm_dst_idx m) (length chunks)); [|discriminate].
    assert (He : mm_epoch m = e) by (apply (Hm (rl, m)); left; reflexivity).
    eapply metas_from_trans; [|apply (IH _ _ (fun x Hx => Hm x (or_intror Hx)) H)].
    eapply metas_from_trans; apply metas_from_update_nth; intros c; apply chunk_from_append; exact He.
Qed.

Lemma compact_slots_metas chunks e : metas_from chunks (compact_slots chunks) e.
Proof.
  unfold compact_slots. apply metas_from_map. intros c m' Hm'. right.
  unfold chunk_entries in *. cbn [compact_chunk ck_mig0 ck_mig1] in Hm'. rewrite <- map_app in Hm'.
  apply in_map_iff in Hm'. destruct Hm' as (m & <- & Hm). exists m. split; [exact Hm|reflexivity].
Qed.

Lemma remove_first_In {A} (p : A -> bool) l x l' : remove_first p l = Some (x, l') -> forall y, In y l' -> In y l.
Proof.
  revert x l'. induction l as [|a l IH]; intros x l' H y Hy; cbn [remove_first] in H; [discriminate|].
  destruct (p a).
  - inversion H; subst. right. exact Hy.
  - destruct (remove_first p l) as [[z r]|] eqn:E; [|discriminate]. inversion H; subst.
    destruct Hy as [<-|Hy]; [left; reflexivity|right; apply (IH _ _ eq_refl y Hy)].
Qed.

Lemma commit_in_metas rl meta e : forall chunks, metas_from chunks (commit_in chunks rl meta) e.
Proof.
  intros chunks. apply metas_from_pointwise. induction chunks as [|c rest IH]; intros c' Hc'; cbn [commit_in] in Hc';
    [destruct Hc'|]. cbv zeta in Hc'.
  destruct (remove_first _ (ck_mig0 c)) as [[e0 l0]|] eqn:E0.
  - destruct Hc' as [<-|Hc']; [|exists c'; split; [right; exact Hc'|apply chunk_from_same_entries; reflexivity]].
    exists c. split; [left; reflexivity|]. intros m' Hm'. right. exists m'. split; [|reflexivity].
    change (ck_stable (set_mig c false l0) false) with (ck_stable c false) in Hm'.
    assert (Hm2 : In m' (l0 ++ ck_mig1 c)) by (destruct (ck_stable c false); exact Hm').
    unfold chunk_entries. rewrite in_app_iff in *. destruct Hm2 as [H|H]; [left; apply (remove_first_In _ _ _ _ E0 m' H)|auto].
  - destruct (remove_first _ (ck_mig1 c)) as [[e1 l1]|] eqn:E1.
    + destruct Hc' as [<-|Hc']; [|exists c'; split; [right; exact Hc'|apply chunk_from_same_entries; reflexivity]].
      exists c. split; [left; reflexivity|]. intros m' Hm'. right. exists m'. split; [|reflexivity].
      change (ck_stable (set_mig c true l1) true) with (ck_stable c true) in Hm'.
      assert (Hm2 : In m' (ck_mig0 c ++ l1)) by (destruct (ck_stable c true); exact Hm').
      unfold chunk_entries. rewrite in_app_iff in *. destruct Hm2 as [H|H]; [auto|right; apply (remove_first_In _ _ _ _ E1 m' H)].
    + destruct Hc' as [<-|Hc'].
      * exists c. split; [left; reflexivity|apply chunk_from_same_entries; reflexivity].
      * destruct (IH c' Hc') as (c0 & Hc0 & Hf). exists c0. split; [right; exact Hc0|exact Hf].
Qed.

Lemma filter_chunks_metas keep chunks e :
  metas_from chunks (map (fun c => set_mig (set_mig c false (filter keep (ck_mig0 c))) true (filter keep (ck_mig1 c))) chunks) e.
Proof.
  apply metas_from_map. intros c m' Hm'. right. exists m'. split; [|reflexivity].
  unfold chunk_entries in *. cbn [set_mig ck_mig0 ck_mig1] in Hm'. rewrite in_app_iff in *.
  destruct Hm' as [H|H]; apply filter_In in H; tauto.
Qed.

Lemma takeover_metas_le cl f e E : metas_le (cl_chunks cl) E -> E < e -> metas_le (cl_chunks (takeover_master cl f e)) e.
Proof.
  intros H Hlt. apply metas_le_epochs_le. apply metas_le_epochs_le in H.
  apply (takeover_epochs cl f e E H Hlt).
Qed.

Lemma replace_in_chunks_ents chunks f r rr : ents (replace_in_chunks chunks f r rr) = ents chunks.
Proof.
  unfold ents. induction chunks as [|c rest IH]; cbn [replace_in_chunks map]; [reflexivity|].
  destruct (N.eqb (ck_proxy0 c) f); [reflexivity|]. destruct (N.eqb (ck_proxy1 c) f); [reflexivity|].
  cbn [map]. rewrite IH. reflexivity.
Qed.

(* ---------- store level ---------- *)
Lemma sml_same s s' :
  st_clusters s' = st_clusters s -> st_epoch s <= st_epoch s' -> store_metas_le s -> store_metas_le s'.
Proof. intros Hc He Hs n cl Hin. rewrite Hc in Hin. eapply metas_le_mono; [apply (Hs n cl Hin)|exact He]. Qed.

Lemma sml_insert s s' name cl' :
  st_clusters s' = ainsert name cl' (st_clusters s) -> st_epoch s <= st_epoch s' ->
  metas_le (cl_chunks cl') (st_epoch s') -> store_metas_le s -> store_metas_le s'.
Proof.
  intros Hc He Hcl Hs n cl Hin. rewrite Hc in Hin.
  destruct (ainsert_In _ _ _ _ _ Hin) as [[-> ->]|Hold]; [exact Hcl|].
  eapply metas_le_mono; [apply (Hs n cl Hold)|exact He].
Qed.

Lemma sml_lookup s name cl : store_metas_le s -> alookup name (st_clusters s) = Some cl -> metas_le (cl_chunks cl) (st_epoch s).
Proof. intros Hs Hl. apply (Hs name cl). apply alookup_In. exact Hl. Qed.

Ltac solve_same Hs :=
  first [ exact Hs
        | refine (sml_same _ _ _ _ Hs);
          [reflexivity | cbn [fst st_epoch bump with_epoch with_clusters with_proxies with_failed with_failures]; lia] ].

Ltac peel_inv Hs :=
  repeat match goal with
  | |- store_metas_le (fst (if ?b then _ else _)) => destruct b; [solve_same Hs|]
  end.

Lemma no_migs_metas_le chunks E : (forall c, In c chunks -> chunk_entries c = []) -> metas_le chunks E.
Proof. intros H c m Hc Hm. rewrite (H c Hc) in Hm. destruct Hm. Qed.

Lemma chunks_of_pairs_no_migs s ws av rem : forall pairs i curr c,
  In c (chunks_of_pairs s pairs ws av rem i curr) -> chunk_entries c = [].
Proof.
  induction pairs as [|[a b] rest IH]; intros i curr c H; cbn [chunks_of_pairs] in H; [destruct H|].
  destruct H as [<-|H]; [reflexivity|]. apply (IH _ _ _ H).
Qed.

Lemma add_cluster_inv s name k cfg ch : store_metas_le s -> store_metas_le (fst (add_cluster s name k cfg ch)).
Proof.
  intros Hs. unfold add_cluster. peel_inv Hs.
  destruct (gen_chunks s (k / 2) 0 ch) as [pairs|?|]; try solve_same Hs.
  cbn [fst]. eapply (sml_insert s); [reflexivity|cbn; lia| |exact Hs].
  cbn [cl_chunks]. apply no_migs_metas_le. intros c Hc. apply (chunks_of_pairs_no_migs _ _ _ _ _ _ _ _ Hc).
Qed.

Lemma remove_cluster_inv s name : store_metas_le s -> store_metas_le (fst (remove_cluster s name)).
Proof.
  intros Hs. unfold remove_cluster. destruct (alookup name (st_clusters s)); [|exact Hs].
  cbn [fst]. intros n cl Hin. cbn in Hin. apply aremove_In in Hin.
  eapply metas_le_mono; [apply (Hs n cl Hin)|cbn; lia].
Qed.

Lemma auto_add_nodes_inv s name k ch : store_metas_le s -> store_metas_le (fst (auto_add_nodes s name k ch)).
Proof.
  intros Hs. unfold auto_add_nodes. destruct (alookup name (st_clusters s)) as [cl|] eqn:El; [|exact Hs].
  peel_inv Hs.
  destruct (gen_chunks _ _ _ ch) as [pairs|?|]; try solve_same Hs.
  cbn [fst]. eapply (sml_insert s); [reflexivity|cbn; lia| |exact Hs].
  cbn [cl_chunks]. intros c m Hc Hm. apply in_app_iff in Hc. destruct Hc as [Hc|Hc].
  - pose proof (sml_lookup s name cl Hs El c m Hc Hm). cbn. lia.
  - rewrite (chunks_of_pairs_no_migs _ _ _ _ _ _ _ _ Hc) in Hm. destruct Hm.
Qed.

Lemma auto_scale_up_inv s name k ch : store_metas_le s -> store_metas_le (fst (auto_scale_up_nodes s name k ch)).
Proof.
  intros Hs. unfold auto_scale_up_nodes. destruct (alookup name (st_clusters s)); [|exact Hs].
  peel_inv Hs. apply auto_add_nodes_inv. exact Hs.
Qed.

Lemma auto_delete_inv s name : store_metas_le s -> store_metas_le (fst (auto_delete_free_nodes s name)).
Proof.
  intros Hs. unfold auto_delete_free_nodes. destruct (alookup name (st_clusters s)) as [cl|] eqn:El; [|exact Hs].
  peel_inv Hs.
  cbn [fst]. eapply (sml_insert s); [reflexivity|cbn; lia| |exact Hs].
  cbn [cl_chunks]. intros cx m Hc Hm. apply filter_In in Hc. destruct Hc as [Hc _].
  pose proof (sml_lookup s name cl Hs El cx m Hc Hm). cbn. lia.
Qed.

Lemma auto_delete_if_exists_fst' s name :
  fst (auto_delete_free_nodes_if_exists s name) = fst (auto_delete_free_nodes s name).
Proof.
  unfold auto_delete_free_nodes_if_exists. destruct (auto_delete_free_nodes s name) as [s' [x|e|]]; try reflexivity.
  destruct e; reflexivity.
Qed.

Lemma migrate_slots_inv s name : store_metas_le s -> store_metas_le (fst (migrate_slots s name)).
Proof.
  intros Hs. unfold migrate_slots. change (st_clusters (bump s)) with (st_clusters s).
  destruct (alookup name (st_clusters s)) as [cl|] eqn:El; [|solve_same Hs].
  peel_inv Hs.
  destruct (remove_slots_from_src cl _) as [[chunks migs]|?|] eqn:Er; try solve_same Hs.
  destruct (assign_dst_slots chunks migs) as [chunks'|?|] eqn:Ea; try solve_same Hs.
  cbn [fst]. eapply (sml_insert s); [reflexivity|cbn; lia| |exact Hs].
  cbn [cl_chunks st_epoch with_clusters bump with_epoch].
  destruct (remove_slots_from_src_migs _ _ _ _ Er) as [He Hm].
  eapply (metas_from_le (cl_chunks cl) _ (st_epoch s + 1) (st_epoch s)); [|apply (sml_lookup s name cl Hs El)|lia|lia].
  eapply metas_from_trans; [apply metas_from_same_ents; exact He|].
  eapply metas_from_trans; [apply (assign_dst_slots_metas _ _ _ _ Hm Ea)|apply compact_slots_metas].
Qed.

Lemma scale_down_inv s name k : store_metas_le s -> store_metas_le (fst (migrate_slots_to_scale_down s name k)).
Proof.
  intros Hs. unfold migrate_slots_to_scale_down. change (st_clusters (bump s)) with (st_clusters s).
  destruct (alookup name (st_clusters s)) as [cl|] eqn:El; [|solve_same Hs].
  peel_inv Hs.
  destruct (remove_slots_from_src_to_scale_down cl _ _) as [[chunks migs]|?|] eqn:Er; try solve_same Hs.
  destruct (assign_dst_slots chunks migs) as [chunks'|?|] eqn:Ea; try solve_same Hs.
  cbn [fst]. eapply (sml_insert s); [reflexivity|cbn; lia| |exact Hs].
  cbn [cl_chunks st_epoch with_clusters bump with_epoch].
  destruct (remove_slots_scale_down_migs _ _ _ _ _ Er) as [He Hm].
  eapply (metas_from_le (cl_chunks cl) _ (st_epoch s + 1) (st_epoch s)); [|apply (sml_lookup s name cl Hs El)|lia|lia].
  eapply metas_from_trans; [apply metas_from_same_ents; exact He|].
  eapply metas_from_trans; [apply (assign_dst_slots_metas _ _ _ _ Hm Ea)|apply compact_slots_metas].
Qed.

Lemma commit_migration_inv s name rl tag e : store_metas_le s -> store_metas_le (fst (commit_migration s name rl tag e)).
Proof.
  intros Hs. unfold commit_migration.
  destruct (alookup name (st_clusters s)) as [cl|] eqn:El; [|exact Hs].
  assert (Hgo : forall meta keep,
    metas_le (compact_slots (commit_in (map (fun c => set_mig (set_mig c false (filter keep (ck_mig0 c))) true
                                                              (filter keep (ck_mig1 c))) (cl_chunks cl)) rl meta))
             (st_epoch s + 1)).
  { intros meta keep.
    eapply (metas_from_le (cl_chunks cl) _ (st_epoch s + 1) (st_epoch s)); [|apply (sml_lookup s name cl Hs El)|lia|lia].
    eapply metas_from_trans; [apply filter_chunks_metas|].
    eapply metas_from_trans; [apply commit_in_metas|apply compact_slots_metas]. }
  destruct tag; try exact Hs.
  - destruct (find_entry_chunks 0 (cl_chunks cl) rl e true) as [[si sp]|]; [|exact Hs].
    destruct (find_entry_chunks 0 (cl_chunks cl) rl e false) as [[di dp]|]; [|exact Hs].
    cbn [fst]. eapply (sml_insert s); [reflexivity|cbn; lia| |exact Hs]. apply Hgo.
  - destruct (find_entry_chunks 0 (cl_chunks cl) rl e true) as [[si sp]|]; [|exact Hs].
    destruct (find_entry_chunks 0 (cl_chunks cl) rl e false) as [[di dp]|]; [|exact Hs].
    cbn [fst]. eapply (sml_insert s); [reflexivity|cbn; lia| |exact Hs]. apply Hgo.
Qed.

Lemma commit_api_inv s name rl tag e clr : store_metas_le s -> store_metas_le (fst (commit_migration_api s name rl tag e clr)).
Proof.
  intros Hs. unfold commit_migration_api.
  pose proof (commit_migration_inv s name rl tag e Hs) as H.
  destruct (commit_migration s name rl tag e) as [s1 [[]|?|]]; cbn [fst] in *; try exact H.
  destruct clr; [|exact H]. rewrite auto_delete_if_exists_fst'. apply auto_delete_inv. exact H.
Qed.

Lemma auto_scale_out_inv s name k : store_metas_le s -> store_metas_le (fst (auto_scale_out_node_number s name k)).
Proof.
  intros Hs. unfold auto_scale_out_node_number. destruct (alookup name (st_clusters s)); [|exact Hs].
  destruct (N.ltb _ _); [apply migrate_slots_inv; exact Hs|exact Hs].
Qed.

Lemma auto_change_inv s name k ch : store_metas_le s -> store_metas_le (fst (auto_change_node_number s name k ch)).
Proof.
  intros Hs. unfold auto_change_node_number.
  destruct (alookup name (st_clusters s)) as [cl|]; [|exact Hs].
  destruct (cluster_is_migrating cl); [exact Hs|].
  pose proof (auto_delete_inv s name Hs) as Hdel.
  destruct (auto_delete_free_nodes s name) as [s1 r1]. cbn [fst] in Hdel.
  assert (Htail : store_metas_le (fst (match alookup name (st_clusters s1) with
                             | None => (s1, Fail E_ClusterNotFound)
                             | Some cl1 =>
                               if N.eqb (4 * N.of_nat (length (cl_chunks cl1))) k then (s1, Done NoOp)
                               else if N.ltb (4 * N.of_nat (length (cl_chunks cl1))) k then
                                 match auto_scale_up_nodes s1 name k ch with
                                 | (s2, Done _) => (s2, Done ScaleOut)
                                 | (s2, Fail e) => (s2, Fail e)
                                 | (s2, Panic) => (s2, Panic)
                                 end
                               else
                                 match migrate_slots_to_scale_down s1 name k with
                                 | (s2, Done _) => (s2, Done ScaleDown)
                                 | (s2, Fail e) => (s2, Fail e)
                                 | (s2, Panic) => (s2, Panic)
                                 end
                             end))).
  { destruct (alookup name (st_clusters s1)) as [cl1|]; [|exact Hdel].
    destruct (N.eqb _ k); [exact Hdel|].
    destruct (N.ltb _ k).
    - pose proof (auto_scale_up_inv s1 name k ch Hdel) as H2.
      destruct (auto_scale_up_nodes s1 name k ch) as [s2 [x|e|]]; exact H2.
    - pose proof (scale_down_inv s1 name k Hdel) as H2.
      destruct (migrate_slots_to_scale_down s1 name k) as [s2 [x|e|]]; exact H2. }
  destruct r1 as [x|e|].
  - exact Htail.
  - destruct e; try exact Hdel. exact Htail.
  - exact Hdel.
Qed.

Lemma replace_failed_inv s f ch : store_metas_le s -> store_metas_le (fst (replace_failed_proxy s f ch)).
Proof.
  intros Hs. unfold replace_failed_proxy.
  destruct (alookup f (st_proxies s)) as [fr|]; [|exact Hs].
  destruct (pr_cluster fr) as [name|]; [|solve_same Hs].
  change (st_clusters (bump s)) with (st_clusters s).
  destruct (alookup name (st_clusters s)) as [cl|] eqn:El; [|solve_same Hs].
  set (clt := takeover_master cl f (st_epoch (bump s))).
  assert (Hclt : metas_le (cl_chunks clt) (st_epoch s + 1)).
  { subst clt. apply (takeover_metas_le cl f _ (st_epoch s)); [apply (sml_lookup s name cl Hs El)|cbn; lia]. }
  cbn [st_ordered with_clusters].
  destruct (st_ordered (bump s)).
  { cbn [fst]. eapply (sml_insert s); [reflexivity|cbn; lia| |exact Hs]. eapply metas_le_mono; [exact Hclt|cbn; lia]. }
  match goal with |- context [generate_new_free_proxy ?x f ch] => set (s3 := x) end.
  assert (H3 : store_metas_le s3).
  { eapply (sml_insert s); [reflexivity|cbn; lia| |exact Hs]. exact Hclt. }
  destruct (generate_new_free_proxy s3 f ch) as [r|e|]; try exact H3.
  change (st_clusters (bump s3)) with (ainsert name clt (st_clusters s)).
  rewrite alookup_ainsert_same. cbn [fst].
  eapply (sml_insert s3); [reflexivity|cbn; lia| |exact H3].
  cbn [cl_chunks]. eapply (metas_from_le (cl_chunks clt) _ 0 (st_epoch s + 1));
    [apply metas_from_same_ents; apply replace_in_chunks_ents|exact Hclt|cbn; lia|cbn; lia].
Qed.

Lemma balance_inv s name : store_metas_le s -> store_metas_le (fst (balance_masters s name)).
Proof.
  intros Hs. unfold balance_masters. destruct (alookup name (st_clusters s)) as [cl|] eqn:El; [|exact Hs].
  cbn [fst]. eapply (sml_insert s); [reflexivity|cbn; lia| |exact Hs].
  cbn [cl_chunks]. eapply (metas_from_le (cl_chunks cl) _ 0 (st_epoch s)); [|apply (sml_lookup s name cl Hs El)|cbn; lia|cbn; lia].
  apply metas_from_map. intros c. apply chunk_from_same_entries. destruct (_ || _); reflexivity.
Qed.

Lemma change_config_inv s name v cfg : store_metas_le s -> store_metas_le (fst (change_config s name v cfg)).
Proof.
  intros Hs. unfold change_config. destruct (alookup name (st_clusters s)) as [cl|] eqn:El; [|exact Hs].
  peel_inv Hs.
  cbn [fst]. eapply (sml_insert s); [reflexivity|cbn; lia| |exact Hs].
  cbn [cl_chunks]. eapply metas_le_mono; [apply (sml_lookup s name cl Hs El)|cbn; lia].
Qed.

Lemma set_all_epochs_inv s e : st_epoch s <= e -> store_metas_le s -> store_metas_le (set_all_cluster_epochs s e).
Proof.
  intros He Hs n cl Hin. unfold set_all_cluster_epochs in *. cbn [st_clusters st_epoch with_clusters with_epoch] in *.
  apply in_map_iff in Hin. destruct Hin as ([n0 cl0] & Heq & Hin0). cbn [fst snd] in Heq. inversion Heq; subst.
  cbn [set_cl_epoch cl_chunks]. eapply metas_le_mono; [apply (Hs n cl0 Hin0)|exact He].
Qed.

Lemma add_failure_frame s a r now :
  st_clusters (fst (add_failure s a r now)) = st_clusters s /\ st_epoch s <= st_epoch (fst (add_failure s a r now)).
Proof. unfold add_failure. match goal with |- context [if ?b then _ else _] => destruct b end; cbn; split; try reflexivity; lia. Qed.

Lemma lift_unit_fst' r : fst (lift_unit r) = fst r.
Proof. destruct r as [s [x|e|]]; reflexivity. Qed.

(* MAIN: the invariant is kept by every operation; a restored snapshot must satisfy it itself *)
Lemma step_keeps_metas_le : forall s o,
  store_metas_le s -> (forall snap, o = ORestore snap -> store_metas_le snap) -> store_metas_le (fst (step s o)).
Proof.
  intros s o Hs Hsnap. destruct o; cbn [step]; rewrite ?lift_unit_fst'.
  - unfold add_proxy. destruct (if st_ordered s then index else Some 0); [|exact Hs].
    cbn [fst]. destruct (negb _ || _); eapply (sml_same s); try reflexivity; try exact Hs; cbn; lia.
  - unfold remove_proxy. destruct (alookup addr (st_proxies s)) as [r|]; [|exact Hs].
    destruct (pr_cluster r); [exact Hs|]. eapply (sml_same s); [reflexivity|cbn; lia|exact Hs].
  - apply add_cluster_inv, Hs.
  - apply remove_cluster_inv, Hs.
  - apply auto_add_nodes_inv, Hs.
  - apply auto_scale_up_inv, Hs.
  - apply auto_delete_inv, Hs.
  - apply migrate_slots_inv, Hs.
  - apply scale_down_inv, Hs.
  - apply commit_api_inv, Hs.
  - destruct (nth_out_entry s name j); rewrite lift_unit_fst'; apply commit_api_inv, Hs.
  - pose proof (auto_change_inv s name expected choices Hs) as H.
    destruct (auto_change_node_number s name expected choices) as [s' [x|e|]]; exact H.
  - apply auto_scale_out_inv, Hs.
  - pose proof (replace_failed_inv s addr choice Hs) as H.
    destruct (replace_failed_proxy s addr choice) as [s' [x|e|]]; exact H.
  - apply balance_inv, Hs.
  - apply change_config_inv, Hs.
  - destruct (add_failure_frame s addr reporter now) as [H1 H2].
    destruct (add_failure s addr reporter now) as [s' b]. eapply (sml_same s); [exact H1|exact H2|exact Hs].
  - eapply (sml_same s); [reflexivity|cbn; lia|exact Hs].
  - eapply (sml_same s); [reflexivity|cbn; lia|exact Hs].
  - unfold force_bump_all_epoch. destruct (N.leb e (st_epoch s)) eqn:E; [exact Hs|].
    cbn [fst]. apply set_all_epochs_inv; [|exact Hs]. apply N.leb_gt in E. lia.
  - cbn [fst]. unfold recover_epoch. apply set_all_epochs_inv; [lia|exact Hs].
  - unfold restore. destruct (N.ltb (st_epoch snapshot) (st_epoch s)); [exact Hs|]. cbn [fst]. apply (Hsnap snapshot eq_refl).
Qed.

Lemma init_metas_le o : store_metas_le (init_store o).
Proof. intros n cl []. Qed.

(* every store reached from an empty store by operations other than ORestore satisfies the invariant *)
Lemma run_keeps_metas_le : forall ops s,
  store_metas_le s -> (forall o snap, In o ops -> o <> ORestore snap) -> store_metas_le (run s ops).
Proof.
  induction ops as [|o ops IH]; intros s Hs Hno; [exact Hs|].
  change (run s (o :: ops)) with (run (fst (step s o)) ops).
  apply IH.
  - apply step_keeps_metas_le; [exact Hs|]. intros snap ->. exfalso. apply (Hno (ORestore snap) snap); [left|]; reflexivity.
  - intros o' snap Hin. apply Hno. right. exact Hin.
Qed.

Lemma reachable_epochs_le : forall ordered ops,
  (forall o snap, In o ops -> o <> ORestore snap) -> store_epochs_le (run (init_store ordered) ops).
Proof.
  intros ordered ops Hno. apply store_metas_le_implies. apply run_keeps_metas_le; [apply init_metas_le|exact Hno].
Qed.
