(* C06, part 6 (invariant): every migration epoch stored in any cluster is at most the global epoch, for every operation.
   In-based form (every stored entry of the cluster list, also shadowed ones), which implies store_epochs_le. *)
From UM Require Import Base.BytesDef Model.Ranges Model.Broker Proofs.BrokerBase Proofs.BrokerFailoverStruct
  Proofs.BrokerFailoverTakeover Proofs.BrokerFailoverStore.
From Coq Require Import ZifyBool ZifyNat ZifyN.

Definition chunk_entries (c : chunk) : list mig_store := ck_mig0 c ++ ck_mig1 c.

Definition metas_le (chunks : list chunk) (E : N) : Prop :=
  forall c m, In c chunks -> In m (chunk_entries c) -> mm_epoch (ms_meta m) <= E.

Definition store_metas_le (s : store) : Prop :=
  forall n cl, In (n, cl) (st_clusters s) -> metas_le (cl_chunks cl) (st_epoch s).

Lemma metas_le_epochs_le chunks E : metas_le chunks E <-> epochs_le chunks E.
Proof.
  split.
  - intros H j cj p m Hj Hm. apply (H cj m (nth_error_In _ _ Hj)).
    unfold chunk_entries. apply in_app_iff. destruct p; cbn [ck_mig] in Hm; auto.
  - intros H c m Hc Hm. apply In_nth_error in Hc. destruct Hc as (j & Hj).
    unfold chunk_entries in Hm. apply in_app_iff in Hm.
    destruct Hm as [Hm|Hm]; [apply (H j c false m Hj Hm)|apply (H j c true m Hj Hm)].
Qed.

Lemma store_metas_le_implies s : store_metas_le s -> store_epochs_le s.
Proof. intros H n cl Hl. apply metas_le_epochs_le. apply (H n cl). apply alookup_In. exact Hl. Qed.

Lemma metas_le_mono chunks E E' : metas_le chunks E -> E <= E' -> metas_le chunks E'.
Proof. intros H Hle c m Hc Hm. specialize (H c m Hc Hm). lia. Qed.

(* chunks' only contains entries whose meta occurs in chunks, or whose epoch is e *)
Definition metas_from (chunks chunks' : list chunk) (e : N) : Prop :=
  forall c' m', In c' chunks' -> In m' (chunk_entries c') ->
    mm_epoch (ms_meta m') = e
    \/ exists c m, In c chunks /\ In m (chunk_entries c) /\ ms_meta m' = ms_meta m.

Lemma metas_from_le chunks chunks' e E E' :
  metas_from chunks chunks' e -> metas_le chunks E -> E <= E' -> e <= E' -> metas_le chunks' E'.
Proof.
  intros Hf Hle H1 H2 c' m' Hc' Hm'. destruct (Hf c' m' Hc' Hm') as [->|(c & m & Hc & Hm & ->)]; [exact H2|].
  specialize (Hle c m Hc Hm). lia.
Qed.

Lemma metas_from_refl chunks e : metas_from chunks chunks e.
Proof. intros c m Hc Hm. right. exists c, m. auto. Qed.

Lemma metas_from_trans a b c e : metas_from a b e -> metas_from b c e -> metas_from a c e.
Proof.
  intros H1 H2 c' m' Hc' Hm'. destruct (H2 c' m' Hc' Hm') as [He|(cb & mb & Hcb & Hmb & Heq)]; [auto|].
  destruct (H1 cb mb Hcb Hmb) as [He|(ca & ma & Hca & Hma & Heq2)]; [left; congruence|].
  right. exists ca, ma. split; [exact Hca|]. split; [exact Hma|congruence].
Qed.

(* per-chunk version: every chunk of the result comes from a chunk of the input with entries drawn from it (or epoch e) *)
Definition chunk_from (c c' : chunk) (e : N) : Prop :=
  forall m', In m' (chunk_entries c') ->
    mm_epoch (ms_meta m') = e \/ exists m, In m (chunk_entries c) /\ ms_meta m' = ms_meta m.

Lemma metas_from_pointwise chunks chunks' e :
  (forall c', In c' chunks' -> exists c, In c chunks /\ chunk_from c c' e) -> metas_from chunks chunks' e.
Proof.
  intros H c' m' Hc' Hm'. destruct (H c' Hc') as (c & Hc & Hcf).
  destruct (Hcf m' Hm') as [He|(m & Hm & Heq)]; [auto|]. right. exists c, m. auto.
Qed.

Lemma chunk_from_same_entries c c' e : chunk_entries c' = chunk_entries c -> chunk_from c c' e.
Proof. intros H m' Hm'. right. exists m'. rewrite <- H. auto. Qed.

Lemma In_update_nth {A} (h : A -> A) i l x : In x (update_nth i h l) -> In x l \/ exists y, In y l /\ x = h y.
Proof.
  revert i. induction l as [|a l IH]; intros [|i]; cbn [update_nth In]; try tauto.
  - intros [H|H]; [right; exists a; auto|auto].
  - intros [H|H]; [auto|]. destruct (IH i H) as [H1|(y & Hy & ->)]; [auto|right; exists y; auto].
Qed.

Lemma metas_from_map chunks h e :
  (forall c, chunk_from c (h c) e) -> metas_from chunks (map h chunks) e.
Proof.
  intros Hh. apply metas_from_pointwise. intros c' Hc'. apply in_map_iff in Hc'. destruct Hc' as (c & <- & Hc). eauto.
Qed.

Lemma metas_from_update_nth chunks i h e :
  (forall c, chunk_from c (h c) e) -> metas_from chunks (update_nth i h chunks) e.
Proof.
  intros Hh. apply metas_from_pointwise. intros c' Hc'.
  destruct (In_update_nth h i chunks c' Hc') as [H|(c & Hc & ->)].
  - exists c'. split; [exact H|]. apply chunk_from_same_entries. reflexivity.
  - exists c. auto.
Qed.

Lemma entries_set_stable c p v : chunk_entries (set_stable c p v) = chunk_entries c.
Proof. destruct p; reflexivity. Qed.
Lemma entries_set_role c r : chunk_entries (set_role c r) = chunk_entries c.
Proof. reflexivity. Qed.

(* ---------- the migration planners only create metas with the given epoch ---------- *)
Ltac break_match H :=
  match type of H with
  | context [match ?x with _ => _ end] => destruct x eqn:?; try discriminate
  end.

Lemma scale_out_loop_migs : forall fuel e av rem smn dmn scn si sp rl acc rl' acc',
  scale_out_loop fuel e av rem smn dmn scn si sp rl acc = Done (rl', acc') ->
  forall x, In x (a_migs acc') -> In x (a_migs acc) \/ mm_epoch (snd x) = e.
Proof.
  induction fuel as [|fuel IH]; intros e av rem smn dmn scn si sp rl acc rl' acc' H x Hx; cbn [scale_out_loop] in H;
    [discriminate|].
  repeat break_match H;
    try (inversion H; subst; auto; fail);
    try (inversion H; subst; cbn [a_migs] in Hx; destruct Hx as [<-|Hx]; [right; reflexivity|auto]; fail);
    try (destruct (IH _ _ _ _ _ _ _ _ _ _ _ _ H x Hx) as [Hy|Hy]; [|auto];
         cbn [a_migs] in Hy; try (destruct Hy as [<-|Hy]; [right; reflexivity|]); auto; fail).
Qed.

Lemma scale_down_loop_migs : forall fuel e av rem dmn ex si sp rl acc rl' acc',
  scale_down_loop fuel e av rem dmn ex si sp rl acc = Done (rl', acc') ->
  forall x, In x (a_migs acc') -> In x (a_migs acc) \/ mm_epoch (snd x) = e.
Proof.
  induction fuel as [|fuel IH]; intros e av rem dmn ex si sp rl acc rl' acc' H x Hx; cbn [scale_down_loop] in H;
    [discriminate|].
  repeat break_match H;
    try (inversion H; subst; auto; fail);
    try (inversion H; subst; cbn [a_migs] in Hx; destruct Hx as [<-|Hx]; [right; reflexivity|auto]; fail);
    try (destruct (IH _ _ _ _ _ _ _ _ _ _ _ H x Hx) as [Hy|Hy]; [|auto];
         cbn [a_migs] in Hy; try (destruct Hy as [<-|Hy]; [right; reflexivity|]); auto; fail).
Qed.
