(* ClusterConfig, NodeMap and ProxyClusterMeta: consumption / fuel lemmas, round trips (plain and compressed). *)
From UM Require Import Base.BytesDef Base.Dec Model.Wire Proofs.WireProofsBase Proofs.WireProofsLeaf.
From Coq Require Import ZifyBool ZifyNat ZifyN.

(* ---------- how many tokens the sub-parsers leave ---------- *)
Lemma parse_ranges_len : forall t n rs r, parse_ranges t n = Some (rs, r) -> (length r <= length t)%nat.
Proof.
  induction t as [|x t IH]; intros n rs r H; cbn [parse_ranges] in H.
  - destruct (n =? 0); [|discriminate]. inversion H; subst. cbn. lia.
  - destruct (n =? 0).
    + inversion H; subst. cbn. lia.
    + destruct (parse_range_tok x); [|discriminate].
      destruct (parse_ranges t (n - 1)) as [[rs' r']|] eqn:E; [|discriminate].
      inversion H; subst. apply IH in E. cbn [length]. lia.
Qed.

Lemma parse_range_list_len : forall t c r, parse_range_list t = Ok (c, r) -> (length r < length t)%nat.
Proof.
  intros t c r H. unfold parse_range_list in H. destruct t as [|x t]; [discriminate|].
  destruct (parse_u64 x); [|discriminate].
  destruct (parse_ranges t n) as [[rs r']|] eqn:E; [|discriminate].
  destruct (compact rs); [|discriminate]. inversion H; subst. apply parse_ranges_len in E. cbn [length]. lia.
Qed.

Lemma parse_mig_meta_len : forall t m r, parse_mig_meta t = Ok (m, r) -> (length r < length t)%nat.
Proof.
  intros t m r H. unfold parse_mig_meta in H.
  destruct t as [|e [|a [|b [|c [|d r']]]]]; try discriminate.
  destruct (parse_u64 e); [|discriminate]. inversion H; subst. cbn [length]. lia.
Qed.

Lemma parse_tagged_len : forall mk t sr r, parse_tagged mk t = Ok (sr, r) -> (length r < length t)%nat.
Proof.
  intros mk t sr r H. unfold parse_tagged in H.
  destruct (parse_range_list t) as [[rl r1]|e|] eqn:E1; try discriminate.
  destruct (parse_mig_meta r1) as [[m r2]|e|] eqn:E2; try discriminate.
  inversion H; subst. apply parse_range_list_len in E1. apply parse_mig_meta_len in E2. lia.
Qed.

Lemma parse_sr_len : forall t sr r, parse_sr t = Ok (sr, r) -> (length r < length t)%nat.
Proof.
  intros t sr r H. unfold parse_sr in H. destruct t as [|x t]; [discriminate|].
  destruct (bytes_eqb (to_upper x) kw_MIGRATING); [apply parse_tagged_len in H; cbn [length]; lia|].
  destruct (bytes_eqb (to_upper x) kw_IMPORTING); [apply parse_tagged_len in H; cbn [length]; lia|].
  destruct (parse_range_list (x :: t)) as [[rl r1]|e|] eqn:E1; try discriminate.
  inversion H; subst. apply parse_range_list_len in E1. exact E1.
Qed.

(* ---------- NodeMap::parse: fuel above the token count is irrelevant, EFuel is unreachable ---------- *)
Lemma parse_nodes_fuel : forall f1 toks acc f2, (length toks < f1)%nat -> (length toks < f2)%nat ->
  parse_nodes f1 toks acc = parse_nodes f2 toks acc.
Proof.
  induction f1 as [|f1 IH]; intros toks acc f2 H1 H2; [lia|].
  destruct f2 as [|f2]; [lia|]. cbn [parse_nodes].
  destruct toks as [|a r]; [reflexivity|].
  destruct (is_section_kw a); [reflexivity|].
  destruct (parse_sr r) as [[sr r']|e|] eqn:E; try reflexivity.
  apply parse_sr_len in E. cbn [length] in H1, H2. apply IH; lia.
Qed.

Definition PN (toks : list tok) (acc : nodemap) : res (nodemap * list tok) := parse_nodes (S (length toks)) toks acc.

Lemma parse_nodemap_PN : forall toks, parse_nodemap toks = PN toks [].
Proof. reflexivity. Qed.

Lemma PN_nil : forall acc, PN [] acc = Ok (acc, []).
Proof. reflexivity. Qed.

Lemma PN_kw : forall a r acc, is_section_kw a = true -> PN (a :: r) acc = Ok (acc, a :: r).
Proof. intros a r acc H. unfold PN. cbn [parse_nodes]. rewrite H. reflexivity. Qed.

Lemma parse_nodes_S : forall f a r acc, parse_nodes (S f) (a :: r) acc =
  if is_section_kw a then Ok (acc, a :: r)
  else match parse_sr r with
       | Ok (sr, r') => parse_nodes f r' (nm_push a sr acc)
       | Err _ => Err EInvalidArgs
       | Panic => Panic
       end.
Proof. reflexivity. Qed.

Lemma PN_step : forall a r acc, is_section_kw a = false ->
  PN (a :: r) acc = match parse_sr r with
                    | Ok (sr, r') => PN r' (nm_push a sr acc)
                    | Err _ => Err EInvalidArgs
                    | Panic => Panic
                    end.
Proof.
  intros a r acc H. unfold PN. rewrite parse_nodes_S, H.
  destruct (parse_sr r) as [[sr r']|e|] eqn:E; try reflexivity.
  apply parse_sr_len in E. apply parse_nodes_fuel; cbn [length]; lia.
Qed.

Lemma PN_len : forall n toks acc nm r, (length toks <= n)%nat -> PN toks acc = Ok (nm, r) -> (length r <= length toks)%nat.
Proof.
  induction n as [|n IH]; intros toks acc nm r Hn H.
  - destruct toks; [|cbn in Hn; lia]. rewrite PN_nil in H. inversion H; subst. lia.
  - destruct toks as [|a t]; [rewrite PN_nil in H; inversion H; subst; lia|].
    destruct (is_section_kw a) eqn:Ea.
    + rewrite (PN_kw a t acc Ea) in H. inversion H; subst. lia.
    + rewrite (PN_step a t acc Ea) in H. destruct (parse_sr t) as [[sr r']|e|] eqn:E; try discriminate.
      apply parse_sr_len in E. apply IH in H; [|cbn [length] in Hn; lia]. cbn [length]. lia.
Qed.

Lemma parse_nodemap_len : forall toks nm r, parse_nodemap toks = Ok (nm, r) -> (length r <= length toks)%nat.
Proof. intros toks nm r H. rewrite parse_nodemap_PN in H. apply (PN_len (length toks) toks [] nm r); [lia|exact H]. Qed.

(* the iterator NodeMap::parse hands back is empty or starts with PEER / CONFIG *)
Lemma PN_rest : forall n toks acc nm r, (length toks <= n)%nat -> PN toks acc = Ok (nm, r) ->
  r = [] \/ exists a r', r = a :: r' /\ is_section_kw a = true.
Proof.
  induction n as [|n IH]; intros toks acc nm r Hn H.
  - destruct toks; [|cbn in Hn; lia]. rewrite PN_nil in H. inversion H; subst. left. reflexivity.
  - destruct toks as [|a t]; [rewrite PN_nil in H; inversion H; subst; left; reflexivity|].
    destruct (is_section_kw a) eqn:Ea.
    + rewrite (PN_kw a t acc Ea) in H. inversion H; subst. right. eauto.
    + rewrite (PN_step a t acc Ea) in H. destruct (parse_sr t) as [[sr r']|e|] eqn:E; try discriminate.
      apply parse_sr_len in E. eapply IH; [|exact H]. cbn [length] in Hn. lia.
Qed.

(* ---------- node groups ---------- *)
Definition groups_of (nm : nodemap) : list (tok * slot_range) :=
  flat_map (fun kv => map (fun sr => (fst kv, sr)) (snd kv)) nm.
Definition group_toks (g : tok * slot_range) : list tok := fst g :: sr_to_strings (snd g).
Definition groups_toks (gs : list (tok * slot_range)) : list tok := flat_map group_toks gs.
Definition push_groups (gs : list (tok * slot_range)) (acc : nodemap) : nodemap :=
  fold_left (fun m g => nm_push (fst g) (norm_sr (snd g)) m) gs acc.
Definition wf_group (g : tok * slot_range) : bool := negb (is_section_kw (fst g)) && wf_sr (snd g).

Lemma node_args_groups : forall kv, node_args kv = groups_toks (map (fun sr => (fst kv, sr)) (snd kv)).
Proof.
  intros [a srs]. unfold node_args, groups_toks. cbn [fst snd].
  induction srs as [|sr srs IH]; cbn [flat_map map]; [reflexivity|]. rewrite IH. reflexivity.
Qed.

Lemma groups_toks_app : forall a b, groups_toks (a ++ b) = groups_toks a ++ groups_toks b.
Proof. intros a b. unfold groups_toks. apply flat_map_app. Qed.

Lemma nm_to_args_groups : forall nm, nm_to_args nm = groups_toks (groups_of nm).
Proof.
  induction nm as [|kv nm IH]; [reflexivity|].
  unfold nm_to_args, groups_of in *. cbn [flat_map]. rewrite groups_toks_app, IH, node_args_groups. reflexivity.
Qed.

Lemma PN_groups : forall gs rest acc, forallb wf_group gs = true ->
  PN (groups_toks gs ++ rest) acc = PN rest (push_groups gs acc).
Proof.
  induction gs as [|[a sr] gs IH]; intros rest acc H; [reflexivity|].
  cbn [forallb] in H. apply andb_true_iff in H. destruct H as [Hg Hgs].
  unfold wf_group in Hg. cbn [fst snd] in Hg. apply andb_true_iff in Hg. destruct Hg as [Ha Hsr]. apply negb_true_iff in Ha.
  unfold groups_toks. cbn [flat_map]. unfold group_toks at 1. cbn [fst snd app].
  rewrite PN_step by exact Ha. rewrite <- app_assoc. rewrite (parse_sr_roundtrip sr _ Hsr).
  fold (groups_toks gs). rewrite (IH rest _ Hgs). reflexivity.
Qed.

(* ---------- pushing groups = the map without its empty nodes, range lists normalised ---------- *)
Definition keys (nm : nodemap) : list tok := map fst nm.
Definition has_key (a : tok) (nm : nodemap) : bool := existsb (bytes_eqb a) (keys nm).

Lemma nm_push_fresh : forall a sr acc, has_key a acc = false -> nm_push a sr acc = acc ++ [(a, [sr])].
Proof.
  intros a sr acc. induction acc as [|[k v] acc IH]; intros H; [reflexivity|].
  unfold has_key, keys in *. cbn [map existsb fst] in H. apply orb_false_iff in H. destruct H as [H1 H2].
  cbn [nm_push app]. rewrite beqb_sym, H1. rewrite (IH H2). reflexivity.
Qed.

Lemma nm_push_last : forall a sr acc l, has_key a acc = false -> nm_push a sr (acc ++ [(a, l)]) = acc ++ [(a, l ++ [sr])].
Proof.
  intros a sr acc l. induction acc as [|[k v] acc IH]; intros H.
  - cbn [app nm_push]. rewrite beqb_refl. reflexivity.
  - unfold has_key, keys in *. cbn [map existsb fst] in H. apply orb_false_iff in H. destruct H as [H1 H2].
    cbn [nm_push app]. rewrite beqb_sym, H1. rewrite (IH H2). reflexivity.
Qed.

Lemma push_node_groups : forall a srs acc, has_key a acc = false ->
  push_groups (map (fun sr => (a, sr)) srs) acc = if is_nil srs then acc else acc ++ [(a, map norm_sr srs)].
Proof.
  intros a srs acc H. destruct srs as [|sr srs]; [reflexivity|].
  unfold push_groups. cbn [map fold_left fst snd is_nil]. rewrite (nm_push_fresh a _ acc H).
  assert (G : forall l done, fold_left (fun m g => nm_push (fst g) (norm_sr (snd g)) m) (map (fun sr => (a, sr)) l) (acc ++ [(a, done)])
                             = acc ++ [(a, done ++ map norm_sr l)]).
  { induction l as [|x l IH]; intros done; cbn [map fold_left fst snd].
    - rewrite app_nil_r. reflexivity.
    - rewrite (nm_push_last a _ acc done H). rewrite IH. rewrite <- app_assoc. reflexivity. }
  rewrite (G srs [norm_sr sr]). reflexivity.
Qed.

Lemma push_groups_app : forall a b acc, push_groups (a ++ b) acc = push_groups b (push_groups a acc).
Proof. intros a b acc. unfold push_groups. apply fold_left_app. Qed.

Lemma has_key_app : forall a x y, has_key a (x ++ y) = has_key a x || has_key a y.
Proof. intros a x y. unfold has_key, keys. rewrite map_app, existsb_app. reflexivity. Qed.

Lemma push_groups_of : forall nm acc,
  nodup_keys (keys nm) = true -> (forall k, has_key k nm = true -> has_key k acc = false) ->
  push_groups (groups_of nm) acc = acc ++ drop_empty (norm_nm nm).
Proof.
  induction nm as [|[a srs] nm IH]; intros acc Hnd Hdis.
  - cbn. rewrite app_nil_r. reflexivity.
  - unfold groups_of. cbn [flat_map fst snd]. fold (groups_of nm). rewrite push_groups_app.
    unfold keys in Hnd. cbn [map fst nodup_keys] in Hnd. apply andb_true_iff in Hnd. destruct Hnd as [Hna Hnd].
    apply negb_true_iff in Hna.
    assert (Ha : has_key a acc = false).
    { apply Hdis. unfold has_key, keys. cbn [map fst existsb]. rewrite beqb_refl. reflexivity. }
    rewrite (push_node_groups a srs acc Ha).
    unfold norm_nm, drop_empty. cbn [map filter fst snd]. fold (norm_nm nm). fold (drop_empty (norm_nm nm)).
    destruct srs as [|sr srs]; cbn [is_nil map negb].
    + apply IH; [exact Hnd|]. intros k Hk. apply Hdis. unfold has_key, keys in *. cbn [map fst existsb]. rewrite Hk. apply orb_true_r.
    + rewrite IH; [rewrite <- app_assoc; reflexivity|exact Hnd|].
      intros k Hk. rewrite has_key_app. apply orb_false_iff. split.
      * apply Hdis. unfold has_key, keys in *. cbn [map fst existsb]. rewrite Hk. apply orb_true_r.
      * unfold has_key, keys. cbn [map fst existsb]. rewrite orb_false_r.
        destruct (bytes_eqb k a) eqn:E; [|reflexivity]. apply beqb_eq in E. subst k.
        unfold has_key, keys in Hk. congruence.
Qed.

Lemma wf_node_groups : forall a srs, negb (is_section_kw a) = true -> forallb wf_sr srs = true ->
  forallb wf_group (map (fun sr => (a, sr)) srs) = true.
Proof.
  intros a srs Ha. induction srs as [|sr srs IH]; intros Hs; [reflexivity|].
  cbn [forallb map] in *. apply andb_true_iff in Hs. destruct Hs as [Hs1 Hs2].
  unfold wf_group at 1. cbn [fst snd]. rewrite Ha, Hs1. cbn [andb]. apply IH. exact Hs2.
Qed.

Lemma wf_nm_groups : forall nm, wf_nm nm = true -> forallb wf_group (groups_of nm) = true /\ nodup_keys (keys nm) = true.
Proof.
  intros nm H. unfold wf_nm in H. apply andb_true_iff in H. destruct H as [H Hnd]. split; [|exact Hnd].
  induction nm as [|[a srs] nm IH]; [reflexivity|].
  cbn [forallb fst snd] in H. apply andb_true_iff in H. destruct H as [Hh Ht]. apply andb_true_iff in Hh. destruct Hh as [Ha Hs].
  unfold groups_of. cbn [flat_map fst snd]. rewrite forallb_app. fold (groups_of nm).
  rewrite (wf_node_groups a srs Ha Hs). cbn [andb]. apply IH; [exact Ht|].
  unfold keys in *. cbn [map fst nodup_keys] in Hnd. apply andb_true_iff in Hnd. tauto.
Qed.

(* NodeMap round trip with a continuation that NodeMap::parse stops at *)
Definition stops (rest : list tok) : Prop := rest = [] \/ exists a r, rest = a :: r /\ is_section_kw a = true.

Lemma PN_stop : forall rest acc, stops rest -> PN rest acc = Ok (acc, rest).
Proof. intros rest acc [->|(a & r & -> & H)]; [apply PN_nil|apply PN_kw; exact H]. Qed.

Lemma nodemap_roundtrip : forall nm rest, wf_nm nm = true -> stops rest ->
  parse_nodemap (nm_to_args nm ++ rest) = Ok (drop_empty (norm_nm nm), rest).
Proof.
  intros nm rest H Hs. destruct (wf_nm_groups nm H) as [Hg Hnd].
  rewrite parse_nodemap_PN, nm_to_args_groups, (PN_groups _ rest [] Hg), (PN_stop rest _ Hs).
  rewrite (push_groups_of nm [] Hnd) by reflexivity. reflexivity.
Qed.

Lemma nm_args_nil_drop : forall nm, nm_to_args nm = [] -> drop_empty (norm_nm nm) = [].
Proof.
  induction nm as [|[a srs] nm IH]; intros H; [reflexivity|].
  unfold nm_to_args in H. cbn [flat_map] in H. apply app_eq_nil in H. destruct H as [H1 H2].
  destruct srs as [|sr srs]; [|discriminate]. unfold norm_nm, drop_empty. cbn [map filter fst snd is_nil negb].
  apply IH. exact H2.
Qed.

Lemma drop_empty_id : forall nm, nm_has_empty nm = false -> drop_empty (norm_nm nm) = norm_nm nm.
Proof.
  induction nm as [|[a srs] nm IH]; intros H; [reflexivity|].
  cbn [nm_has_empty existsb snd] in H. apply orb_false_iff in H. destruct H as [H1 H2].
  unfold norm_nm, drop_empty. cbn [map filter fst snd]. destruct srs; [discriminate|]. cbn [map is_nil negb].
  f_equal. apply IH. exact H2.
Qed.

(* ---------- ClusterConfig ---------- *)
Definition copy_field (src : config) (f : cfield) (c : config) : config :=
  match f with
  | FStrategy => MkCfg (c_strategy src) (c_max_migration_time c) (c_max_blocking_time c) (c_scan_interval c) (c_scan_count c)
  | FMaxMigration => MkCfg (c_strategy c) (c_max_migration_time src) (c_max_blocking_time c) (c_scan_interval c) (c_scan_count c)
  | FMaxBlocking => MkCfg (c_strategy c) (c_max_migration_time c) (c_max_blocking_time src) (c_scan_interval c) (c_scan_count c)
  | FScanInterval => MkCfg (c_strategy c) (c_max_migration_time c) (c_max_blocking_time c) (c_scan_interval src) (c_scan_count c)
  | FScanCount => MkCfg (c_strategy c) (c_max_migration_time c) (c_max_blocking_time c) (c_scan_interval c) (c_scan_count src)
  end.

Lemma sf_strategy : forall c v, set_field c kw_compression_strategy v =
  match strategy_from_str v with
  | Some s => Some (MkCfg s (c_max_migration_time c) (c_max_blocking_time c) (c_scan_interval c) (c_scan_count c))
  | None => None
  end.
Proof. reflexivity. Qed.
Lemma sf_mmt : forall c v, set_field c (kw_migration_ ++ kw_max_migration_time) v =
  match parse_u64 v with
  | Some x => Some (MkCfg (c_strategy c) x (c_max_blocking_time c) (c_scan_interval c) (c_scan_count c))
  | None => None
  end.
Proof. reflexivity. Qed.
Lemma sf_mbt : forall c v, set_field c (kw_migration_ ++ kw_max_blocking_time) v =
  match parse_u64 v with
  | Some x => Some (MkCfg (c_strategy c) (c_max_migration_time c) x (c_scan_interval c) (c_scan_count c))
  | None => None
  end.
Proof. reflexivity. Qed.
Lemma sf_si : forall c v, set_field c (kw_migration_ ++ kw_scan_interval) v =
  match parse_u64 v with
  | Some x => Some (MkCfg (c_strategy c) (c_max_migration_time c) (c_max_blocking_time c) x (c_scan_count c))
  | None => None
  end.
Proof. reflexivity. Qed.
Lemma sf_sc : forall c v, set_field c (kw_migration_ ++ kw_scan_count) v =
  match parse_u64 v with
  | Some x => if x =? 0 then None
              else Some (MkCfg (c_strategy c) (c_max_migration_time c) (c_max_blocking_time c) (c_scan_interval c) x)
  | None => None
  end.
Proof. reflexivity. Qed.

Lemma set_field_roundtrip : forall src c f, wf_config src = true ->
  set_field c (field_name f) (field_value src f) = Some (copy_field src f c).
Proof.
  intros src c f H. unfold wf_config in H.
  apply andb_true_iff in H. destruct H as [H H5]. apply andb_true_iff in H. destruct H as [H H4].
  apply andb_true_iff in H. destruct H as [H H3]. apply andb_true_iff in H. destruct H as [H1 H2].
  apply N.leb_le in H1, H2, H3, H4. apply negb_true_iff in H5.
  destruct f; unfold field_name, field_value, copy_field.
  - rewrite sf_strategy. destruct (c_strategy src); reflexivity.
  - rewrite sf_mmt, parse_u64_to_dec by assumption. reflexivity.
  - rewrite sf_mbt, parse_u64_to_dec by assumption. reflexivity.
  - rewrite sf_si, parse_u64_to_dec by assumption. reflexivity.
  - rewrite sf_sc, parse_u64_to_dec by assumption. rewrite H5. reflexivity.
Qed.

Lemma field_name_not_kw : forall f, is_section_kw (field_name f) = false.
Proof. intros []; reflexivity. Qed.

Definition apply_fields (src : config) (ord : list cfield) (c : config) : config :=
  fold_left (fun c f => copy_field src f c) ord c.

Lemma parse_config_roundtrip : forall src ord c rest, wf_config src = true -> stops rest ->
  parse_config (config_to_args ord src ++ rest) c = (Some (apply_fields src ord c), rest).
Proof.
  intros src ord. induction ord as [|f ord IH]; intros c rest Hw Hs.
  - cbn [config_to_args flat_map app apply_fields fold_left].
    destruct Hs as [->|(a & r & -> & Ha)]; cbn [parse_config]; [reflexivity|]. rewrite Ha. reflexivity.
  - unfold config_to_args. cbn [flat_map app parse_config]. rewrite field_name_not_kw.
    rewrite (set_field_roundtrip src c f Hw). fold (config_to_args ord src).
    rewrite (IH _ rest Hw Hs). reflexivity.
Qed.

Ltac af_tac src ord :=
  induction ord as [|g ord IH]; intros c Hin; [destruct Hin|];
  cbn [apply_fields fold_left]; fold (apply_fields src ord (copy_field src g c));
  destruct Hin as [->|Hin]; [|apply IH; exact Hin].

Lemma apply_fields_keeps : forall src ord c,
  (c_strategy c = c_strategy src -> c_strategy (apply_fields src ord c) = c_strategy src) /\
  (c_max_migration_time c = c_max_migration_time src -> c_max_migration_time (apply_fields src ord c) = c_max_migration_time src) /\
  (c_max_blocking_time c = c_max_blocking_time src -> c_max_blocking_time (apply_fields src ord c) = c_max_blocking_time src) /\
  (c_scan_interval c = c_scan_interval src -> c_scan_interval (apply_fields src ord c) = c_scan_interval src) /\
  (c_scan_count c = c_scan_count src -> c_scan_count (apply_fields src ord c) = c_scan_count src).
Proof.
  intros src ord. induction ord as [|g ord IH]; intros c; [cbn; tauto|].
  cbn [apply_fields fold_left]. fold (apply_fields src ord (copy_field src g c)).
  destruct (IH (copy_field src g c)) as (I1 & I2 & I3 & I4 & I5).
  repeat split; intros H; [apply I1|apply I2|apply I3|apply I4|apply I5]; destruct g; cbn; auto.
Qed.

Lemma apply_fields_sets : forall src ord c f, In f ord ->
  match f with
  | FStrategy => c_strategy (apply_fields src ord c) = c_strategy src
  | FMaxMigration => c_max_migration_time (apply_fields src ord c) = c_max_migration_time src
  | FMaxBlocking => c_max_blocking_time (apply_fields src ord c) = c_max_blocking_time src
  | FScanInterval => c_scan_interval (apply_fields src ord c) = c_scan_interval src
  | FScanCount => c_scan_count (apply_fields src ord c) = c_scan_count src
  end.
Proof.
  intros src ord. induction ord as [|g ord IH]; intros c f Hin; [destruct Hin|].
  cbn [apply_fields fold_left]. fold (apply_fields src ord (copy_field src g c)).
  destruct Hin as [->|Hin]; [|apply IH; exact Hin].
  destruct (apply_fields_keeps src ord (copy_field src f c)) as (I1 & I2 & I3 & I4 & I5).
  destruct f; [apply I1|apply I2|apply I3|apply I4|apply I5]; reflexivity.
Qed.

Lemma apply_fields_all : forall src ord c, (forall f, In f ord) -> apply_fields src ord c = src.
Proof.
  intros src ord c H.
  pose proof (apply_fields_sets src ord c FStrategy (H _)) as H1.
  pose proof (apply_fields_sets src ord c FMaxMigration (H _)) as H2.
  pose proof (apply_fields_sets src ord c FMaxBlocking (H _)) as H3.
  pose proof (apply_fields_sets src ord c FScanInterval (H _)) as H4.
  pose proof (apply_fields_sets src ord c FScanCount (H _)) as H5.
  cbn beta iota in *. destruct (apply_fields src ord c), src. cbn in *. congruence.
Qed.

(* ---------- the PEER / CONFIG loop ---------- *)
Lemma parse_config_len_n : forall n toks c o r, (length toks <= n)%nat -> parse_config toks c = (o, r) -> (length r <= length toks)%nat.
Proof.
  induction n as [|n IH]; intros toks c o r Hn H; destruct toks as [|f t]; cbn [parse_config] in H.
  - inversion H; subst. lia.
  - cbn [length] in Hn. lia.
  - inversion H; subst. lia.
  - destruct (is_section_kw f).
    + inversion H; subst. lia.
    + destruct t as [|v t'].
      * inversion H; subst. cbn. lia.
      * cbn [length] in Hn. destruct (set_field c f v).
        -- apply IH in H; [|lia]. cbn [length]. lia.
        -- inversion H; subst. cbn [length]. lia.
Qed.

Lemma parse_config_len : forall toks c o r, parse_config toks c = (o, r) -> (length r <= length toks)%nat.
Proof. intros toks c o r H. apply (parse_config_len_n (length toks) toks c o r); [lia|exact H]. Qed.

Lemma pcm_loop_fuel : forall f1 toks local peer cfg ext f2, (length toks < f1)%nat -> (length toks < f2)%nat ->
  pcm_loop f1 toks local peer cfg ext = pcm_loop f2 toks local peer cfg ext.
Proof.
  induction f1 as [|f1 IH]; intros toks local peer cfg ext f2 H1 H2; [lia|].
  destruct f2 as [|f2]; [lia|]. cbn [pcm_loop].
  destruct toks as [|t r]; [reflexivity|]. cbn [length] in H1, H2.
  destruct (bytes_eqb (to_upper t) kw_PEER).
  - destruct (parse_nodemap r) as [[nm r']|e|] eqn:E; try reflexivity.
    apply parse_nodemap_len in E. apply IH; lia.
  - destruct (bytes_eqb (to_upper t) kw_CONFIG); [|reflexivity].
    destruct (parse_config r default_config) as [[c|] r'] eqn:E; apply parse_config_len in E.
    + apply IH; lia.
    + destruct (is_nil local || is_nil peer); [reflexivity|]. apply IH; lia.
Qed.

Definition PL (toks : list tok) (local peer : nodemap) (cfg : config) (ext : bool) :=
  pcm_loop (S (length toks)) toks local peer cfg ext.

Lemma pcm_loop_S : forall f t r local peer cfg ext, pcm_loop (S f) (t :: r) local peer cfg ext =
  if bytes_eqb (to_upper t) kw_PEER then
    match parse_nodemap r with
    | Ok (nm, r') => pcm_loop f r' local nm cfg ext
    | Err e => Err e
    | Panic => Panic
    end
  else if bytes_eqb (to_upper t) kw_CONFIG then
    match parse_config r default_config with
    | (Some c, r') => pcm_loop f r' local peer c ext
    | (None, r') => if is_nil local || is_nil peer then Err EInvalidArgs else pcm_loop f r' local peer cfg false
    end
  else Err EInvalidArgs.
Proof. reflexivity. Qed.

Lemma PL_nil : forall local peer cfg ext, PL [] local peer cfg ext = Ok (peer, cfg, ext).
Proof. reflexivity. Qed.

Lemma PL_peer : forall r local peer cfg ext,
  PL (kw_PEER :: r) local peer cfg ext =
  match parse_nodemap r with
  | Ok (nm, r') => PL r' local nm cfg ext
  | Err e => Err e
  | Panic => Panic
  end.
Proof.
  intros. unfold PL. rewrite pcm_loop_S. replace (bytes_eqb (to_upper kw_PEER) kw_PEER) with true by reflexivity.
  destruct (parse_nodemap r) as [[nm r']|e|] eqn:E; try reflexivity.
  apply parse_nodemap_len in E. apply pcm_loop_fuel; cbn [length]; lia.
Qed.

Lemma PL_config : forall r local peer cfg ext,
  PL (kw_CONFIG :: r) local peer cfg ext =
  match parse_config r default_config with
  | (Some c, r') => PL r' local peer c ext
  | (None, r') => if is_nil local || is_nil peer then Err EInvalidArgs else PL r' local peer cfg false
  end.
Proof.
  intros. unfold PL. rewrite pcm_loop_S. replace (bytes_eqb (to_upper kw_CONFIG) kw_PEER) with false by reflexivity.
  replace (bytes_eqb (to_upper kw_CONFIG) kw_CONFIG) with true by reflexivity.
  destruct (parse_config r default_config) as [[c|] r'] eqn:E; apply parse_config_len in E.
  - apply pcm_loop_fuel; cbn [length]; lia.
  - destruct (is_nil local || is_nil peer); [reflexivity|]. apply pcm_loop_fuel; cbn [length]; lia.
Qed.

(* ---------- ProxyClusterMeta ---------- *)
Lemma flags_roundtrip : forall fl, flags_from_arg (flags_to_arg fl) = fl.
Proof. intros [[|] [|]]; reflexivity. Qed.

Lemma stops_kw_PEER : forall r, stops (kw_PEER :: r).
Proof. intros r. right. exists kw_PEER, r. split; reflexivity. Qed.
Lemma stops_kw_CONFIG : forall r, stops (kw_CONFIG :: r).
Proof. intros r. right. exists kw_CONFIG, r. split; reflexivity. Qed.

Definition config_part (ord : list cfield) (c : config) : list tok :=
  if is_nil (config_to_args ord c) then [] else kw_CONFIG :: config_to_args ord c.
Definition peer_part (nm : nodemap) : list tok :=
  if is_nil (nm_to_args nm) then [] else kw_PEER :: nm_to_args nm.

Lemma stops_config_part : forall ord c, stops (config_part ord c).
Proof. intros. unfold config_part. destruct (is_nil _); [left; reflexivity|apply stops_kw_CONFIG]. Qed.

Lemma stops_peer_config : forall nm ord c, stops (peer_part nm ++ config_part ord c).
Proof.
  intros. unfold peer_part. destruct (is_nil _); [apply stops_config_part|apply stops_kw_PEER].
Qed.

Lemma PL_config_part : forall ord c local peer ext, wf_config c = true ->
  PL (config_part ord c) local peer default_config ext = Ok (peer, apply_fields c ord default_config, ext).
Proof.
  intros ord c local peer ext Hw. unfold config_part.
  destruct (is_nil (config_to_args ord c)) eqn:E.
  - destruct ord as [|f ord]; [reflexivity|discriminate].
  - rewrite PL_config.
    pose proof (parse_config_roundtrip c ord default_config [] Hw (or_introl eq_refl)) as R. rewrite app_nil_r in R.
    rewrite R. apply PL_nil.
Qed.

Lemma PL_peer_config : forall ord c local peer, wf_config c = true -> wf_nm peer = true ->
  PL (peer_part peer ++ config_part ord c) local [] default_config true
  = Ok (drop_empty (norm_nm peer), apply_fields c ord default_config, true).
Proof.
  intros ord c local peer Hc Hp. unfold peer_part. destruct (is_nil (nm_to_args peer)) eqn:E.
  - cbn [app]. rewrite (PL_config_part ord c local [] true Hc).
    destruct (nm_to_args peer) eqn:E2; [|discriminate]. rewrite (nm_args_nil_drop peer E2). reflexivity.
  - cbn [app]. rewrite PL_peer. rewrite (nodemap_roundtrip peer _ Hp (stops_config_part ord c)).
    apply PL_config_part. exact Hc.
Qed.

Lemma pcm_to_args_parts : forall ord m,
  pcm_to_args ord m = [kw_v2; to_dec (p_epoch m); flags_to_arg (p_flags m); p_name m]
                      ++ nm_to_args (p_local m) ++ peer_part (p_peer m) ++ config_part ord (p_config m).
Proof. reflexivity. Qed.

Lemma parse_pcm_plain_step : forall unpack epoch fl name r3,
  epoch <= u64_max -> f_compress fl = false -> valid_cluster_name name = true ->
  parse_pcm unpack (kw_v2 :: to_dec epoch :: flags_to_arg fl :: name :: r3) =
  match parse_nodemap r3 with
  | Err e => Err e
  | Panic => Panic
  | Ok (local, r4) =>
    match PL r4 local [] default_config true with
    | Err e => Err e
    | Panic => Panic
    | Ok (peer, cfg, ext) => Ok (MkPcm epoch fl name local peer cfg, ext)
    end
  end.
Proof.
  intros unpack epoch fl name r3 He Hf Hn. unfold parse_pcm.
  replace (negb (bytes_eqb kw_v2 kw_v2)) with false by reflexivity.
  rewrite (parse_u64_to_dec epoch He). rewrite flags_roundtrip, Hf, Hn. reflexivity.
Qed.

Theorem pcm_plain_roundtrip : forall unpack ord m, wf_pcm m = true -> (forall f, In f ord) ->
  parse_pcm unpack (pcm_to_args ord m) = Ok (drop_empty_nodes (normalize m), true).
Proof.
  intros unpack ord [epoch fl name local peer cfg] H Hord.
  unfold wf_pcm, wf_pcm_common in H. cbn [p_epoch p_flags p_name p_local p_peer p_config] in H.
  apply andb_true_iff in H. destruct H as [H Hfl]. apply negb_true_iff in Hfl.
  repeat (apply andb_true_iff in H; destruct H as [H ?]). apply N.leb_le in H.
  rewrite pcm_to_args_parts. cbn [p_epoch p_flags p_name p_local p_peer p_config app].
  rewrite (parse_pcm_plain_step unpack epoch fl name _ H Hfl H3).
  rewrite (nodemap_roundtrip local _ H2 (stops_peer_config peer ord cfg)).
  rewrite (PL_peer_config ord cfg _ peer H0 H1). rewrite (apply_fields_all cfg ord _ Hord). reflexivity.
Qed.

Theorem pcm_plain_roundtrip_exact : forall unpack ord m, wf_pcm m = true -> (forall f, In f ord) ->
  has_empty_node m = false -> parse_pcm unpack (pcm_to_args ord m) = Ok (normalize m, true).
Proof.
  intros unpack ord m H Hord He. rewrite (pcm_plain_roundtrip unpack ord m H Hord).
  unfold has_empty_node in He. apply orb_false_iff in He. destruct He as [H1 H2].
  unfold drop_empty_nodes, normalize. cbn [p_epoch p_flags p_name p_local p_peer p_config].
  rewrite (drop_empty_id _ H1), (drop_empty_id _ H2). reflexivity.
Qed.

(* a value whose range lists are all as RangeList::new leaves them is its own normal form *)
Definition sr_compact (sr : slot_range) : bool := is_compact (sr_ranges sr).
Definition nm_compact (nm : nodemap) : bool := forallb (fun kv => forallb sr_compact (snd kv)) nm.
Definition pcm_compact (m : pcm) : bool := nm_compact (p_local m) && nm_compact (p_peer m).

Lemma norm_nm_id : forall nm, wf_nm nm = true -> nm_compact nm = true -> norm_nm nm = nm.
Proof.
  intros nm Hw Hc. unfold wf_nm in Hw. apply andb_true_iff in Hw. destruct Hw as [Hw _].
  induction nm as [|[a srs] nm IH]; [reflexivity|].
  cbn [forallb fst snd] in Hw. apply andb_true_iff in Hw. destruct Hw as [Hh Ht]. apply andb_true_iff in Hh. destruct Hh as [_ Hs].
  cbn [nm_compact forallb snd] in Hc. apply andb_true_iff in Hc. destruct Hc as [Hc1 Hc2].
  unfold norm_nm. cbn [map fst snd]. fold (norm_nm nm). rewrite (IH Ht Hc2). f_equal. f_equal.
  clear IH Ht Hc2. induction srs as [|[rl tg] srs IH]; [reflexivity|].
  cbn [forallb map] in *. apply andb_true_iff in Hs. destruct Hs as [Hs1 Hs2]. apply andb_true_iff in Hc1. destruct Hc1 as [Hk1 Hk2].
  rewrite (IH Hs2 Hk2). f_equal. unfold norm_sr. cbn [sr_ranges sr_tag].
  unfold wf_sr in Hs1. cbn [sr_ranges] in Hs1. apply andb_true_iff in Hs1. destruct Hs1 as [Hr _].
  unfold sr_compact in Hk1. cbn [sr_ranges] in Hk1. rewrite (norm_rl_id rl Hr Hk1). reflexivity.
Qed.

Lemma normalize_id : forall m, wf_pcm m = true -> pcm_compact m = true -> normalize m = m.
Proof.
  intros [epoch fl name local peer cfg] H Hc.
  unfold wf_pcm, wf_pcm_common in H. cbn [p_epoch p_flags p_name p_local p_peer p_config] in H.
  apply andb_true_iff in H. destruct H as [H _]. repeat (apply andb_true_iff in H; destruct H as [H ?]).
  unfold pcm_compact in Hc. cbn [p_local p_peer] in Hc. apply andb_true_iff in Hc. destruct Hc as [Hc1 Hc2].
  unfold normalize. cbn [p_epoch p_flags p_name p_local p_peer p_config].
  rewrite (norm_nm_id local H2 Hc1), (norm_nm_id peer H1 Hc2). reflexivity.
Qed.

(* ---------- compressed form, under the hypothesis standing for serde_json + gzip + base64 ---------- *)
Section Compressed.
  Variable pack : pcm_data -> tok.
  Variable unpack : tok -> option pcm_data.
  Hypothesis pack_roundtrip : forall d, unpack (pack d) = Some d.

  Theorem pcm_compressed_roundtrip : forall m rest, wf_pcm_z m = true ->
    parse_pcm unpack (pcm_to_compressed_args pack m ++ rest) = Ok (m, true).
  Proof.
    intros [epoch fl name local peer cfg] rest H. unfold wf_pcm_z in H. cbn [p_epoch p_flags] in H.
    apply andb_true_iff in H. destruct H as [He Hf]. apply N.leb_le in He.
    unfold pcm_to_compressed_args, pcm_data_of, parse_pcm. cbn [p_epoch p_flags p_name p_local p_peer p_config app].
    replace (negb (bytes_eqb kw_v2 kw_v2)) with false by reflexivity.
    rewrite (parse_u64_to_dec epoch He). rewrite flags_roundtrip, Hf. rewrite pack_roundtrip. reflexivity.
  Qed.
End Compressed.
