(* Numbers of the remove phase of the scale-down planner (migrate.rs remove_slots_from_src_to_scale_down): a
   strengthened copy of the partial-correctness proof in BrokerPartMigrateDown.v which additionally tracks how many
   slots every destination master receives.  Result: on a quiescent balanced cluster every kept master's stable slots
   plus the slots of the pending migrations addressed to it equal its share among the 2k remaining masters. *)
From UM Require Import Base.BytesDef Model.Ranges Model.Broker Proofs.BrokerBase Proofs.BrokerPartRanges Proofs.BrokerPartDefs
  Proofs.BrokerPartMigrateBase Proofs.BrokerPartMigrateSum Proofs.BrokerPartMigrateDown
  Proofs.BrokerBalanceDefs Proofs.BrokerBalancePlanDefs Proofs.BrokerBalanceQuiet.
From Coq Require Import ZifyBool ZifyNat ZifyN Permutation.

Lemma slots_total_nil : slots_total [] = 0.
Proof. reflexivity. Qed.

(* the slots moved from the source's front range all land in the list collected for the current destination *)
Lemma take_front_cur (r : range) (tail cur : rangelist) anum remove_num num rl1 cur1 num1 :
  wf_range r -> num = snd r - fst r + 1 -> 1 <= remove_num ->
  (if N.leb num remove_num then (tail, cur ++ [r], anum + num)
   else ((fst r + remove_num, snd r) :: tail, cur ++ [(fst r, remove_num + fst r - 1)], anum + remove_num)) = (rl1, cur1, num1) ->
  slots_total cur1 + anum = slots_total cur + num1.
Proof.
  intros Hr Hnum Hrem Hstep. unfold wf_range in Hr.
  destruct (N.leb num remove_num) eqn:Eleb; inversion Hstep; subst rl1 cur1 num1; clear Hstep;
    rewrite slots_total_app, slots_total_cons; change (slots_total []) with 0; cbn [fst snd]; lia.
Qed.

Section DownNum.
Variables (epoch avg rem dmn : N) (ex : list N).

Local Notation dfinL := (dfin avg rem).
Local Notation sumFL := (sumF avg rem).
Local Notation sumEL := (sumE ex).
Local Notation phiL := (phi avg rem ex).
Local Notation numinvL := (numinv avg rem ex).
Local Notation preL := (pre dmn).

Definition exnum (d : N) : N := nth (N.to_nat d) ex 0.

(* per-destination bookkeeping: destinations before a_dst are complete, the current one has a_num collected
   (flushed migrations plus a_cur), later ones have nothing *)
Definition Gd (acc : macc) : Prop := forall d,
  msum d (a_migs acc) + (if N.eqb d (a_dst acc) then slots_total (a_cur acc) else 0) =
  (if N.ltb d (a_dst acc) then dfinL d - exnum d else if N.eqb d (a_dst acc) then a_num acc else 0).

Lemma nth_error_E a e : nth_error ex (N.to_nat a) = Some e -> exnum a = e.
Proof. intros H. unfold exnum. apply nth_error_nth. exact H. Qed.

Lemma Gd_skip acc e :
  Gd acc -> a_num acc = 0 -> a_cur acc = [] -> exnum (a_dst acc) = e -> dfinL (a_dst acc) <= e ->
  Gd (mkAcc (a_dst acc + 1) (a_cur acc) (a_num acc) (a_migs acc)).
Proof.
  intros HG Hz Hc He Hd d. specialize (HG d). cbn [a_dst a_cur a_num a_migs]. rewrite Hz, Hc, slots_total_nil in *.
  destruct (N.eqb d (a_dst acc)) eqn:E1.
  - assert (d = a_dst acc) by lia. subst d.
    destruct (N.ltb (a_dst acc) (a_dst acc)) eqn:E2; [lia|].
    destruct (N.eqb (a_dst acc) (a_dst acc + 1)) eqn:E3; [lia|].
    destruct (N.ltb (a_dst acc) (a_dst acc + 1)) eqn:E4; lia.
  - destruct (N.ltb d (a_dst acc)) eqn:E2; destruct (N.eqb d (a_dst acc + 1)) eqn:E3;
      destruct (N.ltb d (a_dst acc + 1)) eqn:E4; lia.
Qed.

Lemma Gd_flush_adv acc cur1 num1 meta rl e :
  Gd acc -> dst_master meta = a_dst acc -> slots_total rl = slots_total cur1 ->
  slots_total cur1 + a_num acc = slots_total (a_cur acc) + num1 ->
  exnum (a_dst acc) = e -> num1 + e = dfinL (a_dst acc) ->
  Gd (mkAcc (a_dst acc + 1) [] 0 ((rl, meta) :: a_migs acc)).
Proof.
  intros HG Hm Hrl Hst He Hd d. specialize (HG d). cbn [a_dst a_cur a_num a_migs].
  rewrite msum_cons, Hm, Hrl, slots_total_nil.
  destruct (N.eqb d (a_dst acc)) eqn:E1.
  - assert (d = a_dst acc) by lia. subst d.
    destruct (N.ltb (a_dst acc) (a_dst acc)) eqn:E2; [lia|].
    destruct (N.eqb (a_dst acc) (a_dst acc)) eqn:E5; [|lia].
    destruct (N.eqb (a_dst acc) (a_dst acc + 1)) eqn:E3; [lia|].
    destruct (N.ltb (a_dst acc) (a_dst acc + 1)) eqn:E4; lia.
  - destruct (N.eqb (a_dst acc) d) eqn:E5; [lia|].
    destruct (N.ltb d (a_dst acc)) eqn:E2; destruct (N.eqb d (a_dst acc + 1)) eqn:E3;
      destruct (N.ltb d (a_dst acc + 1)) eqn:E4; lia.
Qed.

Lemma Gd_flush_stay acc cur1 num1 meta rl :
  Gd acc -> dst_master meta = a_dst acc -> slots_total rl = slots_total cur1 ->
  slots_total cur1 + a_num acc = slots_total (a_cur acc) + num1 ->
  Gd (mkAcc (a_dst acc) [] num1 ((rl, meta) :: a_migs acc)).
Proof.
  intros HG Hm Hrl Hst d. specialize (HG d). cbn [a_dst a_cur a_num a_migs].
  rewrite msum_cons, Hm, Hrl, slots_total_nil.
  destruct (N.eqb d (a_dst acc)) eqn:E1.
  - assert (d = a_dst acc) by lia. subst d.
    destruct (N.eqb (a_dst acc) (a_dst acc)) eqn:E5; [|lia].
    destruct (N.ltb (a_dst acc) (a_dst acc)) eqn:E2; lia.
  - destruct (N.eqb (a_dst acc) d) eqn:E5; [lia|].
    destruct (N.ltb d (a_dst acc)) eqn:E2; lia.
Qed.

Lemma Gd_collect acc cur1 num1 :
  Gd acc -> slots_total cur1 + a_num acc = slots_total (a_cur acc) + num1 ->
  Gd (mkAcc (a_dst acc) cur1 num1 (a_migs acc)).
Proof.
  intros HG Hst d. specialize (HG d). cbn [a_dst a_cur a_num a_migs].
  destruct (N.eqb d (a_dst acc)) eqn:E1.
  - assert (d = a_dst acc) by lia. subst d.
    destruct (N.ltb (a_dst acc) (a_dst acc)) eqn:E2; lia.
  - destruct (N.ltb d (a_dst acc)) eqn:E2; lia.
Qed.

Definition new_dst_lt (old : list (rangelist * mig_meta)) (acc' : macc) : Prop :=
  forall l m, In (l, m) (a_migs acc') -> In (l, m) old \/ dst_master m < dmn.

Lemma scale_down_loop_num : forall fuel idx part rl acc rl' acc',
  scale_down_loop fuel epoch avg rem dmn ex idx part rl acc = Done (rl', acc') ->
  Forall wf_range rl -> Forall wf_range (a_cur acc) -> Forall wf_range (mig_ranges (a_migs acc)) ->
  migs_nonempty (a_migs acc) ->
  (forall s, (tot s rl acc <= 1)%nat) ->
  numinvL acc -> preL rl acc -> Gd acc -> a_dst acc <= dmn ->
  Forall wf_range rl' /\ Forall wf_range (mig_ranges (a_migs acc')) /\ migs_nonempty (a_migs acc') /\
  (forall s, tot s rl' acc' = tot s rl acc) /\ a_cur acc' = [] /\ numinvL acc' /\
  phiL acc' (slots_total rl') = phiL acc (slots_total rl) /\
  (a_dst acc' = dmn \/ slots_total rl' = 0) /\
  Gd acc' /\ a_dst acc' <= dmn /\ new_dst_lt (a_migs acc) acc'.
Proof.
  induction fuel as [|fuel IH]; intros idx part rl acc rl' acc' H Hwrl Hwcur Hwmig Hne Htot Hnum Hpre HG Hdle;
    cbn [scale_down_loop] in H; [discriminate|].
  destruct (N.eqb (a_dst acc) dmn) eqn:Ed.
  { (* all destinations served *)
    inversion H; subst rl' acc'. clear H.
    assert (Hcur : a_cur acc = []) by (destruct Hpre as [Hc|[Hc _]]; [exact Hc|lia]).
    msplit; auto. left. lia. intros l m Hin. left. exact Hin. }
  change (avg + b2n (N.ltb (a_dst acc) rem)) with (dfinL (a_dst acc)) in H.
  destruct (nth_error ex (N.to_nat (a_dst acc))) as [e|] eqn:Ee; [|discriminate].
  pose proof (nth_error_E _ _ Ee) as HEe.
  destruct (csub (dfinL (a_dst acc)) (a_num acc)) as [d1|] eqn:Ed1; [|discriminate].
  destruct (csub d1 e) as [need|] eqn:En; [|discriminate].
  apply csub_some in Ed1. destruct Ed1 as [Hd1a Hd1]. apply csub_some in En. destruct En as [Hna Hn].
  destruct (N.eqb need 0) eqn:En0.
  { (* this destination already owns its final number of slots *)
    assert (Hz : a_num acc = 0).
    { destruct Hnum as [Hz|[e' [He' Hlt]]]; [exact Hz|]. rewrite Ee in He'. inversion He'; subst e'. lia. }
    assert (Hcur : a_cur acc = []) by (destruct Hpre as [Hc|[_ [_ Hc]]]; [exact Hc|lia]).
    apply IH in H; cbn [a_dst a_cur a_num a_migs]; auto.
    - destruct H as (H1 & H2 & H3 & H4 & H5 & H6 & H7 & H8 & H9 & H10 & H11). msplit; auto.
      rewrite H7. unfold phi. cbn [a_dst a_num]. rewrite sumF_succ, (sumE_succ _ _ _ Ee). lia.
    - left. exact Hz.
    - left. exact Hcur.
    - apply (Gd_skip acc e); auto. lia.
    - lia. }
  destruct (slots_num rl) as [av|] eqn:Eav; [|discriminate].
  destruct (slots_num_some_wf _ _ Eav) as [_ Hav].
  destruct (N.eqb av 0) eqn:Eav0.
  { (* source exhausted *)
    inversion H; subst rl' acc'. clear H.
    assert (Hcur : a_cur acc = []) by (destruct Hpre as [Hc|[_ [Hc _]]]; [exact Hc|lia]).
    msplit; auto. right. lia. intros l m Hin. left. exact Hin. }
  destruct rl as [|r tail]; [discriminate|].
  destruct (range_len r) as [num|] eqn:Er; [|discriminate].
  destruct (range_len_some _ _ Er) as [Hwr Hnumeq].
  pose proof (Forall_inv_tail Hwrl) as Hwtail.
  assert (Hrn : 1 <= N.min need av) by lia.
  match type of H with context [if N.leb ?a ?b then (?x, ?y, ?z) else ?w] =>
    destruct (if N.leb a b then (x, y, z) else w) as [[rl1 cur1] num1] eqn:Estep end.
  pose proof (take_front_cur r tail (a_cur acc) (a_num acc) _ _ rl1 cur1 num1 Hwr Hnumeq Hrn Estep) as Hstc.
  destruct (take_front_spec r tail (a_cur acc) (a_num acc) _ _ rl1 cur1 num1 Hwr Hnumeq Hrn Estep Hwtail Hwcur)
    as (t & Ht1 & Ht2 & Hnum1 & Hst & Hwrl1 & Hwcur1 & Hcur1ne & Hcnt).
  clear Estep.
  destruct (slots_num rl1) as [n1|] eqn:En1; [|discriminate].
  destruct (slots_num_some_wf _ _ En1) as [_ Hn1].
  assert (Hcur1le : forall s, (cnt s cur1 <= 1)%nat).
  { intros s. specialize (Htot s). specialize (Hcnt s). unfold tot in Htot. lia. }
  destruct (compact_cnt cur1 Hwcur1 Hcur1le) as [Hcc Hcw].
  pose proof (compact_total cur1 Hwcur1 Hcur1le) as Hct.
  destruct (N.leb (dfinL (a_dst acc)) (num1 + e) || N.eqb n1 0) eqn:Efl.
  - (* flush *)
    set (meta := mkMeta epoch idx part (N.to_nat (a_dst acc / 2)) (N.eqb (a_dst acc mod 2) 1)) in *.
    assert (Hdm : dst_master meta = a_dst acc).
    { pose proof (dst_master_meta epoch idx part 0 (a_dst acc)) as Hd. cbn [Nat.add] in Hd. unfold meta. rewrite Hd. lia. }
    assert (Hwm' : Forall wf_range (mig_ranges ((rl_new cur1, meta) :: a_migs acc))).
    { rewrite mig_ranges_cons. apply Forall_app. split; assumption. }
    assert (Hne' : migs_nonempty ((rl_new cur1, meta) :: a_migs acc)).
    { intros l m [Hlm|Hlm]; [|eapply Hne; exact Hlm]. inversion Hlm; subst. apply compact_nonempty. exact Hcur1ne. }
    assert (Htot' : forall s a b, tot s rl1 (mkAcc a [] b ((rl_new cur1, meta) :: a_migs acc)) = tot s (r :: tail) acc).
    { intros s a b. unfold tot. cbn [a_cur a_migs]. rewrite mig_ranges_cons, cnt_app, cnt_nil.
      unfold rl_new. rewrite Hcc. specialize (Hcnt s). lia. }
    assert (Hnew : forall a b, new_dst_lt (a_migs acc) (mkAcc a [] b ((rl_new cur1, meta) :: a_migs acc))).
    { intros a b l m Hin. cbn [a_migs] in Hin. destruct Hin as [Hlm|Hlm]; [|left; exact Hlm].
      right. inversion Hlm; subst m. rewrite Hdm. lia. }
    destruct (N.leb (dfinL (a_dst acc)) (num1 + e)) eqn:Eadv.
    + (* destination complete: advance *)
      assert (Hphi : forall n, phiL (mkAcc (a_dst acc + 1) [] 0 ((rl_new cur1, meta) :: a_migs acc)) n
                               = (phiL acc (slots_total (r :: tail)) - Z.of_N (slots_total rl1) + Z.of_N n)%Z).
      { intros n. unfold phi. cbn [a_dst a_num]. rewrite sumF_succ, (sumE_succ _ _ _ Ee). lia. }
      assert (HG' : Gd (mkAcc (a_dst acc + 1) [] 0 ((rl_new cur1, meta) :: a_migs acc))).
      { apply (Gd_flush_adv acc cur1 num1 meta (rl_new cur1) e); auto. lia. }
      destruct (N.eqb n1 0) eqn:En10.
      * inversion H; subst rl' acc'. clear H. cbn [a_dst a_cur a_num a_migs].
        msplit.
        -- exact Hwrl1.
        -- exact Hwm'.
        -- exact Hne'.
        -- intros s. apply Htot'.
        -- reflexivity.
        -- left. reflexivity.
        -- rewrite Hphi. lia.
        -- right. lia.
        -- exact HG'.
        -- lia.
        -- apply Hnew.
      * apply IH in H; cbn [a_dst a_cur a_num a_migs]; auto.
        -- destruct H as (H1 & H2 & H3 & H4 & H5 & H6 & H7 & H8 & H9 & H10 & H11). msplit; auto.
           ++ intros s. rewrite H4. apply Htot'.
           ++ rewrite H7, Hphi. lia.
           ++ intros l m Hin. destruct (H11 l m Hin) as [Hold|Hlt]; [|right; exact Hlt].
              apply (Hnew (a_dst acc + 1) 0 l m). exact Hold.
        -- intros s. rewrite Htot'. apply Htot.
        -- left. reflexivity.
        -- left. reflexivity.
        -- lia.
    + (* source exhausted before the destination is complete *)
      cbn [orb] in Efl. rewrite Efl in H.
      inversion H; subst rl' acc'. clear H. cbn [a_dst a_cur a_num a_migs].
      msplit.
      * exact Hwrl1.
      * exact Hwm'.
      * exact Hne'.
      * intros s. apply Htot'.
      * reflexivity.
      * right. exists e. cbn [a_dst a_num]. split; [exact Ee|lia].
      * unfold phi. cbn [a_dst a_num]. lia.
      * right. lia.
      * apply (Gd_flush_stay acc cur1 num1 meta (rl_new cur1)); auto.
      * exact Hdle.
      * apply Hnew.
  - (* keep collecting for the same destination *)
    apply orb_false_iff in Efl. destruct Efl as [Eadv En10].
    apply IH in H; cbn [a_dst a_cur a_num a_migs]; auto.
    + destruct H as (H1 & H2 & H3 & H4 & H5 & H6 & H7 & H8 & H9 & H10 & H11). msplit; auto.
      * intros s. rewrite H4. unfold tot. cbn [a_cur a_migs]. specialize (Hcnt s). lia.
      * rewrite H7. unfold phi. cbn [a_dst a_num]. lia.
    + intros s. specialize (Htot s). specialize (Hcnt s). unfold tot in *. cbn [a_cur a_migs]. lia.
    + right. exists e. cbn [a_dst a_num]. split; [exact Ee|lia].
    + right. cbn [a_dst a_num]. msplit; lia.
    + apply (Gd_collect acc cur1 num1); auto.
Qed.

(* ---------- one part (master) of a source chunk ---------- *)
Hypothesis HsumF : sumFL dmn = SLOT_NUM.

Local Notation kconstL := (kconst dmn ex).
Local Notation down_partL := (down_part epoch avg rem dmn ex).

Definition all_dst_lt (acc : macc) : Prop := forall l m, In (l, m) (a_migs acc) -> dst_master m < dmn.

Lemma down_part_num idx part c acc c' acc' (others : N) :
  down_partL idx part c acc = Done (c', acc') ->
  Forall wf_range (opt_ranges (ck_stable c part)) -> a_cur acc = [] ->
  Forall wf_range (mig_ranges (a_migs acc)) -> migs_nonempty (a_migs acc) ->
  (forall s, (cnt s (opt_ranges (ck_stable c part)) + cnt s (mig_ranges (a_migs acc)) <= 1)%nat) ->
  numinvL acc ->
  (phiL acc (slots_total (opt_ranges (ck_stable c part))) + Z.of_N others = kconstL)%Z ->
  Gd acc -> a_dst acc <= dmn -> all_dst_lt acc ->
  ck_stable c' part = None /\ ck_stable c' (negb part) = ck_stable c (negb part) /\
  ck_mig0 c' = ck_mig0 c /\ ck_mig1 c' = ck_mig1 c /\
  Forall wf_range (mig_ranges (a_migs acc')) /\ migs_nonempty (a_migs acc') /\ a_cur acc' = [] /\ numinvL acc' /\
  (forall s, cnt s (mig_ranges (a_migs acc')) = (cnt s (opt_ranges (ck_stable c part)) + cnt s (mig_ranges (a_migs acc)))%nat) /\
  (phiL acc' 0 + Z.of_N others = kconstL)%Z /\
  Gd acc' /\ a_dst acc' <= dmn /\ all_dst_lt acc'.
Proof.
  unfold down_part. intros H Hwrl Hcur Hwm Hne Hle Hnum Hphi HG Hdle Hall.
  destruct (ck_stable c part) as [rl|] eqn:Es; cbn [opt_ranges] in *.
  - destruct (scale_down_loop (loop_fuel rl dmn) epoch avg rem dmn ex idx part rl acc) as [[rl' acc1]|err|] eqn:El;
      try discriminate.
    inversion H; subst c' acc1. clear H.
    apply scale_down_loop_num in El; auto.
    + destruct El as (H1 & H2 & H3 & H4 & H5 & H6 & H7 & H8 & H9 & H10 & H11).
      assert (Hz : slots_total rl' = 0).
      { destruct H8 as [H8|H8]; [|exact H8].
        unfold phi in H7, Hphi. rewrite H8, HsumF in H7. unfold kconst in Hphi. lia. }
      apply slots_total_zero_nil in Hz. subst rl'.
      msplit; auto.
      * apply set_stable_same.
      * apply set_stable_other.
      * apply set_stable_mig0.
      * apply set_stable_mig1.
      * intros s. specialize (H4 s). unfold tot in H4. rewrite H5, Hcur, !cnt_nil in H4. lia.
      * change (slots_total []) with 0 in H7. rewrite H7. exact Hphi.
      * intros l m Hin. destruct (H11 l m Hin) as [Hold|Hlt]; [apply (Hall l m Hold)|exact Hlt].
    + rewrite Hcur. constructor.
    + intros s. unfold tot. rewrite Hcur, cnt_nil. specialize (Hle s). lia.
    + left. exact Hcur.
  - inversion H; subst c' acc'. clear H.
    msplit; auto.
Qed.

Lemma scale_down_chunks_num : forall chunks idx acc chunks' acc',
  scale_down_chunks epoch avg rem dmn ex idx chunks acc = Done (chunks', acc') ->
  no_migs chunks -> Forall wf_range (stable_ranges chunks) ->
  Forall wf_range (mig_ranges (a_migs acc)) -> migs_nonempty (a_migs acc) -> a_cur acc = [] ->
  (forall s, (cnt s (stable_ranges chunks) + cnt s (mig_ranges (a_migs acc)) <= 1)%nat) ->
  numinvL acc ->
  phiL acc (slots_total (stable_ranges chunks)) = kconstL ->
  Gd acc -> a_dst acc <= dmn -> all_dst_lt acc ->
  length chunks' = length chunks /\ no_migs chunks' /\
  (forall c, In c chunks' -> ck_stable c false = None /\ ck_stable c true = None) /\
  Forall wf_range (mig_ranges (a_migs acc')) /\ migs_nonempty (a_migs acc') /\ a_cur acc' = [] /\ numinvL acc' /\
  (forall s, cnt s (mig_ranges (a_migs acc')) = (cnt s (stable_ranges chunks) + cnt s (mig_ranges (a_migs acc)))%nat) /\
  phiL acc' 0 = kconstL /\
  Gd acc' /\ a_dst acc' <= dmn /\ all_dst_lt acc'.
Proof.
  induction chunks as [|c rest IH]; intros idx acc chunks' acc' H Hnm Hws Hwm Hne Hcur Hle Hnum Hphi HG Hdle Hall.
  - cbn [scale_down_chunks] in H. inversion H; subst chunks' acc'. clear H.
    msplit; auto. intros c [].
  - rewrite scale_down_chunks_cons in H.
    destruct (down_partL idx false c acc) as [[c1 acc1]|err|] eqn:E0; try discriminate.
    destruct (down_partL idx true c1 acc1) as [[c2 acc2]|err|] eqn:E1; try discriminate.
    destruct (scale_down_chunks epoch avg rem dmn ex (S idx) rest acc2) as [[rest' acc3]|err|] eqn:E2; try discriminate.
    inversion H; subst chunks' acc3. clear H.
    apply no_migs_cons in Hnm. destruct Hnm as [[Hm0 Hm1] Hnmr].
    change (stable_ranges (c :: rest)) with (chunk_stable c ++ stable_ranges rest) in *.
    rewrite chunk_stable_parts in *.
    apply Forall_app in Hws. destruct Hws as [Hwc Hwr]. apply Forall_app in Hwc. destruct Hwc as [Hw0 Hw1].
    rewrite !slots_total_app in Hphi.
    apply (down_part_num idx false c acc c1 acc1
             (slots_total (opt_ranges (ck_stable c true)) + slots_total (stable_ranges rest))) in E0; auto.
    2:{ intros s. specialize (Hle s). rewrite !cnt_app in Hle. lia. }
    2:{ rewrite phi_n in Hphi. rewrite phi_n. lia. }
    destruct E0 as (A1 & A2 & A3 & A4 & A5 & A6 & A7 & A8 & A9 & A10 & A11 & A12 & A13). cbn [negb] in A2.
    apply (down_part_num idx true c1 acc1 c2 acc2 (slots_total (stable_ranges rest))) in E1; auto.
    2:{ rewrite A2. exact Hw1. }
    2:{ intros s. specialize (Hle s). rewrite !cnt_app in Hle. rewrite A2, A9. lia. }
    2:{ rewrite A2. rewrite phi_n. lia. }
    destruct E1 as (B1 & B2 & B3 & B4 & B5 & B6 & B7 & B8 & B9 & B10 & B11 & B12 & B13). cbn [negb] in B2.
    apply IH in E2; auto.
    2:{ intros s. specialize (Hle s). rewrite !cnt_app in Hle. rewrite B9, A2, A9. lia. }
    2:{ rewrite phi_n. lia. }
    destruct E2 as (C1 & C2 & C3 & C4 & C5 & C6 & C7 & C8 & C9 & C10 & C11 & C12).
    msplit; auto.
    + cbn [length]. lia.
    + apply no_migs_cons. split; [|exact C2]. rewrite B3, B4, A3, A4. auto.
    + intros c' [<-|Hin]; [|apply C3; exact Hin]. split; [rewrite B2; exact A1|exact B1].
    + intros s. rewrite C8, B9, A2, A9, !cnt_app. lia.
Qed.

(* ---------- final arithmetic: every destination ends with exactly its final number ---------- *)
Definition E_le : Prop := forall d, d < dmn -> exnum d <= dfinL d.

Lemma nth_error_E_lt a : length ex = N.to_nat dmn -> a < dmn -> nth_error ex (N.to_nat a) = Some (exnum a).
Proof. intros Hlen Ha. unfold exnum. apply nth_error_nth'. lia. Qed.

(* T(a) = sum over j in [a, dmn) of (dfin j - exnum j) is not negative *)
Lemma T_nonneg : length ex = N.to_nat dmn -> E_le ->
  forall n a, N.to_nat (dmn - a) = n -> a <= dmn -> sumFL a + sumEL dmn <= sumFL dmn + sumEL a.
Proof.
  intros Hlen Hle. induction n as [|n IH]; intros a Hn Ha.
  - assert (a = dmn) by lia. subst a. lia.
  - assert (Hlt : a < dmn) by lia.
    specialize (IH (a + 1) ltac:(lia) ltac:(lia)).
    rewrite sumF_succ, (sumE_succ _ _ _ (nth_error_E_lt a Hlen Hlt)) in IH.
    specialize (Hle a Hlt). lia.
Qed.

(* T(a) = 0: every term is 0 *)
Lemma T_zero : length ex = N.to_nat dmn -> E_le ->
  forall n a, N.to_nat (dmn - a) = n -> a <= dmn -> sumFL a + sumEL dmn = sumFL dmn + sumEL a ->
  forall j, a <= j -> j < dmn -> exnum j = dfinL j.
Proof.
  intros Hlen Hle. induction n as [|n IH]; intros a Hn Ha Heq j Hj1 Hj2; [lia|].
  assert (Hlt : a < dmn) by lia.
  pose proof (T_nonneg Hlen Hle n (a + 1) ltac:(lia) ltac:(lia)) as Hnn.
  rewrite sumF_succ, (sumE_succ _ _ _ (nth_error_E_lt a Hlen Hlt)) in Hnn.
  pose proof (Hle a Hlt) as Hlea.
  assert (HEa : exnum a = dfinL a) by lia.
  destruct (N.eq_dec j a) as [->|Hne]; [exact HEa|].
  apply (IH (a + 1)); try lia.
  rewrite sumF_succ, (sumE_succ _ _ _ (nth_error_E_lt a Hlen Hlt)). lia.
Qed.

Lemma final_numbers acc : length ex = N.to_nat dmn -> E_le ->
  a_cur acc = [] -> Gd acc -> numinvL acc -> phiL acc 0 = kconstL -> a_dst acc <= dmn ->
  forall d, d < dmn -> exnum d + msum d (a_migs acc) = dfinL d.
Proof.
  intros Hlen Hle Hcur HG Hnum Hphi Hdle d Hd.
  unfold phi, kconst in Hphi. pose proof HsumF as HF.
  assert (Heq : sumFL (a_dst acc) + a_num acc + sumEL dmn = sumFL dmn + sumEL (a_dst acc)) by lia.
  clear Hphi. pose proof (HG d) as HGd. rewrite Hcur in HGd. change (slots_total []) with 0 in HGd.
  pose proof (Hle d Hd) as Hled.
  destruct (N.ltb d (a_dst acc)) eqn:E2.
  { destruct (N.eqb d (a_dst acc)) eqn:E1; lia. }
  assert (Hlt : a_dst acc < dmn) by lia.
  pose proof (T_nonneg Hlen Hle _ (a_dst acc + 1) eq_refl ltac:(lia)) as Hnn.
  pose proof (nth_error_E_lt _ Hlen Hlt) as HEe.
  rewrite sumF_succ, (sumE_succ _ _ _ HEe) in Hnn.
  pose proof (Hle _ Hlt) as Hlea.
  assert (Hna : a_num acc + exnum (a_dst acc) <= dfinL (a_dst acc)).
  { destruct Hnum as [Hz|[e [He Hl]]]; [lia|]. rewrite HEe in He. inversion He; subst e. lia. }
  destruct (N.eqb d (a_dst acc)) eqn:E1.
  - assert (d = a_dst acc) by lia. subst d. lia.
  - assert (HEd : exnum d = dfinL d).
    { apply (T_zero Hlen Hle _ (a_dst acc + 1) eq_refl); try lia.
      rewrite sumF_succ, (sumE_succ _ _ _ HEe). lia. }
    lia.
Qed.

End DownNum.

(* ---------- the whole remove phase ---------- *)
Ltac Zify.zify_post_hook ::= Z.div_mod_to_equations.

Lemma nth_error_firstn_lt {A} : forall (l : list A) k i, (i < k)%nat -> nth_error (firstn k l) i = nth_error l i.
Proof.
  induction l as [|x l IH]; intros k i Hi; destruct k as [|k]; try lia.
  - destruct i; reflexivity.
  - destruct i as [|i]; cbn [firstn nth_error]; [reflexivity|]. apply IH. lia.
Qed.

Lemma mindex_decomp d : d = mindex (N.to_nat (d / 2)) (N.eqb (d mod 2) 1).
Proof. unfold mindex, b2n. destruct (N.eqb (d mod 2) 1) eqn:E1; lia. Qed.

(* the list of existing numbers computed by the planner, read at a master index *)
Lemma existing_nums_nth : forall l ex i c p, existing_nums l = Some ex -> nth_error l i = Some c ->
  exnum ex (mindex i p) = stable_num c p.
Proof.
  induction l as [|c0 rest IH]; intros ex i c p H Hn; [destruct i; discriminate|].
  cbn [existing_nums] in H.
  destruct (match ck_stable0 c0 with Some rl => slots_num rl | None => Some 0 end) as [a|] eqn:Ea; [|discriminate].
  destruct (match ck_stable1 c0 with Some rl => slots_num rl | None => Some 0 end) as [b|] eqn:Eb; [|discriminate].
  destruct (existing_nums rest) as [r|] eqn:Er; [|discriminate].
  inversion H; subst ex. clear H.
  destruct i as [|i]; cbn [nth_error] in Hn.
  - inversion Hn; subst c0. clear Hn. unfold exnum, stable_num.
    destruct p; cbn [ck_stable].
    + change (N.to_nat (mindex 0 true)) with 1%nat. cbn [nth].
      destruct (ck_stable1 c) as [rl|]; cbn [opt_ranges].
      * apply slots_num_some_wf in Eb. tauto.
      * inversion Eb. reflexivity.
    + change (N.to_nat (mindex 0 false)) with 0%nat. cbn [nth].
      destruct (ck_stable0 c) as [rl|]; cbn [opt_ranges].
      * apply slots_num_some_wf in Ea. tauto.
      * inversion Ea. reflexivity.
  - unfold exnum. replace (N.to_nat (mindex (S i) p)) with (S (S (N.to_nat (mindex i p)))) by (unfold mindex; lia).
    cbn [nth]. apply (IH r i c p eq_refl Hn).
Qed.

Lemma Gd_init avg rem ex : Gd avg rem ex (mkAcc 0 [] 0 []).
Proof.
  intros d. cbn [a_dst a_cur a_num a_migs msum]. change (slots_total []) with 0.
  destruct (N.eqb d 0) eqn:E1; destruct (N.ltb d 0) eqn:E2; lia.
Qed.

Theorem scale_down_remove_numbers cl epoch k chunks migs :
  part_inv (cl_chunks cl) -> cluster_is_migrating cl = false ->
  balanced_at (length (cl_chunks cl)) (cl_chunks cl) ->
  (0 < k)%nat -> (k <= length (cl_chunks cl))%nat ->
  remove_slots_from_src_to_scale_down cl epoch k = Done (chunks, migs) ->
  (forall i c p, nth_error chunks i = Some c -> (i < k)%nat ->
      stable_num c p + msum (mindex i p) migs = share (2 * N.of_nat k) (mindex i p)) /\
  (forall i c p, nth_error chunks i = Some c -> (k <= i)%nat -> ck_stable c p = None) /\
  (forall rl m, In (rl, m) migs -> dst_master m < 2 * N.of_nat k).
Proof.
  intros Hinv Hnm Hbal Hk Hkl H.
  unfold remove_slots_from_src_to_scale_down in H.
  set (dmn := 2 * N.of_nat k) in *.
  set (avg := SLOT_NUM / dmn) in *.
  set (rem := SLOT_NUM - avg * dmn) in *.
  destruct (existing_nums (firstn k (cl_chunks cl))) as [ex|] eqn:Eex; [|discriminate].
  destruct (scale_down_chunks epoch avg rem dmn ex k (skipn k (cl_chunks cl)) (mkAcc 0 [] 0 []))
    as [[chunks' acc']|err|] eqn:Ech; try discriminate.
  inversion H; subst chunks migs. clear H.
  pose proof (not_migrating_no_migs cl Hnm) as Hno.
  pose proof Hno as Hno0.
  destruct (part_inv_stable _ Hinv Hno) as [Hwf Hcov].
  pose proof (pi_size _ Hinv) as Hsize.
  rewrite <- (firstn_skipn k (cl_chunks cl)) in Hno, Hwf, Hcov.
  apply no_migs_app in Hno. destruct Hno as [Hno1 Hno2].
  rewrite stable_ranges_app in Hwf, Hcov.
  destruct (existing_nums_sum _ _ Eex) as [Hsum Hlen].
  assert (Hfl : length (firstn k (cl_chunks cl)) = k) by (apply firstn_length_le; exact Hkl).
  rewrite Hfl in Hlen.
  assert (Hdmn : 0 < dmn) by (unfold dmn; lia).
  assert (HsumF : sumF avg rem dmn = SLOT_NUM) by (apply sumF_all; exact Hdmn).
  assert (HsumE : sumE ex dmn = lsum ex).
  { unfold sumE. rewrite firstn_all2; [reflexivity|]. rewrite Hlen. unfold dmn. lia. }
  assert (Hdfin : forall j, dfin avg rem j = share dmn j) by (intros j; exact (share_unfold dmn j Hdmn)).
  assert (HEst : forall i c p, (i < k)%nat -> nth_error (cl_chunks cl) i = Some c -> exnum ex (mindex i p) = stable_num c p).
  { intros i c p Hi Hn. apply (existing_nums_nth _ _ _ _ _ Eex). rewrite nth_error_firstn_lt by exact Hi. exact Hn. }
  assert (Hle : E_le avg rem dmn ex).
  { intros d Hd. rewrite (mindex_decomp d). set (i := N.to_nat (d / 2)). set (p := N.eqb (d mod 2) 1).
    assert (Hi : (i < k)%nat) by (unfold i, dmn in *; lia).
    destruct (nth_error (cl_chunks cl) i) as [c|] eqn:En; [|apply nth_error_None in En; lia].
    rewrite (HEst i c p Hi En), Hdfin.
    destruct (quiescent_shape _ _ Hinv Hbal Hno0 i c p En) as [Hq _].
    destruct (Hq ltac:(lia)) as [Hs _]. rewrite Hs.
    apply share_mono; [exact Hdmn|]. unfold dmn. lia. }
  apply Forall_app in Hwf as Hwf'. destruct Hwf' as [Hwf1 Hwf2].
  apply (scale_down_chunks_num epoch avg rem dmn ex HsumF) in Ech; cbn [a_dst a_cur a_num a_migs]; auto.
  - destruct Ech as (C1 & C2 & C3 & C4 & C5 & C6 & C7 & C8 & C9 & C10 & C11 & C12).
    assert (Hlen' : length ex = N.to_nat dmn) by (unfold dmn; lia).
    msplit.
    + intros i c p Hn Hi.
      rewrite nth_error_app1 in Hn by (rewrite Hfl; exact Hi).
      rewrite nth_error_firstn_lt in Hn by exact Hi.
      rewrite msum_rev, <- (HEst i c p Hi Hn), <- Hdfin.
      apply (final_numbers avg rem dmn ex HsumF acc' Hlen' Hle C6 C10 C7 C9 C11).
      unfold dmn. apply mindex_lt. exact Hi.
    + intros i c p Hn Hi.
      rewrite nth_error_app2 in Hn by (rewrite Hfl; exact Hi).
      apply nth_error_In in Hn. destruct (C3 c Hn) as [X Y]. destruct p; assumption.
    + intros rl m Hin. apply in_rev in Hin. exact (C12 rl m Hin).
  - constructor.
  - intros l m [].
  - intros s. cbn [mig_ranges flat_map]. rewrite cnt_nil. specialize (Hcov s). rewrite cnt_app in Hcov.
    unfold slot_ind in Hcov. destruct (N.ltb s SLOT_NUM); lia.
  - left. reflexivity.
  - unfold phi, kconst. cbn [a_dst a_num]. rewrite HsumE, Hsum.
    assert (Htotal : slots_total (stable_ranges (firstn k (cl_chunks cl)) ++ stable_ranges (skipn k (cl_chunks cl))) = SLOT_NUM)
      by (apply covers_total; assumption).
    rewrite slots_total_app in Htotal.
    assert (HF0 : sumF avg rem 0 = 0) by (unfold sumF; lia).
    assert (HE0 : sumE ex 0 = 0) by reflexivity.
    rewrite HF0, HE0. lia.
  - apply Gd_init.
  - lia.
  - intros l m [].
Qed.

Print Assumptions scale_down_remove_numbers.
