(* C15, part D: the hinted multi-packet decoder (OptionalMultiPacketDecoder): resumption after NotEnoughData,
   stability of outputs and errors, split invariance of the framed read loop over it. *)
From UM Require Import Base.BytesDef Base.Dec Base.RespT Model.Resp Proofs.RespProofsA Proofs.RespProofsB Proofs.RespProofsC.
From Coq Require Import ZifyBool ZifyNat ZifyN.

Lemma decode_ok_split : forall b v n, decode b = VOk v n ->
  (1 <= n <= length b)%nat /\ forall m, decode (b ++ m) = VOk v n /\ skipn n (b ++ m) = skipn n b ++ m.
Proof.
  intros b v n H. destruct (decode_ok_inv _ _ _ H) as (e & rest & ix & -> & -> & Hg).
  pose proof (gramx_nonempty _ _ _ _ Hg). rewrite app_length. split; [lia|]. intros m. split.
  - apply decode_ok_stable. exact H.
  - rewrite skipn_app_le by (rewrite app_length; lia). reflexivity.
Qed.

Lemma mloop_fuel_any : forall f1 f2 h acc b, (length b < f1)%nat -> (length b < f2)%nat ->
  mloop f1 h acc b = mloop f2 h acc b.
Proof.
  induction f1 as [|f1 IH]; intros f2 h acc b H1 H2; [lia|]. destruct f2 as [|f2]; [lia|]. cbn [mloop].
  destruct (decode b) as [v n| | | |] eqn:E; try reflexivity.
  destruct h as [|k]; [reflexivity|]. destruct (k =? length (acc ++ [v]))%nat; [reflexivity|].
  destruct (decode_ok_split _ _ _ E) as (Hn & _).
  apply IH; rewrite skipn_length; lia.
Qed.

Definition mloop' (h : hint) (acc : list resp) (b : bytes) := mloop (S (length b)) h acc b.

Lemma mloop'_unfold : forall h acc b, mloop' h acc b =
  match decode b with
  | VOk v n =>
    let rest := skipn n b in
    match h with
    | HSingle => (MSome (OSingle v), acc, rest)
    | HMulti k =>
      let acc' := acc ++ [v] in
      if (k =? length acc')%nat then (MSome (OMulti acc'), [], rest) else mloop' h acc' rest
    end
  | VNeed => (MNone, acc, b)
  | VInvalid => (MErr, acc, b)
  | VPanic => (MPanic, acc, b)
  | VFuel => (MFuel, acc, b)
  end.
Proof.
  intros h acc b. unfold mloop' at 1. cbn [mloop]. destruct (decode b) as [v n| | | |] eqn:E; try reflexivity.
  destruct h as [|k]; [reflexivity|]. cbn zeta. destruct (k =? length (acc ++ [v]))%nat; [reflexivity|].
  destruct (decode_ok_split _ _ _ E) as (Hn & _). unfold mloop'.
  apply mloop_fuel_any; rewrite skipn_length; lia.
Qed.

(* what extending the buffer does to one run of the inner loop *)
Definition mloop_app_stmt (h : hint) (acc : list resp) (b m : bytes) : Prop :=
  match mloop' h acc b with
  | (MSome o, acc', b') => mloop' h acc (b ++ m) = (MSome o, acc', b' ++ m) /\ (length b' < length b)%nat
  | (MErr, acc', b') => mloop' h acc (b ++ m) = (MErr, acc', b' ++ m)
  | (MNone, acc', b') => mloop' h acc (b ++ m) = mloop' h acc' (b' ++ m) /\ mloop' h acc' b' = (MNone, acc', b')
  | (MPanic, _, _) => False
  | (MFuel, _, _) => False
  end.

Lemma mloop'_app : forall n h acc b m, (length b <= n)%nat -> mloop_app_stmt h acc b m.
Proof.
  induction n as [|n IH]; intros h acc b m Hn; unfold mloop_app_stmt; rewrite (mloop'_unfold h acc b).
  - destruct b; [|cbn [length] in Hn; lia]. replace (decode []) with VNeed by reflexivity.
    split; [reflexivity|]. rewrite mloop'_unfold. replace (decode []) with VNeed by reflexivity. reflexivity.
  - destruct (decode b) as [v k| | | |] eqn:E.
    + destruct (decode_ok_split _ _ _ E) as (Hk & Hm). destruct (Hm m) as (Hd & Hs).
      destruct h as [|c]; cbn zeta.
      * rewrite mloop'_unfold, Hd. cbn zeta. rewrite Hs. split; [reflexivity|]. rewrite skipn_length. lia.
      * destruct (c =? length (acc ++ [v]))%nat eqn:Ec.
        -- rewrite mloop'_unfold, Hd. cbn zeta. rewrite Ec, Hs. split; [reflexivity|]. rewrite skipn_length. lia.
        -- assert (Hr : (length (skipn k b) <= n)%nat) by (rewrite skipn_length; lia).
           pose proof (IH (HMulti c) (acc ++ [v]) (skipn k b) m Hr) as HI. unfold mloop_app_stmt in HI.
           rewrite (mloop'_unfold (HMulti c) acc (b ++ m)), Hd. cbn zeta. rewrite Ec, Hs.
           destruct (mloop' (HMulti c) (acc ++ [v]) (skipn k b)) as [[r acc'] b'].
           destruct r; auto. destruct HI as [HI1 HI2]. split; [exact HI1|]. rewrite skipn_length in HI2. lia.
    + split; [reflexivity|]. rewrite mloop'_unfold, E. reflexivity.
    + rewrite mloop'_unfold. rewrite (decode_invalid_stable _ m E). reflexivity.
    + apply (proj1 (decode_no_panic b)). exact E.
    + apply (proj2 (decode_no_panic b)). exact E.
Qed.

(* ---------- one decode call of the multi decoder ---------- *)

Lemma mdecode_eq : forall d buf, mdecode d buf =
  let '(hopt, st') :=
    match md_hint d with
    | Some h => (Some h, md_state d)
    | None => hint_consume (md_state d)
    end in
  match hopt with
  | None => (MNone, {| md_state := st'; md_buf := md_buf d; md_hint := None |}, buf)
  | Some h =>
    match h with
    | HMulti O => (MSome (OMulti []), {| md_state := st'; md_buf := md_buf d; md_hint := None |}, buf)
    | _ =>
      let '(r, acc', buf') := mloop' h (md_buf d) buf in
      let hint' := match r with MSome _ => None | _ => Some h end in
      (r, {| md_state := st'; md_buf := acc'; md_hint := hint' |}, buf')
    end
  end.
Proof. reflexivity. Qed.

Definition mdecode_app_stmt (d : mdec) (b m : bytes) : Prop :=
  match mdecode d b with
  | (MSome o, d', b') => mdecode d (b ++ m) = (MSome o, d', b' ++ m)
  | (MErr, d', b') => mdecode d (b ++ m) = (MErr, d', b' ++ m)
  | (MNone, d', b') => mdecode d (b ++ m) = mdecode d' (b' ++ m) /\ mdecode d' b' = (MNone, d', b')
  | (MPanic, _, _) => False
  | (MFuel, _, _) => False
  end.

Lemma hint_consume_zero : forall s h s', hint_consume s = (h, s') -> s' = 0.
Proof.
  intros s h s' H. unfold hint_consume in H. destruct (N.eqb s 0); [inversion H; reflexivity|].
  destruct (N.eqb s 1); inversion H; reflexivity.
Qed.

Lemma mdecode_loop_case : forall st' h acc b m, (h <> HMulti O) ->
  let res (x : bytes) := let '(r, acc', buf') := mloop' h acc x in
                         (r, {| md_state := st'; md_buf := acc';
                                md_hint := match r with MSome _ => None | _ => Some h end |}, buf') in
  match res b with
  | (MSome o, d', b') => res (b ++ m) = (MSome o, d', b' ++ m)
  | (MErr, d', b') => res (b ++ m) = (MErr, d', b' ++ m)
  | (MNone, d', b') => res (b ++ m) = (let '(r, acc', buf') := mloop' h (md_buf d') (b' ++ m) in
                                        (r, {| md_state := st'; md_buf := acc';
                                               md_hint := match r with MSome _ => None | _ => Some h end |}, buf'))
                       /\ md_hint d' = Some h /\ md_state d' = st'
                       /\ mloop' h (md_buf d') b' = (MNone, md_buf d', b')
  | (MPanic, _, _) => False
  | (MFuel, _, _) => False
  end.
Proof.
  intros st' h acc b m Hh res. unfold res.
  pose proof (mloop'_app (length b) h acc b m (le_n _)) as HA. unfold mloop_app_stmt in HA.
  destruct (mloop' h acc b) as [[r acc'] b']. destruct r.
  - destruct HA as [HA _]. rewrite HA. reflexivity.
  - destruct HA as [HA1 HA2]. cbn [md_buf md_hint md_state]. rewrite HA1. auto.
  - rewrite HA. reflexivity.
  - exact HA.
  - exact HA.
Qed.

Lemma mdecode_app : forall d b m, mdecode_app_stmt d b m.
Proof.
  intros d b m. unfold mdecode_app_stmt. rewrite !mdecode_eq.
  destruct (match md_hint d with Some h => (Some h, md_state d) | None => hint_consume (md_state d) end)
    as [hopt st'] eqn:Eh.
  destruct hopt as [h|].
  - assert (Hcase : h = HMulti O \/ h <> HMulti O).
    { destruct h as [|[|k]]; [right; discriminate|left; reflexivity|right; discriminate]. }
    destruct Hcase as [-> | Hh].
    + reflexivity.
    + pose proof (mdecode_loop_case st' h (md_buf d) b m Hh) as HL. cbn zeta in HL.
      assert (Hm : forall x, match h with
                             | HMulti O => (MSome (OMulti []), {| md_state := st'; md_buf := md_buf d; md_hint := None |}, x)
                             | _ => let '(r, acc', buf') := mloop' h (md_buf d) x in
                                    (r, {| md_state := st'; md_buf := acc';
                                           md_hint := match r with MSome _ => None | _ => Some h end |}, buf')
                             end
                             = let '(r, acc', buf') := mloop' h (md_buf d) x in
                               (r, {| md_state := st'; md_buf := acc';
                                      md_hint := match r with MSome _ => None | _ => Some h end |}, buf')).
      { intros x. destruct h as [|[|k]]; try reflexivity. congruence. }
      rewrite !Hm.
      destruct (let '(r, acc', buf') := mloop' h (md_buf d) b in
                (r, {| md_state := st'; md_buf := acc';
                       md_hint := match r with MSome _ => None | _ => Some h end |}, buf')) as [[r d'] b'] eqn:Er.
      destruct r; auto.
      destruct HL as (HL1 & HL2 & HL3 & HL4). split.
      * rewrite HL1. rewrite mdecode_eq. rewrite HL2. rewrite HL3.
        destruct h as [|[|k]]; try reflexivity. congruence.
      * rewrite mdecode_eq. rewrite HL2, HL3.
        assert (Hd' : d' = {| md_state := st'; md_buf := md_buf d'; md_hint := Some h |}).
        { destruct d' as [s0 b0 h0]. cbn [md_state md_buf md_hint] in *. subst. reflexivity. }
        destruct h as [|[|k]]; try congruence.
        -- rewrite HL4. cbn zeta. rewrite <- Hd'. reflexivity.
        -- rewrite HL4. cbn zeta. rewrite <- Hd'. reflexivity.
  - (* no hint available: decode returns None and the state is a fixed point *)
    split; [|].
    + rewrite mdecode_eq. cbn [md_hint md_state md_buf].
      destruct (md_hint d) as [h0|]; [inversion Eh|]. rewrite (hint_consume_zero _ _ _ Eh).
      replace (hint_consume 0) with (@None hint, 0) by reflexivity. reflexivity.
    + rewrite mdecode_eq. cbn [md_hint md_state md_buf].
      destruct (md_hint d) as [h0|]; [inversion Eh|]. rewrite (hint_consume_zero _ _ _ Eh).
      replace (hint_consume 0) with (@None hint, 0) by reflexivity. reflexivity.
Qed.

(* ---------- the framed read loop over the multi decoder ---------- *)

Definition mmeasure (d : mdec) (b : bytes) : nat :=
  (length b + (match md_hint d with Some _ => 1 | None => 0 end) + (if N.eqb (md_state d) 0 then 0 else 1))%nat.

Lemma mloop'_some_len : forall h acc b o acc' b', mloop' h acc b = (MSome o, acc', b') -> (length b' < length b)%nat.
Proof.
  intros h acc b o acc' b' H. pose proof (mloop'_app (length b) h acc b [] (le_n _)) as HA.
  unfold mloop_app_stmt in HA. rewrite H in HA. apply HA.
Qed.

Lemma mdecode_some_measure : forall d b o d' b', mdecode d b = (MSome o, d', b') ->
  (mmeasure d' b' < mmeasure d b)%nat.
Proof.
  intros d b o d' b' H. rewrite mdecode_eq in H. unfold mmeasure.
  destruct (md_hint d) as [h|] eqn:Eh.
  - destruct h as [|[|k]].
    + destruct (mloop' HSingle (md_buf d) b) as [[r acc'] b1] eqn:El. destruct r; inversion H; subst.
      cbn [md_hint md_state]. pose proof (mloop'_some_len _ _ _ _ _ _ El). lia.
    + inversion H; subst. cbn [md_hint md_state]. lia.
    + destruct (mloop' (HMulti (S k)) (md_buf d) b) as [[r acc'] b1] eqn:El. destruct r; inversion H; subst.
      cbn [md_hint md_state]. pose proof (mloop'_some_len _ _ _ _ _ _ El). lia.
  - unfold hint_consume in H. destruct (N.eqb (md_state d) 0) eqn:E0; [discriminate|].
    destruct (N.eqb (md_state d) 1) eqn:E1.
    + destruct (mloop' HSingle (md_buf d) b) as [[r acc'] b1] eqn:El. destruct r; inversion H; subst.
      cbn [md_hint md_state]. pose proof (mloop'_some_len _ _ _ _ _ _ El).
      replace (N.eqb 0 0) with true by reflexivity. lia.
    + destruct (N.to_nat (md_state d - 2)) as [|k].
      * inversion H; subst. cbn [md_hint md_state]. replace (N.eqb 0 0) with true by reflexivity. lia.
      * destruct (mloop' (HMulti (S k)) (md_buf d) b) as [[r acc'] b1] eqn:El. destruct r; inversion H; subst.
        cbn [md_hint md_state]. pose proof (mloop'_some_len _ _ _ _ _ _ El).
        replace (N.eqb 0 0) with true by reflexivity. lia.
Qed.

Lemma mdrain_fuel_any : forall f1 f2 d b, (mmeasure d b < f1)%nat -> (mmeasure d b < f2)%nat ->
  mdrain f1 d b = mdrain f2 d b.
Proof.
  induction f1 as [|f1 IH]; intros f2 d b H1 H2; [lia|]. destruct f2 as [|f2]; [lia|]. cbn [mdrain].
  destruct (mdecode d b) as [[r d'] b'] eqn:E. destruct r; try reflexivity.
  pose proof (mdecode_some_measure _ _ _ _ _ E). rewrite (IH f2 d' b') by lia. reflexivity.
Qed.

Definition mdrain' (d : mdec) (b : bytes) := mdrain (mdrain_fuel b) d b.

Lemma mmeasure_bound : forall d b, (mmeasure d b <= length b + 2)%nat.
Proof. intros d b. unfold mmeasure. destruct (md_hint d); destruct (N.eqb (md_state d) 0); lia. Qed.

Lemma mdrain'_unfold : forall d b, mdrain' d b =
  match mdecode d b with
  | (MSome o, d', b') => let '(os, r, d'', b'') := mdrain' d' b' in (o :: os, r, d'', b'')
  | (r, d', b') => ([], r, d', b')
  end.
Proof.
  intros d b. unfold mdrain' at 1. replace (mdrain_fuel b) with (S (length b + 2)) by (unfold mdrain_fuel; lia).
  cbn [mdrain]. destruct (mdecode d b) as [[r d'] b'] eqn:E. destruct r; try reflexivity.
  pose proof (mdecode_some_measure _ _ _ _ _ E). pose proof (mmeasure_bound d b). pose proof (mmeasure_bound d' b').
  unfold mdrain'. rewrite (mdrain_fuel_any (length b + 2) (mdrain_fuel b') d' b'); [reflexivity|lia|unfold mdrain_fuel; lia].
Qed.

Definition mdrain_app_stmt (d : mdec) (b m : bytes) : Prop :=
  match mdrain' d b with
  | (os, MNone, d', b') =>
    mdrain' d (b ++ m) = let '(os2, r2, d2, b2) := mdrain' d' (b' ++ m) in (os ++ os2, r2, d2, b2)
  | (os, MErr, d', b') => mdrain' d (b ++ m) = (os, MErr, d', b' ++ m)
  | _ => False
  end.

Lemma mdrain'_app_step : forall d b m,
  (forall d' b', (mmeasure d' b' < mmeasure d b)%nat -> mdrain_app_stmt d' b' m) -> mdrain_app_stmt d b m.
Proof.
  intros d b m IH. unfold mdrain_app_stmt. rewrite (mdrain'_unfold d b).
  pose proof (mdecode_app d b m) as HA. unfold mdecode_app_stmt in HA.
  destruct (mdecode d b) as [[r d'] b'] eqn:E. destruct r.
  - pose proof (IH d' b' (mdecode_some_measure _ _ _ _ _ E)) as HI. unfold mdrain_app_stmt in HI.
    rewrite (mdrain'_unfold d (b ++ m)), HA.
    destruct (mdrain' d' b') as [[[os r] d''] b'']. destruct r; try contradiction.
    + rewrite HI. destruct (mdrain' d'' (b'' ++ m)) as [[[os2 r2] d2] b2]. reflexivity.
    + rewrite HI. reflexivity.
  - destruct HA as [HA1 HA2]. rewrite (mdrain'_unfold d (b ++ m)), HA1, <- mdrain'_unfold.
    destruct (mdrain' d' (b' ++ m)) as [[[os2 r2] d2] b2]. reflexivity.
  - rewrite (mdrain'_unfold d (b ++ m)), HA. reflexivity.
  - exact HA.
  - exact HA.
Qed.

Lemma mdrain'_app : forall n d b m, (mmeasure d b <= n)%nat -> mdrain_app_stmt d b m.
Proof.
  induction n as [|n IH]; intros d b m Hn; apply mdrain'_app_step; intros d' b' Hlt; [lia|].
  apply IH. lia.
Qed.

(* the loop ends with None or with a protocol error; it never panics and never exhausts the model fuel *)
Lemma mdrain'_final : forall d b os r d' b', mdrain' d b = (os, r, d', b') -> r = MNone \/ r = MErr.
Proof.
  intros d b os r d' b' H. pose proof (mdrain'_app _ d b [] (le_n _)) as HA. unfold mdrain_app_stmt in HA.
  rewrite H in HA. destruct r; auto; contradiction.
Qed.

Lemma mfeed_all_unfold : forall d buf c cs, mfeed_all d buf (c :: cs) =
  match mdrain' d (buf ++ c) with
  | (os, MNone, d', buf') => let '(os', r, d'', buf'') := mfeed_all d' buf' cs in (os ++ os', r, d'', buf'')
  | (os, r, d', _) => (os, r, d', [])
  end.
Proof. reflexivity. Qed.

(* (4) split invariance of the multi-packet decoder, from any decoder state and buffer *)
Lemma mfeed_all_concat : forall cs c d buf,
  mfeed_all d buf (c :: cs) = mfeed_all d buf (@cons bytes (concat (c :: cs)) nil).
Proof.
  induction cs as [|a cs IH]; intros c d buf.
  - cbn [concat]. rewrite app_nil_r. reflexivity.
  - rewrite (mfeed_all_unfold d buf c (a :: cs)). rewrite (mfeed_all_unfold d buf (concat (c :: a :: cs)) []).
    change (concat (c :: a :: cs)) with (c ++ concat (a :: cs)). rewrite app_assoc.
    pose proof (mdrain'_app _ d (buf ++ c) (concat (a :: cs)) (le_n _)) as HA. unfold mdrain_app_stmt in HA.
    destruct (mdrain' d (buf ++ c)) as [[[os r] d'] b']. destruct r; try contradiction.
    + rewrite HA. rewrite (IH a d' b'). rewrite mfeed_all_unfold.
      destruct (mdrain' d' (b' ++ concat (a :: cs))) as [[[os2 r2] d2] b2].
      destruct r2; cbn [mfeed_all]; rewrite ?app_nil_r; reflexivity.
    + rewrite HA. reflexivity.
Qed.

Lemma mfeed_all_final : forall cs d buf os r d' b', mfeed_all d buf cs = (os, r, d', b') -> r = MNone \/ r = MErr.
Proof.
  induction cs as [|c cs IH]; intros d buf os r d' b' H.
  - cbn [mfeed_all] in H. inversion H. auto.
  - rewrite mfeed_all_unfold in H. destruct (mdrain' d (buf ++ c)) as [[[os1 r1] d1] b1] eqn:E.
    pose proof (mdrain'_final _ _ _ _ _ _ E) as [-> | ->].
    + destruct (mfeed_all d1 b1 cs) as [[[os2 r2] d2] b2] eqn:E2. inversion H; subst. eapply IH; eauto.
    + inversion H; subst. auto.
Qed.
