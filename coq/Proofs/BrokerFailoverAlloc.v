(* C06, part 5: proxies marked failed or under failure report are never allocated to a cluster.
   Every proxy that an operation newly places into a cluster was free (is_free: no cluster, not in st_failed, no entry in
   st_failures) in the store before the operation. *)
From UM Require Import Base.BytesDef Model.Ranges Model.Broker Proofs.BrokerBase Proofs.BrokerFailoverStruct
  Proofs.BrokerFailoverTakeover Proofs.BrokerFailoverStore.
From Coq Require Import ZifyBool ZifyNat ZifyN.

Definition free_in (s : store) (a : N) : Prop :=
  exists ra, In (a, ra) (st_proxies s) /\ is_free s (a, ra) = true.

(* a is a proxy of some chunk of some stored cluster *)
Definition placed (s : store) (a : N) : Prop :=
  exists n cl, In (n, cl) (st_clusters s) /\ In a (cluster_proxies cl).

Definition alloc_ok (s s' : store) : Prop := forall a, placed s' a -> placed s a \/ free_in s a.
Definition shrinks (s s' : store) : Prop := forall a, placed s' a -> placed s a.

Lemma free_in_spec s a :
  free_in s a ->
  smem a (st_failed s) = false /\ amem a (st_failures s) = false
  /\ exists ra, In (a, ra) (st_proxies s) /\ pr_cluster ra = None.
Proof.
  intros (ra & Hin & Hf). unfold is_free in Hf. cbn [fst snd] in Hf.
  destruct (pr_cluster ra) eqn:E; [discriminate|].
  apply andb_true_iff in Hf. destruct Hf as [H1 H2].
  apply negb_true_iff in H1. apply negb_true_iff in H2. eauto.
Qed.

Lemma shrinks_alloc_ok s s' : shrinks s s' -> alloc_ok s s'.
Proof. intros H a Ha. left. auto. Qed.

Lemma shrinks_refl s : shrinks s s.
Proof. intros a Ha. exact Ha. Qed.

Lemma shrinks_trans s1 s2 s3 : shrinks s1 s2 -> shrinks s2 s3 -> shrinks s1 s3.
Proof. intros H1 H2 a Ha. auto. Qed.

Lemma shrinks_same s s' : st_clusters s' = st_clusters s -> shrinks s s'.
Proof. intros H a (n & cl & Hin & Ha). rewrite H in Hin. exists n, cl. auto. Qed.

Lemma placed_lookup s name cl a : alookup name (st_clusters s) = Some cl -> In a (cluster_proxies cl) -> placed s a.
Proof. intros H Ha. exists name, cl. split; [apply alookup_In; exact H|exact Ha]. Qed.

(* the cluster map gets one entry replaced / added whose proxies are old ones of some cluster, or free *)
Lemma alloc_ok_insert s s' name cl' :
  st_clusters s' = ainsert name cl' (st_clusters s) ->
  (forall a, In a (cluster_proxies cl') -> placed s a \/ free_in s a) ->
  alloc_ok s s'.
Proof.
  intros Hc Hp a (n & cl & Hin & Ha). rewrite Hc in Hin.
  destruct (ainsert_In _ _ _ _ _ Hin) as [[-> ->]|Hold]; [auto|].
  left. exists n, cl. auto.
Qed.

Lemma shrinks_insert s s' name cl' :
  st_clusters s' = ainsert name cl' (st_clusters s) ->
  (forall a, In a (cluster_proxies cl') -> placed s a) ->
  shrinks s s'.
Proof.
  intros Hc Hp a (n & cl & Hin & Ha). rewrite Hc in Hin.
  destruct (ainsert_In _ _ _ _ _ Hin) as [[-> ->]|Hold]; [auto|].
  exists n, cl. auto.
Qed.

(* ---------- A. the allocators only hand out free proxies ---------- *)
Lemma alloc_one_free s cnts links taken a b x :
  alloc_one s cnts links taken a b = Done x -> free_in s a /\ free_in s b.
Proof.
  unfold alloc_one. destruct cnts as [|c0 cnts]; [discriminate|].
  destruct (N.eqb (counts_max (c0 :: cnts)) 0); [discriminate|].
  destruct (alookup a (st_proxies s)) as [ra|] eqn:Ea; [|discriminate].
  destruct (alookup b (st_proxies s)) as [rb|] eqn:Eb; [|discriminate].
  destruct (negb (is_free s (a, ra)) || negb (is_free s (b, rb)) || smem a taken || smem b taken || N.eqb a b) eqn:E;
    [discriminate|].
  intros _. repeat (apply orb_false_iff in E; destruct E as [E ?]).
  apply negb_false_iff in E. apply negb_false_iff in H2.
  split; [exists ra|exists rb]; split; auto using alookup_In.
Qed.

Lemma alloc_loop_free s : forall need cnts links taken choices acc pairs,
  alloc_loop s need cnts links taken choices acc = Done pairs ->
  forall a b, In (a, b) pairs -> In (a, b) acc \/ (free_in s a /\ free_in s b).
Proof.
  induction need as [|need IH]; intros cnts links taken choices acc pairs H a b Hin; cbn [alloc_loop] in H.
  - destruct choices; [|discriminate]. inversion H; subst pairs. left. apply in_rev. exact Hin.
  - destruct choices as [|[a0 b0] rest].
    + destruct (alloc_stuck cnts links); discriminate.
    + destruct (alloc_one s cnts links taken a0 b0) as [[cnts' links']|e|] eqn:E1; try discriminate.
      destruct (IH _ _ _ _ _ _ H a b Hin) as [Hacc|Hfree]; [|auto].
      destruct Hacc as [Heq|Hacc]; [|auto]. inversion Heq; subst a0 b0. right.
      apply (alloc_one_free _ _ _ _ _ _ _ E1).
Qed.

Lemma In_firstn {A} (x : A) n l : In x (firstn n l) -> In x l.
Proof.
  revert n. induction l as [|y l IH]; intros n; destruct n as [|n]; cbn [firstn In]; try tauto.
  intros [H|H]; [left; exact H|right; eapply IH; exact H].
Qed.

Lemma insert_by_index_In e l x : In x (insert_by_index e l) -> x = e \/ In x l.
Proof.
  induction l as [|y l IH]; cbn [insert_by_index In].
  - intros [H|[]]; auto.
  - destruct (N.ltb (pr_index (snd e)) (pr_index (snd y))); cbn [In].
    + intros [H|[H|H]]; auto.
    + intros [H|H]; auto. destruct (IH H); auto.
Qed.

Lemma fold_insert_In fp : forall acc x,
  In x (fold_left (fun acc e => insert_by_index e acc) fp acc) -> In x fp \/ In x acc.
Proof.
  induction fp as [|e fp IH]; intros acc x H; cbn [fold_left] in H; [auto|].
  destruct (IH _ _ H) as [H1|H1]; [left; right; exact H1|].
  destruct (insert_by_index_In _ _ _ H1) as [->|H2]; [left; left; reflexivity|auto].
Qed.

Lemma pair_up_In : forall l ps, pair_up l = Some ps -> forall a b, In (a, b) ps ->
  (exists ra, In (a, ra) l) /\ (exists rb, In (b, rb) l).
Proof.
  assert (H : forall n l, (length l <= n)%nat -> forall ps, pair_up l = Some ps -> forall a b, In (a, b) ps ->
               (exists ra, In (a, ra) l) /\ (exists rb, In (b, rb) l)).
  { induction n as [|n IH]; intros l Hlen ps Hp a b Hin.
    - destruct l; [|cbn in Hlen; lia]. cbn in Hp. inversion Hp; subst ps. destruct Hin.
    - destruct l as [|x [|y l]]; cbn [pair_up] in Hp.
      + inversion Hp; subst ps. destruct Hin.
      + discriminate.
      + destruct (pair_up l) as [r|] eqn:E; [|discriminate]. inversion Hp; subst ps.
        destruct Hin as [Heq|Hin].
        * inversion Heq; subst a b. split; [exists (snd x)|exists (snd y)]; cbn [In].
          -- left. destruct x; reflexivity.
          -- right. left. destruct y; reflexivity.
        * destruct (IH l ltac:(cbn in Hlen; lia) r E a b Hin) as [(ra & Ha) (rb & Hb)].
          split; [exists ra|exists rb]; right; right; assumption. }
  intros l. apply (H (length l) l). lia.
Qed.

Lemma gen_chunks_free s k fi choices pairs :
  gen_chunks s k fi choices = Done pairs -> forall a b, In (a, b) pairs -> free_in s a /\ free_in s b.
Proof.
  unfold gen_chunks. destruct (st_ordered s).
  - unfold generate_ordered_chunks.
    destruct (N.ltb (N.of_nat (length (free_proxies s))) k); [discriminate|].
    match goal with |- context [consecutive_from fi ?t] => set (taken := t) end.
    destruct (negb (consecutive_from fi taken)); [discriminate|].
    destruct (pair_up taken) as [ps|] eqn:Ep; [|discriminate].
    intros H a b Hin. inversion H; subst ps.
    assert (Hfree : forall x rx, In (x, rx) taken -> free_in s x).
    { intros x rx Hx. subst taken. apply In_firstn in Hx. apply fold_insert_In in Hx.
      destruct Hx as [Hx|[]]. unfold free_proxies in Hx. apply filter_In in Hx. destruct Hx as [Hx1 Hx2].
      exists rx. auto. }
    destruct (pair_up_In taken pairs Ep a b Hin) as [(ra & Ha) (rb & Hb)].
    split; eauto.
  - unfold generate_free_chunks.
    match goal with |- context [N.ltb (counts_sum ?c) k] => set (cnts := c) end.
    destruct (N.ltb (counts_sum cnts) k); [discriminate|].
    destruct (N.ltb (counts_sum cnts) (2 * counts_max cnts)); [discriminate|].
    intros H a b Hin.
    destruct (alloc_loop_free s _ _ _ _ _ _ _ H a b Hin) as [[]|Hf]. exact Hf.
Qed.

(* ---------- B. chunk lists and their proxies ---------- *)
Definition cps (l : list chunk) : list (list N) := map chunk_proxies l.

Lemma proxies_of_cps a b : cps a = cps b -> flat_map chunk_proxies a = flat_map chunk_proxies b.
Proof. unfold cps. intros H. rewrite !flat_map_concat_map, H. reflexivity. Qed.

Lemma chunks_of_pairs_proxies s ws av rem : forall pairs i curr,
  flat_map chunk_proxies (chunks_of_pairs s pairs ws av rem i curr) = flat_map (fun p => [fst p; snd p]) pairs.
Proof.
  induction pairs as [|[a b] rest IH]; intros i curr; cbn [chunks_of_pairs flat_map]; [reflexivity|].
  rewrite IH. reflexivity.
Qed.

Lemma new_chunks_free s k fi choices pairs ws :
  gen_chunks s k fi choices = Done pairs ->
  forall a, In a (flat_map chunk_proxies (proxy_resource_to_chunk_store s pairs ws)) -> free_in s a.
Proof.
  intros Hg a Ha. unfold proxy_resource_to_chunk_store in Ha. rewrite chunks_of_pairs_proxies in Ha.
  apply in_flat_map in Ha. destruct Ha as ([x y] & Hxy & Ha). cbn [fst snd In] in Ha.
  destruct (gen_chunks_free s k fi choices pairs Hg x y Hxy) as [Hx Hy].
  destruct Ha as [<-|[<-|[]]]; assumption.
Qed.

Lemma chunk_proxies_set_stable c p v : chunk_proxies (set_stable c p v) = chunk_proxies c.
Proof. destruct p; reflexivity. Qed.
Lemma chunk_proxies_set_mig c p v : chunk_proxies (set_mig c p v) = chunk_proxies c.
Proof. destruct p; reflexivity. Qed.
Lemma chunk_proxies_set_role c r : chunk_proxies (set_role c r) = chunk_proxies c.
Proof. reflexivity. Qed.

Lemma cps_update_nth h i l : (forall c, chunk_proxies (h c) = chunk_proxies c) -> cps (update_nth i h l) = cps l.
Proof.
  intros Hh. unfold cps. revert i. induction l as [|c l IH]; intros [|i]; cbn [update_nth map]; try reflexivity.
  - rewrite Hh. reflexivity.
  - rewrite IH. reflexivity.
Qed.

Lemma cps_map h l : (forall c, chunk_proxies (h c) = chunk_proxies c) -> cps (map h l) = cps l.
Proof. intros Hh. unfold cps. rewrite map_map. apply map_ext. exact Hh. Qed.

Lemma assign_dst_slots_cps : forall migs chunks chunks',
  assign_dst_slots chunks migs = Done chunks' -> cps chunks' = cps chunks.
Proof.
  induction migs as [|[rl m] rest IH]; intros chunks chunks' H; cbn [assign_dst_slots] in H.
  - inversion H. reflexivity.
  - destruct (Nat.ltb (mm_src_idx m) (length chunks) && Nat.ltb (mm_dst_idx m) (length chunks)); [|discriminate].
    rewrite (IH _ _ H). rewrite !cps_update_nth; [reflexivity| |]; intros c; apply chunk_proxies_set_mig.
Qed.

Lemma compact_slots_cps chunks : cps (compact_slots chunks) = cps chunks.
Proof. unfold compact_slots. apply cps_map. reflexivity. Qed.

Lemma scale_out_chunks_cps e av rem smn dmn scn : forall chunks idx acc chunks' acc',
  scale_out_chunks e av rem smn dmn scn idx chunks acc = Done (chunks', acc') -> cps chunks' = cps chunks.
Proof.
  induction chunks as [|c rest IH]; intros idx acc chunks' acc' H; cbn [scale_out_chunks] in H.
  - inversion H. reflexivity.
  - cbv zeta in H.
    destruct (ck_stable c false) as [rl0|].
    + destruct (scale_out_loop _ e av rem smn dmn scn idx false rl0 acc) as [[rl0' acc0]|?|]; try discriminate.
      change (ck_stable (set_stable c false (Some rl0')) true) with (ck_stable c true) in H.
      destruct (ck_stable c true) as [rl1|].
      * destruct (scale_out_loop _ e av rem smn dmn scn idx true rl1 acc0) as [[rl1' acc1]|?|]; try discriminate.
        destruct (scale_out_chunks e av rem smn dmn scn (S idx) rest acc1) as [[rest' acc3]|?|] eqn:Er; try discriminate.
        inversion H; subst chunks' acc'. unfold cps in *. cbn [map]. rewrite (IH _ _ _ _ Er).
        rewrite ?chunk_proxies_set_stable. reflexivity.
      * destruct (scale_out_chunks e av rem smn dmn scn (S idx) rest acc0) as [[rest' acc3]|?|] eqn:Er; try discriminate.
        inversion H; subst chunks' acc'. unfold cps in *. cbn [map]. rewrite (IH _ _ _ _ Er).
        rewrite ?chunk_proxies_set_stable. reflexivity.
    + destruct (ck_stable c true) as [rl1|].
      * destruct (scale_out_loop _ e av rem smn dmn scn idx true rl1 acc) as [[rl1' acc1]|?|]; try discriminate.
        destruct (scale_out_chunks e av rem smn dmn scn (S idx) rest acc1) as [[rest' acc3]|?|] eqn:Er; try discriminate.
        inversion H; subst chunks' acc'. unfold cps in *. cbn [map]. rewrite (IH _ _ _ _ Er).
        rewrite ?chunk_proxies_set_stable. reflexivity.
      * destruct (scale_out_chunks e av rem smn dmn scn (S idx) rest acc) as [[rest' acc3]|?|] eqn:Er; try discriminate.
        inversion H; subst chunks' acc'. unfold cps in *. cbn [map]. rewrite (IH _ _ _ _ Er). reflexivity.
Qed.

Lemma scale_down_chunks_cps e av rem dmn ex : forall chunks idx acc chunks' acc',
  scale_down_chunks e av rem dmn ex idx chunks acc = Done (chunks', acc') -> cps chunks' = cps chunks.
Proof.
  induction chunks as [|c rest IH]; intros idx acc chunks' acc' H; cbn [scale_down_chunks] in H.
  - inversion H. reflexivity.
  - cbv zeta in H.
    destruct (ck_stable c false) as [rl0|].
    + destruct (scale_down_loop _ e av rem dmn ex idx false rl0 acc) as [[rl0' acc0]|?|]; try discriminate.
      change (ck_stable (set_stable c false None) true) with (ck_stable c true) in H.
      destruct (ck_stable c true) as [rl1|].
      * destruct (scale_down_loop _ e av rem dmn ex idx true rl1 acc0) as [[rl1' acc1]|?|]; try discriminate.
        destruct (scale_down_chunks e av rem dmn ex (S idx) rest acc1) as [[rest' acc3]|?|] eqn:Er; try discriminate.
        inversion H; subst chunks' acc'. unfold cps in *. cbn [map]. rewrite (IH _ _ _ _ Er).
        rewrite ?chunk_proxies_set_stable. reflexivity.
      * destruct (scale_down_chunks e av rem dmn ex (S idx) rest acc0) as [[rest' acc3]|?|] eqn:Er; try discriminate.
        inversion H; subst chunks' acc'. unfold cps in *. cbn [map]. rewrite (IH _ _ _ _ Er).
        rewrite ?chunk_proxies_set_stable. reflexivity.
    + destruct (ck_stable c true) as [rl1|].
      * destruct (scale_down_loop _ e av rem dmn ex idx true rl1 acc) as [[rl1' acc1]|?|]; try discriminate.
        destruct (scale_down_chunks e av rem dmn ex (S idx) rest acc1) as [[rest' acc3]|?|] eqn:Er; try discriminate.
        inversion H; subst chunks' acc'. unfold cps in *. cbn [map]. rewrite (IH _ _ _ _ Er).
        rewrite ?chunk_proxies_set_stable. reflexivity.
      * destruct (scale_down_chunks e av rem dmn ex (S idx) rest acc) as [[rest' acc3]|?|] eqn:Er; try discriminate.
        inversion H; subst chunks' acc'. unfold cps in *. cbn [map]. rewrite (IH _ _ _ _ Er). reflexivity.
Qed.

Lemma remove_slots_from_src_cps cl e chunks migs :
  remove_slots_from_src cl e = Done (chunks, migs) -> cps chunks = cps (cl_chunks cl).
Proof.
  unfold remove_slots_from_src.
  match goal with |- context [scale_out_chunks ?a ?b ?c ?d ?e0 ?f ?g ?h ?i] =>
    destruct (scale_out_chunks a b c d e0 f g h i) as [[ch acc]|?|] eqn:E end; try discriminate.
  intros H. inversion H; subst. apply (scale_out_chunks_cps _ _ _ _ _ _ _ _ _ _ _ E).
Qed.

Lemma remove_slots_scale_down_cps cl e k chunks migs :
  remove_slots_from_src_to_scale_down cl e k = Done (chunks, migs) -> cps chunks = cps (cl_chunks cl).
Proof.
  unfold remove_slots_from_src_to_scale_down.
  destruct (existing_nums (firstn k (cl_chunks cl))) as [ex|]; [|discriminate].
  match goal with |- context [scale_down_chunks ?a ?b ?c ?d ?e0 ?f ?g ?h] =>
    destruct (scale_down_chunks a b c d e0 f g h) as [[ch acc]|?|] eqn:E end; try discriminate.
  intros H. inversion H; subst. apply scale_down_chunks_cps in E.
  unfold cps in *. rewrite map_app, E, <- map_app, firstn_skipn. reflexivity.
Qed.

Lemma commit_in_cps rl meta : forall chunks, cps (commit_in chunks rl meta) = cps chunks.
Proof.
  induction chunks as [|c rest IH]; cbn [commit_in]; [reflexivity|]. cbv zeta.
  destruct (remove_first _ (ck_mig0 c)) as [[e0 l0]|].
  - unfold cps. cbn [map]. f_equal.
    change (ck_stable (set_mig c false l0) false) with (ck_stable c false).
    destruct (ck_stable c false); rewrite chunk_proxies_set_stable; reflexivity.
  - destruct (remove_first _ (ck_mig1 c)) as [[e1 l1]|].
    + unfold cps. cbn [map]. f_equal.
      change (ck_stable (set_mig c true l1) true) with (ck_stable c true).
      destruct (ck_stable c true); rewrite chunk_proxies_set_stable; reflexivity.
    + unfold cps in *. cbn [map]. rewrite IH. reflexivity.
Qed.

Lemma takeover_first_cps : forall chunks f e chunks' ps,
  takeover_first chunks f e = Some (chunks', ps) -> cps chunks' = cps chunks.
Proof.
  induction chunks as [|c rest IH]; intros f e chunks' ps H; cbn [takeover_first] in H.
  - inversion H. reflexivity.
  - destruct (N.eqb (ck_proxy0 c) f).
    + destruct (role_eqb (ck_role c) RSecond); [discriminate|]. inversion H; subst.
      unfold cps. cbn [map]. f_equal. destruct (role_eqb (ck_role c) RFirst); reflexivity.
    + destruct (N.eqb (ck_proxy1 c) f).
      * destruct (role_eqb (ck_role c) RFirst); [discriminate|]. inversion H; subst.
        unfold cps. cbn [map]. f_equal. destruct (role_eqb (ck_role c) RSecond); reflexivity.
      * destruct (takeover_first rest f e) as [[rest' ps']|] eqn:E; [|discriminate].
        inversion H; subst. unfold cps in *. cbn [map]. rewrite (IH _ _ _ _ E). reflexivity.
Qed.

Lemma takeover_master_proxies cl f e : cluster_proxies (takeover_master cl f e) = cluster_proxies cl.
Proof.
  unfold takeover_master, cluster_proxies.
  destruct (takeover_first (cl_chunks cl) f e) as [[chunks' ps]|] eqn:E; [|reflexivity].
  cbn [cl_chunks]. apply proxies_of_cps. rewrite cps_map; [|reflexivity]. apply (takeover_first_cps _ _ _ _ _ E).
Qed.

Lemma replace_in_chunks_proxies f r rr : forall chunks a,
  In a (flat_map chunk_proxies (replace_in_chunks chunks f r rr)) -> In a (flat_map chunk_proxies chunks) \/ a = r.
Proof.
  induction chunks as [|c rest IH]; intros a H; cbn [replace_in_chunks] in H; [auto|].
  destruct (N.eqb (ck_proxy0 c) f).
  - cbn [flat_map chunk_proxies ck_proxy0 ck_proxy1 app In] in *. destruct H as [H|[H|H]]; auto.
  - destruct (N.eqb (ck_proxy1 c) f).
    + cbn [flat_map chunk_proxies ck_proxy0 ck_proxy1 app In] in *. destruct H as [H|[H|H]]; auto.
    + cbn [flat_map] in *. apply in_app_iff in H. destruct H as [H|H].
      * left. apply in_app_iff. auto.
      * destruct (IH a H) as [H1|H1]; [left; apply in_app_iff; auto|auto].
Qed.

Lemma tag_proxies_In c : forall addrs ps a ra,
  In (a, ra) (tag_proxies ps addrs c) -> In (a, ra) ps \/ In a addrs.
Proof.
  induction addrs as [|x rest IH]; intros ps a ra H; cbn [tag_proxies] in H; [auto|].
  destruct (IH _ _ _ H) as [H1|H1]; [|right; right; exact H1].
  destruct (alookup x ps) as [r|]; [|auto].
  destruct (ainsert_In _ _ _ _ _ H1) as [[-> _]|H2]; [right; left; reflexivity|auto].
Qed.

(* ---------- C. every operation ---------- *)
(* peel argument checks of the form `if b then (s, error) else ...` whose error branch leaves the clusters alone *)
Ltac peel :=
  repeat match goal with
  | |- alloc_ok _ (fst (if ?b then _ else _)) => destruct b; [apply shrinks_alloc_ok, shrinks_same; reflexivity|]
  | |- shrinks _ (fst (if ?b then _ else _)) => destruct b; [apply shrinks_same; reflexivity|]
  end.
Lemma add_cluster_ok s name k cfg ch : alloc_ok s (fst (add_cluster s name k cfg ch)).
Proof.
  unfold add_cluster. peel.
  destruct (gen_chunks s (k / 2) 0 ch) as [pairs|?|] eqn:Eg; try (apply shrinks_alloc_ok, shrinks_refl).
  cbn [fst]. eapply alloc_ok_insert; [reflexivity|].
  intros a Ha. right. unfold cluster_proxies in Ha. cbn [cl_chunks] in Ha.
  apply (new_chunks_free _ _ _ _ _ _ Eg a Ha).
Qed.

Lemma remove_cluster_shrinks s name : shrinks s (fst (remove_cluster s name)).
Proof.
  unfold remove_cluster. destruct (alookup name (st_clusters s)); [|apply shrinks_refl].
  cbn [fst]. intros a (n & cl & Hin & Ha). cbn in Hin. apply aremove_In in Hin. exists n, cl. auto.
Qed.

Lemma auto_add_nodes_ok s name k ch : alloc_ok s (fst (auto_add_nodes s name k ch)).
Proof.
  unfold auto_add_nodes. destruct (alookup name (st_clusters s)) as [cl|] eqn:El; [|apply shrinks_alloc_ok, shrinks_refl].
  peel.
  destruct (gen_chunks _ _ _ ch) as [pairs|?|] eqn:Eg; try (apply shrinks_alloc_ok, shrinks_refl).
  cbn [fst]. eapply alloc_ok_insert; [reflexivity|].
  intros a Ha. unfold cluster_proxies in Ha. cbn [cl_chunks] in Ha. rewrite flat_map_app in Ha.
  apply in_app_iff in Ha. destruct Ha as [Ha|Ha].
  - left. apply (placed_lookup s name cl a El Ha).
  - right. apply (new_chunks_free _ _ _ _ _ _ Eg a Ha).
Qed.

Lemma auto_scale_up_ok s name k ch : alloc_ok s (fst (auto_scale_up_nodes s name k ch)).
Proof.
  unfold auto_scale_up_nodes. destruct (alookup name (st_clusters s)); [|apply shrinks_alloc_ok, shrinks_refl].
  peel. apply auto_add_nodes_ok.
Qed.

Lemma auto_delete_shrinks s name : shrinks s (fst (auto_delete_free_nodes s name)).
Proof.
  unfold auto_delete_free_nodes. destruct (alookup name (st_clusters s)) as [cl|] eqn:El; [|apply shrinks_refl].
  destruct (cluster_is_migrating cl); [apply shrinks_refl|].
  destruct (filter chunk_is_free (cl_chunks cl)) as [|c0 rm] eqn:Ef; [apply shrinks_refl|].
  cbn [fst]. eapply shrinks_insert; [reflexivity|].
  intros a Ha. apply (placed_lookup s name cl a El). unfold cluster_proxies in *. cbn [cl_chunks] in Ha.
  apply in_flat_map in Ha. destruct Ha as (c & Hc & Ha). apply filter_In in Hc. apply in_flat_map. exists c. tauto.
Qed.

Lemma auto_delete_if_exists_fst s name :
  fst (auto_delete_free_nodes_if_exists s name) = fst (auto_delete_free_nodes s name).
Proof.
  unfold auto_delete_free_nodes_if_exists. destruct (auto_delete_free_nodes s name) as [s' [x|e|]]; try reflexivity.
  destruct e; reflexivity.
Qed.

(* proxies released by auto_delete_free_nodes were members of the cluster *)
Lemma auto_delete_free_back s name a :
  free_in (fst (auto_delete_free_nodes s name)) a -> free_in s a \/ placed s a.
Proof.
  unfold auto_delete_free_nodes. destruct (alookup name (st_clusters s)) as [cl|] eqn:El; [|auto].
  destruct (cluster_is_migrating cl); [auto|].
  destruct (filter chunk_is_free (cl_chunks cl)) as [|c0 rm] eqn:Ef; [auto|].
  cbn [fst]. intros (ra & Hin & Hfree). cbn [st_proxies bump with_epoch with_proxies] in Hin.
  apply tag_proxies_In in Hin. destruct Hin as [Hin|Hin].
  - left. exists ra. split; [exact Hin|exact Hfree].
  - right. apply (placed_lookup s name cl a El). unfold cluster_proxies. rewrite <- Ef in Hin.
    apply in_flat_map in Hin. destruct Hin as (c & Hc & Ha). apply filter_In in Hc. apply in_flat_map. exists c. tauto.
Qed.

Lemma migrate_slots_shrinks s name : shrinks s (fst (migrate_slots s name)).
Proof.
  unfold migrate_slots. change (st_clusters (bump s)) with (st_clusters s).
  destruct (alookup name (st_clusters s)) as [cl|] eqn:El; [|apply shrinks_same; reflexivity].
  peel.
  destruct (remove_slots_from_src cl _) as [[chunks migs]|?|] eqn:Er; try (apply shrinks_same; reflexivity).
  destruct (assign_dst_slots chunks migs) as [chunks'|?|] eqn:Ea; try (apply shrinks_same; reflexivity).
  cbn [fst]. eapply shrinks_insert; [reflexivity|].
  intros a Ha. apply (placed_lookup s name cl a El). unfold cluster_proxies in *. cbn [cl_chunks] in Ha.
  rewrite (proxies_of_cps _ (cl_chunks cl)) in Ha; [exact Ha|].
  rewrite compact_slots_cps, (assign_dst_slots_cps _ _ _ Ea). apply (remove_slots_from_src_cps _ _ _ _ Er).
Qed.

Lemma scale_down_shrinks s name k : shrinks s (fst (migrate_slots_to_scale_down s name k)).
Proof.
  unfold migrate_slots_to_scale_down. change (st_clusters (bump s)) with (st_clusters s).
  destruct (alookup name (st_clusters s)) as [cl|] eqn:El; [|apply shrinks_same; reflexivity].
  peel.
  destruct (remove_slots_from_src_to_scale_down cl _ _) as [[chunks migs]|?|] eqn:Er; try (apply shrinks_same; reflexivity).
  destruct (assign_dst_slots chunks migs) as [chunks'|?|] eqn:Ea; try (apply shrinks_same; reflexivity).
  cbn [fst]. eapply shrinks_insert; [reflexivity|].
  intros a Ha. apply (placed_lookup s name cl a El). unfold cluster_proxies in *. cbn [cl_chunks] in Ha.
  rewrite (proxies_of_cps _ (cl_chunks cl)) in Ha; [exact Ha|].
  rewrite compact_slots_cps, (assign_dst_slots_cps _ _ _ Ea). apply (remove_slots_scale_down_cps _ _ _ _ _ Er).
Qed.

Lemma commit_migration_shrinks s name rl tag e : shrinks s (fst (commit_migration s name rl tag e)).
Proof.
  unfold commit_migration.
  destruct (alookup name (st_clusters s)) as [cl|] eqn:El; [|apply shrinks_refl].
  destruct tag; try apply shrinks_refl.
  - destruct (find_entry_chunks 0 (cl_chunks cl) rl e true) as [[si sp]|]; [|apply shrinks_refl].
    destruct (find_entry_chunks 0 (cl_chunks cl) rl e false) as [[di dp]|]; [|apply shrinks_refl].
    cbn [fst]. eapply shrinks_insert; [reflexivity|].
    intros a Ha. apply (placed_lookup s name cl a El). unfold cluster_proxies in *. cbn [cl_chunks] in Ha.
    rewrite (proxies_of_cps _ (cl_chunks cl)) in Ha; [exact Ha|].
    rewrite compact_slots_cps, commit_in_cps. apply cps_map. intros c. rewrite !chunk_proxies_set_mig. reflexivity.
  - destruct (find_entry_chunks 0 (cl_chunks cl) rl e true) as [[si sp]|]; [|apply shrinks_refl].
    destruct (find_entry_chunks 0 (cl_chunks cl) rl e false) as [[di dp]|]; [|apply shrinks_refl].
    cbn [fst]. eapply shrinks_insert; [reflexivity|].
    intros a Ha. apply (placed_lookup s name cl a El). unfold cluster_proxies in *. cbn [cl_chunks] in Ha.
    rewrite (proxies_of_cps _ (cl_chunks cl)) in Ha; [exact Ha|].
    rewrite compact_slots_cps, commit_in_cps. apply cps_map. intros c. rewrite !chunk_proxies_set_mig. reflexivity.
Qed.

Lemma commit_api_shrinks s name rl tag e clr : shrinks s (fst (commit_migration_api s name rl tag e clr)).
Proof.
  unfold commit_migration_api.
  pose proof (commit_migration_shrinks s name rl tag e) as H.
  destruct (commit_migration s name rl tag e) as [s1 [[]|?|]]; cbn [fst] in *; try exact H.
  destruct clr; [|exact H]. rewrite auto_delete_if_exists_fst.
  eapply shrinks_trans; [exact H|apply auto_delete_shrinks].
Qed.

Lemma auto_scale_out_shrinks s name k : shrinks s (fst (auto_scale_out_node_number s name k)).
Proof.
  unfold auto_scale_out_node_number. destruct (alookup name (st_clusters s)); [|apply shrinks_refl].
  destruct (N.ltb _ _); [apply migrate_slots_shrinks|apply shrinks_refl].
Qed.

Lemma alloc_ok_after_delete s name s2 :
  alloc_ok (fst (auto_delete_free_nodes s name)) s2 -> alloc_ok s s2.
Proof.
  intros H a Ha. destruct (H a Ha) as [Hp|Hf].
  - left. apply (auto_delete_shrinks s name a Hp).
  - destruct (auto_delete_free_back s name a Hf); auto.
Qed.

Lemma auto_change_ok s name k ch : alloc_ok s (fst (auto_change_node_number s name k ch)).
Proof.
  unfold auto_change_node_number.
  destruct (alookup name (st_clusters s)) as [cl|]; [|apply shrinks_alloc_ok, shrinks_refl].
  destruct (cluster_is_migrating cl); [apply shrinks_alloc_ok, shrinks_refl|].
  pose proof (alloc_ok_after_delete s name) as Hafter.
  pose proof (auto_delete_shrinks s name) as Hdel.
  destruct (auto_delete_free_nodes s name) as [s1 r1]. cbn [fst] in Hafter, Hdel.
  assert (Htail : forall s2 : store,
            alloc_ok s (fst (match alookup name (st_clusters s1) with
                             | None => (s1, Fail E_ClusterNotFound)
                             | Some cl1 =>
                               if N.eqb (4 * N.of_nat (length (cl_chunks cl1))) k then (s1, Done NoOp)
                               else if N.ltb (4 * N.of_nat (length (cl_chunks cl1))) k then
                                 match auto_scale_up_nodes s1 name k ch with
                                 | (s2, Done _) => (s2, Done ScaleOut)
                                 | (s2, Fail e) => (s2, Fail e)
                                 | (s2, Panic) => (s2, Panic)
                                 end
                               else
                                 match migrate_slots_to_scale_down s1 name k with
                                 | (s2, Done _) => (s2, Done ScaleDown)
                                 | (s2, Fail e) => (s2, Fail e)
                                 | (s2, Panic) => (s2, Panic)
                                 end
                             end))).
  { intros _. destruct (alookup name (st_clusters s1)) as [cl1|]; [|apply shrinks_alloc_ok, Hdel].
    destruct (N.eqb _ k); [apply shrinks_alloc_ok, Hdel|].
    destruct (N.ltb _ k).
    - apply Hafter. pose proof (auto_scale_up_ok s1 name k ch) as H2.
      destruct (auto_scale_up_nodes s1 name k ch) as [s2 [x|e|]]; exact H2.
    - apply Hafter. apply shrinks_alloc_ok. pose proof (scale_down_shrinks s1 name k) as H2.
      destruct (migrate_slots_to_scale_down s1 name k) as [s2 [x|e|]]; exact H2. }
  destruct r1 as [x|e|].
  - apply (Htail s).
  - destruct e; try (apply shrinks_alloc_ok, Hdel). apply (Htail s).
  - apply shrinks_alloc_ok, Hdel.
Qed.

Lemma replace_failed_ok s f ch : alloc_ok s (fst (replace_failed_proxy s f ch)).
Proof.
  unfold replace_failed_proxy.
  destruct (alookup f (st_proxies s)) as [fr|] eqn:Ef; [|apply shrinks_alloc_ok, shrinks_refl].
  destruct (pr_cluster fr) as [name|] eqn:En; [|apply shrinks_alloc_ok, shrinks_same; reflexivity].
  change (st_clusters (bump s)) with (st_clusters s).
  destruct (alookup name (st_clusters s)) as [cl|] eqn:El; [|apply shrinks_alloc_ok, shrinks_same; reflexivity].
  set (clt := takeover_master cl f (st_epoch (bump s))).
  assert (Hclt : forall a, In a (cluster_proxies clt) -> placed s a).
  { intros a Ha. subst clt. rewrite takeover_master_proxies in Ha. apply (placed_lookup s name cl a El Ha). }
  cbn [st_ordered with_clusters].
  destruct (st_ordered (bump s)).
  { cbn [fst]. apply shrinks_alloc_ok. eapply shrinks_insert; [reflexivity|exact Hclt]. }
  match goal with |- context [generate_new_free_proxy ?x f ch] => set (s3 := x) end.
  assert (H3 : shrinks s s3) by (eapply shrinks_insert; [reflexivity|exact Hclt]).
  destruct (generate_new_free_proxy s3 f ch) as [r|e|] eqn:Eg; try (apply shrinks_alloc_ok; exact H3).
  destruct (gen_new_free_done s3 f ch r Eg) as (rr & Hr & Hfree).
  change (st_proxies s3) with (st_proxies s) in Hr.
  assert (Hfree_s : free_in s r).
  { exists rr. split; [apply alookup_In; exact Hr|].
    unfold is_free in *. cbn [fst snd] in *. destruct (pr_cluster rr); [discriminate|].
    subst s3. cbn [st_failed st_failures with_failed with_clusters] in Hfree.
    rewrite smem_sinsert in Hfree.
    destruct (N.eqb r f); cbn [orb negb andb] in Hfree; [discriminate|]. exact Hfree. }
  change (st_clusters (bump s3)) with (ainsert name clt (st_clusters s)).
  rewrite alookup_ainsert_same. cbn [fst].
  intros a (n & c0 & Hin & Ha).
  cbn [st_clusters with_proxies with_clusters] in Hin.
  change (st_clusters (bump s3)) with (ainsert name clt (st_clusters s)) in Hin.
  destruct (ainsert_In _ _ _ _ _ Hin) as [[-> ->]|Hold].
  - unfold cluster_proxies in Ha. cbn [cl_chunks] in Ha. apply replace_in_chunks_proxies in Ha.
    destruct Ha as [Ha| ->]; [left; apply Hclt; exact Ha|right; exact Hfree_s].
  - destruct (ainsert_In _ _ _ _ _ Hold) as [[-> ->]|Hold2]; [left; apply Hclt; exact Ha|].
    left. exists n, c0. auto.
Qed.

Lemma balance_shrinks s name : shrinks s (fst (balance_masters s name)).
Proof.
  unfold balance_masters. destruct (alookup name (st_clusters s)) as [cl|] eqn:El; [|apply shrinks_refl].
  cbn [fst]. eapply shrinks_insert; [reflexivity|].
  intros a Ha. apply (placed_lookup s name cl a El). unfold cluster_proxies in *. cbn [cl_chunks] in Ha.
  rewrite (proxies_of_cps _ (cl_chunks cl)) in Ha; [exact Ha|].
  apply cps_map. intros c. destruct (_ || _); reflexivity.
Qed.

Lemma change_config_shrinks s name v cfg : shrinks s (fst (change_config s name v cfg)).
Proof.
  unfold change_config. destruct (alookup name (st_clusters s)) as [cl|] eqn:El; [|apply shrinks_refl].
  peel.
  cbn [fst]. eapply shrinks_insert; [reflexivity|].
  intros a Ha. apply (placed_lookup s name cl a El). exact Ha.
Qed.

Lemma set_all_epochs_shrinks s e : shrinks s (set_all_cluster_epochs s e).
Proof.
  intros a (n & cl & Hin & Ha). unfold set_all_cluster_epochs in Hin. cbn [st_clusters with_clusters] in Hin.
  apply in_map_iff in Hin. destruct Hin as ([n0 cl0] & Heq & Hin0). cbn [fst snd] in Heq. inversion Heq; subst.
  exists n, cl0. split; [exact Hin0|exact Ha].
Qed.

Lemma lift_unit_fst r : fst (lift_unit r) = fst r.
Proof. destruct r as [s [x|e|]]; reflexivity. Qed.

Lemma add_failure_clusters s a r now : st_clusters (fst (add_failure s a r now)) = st_clusters s.
Proof. unfold add_failure. match goal with |- context [if ?b then _ else _] => destruct b end; reflexivity. Qed.

(* MAIN: every operation except the wholesale restore of a snapshot *)
Lemma step_alloc_ok : forall s o, (forall snap, o <> ORestore snap) -> alloc_ok s (fst (step s o)).
Proof.
  intros s o Hnr. destruct o; cbn [step]; rewrite ?lift_unit_fst.
  - apply shrinks_alloc_ok, shrinks_same. unfold add_proxy.
    destruct (if st_ordered s then index else Some 0); [|reflexivity].
    cbn [fst]. destruct (negb _ || _); reflexivity.
  - apply shrinks_alloc_ok, shrinks_same. unfold remove_proxy.
    destruct (alookup addr (st_proxies s)) as [r|]; [|reflexivity]. destruct (pr_cluster r); reflexivity.
  - apply add_cluster_ok.
  - apply shrinks_alloc_ok, remove_cluster_shrinks.
  - apply auto_add_nodes_ok.
  - apply auto_scale_up_ok.
  - apply shrinks_alloc_ok, auto_delete_shrinks.
  - apply shrinks_alloc_ok, migrate_slots_shrinks.
  - apply shrinks_alloc_ok, scale_down_shrinks.
  - apply shrinks_alloc_ok, commit_api_shrinks.
  - destruct (nth_out_entry s name j); rewrite lift_unit_fst; apply shrinks_alloc_ok, commit_api_shrinks.
  - pose proof (auto_change_ok s name expected choices) as H.
    destruct (auto_change_node_number s name expected choices) as [s' [x|e|]]; exact H.
  - apply shrinks_alloc_ok, auto_scale_out_shrinks.
  - pose proof (replace_failed_ok s addr choice) as H.
    destruct (replace_failed_proxy s addr choice) as [s' [x|e|]]; exact H.
  - apply shrinks_alloc_ok, balance_shrinks.
  - apply shrinks_alloc_ok, change_config_shrinks.
  - pose proof (add_failure_clusters s addr reporter now) as H.
    destruct (add_failure s addr reporter now) as [s' b]. apply shrinks_alloc_ok, shrinks_same. exact H.
  - apply shrinks_alloc_ok, shrinks_same. reflexivity.
  - apply shrinks_alloc_ok, shrinks_same. reflexivity.
  - apply shrinks_alloc_ok. unfold force_bump_all_epoch. destruct (N.leb e (st_epoch s)); [apply shrinks_refl|apply set_all_epochs_shrinks].
  - apply shrinks_alloc_ok. cbn [fst]. apply set_all_epochs_shrinks.
  - exfalso. apply (Hnr snapshot). reflexivity.
Qed.

(* the statement with every definition unfolded *)
Lemma never_allocate_failed : forall s o, (forall snap, o <> ORestore snap) ->
  forall n cl' a, In (n, cl') (st_clusters (fst (step s o))) -> In a (cluster_proxies cl') ->
    (exists n0 cl, In (n0, cl) (st_clusters s) /\ In a (cluster_proxies cl))
    \/ (exists ra, In (a, ra) (st_proxies s) /\ is_free s (a, ra) = true /\ pr_cluster ra = None
                   /\ smem a (st_failed s) = false /\ amem a (st_failures s) = false).
Proof.
  intros s o Hnr n cl' a Hin Ha.
  destruct (step_alloc_ok s o Hnr a) as [Hp|Hf]; [exists n, cl'; auto|left; exact Hp|right].
  destruct (free_in_spec s a Hf) as (H1 & H2 & _). destruct Hf as (ra & Hra & Hfree).
  exists ra. split; [exact Hra|]. split; [exact Hfree|]. split; [|auto].
  unfold is_free in Hfree. cbn [snd] in Hfree. destruct (pr_cluster ra); [discriminate|reflexivity].
Qed.

(* the three allocators: new chunks (unordered: alloc_one's validity test; ordered: free_proxies) and the replacement *)
Lemma allocators_free : forall s,
  (forall k fi choices pairs a b, gen_chunks s k fi choices = Done pairs -> In (a, b) pairs ->
     (exists ra, In (a, ra) (st_proxies s) /\ is_free s (a, ra) = true)
     /\ (exists rb, In (b, rb) (st_proxies s) /\ is_free s (b, rb) = true))
  /\ (forall f ch r, generate_new_free_proxy s f ch = Done r ->
        exists rr, alookup r (st_proxies s) = Some rr /\ is_free s (r, rr) = true).
Proof.
  intros s. split.
  - intros k fi choices pairs a b Hg Hin. apply (gen_chunks_free s k fi choices pairs Hg a b Hin).
  - intros f ch r H. apply (gen_new_free_done s f ch r H).
Qed.
