(* C06: ownership across the whole of replace_failed_proxy (takeover_master followed, when a spare proxy exists, by the
   replacement loop that renames the failed proxy and its two nodes). *)
From UM Require Import Base.BytesDef Model.Ranges Model.Broker Proofs.BrokerBase Proofs.BrokerFailoverStruct
  Proofs.BrokerFailoverTakeover Proofs.BrokerFailoverStore.

(* the replacement loop on the chunk it stops at *)
Definition replace_chunk (pos : bool) (r : N) (rr : presource) (c : chunk) : chunk :=
  if pos
  then mkChunk (ck_role c) (ck_stable0 c) (ck_stable1 c) (ck_mig0 c) (ck_mig1 c) (ck_proxy0 c) r (ck_host0 c) (pr_host rr)
               (ck_n0 c) (ck_n1 c) (pr_n0 rr) (pr_n1 rr)
  else mkChunk (ck_role c) (ck_stable0 c) (ck_stable1 c) (ck_mig0 c) (ck_mig1 c) r (ck_proxy1 c) (pr_host rr) (ck_host1 c)
               (pr_n0 rr) (pr_n1 rr) (ck_n2 c) (ck_n3 c).

Lemma replace_in_chunks_spec : forall chunks f r rr i c pos,
  first_at chunks f i c pos ->
  replace_in_chunks chunks f r rr = update_nth i (replace_chunk pos r rr) chunks.
Proof.
  induction chunks as [|c0 rest IH]; intros f r rr i c pos (Hn & Hp & Hp0 & Hb).
  - destruct i; discriminate.
  - destruct i as [|i].
    + cbn [nth_error] in Hn. inversion Hn; subst c0; clear Hn.
      cbn [replace_in_chunks update_nth]. destruct pos; cbn [ck_proxy] in Hp.
      * assert (E0 : N.eqb (ck_proxy0 c) f = false) by (apply N.eqb_neq; apply Hp0; reflexivity).
        rewrite E0. subst f. rewrite N.eqb_refl. reflexivity.
      * subst f. rewrite N.eqb_refl. reflexivity.
    + cbn [nth_error] in Hn. cbn [replace_in_chunks update_nth].
      destruct (Hb 0%nat c0 ltac:(lia) eq_refl) as [H0 H1].
      apply N.eqb_neq in H0. apply N.eqb_neq in H1. rewrite H0, H1.
      rewrite (IH f r rr i c pos); [reflexivity|].
      split; [exact Hn|]. split; [exact Hp|]. split; [exact Hp0|].
      intros j cj Hj Hcj. apply (Hb (S j) cj); [lia|exact Hcj].
Qed.

Lemma first_at_takeover : forall cl f e i c pos,
  first_at (cl_chunks cl) f i c pos -> exists c', first_at (cl_chunks (takeover_master cl f e)) f i c' pos.
Proof.
  intros cl f e i c pos Hf. destruct (role_eqb (ck_role c) (new_role pos)) eqn:Hr.
  - rewrite (takeover_early cl f e i c pos Hf Hr). eauto.
  - destruct (first_at_after cl f e i c pos Hf Hr) as (c' & Hf' & _). eauto.
Qed.

(* the owners of the new role sit on the partner position, which the replacement does not touch *)
Lemma replace_chunk_owner pos r rr c p :
  ck_node (replace_chunk pos r rr c) (part_node_index p (new_role pos)) = ck_node c (part_node_index p (new_role pos))
  /\ ck_proxy (replace_chunk pos r rr c) (part_proxy_index p (new_role pos)) = ck_proxy c (part_proxy_index p (new_role pos)).
Proof. destruct pos, p; split; reflexivity. Qed.

Lemma replace_ownership : forall s f ch fr name cl i c pos,
  alookup f (st_proxies s) = Some fr -> pr_cluster fr = Some name -> alookup name (st_clusters s) = Some cl ->
  first_at (cl_chunks cl) f i c pos ->
  exists cl', alookup name (st_clusters (fst (replace_failed_proxy s f ch))) = Some cl'
    /\ length (cl_chunks cl') = length (cl_chunks cl)
    /\ forall j cj, nth_error (cl_chunks cl) j = Some cj ->
         exists cj', nth_error (cl_chunks cl') j = Some cj'
           /\ (forall p, ck_stable cj' p = ck_stable cj p)
           /\ (forall p, Forall2 same_but_epoch (ck_mig cj p) (ck_mig cj' p))
           /\ ck_role cj' = (if Nat.eqb j i then new_role pos else ck_role cj)
           /\ (forall p,
                 ck_node cj' (part_node_index p (ck_role cj'))
                 = (if Nat.eqb j i && Bool.eqb (part_proxy_index p (ck_role cj)) pos
                    then ck_node cj (peer_idx (part_node_index p (ck_role cj)))
                    else ck_node cj (part_node_index p (ck_role cj)))
                 /\ ck_proxy cj' (part_proxy_index p (ck_role cj'))
                    = (if Nat.eqb j i && Bool.eqb (part_proxy_index p (ck_role cj)) pos
                       then ck_proxy cj (negb pos)
                       else ck_proxy cj (part_proxy_index p (ck_role cj))))
           /\ (j <> i -> (forall k, ck_node cj' k = ck_node cj k) /\ (forall b, ck_proxy cj' b = ck_proxy cj b)).
Proof.
  intros s f ch fr name cl i c pos Hf Hn Hcl Hfirst.
  set (e := st_epoch s + 1).
  destruct (takeover_ownership cl f e i c pos Hfirst) as (Hlen & Hch & Ht1 & Ht2 & Ht3 & _).
  (* owner of part p of chunk j in terms of the chunk before *)
  assert (Hown : forall j cj cjt, nth_error (cl_chunks cl) j = Some cj ->
            (forall k, ck_node cjt k = ck_node cj k) -> (forall b, ck_proxy cjt b = ck_proxy cj b) ->
            ck_role cjt = (if Nat.eqb j i then new_role pos else ck_role cj) ->
            forall p, ck_node cjt (part_node_index p (ck_role cjt))
                      = (if Nat.eqb j i && Bool.eqb (part_proxy_index p (ck_role cj)) pos
                         then ck_node cj (peer_idx (part_node_index p (ck_role cj)))
                         else ck_node cj (part_node_index p (ck_role cj)))
                      /\ ck_proxy cjt (part_proxy_index p (ck_role cjt))
                         = (if Nat.eqb j i && Bool.eqb (part_proxy_index p (ck_role cj)) pos
                            then ck_proxy cj (negb pos)
                            else ck_proxy cj (part_proxy_index p (ck_role cj)))).
  { intros j cj cjt Hj Hnode Hprox Hrole p. rewrite Hnode, Hprox, Hrole.
    destruct (Nat.eqb j i) eqn:Eji; cbn [andb]; [|split; reflexivity].
    apply Nat.eqb_eq in Eji. subst j. assert (cj = c) by (destruct Hfirst as (H & _); congruence). subst cj.
    rewrite Ht1.
    destruct (Bool.eqb (part_proxy_index p (ck_role c)) pos) eqn:Ep.
    - apply Bool.eqb_prop in Ep. rewrite (Ht2 p Ep). split; reflexivity.
    - assert (Ep' : part_proxy_index p (ck_role c) = negb pos)
        by (destruct (part_proxy_index p (ck_role c)), pos; cbn in Ep |- *; congruence).
      rewrite (Ht3 p Ep'), Ep'. split; reflexivity. }
  destruct (replace_cluster_case s f ch fr name cl Hf Hn Hcl) as (_ & _ & [(Hl & _)|(r & rr & _ & _ & _ & _ & Hl & _)]);
    fold e in Hl.
  - (* no replacement: the cluster is the result of takeover_master *)
    eexists. split; [exact Hl|]. split; [exact Hlen|].
    intros j cj Hj. destruct (Hch j cj Hj) as (cjt & Hjt & Hst & Hmig & Hnode & Hprox & Hrole).
    exists cjt. split; [exact Hjt|]. split; [exact Hst|]. split; [exact Hmig|]. split; [exact Hrole|].
    split; [apply (Hown j cj cjt Hj Hnode Hprox Hrole)|]. intros _. split; assumption.
  - eexists. split; [exact Hl|]. cbn [cl_chunks].
    destruct (first_at_takeover cl f e i c pos Hfirst) as (ct & Hft).
    rewrite (replace_in_chunks_spec _ f r rr i ct pos Hft).
    split; [rewrite length_update_nth; exact Hlen|].
    intros j cj Hj. destruct (Hch j cj Hj) as (cjt & Hjt & Hst & Hmig & Hnode & Hprox & Hrole).
    rewrite nth_error_update_nth, Hjt. cbn [option_map].
    pose proof (Hown j cj cjt Hj Hnode Hprox Hrole) as Ho.
    destruct (Nat.eqb j i) eqn:Eji.
    + exists (replace_chunk pos r rr cjt). split; [reflexivity|].
      split; [intros p; rewrite <- Hst; destruct pos, p; reflexivity|].
      split; [intros p; replace (ck_mig (replace_chunk pos r rr cjt) p) with (ck_mig cjt p) by (destruct pos, p; reflexivity);
              apply Hmig|].
      assert (Hr' : ck_role (replace_chunk pos r rr cjt) = new_role pos) by (rewrite <- Hrole; destruct pos; reflexivity).
      split; [exact Hr'|].
      split.
      * intros p. rewrite Hr'. destruct (replace_chunk_owner pos r rr cjt p) as [-> ->].
        specialize (Ho p). rewrite Hrole in Ho. exact Ho.
      * intros Hne. apply Nat.eqb_eq in Eji. contradiction.
    + exists cjt. split; [reflexivity|]. split; [exact Hst|]. split; [exact Hmig|]. split; [exact Hrole|].
      split; [|intros _; split; assumption].
      exact Ho.
Qed.
