(* C02: a concrete mid-migration cluster view satisfying the hypotheses of the theorems, concrete chases, and witnesses showing
   what happens for phase pairs OUTSIDE the consistent list (reachable only after the max_blocking_time time-out of scan_task.rs). *)
From UM Require Import Base.BytesDef Model.Ranges Model.Broker Model.Route
     Proofs.BrokerPartRanges Proofs.BrokerPartDefs Proofs.RouteProofs Proofs.RouteProofsDyn.
From Coq Require Import ZifyBool ZifyNat ZifyN.

(* 8 proxies, a cluster on proxies 2 and 4, two more proxies (8, 6) added, migration started:
   4096-8191 moves node 4 @ proxy 2 -> node 16 @ proxy 8, 12288-16383 moves node 8 @ proxy 4 -> node 12 @ proxy 6 *)
Definition ex_ops : list op :=
  [OAddProxy 1 (Some 11) None; OAddProxy 2 (Some 12) None; OAddProxy 3 (Some 10) None; OAddProxy 4 (Some 11) None;
   OAddProxy 5 (Some 12) None; OAddProxy 6 (Some 10) None; OAddProxy 7 (Some 11) None; OAddProxy 8 (Some 12) None;
   OAddCluster 1 4 1 [(2, 4)]; OAutoAddNodes 1 4 [(8, 6)]; OMigrateSlots 1].

Definition ns_ex : list vnode :=
  Eval vm_compute in match view_cluster 0 (run (init_store false) ex_ops) 1 with Some (Some v) => vc_nodes v | _ => [] end.

Lemma ex_owned : view_owned ns_ex = [(0, 4095); (4096, 8191); (8192, 12287); (12288, 16383)].
Proof. vm_compute. reflexivity. Qed.

Lemma ex_partition : partition_ok ns_ex.
Proof.
  constructor.
  - intros s. rewrite ex_owned. unfold cnt. cbn [filter]. unfold in_range. cbn [fst snd].
    destruct (N.ltb s SLOT_NUM) eqn:E0;
      destruct (N.leb 0 s && N.leb s 4095) eqn:E1; destruct (N.leb 4096 s && N.leb s 8191) eqn:E2;
      destruct (N.leb 8192 s && N.leb s 12287) eqn:E3; destruct (N.leb 12288 s && N.leb s 16383) eqn:E4;
      cbn [length]; unfold SLOT_NUM in *; lia.
  - intros n Hn Hm. unfold ns_ex in Hn. cbn [In] in Hn.
    repeat (destruct Hn as [<-|Hn]; [cbn in Hm |- *; first [discriminate|reflexivity]|]). destruct Hn.
  - intros x Hx.
    assert (E : tagged false ns_ex =
      [(4, 2, [(4096, 8191)], mkVMeta 11 2 4 8 16); (8, 4, [(12288, 16383)], mkVMeta 11 4 8 6 12)]) by (vm_compute; reflexivity).
    rewrite E in Hx. destruct Hx as [<-|[<-|[]]]; eexists; (split; [vm_compute; reflexivity|cbn; repeat split; reflexivity]).
  - intros y Hy.
    assert (E : tagged true ns_ex =
      [(16, 8, [(4096, 8191)], mkVMeta 11 2 4 8 16); (12, 6, [(12288, 16383)], mkVMeta 11 4 8 6 12)]) by (vm_compute; reflexivity).
    rewrite E in Hy. destruct Hy as [<-|[<-|[]]].
    + exists (4, 2, [(4096, 8191)], mkVMeta 11 2 4 8 16). split; [vm_compute; auto|vm_compute; reflexivity].
    + exists (8, 4, [(12288, 16383)], mkVMeta 11 4 8 6 12). split; [vm_compute; auto|vm_compute; reflexivity].
Qed.

Lemma ex_wf : view_wfb ns_ex = true.
Proof. vm_compute. reflexivity. Qed.

Definition ph_all (p : mphase) : phases := fun _ _ => p.

(* all eight consistent pairs (with the barrier flag as the handshake sets it) are accepted *)
Lemma ex_phases_ok :
  forallb (fun p => phases_ok (ph_all p) ns_ex)
    [mkPhase SPreCheck false DPreCheck; mkPhase SPreBlocking false DPreCheck; mkPhase SPreBlocking true DPreCheck;
     mkPhase SPreSwitch true DPreCheck; mkPhase SPreSwitch true DPreSwitch; mkPhase SScanning true DPreSwitch;
     mkPhase SScanning false DPreSwitch; mkPhase SFinalSwitch false DPreSwitch; mkPhase SFinalSwitch false DSwitchCommitted;
     mkPhase SSwitchCommitted false DSwitchCommitted] = true.
Proof. vm_compute. reflexivity. Qed.

(* a chase with two redirections: bystander 6 -> destination 8 (still PreCheck) -> source 2, executed on node 4 *)
Lemma ex_path_precheck :
  path (ph_all (mkPhase SPreCheck false DPreCheck)) (install_ns ns_ex) 5000 6 [(6, Moved 8); (8, Moved 2); (2, Exec 4)].
Proof.
  apply path_cons; [vm_compute; auto|]. apply path_cons; [vm_compute; auto|]. apply path_one. vm_compute. auto.
Qed.

(* behind the barrier: the source parks the command, the destination already serves it *)
Lemma ex_path_preswitch :
  path (ph_all (mkPhase SPreSwitch true DPreSwitch)) (install_ns ns_ex) 5000 6 [(6, Moved 2); (2, Queued 4)]
  /\ path (ph_all (mkPhase SPreSwitch true DPreSwitch)) (install_ns ns_ex) 5000 6 [(6, Moved 8); (8, Exec 16)]
  /\ designated (ph_all (mkPhase SPreSwitch true DPreSwitch)) ns_ex 5000 = Some 16.
Proof.
  split; [|split].
  - apply path_cons; [vm_compute; auto|]. apply path_one. vm_compute. auto.
  - apply path_cons; [vm_compute; auto|]. apply path_one. vm_compute. auto.
  - vm_compute. reflexivity.
Qed.

(* the extracted boolean form of the theorems holds for every slot and every start proxy of the example in every consistent phase
   (65536 chases per phase) - a sanity check of chase_okb, which the check also evaluates on every real broker state *)
Lemma ex_chase_ok_sample :
  forallb (fun s => forallb (fun p => chase_okb (ph_all (mkPhase SPreSwitch true DPreSwitch)) ns_ex s p) [2; 4; 6; 8])
          [0; 4095; 4096; 5000; 8191; 8192; 12287; 12288; 16383] = true.
Proof. vm_compute. reflexivity. Qed.

(* ---------- outside the consistent pairs ---------- *)
(* (FinalSwitch, PreCheck): reachable when the blocking phase timed out before PRESWITCH was delivered and the scan then finished
   before FINALSWITCH was delivered: source and destination send the client to each other until FINALSWITCH arrives *)
Lemma ex_pingpong_outside_consistent_pairs :
  let ph := ph_all (mkPhase SFinalSwitch false DPreCheck) in
  phases_ok ph ns_ex = false /\
  path ph (install_ns ns_ex) 5000 2 [(2, Moved 8); (8, Moved 2); (2, Moved 8); (8, Moved 2); (2, Moved 8)].
Proof.
  split; [vm_compute; reflexivity|].
  do 4 (apply path_cons; [vm_compute; auto|]). apply path_one. vm_compute. auto.
Qed.

(* (PreSwitch without barrier, PreSwitch): reachable when PRESWITCH was applied by the destination but max_blocking_time expired at
   the source before the reply arrived: both sides execute locally, on different nodes *)
Lemma ex_split_outside_consistent_pairs :
  let ph := ph_all (mkPhase SPreSwitch false DPreSwitch) in
  phases_ok ph ns_ex = false /\
  route_step ph (install_ns ns_ex 2) 5000 = [Exec 4] /\ route_step ph (install_ns ns_ex 8) 5000 = [Exec 16].
Proof. repeat split; vm_compute; reflexivity. Qed.

(* ---------- the handshake advancing during a chase: the bound 3 is reached ---------- *)
Definition ph_pc := ph_all (mkPhase SPreCheck false DPreCheck).
Definition ph_scan := ph_all (mkPhase SScanning false DPreSwitch).

Lemma ex_dynamic_three :
  dpath (install_ns ns_ex) 5000 [ph_pc; ph_pc; ph_scan; ph_scan] 6 [(6, Moved 8); (8, Moved 2); (2, Moved 8); (8, Exec 16)]
  /\ chain [ph_pc; ph_pc; ph_scan; ph_scan]
  /\ Forall (fun ph => phases_ok ph ns_ex = true) [ph_pc; ph_pc; ph_scan; ph_scan]
  /\ redirections [(6, Moved 8); (8, Moved 2); (2, Moved 8); (8, Exec 16)] = 3%nat
  /\ designated ph_scan ns_ex 5000 = Some 16.
Proof.
  split; [|split; [|split; [|split]]].
  - do 3 (apply dpath_cons; [vm_compute; auto|]). apply dpath_one. vm_compute. auto.
  - cbn [chain]. repeat split; intros rl m i j Hi Hj; vm_compute in Hi, Hj; inversion Hi; inversion Hj; subst; lia.
  - repeat constructor; vm_compute; reflexivity.
  - vm_compute. reflexivity.
  - vm_compute. reflexivity.
Qed.
