(* Basic lemmas for the wire model: byte-string equality, decimal tokens, split/join, case mapping. *)
From UM Require Import Base.BytesDef Base.Dec Model.Wire.
From Coq Require Import ZifyBool ZifyNat ZifyN.

Lemma beqb_eq : forall a b, bytes_eqb a b = true <-> a = b.
Proof.
  induction a as [|x a IH]; intros [|y b]; cbn [bytes_eqb]; split; intros H; try discriminate; auto.
  - apply andb_true_iff in H. destruct H as [H1 H2]. apply N.eqb_eq in H1. apply IH in H2. congruence.
  - inversion H; subst. rewrite N.eqb_refl. cbn. apply IH. reflexivity.
Qed.

Lemma beqb_refl : forall a, bytes_eqb a a = true.
Proof. intros a. apply beqb_eq. reflexivity. Qed.

Lemma beqb_neq : forall a b, bytes_eqb a b = false <-> a <> b.
Proof.
  intros a b. split.
  - intros H E. apply beqb_eq in E. congruence.
  - intros H. destruct (bytes_eqb a b) eqn:E; [|reflexivity]. apply beqb_eq in E. contradiction.
Qed.

Lemma beqb_sym : forall a b, bytes_eqb a b = bytes_eqb b a.
Proof.
  intros a b. destruct (bytes_eqb a b) eqn:E.
  - apply beqb_eq in E. subst. symmetry. apply beqb_refl.
  - symmetry. apply beqb_neq. apply beqb_neq in E. congruence.
Qed.

(* ---------- decimal tokens ---------- *)
Definition all_digits (l : bytes) : bool := forallb is_digit l.

Lemma to_dec_digits : forall n, all_digits (to_dec n) = true.
Proof. intros n. apply (to_dec_spec n). Qed.

Lemma to_dec_nonempty : forall n, to_dec n <> [].
Proof. intros n. apply (to_dec_spec n). Qed.

Lemma to_dec_cons : forall n, exists c r, to_dec n = c :: r /\ is_digit c = true /\ all_digits r = true.
Proof.
  intros n. pose proof (to_dec_digits n) as Hd. pose proof (to_dec_nonempty n) as Hn.
  destruct (to_dec n) as [|c r]; [congruence|]. exists c, r. cbn in Hd. apply andb_true_iff in Hd. tauto.
Qed.

Lemma parse_u64_to_dec : forall n, n <= u64_max -> parse_u64 (to_dec n) = Some n.
Proof.
  intros n Hn. destruct (to_dec_cons n) as (c & r & E & Hc & Hr).
  unfold parse_u64. rewrite E. unfold is_digit in Hc.
  destruct (N.eqb c 43) eqn:E43; [lia|]. rewrite <- E. apply btou_to_dec. exact Hn.
Qed.

Lemma parse_u64_bound : forall t n, parse_u64 t = Some n -> n <= u64_max.
Proof.
  intros t n H. unfold parse_u64 in H. destruct t as [|c r]; [discriminate|].
  assert (G : forall l, btou u64_max l = Some n -> n <= u64_max).
  { intros l Hb. unfold btou in Hb. destruct l as [|x l']; [discriminate|].
    destruct (btou_acc_sound _ _ _ _ Hb) as [(_ & _ & Hm)|(Hx & _)]; [exact Hm|discriminate]. }
  destruct (N.eqb c 43); eapply G; eassumption.
Qed.

(* ---------- case mapping ---------- *)
Lemma upper_digit : forall c, is_digit c = true -> upper_byte c = c.
Proof. intros c H. unfold is_digit in H. unfold upper_byte. destruct ((97 <=? c) && (c <=? 122)) eqn:E; lia. Qed.

Lemma to_upper_digits : forall l, all_digits l = true -> to_upper l = l.
Proof.
  induction l as [|c l IH]; intros H; cbn in *; [reflexivity|].
  apply andb_true_iff in H. destruct H as [Hc Hl]. rewrite (upper_digit c Hc). f_equal. apply IH. exact Hl.
Qed.

Lemma to_dec_upper : forall n, to_upper (to_dec n) = to_dec n.
Proof. intros n. apply to_upper_digits. apply to_dec_digits. Qed.

(* a decimal token is never one of the keywords *)
Lemma digits_not_alpha_kw : forall l k c r, all_digits l = true -> k = c :: r -> is_digit c = false -> bytes_eqb l k = false.
Proof.
  intros l k c r Hd -> Hc. apply beqb_neq. intros E. subst l. cbn in Hd. rewrite Hc in Hd. discriminate.
Qed.

Lemma to_dec_not_kw : forall n k c r, k = c :: r -> is_digit c = false -> bytes_eqb (to_upper (to_dec n)) k = false.
Proof. intros. rewrite to_dec_upper. eapply digits_not_alpha_kw; eauto. apply to_dec_digits. Qed.

(* ---------- split / join ---------- *)
Lemma split_on_nonempty : forall d l, split_on d l <> [].
Proof.
  intros d l. induction l as [|c l IH]; cbn [split_on]; [discriminate|].
  destruct (c =? d); [discriminate|]. destruct (split_on d l); discriminate.
Qed.

Lemma split_on_app : forall d a b, existsb (N.eqb d) a = false ->
  split_on d (a ++ d :: b) = a :: split_on d b.
Proof.
  intros d a b. induction a as [|c a IH]; intros H; cbn [app split_on].
  - rewrite N.eqb_refl. reflexivity.
  - cbn [existsb] in H. apply orb_false_iff in H. destruct H as [H1 H2].
    rewrite N.eqb_sym, H1. rewrite (IH H2). reflexivity.
Qed.

Lemma split_on_none : forall d a, existsb (N.eqb d) a = false -> split_on d a = [a].
Proof.
  intros d a. induction a as [|c a IH]; intros H; cbn [split_on]; [reflexivity|].
  cbn [existsb] in H. apply orb_false_iff in H. destruct H as [H1 H2].
  rewrite N.eqb_sym, H1. rewrite (IH H2). reflexivity.
Qed.

Lemma digits_no_byte : forall d l, is_digit d = false -> all_digits l = true -> existsb (N.eqb d) l = false.
Proof.
  intros d l Hd. induction l as [|c l IH]; intros H; cbn in *; [reflexivity|].
  apply andb_true_iff in H. destruct H as [Hc Hl]. rewrite (IH Hl).
  destruct (N.eqb d c) eqn:E; [|reflexivity]. apply N.eqb_eq in E. subst. congruence.
Qed.

Lemma parse_range_tok_range_tok : forall s e, s <= u64_max -> e <= u64_max -> parse_range_tok (range_tok (s, e)) = Some (s, e).
Proof.
  intros s e Hs He. unfold parse_range_tok, range_tok. cbn [fst snd].
  rewrite split_on_app by (apply digits_no_byte; [reflexivity|apply to_dec_digits]).
  rewrite split_on_none by (apply digits_no_byte; [reflexivity|apply to_dec_digits]).
  rewrite !parse_u64_to_dec by assumption. reflexivity.
Qed.

Lemma join_sp_cons : forall t l, l <> [] -> join_sp (t :: l) = t ++ c_SP :: join_sp l.
Proof. intros t [|x l] H; [congruence|reflexivity]. Qed.

Lemma split_join : forall l, l <> [] -> forallb no_space l = true -> split_on c_SP (join_sp l) = l.
Proof.
  induction l as [|t l IH]; intros Hne Hns; [congruence|].
  cbn [forallb] in Hns. apply andb_true_iff in Hns. destruct Hns as [Ht Hl].
  unfold no_space in Ht. apply negb_true_iff in Ht.
  destruct l as [|u l'].
  - cbn [join_sp]. apply split_on_none. exact Ht.
  - rewrite join_sp_cons by discriminate. rewrite split_on_app by exact Ht.
    rewrite IH; [reflexivity|discriminate|exact Hl].
Qed.

Lemma digits_no_space : forall l, all_digits l = true -> no_space l = true.
Proof. intros l H. unfold no_space. rewrite (digits_no_byte c_SP l); auto. Qed.
