(* Concurrent part of C05: invariants of the small-step model of update_replicators (arbitrary thread pool, arbitrary
   schedule) and of set_meta. *)
From UM Require Import Base.BytesDef Model.Epoch Proofs.EpochProofs.
From Coq Require Import ZifyBool ZifyNat ZifyN.

(* ---------- the step relation over an arbitrary pool ---------- *)

Inductive step (h : bytes) : gstate * list thread -> gstate * list thread -> Prop :=
| step_thread : forall g g' l1 t t' l2,
    tstep h g t = Some (g', t') -> step h (g, l1 ++ t :: l2) (g', l1 ++ t' :: l2).

Inductive steps (h : bytes) : gstate * list thread -> gstate * list thread -> Prop :=
| steps_refl : forall x, steps h x x
| steps_step : forall x y z, steps h x y -> step h y z -> steps h x z.

Definition t_epoch (t : thread) : N := rm_epoch (t_msg t).
Definition t_force (t : thread) : bool := flag_force (rm_flags (t_msg t)).

(* has executed updating_epoch.store(epoch) and not returned yet *)
Definition stored (t : thread) : Prop :=
  match t_pc t with PSnap | PLock _ | PLate _ => True | _ => False end.
(* has passed the early check and not returned yet *)
Definition flying (t : thread) : Prop :=
  match t_pc t with PStore | PSnap | PLock _ | PLate _ => True | _ => False end.

(* ---------- inversion of one thread action ---------- *)

Lemma tstep_msg : forall h g t g' t', tstep h g t = Some (g', t') -> t_msg t' = t_msg t.
Proof.
  intros h g t g' t' H. unfold tstep in H.
  destruct (t_pc t); try destruct (g_locked g);
    try destruct (negb (flag_force (rm_flags (t_msg t))) && N.leb (rm_epoch (t_msg t)) (g_epoch g));
    try discriminate; inversion H; reflexivity.
Qed.

(* case analysis used by every invariant proof *)
Lemma tstep_cases : forall h g t g' t', tstep h g t = Some (g', t') ->
  let m := t_msg t in
  t_msg t' = m /\
  ( (t_pc t = PHost /\ g' = g /\ (t_pc t' = PLoad \/ t_pc t' = PDone R_NOT_MY_META))
 \/ (t_pc t = PLoad /\ g' = g /\
       ((t_pc t' = PDone R_OLD_EARLY /\ t_force t = false /\ t_epoch t <= g_updating g) \/
        (t_pc t' = PStore /\ (t_force t = true \/ g_updating g < t_epoch t))))
 \/ (t_pc t = PStore /\ t_pc t' = PSnap /\ g_updating g' = t_epoch t /\ g_epoch g' = g_epoch g /\
       g_roles g' = g_roles g /\ g_locked g' = g_locked g /\ g_hist g' = g_hist g)
 \/ (t_pc t = PSnap /\ g' = g /\ g_locked g = false /\ t_pc t' = PLock (g_roles g))
 \/ (exists snap, t_pc t = PLock snap /\ g_locked g = false /\ t_pc t' = PLate (g_epoch g) /\
       t_force t = false /\ t_epoch t <= g_epoch g /\
       g_updating g' = g_updating g /\ g_epoch g' = g_epoch g /\ g_roles g' = g_roles g /\
       g_locked g' = true /\ g_hist g' = g_hist g)
 \/ (exists snap, t_pc t = PLock snap /\ g_locked g = false /\ t_pc t' = PDone R_OK /\
       (t_force t = true \/ g_epoch g < t_epoch t) /\
       g_updating g' = g_updating g /\ g_epoch g' = t_epoch t /\ g_roles g' = new_roles snap m /\
       g_locked g' = false /\ g_hist g' = t_epoch t :: g_hist g)
 \/ (exists v, t_pc t = PLate v /\ t_pc t' = PDone R_OLD_LATE /\
       g_updating g' = v /\ g_epoch g' = g_epoch g /\ g_roles g' = g_roles g /\
       g_locked g' = false /\ g_hist g' = g_hist g) ).
Proof.
  intros h g t g' t' H m. split; [eapply tstep_msg; eauto|]. unfold tstep in H. unfold t_force, t_epoch.
  destruct (t_pc t) as [| | | |snap|v|r] eqn:Epc.
  - left. inversion H; subst. cbn [t_pc]. split; [reflexivity|]. split; [reflexivity|].
    destruct (repl_hosts_ok h (t_msg t)); auto.
  - right; left. inversion H; subst. cbn [t_pc]. split; [reflexivity|]. split; [reflexivity|].
    destruct (flag_force (rm_flags (t_msg t))) eqn:Ef; cbn [negb andb].
    + right. auto.
    + destruct (N.leb (rm_epoch (t_msg t)) (g_updating g')) eqn:El.
      * left. split; [reflexivity|]. split; [reflexivity|lia].
      * right. split; [reflexivity|]. right. lia.
  - right; right; left. inversion H; subst. cbn. repeat split; reflexivity.
  - right; right; right; left. destruct (g_locked g) eqn:Elk; [discriminate|]. inversion H; subst.
    cbn [t_pc]. repeat split; auto.
  - destruct (g_locked g) eqn:Elk; [discriminate|].
    destruct (flag_force (rm_flags (t_msg t))) eqn:Ef; cbn [negb andb] in H.
    + do 5 right; left. exists snap. inversion H; subst. cbn. repeat split; auto.
    + destruct (N.leb (rm_epoch (t_msg t)) (g_epoch g)) eqn:El.
      * do 4 right; left. exists snap. inversion H; subst. cbn. repeat split; auto. lia.
      * do 5 right; left. exists snap. inversion H; subst. cbn. repeat split; auto. right. lia.
  - do 6 right. exists v. inversion H; subst. cbn. repeat split; reflexivity.
  - discriminate.
Qed.

(* ---------- list plumbing ---------- *)

Lemma in_mid : forall {A} (x t : A) l1 l2, In x (l1 ++ t :: l2) <-> x = t \/ In x (l1 ++ l2).
Proof.
  intros A x t l1 l2. rewrite !in_app_iff. cbn [In]. split.
  - intros [H|[H|H]]; auto.
  - intros [H|[H|H]]; auto.
Qed.

Lemma in_mid_other : forall {A} (x t t' : A) l1 l2, In x (l1 ++ t :: l2) -> x = t \/ In x (l1 ++ t' :: l2).
Proof.
  intros A x t t' l1 l2 H. apply in_mid in H. destruct H as [H|H]; [left; exact H|].
  right. apply in_mid. right. exact H.
Qed.

Lemma in_mid_self : forall {A} (t : A) l1 l2, In t (l1 ++ t :: l2).
Proof. intros. apply in_mid. left. reflexivity. Qed.

(* ---------- T1: what one step can do to the installed (epoch, roles) ---------- *)

Lemma step_installs : forall h g pool g' pool', step h (g, pool) (g', pool') ->
  (g_epoch g' = g_epoch g /\ g_roles g' = g_roles g /\ g_hist g' = g_hist g)
  \/ (exists l1 t t' l2 snap, pool = l1 ++ t :: l2 /\ pool' = l1 ++ t' :: l2 /\
        t_pc t = PLock snap /\ t_pc t' = PDone R_OK /\ t_msg t' = t_msg t /\
        (t_force t = true \/ g_epoch g < t_epoch t) /\
        g_epoch g' = t_epoch t /\ g_roles g' = new_roles snap (t_msg t) /\
        (rp_wf (t_msg t) = true -> g_roles g' = roles_of (t_msg t)) /\
        g_hist g' = t_epoch t :: g_hist g).
Proof.
  intros h g pool g' pool' H. inversion H as [g0 g0' l1 t t' l2 Ht]; subst.
  destruct (tstep_cases _ _ _ _ _ Ht) as (Hm & C).
  destruct C as [(_ & -> & _)|[(_ & -> & _)|[(_ & _ & _ & E & R & _ & Hh)|[(_ & -> & _)|[(snap & _ & _ & _ & _ & _ & _ & E & R & _ & Hh)
              |[(snap & Hpc & _ & Hpc' & Hc & _ & E & R & _ & Hh)|(v & _ & _ & _ & E & R & _ & Hh)]]]]]]; auto.
  right. exists l1, t, t', l2, snap. repeat split; auto.
  intros W. rewrite R. apply new_roles_wf. exact W.
Qed.

(* ---------- invariants for arbitrary pools (forced messages allowed) ---------- *)

Record inv_any (e0 : N) (x : gstate * list thread) : Prop := {
  ia_epoch_hist : In (g_epoch (fst x)) (g_hist (fst x));
  ia_late : forall t v, In t (snd x) -> t_pc t = PLate v -> In v (g_hist (fst x));
  ia_updating : In (g_updating (fst x)) (g_hist (fst x))
                \/ exists t, In t (snd x) /\ stored t /\ t_epoch t = g_updating (fst x);
  ia_hist : forall e, In e (g_hist (fst x)) ->
              e = e0 \/ exists t, In t (snd x) /\ t_pc t = PDone R_OK /\ t_epoch t = e
}.

Lemma inv_any_init : forall e0 r ms, inv_any e0 (g_init e0 r, start_pool ms).
Proof.
  intros e0 r ms. constructor; cbn [fst snd g_init g_epoch g_hist g_updating].
  - left. reflexivity.
  - intros t v Hin Hpc. unfold start_pool in Hin. apply in_map_iff in Hin. destruct Hin as (m & <- & _).
    discriminate.
  - left. left. reflexivity.
  - intros e [<-|[]]. left. reflexivity.
Qed.

Lemma inv_any_step : forall h e0 x y, inv_any e0 x -> step h x y -> inv_any e0 y.
Proof.
  intros h e0 x y [I1 I2 I3 I4] H. inversion H as [g g' l1 t t' l2 Ht]; subst. cbn [fst snd] in *.
  destruct (tstep_cases _ _ _ _ _ Ht) as (Hm & C).
  assert (Hepoch' : t_epoch t' = t_epoch t) by (unfold t_epoch; rewrite Hm; reflexivity).
  (* keep threads other than the mover *)
  assert (Hother : forall x0, In x0 (l1 ++ t' :: l2) -> x0 = t' \/ In x0 (l1 ++ t :: l2)).
  { intros x0 Hx. eapply in_mid_other. exact Hx. }
  assert (Hfwd : forall x0, In x0 (l1 ++ t :: l2) -> x0 = t \/ In x0 (l1 ++ t' :: l2)).
  { intros x0 Hx. eapply in_mid_other. exact Hx. }
  destruct C as [(Hpc & -> & Hpc')|[(Hpc & -> & Hpc')|[(Hpc & Hpc' & Eu & Ee & Er & El & Eh)|[(Hpc & -> & Hl & Hpc')
              |[(snap & Hpc & Hl & Hpc' & Hf & Hle & Eu & Ee & Er & El & Eh)
              |[(snap & Hpc & Hl & Hpc' & Hc & Eu & Ee & Er & El & Eh)|(v & Hpc & Hpc' & Eu & Ee & Er & El & Eh)]]]]]].
  - (* PHost *)
    constructor; cbn [fst snd].
    + exact I1.
    + intros x0 v Hin Hp. destruct (Hother _ Hin) as [->|Hin0]; [destruct Hpc' as [E|E]; congruence|eauto].
    + destruct I3 as [I3|(x0 & Hin & Hs & He)]; [left; exact I3|right].
      destruct (Hfwd _ Hin) as [->|Hin']; [unfold stored in Hs; rewrite Hpc in Hs; contradiction|].
      exists x0. auto.
    + intros e He. destruct (I4 e He) as [E|(x0 & Hin & Hp & Hx)]; [left; exact E|right].
      destruct (Hfwd _ Hin) as [->|Hin']; [congruence|]. exists x0. auto.
  - (* PLoad *)
    constructor; cbn [fst snd].
    + exact I1.
    + intros x0 v Hin Hp. destruct (Hother _ Hin) as [->|Hin0]; [destruct Hpc' as [(E & _)|(E & _)]; congruence|eauto].
    + destruct I3 as [I3|(x0 & Hin & Hs & He)]; [left; exact I3|right].
      destruct (Hfwd _ Hin) as [->|Hin']; [unfold stored in Hs; rewrite Hpc in Hs; contradiction|].
      exists x0. auto.
    + intros e He. destruct (I4 e He) as [E|(x0 & Hin & Hp & Hx)]; [left; exact E|right].
      destruct (Hfwd _ Hin) as [->|Hin']; [congruence|]. exists x0. auto.
  - (* PStore *)
    constructor; cbn [fst snd].
    + rewrite Ee, Eh. exact I1.
    + intros x0 v Hin Hp. rewrite Eh. destruct (Hother _ Hin) as [->|Hin0]; [congruence|eauto].
    + right. exists t'. split; [apply in_mid_self|]. split; [unfold stored; rewrite Hpc'; exact I|].
      rewrite Eu. exact Hepoch'.
    + intros e He. rewrite Eh in He. destruct (I4 e He) as [E|(x0 & Hin & Hp & Hx)]; [left; exact E|right].
      destruct (Hfwd _ Hin) as [->|Hin']; [congruence|]. exists x0. auto.
  - (* PSnap *)
    constructor; cbn [fst snd].
    + exact I1.
    + intros x0 v Hin Hp. destruct (Hother _ Hin) as [->|Hin0]; [congruence|eauto].
    + destruct I3 as [I3|(x0 & Hin & Hs & He)]; [left; exact I3|right].
      destruct (Hfwd _ Hin) as [->|Hin'].
      * exists t'. split; [apply in_mid_self|]. split; [unfold stored; rewrite Hpc'; exact I|]. congruence.
      * exists x0. auto.
    + intros e He. destruct (I4 e He) as [E|(x0 & Hin & Hp & Hx)]; [left; exact E|right].
      destruct (Hfwd _ Hin) as [->|Hin']; [congruence|]. exists x0. auto.
  - (* PLock -> PLate *)
    constructor; cbn [fst snd].
    + rewrite Ee, Eh. exact I1.
    + intros x0 v Hin Hp. rewrite Eh. destruct (Hother _ Hin) as [->|Hin0].
      * rewrite Hpc' in Hp. inversion Hp; subst v. exact I1.
      * eauto.
    + rewrite Eu, Eh. destruct I3 as [I3|(x0 & Hin & Hs & He)]; [left; exact I3|right].
      destruct (Hfwd _ Hin) as [->|Hin'].
      * exists t'. split; [apply in_mid_self|]. split; [unfold stored; rewrite Hpc'; exact I|]. congruence.
      * exists x0. auto.
    + intros e He. rewrite Eh in He. destruct (I4 e He) as [E|(x0 & Hin & Hp & Hx)]; [left; exact E|right].
      destruct (Hfwd _ Hin) as [->|Hin']; [congruence|]. exists x0. auto.
  - (* PLock -> install *)
    constructor; cbn [fst snd].
    + rewrite Ee, Eh. left. reflexivity.
    + intros x0 v Hin Hp. rewrite Eh. right. destruct (Hother _ Hin) as [->|Hin0]; [congruence|eauto].
    + rewrite Eu, Eh. destruct I3 as [I3|(x0 & Hin & Hs & He)]; [left; right; exact I3|].
      destruct (Hfwd _ Hin) as [->|Hin'].
      * left. left. exact He.
      * right. exists x0. auto.
    + intros e He. rewrite Eh in He. destruct He as [<-|He].
      * right. exists t'. split; [apply in_mid_self|]. split; [exact Hpc'|exact Hepoch'].
      * destruct (I4 e He) as [E|(x0 & Hin & Hp & Hx)]; [left; exact E|right].
        destruct (Hfwd _ Hin) as [->|Hin']; [congruence|]. exists x0. auto.
  - (* PLate -> done *)
    constructor; cbn [fst snd].
    + rewrite Ee, Eh. exact I1.
    + intros x0 v0 Hin Hp. rewrite Eh. destruct (Hother _ Hin) as [->|Hin0]; [congruence|eauto].
    + rewrite Eu, Eh. left. eapply I2; [apply in_mid_self|exact Hpc].
    + intros e He. rewrite Eh in He. destruct (I4 e He) as [E|(x0 & Hin & Hp & Hx)]; [left; exact E|right].
      destruct (Hfwd _ Hin) as [->|Hin']; [congruence|]. exists x0. auto.
Qed.

Lemma inv_any_reach : forall h e0 r ms y, steps h (g_init e0 r, start_pool ms) y -> inv_any e0 y.
Proof.
  intros h e0 r ms y H. remember (g_init e0 r, start_pool ms) as x eqn:Ex.
  induction H as [x|x y z Hxy IH Hyz].
  - subst x. apply inv_any_init.
  - eapply inv_any_step; [apply IH; exact Ex|exact Hyz].
Qed.

(* T2: a non-forced message rejected by the optimistic check had, at that moment, a message with an epoch at least
   its own that either had been installed at some earlier time (or was the initial epoch) or had stored its epoch
   into updating_epoch and not yet returned *)
Lemma early_reject_justified : forall h e0 r ms g pool,
  steps h (g_init e0 r, start_pool ms) (g, pool) ->
  forall t g' t', In t pool -> tstep h g t = Some (g', t') -> t_pc t' = PDone R_OLD_EARLY ->
  t_pc t = PLoad /\ g' = g /\ t_force t = false /\ t_epoch t <= g_updating g /\
  ((exists e, In e (g_hist g) /\ t_epoch t <= e /\
              (e = e0 \/ exists t1, In t1 pool /\ t_pc t1 = PDone R_OK /\ t_epoch t1 = e)) \/
   (exists t2, In t2 pool /\ stored t2 /\ t_epoch t <= t_epoch t2)).
Proof.
  intros h e0 r ms g pool Hreach t g' t' Hin Ht Hpc'.
  pose proof (inv_any_reach _ _ _ _ _ Hreach) as [_ _ I3 I4]. cbn [fst snd] in I3, I4.
  destruct (tstep_cases _ _ _ _ _ Ht) as (Hm & C).
  destruct C as [(Hq & _ & [Hq'|Hq'])|[(Hq & Hg & [(Hq' & Hf & Hle)|(Hq' & _)])|[(Hq & Hq' & _)|[(Hq & _ & _ & Hq')
            |[(s & Hq & _ & Hq' & _)|[(s & Hq & _ & Hq' & _)|(v & Hq & Hq' & _)]]]]]]; try congruence.
  split; [exact Hq|]. split; [exact Hg|]. split; [exact Hf|]. split; [exact Hle|].
  destruct I3 as [I3|(t2 & Hin2 & Hs & He)].
  - left. exists (g_updating g). split; [exact I3|]. split; [exact Hle|]. apply I4. exact I3.
  - right. exists t2. split; [exact Hin2|]. split; [exact Hs|]. lia.
Qed.

(* ---------- pools without forced messages (what the coordinator sends) ---------- *)

Definition covered (x : gstate * list thread) (e : N) : Prop :=
  e <= g_epoch (fst x) \/ exists t, In t (snd x) /\ flying t /\ e <= t_epoch t.

Record inv_nf (x : gstate * list thread) : Prop := {
  nf_noforce : forall t, In t (snd x) -> t_force t = false;
  nf_late : forall t v, In t (snd x) -> t_pc t = PLate v -> t_epoch t <= v /\ v <= g_epoch (fst x);
  nf_updating : covered x (g_updating (fst x));
  nf_done : forall t r, In t (snd x) -> t_pc t = PDone r -> r <> R_NOT_MY_META -> covered x (t_epoch t)
}.

Lemma covered_le : forall x e e', covered x e' -> e <= e' -> covered x e.
Proof.
  intros x e e' [H|(t & Hin & Hf & Hle)] Hee; [left; lia|right; exists t; repeat split; auto; lia].
Qed.

(* covered is stable under steps of a pool satisfying the invariant *)
Lemma covered_step : forall h x y e, inv_nf x -> step h x y -> covered x e -> covered y e.
Proof.
  intros h x y e [N1 N2 N3 N4] H Hc. inversion H as [g g' l1 t t' l2 Ht]; subst. cbn [fst snd] in *.
  destruct (tstep_cases _ _ _ _ _ Ht) as (Hm & C).
  assert (Hepoch' : t_epoch t' = t_epoch t) by (unfold t_epoch; rewrite Hm; reflexivity).
  assert (Hnf : t_force t = false) by (apply N1; apply in_mid_self).
  assert (Hmono : g_epoch g <= g_epoch g').
  { destruct C as [(_ & -> & _)|[(_ & -> & _)|[(_ & _ & _ & E & _)|[(_ & -> & _)|[(s & _ & _ & _ & _ & _ & _ & E & _)
              |[(s & _ & _ & _ & Hcond & _ & E & _)|(v & _ & _ & _ & E & _)]]]]]]; try lia; (destruct Hcond as [Hcond|Hcond]; [congruence|lia]). }
  destruct Hc as [Hc|(t0 & Hin & Hf & Hle)]; cbn [fst snd] in *; [left; cbn [fst]; lia|].
  destruct (in_mid_other t0 t t' l1 l2 Hin) as [->|Hin'].
  - (* the covering thread moved *)
    unfold flying in Hf.
    destruct C as [(Hpc & _)|[(Hpc & _)|[(Hpc & Hpc' & _)|[(Hpc & _ & _ & Hpc')|[(s & Hpc & _ & Hpc' & _)
              |[(s & Hpc & _ & Hpc' & _ & _ & E & _)|(v & Hpc & Hpc' & _ & E & _)]]]]]].
    + rewrite Hpc in Hf. contradiction.
    + rewrite Hpc in Hf. contradiction.
    + right. exists t'. split; [apply in_mid_self|]. split; [unfold flying; rewrite Hpc'; exact I|lia].
    + right. exists t'. split; [apply in_mid_self|]. split; [unfold flying; rewrite Hpc'; exact I|lia].
    + right. exists t'. split; [apply in_mid_self|]. split; [unfold flying; rewrite Hpc'; exact I|lia].
    + left. cbn [fst]. lia.
    + left. cbn [fst]. destruct (N2 t v (in_mid_self _ _ _) Hpc) as [Ha Hb]. lia.
  - right. exists t0. repeat split; auto.
Qed.

Lemma inv_nf_init : forall e0 r ms, (forall m, In m ms -> flag_force (rm_flags m) = false) ->
  inv_nf (g_init e0 r, start_pool ms).
Proof.
  intros e0 r ms Hnf. constructor; cbn [fst snd g_init g_epoch g_updating].
  - intros t Hin. unfold start_pool in Hin. apply in_map_iff in Hin. destruct Hin as (m & <- & Hm).
    unfold t_force. cbn. apply Hnf. exact Hm.
  - intros t v Hin Hpc. unfold start_pool in Hin. apply in_map_iff in Hin. destruct Hin as (m & <- & _). discriminate.
  - left. cbn. lia.
  - intros t r0 Hin Hpc. unfold start_pool in Hin. apply in_map_iff in Hin. destruct Hin as (m & <- & _). discriminate.
Qed.

Lemma inv_nf_step : forall h x y, inv_nf x -> step h x y -> inv_nf y.
Proof.
  intros h x y Hinv H. pose proof (covered_step h x y) as Hcov. specialize (fun e => Hcov e Hinv H).
  destruct Hinv as [N1 N2 N3 N4].
  inversion H as [g g' l1 t t' l2 Ht]; subst. cbn [fst snd] in *.
  destruct (tstep_cases _ _ _ _ _ Ht) as (Hm & C).
  assert (Hepoch' : t_epoch t' = t_epoch t) by (unfold t_epoch; rewrite Hm; reflexivity).
  assert (Hforce' : t_force t' = t_force t) by (unfold t_force; rewrite Hm; reflexivity).
  assert (Hnf : t_force t = false) by (apply N1; apply in_mid_self).
  assert (Hother : forall x0, In x0 (l1 ++ t' :: l2) -> x0 = t' \/ In x0 (l1 ++ t :: l2)).
  { intros x0 Hx. eapply in_mid_other. exact Hx. }
  assert (Hmono : g_epoch g <= g_epoch g').
  { destruct C as [(_ & -> & _)|[(_ & -> & _)|[(_ & _ & _ & E & _)|[(_ & -> & _)|[(s & _ & _ & _ & _ & _ & _ & E & _)
              |[(s & _ & _ & _ & Hcond & _ & E & _)|(v & _ & _ & _ & E & _)]]]]]]; try lia; (destruct Hcond as [Hcond|Hcond]; [congruence|lia]). }
  constructor; cbn [fst snd].
  - intros x0 Hin. destruct (Hother _ Hin) as [->|Hin0]; [congruence|auto].
  - intros x0 v Hin Hp. destruct (Hother _ Hin) as [->|Hin0].
    + destruct C as [(_ & _ & [E|E])|[(_ & _ & [(E & _)|(E & _)])|[(_ & E & _)|[(_ & _ & _ & E)
              |[(s & _ & _ & E & _ & Hle & _ & Ee & _)|[(s & _ & _ & E & _)|(v0 & _ & E & _)]]]]]]; try congruence.
      rewrite E in Hp. inversion Hp; subst v. split; lia.
    + destruct (N2 x0 v Hin0 Hp) as [Ha Hb]. split; lia.
  - (* updating *)
    destruct C as [(_ & -> & _)|[(_ & -> & _)|[(_ & Hpc' & Eu & _)|[(_ & -> & _)|[(s & _ & _ & _ & _ & _ & Eu & _)
              |[(s & _ & _ & _ & _ & Eu & _)|(v & Hpc & _ & Eu & Ee & _)]]]]]].
    + apply Hcov. exact N3.
    + apply Hcov. exact N3.
    + right. exists t'. cbn [snd]. split; [apply in_mid_self|]. split; [unfold flying; rewrite Hpc'; exact I|].
      cbn [fst]. lia.
    + apply Hcov. exact N3.
    + cbn [fst]. rewrite Eu. apply (Hcov (g_updating g)). exact N3.
    + cbn [fst]. rewrite Eu. apply (Hcov (g_updating g)). exact N3.
    + left. cbn [fst]. destruct (N2 t v (in_mid_self _ _ _) Hpc) as [Ha Hb]. lia.
  - (* finished threads *)
    intros x0 r0 Hin Hp Hr. destruct (Hother _ Hin) as [->|Hin0].
    + destruct C as [(_ & _ & [E|E])|[(_ & Hg & [(E & _ & Hle)|(E & _)])|[(_ & E & _)|[(_ & _ & _ & E)
              |[(s & _ & _ & E & _)|[(s & _ & _ & E & _ & _ & Ee & _)|(v0 & Hpc & E & _ & Ee & _)]]]]]]; try congruence.
      * (* early reject: covered by whatever covers updating *)
        subst g'. apply Hcov. rewrite Hepoch'. eapply covered_le; [exact N3|exact Hle].
      * left. cbn [fst]. lia.
      * left. cbn [fst]. destruct (N2 t v0 (in_mid_self _ _ _) Hpc) as [Ha Hb]. lia.
    + apply Hcov. eapply N4; eauto.
Qed.

Lemma inv_nf_reach : forall h e0 r ms y, (forall m, In m ms -> flag_force (rm_flags m) = false) ->
  steps h (g_init e0 r, start_pool ms) y -> inv_nf y.
Proof.
  intros h e0 r ms y Hnf H. remember (g_init e0 r, start_pool ms) as x eqn:Ex.
  induction H as [x|x y z Hxy IH Hyz].
  - subst x. apply inv_nf_init. exact Hnf.
  - eapply inv_nf_step; [apply IH; exact Ex|exact Hyz].
Qed.

Lemma inv_nf_steps : forall h x y, inv_nf x -> steps h x y -> inv_nf y.
Proof.
  intros h x y Hinv H. induction H as [x|x y z Hxy IH Hyz]; [exact Hinv|].
  eapply inv_nf_step; [apply IH; exact Hinv|exact Hyz].
Qed.

Lemma nf_epoch_monotone : forall h x y, inv_nf x -> steps h x y -> g_epoch (fst x) <= g_epoch (fst y).
Proof.
  intros h x y Hinv H. induction H as [x|x y z Hxy IH Hyz]; [lia|].
  specialize (IH Hinv).
  assert (Hy : inv_nf y) by (eapply inv_nf_steps; eauto).
  inversion Hyz as [g g' l1 t t' l2 Ht]; subst. cbn [fst] in *.
  destruct (tstep_cases _ _ _ _ _ Ht) as (Hm & C).
  assert (Hnf : t_force t = false) by (apply (nf_noforce _ Hy); apply in_mid_self).
  destruct C as [(_ & -> & _)|[(_ & -> & _)|[(_ & _ & _ & E & _)|[(_ & -> & _)|[(s & _ & _ & _ & _ & _ & _ & E & _)
              |[(s & _ & _ & _ & Hcond & _ & E & _)|(v & _ & _ & _ & E & _)]]]]]]; try lia; (destruct Hcond as [Hcond|Hcond]; [congruence|lia]).
Qed.

Definition all_done (pool : list thread) : Prop := forall t, In t pool -> exists r, t_pc t = PDone r.

(* without forced messages: the installed epoch never decreases, and once every caller has returned the installed
   epoch is the maximum of the initial epoch and the epochs of all messages that passed the host check: it is an upper
   bound, and it is the initial epoch or the epoch of a message that was answered OK *)
Lemma nf_quiescent_max : forall h e0 r ms g pool,
  (forall m, In m ms -> flag_force (rm_flags m) = false) ->
  steps h (g_init e0 r, start_pool ms) (g, pool) ->
  e0 <= g_epoch g /\
  (all_done pool ->
     (forall t rr, In t pool -> t_pc t = PDone rr -> rr <> R_NOT_MY_META -> t_epoch t <= g_epoch g) /\
     (g_epoch g = e0 \/ exists t, In t pool /\ t_pc t = PDone R_OK /\ t_epoch t = g_epoch g)).
Proof.
  intros h e0 r ms g pool Hnf Hreach.
  pose proof (inv_nf_reach _ _ _ _ _ Hnf Hreach) as Hinv.
  pose proof (inv_any_reach _ _ _ _ _ Hreach) as Hany.
  split.
  - pose proof (nf_epoch_monotone h _ _ (inv_nf_init e0 r ms Hnf) Hreach) as Hm. cbn in Hm. exact Hm.
  - intros Hdone. split.
    + intros t rr Hin Hpc Hrr. destruct (nf_done _ Hinv t rr Hin Hpc Hrr) as [Hc|(t2 & Hin2 & Hf & _)]; [exact Hc|].
      exfalso. destruct (Hdone t2 Hin2) as (r2 & Hp2). unfold flying in Hf. rewrite Hp2 in Hf. exact Hf.
    + apply (ia_hist _ _ Hany). apply (ia_epoch_hist _ _ Hany).
Qed.

(* ---------- one caller alone performs exactly set_repl ---------- *)

Definition g_of (s : pstate) (hist : list N) : gstate :=
  {| g_updating := rp_updating s; g_epoch := rp_epoch s; g_roles := rp_roles s; g_locked := false; g_hist := hist |}.

Lemma solo_is_set_repl : forall h s m hist,
  exists g' r,
    run_sched h (g_of s hist) (start_pool [m]) solo_sched = (g', [{| t_msg := m; t_pc := PDone r |}])
    /\ reply_of_rreply r = snd (set_repl h s m)
    /\ g_updating g' = rp_updating (fst (set_repl h s m))
    /\ g_epoch g' = rp_epoch (fst (set_repl h s m))
    /\ g_roles g' = rp_roles (fst (set_repl h s m))
    /\ g_locked g' = false.
Proof.
  intros h s m hist. unfold set_repl, solo_sched, start_pool, g_of.
  cbn [map run_sched nth_error]. unfold tstep at 1. cbn [t_msg t_pc].
  destruct (repl_hosts_ok h m) eqn:Eh; cbn [negb set_nth nth_error run_sched].
  - unfold tstep at 1. cbn [t_msg t_pc g_updating].
    destruct (flag_force (rm_flags m)) eqn:Ef; cbn [negb andb set_nth nth_error run_sched].
    + unfold tstep at 1. cbn [t_msg t_pc set_nth nth_error run_sched].
      unfold tstep at 1. cbn [t_msg t_pc g_locked g_roles set_nth nth_error run_sched].
      unfold tstep at 1. cbn [t_msg t_pc g_locked g_epoch]. rewrite Ef. cbn [negb andb set_nth nth_error run_sched].
      unfold tstep at 1. cbn [t_msg t_pc].
      eexists. eexists. split; [reflexivity|]. cbn. repeat split; reflexivity.
    + destruct (N.leb (rm_epoch m) (rp_updating s)) eqn:El; cbn [set_nth nth_error run_sched].
      * unfold tstep. cbn [t_msg t_pc].
        eexists. eexists. split; [reflexivity|]. cbn. repeat split; reflexivity.
      * unfold tstep at 1. cbn [t_msg t_pc set_nth nth_error run_sched].
        unfold tstep at 1. cbn [t_msg t_pc g_locked g_roles set_nth nth_error run_sched].
        unfold tstep at 1. cbn [t_msg t_pc g_locked g_epoch]. rewrite Ef. cbn [negb andb].
        destruct (N.leb (rm_epoch m) (rp_epoch s)) eqn:El2; cbn [set_nth nth_error run_sched].
        -- unfold tstep at 1. cbn [t_msg t_pc set_nth nth_error run_sched].
           eexists. eexists. split; [reflexivity|]. cbn. repeat split; reflexivity.
        -- unfold tstep at 1. cbn [t_msg t_pc].
           eexists. eexists. split; [reflexivity|]. cbn. repeat split; reflexivity.
  - unfold tstep. cbn [t_msg t_pc].
    eexists. eexists. split; [reflexivity|]. cbn. repeat split; reflexivity.
Qed.

(* ---------- with a forced lower-epoch message in flight the early rejection is not linearizable ---------- *)

Definition nl_host : bytes := [104].
Definition nl_node : rnode := {| rn_cluster := [99]; rn_addr := [104; 58; 49]; rn_peers := 0 |}.
Definition nl_A : rp_msg := {| rm_epoch := 20; rm_flags := [78]; rm_masters := [nl_node]; rm_replicas := [] |}.
Definition nl_B : rp_msg := {| rm_epoch := 15; rm_flags := [78]; rm_masters := [nl_node]; rm_replicas := [] |}.
Definition nl_F : rp_msg := {| rm_epoch := 3; rm_flags := FORCE; rm_masters := [nl_node]; rm_replicas := [] |}.
Definition nl_init : pstate :=
  {| cl_epoch := 0; cl_meta := None; rp_updating := 10; rp_epoch := 10; rp_roles := [] |}.
(* A passes the early check and stores 20; B is rejected early and returns; only then F is called, stores 3, installs
   3 and returns; finally A installs 20 *)
Definition nl_sched : list nat := [0; 0; 0; 1; 1; 2; 2; 2; 2; 2; 0; 0]%nat.

Definition seq_outcome (order : list rp_msg) : list (N * reply) * N :=
  let (s, reps) := run_msgs nl_host nl_init (map MRepl order) in
  (combine (map rm_epoch order) reps, rp_epoch s).

Lemma forced_in_flight_not_linearizable :
  (* the concurrent execution: A -> OK, B -> OLD_EPOCH (early), F -> OK, installed epoch 20 at the end *)
  (let (g, pool) := run_sched nl_host (g_init 10 []) (start_pool [nl_A; nl_B; nl_F]) nl_sched in
   map t_pc pool = [PDone R_OK; PDone R_OLD_EARLY; PDone R_OK] /\ g_epoch g = 20 /\ g_hist g = [20; 3; 10])
  (* B returned before F was called, so a linearization has B before F; the three such orders give: *)
  /\ seq_outcome [nl_A; nl_B; nl_F] = ([(20, OK); (15, OLD_EPOCH); (3, OK)], 3)     (* same replies, final epoch 3 *)
  /\ seq_outcome [nl_B; nl_A; nl_F] = ([(15, OK); (20, OK); (3, OK)], 3)            (* B accepted *)
  /\ seq_outcome [nl_B; nl_F; nl_A] = ([(15, OK); (3, OK); (20, OK)], 20).          (* B accepted *)
Proof. vm_compute. repeat split. Qed.

(* ---------- set_meta: compare + install under the mutex; epoch stored after meta_map ---------- *)

Inductive cstep (h : bytes) : cgstate * list cthread -> cgstate * list cthread -> Prop :=
| cstep_thread : forall g g' l1 t t' l2,
    ctstep h g t = Some (g', t') -> cstep h (g, l1 ++ t :: l2) (g', l1 ++ t' :: l2).

Inductive csteps (h : bytes) : cgstate * list cthread -> cgstate * list cthread -> Prop :=
| csteps_refl : forall x, csteps h x x
| csteps_step : forall x y z, csteps h x y -> cstep h y z -> csteps h x z.

Definition cg_init (s0 : pstate) : cgstate :=
  {| cg_epoch := cl_epoch s0; cg_meta := cl_meta s0; cg_meta_epoch := cl_epoch s0; cg_locked := false; cg_log := [] |}.
Definition cstart_pool (ms : list cl_msg) : list cthread := map (fun m => {| ct_msg := m; ct_pc := CHost |}) ms.

(* the sequential state after delivering the messages in the order in which they took the mutex *)
Definition lin_state (h : bytes) (s0 : pstate) (g : cgstate) : pstate :=
  fst (run_msgs h s0 (map MCluster (rev (cg_log g)))).

Definition is_cepoch (t : cthread) : bool := match ct_pc t with CEpoch => true | _ => false end.
Definition nepoch (l : list cthread) : nat := length (filter is_cepoch l).

Lemma nepoch_mid : forall l1 t l2,
  nepoch (l1 ++ t :: l2) = (nepoch l1 + (if is_cepoch t then 1 else 0) + nepoch l2)%nat.
Proof.
  intros l1 t l2. unfold nepoch. rewrite filter_app, app_length. cbn [filter].
  destruct (is_cepoch t); cbn [length]; lia.
Qed.

Lemma nepoch_zero_in : forall l x, nepoch l = 0%nat -> In x l -> is_cepoch x = false.
Proof.
  induction l as [|a l IH]; intros x Hz Hin; [destruct Hin|].
  unfold nepoch in *. cbn [filter] in Hz. destruct (is_cepoch a) eqn:Ea; cbn [length] in Hz; [lia|].
  destruct Hin as [<-|Hin]; [exact Ea|apply IH; assumption].
Qed.

Record cinv (h : bytes) (s0 : pstate) (x : cgstate * list cthread) : Prop := {
  ci_lin : cl_epoch (lin_state h s0 (fst x)) = cg_meta_epoch (fst x)
           /\ cl_meta (lin_state h s0 (fst x)) = cg_meta (fst x);
  ci_unlocked : cg_locked (fst x) = false -> cg_epoch (fst x) = cg_meta_epoch (fst x);
  ci_pending : forall t, In t (snd x) -> ct_pc t = CEpoch ->
               cg_locked (fst x) = true /\ cm_epoch (ct_msg t) = cg_meta_epoch (fst x)
               /\ cg_meta (fst x) = Some (cm_content (ct_msg t), cm_route (ct_msg t));
  ci_host : forall t, In t (snd x) -> ct_pc t = CLock -> hosts_ok h (cm_locals (ct_msg t)) = true;
  ci_count : nepoch (snd x) = if cg_locked (fst x) then 1%nat else 0%nat
}.

Lemma run_msgs_snoc : forall h ms s m,
  fst (run_msgs h s (ms ++ [m])) = fst (apply_msg h (fst (run_msgs h s ms)) m).
Proof.
  induction ms as [|a ms IH]; intros s m; cbn [app run_msgs].
  - cbn [fst]. destruct (apply_msg h s m) as [s1 rep]. reflexivity.
  - destruct (apply_msg h s a) as [s1 rep]. specialize (IH s1 m).
    destruct (run_msgs h s1 (ms ++ [m])) as [s2 reps]. destruct (run_msgs h s1 ms) as [s3 reps3].
    cbn [fst] in *. exact IH.
Qed.

Lemma nepoch_start : forall ms, nepoch (cstart_pool ms) = 0%nat.
Proof. induction ms as [|m ms IH]; [reflexivity|]. unfold nepoch, cstart_pool in *. cbn. exact IH. Qed.

Lemma cinv_init : forall h s0 ms, cinv h s0 (cg_init s0, cstart_pool ms).
Proof.
  intros h s0 ms. constructor; cbn [fst snd].
  - unfold lin_state. cbn. split; reflexivity.
  - reflexivity.
  - intros t Hin Hpc. unfold cstart_pool in Hin. apply in_map_iff in Hin. destruct Hin as (m & <- & _). discriminate.
  - intros t Hin Hpc. unfold cstart_pool in Hin. apply in_map_iff in Hin. destruct Hin as (m & <- & _). discriminate.
  - cbn. apply nepoch_start.
Qed.

Lemma cinv_step : forall h s0 x y, cinv h s0 x -> cstep h x y -> cinv h s0 y.
Proof.
  intros h s0 x y [[L1 L2] U P Hh Cnt] H. inversion H as [g g' l1 t t' l2 Ht]; subst. cbn [fst snd] in *.
  assert (Hother : forall x0, In x0 (l1 ++ t' :: l2) -> x0 = t' \/ In x0 (l1 ++ t :: l2)).
  { intros x0 Hx. eapply in_mid_other. exact Hx. }
  rewrite nepoch_mid in Cnt.
  unfold ctstep in Ht. destruct (ct_pc t) eqn:Epc.
  - (* CHost *)
    inversion Ht; subst g' t'; clear Ht. constructor; cbn [fst snd]; auto.
    + intros x0 Hin Hp. destruct (Hother _ Hin) as [->|Hin0]; [|auto].
      cbn [ct_pc] in Hp. destruct (hosts_ok h (cm_locals (ct_msg t))); discriminate.
    + intros x0 Hin Hp. destruct (Hother _ Hin) as [->|Hin0]; [|auto].
      cbn [ct_pc ct_msg] in *. destruct (hosts_ok h (cm_locals (ct_msg t))); [reflexivity|discriminate].
    + rewrite nepoch_mid. unfold is_cepoch in *. rewrite Epc in Cnt. cbn [ct_pc].
      destruct (hosts_ok h (cm_locals (ct_msg t))); exact Cnt.
  - (* CLock *)
    destruct (cg_locked g) eqn:Elk; [discriminate|].
    assert (Hhost : hosts_ok h (cm_locals (ct_msg t)) = true) by (apply Hh; [apply in_mid_self|exact Epc]).
    specialize (U eq_refl).
    destruct (N.leb (cm_epoch (ct_msg t)) (cg_epoch g) && negb (flag_force (cm_flags (ct_msg t)))) eqn:Ec;
      inversion Ht; subst g' t'; clear Ht.
    + (* rejected under the mutex: the sequential state does not move either *)
      constructor; cbn [fst snd].
      * unfold lin_state in *. cbn [cg_log rev map cg_meta_epoch cg_meta]. rewrite map_app. cbn [map].
        rewrite run_msgs_snoc. cbn [apply_msg]. unfold set_cluster. rewrite Hhost. cbn [negb].
        rewrite L1, <- U, Ec. cbn [fst]. rewrite L1, L2, U. split; reflexivity.
      * intros _. exact U.
      * intros x0 Hin Hp. destruct (Hother _ Hin) as [->|Hin0]; [discriminate|].
        destruct (P x0 Hin0 Hp) as (A & _). congruence.
      * intros x0 Hin Hp. destruct (Hother _ Hin) as [->|Hin0]; [discriminate|auto].
      * rewrite nepoch_mid. unfold is_cepoch in *. rewrite Epc in Cnt. cbn [ct_pc cg_locked]. exact Cnt.
    + constructor; cbn [fst snd].
      * unfold lin_state in *. cbn [cg_log rev map cg_meta_epoch cg_meta]. rewrite map_app. cbn [map].
        rewrite run_msgs_snoc. cbn [apply_msg]. unfold set_cluster. rewrite Hhost. cbn [negb].
        rewrite L1, <- U, Ec. cbn [fst cl_epoch cl_meta]. split; reflexivity.
      * discriminate.
      * intros x0 Hin Hp. destruct (Hother _ Hin) as [->|Hin0].
        -- cbn [ct_msg]. repeat split; reflexivity.
        -- destruct (P x0 Hin0 Hp) as (A & _). congruence.
      * intros x0 Hin Hp. destruct (Hother _ Hin) as [->|Hin0]; [discriminate|auto].
      * rewrite nepoch_mid. unfold is_cepoch in *. rewrite Epc in Cnt. cbn [ct_pc cg_locked]. lia.
  - (* CEpoch *)
    inversion Ht; subst g' t'; clear Ht.
    destruct (P t (in_mid_self _ _ _) Epc) as (Plk & Pe & Pm).
    rewrite Plk in Cnt. unfold is_cepoch in Cnt at 1. rewrite Epc in Cnt.
    constructor; cbn [fst snd].
    + unfold lin_state in *. cbn [cg_log cg_meta_epoch cg_meta]. split; assumption.
    + intros _. exact Pe.
    + intros x0 Hin Hp. exfalso. apply in_mid in Hin. destruct Hin as [->|Hin]; [discriminate|].
      assert (Z : nepoch (l1 ++ l2) = 0%nat).
      { unfold nepoch in *. rewrite filter_app, app_length. lia. }
      pose proof (nepoch_zero_in _ _ Z Hin) as F. unfold is_cepoch in F. rewrite Hp in F. discriminate.
    + intros x0 Hin Hp. destruct (Hother _ Hin) as [->|Hin0]; [discriminate|auto].
    + rewrite nepoch_mid. unfold is_cepoch at 1. cbn [ct_pc cg_locked]. lia.
  - discriminate.
Qed.

(* for every schedule of every pool of SETCLUSTER callers: the installed (meta, its epoch) is what delivering the
   messages one at a time in mutex order gives; the reported epoch equals the epoch of the installed meta except
   while the one caller that holds the mutex is between its two stores, and then the meta is already that caller's
   and its epoch is the one about to be reported; never two callers in that window *)
Lemma cluster_atomic : forall h s0 ms y, csteps h (cg_init s0, cstart_pool ms) y -> cinv h s0 y.
Proof.
  intros h s0 ms y H. remember (cg_init s0, cstart_pool ms) as x eqn:Ex.
  induction H as [x|x y z Hxy IH Hyz].
  - subst x. apply cinv_init.
  - eapply cinv_step; [apply IH; exact Ex|exact Hyz].
Qed.

(* ---------- the executable schedule runner only produces executions of the step relation ---------- *)

Lemma steps_front : forall h x y z, step h x y -> steps h y z -> steps h x z.
Proof.
  intros h x y z Hxy Hyz. induction Hyz as [y|y w z Hyw IH Hwz].
  - eapply steps_step; [apply steps_refl|exact Hxy].
  - eapply steps_step; [apply IH; exact Hxy|exact Hwz].
Qed.

Lemma set_nth_split : forall {A} (pool : list A) i t, nth_error pool i = Some t ->
  exists l1 l2, pool = l1 ++ t :: l2 /\ forall t', set_nth i t' pool = l1 ++ t' :: l2.
Proof.
  induction pool as [|a pool IH]; intros i t H; [destruct i; discriminate|].
  destruct i as [|i]; cbn [nth_error] in H.
  - inversion H; subst. exists [], pool. split; [reflexivity|]. intros t'. reflexivity.
  - destruct (IH i t H) as (l1 & l2 & E & F). exists (a :: l1), l2. split; [cbn; rewrite E; reflexivity|].
    intros t'. cbn [set_nth app]. rewrite F. reflexivity.
Qed.

Lemma run_sched_steps : forall h sched g pool, steps h (g, pool) (run_sched h g pool sched).
Proof.
  induction sched as [|i sched IH]; intros g pool; cbn [run_sched]; [apply steps_refl|].
  destruct (nth_error pool i) as [t|] eqn:En; [|apply IH].
  destruct (tstep h g t) as [[g' t']|] eqn:Et; [|apply IH].
  destruct (set_nth_split pool i t En) as (l1 & l2 & E & F).
  eapply steps_front; [|apply IH]. rewrite (F t'). rewrite E at 1. constructor. exact Et.
Qed.

(* ---------- the statement of C05_concurrent_repl ---------- *)

Lemma concurrent_repl : forall h e0 r ms g pool,
  steps h (g_init e0 r, start_pool ms) (g, pool) ->
  (forall g' pool', step h (g, pool) (g', pool') ->
     (g_epoch g' = g_epoch g /\ g_roles g' = g_roles g /\ g_hist g' = g_hist g)
     \/ (exists l1 t t' l2 snap, pool = l1 ++ t :: l2 /\ pool' = l1 ++ t' :: l2 /\
           t_pc t = PLock snap /\ t_pc t' = PDone R_OK /\ t_msg t' = t_msg t /\
           (t_force t = true \/ g_epoch g < t_epoch t) /\
           g_epoch g' = t_epoch t /\ g_roles g' = new_roles snap (t_msg t) /\
           (rp_wf (t_msg t) = true -> g_roles g' = roles_of (t_msg t)) /\
           g_hist g' = t_epoch t :: g_hist g))
  /\ (forall t g' t', In t pool -> tstep h g t = Some (g', t') -> t_pc t' = PDone R_OLD_EARLY ->
       t_pc t = PLoad /\ g' = g /\ t_force t = false /\ t_epoch t <= g_updating g /\
       ((exists e, In e (g_hist g) /\ t_epoch t <= e /\
                   (e = e0 \/ exists t1, In t1 pool /\ t_pc t1 = PDone R_OK /\ t_epoch t1 = e)) \/
        (exists t2, In t2 pool /\ stored t2 /\ t_epoch t <= t_epoch t2))).
Proof.
  intros h e0 r ms g pool Hreach. split.
  - intros g' pool' Hs. apply (step_installs h g pool g' pool' Hs).
  - intros t g' t' Hin Ht Hpc. eapply early_reject_justified; eauto.
Qed.

Lemma concurrent_repl_example :
  exists g pool t g' t',
    steps nl_host (g_init 10 [], start_pool [nl_A; nl_B; nl_F]) (g, pool) /\ In t pool /\
    tstep nl_host g t = Some (g', t') /\ t_pc t' = PDone R_OLD_EARLY /\ t_epoch t = 15 /\ g_updating g = 20.
Proof.
  pose proof (run_sched_steps nl_host [0; 0; 0; 1]%nat (g_init 10 []) (start_pool [nl_A; nl_B; nl_F])) as H.
  remember (run_sched nl_host (g_init 10 []) (start_pool [nl_A; nl_B; nl_F]) [0; 0; 0; 1]%nat) as x eqn:Ex.
  vm_compute in Ex. subst x.
  eexists. eexists. eexists. eexists. eexists. split; [exact H|].
  split; [right; left; reflexivity|]. vm_compute. repeat split.
Qed.

(* ---------- non-vacuity of the remaining statements ---------- *)

Lemma noforce_example :
  (forall m, In m [nl_A; nl_B] -> flag_force (rm_flags m) = false) /\
  exists g pool, steps nl_host (g_init 10 [], start_pool [nl_A; nl_B]) (g, pool) /\ all_done pool /\ g_epoch g = 20 /\
                 map t_pc pool = [PDone R_OK; PDone R_OLD_LATE].
Proof.
  split.
  - intros m [<-|[<-|[]]]; reflexivity.
  - (* A and B both pass the optimistic check, A installs first, B is rejected under the lock *)
    pose proof (run_sched_steps nl_host [0; 0; 1; 1; 0; 1; 0; 0; 1; 1; 1]%nat (g_init 10 []) (start_pool [nl_A; nl_B])) as H.
    remember (run_sched nl_host (g_init 10 []) (start_pool [nl_A; nl_B]) [0; 0; 1; 1; 0; 1; 0; 0; 1; 1; 1]%nat) as x eqn:Ex.
    vm_compute in Ex. subst x.
    eexists. eexists. split; [exact H|]. split.
    + intros t [<-|[<-|[]]]; eexists; reflexivity.
    + split; reflexivity.
Qed.

Definition ca_msg : cl_msg :=
  {| cm_epoch := 7; cm_flags := [78]; cm_locals := [[104; 58; 49]]; cm_content := 3; cm_route := [104; 58; 49] |}.

Lemma cstep_single : forall h g g' t t', ctstep h g t = Some (g', t') -> cstep h (g, [t]) (g', [t']).
Proof. intros h g g' t t' H. apply (cstep_thread h g g' [] t t' []). exact H. Qed.

Lemma cluster_atomic_example :
  exists y, csteps nl_host (cg_init ps_init, cstart_pool [ca_msg]) y /\
            cg_locked (fst y) = true /\ cg_epoch (fst y) = 0 /\ cg_meta (fst y) = Some (3, [104; 58; 49]) /\
            cg_meta_epoch (fst y) = 7.
Proof.
  unfold cstart_pool. cbn [map].
  eexists. split.
  - eapply csteps_step; [eapply csteps_step; [apply csteps_refl|]|].
    + apply cstep_single. vm_compute. reflexivity.
    + apply cstep_single. vm_compute. reflexivity.
  - vm_compute. repeat split.
Qed.
