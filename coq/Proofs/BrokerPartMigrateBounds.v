(* The chunk indices in the migration metadata produced by the remove phases are within bounds, hence the `expect`
   of assign_dst_slots (chunk index lookup) cannot fire after a successful remove phase. *)
From UM Require Import Base.BytesDef Model.Ranges Model.Broker Proofs.BrokerBase Proofs.BrokerPartRanges Proofs.BrokerPartDefs
  Proofs.BrokerPartMigrateBase.
From Coq Require Import ZifyBool ZifyNat ZifyN.

Definition metas_ok (len : nat) (migs : list (rangelist * mig_meta)) : Prop :=
  forall l m, In (l, m) migs -> (mm_src_idx m < len)%nat /\ (mm_dst_idx m < len)%nat.

Lemma metas_ok_cons len l m migs :
  (mm_src_idx m < len)%nat -> (mm_dst_idx m < len)%nat -> metas_ok len migs -> metas_ok len ((l, m) :: migs).
Proof. intros A B C l' m' [H|H]; [inversion H; subst; auto|eapply C; exact H]. Qed.

Lemma assign_done : forall migs chunks, metas_ok (length chunks) migs -> exists chunks', assign_dst_slots chunks migs = Done chunks'.
Proof.
  induction migs as [|[l m] rest IH]; intros chunks H; cbn [assign_dst_slots].
  - eexists. reflexivity.
  - destruct (H l m (or_introl eq_refl)) as [Hs Hd].
    assert (E : Nat.ltb (mm_src_idx m) (length chunks) && Nat.ltb (mm_dst_idx m) (length chunks) = true) by lia.
    rewrite E. apply IH. rewrite !update_nth_length. intros l' m' Hin. apply (H l' m'). right. exact Hin.
Qed.

Section OutB.
Variables (epoch avg rem smn dmn : N) (scn len : nat).
Hypothesis Hdst : forall k, k < dmn -> (scn + N.to_nat (k / 2) < len)%nat.

Lemma scale_out_loop_metas : forall fuel idx part rl acc rl' acc',
  scale_out_loop fuel epoch avg rem smn dmn scn idx part rl acc = Done (rl', acc') ->
  (idx < len)%nat -> a_dst acc <= dmn -> metas_ok len (a_migs acc) ->
  a_dst acc' <= dmn /\ metas_ok len (a_migs acc').
Proof.
  induction fuel as [|fuel IH]; intros idx part rl acc rl' acc' H Hidx Hle Hok; cbn [scale_out_loop] in H; [discriminate|].
  destruct (N.eqb (a_dst acc) dmn) eqn:Ed; [inversion H; subst; auto|].
  set (sf := avg + b2n (N.ltb (2 * N.of_nat idx + b2n part) rem)) in H.
  set (df := avg + b2n (N.ltb (smn + a_dst acc) rem)) in H.
  destruct (slots_num rl) as [n|]; [|discriminate].
  destruct (N.leb n sf); [inversion H; subst; auto|].
  destruct (csub df (a_num acc)) as [need|]; [|discriminate].
  destruct (split_last rl) as [[front r]|]; [|discriminate].
  destruct (range_len r) as [num|]; [|discriminate].
  match type of H with context [if N.leb ?a ?b then (?x, ?y, ?z) else ?w] =>
    destruct (if N.leb a b then (x, y, z) else w) as [[rl1 cur1] num1] end.
  destruct (slots_num rl1) as [n1|]; [|discriminate].
  assert (Hlt : a_dst acc < dmn) by lia.
  destruct (N.leb df num1 || N.leb n1 sf).
  - set (meta := mkMeta epoch idx part (scn + N.to_nat (a_dst acc / 2)) (N.eqb (a_dst acc mod 2) 1)) in H.
    assert (Hok' : metas_ok len ((rl_new cur1, meta) :: a_migs acc)).
    { apply metas_ok_cons; [exact Hidx|apply Hdst; exact Hlt|exact Hok]. }
    destruct (N.leb n1 sf).
    + inversion H; subst rl' acc'. destruct (N.leb df num1); cbn [a_dst a_migs]; split; auto; lia.
    + apply IH in H; auto; destruct (N.leb df num1); cbn [a_dst a_migs]; auto; lia.
  - apply IH in H; auto.
Qed.

Lemma scale_out_chunks_metas : forall chunks idx acc chunks' acc',
  scale_out_chunks epoch avg rem smn dmn scn idx chunks acc = Done (chunks', acc') ->
  (idx + length chunks <= len)%nat -> a_dst acc <= dmn -> metas_ok len (a_migs acc) ->
  a_dst acc' <= dmn /\ metas_ok len (a_migs acc').
Proof.
  induction chunks as [|c rest IH]; intros idx acc chunks' acc' H Hidx Hle Hok; cbn [scale_out_chunks] in H.
  - inversion H; subst. auto.
  - cbn [length] in Hidx.
    assert (Hstep : forall part c0 acc0 c1 acc1,
      match ck_stable c0 part with
      | Some rl =>
        match scale_out_loop (loop_fuel rl dmn) epoch avg rem smn dmn scn idx part rl acc0 with
        | Done (rl', acc'0) => Done (set_stable c0 part (Some rl'), acc'0)
        | Fail e => Fail e
        | Panic => Panic
        end
      | None => Done (c0, acc0)
      end = Done (c1, acc1) ->
      a_dst acc0 <= dmn -> metas_ok len (a_migs acc0) -> a_dst acc1 <= dmn /\ metas_ok len (a_migs acc1)).
    { intros part c0 acc0 c1 acc1 Hp Hle0 Hok0. destruct (ck_stable c0 part) as [rl|].
      - destruct (scale_out_loop (loop_fuel rl dmn) epoch avg rem smn dmn scn idx part rl acc0) as [[rl' acc'0]|e|] eqn:El;
          try discriminate.
        inversion Hp; subst. eapply scale_out_loop_metas; [exact El|lia|exact Hle0|exact Hok0].
      - inversion Hp; subst. auto. }
    match type of H with match ?X with _ => _ end = _ => destruct X as [[c1 acc1]|e|] eqn:E0; try discriminate end.
    match type of H with match ?X with _ => _ end = _ => destruct X as [[c2 acc2]|e|] eqn:E1; try discriminate end.
    match type of H with match ?X with _ => _ end = _ => destruct X as [[rest' acc3]|e|] eqn:E2; try discriminate end.
    inversion H; subst chunks' acc3.
    destruct (Hstep _ _ _ _ _ E0 Hle Hok) as [Hle1 Hok1].
    destruct (Hstep _ _ _ _ _ E1 Hle1 Hok1) as [Hle2 Hok2].
    eapply IH; [exact E2|lia|exact Hle2|exact Hok2].
Qed.
End OutB.

Lemma filter_length_le {A} (f : A -> bool) l : (length (filter f l) <= length l)%nat.
Proof. induction l as [|x l IH]; cbn [filter length]; [lia|]. destruct (f x); cbn [length]; lia. Qed.

Lemma remove_src_metas cl epoch chunks migs :
  remove_slots_from_src cl epoch = Done (chunks, migs) -> metas_ok (length (cl_chunks cl)) migs.
Proof.
  unfold remove_slots_from_src. intros H.
  set (dcn := length (filter chunk_empty_stable (cl_chunks cl))) in *.
  pose proof (filter_length_le chunk_empty_stable (cl_chunks cl)) as Hdcn. fold dcn in Hdcn.
  match type of H with match ?X with _ => _ end = _ => destruct X as [[chunks' acc]|e|] eqn:E; try discriminate end.
  inversion H; subst chunks migs. clear H.
  assert (Hd : forall k, k < 2 * N.of_nat dcn -> (length (cl_chunks cl) - dcn + N.to_nat (k / 2) < length (cl_chunks cl))%nat).
  { intros k Hk. assert (k / 2 < N.of_nat dcn) by (apply N.div_lt_upper_bound; lia). lia. }
  pose proof (scale_out_chunks_metas epoch _ _ _ _ _ (length (cl_chunks cl)) Hd _ _ _ _ _ E) as Hm.
  cbn [a_dst a_migs] in Hm. destruct Hm as [_ Hm]; [lia|lia|intros l m []|].
  intros l m Hin. apply in_rev in Hin. eapply Hm. exact Hin.
Qed.

Section DownB.
Variables (epoch avg rem dmn : N) (ex : list N) (len : nat).
Hypothesis Hdst : forall k, k < dmn -> (N.to_nat (k / 2) < len)%nat.

Lemma scale_down_loop_metas : forall fuel idx part rl acc rl' acc',
  scale_down_loop fuel epoch avg rem dmn ex idx part rl acc = Done (rl', acc') ->
  (idx < len)%nat -> a_dst acc <= dmn -> metas_ok len (a_migs acc) ->
  a_dst acc' <= dmn /\ metas_ok len (a_migs acc').
Proof.
  induction fuel as [|fuel IH]; intros idx part rl acc rl' acc' H Hidx Hle Hok; cbn [scale_down_loop] in H; [discriminate|].
  destruct (N.eqb (a_dst acc) dmn) eqn:Ed; [inversion H; subst; auto|].
  set (df := avg + b2n (N.ltb (a_dst acc) rem)) in H.
  assert (Hlt : a_dst acc < dmn) by lia.
  destruct (nth_error ex (N.to_nat (a_dst acc))) as [e|]; [|discriminate].
  destruct (csub df (a_num acc)) as [d1|]; [|discriminate].
  destruct (csub d1 e) as [need|]; [|discriminate].
  destruct (N.eqb need 0).
  { apply IH in H; cbn [a_dst a_migs]; auto. lia. }
  destruct (slots_num rl) as [av|]; [|discriminate].
  destruct (N.eqb av 0); [inversion H; subst; auto|].
  destruct rl as [|r tail]; [discriminate|].
  destruct (range_len r) as [num|]; [|discriminate].
  match type of H with context [if N.leb ?a ?b then (?x, ?y, ?z) else ?w] =>
    destruct (if N.leb a b then (x, y, z) else w) as [[rl1 cur1] num1] end.
  destruct (slots_num rl1) as [n1|]; [|discriminate].
  destruct (N.leb df (num1 + e) || N.eqb n1 0).
  - set (meta := mkMeta epoch idx part (N.to_nat (a_dst acc / 2)) (N.eqb (a_dst acc mod 2) 1)) in H.
    assert (Hok' : metas_ok len ((rl_new cur1, meta) :: a_migs acc)).
    { apply metas_ok_cons; [exact Hidx|apply Hdst; exact Hlt|exact Hok]. }
    destruct (N.eqb n1 0).
    + inversion H; subst rl' acc'. destruct (N.leb df (num1 + e)); cbn [a_dst a_migs]; split; auto; lia.
    + apply IH in H; auto; destruct (N.leb df (num1 + e)); cbn [a_dst a_migs]; auto; lia.
  - apply IH in H; auto.
Qed.

Lemma scale_down_chunks_metas : forall chunks idx acc chunks' acc',
  scale_down_chunks epoch avg rem dmn ex idx chunks acc = Done (chunks', acc') ->
  (idx + length chunks <= len)%nat -> a_dst acc <= dmn -> metas_ok len (a_migs acc) ->
  a_dst acc' <= dmn /\ metas_ok len (a_migs acc').
Proof.
  induction chunks as [|c rest IH]; intros idx acc chunks' acc' H Hidx Hle Hok; cbn [scale_down_chunks] in H.
  - inversion H; subst. auto.
  - cbn [length] in Hidx.
    assert (Hstep : forall part c0 acc0 c1 acc1,
      match ck_stable c0 part with
      | Some rl =>
        match scale_down_loop (loop_fuel rl dmn) epoch avg rem dmn ex idx part rl acc0 with
        | Done (_, acc'0) => Done (set_stable c0 part None, acc'0)
        | Fail e => Fail e
        | Panic => Panic
        end
      | None => Done (c0, acc0)
      end = Done (c1, acc1) ->
      a_dst acc0 <= dmn -> metas_ok len (a_migs acc0) -> a_dst acc1 <= dmn /\ metas_ok len (a_migs acc1)).
    { intros part c0 acc0 c1 acc1 Hp Hle0 Hok0. destruct (ck_stable c0 part) as [rl|].
      - destruct (scale_down_loop (loop_fuel rl dmn) epoch avg rem dmn ex idx part rl acc0) as [[rl' acc'0]|e|] eqn:El;
          try discriminate.
        inversion Hp; subst. eapply scale_down_loop_metas; [exact El|lia|exact Hle0|exact Hok0].
      - inversion Hp; subst. auto. }
    match type of H with match ?X with _ => _ end = _ => destruct X as [[c1 acc1]|e|] eqn:E0; try discriminate end.
    match type of H with match ?X with _ => _ end = _ => destruct X as [[c2 acc2]|e|] eqn:E1; try discriminate end.
    match type of H with match ?X with _ => _ end = _ => destruct X as [[rest' acc3]|e|] eqn:E2; try discriminate end.
    inversion H; subst chunks' acc3.
    destruct (Hstep _ _ _ _ _ E0 Hle Hok) as [Hle1 Hok1].
    destruct (Hstep _ _ _ _ _ E1 Hle1 Hok1) as [Hle2 Hok2].
    eapply IH; [exact E2|lia|exact Hle2|exact Hok2].
Qed.
End DownB.

Lemma remove_src_down_metas cl epoch k chunks migs :
  (k <= length (cl_chunks cl))%nat ->
  remove_slots_from_src_to_scale_down cl epoch k = Done (chunks, migs) -> metas_ok (length (cl_chunks cl)) migs.
Proof.
  unfold remove_slots_from_src_to_scale_down. intros Hk H.
  destruct (existing_nums (firstn k (cl_chunks cl))) as [ex|]; [|discriminate].
  match type of H with match ?X with _ => _ end = _ => destruct X as [[chunks' acc]|e|] eqn:E; try discriminate end.
  inversion H; subst chunks migs. clear H.
  assert (Hd : forall j, j < 2 * N.of_nat k -> (N.to_nat (j / 2) < length (cl_chunks cl))%nat).
  { intros j Hj. assert (j / 2 < N.of_nat k) by (apply N.div_lt_upper_bound; lia). lia. }
  pose proof (scale_down_chunks_metas epoch _ _ _ _ (length (cl_chunks cl)) Hd _ _ _ _ _ E) as Hm.
  cbn [a_dst a_migs] in Hm. destruct Hm as [_ Hm]; [rewrite skipn_length; lia|lia|intros l m []|].
  intros l m Hin. apply in_rev in Hin. eapply Hm. exact Hin.
Qed.

(* ---------- the remove phases keep the number of chunks ---------- *)
Lemma scale_out_chunks_length epoch avg rem smn dmn scn : forall chunks idx acc chunks' acc',
  scale_out_chunks epoch avg rem smn dmn scn idx chunks acc = Done (chunks', acc') -> length chunks' = length chunks.
Proof.
  induction chunks as [|c rest IH]; intros idx acc chunks' acc' H; cbn [scale_out_chunks] in H.
  - inversion H; subst. reflexivity.
  - match type of H with match ?X with _ => _ end = _ => destruct X as [[c1 acc1]|e|]; try discriminate end.
    match type of H with match ?X with _ => _ end = _ => destruct X as [[c2 acc2]|e|]; try discriminate end.
    match type of H with match ?X with _ => _ end = _ => destruct X as [[rest' acc3]|e|] eqn:E2; try discriminate end.
    inversion H; subst chunks' acc3. cbn [length]. f_equal. eapply IH. exact E2.
Qed.

Lemma scale_down_chunks_length epoch avg rem dmn ex : forall chunks idx acc chunks' acc',
  scale_down_chunks epoch avg rem dmn ex idx chunks acc = Done (chunks', acc') -> length chunks' = length chunks.
Proof.
  induction chunks as [|c rest IH]; intros idx acc chunks' acc' H; cbn [scale_down_chunks] in H.
  - inversion H; subst. reflexivity.
  - match type of H with match ?X with _ => _ end = _ => destruct X as [[c1 acc1]|e|]; try discriminate end.
    match type of H with match ?X with _ => _ end = _ => destruct X as [[c2 acc2]|e|]; try discriminate end.
    match type of H with match ?X with _ => _ end = _ => destruct X as [[rest' acc3]|e|] eqn:E2; try discriminate end.
    inversion H; subst chunks' acc3. cbn [length]. f_equal. eapply IH. exact E2.
Qed.

Lemma remove_src_length cl epoch chunks migs :
  remove_slots_from_src cl epoch = Done (chunks, migs) -> length chunks = length (cl_chunks cl).
Proof.
  unfold remove_slots_from_src. intros H.
  match type of H with match ?X with _ => _ end = _ => destruct X as [[chunks' acc]|e|] eqn:E; try discriminate end.
  inversion H; subst chunks migs. eapply scale_out_chunks_length. exact E.
Qed.

Lemma remove_src_down_length cl epoch k chunks migs :
  remove_slots_from_src_to_scale_down cl epoch k = Done (chunks, migs) -> length chunks = length (cl_chunks cl).
Proof.
  unfold remove_slots_from_src_to_scale_down. intros H.
  destruct (existing_nums (firstn k (cl_chunks cl))) as [ex|]; [|discriminate].
  match type of H with match ?X with _ => _ end = _ => destruct X as [[chunks' acc]|e|] eqn:E; try discriminate end.
  inversion H; subst chunks migs. rewrite app_length, (scale_down_chunks_length _ _ _ _ _ _ _ _ _ _ E), <- app_length, firstn_skipn.
  reflexivity.
Qed.

(* ---------- after a successful remove phase assign_dst_slots succeeds: its chunk-index `expect`s cannot fire ---------- *)
Theorem remove_src_assign_done cl epoch chunks migs :
  remove_slots_from_src cl epoch = Done (chunks, migs) -> exists chunks', assign_dst_slots chunks migs = Done chunks'.
Proof.
  intros H. apply assign_done. rewrite (remove_src_length _ _ _ _ H). eapply remove_src_metas. exact H.
Qed.

Theorem remove_src_down_assign_done cl epoch k chunks migs :
  (k <= length (cl_chunks cl))%nat ->
  remove_slots_from_src_to_scale_down cl epoch k = Done (chunks, migs) ->
  exists chunks', assign_dst_slots chunks migs = Done chunks'.
Proof.
  intros Hk H. apply assign_done. rewrite (remove_src_down_length _ _ _ _ _ H). eapply remove_src_down_metas; eassumption.
Qed.
