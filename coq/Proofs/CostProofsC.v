(* C16, part C: the argument handling that iterates over attacker-chosen numbers, after fix_C16_3 / fix_C16_4:
   EVAL key collection and RangeMap::from. *)
From UM Require Import Base.BytesDef Base.Dec Base.RespT Model.Resp Model.Cost.
From Coq Require Import ZifyBool ZifyNat ZifyN.

Lemma collect_keys_steps : forall cnt args i, snd (collect_keys args i cnt) = N.of_nat cnt /\
  (length (fst (collect_keys args i cnt)) <= cnt)%nat.
Proof.
  induction cnt as [|cnt IH]; intros args i; cbn [collect_keys]; [split; reflexivity|].
  destruct (collect_keys args (S i) cnt) as [ks st] eqn:E. pose proof (IH args (S i)) as [H1 H2]. rewrite E in H1, H2.
  cbn [fst snd] in *. destruct (nth_error args i) as [[b|]|]; cbn [fst snd length]; split; lia.
Qed.

(* no panic (3 + key_num cannot overflow once key_num is clamped to the command length), and the number of loop
   iterations is at most the number of elements of the command - whatever numkeys says *)
Lemma eval_keys_bounded : forall args, N.of_nat (length args) < 9223372036854775808 ->
  fst (eval_keys_c args) <> EvPanic /\
  (forall numkeys, nth_error args 2 = Some (Some numkeys) ->
     c_steps (snd (eval_keys_c args)) <= N.of_nat (length numkeys) + 1 + N.of_nat (length args)) /\
  (forall ks, fst (eval_keys_c args) = EvKeys ks -> (length ks <= length args)%nat).
Proof.
  intros args Hl. unfold eval_keys_c.
  destruct (nth_error args 2) as [[numkeys|]|] eqn:E2; try (repeat split; try discriminate; intros; discriminate).
  destruct (btou_usize numkeys) as [key_num|]; [|cbn [fst snd csteps c_steps]; repeat split; try discriminate; intros nk Hn; inversion Hn; subst; lia].
  destruct (N.eqb key_num 1); [cbn [fst snd csteps c_steps]; repeat split; try discriminate; intros nk Hn; inversion Hn; subst; lia|].
  unfold USIZE_MOD. destruct (N.leb 18446744073709551616 (3 + N.min key_num (N.of_nat (length args)))) eqn:Eo; [lia|].
  destruct (collect_keys args 3 (N.to_nat (N.min key_num (N.of_nat (length args))))) as [ks st] eqn:Ec.
  pose proof (collect_keys_steps (N.to_nat (N.min key_num (N.of_nat (length args)))) args 3) as [H1 H2]. rewrite Ec in H1, H2.
  cbn [fst snd] in *. cbn [c_steps]. repeat split; try discriminate.
  - intros nk Hn. inversion Hn; subst. lia.
  - intros ks0 Hk. inversion Hk; subst. lia.
Qed.

(* RangeMap::from: at most SLOT_NUM iterations per range whatever the range end says, and a map of at most SLOT_NUM entries *)
Lemma range_iters_bound : forall r, range_iters r <= SLOT_NUM.
Proof. intros [s e]. unfold range_iters, SLOT_NUM. destruct (N.ltb (N.min e (16384 - 1)) s) eqn:E; lia. Qed.

Lemma range_steps_bound : forall ranges,
  fold_right (fun r acc => range_iters r + 1 + acc) 0 ranges <= (SLOT_NUM + 1) * N.of_nat (length ranges).
Proof.
  induction ranges as [|r t IH]; cbn [fold_right length]; [lia|]. pose proof (range_iters_bound r). unfold SLOT_NUM in *. lia.
Qed.

Lemma range_map_bounded : forall ranges,
  c_steps (snd (range_map_c ranges)) <= (SLOT_NUM + 1) * N.of_nat (length ranges) /\
  c_alloc (snd (range_map_c ranges)) <= SLOT_NUM.
Proof.
  intros ranges. unfold range_map_c.
  destruct (match ranges with [] => None | r :: _ => if N.leb SLOT_NUM (fst r) then None else Some (fst r) end) as [a|] eqn:Ea;
    destruct (match last (map Some ranges) None with Some r => if N.leb SLOT_NUM (snd r) then None else Some (snd r) | None => None end) as [b|] eqn:Eb;
    cbn [snd c_steps c_alloc]; split; try apply range_steps_bound; unfold SLOT_NUM in *; try lia.
  destruct (last (map Some ranges) None) as [r|]; [|discriminate]. destruct (N.leb 16384 (snd r)) eqn:E; [discriminate|].
  inversion Eb; subst. lia.
Qed.
