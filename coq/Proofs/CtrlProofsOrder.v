(* Control-plane model: destination before source in the migration-sync path, under ANY scripted call faults
   (drop, duplicate, delay, lost reply, crash at any of the seven call boundaries of sync_migration_state). *)
From UM Require Import Base.BytesDef Model.Ctrl Proofs.CtrlProofsInv Proofs.CtrlProofsMain Proofs.CtrlProofsRound.
From Coq Require Import ZifyBool ZifyNat ZifyN.

Definition no_inject (sc : script) : Prop := forall n st, sc_inject sc n st = [].

Definition no_fetch (evs : list event) : Prop := forall k a t, ~ In (Fetch k a t) evs.

Section Order.
Variable served : nat -> addr -> option (N * N).
Variable sc : script.
Hypothesis NI : no_inject sc.
Notation step := (step served).
Notation run := (run served).

Lemma send_call_no_fetch : forall k n s, no_fetch (fst (send_call served sc k n s)).
Proof.
  intros k n s. unfold send_call. rewrite NI. cbn [app].
  destruct (sc_fault sc n); cbn [fst]; intros k' a t H; cbn in H; intuition discriminate.
Qed.

(* a send that lets the caller go on has delivered the caller's oldest queued call *)
Lemma send_call_continue : forall k n s c q' ev,
  take_first k (queue s) = Some (c, q') ->
  send_call served sc k n s = (ev, Continue) ->
  queue (run ev s) = q' /\ now (run ev s) = now s /\
  c_epoch c <= k_epoch (installed (run ev s) (c_to c) (c_kind c)).
Proof.
  intros k n s c q' ev T H. unfold send_call in H. rewrite NI in H. rewrite run_nil in H. cbn [app] in H.
  set (i := length (net s)) in *.
  pose (s1 := {| now := now s; proxies := proxies s; queue := q'; net := net s ++ [c];
                 pending := pending s; started := started s; commits := commits s; dlog := dlog s; rlog := rlog s |}).
  assert (E1 : step s (Issue k) = s1) by (cbn [Ctrl.step]; rewrite T; reflexivity).
  assert (G : forall st, nth_error (net st) i = Some c -> queue st = q' -> now st = now s ->
              let st' := step st (Deliver i) in
              queue st' = q' /\ now st' = now s /\ c_epoch c <= k_epoch (installed st' (c_to c) (c_kind c))).
  { intros st Hn Hq Hw. cbv zeta. split; [|split].
    - cbn [Ctrl.step]. rewrite Hn. rewrite deliver_to_split. exact Hq.
    - cbn [Ctrl.step]. rewrite Hn. rewrite deliver_to_split. exact Hw.
    - rewrite installed_step. rewrite Hn. rewrite N.eqb_refl.
      destruct (kind_eq_dec (c_kind c) (c_kind c)) as [_ | X]; [apply accept_epoch_ge | congruence]. }
  destruct (sc_fault sc n); inversion H; subst ev; clear H.
  - (* FNone *)
    unfold Ctrl.run. cbn [fold_left]. rewrite E1.
    apply (G s1); [apply nth_error_app_last | reflexivity | reflexivity].
  - (* FDup *)
    unfold Ctrl.run. cbn [fold_left]. rewrite E1.
    pose (s2 := {| now := now s; proxies := proxies s; queue := q'; net := (net s ++ [c]) ++ [c];
                   pending := pending s; started := started s; commits := commits s; dlog := dlog s; rlog := rlog s |}).
    assert (E2 : step s1 (Duplicate i) = s2).
    { unfold s1. cbn [Ctrl.step net]. unfold i. rewrite nth_error_app_last. reflexivity. }
    rewrite E2.
    assert (N2 : nth_error (net s2) i = Some c).
    { unfold s2. cbn [net]. rewrite nth_error_app1 by (rewrite app_length; cbn [length]; unfold i; lia).
      apply nth_error_app_last. }
    destruct (G s2 N2 eq_refl eq_refl) as [Q3 [W3 L3]].
    set (s3 := step s2 (Deliver i)) in *.
    split; [|split].
    + cbn [Ctrl.step]. destruct (nth_error (net s3) i); [rewrite deliver_to_split|]; exact Q3.
    + cbn [Ctrl.step]. destruct (nth_error (net s3) i); [rewrite deliver_to_split|]; exact W3.
    + pose proof (epoch_step_mono served s3 (Deliver i) (c_to c) (c_kind c) eq_refl). lia.
Qed.

Lemma queue_after_fetch : forall k a t s E C,
  served (now s) a = Some (E, C) ->
  let c1 := {| c_tag := t; c_to := a; c_kind := KRepl; c_epoch := E; c_content := C; c_time := now s |} in
  let c2 := {| c_tag := t; c_to := a; c_kind := KCluster; c_epoch := E; c_content := C; c_time := now s |} in
  queue (run [Fetch k a t] s) = queue s ++ [(k, c1); (k, c2)] /\ now (run [Fetch k a t] s) = now s.
Proof.
  intros k a t s E C HS. cbv zeta. unfold Ctrl.run. cbn [fold_left Ctrl.step]. rewrite HS. split; reflexivity.
Qed.

(* the events of a sync of proxy d: the fetch for d, the events of its sends, possibly the crash marker *)
Lemma sync_proxy_events : forall k d n s ev,
  In ev (fst (fst (sync_proxy served sc k d n s))) ->
  ev = Fetch k d (N.of_nat n) \/ ev = CoordinatorCrash k \/ exists x y, In ev (fst (send_call served sc k x y)).
Proof.
  intros k d n s ev H. unfold sync_proxy in H. rewrite NI in H. rewrite run_nil in H. cbn [app] in H.
  assert (Main : In ev (fst (fst (match served (now s) d with
                 | None => (@nil event, S n, Continue)
                 | Some _ =>
                   let ev1 := [Fetch k d (N.of_nat n)] in
                   let '(ev2, o2) := send_call served sc k (S n) (run ev1 s) in
                   match o2 with
                   | Continue => let '(ev3, o3) := send_call served sc k (S (S n)) (run (ev1 ++ ev2) s) in
                                 (ev1 ++ ev2 ++ ev3, S (S (S n)), o3)
                   | _ => (ev1 ++ ev2, S (S n), o2)
                   end
                 end))) \/ ev = CoordinatorCrash k).
  { destruct (sc_fault sc n); cbn [fst] in H; auto; try (destruct H); auto. contradiction. }
  clear H. destruct Main as [H | H]; [|auto].
  destruct (served (now s) d) as [[E C]|]; [|destruct H].
  cbv zeta in H.
  destruct (send_call served sc k (S n) (run [Fetch k d (N.of_nat n)] s)) as [ev2 o2] eqn:S2.
  assert (R2 : In ev ev2 -> exists x y, In ev (fst (send_call served sc k x y))).
  { intros Hx. exists (S n), (run [Fetch k d (N.of_nat n)] s). rewrite S2. exact Hx. }
  destruct o2.
  - destruct (send_call served sc k (S (S n)) (run ([Fetch k d (N.of_nat n)] ++ ev2) s)) as [ev3 o3] eqn:S3.
    cbn [fst app] in H. destruct H as [H | H]; [left; auto|]. right; right.
    apply in_app_or in H. destruct H as [H | H]; [auto|].
    exists (S (S n)), (run ([Fetch k d (N.of_nat n)] ++ ev2) s). rewrite S3. exact H.
  - cbn [fst app] in H. destruct H as [H | H]; [left; auto | right; right; auto].
  - cbn [fst app] in H. destruct H as [H | H]; [left; auto | right; right; auto].
Qed.

(* whatever happens, a sync of proxy d fetches for d only *)
Lemma sync_proxy_fetch_only : forall k d n s k' a t,
  In (Fetch k' a t) (fst (fst (sync_proxy served sc k d n s))) -> a = d.
Proof.
  intros k d n s k' a t H. apply sync_proxy_events in H. destruct H as [H | [H | [x [y H]]]].
  - inversion H; reflexivity.
  - discriminate.
  - exfalso. eapply send_call_no_fetch; eauto.
Qed.

Lemma send_call_no_commit : forall k n s id, ~ In (Commit id) (fst (send_call served sc k n s)).
Proof.
  intros k n s id. unfold send_call. rewrite NI. cbn [app].
  destruct (sc_fault sc n); cbn [fst]; intros H; cbn in H; intuition discriminate.
Qed.

(* a sync of proxy d that lets the caller go on: d holds a cluster epoch at least the fetched view's *)
Lemma sync_proxy_continue : forall k d n s ed nd,
  queue_free k s ->
  sync_proxy served sc k d n s = (ed, nd, Continue) ->
  queue (run ed s) = queue s /\ now (run ed s) = now s /\
  (forall E C, served (now s) d = Some (E, C) -> E <= k_epoch (installed (run ed s) d KCluster)).
Proof.
  intros k d n s ed nd Hq H. unfold sync_proxy in H. rewrite NI in H. rewrite run_nil in H. cbn [app] in H.
  assert (Main : match served (now s) d with
                 | None => (@nil event, S n, Continue)
                 | Some _ =>
                   let ev1 := [Fetch k d (N.of_nat n)] in
                   let '(ev2, o2) := send_call served sc k (S n) (run ev1 s) in
                   match o2 with
                   | Continue => let '(ev3, o3) := send_call served sc k (S (S n)) (run (ev1 ++ ev2) s) in
                                 (ev1 ++ ev2 ++ ev3, S (S (S n)), o3)
                   | _ => (ev1 ++ ev2, S (S n), o2)
                   end
                 end = (ed, nd, Continue)).
  { destruct (sc_fault sc n); try discriminate; exact H. }
  clear H.
  destruct (served (now s) d) as [[E C]|] eqn:HS.
  - cbv zeta in Main.
    destruct (queue_after_fetch k d (N.of_nat n) s E C HS) as [Q1 W1].
    set (c1 := {| c_tag := N.of_nat n; c_to := d; c_kind := KRepl; c_epoch := E; c_content := C; c_time := now s |}) in *.
    set (c2 := {| c_tag := N.of_nat n; c_to := d; c_kind := KCluster; c_epoch := E; c_content := C; c_time := now s |}) in *.
    set (s1 := run [Fetch k d (N.of_nat n)] s) in *.
    assert (T1 : take_first k (queue s1) = Some (c1, queue s ++ [(k, c2)])).
    { rewrite Q1. rewrite take_first_free_app by exact Hq. reflexivity. }
    destruct (send_call served sc k (S n) s1) as [ev2 o2] eqn:S2.
    destruct o2; try discriminate.
    destruct (send_call_continue k (S n) s1 c1 _ ev2 T1 S2) as [Q2 [W2 _]].
    rewrite run_app in Main. fold s1 in Main.
    set (s2 := run ev2 s1) in *.
    assert (T2 : take_first k (queue s2) = Some (c2, queue s ++ [])).
    { rewrite Q2. rewrite take_first_free_app by exact Hq. reflexivity. }
    destruct (send_call served sc k (S (S n)) s2) as [ev3 o3] eqn:S3.
    inversion Main; subst ed nd o3. clear Main.
    destruct (send_call_continue k (S (S n)) s2 c2 _ ev3 T2 S3) as [Q3 [W3 L3]].
    change (Fetch k d (N.of_nat n) :: ev2 ++ ev3) with ([Fetch k d (N.of_nat n)] ++ (ev2 ++ ev3)).
    rewrite run_app. fold s1. rewrite run_app. fold s2.
    split; [rewrite Q3; apply app_nil_r|]. split; [congruence|].
    intros E' C' HS'. inversion HS'; subst E' C'. exact L3.
  - inversion Main; subst. rewrite run_nil. split; [reflexivity|]. split; [reflexivity|]. intros E C X. discriminate.
Qed.

Lemma sync_proxy_no_commit : forall k d n s id, ~ In (Commit id) (fst (fst (sync_proxy served sc k d n s))).
Proof.
  intros k d n s id H. apply sync_proxy_events in H. destruct H as [H | [H | [x [y H]]]]; try discriminate.
  eapply send_call_no_commit; eauto.
Qed.

Lemma queue_report_commits : forall a m l s,
  (forall ev, In ev l -> ev = Commit (m_id m)) -> queue (run (Report a m :: l) s) = queue s /\
  (forall st, queue (run l st) = queue st).
Proof.
  intros a m l s Hl.
  assert (Q : forall st, queue (run l st) = queue st).
  { induction l as [|ev l IH]; intros st; [reflexivity|]. rewrite run_cons. rewrite IH by (intros; apply Hl; right; assumption).
    rewrite (Hl ev) by (left; reflexivity). cbn [Ctrl.step]. destruct (mem (m_id m) (pending st)); reflexivity. }
  split; [|exact Q]. rewrite run_cons. rewrite Q. reflexivity.
Qed.

(* sync_migration_state under any call faults: either the source is never contacted, or the events split into a prefix
   that never fetches for the source, contains the commit request and ends with the destination holding cluster metadata
   at least as new as the view the broker serves it then (the post-commit view), and the source's sync *)
Theorem dst_before_src : forall k a m n s evs n' o,
  queue_free k s -> m_src m <> m_dst m ->
  sync_migration served sc k a m n s = (evs, n', o) ->
  (forall tag, ~ In (Fetch k (m_src m) tag) evs)
  \/ exists e1 es, evs = e1 ++ es
       /\ (forall tag, ~ In (Fetch k (m_src m) tag) e1)
       /\ In (Commit (m_id m)) e1
       /\ (forall E C, served (now (run e1 s)) (m_dst m) = Some (E, C) ->
             E <= k_epoch (installed (run e1 s) (m_dst m) KCluster)).
Proof.
  intros k a m n s evs n' o Hq Hne H. unfold sync_migration, commit_call in H. rewrite NI in H. cbn [app] in H.
  (* the commit call: which events, does the caller go on *)
  assert (Cases : (exists l, (l = [Commit (m_id m)] \/ l = [Commit (m_id m); Commit (m_id m)]) /\
                    (let e0 := Report a m :: l in
                     let '(ed, nd, od) := sync_proxy served sc k (m_dst m) (S n) (run e0 s) in
                     match od with
                     | Continue => let '(es, ns, os) := sync_proxy served sc k (m_src m) nd (run (e0 ++ ed) s) in
                                   (e0 ++ ed ++ es, ns, os)
                     | _ => (e0 ++ ed, nd, od)
                     end) = (evs, n', o))
                  \/ (forall k' x t, ~ In (Fetch k' x t) evs)).
  { destruct (sc_fault sc n).
    - left. exists [Commit (m_id m)]. split; [left; reflexivity | exact H].
    - right. inversion H; subst. intros k' x t Hx. cbn in Hx. intuition discriminate.
    - left. exists [Commit (m_id m); Commit (m_id m)]. split; [right; reflexivity | exact H].
    - right. inversion H; subst. intros k' x t Hx. cbn in Hx. intuition discriminate.
    - right. inversion H; subst. intros k' x t Hx. cbn in Hx. intuition discriminate.
    - right. inversion H; subst. intros k' x t Hx. cbn in Hx. intuition discriminate. }
  clear H. destruct Cases as [[l [Hl H]] | Hnf]; [|left; intros tag; apply Hnf].
  cbv zeta in H.
  assert (Hl' : forall ev, In ev l -> ev = Commit (m_id m)).
  { intros ev Hev. destruct Hl as [-> | ->]; cbn in Hev; intuition. }
  destruct (queue_report_commits a m l s Hl') as [Q0 _].
  set (e0 := Report a m :: l) in *.
  assert (NoF0 : forall k' x t, ~ In (Fetch k' x t) e0).
  { intros k' x t [Hx | Hx]; [discriminate|]. apply Hl' in Hx. discriminate. }
  assert (Hq0 : queue_free k (run e0 s)) by (unfold queue_free; rewrite Q0; exact Hq).
  destruct (sync_proxy served sc k (m_dst m) (S n) (run e0 s)) as [[ed nd] od] eqn:SD.
  assert (FD : forall k' x t, In (Fetch k' x t) ed -> x = m_dst m).
  { intros k' x t Hx. eapply sync_proxy_fetch_only. rewrite SD. exact Hx. }
  assert (NoSrc : forall tag, ~ In (Fetch k (m_src m) tag) (e0 ++ ed)).
  { intros tag Hx. apply in_app_or in Hx. destruct Hx as [Hx | Hx]; [eapply NoF0; eauto|]. apply FD in Hx. congruence. }
  destruct od.
  - destruct (sync_proxy served sc k (m_src m) nd (run (e0 ++ ed) s)) as [[es ns] os] eqn:SS.
    inversion H; subst evs n' o. clear H.
    right. exists (e0 ++ ed), es. split; [unfold e0; cbn [app]; rewrite app_assoc; reflexivity|]. split; [exact NoSrc|]. split.
    + apply in_or_app. left. right. destruct Hl as [-> | ->]; left; reflexivity.
    + intros E C HS. rewrite run_app in *.
      destruct (sync_proxy_continue k (m_dst m) (S n) (run e0 s) ed nd Hq0 SD) as [_ [W G]].
      apply (G E C). rewrite <- W. exact HS.
  - inversion H; subst. left. exact NoSrc.
  - inversion H; subst. left. exact NoSrc.
Qed.

End Order.
