(* C12: refused allocation requests leave the store unchanged; new chunks span two hosts. *)
From UM Require Import Base.BytesDef Model.Ranges Model.Broker Proofs.BrokerBase Proofs.BrokerAcctBase Proofs.BrokerAcctAlloc
     Proofs.BrokerAcctInv.
From Coq Require Import ZifyBool ZifyNat ZifyN.

(* ---------- refusal is atomic ---------- *)
Ltac unchanged_guards :=
  repeat match goal with
         | |- (if ?b then (?s, _) else _) = _ -> _ => destruct b; [intros H; inversion H; subst; right; reflexivity|]
         end.

Lemma add_cluster_refused s name k cfg ch s' out :
  add_cluster s name k cfg ch = (s', out) -> out = Done tt \/ s' = s.
Proof.
  unfold add_cluster. unchanged_guards.
  destruct (gen_chunks s (k / 2) 0 ch); intros H; inversion H; subst; auto.
Qed.

Lemma auto_add_nodes_refused s name k ch s' out :
  auto_add_nodes s name k ch = (s', out) -> out = Done tt \/ s' = s.
Proof.
  unfold auto_add_nodes. destruct (alookup name (st_clusters s)) as [cl|]; [|intros H; inversion H; auto].
  unchanged_guards.
  destruct (gen_chunks s (k / 2) _ ch); intros H; inversion H; subst; auto.
Qed.

Lemma auto_scale_up_nodes_refused s name k ch s' out :
  auto_scale_up_nodes s name k ch = (s', out) -> out = Done tt \/ s' = s.
Proof.
  unfold auto_scale_up_nodes. destruct (alookup name (st_clusters s)) as [cl|]; [|intros H; inversion H; auto].
  destruct (N.leb _ _); [intros H; inversion H; auto|]. apply auto_add_nodes_refused.
Qed.

Definition is_allocation (o : op) : Prop :=
  match o with OAddCluster _ _ _ _ | OAutoAddNodes _ _ _ | OAutoScaleUp _ _ _ => True | _ => False end.

Lemma lift_unit_inv r s' x : lift_unit r = (s', x) -> x <> ROk -> exists out, r = (s', out) /\ out <> Done tt.
Proof.
  destruct r as [s0 [[]|e|]]; cbn [lift_unit]; intros H Hx; inversion H; subst; [congruence| |]; eexists; (split; [reflexivity|discriminate]).
Qed.

Lemma refusal_atomic s o s' x : is_allocation o -> step s o = (s', x) -> x <> ROk -> s' = s.
Proof.
  destruct o; cbn [is_allocation step]; try tauto; intros _ H Hx;
    destruct (lift_unit_inv _ _ _ H Hx) as (out & E & Hout).
  - destruct (add_cluster_refused _ _ _ _ _ _ _ E); [contradiction|assumption].
  - destruct (auto_add_nodes_refused _ _ _ _ _ _ E); [contradiction|assumption].
  - destruct (auto_scale_up_nodes_refused _ _ _ _ _ _ E); [contradiction|assumption].
Qed.

(* ---------- new chunks span two hosts ---------- *)
Lemma new_chunks_hosts s pairs chunks :
  map ck_skel chunks = map (pair_skel s) pairs ->
  pairs_good s [] pairs ->
  forall c, In c chunks -> ck_host0 c <> ck_host1 c.
Proof.
  intros Hm Hg c Hc. apply pairs_good_props in Hg. destruct Hg as (_ & _ & _ & Hh).
  assert (Hin : In (ck_skel c) (map (pair_skel s) pairs)) by (rewrite <- Hm; apply in_map; exact Hc).
  apply in_map_iff in Hin. destruct Hin as ([a b] & E & Hab).
  destruct (Hh _ _ Hab) as (ra & rb & La & Lb & Hne).
  unfold pair_skel, ck_skel in E. cbn [fst snd] in E.
  rewrite (res_or_default_found s a ra La), (res_or_default_found s b rb Lb) in E.
  inversion E. congruence.
Qed.

(* the chunks of cluster `name` after the operation are the old ones followed by new ones on two hosts each;
   every other cluster is untouched *)
Definition new_chunks_two_hosts (s s' : store) (name : N) : Prop :=
  exists cl' new,
    alookup name (st_clusters s') = Some cl' /\
    cl_chunks cl' = (match alookup name (st_clusters s) with Some cl => cl_chunks cl | None => [] end) ++ new /\
    (forall c, In c new -> ck_host0 c <> ck_host1 c) /\
    (forall n, n <> name -> alookup n (st_clusters s') = alookup n (st_clusters s)).

Ltac failed_guards :=
  repeat match goal with
         | |- (if ?b then (_, Fail _) else _) = _ -> _ => destruct b; [discriminate|]
         end.

Lemma add_cluster_two_hosts s name k cfg ch s' :
  st_ordered s = false -> add_cluster s name k cfg ch = (s', Done tt) -> new_chunks_two_hosts s s' name.
Proof.
  intros Ho. unfold add_cluster. destruct (_ && _); [discriminate|].
  destruct (amem name (st_clusters s)) eqn:Em; [discriminate|]. failed_guards.
  unfold gen_chunks. rewrite Ho.
  destruct (generate_free_chunks s (k / 2) ch) as [pairs|?|] eqn:G; [|discriminate|discriminate].
  apply generate_free_chunks_done in G. destruct G as [_ G].
  intros H. inversion H; subst s'. clear H. unfold new_chunks_two_hosts.
  cbn [with_clusters with_proxies st_clusters bump with_epoch].
  eexists. exists (proxy_resource_to_chunk_store s pairs true). split; [apply alookup_ainsert_same|]. split; [|split].
  - unfold amem in Em. destruct (alookup name (st_clusters s)); [discriminate|reflexivity].
  - eapply new_chunks_hosts; [apply prtcs_skel|exact G].
  - intros n Hn. apply alookup_ainsert_other. exact Hn.
Qed.

Lemma auto_add_nodes_two_hosts s name k ch s' :
  st_ordered s = false -> auto_add_nodes s name k ch = (s', Done tt) -> new_chunks_two_hosts s s' name.
Proof.
  intros Ho. unfold auto_add_nodes. destruct (alookup name (st_clusters s)) as [cl|] eqn:L; [|discriminate].
  failed_guards.
  unfold gen_chunks. rewrite Ho.
  destruct (generate_free_chunks s (k / 2) ch) as [pairs|?|] eqn:G; [|discriminate|discriminate].
  apply generate_free_chunks_done in G. destruct G as [_ G].
  intros H. inversion H; subst s'. clear H. unfold new_chunks_two_hosts.
  cbn [with_clusters with_proxies st_clusters bump with_epoch]. rewrite L.
  eexists. exists (proxy_resource_to_chunk_store s pairs false). split; [apply alookup_ainsert_same|]. split; [|split].
  - reflexivity.
  - eapply new_chunks_hosts; [apply prtcs_skel|exact G].
  - intros n Hn. apply alookup_ainsert_other. exact Hn.
Qed.

Lemma auto_scale_up_nodes_two_hosts s name k ch s' :
  st_ordered s = false -> auto_scale_up_nodes s name k ch = (s', Done tt) -> new_chunks_two_hosts s s' name.
Proof.
  intros Ho. unfold auto_scale_up_nodes. destruct (alookup name (st_clusters s)) as [cl|] eqn:L; [|discriminate].
  destruct (N.leb _ _); [discriminate|]. apply auto_add_nodes_two_hosts. exact Ho.
Qed.

Lemma lift_unit_ok r s' : lift_unit r = (s', ROk) -> r = (s', Done tt).
Proof. destruct r as [s0 [[]|e|]]; cbn [lift_unit]; intros H; inversion H; reflexivity. Qed.

Lemma two_hosts s o s' :
  st_ordered s = false -> step s o = (s', ROk) ->
  match o with
  | OAddCluster name _ _ _ | OAutoAddNodes name _ _ | OAutoScaleUp name _ _ => new_chunks_two_hosts s s' name
  | _ => True
  end.
Proof.
  intros Ho. destruct o; cbn [step]; auto; intros H; apply lift_unit_ok in H.
  - eapply add_cluster_two_hosts; eauto.
  - eapply auto_add_nodes_two_hosts; eauto.
  - eapply auto_scale_up_nodes_two_hosts; eauto.
Qed.

(* scale-out through the node-number API: free chunks are released first (store s1), then auto_scale_up_nodes runs on s1 *)
Lemma two_hosts_autochange s name k ch s' :
  st_ordered s = false -> step s (OAutoChange name k ch) = (s', RScale ScaleOut) ->
  new_chunks_two_hosts (fst (auto_delete_free_nodes s name)) s' name.
Proof.
  intros Ho. cbn [step]. unfold auto_change_node_number.
  destruct (alookup name (st_clusters s)) as [cl|] eqn:L; [|discriminate].
  destruct (cluster_is_migrating cl) eqn:Em; [discriminate|].
  assert (Ho1 : st_ordered (fst (auto_delete_free_nodes s name)) = false).
  { unfold auto_delete_free_nodes. rewrite L, Em. destruct (filter chunk_is_free (cl_chunks cl)); cbn; exact Ho. }
  destruct (auto_delete_free_nodes s name) as [s1 r1]. cbn [fst] in *.
  assert (G : forall (cont : store * outcome scale_op),
             cont = match alookup name (st_clusters s1) with
                    | None => (s1, Fail E_ClusterNotFound)
                    | Some cl1 =>
                      if N.eqb (4 * N.of_nat (length (cl_chunks cl1))) k then (s1, Done NoOp)
                      else if N.ltb (4 * N.of_nat (length (cl_chunks cl1))) k then
                        match auto_scale_up_nodes s1 name k ch with
                        | (s2, Done _) => (s2, Done ScaleOut) | (s2, Fail e) => (s2, Fail e) | (s2, Panic) => (s2, Panic) end
                      else
                        match migrate_slots_to_scale_down s1 name k with
                        | (s2, Done _) => (s2, Done ScaleDown) | (s2, Fail e) => (s2, Fail e) | (s2, Panic) => (s2, Panic) end
                    end ->
             match cont with (s', Done o) => (s', RScale o) | (s', Fail e) => (s', RErr e) | (s', Panic) => (s', RPanic) end
               = (s', RScale ScaleOut) -> new_chunks_two_hosts s1 s' name).
  { intros cont ->. destruct (alookup name (st_clusters s1)) as [cl1|]; [|discriminate].
    destruct (N.eqb _ k); [discriminate|]. destruct (N.ltb _ k).
    - destruct (auto_scale_up_nodes s1 name k ch) as [s2 [[]|?|]] eqn:E; [|discriminate|discriminate].
      intros H. inversion H; subst s2. eapply auto_scale_up_nodes_two_hosts; eauto.
    - destruct (migrate_slots_to_scale_down s1 name k) as [s2 [[]|?|]]; discriminate. }
  destruct r1 as [?|e|]; [apply G; reflexivity| |discriminate].
  destruct e; try discriminate. apply G; reflexivity.
Qed.
