(* C01, view side: cluster_store_to_cluster (cluster_nodes) turns the stored partition invariant into partition_ok. *)
From UM Require Import Base.BytesDef Model.Ranges Model.Broker Proofs.BrokerBase Proofs.BrokerPartRanges Proofs.BrokerPartDefs
  Proofs.BrokerPartViewBase.
From Coq Require Import ZifyBool ZifyNat ZifyN Permutation.

Definition tentry := (N * N * rangelist * vmeta)%type.

Definition slot_owned (sls : list vslot) : rangelist :=
  flat_map (fun sl => if is_importing (snd sl) then [] else fst sl) sls.

Definition stag (imp : bool) (addr proxy : N) (sls : list vslot) : list tentry :=
  flat_map (fun sl => match snd sl with
                      | VImporting m => if imp then [(addr, proxy, fst sl, m)] else []
                      | VMigrating m => if imp then [] else [(addr, proxy, fst sl, m)]
                      | VNone => []
                      end) sls.

Definition tag_ranges (l : list tentry) : rangelist := flat_map (fun y => snd (fst y)) l.

Lemma tagged_stag imp ns : tagged imp ns = flat_map (fun n => stag imp (vn_addr n) (vn_proxy n) (vn_slots n)) ns.
Proof. reflexivity. Qed.

Lemma tagged_app imp a b : tagged imp (a ++ b) = tagged imp a ++ tagged imp b.
Proof. unfold tagged. apply flat_map_app. Qed.

Lemma view_owned_app a b : view_owned (a ++ b) = view_owned a ++ view_owned b.
Proof. unfold view_owned. apply flat_map_app. Qed.

Lemma tag_ranges_app a b : tag_ranges (a ++ b) = tag_ranges a ++ tag_ranges b.
Proof. unfold tag_ranges. apply flat_map_app. Qed.

Lemma stag_app imp a p x y : stag imp a p (x ++ y) = stag imp a p x ++ stag imp a p y.
Proof. unfold stag. apply flat_map_app. Qed.

Lemma slot_owned_app x y : slot_owned (x ++ y) = slot_owned x ++ slot_owned y.
Proof. unfold slot_owned. apply flat_map_app. Qed.

(* ---------- the four nodes of a chunk ---------- *)
Lemma nodes_of_owned s chunks c :
  cnt s (view_owned (nodes_of chunks c)) =
  (cnt s (slot_owned (part_slots chunks c false)) + cnt s (slot_owned (part_slots chunks c true)))%nat.
Proof.
  unfold nodes_of. generalize (part_slots chunks c false) as s0. generalize (part_slots chunks c true) as s1. intros s1 s0.
  unfold view_owned, node_owned, slot_owned.
  destruct (ck_role c);
    cbn [flat_map Nat.eqb Nat.odd Nat.even Nat.leb Nat.ltb negb vn_master vn_slots app];
    rewrite ?app_nil_r, ?cnt_app; cbn [cnt filter length]; lia.
Qed.

Lemma nodes_of_tagged imp chunks c :
  Permutation (tagged imp (nodes_of chunks c))
              (stag imp (part_addr c false) (part_proxy c false) (part_slots chunks c false) ++
               stag imp (part_addr c true) (part_proxy c true) (part_slots chunks c true)).
Proof.
  rewrite tagged_stag. unfold nodes_of, part_addr, part_proxy.
  generalize (part_slots chunks c false) as s0. generalize (part_slots chunks c true) as s1. intros s1 s0.
  destruct (ck_role c);
    cbn [flat_map Nat.eqb Nat.odd Nat.even Nat.leb Nat.ltb negb vn_addr vn_proxy vn_slots app stag part_node_index part_proxy_index
         ck_node ck_proxy];
    rewrite ?app_nil_r.
  - apply Permutation_refl.
  - apply Permutation_refl.
  - apply Permutation_app_comm.
Qed.

Lemma nodes_of_replicas chunks c n : In n (nodes_of chunks c) -> vn_master n = false -> vn_slots n = [].
Proof.
  unfold nodes_of. generalize (part_slots chunks c false) as s0. generalize (part_slots chunks c true) as s1. intros s1 s0.
  destruct (ck_role c); cbn [In Nat.eqb Nat.odd Nat.even Nat.leb Nat.ltb negb app];
    intros [<-|[<-|[<-|[<-|[]]]]]; cbn [vn_master vn_slots]; intros H; try reflexivity; discriminate.
Qed.

(* the proxy address of the i-th node of a chunk, for the per-proxy view *)
Lemma nodes_of_masters_or_empty chunks c n : In n (nodes_of chunks c) -> vn_master n = true \/ vn_slots n = [].
Proof.
  intros H. destruct (vn_master n) eqn:E; [left; reflexivity|right; eapply nodes_of_replicas; eauto].
Qed.

(* ---------- slots of one part ---------- *)
Lemma slot_owned_migs chunks l : slot_owned (map (vslot_of chunks) l) = out_ranges l.
Proof.
  unfold slot_owned, out_ranges. induction l as [|e l IH]; cbn [map flat_map filter]; [reflexivity|].
  rewrite IH. unfold vslot_of at 1 2. cbn [fst snd]. destruct (ms_out e); cbn [is_importing flat_map app]; reflexivity.
Qed.

Lemma slot_owned_part chunks c p :
  slot_owned (part_slots chunks c p) = opt_ranges (ck_stable c p) ++ out_ranges (ck_mig c p).
Proof.
  unfold part_slots. rewrite slot_owned_app, slot_owned_migs. f_equal.
  destruct (ck_stable c p); cbn [slot_owned flat_map snd fst is_importing opt_ranges app]; rewrite ?app_nil_r; reflexivity.
Qed.

Definition mtag (imp : bool) (addr proxy : N) (chunks : list chunk) (l : list mig_store) : list tentry :=
  stag imp addr proxy (map (vslot_of chunks) l).

Lemma stag_part imp a pr chunks c p : stag imp a pr (part_slots chunks c p) = mtag imp a pr chunks (ck_mig c p).
Proof.
  unfold part_slots, mtag. rewrite stag_app.
  destruct (ck_stable c p); cbn [stag flat_map snd app]; reflexivity.
Qed.

Lemma mtag_in imp a pr chunks l x :
  In x (mtag imp a pr chunks l) <->
  exists e, In e l /\ ms_out e = negb imp /\ x = (a, pr, ms_ranges e, vmeta_of chunks (ms_meta e)).
Proof.
  unfold mtag, stag. induction l as [|e l IH]; cbn [map flat_map In].
  - split; [intros []|intros (e & [] & _)].
  - rewrite in_app_iff, IH. unfold vslot_of at 1 2 3. cbn [fst snd]. split.
    + intros [H|(e' & He' & H)].
      * exists e. destruct (ms_out e) eqn:Eo, imp; cbn [In negb] in *; try tauto; destruct H as [<-|[]]; auto.
      * exists e'. tauto.
    + intros (e' & [<-|He'] & Ho & ->).
      * left. rewrite Ho. destruct imp; cbn [negb In]; auto.
      * right. exists e'. auto.
Qed.

Lemma mtag_cons imp a pr chunks e l :
  mtag imp a pr chunks (e :: l) =
  (if Bool.eqb (ms_out e) (negb imp) then [(a, pr, ms_ranges e, vmeta_of chunks (ms_meta e))] else []) ++ mtag imp a pr chunks l.
Proof.
  unfold mtag, stag. cbn [map flat_map]. f_equal. unfold vslot_of. cbn [fst snd].
  destruct (ms_out e), imp; reflexivity.
Qed.

Lemma mtag_in_ranges a pr chunks l : tag_ranges (mtag true a pr chunks l) = in_ranges l.
Proof.
  induction l as [|e l IH]; [reflexivity|].
  rewrite mtag_cons, tag_ranges_app, IH. change (e :: l) with ([e] ++ l). rewrite in_ranges_app, in_ranges_single.
  f_equal. destruct (ms_out e); cbn [negb Bool.eqb tag_ranges flat_map fst snd]; rewrite ?app_nil_r; reflexivity.
Qed.

(* ---------- all chunks ---------- *)
Definition chunk_tagged (imp : bool) (chunks : list chunk) (c : chunk) : list tentry :=
  mtag imp (part_addr c false) (part_proxy c false) chunks (ck_mig c false) ++
  mtag imp (part_addr c true) (part_proxy c true) chunks (ck_mig c true).

Lemma nodes_tagged_perm imp chunks l :
  Permutation (tagged imp (flat_map (nodes_of chunks) l)) (flat_map (chunk_tagged imp chunks) l).
Proof.
  unfold tagged at 1. rewrite flat_map_flat_map. apply flat_map_perm_pointwise. intros c _.
  change (Permutation (tagged imp (nodes_of chunks c)) (chunk_tagged imp chunks c)).
  unfold chunk_tagged. rewrite <- !stag_part. apply nodes_of_tagged.
Qed.

Lemma chunk_tagged_in imp chunks l x :
  In x (flat_map (chunk_tagged imp chunks) l) <->
  exists c p e, In c l /\ In e (ck_mig c p) /\ ms_out e = negb imp /\
                x = (part_addr c p, part_proxy c p, ms_ranges e, vmeta_of chunks (ms_meta e)).
Proof.
  rewrite in_flat_map. unfold chunk_tagged. split.
  - intros (c & Hc & H). rewrite in_app_iff, !mtag_in in H.
    destruct H as [(e & H)|(e & H)]; [exists c, false, e|exists c, true, e]; tauto.
  - intros (c & p & e & Hc & H). exists c. split; [exact Hc|]. rewrite in_app_iff, !mtag_in.
    destruct p; [right|left]; exists e; exact H.
Qed.

Lemma nodes_tagged_in imp chunks l x :
  In x (tagged imp (flat_map (nodes_of chunks) l)) <->
  exists c p e, In c l /\ In e (ck_mig c p) /\ ms_out e = negb imp /\
                x = (part_addr c p, part_proxy c p, ms_ranges e, vmeta_of chunks (ms_meta e)).
Proof.
  rewrite <- chunk_tagged_in. split; apply Permutation_in; [|apply Permutation_sym]; apply nodes_tagged_perm.
Qed.

Lemma chunk_tagged_in_ranges s chunks l :
  cnt s (tag_ranges (flat_map (chunk_tagged true chunks) l)) = cnt s (flat_map chunk_in l).
Proof.
  unfold tag_ranges. rewrite flat_map_flat_map. apply cnt_flat_map_eq. intros c _.
  change (cnt s (tag_ranges (chunk_tagged true chunks c)) = cnt s (chunk_in c)).
  unfold chunk_tagged, chunk_in. rewrite tag_ranges_app, !mtag_in_ranges. reflexivity.
Qed.

Lemma tag_ranges_perm a b : Permutation a b -> Permutation (tag_ranges a) (tag_ranges b).
Proof. unfold tag_ranges. apply Permutation_flat_map. Qed.

Lemma nodes_tagged_in_ranges s chunks l :
  cnt s (tag_ranges (tagged true (flat_map (nodes_of chunks) l))) = cnt s (flat_map chunk_in l).
Proof.
  rewrite <- (chunk_tagged_in_ranges s chunks l). apply cnt_perm, tag_ranges_perm, nodes_tagged_perm.
Qed.

Lemma nodes_owned_cnt s chunks l :
  cnt s (view_owned (flat_map (nodes_of chunks) l)) = cnt s (flat_map chunk_owned l).
Proof.
  unfold view_owned at 1. rewrite flat_map_flat_map. apply cnt_flat_map_eq. intros c _.
  change (cnt s (view_owned (nodes_of chunks c)) = cnt s (chunk_owned c)).
  rewrite nodes_of_owned, !slot_owned_part. unfold chunk_owned. cbn [ck_stable ck_mig]. rewrite !cnt_app. lia.
Qed.

(* ---------- uniqueness of the importing twin ---------- *)
Lemma filter_same_mig_le s x (l : list tentry) :
  (1 <= cnt s (snd (fst x)))%nat -> (length (filter (same_mig x) l) <= cnt s (tag_ranges l))%nat.
Proof.
  intros Hs. induction l as [|y l IH]; cbn [filter tag_ranges flat_map length]; [lia|].
  fold (tag_ranges l). rewrite cnt_app. destruct (same_mig x y) eqn:E; cbn [length]; [|lia].
  unfold same_mig in E. apply andb_true_iff in E. destruct E as [E _]. apply rangelist_eqb_eq in E. rewrite E in Hs. unfold rangelist in *. lia.
Qed.

Lemma chunk_out_le_owned s c : (cnt s (chunk_out c) <= cnt s (chunk_owned c))%nat.
Proof. unfold chunk_out, chunk_owned. rewrite !cnt_app. lia. Qed.

Lemma all_out_le_owned s chunks : (cnt s (all_out chunks) <= cnt s (owned chunks))%nat.
Proof.
  unfold all_out, owned. induction chunks as [|c l IH]; cbn [flat_map]; [lia|].
  rewrite !cnt_app. pose proof (chunk_out_le_owned s c). lia.
Qed.

Lemma covers_once_le1 l s : covers_once l -> (cnt s l <= 1)%nat.
Proof. intros H. rewrite (H s). destruct (N.ltb s SLOT_NUM); lia. Qed.

(* ---------- the theorem ---------- *)
Theorem part_inv_partition_ok chunks : part_inv chunks -> partition_ok (flat_map (nodes_of chunks) chunks).
Proof.
  intros HI. constructor.
  - (* cover *)
    intros s. rewrite nodes_owned_cnt. apply (pi_cover _ HI).
  - (* replicas *)
    intros n Hn Hm. apply in_flat_map in Hn. destruct Hn as (c & _ & Hn). eapply nodes_of_replicas; eauto.
  - (* out twin *)
    intros x Hx. apply nodes_tagged_in in Hx. destruct Hx as (c & p & e & Hc & He & Ho & ->). cbn [negb] in Ho.
    apply In_nth_error in Hc. destruct Hc as (i & Hi).
    assert (Hat : In e (entries_at chunks (i, p))) by (rewrite (entries_at_some _ _ _ _ Hi); exact He).
    destruct (pi_twin _ HI _ _ Hat) as (Hown & Hb & Htw).
    unfold own_pos, twin_pos in *. rewrite Ho in *. unfold src_pos in Hown. unfold dst_pos in Hb, Htw. cbn [fst] in Hb.
    inversion Hown as [[Hsi Hsp]].
    destruct (nth_error_lt_some _ _ Hb) as (dc & Hdc).
    rewrite (entries_at_some _ _ _ _ Hdc) in Htw.
    set (y := (part_addr dc (mm_dst_part (ms_meta e)), part_proxy dc (mm_dst_part (ms_meta e)), ms_ranges e,
               vmeta_of chunks (ms_meta e)) : tentry).
    assert (Hy : In y (tagged true (flat_map (nodes_of chunks) chunks))).
    { apply nodes_tagged_in. exists dc, (mm_dst_part (ms_meta e)), (twin e).
      split; [eapply nth_error_In; eauto|]. split; [exact Htw|]. split; [cbn [twin ms_out]; rewrite Ho; reflexivity|].
      reflexivity. }
    exists y. split; [|].
    + apply single_of_in_short.
      * apply filter_In. split; [exact Hy|]. unfold same_mig, y. cbn [fst snd].
        rewrite rangelist_eqb_refl, vmeta_eqb_refl. reflexivity.
      * destruct (wf_nonempty_slot (ms_ranges e)) as (s & Hs).
        { eapply part_inv_entry_wf; eauto. }
        { eapply (pi_nonempty _ HI); eauto. }
        eapply Nat.le_trans; [apply (filter_same_mig_le s); cbn [fst snd]; exact Hs|].
        rewrite nodes_tagged_in_ranges. fold (all_in chunks). rewrite (pi_in_out _ HI).
        eapply Nat.le_trans; [apply all_out_le_owned|]. apply covers_once_le1. apply (pi_cover _ HI).
    + unfold y. cbn [fst snd]. unfold vmeta_of. cbn [vm_dst_node vm_dst_proxy vm_src_node vm_src_proxy].
      rewrite (nth_error_nth _ _ dchunk Hdc). rewrite Hsi, Hsp. rewrite (nth_error_nth _ _ dchunk Hi). auto.
  - (* in twin *)
    intros y Hy. apply nodes_tagged_in in Hy. destruct Hy as (c & p & e & Hc & He & Ho & ->). cbn [negb] in Ho.
    apply In_nth_error in Hc. destruct Hc as (i & Hi).
    assert (Hat : In e (entries_at chunks (i, p))) by (rewrite (entries_at_some _ _ _ _ Hi); exact He).
    destruct (pi_twin _ HI _ _ Hat) as (Hown & Hb & Htw).
    unfold own_pos, twin_pos in *. rewrite Ho in *. unfold src_pos in Hb, Htw. cbn [fst] in Hb.
    destruct (nth_error_lt_some _ _ Hb) as (sc & Hsc).
    rewrite (entries_at_some _ _ _ _ Hsc) in Htw.
    exists (part_addr sc (mm_src_part (ms_meta e)), part_proxy sc (mm_src_part (ms_meta e)), ms_ranges e,
            vmeta_of chunks (ms_meta e)).
    split.
    + apply nodes_tagged_in. exists sc, (mm_src_part (ms_meta e)), (twin e).
      split; [eapply nth_error_In; eauto|]. split; [exact Htw|]. split; [cbn [twin ms_out]; rewrite Ho; reflexivity|].
      reflexivity.
    + unfold same_mig. cbn [fst snd]. rewrite rangelist_eqb_refl, vmeta_eqb_refl. reflexivity.
Qed.

Theorem cluster_nodes_partition_total cl : cluster_inv cl ->
  cluster_nodes cl = Some (flat_map (nodes_of (cl_chunks cl)) (cl_chunks cl)) /\
  partition_ok (flat_map (nodes_of (cl_chunks cl)) (cl_chunks cl)).
Proof.
  intros HI. split; [apply cluster_nodes_total; exact HI|apply part_inv_partition_ok; exact HI].
Qed.
