(* Slot-partition invariant (C01, C10): frame lemmas and the operations that do not touch the slot content of any
   chunk list (failure reports, proxies, epochs, restore, config, remove_cluster, balance_masters).
   part_inv only depends on ck_stable0/1 and ck_mig0/1 of each chunk; it is moreover stable under any per-entry map
   that keeps ranges, direction and positions and commutes with `twin` (used for the epoch rewrites of failover). *)
From UM Require Import Base.BytesDef Model.Ranges Model.Broker Proofs.BrokerBase Proofs.BrokerPartRanges Proofs.BrokerPartDefs.
From Coq Require Import ZifyBool ZifyNat ZifyN Permutation.

(* ---------- store level ---------- *)
Lemma store_inv_clusters s s' : st_clusters s' = st_clusters s -> store_part_inv s -> store_part_inv s'.
Proof. unfold store_part_inv. intros E H name cl Hin. rewrite E in Hin. eauto. Qed.

Lemma store_inv_lookup s name cl : store_part_inv s -> alookup name (st_clusters s) = Some cl -> cluster_inv cl.
Proof. intros H E. apply alookup_In in E. eapply H. exact E. Qed.

Lemma store_inv_insert s s' name cl :
  store_part_inv s -> cluster_inv cl -> st_clusters s' = ainsert name cl (st_clusters s) -> store_part_inv s'.
Proof.
  unfold store_part_inv. intros H Hcl E n c Hin. rewrite E in Hin.
  apply ainsert_In in Hin. destruct Hin as [[-> ->]|Hin]; eauto.
Qed.

Lemma store_inv_remove s s' name :
  store_part_inv s -> st_clusters s' = aremove name (st_clusters s) -> store_part_inv s'.
Proof. unfold store_part_inv. intros H E n c Hin. rewrite E in Hin. apply aremove_In in Hin. eauto. Qed.

(* ---------- generic list facts ---------- *)
Lemma Forall2_nth {A B} (R : A -> B -> Prop) l l' : Forall2 R l l' ->
  forall i, match nth_error l i, nth_error l' i with
            | Some a, Some b => R a b
            | None, None => True
            | _, _ => False
            end.
Proof.
  induction 1 as [|a b l l' Hab _ IH]; intros i.
  - destruct i; cbn [nth_error]; exact I.
  - destruct i; cbn [nth_error]; [exact Hab|apply IH].
Qed.

Lemma Forall2_length_eq {A B} (R : A -> B -> Prop) l l' : Forall2 R l l' -> length l' = length l.
Proof. induction 1; cbn [length]; congruence. Qed.

Lemma Forall2_flat_map {A B C} (R : A -> B -> Prop) (f : A -> list C) (f' : B -> list C) l l' :
  Forall2 R l l' -> (forall a b, R a b -> f' b = f a) -> flat_map f' l' = flat_map f l.
Proof. intros H Hf. induction H as [|a b l l' Hab _ IH]; cbn [flat_map]; [reflexivity|]. rewrite IH, (Hf _ _ Hab). reflexivity. Qed.

Lemma Forall2_map_self {A} (R : A -> A -> Prop) (f : A -> A) l : (forall a, R a (f a)) -> Forall2 R l (map f l).
Proof. intros H. induction l; cbn [map]; constructor; auto. Qed.

Lemma Forall2_weaken {A B} (P Q : A -> B -> Prop) l l' : (forall a b, P a b -> Q a b) -> Forall2 P l l' -> Forall2 Q l l'.
Proof. intros HPQ H. induction H; constructor; auto. Qed.

Lemma Forall2_refl_all {A} (R : A -> A -> Prop) l : (forall a, R a a) -> Forall2 R l l.
Proof. intros H. induction l; constructor; auto. Qed.

(* ---------- entry maps ---------- *)
Definition keeps_shape (g : mig_store -> mig_store) : Prop :=
  forall e, ms_ranges (g e) = ms_ranges e /\ ms_out (g e) = ms_out e /\ src_pos (g e) = src_pos e /\ dst_pos (g e) = dst_pos e.

Definition chunk_rel (g : mig_store -> mig_store) (c c' : chunk) : Prop :=
  ck_stable0 c' = ck_stable0 c /\ ck_stable1 c' = ck_stable1 c /\
  ck_mig0 c' = map g (ck_mig0 c) /\ ck_mig1 c' = map g (ck_mig1 c).

Lemma out_ranges_map g l : keeps_shape g -> out_ranges (map g l) = out_ranges l.
Proof.
  intros Hg. unfold out_ranges. induction l as [|e l IH]; cbn [map filter flat_map]; [reflexivity|].
  destruct (Hg e) as (Hr & Ho & _). rewrite Ho. destruct (ms_out e); cbn [flat_map]; rewrite ?Hr, IH; reflexivity.
Qed.

Lemma in_ranges_map g l : keeps_shape g -> in_ranges (map g l) = in_ranges l.
Proof.
  intros Hg. unfold in_ranges. induction l as [|e l IH]; cbn [map filter flat_map]; [reflexivity|].
  destruct (Hg e) as (Hr & Ho & _). rewrite Ho. destruct (ms_out e); cbn [negb flat_map]; rewrite ?Hr, IH; reflexivity.
Qed.

Lemma all_ranges_map g l : keeps_shape g -> flat_map ms_ranges (map g l) = flat_map ms_ranges l.
Proof.
  intros Hg. induction l as [|e l IH]; cbn [map flat_map]; [reflexivity|].
  destruct (Hg e) as (Hr & _). rewrite Hr, IH. reflexivity.
Qed.

Lemma entries_at_rel g l l' : Forall2 (chunk_rel g) l l' -> forall pos, entries_at l' pos = map g (entries_at l pos).
Proof.
  intros H pos. unfold entries_at. pose proof (Forall2_nth _ _ _ H (fst pos)) as Hn.
  destruct (nth_error l (fst pos)) as [c|]; destruct (nth_error l' (fst pos)) as [c'|]; try contradiction; [|reflexivity].
  destruct Hn as (_ & _ & H0 & H1). unfold ck_mig. destruct (snd pos); assumption.
Qed.

Lemma own_pos_shape g e : keeps_shape g -> own_pos (g e) = own_pos e.
Proof. intros Hg. destruct (Hg e) as (_ & Ho & Hs & Hd). unfold own_pos. rewrite Ho, Hs, Hd. reflexivity. Qed.

Lemma twin_pos_shape g e : keeps_shape g -> twin_pos (g e) = twin_pos e.
Proof. intros Hg. destruct (Hg e) as (_ & Ho & Hs & Hd). unfold twin_pos. rewrite Ho, Hs, Hd. reflexivity. Qed.

Theorem part_inv_map_entries g l l' :
  keeps_shape g -> (forall e, g (twin e) = twin (g e)) -> Forall2 (chunk_rel g) l l' -> part_inv l -> part_inv l'.
Proof.
  intros Hg Htw HR [Sz W Nn C B T].
  assert (Hall : flat_map chunk_all_ranges l' = flat_map chunk_all_ranges l).
  { apply (Forall2_flat_map _ _ _ _ _ HR). intros a b (E0 & E1 & M0 & M1). unfold chunk_all_ranges.
    rewrite E0, E1, M0, M1, !all_ranges_map by assumption. reflexivity. }
  assert (Hown : owned l' = owned l).
  { apply (Forall2_flat_map _ _ _ _ _ HR). intros a b (E0 & E1 & M0 & M1). unfold chunk_owned.
    rewrite E0, E1, M0, M1, !out_ranges_map by assumption. reflexivity. }
  assert (Hout : all_out l' = all_out l).
  { apply (Forall2_flat_map _ _ _ _ _ HR). intros a b (E0 & E1 & M0 & M1). unfold chunk_out.
    rewrite M0, M1, !out_ranges_map by assumption. reflexivity. }
  assert (Hin : all_in l' = all_in l).
  { apply (Forall2_flat_map _ _ _ _ _ HR). intros a b (E0 & E1 & M0 & M1). unfold chunk_in.
    rewrite M0, M1, !in_ranges_map by assumption. reflexivity. }
  pose proof (entries_at_rel _ _ _ HR) as Hent.
  pose proof (Forall2_length_eq _ _ _ HR) as Hlen.
  constructor.
  - rewrite Hlen. exact Sz.
  - rewrite Hall. exact W.
  - intros pos e' He'. rewrite Hent in He'. apply in_map_iff in He'. destruct He' as (e & <- & He).
    destruct (Hg e) as (Hr & _). rewrite Hr. eapply Nn. exact He.
  - rewrite Hown. exact C.
  - intros s. rewrite Hin, Hout. apply B.
  - intros pos e' He'. rewrite Hent in He'. apply in_map_iff in He'. destruct He' as (e & <- & He).
    destruct (T pos e He) as (T1 & T2 & T3).
    rewrite own_pos_shape, twin_pos_shape by assumption. rewrite Hlen, Hent.
    split; [exact T1|]. split; [exact T2|]. rewrite <- Htw. apply in_map. exact T3.
Qed.

(* part_inv only looks at the four slot fields *)
Definition same_slots (c c' : chunk) : Prop :=
  ck_stable0 c' = ck_stable0 c /\ ck_stable1 c' = ck_stable1 c /\ ck_mig0 c' = ck_mig0 c /\ ck_mig1 c' = ck_mig1 c.

Theorem part_inv_same_slots l l' : Forall2 same_slots l l' -> part_inv l -> part_inv l'.
Proof.
  intros H. apply (part_inv_map_entries (fun e => e)).
  - intros e. repeat split.
  - reflexivity.
  - eapply Forall2_weaken; [|exact H]. intros a b (E0 & E1 & M0 & M1). unfold chunk_rel. rewrite !map_id. auto.
Qed.

Lemma same_slots_set_role c r : same_slots c (set_role c r).
Proof. repeat split. Qed.

Lemma same_slots_refl c : same_slots c c.
Proof. repeat split. Qed.

(* ---------- operations that keep every chunk list ---------- *)
Lemma add_failure_part_inv s a r now : store_part_inv s -> store_part_inv (fst (add_failure s a r now)).
Proof.
  intros H. unfold add_failure.
  destruct (match alookup a (st_failures s) with Some m => amem r m | None => false end); cbn [fst]; [exact H|].
  eapply store_inv_clusters; [|exact H]. reflexivity.
Qed.

Lemma get_failures_part_inv s now ttl q : store_part_inv s -> store_part_inv (fst (get_failures s now ttl q)).
Proof. intros H. unfold get_failures. cbn [fst]. eapply store_inv_clusters; [|exact H]. reflexivity. Qed.

Lemma cleanup_failures_part_inv s now ttl q : store_part_inv s -> store_part_inv (fst (cleanup_failures s now ttl q)).
Proof. intros H. unfold cleanup_failures. cbn [fst]. apply get_failures_part_inv. exact H. Qed.

Lemma add_proxy_part_inv s a h i : store_part_inv s -> store_part_inv (fst (add_proxy s a h i)).
Proof.
  intros H. unfold add_proxy. destruct (if st_ordered s then i else Some 0); cbn [fst]; [|exact H].
  eapply store_inv_clusters; [|exact H].
  destruct (negb (amem a (st_proxies s)) || (smem a (st_failed s) || amem a (st_failures s))); reflexivity.
Qed.

Lemma remove_proxy_part_inv s a : store_part_inv s -> store_part_inv (fst (remove_proxy s a)).
Proof.
  intros H. unfold remove_proxy. destruct (alookup a (st_proxies s)) as [r|]; cbn [fst]; [|exact H].
  destruct (pr_cluster r); cbn [fst]; [exact H|]. eapply store_inv_clusters; [|exact H]. reflexivity.
Qed.

Lemma set_all_cluster_epochs_part_inv s e : store_part_inv s -> store_part_inv (set_all_cluster_epochs s e).
Proof.
  unfold store_part_inv, set_all_cluster_epochs. intros H name cl Hin. cbn [st_clusters with_clusters] in Hin.
  apply in_map_iff in Hin. destruct Hin as ([n c] & E & Hin). cbn [fst snd] in E. inversion E; subst.
  unfold cluster_inv. cbn [cl_chunks set_cl_epoch]. eapply H. exact Hin.
Qed.

Lemma force_bump_part_inv s e : store_part_inv s -> store_part_inv (fst (force_bump_all_epoch s e)).
Proof.
  intros H. unfold force_bump_all_epoch. destruct (N.leb e (st_epoch s)); cbn [fst]; [exact H|].
  apply set_all_cluster_epochs_part_inv. exact H.
Qed.

Lemma recover_epoch_part_inv s e : store_part_inv s -> store_part_inv (recover_epoch s e).
Proof. intros H. unfold recover_epoch. apply set_all_cluster_epochs_part_inv. exact H. Qed.

Lemma restore_part_inv s snap : store_part_inv s -> store_part_inv snap -> store_part_inv (fst (restore s snap)).
Proof. intros H Hs. unfold restore. destruct (N.ltb (st_epoch snap) (st_epoch s)); cbn [fst]; assumption. Qed.

Lemma change_config_part_inv s name valid cfg : store_part_inv s -> store_part_inv (fst (change_config s name valid cfg)).
Proof.
  intros H. unfold change_config. destruct (alookup name (st_clusters s)) as [cl|] eqn:E; cbn [fst]; [|exact H].
  destruct (cluster_is_migrating cl); cbn [fst]; [exact H|]. destruct (negb valid); cbn [fst]; [exact H|].
  eapply store_inv_insert; [exact H| |reflexivity].
  unfold cluster_inv. cbn [cl_chunks]. eapply store_inv_lookup; eassumption.
Qed.

Lemma remove_cluster_part_inv s name : store_part_inv s -> store_part_inv (fst (remove_cluster s name)).
Proof.
  intros H. unfold remove_cluster. destruct (alookup name (st_clusters s)) as [cl|] eqn:E; cbn [fst]; [|exact H].
  eapply store_inv_remove; [exact H|reflexivity].
Qed.

Lemma balance_masters_part_inv s name : store_part_inv s -> store_part_inv (fst (balance_masters s name)).
Proof.
  intros H. unfold balance_masters. destruct (alookup name (st_clusters s)) as [cl|] eqn:E; cbn [fst]; [|exact H].
  eapply store_inv_insert; [exact H| |reflexivity].
  unfold cluster_inv. cbn [cl_chunks].
  eapply part_inv_same_slots; [|eapply store_inv_lookup; eassumption].
  apply Forall2_map_self. intros c.
  destruct (_ || _); [apply same_slots_refl|apply same_slots_set_role].
Qed.
