(* Failure detection / handling half of the control plane (Model/CtrlFail.v) over the real broker model.
   Composition with C18 (Proofs/BrokerEpochFail.v): quorum_distinct_lemma, expired_discarded_lemma, reregister_clears_lemma,
   wf_* and sf_* lemmas. *)
From UM Require Import Base.BytesDef Model.Ranges Model.Broker Proofs.BrokerBase Proofs.BrokerEpochReach Proofs.BrokerEpochFail.
From UM Require Import Model.CtrlFail.
From UM Require Proofs.CtrlProofsInv.
From Coq Require Import ZifyBool ZifyNat ZifyN.

(* ---------- how each broker function moves stored reports ---------- *)

Definition entries_sub (s' s : store) : Prop := forall a m, In (a, m) (st_failures s') -> In (a, m) (st_failures s).

Lemma step_add_proxy_store s a h i : fst (step s (OAddProxy a h i)) = fst (add_proxy s a h i).
Proof. cbn [step]. unfold lift_unit. destruct (add_proxy s a h i) as [s' []]; reflexivity. Qed.

Lemma add_proxy_entries s a h i : entries_sub (fst (add_proxy s a h i)) s.
Proof.
  unfold add_proxy, entries_sub. destruct (if st_ordered s then i else Some 0); [|auto].
  cbn [fst]. intros a0 m.
  match goal with |- In _ (st_failures (if ?c then bump ?x else ?x)) -> _ => destruct c end;
    cbn [st_failures with_failures with_failed with_proxies bump with_epoch]; intros H; eapply aremove_In; eauto.
Qed.

Lemma replace_entries s a ch : entries_sub (fst (replace_failed_proxy s a ch)) s.
Proof.
  unfold replace_failed_proxy, entries_sub. intros a0 m.
  dmatch; cbn [fst];
    cbn [st_failures st_failed with_failures with_failed with_clusters with_proxies bump with_epoch]; intros H; auto;
    eapply aremove_In; eauto.
Qed.

Lemma add_failure_reports s a r t a0 m r0 t0 :
  In (a0, m) (st_failures (fst (add_failure s a r t))) -> In (r0, t0) m ->
  (a0 = a /\ r0 = r /\ t0 = t) \/ exists m', In (a0, m') (st_failures s) /\ In (r0, t0) m'.
Proof.
  unfold add_failure.
  destruct (match alookup a (st_failures s) with Some m => amem r m | None => false end).
  - cbn [fst]. intros H1 H2. right. eauto.
  - cbn [fst st_failures with_failures bump with_epoch]. intros H1 H2.
    apply ainsert_In in H1. destruct H1 as [[-> ->] | H1]; [|right; eauto].
    apply ainsert_In in H2. destruct H2 as [[-> ->] | H2]; [left; auto|].
    right. destruct (alookup a (st_failures s)) as [m0|] eqn:E; [|destruct H2].
    exists m0. split; auto. apply alookup_In. exact E.
Qed.

Lemma other_same_fail s o : other_ok o = true -> same_fail s (fst (step s o)).
Proof.
  intros Ho. destruct o; try discriminate; cbn [step].
  - pose proof (sf_add_cluster s name node_num cfg choices) as H.
    destruct (add_cluster s name node_num cfg choices) as [s' []]; exact H.
  - pose proof (sf_remove_cluster s name) as H.
    destruct (remove_cluster s name) as [s' []]; exact H.
  - pose proof (sf_auto_add_nodes s name num choices) as H.
    destruct (auto_add_nodes s name num choices) as [s' []]; exact H.
  - pose proof (sf_auto_scale_up s name expected choices) as H.
    destruct (auto_scale_up_nodes s name expected choices) as [s' []]; exact H.
  - pose proof (sf_auto_delete s name) as H.
    destruct (auto_delete_free_nodes s name) as [s' []]; exact H.
  - pose proof (sf_migrate_slots s name) as H.
    destruct (migrate_slots s name) as [s' []]; exact H.
  - pose proof (sf_scale_down s name new_num) as H.
    destruct (migrate_slots_to_scale_down s name new_num) as [s' []]; exact H.
  - pose proof (sf_commit_api s name rl tag epoch clear_free) as H.
    destruct (commit_migration_api s name rl tag epoch clear_free) as [s' []]; exact H.
  - destruct (nth_out_entry s name j).
    + pose proof (sf_commit_api s name (ms_ranges m) TagMigrating (mm_epoch (ms_meta m)) clear_free) as H.
      destruct (commit_migration_api s name (ms_ranges m) TagMigrating (mm_epoch (ms_meta m)) clear_free) as [s' []]; exact H.
    + pose proof (sf_commit_api s name [] TagMigrating 0 clear_free) as H.
      destruct (commit_migration_api s name [] TagMigrating 0 clear_free) as [s' []]; exact H.
  - pose proof (sf_auto_change s name expected choices) as H.
    destruct (auto_change_node_number s name expected choices) as [s' []]; exact H.
  - pose proof (sf_auto_scale_out s name expected) as H.
    destruct (auto_scale_out_node_number s name expected) as [s' []]; exact H.
  - pose proof (sf_balance s name) as H.
    destruct (balance_masters s name) as [s' []]; exact H.
  - pose proof (sf_change_config s name valid cfg) as H.
    destruct (change_config s name valid cfg) as [s' []]; exact H.
  - pose proof (sf_force_bump s e) as H.
    destruct (force_bump_all_epoch s e) as [s' []]; exact H.
  - exact (sf_recover s e).
Qed.

Lemma NoDup_map_fst_filter {A B} (f : A * B -> bool) (l : list (A * B)) :
  NoDup (map fst l) -> NoDup (map fst (filter f l)).
Proof.
  induction l as [|x l IH]; cbn [map filter]; intros H; [constructor|].
  inversion H; subst. destruct (f x); cbn [map]; auto.
  constructor; auto. intros Hin. apply H2. apply in_map_iff in Hin. destruct Hin as [y [Hy Hf]].
  apply filter_In in Hf. apply in_map_iff. exists y. tauto.
Qed.

Section Fail.
Variable ttl : Z.
Variable quorum : N.
Notation fstep := (fstep ttl quorum).
Notation frun := (frun ttl quorum).

Lemma frun_app : forall e1 e2 st, frun (e1 ++ e2) st = frun e2 (frun e1 st).
Proof. intros. unfold CtrlFail.frun. apply fold_left_app. Qed.

Lemma frun_cons : forall ev evs st, frun (ev :: evs) st = frun evs (fstep st ev).
Proof. reflexivity. Qed.

(* what licenses a replace_proxy call: a get_failures answer computed on store sg at clock tg that lists the address, hence
   (C18) the address was registered and at least `quorum` pairwise distinct reporters had each made an add_failure call
   for it less than ttl before tg *)
Definition authorized (rl : list (N * (N * Z))) (a : N) (sg : store) (tg : Z) : Prop :=
  In a (snd (get_failures sg tg ttl quorum)) /\
  amem a (st_proxies sg) = true /\
  exists l : list (N * Z),
    NoDup (map fst l) /\ quorum <= N.of_nat (length l) /\
    forall r t, In (r, t) l -> In (a, (r, t)) rl /\ (tg - t < ttl)%Z.

Lemma authorized_weaken : forall rl rl' a sg tg, (forall x, In x rl -> In x rl') -> authorized rl a sg tg -> authorized rl' a sg tg.
Proof.
  intros rl rl' a sg tg Hi (H1 & H2 & l & L1 & L2 & L3). split; auto. split; auto.
  exists l. repeat split; auto; destruct (L3 r t H); auto.
Qed.

Record FInv (st : fstate) : Prop := {
  fi_wf : failures_wf (fs_store st);
  fi_reports : forall a m r t, In (a, m) (st_failures (fs_store st)) -> In (r, t) m -> In (a, (r, t)) (fs_rlog st);
  fi_net : forall a, In a (fs_net st) -> exists sg tg, In (a, (sg, tg)) (fs_auth st);
  fi_done : forall a x, In (a, x) (fs_done st) -> exists sg tg, In (a, (sg, tg)) (fs_auth st);
  fi_auth : forall a sg tg, In (a, (sg, tg)) (fs_auth st) -> authorized (fs_rlog st) a sg tg
}.

Lemma FInv_init : forall s0, failures_wf s0 -> st_failures s0 = [] -> FInv (finit s0).
Proof.
  intros s0 H1 H2. constructor; cbn [finit fs_store fs_rlog fs_net fs_done fs_auth]; auto;
    try (intros; contradiction). intros a m r t H. rewrite H2 in H. destruct H.
Qed.

Lemma FInv_step : forall st ev, FInv st -> FInv (fstep st ev).
Proof.
  intros st ev I. destruct I as [W R Nn D A]. destruct ev; cbn [CtrlFail.fstep].
  - constructor; auto.
  - (* EReport *)
    destruct (add_failure (fs_store st) a c (fs_clock st)) as [s' b] eqn:AF.
    assert (S' : s' = fst (add_failure (fs_store st) a c (fs_clock st))) by (rewrite AF; reflexivity).
    constructor; cbn [fs_store fs_rlog fs_net fs_done fs_auth]; auto.
    + subst s'. apply wf_add_failure. exact W.
    + intros a0 m r t H1 H2. subst s'.
      destruct (add_failure_reports _ _ _ _ _ _ _ _ H1 H2) as [(-> & -> & ->) | [m' [M1 M2]]]; [left; reflexivity|].
      right. eapply R; eauto.
    + intros a0 sg tg H. eapply authorized_weaken; [|apply A; exact H]. intros x Hx. right; exact Hx.
  - (* EGetFailures *)
    destruct (get_failures (fs_store st) (fs_clock st) ttl quorum) as [s' l] eqn:GF.
    assert (S' : s' = fst (get_failures (fs_store st) (fs_clock st) ttl quorum)) by (rewrite GF; reflexivity).
    assert (L' : l = snd (get_failures (fs_store st) (fs_clock st) ttl quorum)) by (rewrite GF; reflexivity).
    constructor; cbn [fs_store fs_rlog fs_net fs_done fs_auth].
    + subst s'. apply wf_get_failures. exact W.
    + intros a0 m r t H1 H2. subst s'.
      destruct (expired_discarded_lemma (fs_store st) (fs_clock st) ttl quorum) as (_ & _ & E3).
      destruct (E3 a0 m r t H1 H2) as [m0 [M1 M2]]. eapply R; eauto.
    + intros a0 H. apply in_app_or in H. destruct H as [H | H].
      * destruct (Nn a0 H) as [sg [tg Hs]]. exists sg, tg. apply in_or_app. right; exact Hs.
      * exists (fs_store st), (fs_clock st). apply in_or_app. left. apply in_map_iff. exists a0. auto.
    + intros a0 x H. destruct (D a0 x H) as [sg [tg Hs]]. exists sg, tg. apply in_or_app. right; exact Hs.
    + intros a0 sg tg H. apply in_app_or in H. destruct H as [H | H]; [|apply A; exact H].
      apply in_map_iff in H. destruct H as [a1 [Heq Hin]]. inversion Heq; subst a1 sg tg. clear Heq.
      rewrite L' in Hin.
      destruct (quorum_distinct_lemma _ _ _ _ _ W Hin) as (P1 & m & M1 & M2 & M3).
      split; [exact Hin|]. split; [exact P1|].
      exists (filter (fun rt => fresh (fs_clock st) ttl (snd rt)) m). split; [apply NoDup_map_fst_filter; exact M2|].
      split; [exact M3|]. intros r t Hf. apply filter_In in Hf. destruct Hf as [Hm Hfr]. cbn [snd] in Hfr.
      split; [|apply fresh_spec; exact Hfr]. eapply R; [apply alookup_In; exact M1 | exact Hm].
  - (* EReplace *)
    destruct (nth_error (fs_net st) i) as [a|] eqn:Hn; [|constructor; auto].
    destruct (replace_failed_proxy (fs_store st) a choice) as [s' o] eqn:RP.
    assert (S' : s' = fst (replace_failed_proxy (fs_store st) a choice)) by (rewrite RP; reflexivity).
    constructor; cbn [fs_store fs_rlog fs_net fs_done fs_auth]; auto.
    + subst s'. apply wf_replace. exact W.
    + intros a0 m r t H1 H2. subst s'. apply replace_entries in H1. eapply R; eauto.
    + intros a0 H. apply Nn. eapply CtrlProofsInv.remove_nth_incl; eauto.
    + intros a0 x H. destruct o as [r0|e|]; [|eapply D; eauto|eapply D; eauto].
      destruct H as [H | H]; [|eapply D; eauto]. inversion H; subst a0 x. apply Nn. eapply nth_error_In; eauto.
  - (* EDropCall *)
    constructor; cbn [with_net fs_store fs_rlog fs_net fs_done fs_auth]; auto.
    intros a0 H. apply Nn. eapply CtrlProofsInv.remove_nth_incl; eauto.
  - (* EDupCall *)
    destruct (nth_error (fs_net st) i) as [a|] eqn:Hn; [|constructor; auto].
    constructor; cbn [with_net fs_store fs_rlog fs_net fs_done fs_auth]; auto.
    intros a0 H. apply in_app_or in H. destruct H as [H | [<- | []]]; [apply Nn; exact H|].
    apply Nn. eapply nth_error_In; eauto.
  - constructor; auto.
  - constructor; auto.
  - constructor; auto.
  - (* ERegister *)
    destruct (step (fs_store st) (OAddProxy a h i)) as [s' r] eqn:SP.
    assert (S' : s' = fst (add_proxy (fs_store st) a h i)) by (rewrite <- step_add_proxy_store, SP; reflexivity).
    constructor; cbn [with_store fs_store fs_rlog fs_net fs_done fs_auth]; auto.
    + subst s'. apply wf_add_proxy. exact W.
    + intros a0 m r0 t H1 H2. subst s'. apply add_proxy_entries in H1. eapply R; eauto.
  - (* EOther *)
    destruct (other_ok o) eqn:Ok; [|constructor; auto].
    destruct (step (fs_store st) o) as [s' r] eqn:SP.
    assert (SF : same_fail (fs_store st) s') by (pose proof (other_same_fail (fs_store st) o Ok) as H; rewrite SP in H; exact H).
    constructor; cbn [with_store fs_store fs_rlog fs_net fs_done fs_auth]; auto.
    + eapply same_fail_wf; eauto.
    + intros a0 m r0 t H1 H2. destruct SF as [SF _]. rewrite SF in H1. eapply R; eauto.
Qed.

Lemma FInv_run : forall evs st, FInv st -> FInv (frun evs st).
Proof.
  induction evs as [|ev evs IH]; intros st I; [exact I|]. rewrite frun_cons. apply IH. apply FInv_step. exact I.
Qed.

(* (1) every failover that is carried out was licensed by a quorum of distinct reporters with fresh reports on a registered proxy *)
Theorem fail_needs_quorum : forall s0 evs a x,
  failures_wf s0 -> st_failures s0 = [] ->
  let st := frun evs (finit s0) in
  In (a, x) (fs_done st) ->
  exists sg tg, In (a, (sg, tg)) (fs_auth st) /\ authorized (fs_rlog st) a sg tg.
Proof.
  intros s0 evs a x H1 H2 st Hd.
  assert (I : FInv st) by (apply FInv_run; apply FInv_init; assumption).
  destruct (fi_done st I a x Hd) as [sg [tg Hs]]. exists sg, tg. split; auto. apply (fi_auth st I). exact Hs.
Qed.

(* (2) fewer than quorum coordinators can never cause a failover, whatever and however often they report *)
Theorem fail_needs_enough_reporters : forall s0 evs a (C : list N),
  failures_wf s0 -> st_failures s0 = [] ->
  let st := frun evs (finit s0) in
  (forall r t, In (a, (r, t)) (fs_rlog st) -> In r C) ->
  N.of_nat (length C) < quorum ->
  forall x, ~ In (a, x) (fs_done st).
Proof.
  intros s0 evs a C H1 H2 st HC Hlt x Hd.
  destruct (fail_needs_quorum s0 evs a x H1 H2 Hd) as (sg & tg & _ & _ & _ & l & L1 & L2 & L3).
  assert (Hincl : incl (map fst l) C).
  { intros r Hr. apply in_map_iff in Hr. destruct Hr as [[r0 t0] [Hr0 Hin]]. cbn [fst] in Hr0. subst r0.
    destruct (L3 r t0 Hin) as [Hl _]. eapply HC; eauto. }
  pose proof (NoDup_incl_length L1 Hincl) as Hlen. rewrite map_length in Hlen. lia.
Qed.

(* ---------- (3) re-registration: stale reports cannot fail the proxy ---------- *)

Definition reports_addr (a : N) (ev : fevent) : bool :=
  match ev with EReport _ b => N.eqb a b | _ => false end.

Definition no_report_of (a : N) (evs : list fevent) : bool := forallb (fun ev => negb (reports_addr a ev)) evs.

Lemma lookup_none_sub : forall (s s' : store) a,
  failures_wf s -> entries_sub s' s -> alookup a (st_failures s) = None -> alookup a (st_failures s') = None.
Proof.
  intros s s' a (K & _ & _) Hs Hn. destruct (alookup a (st_failures s')) as [m|] eqn:E; [|reflexivity].
  apply alookup_In in E. apply Hs in E. rewrite (In_alookup_sorted _ _ _ K E) in Hn. discriminate.
Qed.

Lemma not_listed_without_reports : forall s now a,
  failures_wf s -> alookup a (st_failures s) = None -> ~ In a (snd (get_failures s now ttl quorum)).
Proof.
  intros s now a W Hn Hin. destruct (quorum_distinct_lemma _ _ _ _ _ W Hin) as (_ & m & M1 & _). congruence.
Qed.

Record Clean (a : N) (done0 : list (N * option N)) (st : fstate) : Prop := {
  cl_wf : failures_wf (fs_store st);
  cl_none : alookup a (st_failures (fs_store st)) = None;
  cl_net : ~ In a (fs_net st);
  cl_done : forall x, In (a, x) (fs_done st) -> In (a, x) done0
}.

Lemma Clean_step : forall a done0 st ev, reports_addr a ev = false -> Clean a done0 st -> Clean a done0 (fstep st ev).
Proof.
  intros a done0 st ev Hr [W Hn Hnet Hd]. destruct ev; cbn [CtrlFail.fstep].
  - constructor; auto.
  - cbn [reports_addr] in Hr. apply N.eqb_neq in Hr.
    destruct (add_failure (fs_store st) a0 c (fs_clock st)) as [s' b] eqn:AF.
    assert (S' : s' = fst (add_failure (fs_store st) a0 c (fs_clock st))) by (rewrite AF; reflexivity).
    constructor; cbn [fs_store fs_net fs_done]; auto.
    + subst s'. apply wf_add_failure. exact W.
    + subst s'. unfold add_failure.
      destruct (match alookup a0 (st_failures (fs_store st)) with Some m => amem c m | None => false end); [exact Hn|].
      cbn [fst st_failures with_failures bump with_epoch]. rewrite alookup_ainsert_other by exact Hr. exact Hn.
  - destruct (get_failures (fs_store st) (fs_clock st) ttl quorum) as [s' l] eqn:GF.
    assert (S' : s' = fst (get_failures (fs_store st) (fs_clock st) ttl quorum)) by (rewrite GF; reflexivity).
    assert (L' : l = snd (get_failures (fs_store st) (fs_clock st) ttl quorum)) by (rewrite GF; reflexivity).
    assert (NL : ~ In a l) by (rewrite L'; apply not_listed_without_reports; assumption).
    constructor; cbn [fs_store fs_net fs_done]; auto.
    + subst s'. apply wf_get_failures. exact W.
    + destruct (alookup a (st_failures s')) as [m|] eqn:E; [|reflexivity]. exfalso.
      apply alookup_In in E. subst s'.
      destruct (expired_discarded_lemma (fs_store st) (fs_clock st) ttl quorum) as (E1 & _ & E3).
      destruct (E1 a m E) as [Hne _]. destruct m as [|[r t] m]; [congruence|].
      destruct (E3 a _ r t E (or_introl eq_refl)) as [m0 [M1 _]].
      destruct W as (K & _ & _). rewrite (In_alookup_sorted _ _ _ K M1) in Hn. discriminate.
    + intros H. apply in_app_or in H. tauto.
  - destruct (nth_error (fs_net st) i) as [b|] eqn:Hi; [|constructor; auto].
    destruct (replace_failed_proxy (fs_store st) b choice) as [s' o] eqn:RP.
    assert (S' : s' = fst (replace_failed_proxy (fs_store st) b choice)) by (rewrite RP; reflexivity).
    assert (Hb : b <> a) by (intros ->; apply Hnet; eapply nth_error_In; eauto).
    constructor; cbn [fs_store fs_net fs_done]; auto.
    + subst s'. apply wf_replace. exact W.
    + subst s'. eapply lookup_none_sub; eauto. apply replace_entries.
    + intros H. apply Hnet. eapply CtrlProofsInv.remove_nth_incl; eauto.
    + intros x H. destruct o; auto. destruct H as [H | H]; auto. inversion H. congruence.
  - constructor; cbn [with_net fs_store fs_net fs_done]; auto.
    intros H. apply Hnet. eapply CtrlProofsInv.remove_nth_incl; eauto.
  - destruct (nth_error (fs_net st) i) as [b|] eqn:Hi; [|constructor; auto].
    constructor; cbn [with_net fs_store fs_net fs_done]; auto.
    intros H. apply in_app_or in H. destruct H as [H | [<- | []]]; [auto|]. apply Hnet. eapply nth_error_In; eauto.
  - constructor; auto.
  - constructor; auto.
  - constructor; auto.
  - destruct (step (fs_store st) (OAddProxy a0 h i)) as [s' r] eqn:SP.
    assert (S' : s' = fst (add_proxy (fs_store st) a0 h i)) by (rewrite <- step_add_proxy_store, SP; reflexivity).
    constructor; cbn [with_store fs_store fs_net fs_done]; auto.
    + subst s'. apply wf_add_proxy. exact W.
    + subst s'. eapply lookup_none_sub; eauto. apply add_proxy_entries.
  - destruct (other_ok o) eqn:Ok; [|constructor; auto].
    destruct (step (fs_store st) o) as [s' r] eqn:SP.
    assert (SF : same_fail (fs_store st) s') by (pose proof (other_same_fail (fs_store st) o Ok) as H; rewrite SP in H; exact H).
    constructor; cbn [with_store fs_store fs_net fs_done]; auto.
    + eapply same_fail_wf; eauto.
    + destruct SF as [SF _]. rewrite SF. exact Hn.
Qed.

Lemma Clean_run : forall a done0 evs st, no_report_of a evs = true -> Clean a done0 st -> Clean a done0 (frun evs st).
Proof.
  induction evs as [|ev evs IH]; intros st H C; [exact C|].
  cbn [no_report_of forallb] in H. apply andb_true_iff in H. destruct H as [H1 H2].
  rewrite frun_cons. apply IH; [exact H2|]. apply Clean_step; [|exact C]. destruct (reports_addr a ev); [discriminate | reflexivity].
Qed.

(* after a proxy has re-registered (any add_proxy that is not the MissingIndex rejection), as long as nobody reports it again and no
   replace call for it was already on its way, nothing fails it over: the reports stored before are gone for good *)
Theorem fail_reregister_clears : forall st a h i evs,
  failures_wf (fs_store st) ->
  snd (add_proxy (fs_store st) a h i) <> Fail E_MissingIndex ->
  ~ In a (fs_net st) ->
  no_report_of a evs = true ->
  let st1 := fstep st (ERegister a h i) in
  let st2 := frun evs st1 in
  alookup a (st_failures (fs_store st2)) = None /\ ~ In a (fs_net st2) /\
  forall x, In (a, x) (fs_done st2) -> In (a, x) (fs_done st).
Proof.
  intros st a h i evs W Hm Hnet Hev st1 st2.
  assert (C1 : Clean a (fs_done st) st1).
  { unfold st1. cbn [CtrlFail.fstep].
    destruct (step (fs_store st) (OAddProxy a h i)) as [s' r] eqn:SP.
    assert (S' : s' = fst (add_proxy (fs_store st) a h i)) by (rewrite <- step_add_proxy_store, SP; reflexivity).
    destruct (reregister_clears_lemma (fs_store st) a h i W Hm) as (R1 & _ & _).
    constructor; cbn [with_store fs_store fs_net fs_done]; auto.
    - subst s'. apply wf_add_proxy. exact W.
    - subst s'. exact R1. }
  destruct (Clean_run a (fs_done st) evs st1 Hev C1) as [_ Hn Hne Hd]. auto.
Qed.

End Fail.

(* ---------- the compiled detector: a coordinator reports a proxy only after three failed PING attempts ---------- *)
Section Detector.
Variable ttl : Z.
Variable quorum : N.
Variable sc : fscript.

Definition attempt_fails (a : N) (n : nat) (st : fstate) : Prop :=
  answered (fc_fault sc n) && negb (nmem a (fs_down st)) = false.

Lemma probe_loop_spec : forall k c a n st e n' alive cr,
  probe_loop sc k c a n st = (e, n', alive, cr) ->
  (forall c' a', ~ In (EReport c' a') e) /\
  (alive = false -> cr = false -> n' = (n + k)%nat /\ forall j, (j < k)%nat -> attempt_fails a (n + j) st).
Proof.
  induction k as [|k IH]; intros c a n st e n' alive cr H; cbn [probe_loop] in H.
  - inversion H; subst. split; [intros c' a' []|]. intros _ _. split; [lia|]. intros j Hj. lia.
  - assert (Gen : (fc_fault sc n = Ctrl.FCrash /\ (e, n', alive, cr) = ([EProbe c a false], S n, false, true)) \/
                  (fc_fault sc n <> Ctrl.FCrash /\
                   (if answered (fc_fault sc n) && negb (nmem a (fs_down st)) then ([EProbe c a true], S n, true, false)
                    else let '(e0, n0, alive0, cr0) := probe_loop sc k c a (S n) st in (EProbe c a false :: e0, n0, alive0, cr0))
                   = (e, n', alive, cr))).
    { destruct (fc_fault sc n); try (right; split; [discriminate | exact H]). left. split; [reflexivity | symmetry; exact H]. }
    clear H. destruct Gen as [[_ H] | [_ H]].
    + inversion H; subst. split; [intros c' a' [X | []]; discriminate|]. intros _ X. discriminate.
    + destruct (answered (fc_fault sc n) && negb (nmem a (fs_down st))) eqn:At.
      * inversion H; subst. split; [intros c' a' [X | []]; discriminate|]. intros X. discriminate.
      * destruct (probe_loop sc k c a (S n) st) as [[[e0 n0] alive0] cr0] eqn:P. inversion H; subst.
        destruct (IH _ _ _ _ _ _ _ _ P) as [N1 N2]. split.
        -- intros c' a' [X | X]; [discriminate | eapply N1; eauto].
        -- intros Ha Hc. destruct (N2 Ha Hc) as [En Hall]. split; [lia|].
           intros j Hj. destruct j as [|j]; [rewrite Nat.add_0_r; exact At|].
           replace (n + S j)%nat with (S n + j)%nat by lia. apply Hall. lia.
Qed.

Theorem report_needs_three_failed_probes : forall c a n st e n' cr c' a',
  detect_proxy sc c a n st = (e, n', cr) ->
  In (EReport c' a') e ->
  c' = c /\ a' = a /\ forall j, (j < 3)%nat -> attempt_fails a (n + j) st.
Proof.
  intros c a n st e n' cr c' a' H Hin. unfold detect_proxy in H.
  destruct (probe_loop sc 3 c a n st) as [[[e0 n1] alive] cr0] eqn:P.
  destruct (probe_loop_spec _ _ _ _ _ _ _ _ _ P) as [N1 N2].
  destruct cr0; [inversion H; subst; exfalso; eapply N1; eauto|].
  destruct alive; [inversion H; subst; exfalso; eapply N1; eauto|].
  destruct (N2 eq_refl eq_refl) as [_ Hall].
  assert (X : In (EReport c' a') e -> In (EReport c' a') (e0 ++ [EReport c a; EReport c a])).
  { intros Hi. destruct (fc_fault sc n1); inversion H; subst; apply in_or_app;
      try (apply in_app_or in Hi; destruct Hi as [Hi | Hi]; [left; exact Hi | right; cbn in Hi |- *; tauto]).
    - left; exact Hi.
    - left; exact Hi. }
  specialize (X Hin). apply in_app_or in X. destruct X as [X | X]; [exfalso; eapply N1; eauto|].
  destruct X as [X | [X | []]]; inversion X; subst; auto.
Qed.

End Detector.
