(* Slot-partition invariant (C01, C10): growing and shrinking a cluster by chunks that hold no slots.
   auto_add_nodes / auto_scale_up_nodes append free chunks; auto_delete_free_nodes(_if_exists) drops the free chunks of
   a cluster that is not migrating (hence has no migration entry at all).
   Also: gen_chunks returns exactly proxy_num / 2 pairs (needed for the size clause here and in add_cluster). *)
From UM Require Import Base.BytesDef Model.Ranges Model.Broker Proofs.BrokerBase Proofs.BrokerPartRanges Proofs.BrokerPartDefs
  Proofs.BrokerPartOpsFrame.
From Coq Require Import ZifyBool ZifyNat ZifyN.
Ltac Zify.zify_post_hook ::= Z.div_mod_to_equations.

(* ---------- how many pairs the allocators return ---------- *)
Lemma alloc_loop_length s : forall need cnts links taken choices acc r,
  alloc_loop s need cnts links taken choices acc = Done r -> length r = (need + length acc)%nat.
Proof.
  induction need as [|need IH]; intros cnts links taken choices acc r H; cbn [alloc_loop] in H.
  - destruct choices; [|discriminate]. inversion H. rewrite rev_length. reflexivity.
  - destruct choices as [|[a b] rest]; [destruct (alloc_stuck cnts links); discriminate|].
    destruct (alloc_one s cnts links taken a b) as [[cnts' links']| |]; try discriminate.
    apply IH in H. cbn [length] in H. lia.
Qed.

Lemma generate_free_chunks_length s pn choices r :
  generate_free_chunks s pn choices = Done r -> length r = N.to_nat ((pn + 1) / 2).
Proof.
  unfold generate_free_chunks. intros H.
  destruct (N.ltb _ pn); [discriminate|]. destruct (N.ltb _ _); [discriminate|].
  apply alloc_loop_length in H. cbn [length] in H. lia.
Qed.

Lemma insert_by_index_length e l : length (insert_by_index e l) = S (length l).
Proof.
  induction l as [|x l IH]; cbn [insert_by_index length]; [reflexivity|].
  destruct (N.ltb _ _); cbn [length]; [reflexivity|]. rewrite IH. reflexivity.
Qed.

Lemma sort_by_index_length : forall fp acc,
  length (fold_left (fun acc e => insert_by_index e acc) fp acc) = (length fp + length acc)%nat.
Proof.
  induction fp as [|e fp IH]; intros acc; cbn [fold_left length]; [reflexivity|].
  rewrite IH, insert_by_index_length. lia.
Qed.

Lemma pair_up_length : forall ps l, pair_up l = Some ps -> length l = (2 * length ps)%nat.
Proof.
  induction ps as [|p ps IH]; intros l H.
  - destruct l as [|a [|b l']]; cbn [pair_up] in H; [reflexivity|discriminate|].
    destruct (pair_up l'); discriminate.
  - destruct l as [|a [|b l']]; cbn [pair_up] in H; try discriminate.
    destruct (pair_up l') as [r|] eqn:E; [|discriminate]. inversion H; subst.
    cbn [length]. rewrite (IH l' E). lia.
Qed.

Lemma generate_ordered_chunks_length s pn fi r :
  generate_ordered_chunks s pn fi = Done r -> (2 * length r)%nat = N.to_nat pn.
Proof.
  unfold generate_ordered_chunks. intros H.
  destruct (N.ltb (N.of_nat (length (free_proxies s))) pn) eqn:E; [discriminate|].
  destruct (negb _); [discriminate|].
  destruct (pair_up _) as [ps|] eqn:Ep; [|discriminate]. inversion H; subst ps; clear H.
  apply pair_up_length in Ep. rewrite <- Ep. rewrite firstn_length_le; [reflexivity|].
  rewrite sort_by_index_length. cbn [length]. lia.
Qed.

Lemma gen_chunks_length s pn fi choices r :
  gen_chunks s pn fi choices = Done r -> pn mod 2 = 0 -> 2 * N.of_nat (length r) = pn.
Proof.
  unfold gen_chunks. intros H Hev. destruct (st_ordered s).
  - apply generate_ordered_chunks_length in H. lia.
  - apply generate_free_chunks_length in H. lia.
Qed.

(* ---------- free chunks ---------- *)
Lemma chunk_is_free_fields c : chunk_is_free c = true ->
  ck_stable0 c = None /\ ck_stable1 c = None /\ ck_mig0 c = [] /\ ck_mig1 c = [].
Proof.
  unfold chunk_is_free. destruct (ck_stable0 c); [discriminate|]. destruct (ck_stable1 c); [discriminate|].
  destruct (ck_mig0 c); [|discriminate]. destruct (ck_mig1 c); [|discriminate]. auto.
Qed.

Lemma free_all_ranges c : chunk_is_free c = true -> chunk_all_ranges c = [].
Proof. intros H. apply chunk_is_free_fields in H. destruct H as (E0 & E1 & M0 & M1). unfold chunk_all_ranges. rewrite E0, E1, M0, M1. reflexivity. Qed.
Lemma free_owned c : chunk_is_free c = true -> chunk_owned c = [].
Proof. intros H. apply chunk_is_free_fields in H. destruct H as (E0 & E1 & M0 & M1). unfold chunk_owned. rewrite E0, E1, M0, M1. reflexivity. Qed.
Lemma free_out c : chunk_is_free c = true -> chunk_out c = [].
Proof. intros H. apply chunk_is_free_fields in H. destruct H as (E0 & E1 & M0 & M1). unfold chunk_out. rewrite M0, M1. reflexivity. Qed.
Lemma free_in c : chunk_is_free c = true -> chunk_in c = [].
Proof. intros H. apply chunk_is_free_fields in H. destruct H as (E0 & E1 & M0 & M1). unfold chunk_in. rewrite M0, M1. reflexivity. Qed.

Lemma flat_map_all_nil {A B} (f : A -> list B) l : (forall a, In a l -> f a = []) -> flat_map f l = [].
Proof.
  induction l as [|a l IH]; intros H; cbn [flat_map]; [reflexivity|].
  rewrite (H a (or_introl eq_refl)), IH; [reflexivity|]. intros b Hb. apply H. right. exact Hb.
Qed.

Lemma flat_map_app_free {B} (f : chunk -> list B) l l2 :
  (forall c, In c l2 -> f c = []) -> flat_map f (l ++ l2) = flat_map f l.
Proof. intros H. rewrite flat_map_app, (flat_map_all_nil f l2 H), app_nil_r. reflexivity. Qed.

Lemma entries_at_app_free l l2 pos : (forall c, In c l2 -> chunk_is_free c = true) ->
  entries_at (l ++ l2) pos = entries_at l pos.
Proof.
  intros Hf. unfold entries_at. destruct (Nat.ltb (fst pos) (length l)) eqn:E.
  - rewrite nth_error_app1 by lia. reflexivity.
  - rewrite nth_error_app2 by lia.
    assert (En : nth_error l (fst pos) = None) by (apply nth_error_None; lia). rewrite En.
    destruct (nth_error l2 (fst pos - length l)) as [c|] eqn:E2; [|reflexivity].
    apply nth_error_In in E2. apply Hf, chunk_is_free_fields in E2. destruct E2 as (_ & _ & M0 & M1).
    unfold ck_mig. destruct (snd pos); assumption.
Qed.

Theorem part_inv_app_free l l2 :
  part_inv l -> (forall c, In c l2 -> chunk_is_free c = true) -> 2 * N.of_nat (length (l ++ l2)) <= SLOT_NUM ->
  part_inv (l ++ l2).
Proof.
  intros [Sz W Nn C B T] Hf Hsz. constructor.
  - exact Hsz.
  - rewrite flat_map_app_free; [exact W|]. intros c Hc. apply free_all_ranges. auto.
  - intros pos e He. rewrite entries_at_app_free in He by assumption. eapply Nn. exact He.
  - unfold owned. rewrite flat_map_app_free; [exact C|]. intros c Hc. apply free_owned. auto.
  - intros s. unfold all_in, all_out. rewrite !flat_map_app_free; [apply B| |].
    + intros c Hc. apply free_out. auto.
    + intros c Hc. apply free_in. auto.
  - intros pos e He. rewrite entries_at_app_free in He by assumption.
    destruct (T pos e He) as (T1 & T2 & T3). split; [exact T1|]. split.
    + rewrite app_length. lia.
    + rewrite entries_at_app_free by assumption. exact T3.
Qed.

Lemma chunks_of_pairs_length s : forall pairs ws av rm i curr,
  length (chunks_of_pairs s pairs ws av rm i curr) = length pairs.
Proof.
  induction pairs as [|[a b] rest IH]; intros ws av rm i curr; cbn [chunks_of_pairs length]; [reflexivity|].
  rewrite IH. reflexivity.
Qed.

Lemma chunks_of_pairs_free s : forall pairs av rm i curr c,
  In c (chunks_of_pairs s pairs false av rm i curr) -> chunk_is_free c = true.
Proof.
  induction pairs as [|[a b] rest IH]; intros av rm i curr c H; cbn [chunks_of_pairs] in H; [destruct H|].
  destruct H as [<-|H]; [reflexivity|]. eapply IH. exact H.
Qed.

Theorem auto_add_nodes_part_inv s name num choices :
  store_part_inv s -> store_part_inv (fst (auto_add_nodes s name num choices)).
Proof.
  intros H. unfold auto_add_nodes.
  destruct (alookup name (st_clusters s)) as [cl|] eqn:E; cbn [fst]; [|exact H].
  destruct (cluster_is_migrating cl); cbn [fst]; [exact H|].
  destruct (negb (N.eqb (num mod 4) 0)) eqn:E4; cbn [fst]; [exact H|].
  destruct (N.eqb (num / 2) 0); cbn [fst]; [exact H|].
  destruct (N.ltb SLOT_NUM _) eqn:Esz; cbn [fst]; [exact H|].
  destruct (gen_chunks s (num / 2) _ choices) as [pairs| |] eqn:Eg; cbn [fst]; try exact H.
  eapply store_inv_insert; [eapply store_inv_clusters; [|exact H]; reflexivity| |reflexivity].
  unfold cluster_inv. cbn [cl_chunks].
  apply part_inv_app_free.
  - eapply store_inv_lookup; eassumption.
  - unfold proxy_resource_to_chunk_store. intros c Hc. eapply chunks_of_pairs_free. exact Hc.
  - rewrite app_length. unfold proxy_resource_to_chunk_store. rewrite chunks_of_pairs_length.
    apply gen_chunks_length in Eg; [|lia]. lia.
Qed.

Theorem auto_scale_up_nodes_part_inv s name expected choices :
  store_part_inv s -> store_part_inv (fst (auto_scale_up_nodes s name expected choices)).
Proof.
  intros H. unfold auto_scale_up_nodes.
  destruct (alookup name (st_clusters s)) as [cl|]; cbn [fst]; [|exact H].
  destruct (N.leb expected _); cbn [fst]; [exact H|]. apply auto_add_nodes_part_inv. exact H.
Qed.

(* ---------- clusters without migration ---------- *)
Definition no_migs (l : list chunk) : Prop := forall c, In c l -> ck_mig0 c = [] /\ ck_mig1 c = [].

Lemma not_migrating_no_migs cl : cluster_is_migrating cl = false -> no_migs (cl_chunks cl).
Proof.
  unfold cluster_is_migrating, no_migs. intros H c Hc.
  assert (Hm : chunk_is_migrating c = false).
  { destruct (chunk_is_migrating c) eqn:Em; [|reflexivity].
    assert (existsb chunk_is_migrating (cl_chunks cl) = true) by (apply existsb_exists; eauto). congruence. }
  unfold chunk_is_migrating in Hm. destruct (ck_mig0 c); destruct (ck_mig1 c); cbn in Hm; try discriminate. auto.
Qed.

Lemma no_migs_entries l pos : no_migs l -> entries_at l pos = [].
Proof.
  intros H. unfold entries_at. destruct (nth_error l (fst pos)) as [c|] eqn:E; [|reflexivity].
  apply nth_error_In, H in E. destruct E as [M0 M1]. unfold ck_mig. destruct (snd pos); assumption.
Qed.

Lemma no_migs_in_out l : no_migs l -> all_in l = [] /\ all_out l = [].
Proof.
  intros H. split; apply flat_map_all_nil; intros c Hc; destruct (H c Hc) as [M0 M1].
  - unfold chunk_in. rewrite M0, M1. reflexivity.
  - unfold chunk_out. rewrite M0, M1. reflexivity.
Qed.

Lemma owned_filter_nonfree l : owned (filter (fun c => negb (chunk_is_free c)) l) = owned l.
Proof.
  unfold owned. induction l as [|c l IH]; cbn [filter flat_map]; [reflexivity|].
  destruct (chunk_is_free c) eqn:E; cbn [negb flat_map].
  - rewrite IH, (free_owned c E). reflexivity.
  - rewrite IH. reflexivity.
Qed.

Lemma filter_length_le' {A} (p : A -> bool) l : (length (filter p l) <= length l)%nat.
Proof. induction l as [|a l IH]; cbn [filter length]; [lia|]. destruct (p a); cbn [length]; lia. Qed.

Theorem part_inv_filter_nonfree l : part_inv l -> no_migs l -> part_inv (filter (fun c => negb (chunk_is_free c)) l).
Proof.
  intros [Sz W Nn C B T] Hn.
  assert (Hn' : no_migs (filter (fun c => negb (chunk_is_free c)) l)).
  { intros c Hc. apply filter_In in Hc. apply Hn. tauto. }
  constructor.
  - pose proof (filter_length_le' (fun c => negb (chunk_is_free c)) l). lia.
  - rewrite Forall_forall in *. intros r Hr. apply W. apply in_flat_map in Hr. destruct Hr as (c & Hc & Hr).
    apply filter_In in Hc. apply in_flat_map. exists c. tauto.
  - intros pos e He. rewrite no_migs_entries in He by assumption. destruct He.
  - rewrite owned_filter_nonfree. exact C.
  - intros s. destruct (no_migs_in_out _ Hn') as [-> ->]. reflexivity.
  - intros pos e He. rewrite no_migs_entries in He by assumption. destruct He.
Qed.

Theorem auto_delete_free_nodes_part_inv s name :
  store_part_inv s -> store_part_inv (fst (auto_delete_free_nodes s name)).
Proof.
  intros H. unfold auto_delete_free_nodes.
  destruct (alookup name (st_clusters s)) as [cl|] eqn:E; cbn [fst]; [|exact H].
  destruct (cluster_is_migrating cl) eqn:Em; cbn [fst]; [exact H|].
  destruct (filter chunk_is_free (cl_chunks cl)) as [|c0 removed]; cbn [fst]; [exact H|].
  eapply store_inv_insert; [exact H| |reflexivity].
  unfold cluster_inv. cbn [cl_chunks]. apply part_inv_filter_nonfree.
  - eapply store_inv_lookup; eassumption.
  - apply not_migrating_no_migs. exact Em.
Qed.

Lemma auto_delete_if_exists_fst s name :
  fst (auto_delete_free_nodes_if_exists s name) = fst (auto_delete_free_nodes s name).
Proof.
  unfold auto_delete_free_nodes_if_exists. destruct (auto_delete_free_nodes s name) as [s' [u|e|]]; [reflexivity| |reflexivity].
  destruct e; reflexivity.
Qed.

Theorem auto_delete_free_nodes_if_exists_part_inv s name :
  store_part_inv s -> store_part_inv (fst (auto_delete_free_nodes_if_exists s name)).
Proof. intros H. rewrite auto_delete_if_exists_fst. apply auto_delete_free_nodes_part_inv. exact H. Qed.
