(* Remove phase of the scale-down planner (migrate.rs remove_slots_from_src_to_scale_down): when it does not panic,
   every slot range taken from a source master ends up in exactly one pending migration, nothing is left in the
   accumulator and - by a counting argument over the numbers of slots - no source still holds a slot when its stable
   list is dropped. *)
From UM Require Import Base.BytesDef Model.Ranges Model.Broker Proofs.BrokerBase Proofs.BrokerPartRanges Proofs.BrokerPartDefs Proofs.BrokerPartMigrateBase Proofs.BrokerPartMigrateSum.
From Coq Require Import ZifyBool ZifyNat ZifyN Permutation.

Ltac msplit := repeat match goal with |- _ /\ _ => split end.

Lemma csub_some a b c : csub a b = Some c -> b <= a /\ c = a - b.
Proof. unfold csub. destruct (N.ltb a b) eqn:E; [discriminate|]. intros H. inversion H. lia. Qed.

Definition lsum (l : list N) : N := fold_right N.add 0 l.

Lemma lsum_app a b : lsum (a ++ b) = lsum a + lsum b.
Proof.
  induction a as [|x a IH]; [cbn [app]; change (lsum []) with 0; lia|].
  cbn [app]. change (lsum (x :: a ++ b)) with (x + lsum (a ++ b)). change (lsum (x :: a)) with (x + lsum a). lia.
Qed.

Lemma firstn_succ_nth {A} : forall (l : list A) n e, nth_error l n = Some e -> firstn (S n) l = firstn n l ++ [e].
Proof.
  induction l as [|x l IH]; intros n e H; destruct n; cbn [nth_error] in H; try discriminate.
  - inversion H. reflexivity.
  - cbn [firstn app]. f_equal. apply IH. exact H.
Qed.

Definition tot (s : N) (rl : rangelist) (acc : macc) : nat :=
  (cnt s rl + cnt s (a_cur acc) + cnt s (mig_ranges (a_migs acc)))%nat.

Definition migs_nonempty (migs : list (rangelist * mig_meta)) : Prop := forall l m, In (l, m) migs -> l <> [].

Lemma mig_ranges_cons l m migs : mig_ranges ((l, m) :: migs) = l ++ mig_ranges migs.
Proof. reflexivity. Qed.

(* taking remove_num slots from the front range of a source *)
Lemma take_front_spec r tail cur anum remove_num num rl1 cur1 num1 :
  wf_range r -> num = snd r - fst r + 1 -> 1 <= remove_num ->
  (if N.leb num remove_num then (tail, cur ++ [r], anum + num)
   else ((fst r + remove_num, snd r) :: tail, cur ++ [(fst r, remove_num + fst r - 1)], anum + remove_num)) = (rl1, cur1, num1) ->
  Forall wf_range tail -> Forall wf_range cur ->
  exists t, 1 <= t /\ t <= remove_num /\ num1 = anum + t /\ slots_total (r :: tail) = slots_total rl1 + t /\
    Forall wf_range rl1 /\ Forall wf_range cur1 /\ cur1 <> [] /\
    forall s, (cnt s rl1 + cnt s cur1 = cnt s (r :: tail) + cnt s cur)%nat.
Proof.
  intros Hr Hnum Hrem Hstep Ht Hc. unfold wf_range in Hr.
  destruct (N.leb num remove_num) eqn:E; inversion Hstep; subst rl1 cur1 num1; clear Hstep.
  - exists num. repeat split; try lia.
    + rewrite slots_total_cons. lia.
    + assumption.
    + apply Forall_app. split; [assumption|]. constructor; [exact Hr|constructor].
    + intros Hnil. apply app_eq_nil in Hnil. destruct Hnil as [_ Hnil]. discriminate.
    + intros s. rewrite cnt_snoc, cnt_cons. lia.
  - exists remove_num. repeat split; try lia.
    + rewrite !slots_total_cons. cbn [fst snd]. lia.
    + constructor; [|assumption]. unfold wf_range. cbn [fst snd]. lia.
    + apply Forall_app. split; [assumption|]. constructor; [|constructor]. unfold wf_range. cbn [fst snd]. lia.
    + intros Hnil. apply app_eq_nil in Hnil. destruct Hnil as [_ Hnil]. discriminate.
    + intros s. rewrite cnt_snoc, !cnt_cons.
      assert (Hsplit := in_range_split_front s (fst r) (snd r) remove_num).
      replace (fst r, snd r) with r in Hsplit by (destruct r; reflexivity).
      rewrite Hsplit by lia. lia.
Qed.

Section Down.
Variables (epoch avg rem dmn : N) (ex : list N).

Definition dfin (k : N) : N := avg + b2n (N.ltb k rem).
Definition sumF (k : N) : N := avg * k + N.min k rem.
Definition sumE (k : N) : N := lsum (firstn (N.to_nat k) ex).

Lemma sumF_succ k : sumF (k + 1) = sumF k + dfin k.
Proof. unfold sumF, dfin, b2n. destruct (N.ltb k rem) eqn:E; lia. Qed.

Lemma sumE_succ k e : nth_error ex (N.to_nat k) = Some e -> sumE (k + 1) = sumE k + e.
Proof.
  intros H. unfold sumE. replace (N.to_nat (k + 1)) with (S (N.to_nat k)) by lia.
  rewrite (firstn_succ_nth _ _ _ H), lsum_app. cbn [lsum fold_right]. lia.
Qed.

Definition phi (acc : macc) (n : N) : Z :=
  (Z.of_N (sumF (a_dst acc)) + Z.of_N (a_num acc) + Z.of_N n - Z.of_N (sumE (a_dst acc)))%Z.

Definition numinv (acc : macc) : Prop :=
  a_num acc = 0 \/ exists e, nth_error ex (N.to_nat (a_dst acc)) = Some e /\ a_num acc + e < dfin (a_dst acc).

Definition pre (rl : rangelist) (acc : macc) : Prop :=
  a_cur acc = [] \/ (a_dst acc <> dmn /\ slots_total rl <> 0 /\ a_num acc <> 0).

Lemma scale_down_loop_ok : forall fuel idx part rl acc rl' acc',
  scale_down_loop fuel epoch avg rem dmn ex idx part rl acc = Done (rl', acc') ->
  Forall wf_range rl -> Forall wf_range (a_cur acc) -> Forall wf_range (mig_ranges (a_migs acc)) ->
  migs_nonempty (a_migs acc) ->
  (forall s, (tot s rl acc <= 1)%nat) ->
  numinv acc -> pre rl acc ->
  Forall wf_range rl' /\ Forall wf_range (mig_ranges (a_migs acc')) /\ migs_nonempty (a_migs acc') /\
  (forall s, tot s rl' acc' = tot s rl acc) /\ a_cur acc' = [] /\ numinv acc' /\
  phi acc' (slots_total rl') = phi acc (slots_total rl) /\
  (a_dst acc' = dmn \/ slots_total rl' = 0).
Proof.
  induction fuel as [|fuel IH]; intros idx part rl acc rl' acc' H Hwrl Hwcur Hwmig Hne Htot Hnum Hpre;
    cbn [scale_down_loop] in H; [discriminate|].
  destruct (N.eqb (a_dst acc) dmn) eqn:Ed.
  { (* all destinations served *)
    inversion H; subst rl' acc'. clear H.
    assert (Hcur : a_cur acc = []) by (destruct Hpre as [Hc|[Hc _]]; [exact Hc|lia]).
    msplit; auto. left. lia. }
  change (avg + b2n (N.ltb (a_dst acc) rem)) with (dfin (a_dst acc)) in H.
  destruct (nth_error ex (N.to_nat (a_dst acc))) as [e|] eqn:Ee; [|discriminate].
  destruct (csub (dfin (a_dst acc)) (a_num acc)) as [d1|] eqn:Ed1; [|discriminate].
  destruct (csub d1 e) as [need|] eqn:En; [|discriminate].
  apply csub_some in Ed1. destruct Ed1 as [Hd1a Hd1]. apply csub_some in En. destruct En as [Hna Hn].
  destruct (N.eqb need 0) eqn:En0.
  { (* this destination already owns its final number of slots *)
    assert (Hz : a_num acc = 0).
    { destruct Hnum as [Hz|[e' [He' Hlt]]]; [exact Hz|]. rewrite Ee in He'. inversion He'; subst e'. lia. }
    assert (Hcur : a_cur acc = []) by (destruct Hpre as [Hc|[_ [_ Hc]]]; [exact Hc|lia]).
    apply IH in H; cbn [a_dst a_cur a_num a_migs]; auto.
    - destruct H as (H1 & H2 & H3 & H4 & H5 & H6 & H7 & H8). msplit; auto.
      rewrite H7. unfold phi. cbn [a_dst a_num]. rewrite sumF_succ, (sumE_succ _ _ Ee). lia.
    - left. exact Hz.
    - left. exact Hcur. }
  destruct (slots_num rl) as [av|] eqn:Eav; [|discriminate].
  destruct (slots_num_some_wf _ _ Eav) as [_ Hav].
  destruct (N.eqb av 0) eqn:Eav0.
  { (* source exhausted *)
    inversion H; subst rl' acc'. clear H.
    assert (Hcur : a_cur acc = []) by (destruct Hpre as [Hc|[_ [Hc _]]]; [exact Hc|lia]).
    msplit; auto. right. lia. }
  destruct rl as [|r tail]; [discriminate|].
  destruct (range_len r) as [num|] eqn:Er; [|discriminate].
  destruct (range_len_some _ _ Er) as [Hwr Hnumeq].
  pose proof (Forall_inv_tail Hwrl) as Hwtail.
  assert (Hrn : 1 <= N.min need av) by lia.
  match type of H with context [if N.leb ?a ?b then (?x, ?y, ?z) else ?w] =>
    destruct (if N.leb a b then (x, y, z) else w) as [[rl1 cur1] num1] eqn:Estep end.
  destruct (take_front_spec r tail (a_cur acc) (a_num acc) _ _ rl1 cur1 num1 Hwr Hnumeq Hrn Estep Hwtail Hwcur)
    as (t & Ht1 & Ht2 & Hnum1 & Hst & Hwrl1 & Hwcur1 & Hcur1ne & Hcnt).
  clear Estep.
  destruct (slots_num rl1) as [n1|] eqn:En1; [|discriminate].
  destruct (slots_num_some_wf _ _ En1) as [_ Hn1].
  assert (Hcur1le : forall s, (cnt s cur1 <= 1)%nat).
  { intros s. specialize (Htot s). specialize (Hcnt s). unfold tot in Htot. lia. }
  destruct (compact_cnt cur1 Hwcur1 Hcur1le) as [Hcc Hcw].
  destruct (N.leb (dfin (a_dst acc)) (num1 + e) || N.eqb n1 0) eqn:Efl.
  - (* flush *)
    set (meta := mkMeta epoch idx part (N.to_nat (a_dst acc / 2)) (N.eqb (a_dst acc mod 2) 1)) in *.
    assert (Hwm' : Forall wf_range (mig_ranges ((rl_new cur1, meta) :: a_migs acc))).
    { rewrite mig_ranges_cons. apply Forall_app. split; assumption. }
    assert (Hne' : migs_nonempty ((rl_new cur1, meta) :: a_migs acc)).
    { intros l m [Hlm|Hlm]; [|eapply Hne; exact Hlm]. inversion Hlm; subst. apply compact_nonempty. exact Hcur1ne. }
    assert (Htot' : forall s a b, tot s rl1 (mkAcc a [] b ((rl_new cur1, meta) :: a_migs acc)) = tot s (r :: tail) acc).
    { intros s a b. unfold tot. cbn [a_cur a_migs]. rewrite mig_ranges_cons, cnt_app, cnt_nil.
      unfold rl_new. rewrite Hcc. specialize (Hcnt s). lia. }
    destruct (N.leb (dfin (a_dst acc)) (num1 + e)) eqn:Eadv.
    + (* destination complete: advance *)
      assert (Hphi : forall n, phi (mkAcc (a_dst acc + 1) [] 0 ((rl_new cur1, meta) :: a_migs acc)) n
                               = (phi acc (slots_total (r :: tail)) - Z.of_N (slots_total rl1) + Z.of_N n)%Z).
      { intros n. unfold phi. cbn [a_dst a_num]. rewrite sumF_succ, (sumE_succ _ _ Ee). lia. }
      destruct (N.eqb n1 0) eqn:En10.
      * inversion H; subst rl' acc'. clear H. cbn [a_dst a_cur a_num a_migs].
        msplit.
        -- exact Hwrl1.
        -- exact Hwm'.
        -- exact Hne'.
        -- intros s. apply Htot'.
        -- reflexivity.
        -- left. reflexivity.
        -- rewrite Hphi. lia.
        -- right. lia.
      * apply IH in H; cbn [a_dst a_cur a_num a_migs]; auto.
        -- destruct H as (H1 & H2 & H3 & H4 & H5 & H6 & H7 & H8). msplit; auto.
           ++ intros s. rewrite H4. apply Htot'.
           ++ rewrite H7, Hphi. lia.
        -- intros s. rewrite Htot'. apply Htot.
        -- left. reflexivity.
        -- left. reflexivity.
    + (* source exhausted before the destination is complete *)
      cbn [orb] in Efl. rewrite Efl in H.
      inversion H; subst rl' acc'. clear H. cbn [a_dst a_cur a_num a_migs].
      msplit.
      * exact Hwrl1.
      * exact Hwm'.
      * exact Hne'.
      * intros s. apply Htot'.
      * reflexivity.
      * right. exists e. cbn [a_dst a_num]. split; [exact Ee|lia].
      * unfold phi. cbn [a_dst a_num]. lia.
      * right. lia.
  - (* keep collecting for the same destination *)
    apply orb_false_iff in Efl. destruct Efl as [Eadv En10].
    apply IH in H; cbn [a_dst a_cur a_num a_migs]; auto.
    + destruct H as (H1 & H2 & H3 & H4 & H5 & H6 & H7 & H8). msplit; auto.
      * intros s. rewrite H4. unfold tot. cbn [a_cur a_migs]. specialize (Hcnt s). lia.
      * rewrite H7. unfold phi. cbn [a_dst a_num]. lia.
    + intros s. specialize (Htot s). specialize (Hcnt s). unfold tot in *. cbn [a_cur a_migs]. lia.
    + right. exists e. cbn [a_dst a_num]. split; [exact Ee|lia].
    + right. cbn [a_dst a_num]. msplit; lia.
Qed.


Lemma phi_n acc n : phi acc n = (phi acc 0 + Z.of_N n)%Z.
Proof. unfold phi. lia. Qed.

(* ---------- one part (master) of a source chunk ---------- *)
Hypothesis HsumF : sumF dmn = SLOT_NUM.

Definition kconst : Z := (Z.of_N SLOT_NUM - Z.of_N (sumE dmn))%Z.

Definition down_part (idx : nat) (part : bool) (c : chunk) (acc : macc) : outcome (chunk * macc) :=
  match ck_stable c part with
  | None => Done (c, acc)
  | Some rl =>
    match scale_down_loop (loop_fuel rl dmn) epoch avg rem dmn ex idx part rl acc with
    | Done (_, acc') => Done (set_stable c part None, acc')
    | Fail e => Fail e
    | Panic => Panic
    end
  end.

Lemma scale_down_chunks_cons idx c rest acc :
  scale_down_chunks epoch avg rem dmn ex idx (c :: rest) acc =
  match down_part idx false c acc with
  | Done (c1, acc1) =>
    match down_part idx true c1 acc1 with
    | Done (c2, acc2) =>
      match scale_down_chunks epoch avg rem dmn ex (S idx) rest acc2 with
      | Done (rest', acc3) => Done (c2 :: rest', acc3)
      | Fail e => Fail e
      | Panic => Panic
      end
    | Fail e => Fail e
    | Panic => Panic
    end
  | Fail e => Fail e
  | Panic => Panic
  end.
Proof. reflexivity. Qed.

Lemma down_part_ok idx part c acc c' acc' (others : N) :
  down_part idx part c acc = Done (c', acc') ->
  Forall wf_range (opt_ranges (ck_stable c part)) -> a_cur acc = [] ->
  Forall wf_range (mig_ranges (a_migs acc)) -> migs_nonempty (a_migs acc) ->
  (forall s, (cnt s (opt_ranges (ck_stable c part)) + cnt s (mig_ranges (a_migs acc)) <= 1)%nat) ->
  numinv acc ->
  (phi acc (slots_total (opt_ranges (ck_stable c part))) + Z.of_N others = kconst)%Z ->
  ck_stable c' part = None /\ ck_stable c' (negb part) = ck_stable c (negb part) /\
  ck_mig0 c' = ck_mig0 c /\ ck_mig1 c' = ck_mig1 c /\
  Forall wf_range (mig_ranges (a_migs acc')) /\ migs_nonempty (a_migs acc') /\ a_cur acc' = [] /\ numinv acc' /\
  (forall s, cnt s (mig_ranges (a_migs acc')) = (cnt s (opt_ranges (ck_stable c part)) + cnt s (mig_ranges (a_migs acc)))%nat) /\
  (phi acc' 0 + Z.of_N others = kconst)%Z.
Proof.
  unfold down_part. intros H Hwrl Hcur Hwm Hne Hle Hnum Hphi.
  destruct (ck_stable c part) as [rl|] eqn:Es; cbn [opt_ranges] in *.
  - destruct (scale_down_loop (loop_fuel rl dmn) epoch avg rem dmn ex idx part rl acc) as [[rl' acc1]|err|] eqn:El;
      try discriminate.
    inversion H; subst c' acc1. clear H.
    apply scale_down_loop_ok in El; auto.
    + destruct El as (H1 & H2 & H3 & H4 & H5 & H6 & H7 & H8).
      assert (Hz : slots_total rl' = 0).
      { destruct H8 as [H8|H8]; [|exact H8].
        unfold phi in H7, Hphi. rewrite H8, HsumF in H7. unfold kconst in Hphi. lia. }
      apply slots_total_zero_nil in Hz. subst rl'.
      msplit; auto.
      * apply set_stable_same.
      * apply set_stable_other.
      * apply set_stable_mig0.
      * apply set_stable_mig1.
      * intros s. specialize (H4 s). unfold tot in H4. rewrite H5, Hcur, !cnt_nil in H4. lia.
      * change (slots_total []) with 0 in H7. rewrite H7. exact Hphi.
    + rewrite Hcur. constructor.
    + intros s. unfold tot. rewrite Hcur, cnt_nil. specialize (Hle s). lia.
    + left. exact Hcur.
  - inversion H; subst c' acc'. clear H.
    msplit; auto.
Qed.

Lemma chunk_stable_parts c : chunk_stable c = opt_ranges (ck_stable c false) ++ opt_ranges (ck_stable c true).
Proof. reflexivity. Qed.

Lemma scale_down_chunks_ok : forall chunks idx acc chunks' acc',
  scale_down_chunks epoch avg rem dmn ex idx chunks acc = Done (chunks', acc') ->
  no_migs chunks -> Forall wf_range (stable_ranges chunks) ->
  Forall wf_range (mig_ranges (a_migs acc)) -> migs_nonempty (a_migs acc) -> a_cur acc = [] ->
  (forall s, (cnt s (stable_ranges chunks) + cnt s (mig_ranges (a_migs acc)) <= 1)%nat) ->
  numinv acc ->
  phi acc (slots_total (stable_ranges chunks)) = kconst ->
  length chunks' = length chunks /\ no_migs chunks' /\ stable_ranges chunks' = [] /\
  Forall wf_range (mig_ranges (a_migs acc')) /\ migs_nonempty (a_migs acc') /\ a_cur acc' = [] /\ numinv acc' /\
  (forall s, cnt s (mig_ranges (a_migs acc')) = (cnt s (stable_ranges chunks) + cnt s (mig_ranges (a_migs acc)))%nat) /\
  phi acc' 0 = kconst.
Proof.
  induction chunks as [|c rest IH]; intros idx acc chunks' acc' H Hnm Hws Hwm Hne Hcur Hle Hnum Hphi.
  - cbn [scale_down_chunks] in H. inversion H; subst chunks' acc'. clear H.
    msplit; auto.
  - rewrite scale_down_chunks_cons in H.
    destruct (down_part idx false c acc) as [[c1 acc1]|err|] eqn:E0; try discriminate.
    destruct (down_part idx true c1 acc1) as [[c2 acc2]|err|] eqn:E1; try discriminate.
    destruct (scale_down_chunks epoch avg rem dmn ex (S idx) rest acc2) as [[rest' acc3]|err|] eqn:E2; try discriminate.
    inversion H; subst chunks' acc3. clear H.
    apply no_migs_cons in Hnm. destruct Hnm as [[Hm0 Hm1] Hnmr].
    change (stable_ranges (c :: rest)) with (chunk_stable c ++ stable_ranges rest) in *.
    rewrite chunk_stable_parts in *.
    apply Forall_app in Hws. destruct Hws as [Hwc Hwr]. apply Forall_app in Hwc. destruct Hwc as [Hw0 Hw1].
    rewrite !slots_total_app in Hphi.
    apply (down_part_ok idx false c acc c1 acc1
             (slots_total (opt_ranges (ck_stable c true)) + slots_total (stable_ranges rest))) in E0; auto.
    2:{ intros s. specialize (Hle s). rewrite !cnt_app in Hle. lia. }
    2:{ rewrite phi_n in Hphi. rewrite phi_n. lia. }
    destruct E0 as (A1 & A2 & A3 & A4 & A5 & A6 & A7 & A8 & A9 & A10). cbn [negb] in A2.
    apply (down_part_ok idx true c1 acc1 c2 acc2 (slots_total (stable_ranges rest))) in E1; auto.
    2:{ rewrite A2. exact Hw1. }
    2:{ intros s. specialize (Hle s). rewrite !cnt_app in Hle. rewrite A2, A9. lia. }
    2:{ rewrite A2. rewrite phi_n. lia. }
    destruct E1 as (B1 & B2 & B3 & B4 & B5 & B6 & B7 & B8 & B9 & B10). cbn [negb] in B2.
    apply IH in E2; auto.
    2:{ intros s. specialize (Hle s). rewrite !cnt_app in Hle. rewrite B9, A2, A9. lia. }
    2:{ rewrite phi_n. lia. }
    destruct E2 as (C1 & C2 & C3 & C4 & C5 & C6 & C7 & C8 & C9).
    msplit; auto.
    + cbn [length]. lia.
    + apply no_migs_cons. split; [|exact C2]. rewrite B3, B4, A3, A4. auto.
    + change (stable_ranges (c2 :: rest')) with (chunk_stable c2 ++ stable_ranges rest').
      rewrite C3, chunk_stable_parts, B1, B2, A1. reflexivity.
    + intros s. rewrite C8, B9, A2, A9, !cnt_app. lia.
Qed.

End Down.

(* ---------- the whole remove phase ---------- *)
Ltac Zify.zify_post_hook ::= Z.div_mod_to_equations.

Lemma sumF_all dmn : 0 < dmn ->
  sumF (SLOT_NUM / dmn) (SLOT_NUM - SLOT_NUM / dmn * dmn) dmn = SLOT_NUM.
Proof. intros H. unfold sumF. generalize SLOT_NUM. intros M. lia. Qed.

Lemma stable_ranges_app a b : stable_ranges (a ++ b) = stable_ranges a ++ stable_ranges b.
Proof. unfold stable_ranges. apply flat_map_app. Qed.

Lemma mig_ranges_rev_perm migs : Permutation (mig_ranges (rev migs)) (mig_ranges migs).
Proof. unfold mig_ranges. apply Permutation_flat_map. apply Permutation_sym, Permutation_rev. Qed.

Lemma existing_nums_sum : forall chunks ex, existing_nums chunks = Some ex ->
  lsum ex = slots_total (stable_ranges chunks) /\ length ex = (2 * length chunks)%nat.
Proof.
  induction chunks as [|c rest IH]; intros ex H; cbn [existing_nums] in H.
  - inversion H. split; reflexivity.
  - destruct (match ck_stable0 c with Some rl => slots_num rl | None => Some 0 end) as [a|] eqn:Ea; [|discriminate].
    destruct (match ck_stable1 c with Some rl => slots_num rl | None => Some 0 end) as [b|] eqn:Eb; [|discriminate].
    destruct (existing_nums rest) as [r|] eqn:Er; [|discriminate].
    inversion H; subst ex. clear H. destruct (IH r eq_refl) as [IH1 IH2].
    assert (Ha : a = slots_total (opt_ranges (ck_stable0 c))).
    { destruct (ck_stable0 c) as [rl|]; cbn [opt_ranges].
      - apply slots_num_some_wf in Ea. tauto.
      - inversion Ea. reflexivity. }
    assert (Hb : b = slots_total (opt_ranges (ck_stable1 c))).
    { destruct (ck_stable1 c) as [rl|]; cbn [opt_ranges].
      - apply slots_num_some_wf in Eb. tauto.
      - inversion Eb. reflexivity. }
    split.
    + change (stable_ranges (c :: rest)) with (chunk_stable c ++ stable_ranges rest).
      unfold chunk_stable. rewrite !slots_total_app.
      change (lsum (a :: b :: r)) with (a + (b + lsum r)). lia.
    + cbn [length]. lia.
Qed.

Lemma remove_src_down_ok : forall cl epoch k chunks migs,
  part_inv (cl_chunks cl) -> cluster_is_migrating cl = false -> (0 < k)%nat ->
  remove_slots_from_src_to_scale_down cl epoch k = Done (chunks, migs) -> remove_ok chunks migs.
Proof.
  intros cl epoch k chunks migs Hinv Hnm Hk H.
  unfold remove_slots_from_src_to_scale_down in H.
  set (dmn := 2 * N.of_nat k) in *.
  set (avg := SLOT_NUM / dmn) in *.
  set (rem := SLOT_NUM - avg * dmn) in *.
  destruct (existing_nums (firstn k (cl_chunks cl))) as [ex|] eqn:Eex; [|discriminate].
  destruct (scale_down_chunks epoch avg rem dmn ex k (skipn k (cl_chunks cl)) (mkAcc 0 [] 0 []))
    as [[chunks' acc']|err|] eqn:Ech; try discriminate.
  inversion H; subst chunks migs. clear H.
  pose proof (not_migrating_no_migs cl Hnm) as Hno.
  destruct (part_inv_stable _ Hinv Hno) as [Hwf Hcov].
  pose proof (pi_size _ Hinv) as Hsize.
  rewrite <- (firstn_skipn k (cl_chunks cl)) in Hno, Hwf, Hcov, Hsize.
  apply no_migs_app in Hno. destruct Hno as [Hno1 Hno2].
  rewrite stable_ranges_app in Hwf, Hcov.
  destruct (existing_nums_sum _ _ Eex) as [Hsum Hlen].
  assert (Hdmn : 0 < dmn) by (unfold dmn; lia).
  assert (HsumF : sumF avg rem dmn = SLOT_NUM) by (apply sumF_all; exact Hdmn).
  assert (HsumE : sumE ex dmn = lsum ex).
  { unfold sumE. rewrite firstn_all2; [reflexivity|]. rewrite Hlen, firstn_length. unfold dmn. lia. }
  apply Forall_app in Hwf as Hwf'. destruct Hwf' as [Hwf1 Hwf2].
  apply (scale_down_chunks_ok epoch avg rem dmn ex HsumF) in Ech; cbn [a_dst a_cur a_num a_migs]; auto.
  - destruct Ech as (C1 & C2 & C3 & C4 & C5 & C6 & C7 & C8 & C9). cbn [a_migs mig_ranges flat_map] in C8.
    constructor.
    + rewrite app_length, C1. rewrite app_length in Hsize. exact Hsize.
    + apply no_migs_app. split; assumption.
    + rewrite stable_ranges_app, C3, app_nil_r. exact Hwf1.
    + eapply Permutation_Forall; [apply Permutation_sym, mig_ranges_rev_perm|exact C4].
    + intros rl m Hin. apply in_rev in Hin. eapply C5. exact Hin.
    + intros s. rewrite stable_ranges_app, C3, app_nil_r, (cnt_perm s _ _ (mig_ranges_rev_perm _)), C8, cnt_nil.
      specialize (Hcov s). rewrite cnt_app in Hcov. lia.
  - constructor.
  - intros l m [].
  - intros s. cbn [mig_ranges flat_map]. rewrite cnt_nil. specialize (Hcov s). rewrite cnt_app in Hcov.
    unfold slot_ind in Hcov. destruct (N.ltb s SLOT_NUM); lia.
  - left. reflexivity.
  - unfold phi, kconst. cbn [a_dst a_num]. rewrite HsumE, Hsum.
    assert (Htotal : slots_total (stable_ranges (firstn k (cl_chunks cl)) ++ stable_ranges (skipn k (cl_chunks cl))) = SLOT_NUM)
      by (apply covers_total; assumption).
    rewrite slots_total_app in Htotal.
    assert (HF0 : sumF avg rem 0 = 0) by (unfold sumF; lia).
    assert (HE0 : sumE ex 0 = 0) by reflexivity.
    rewrite HF0, HE0. lia.
Qed.
