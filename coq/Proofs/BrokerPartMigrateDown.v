(* Remove phase of the scale-down planner (migrate.rs remove_slots_from_src_to_scale_down): when it does not panic,
   every slot range taken from a source master ends up in exactly one pending migration, nothing is left in the
   accumulator and - by a counting argument over the numbers of slots - no source still holds a slot when its stable
   list is dropped. *)
From UM Require Import Base.BytesDef Model.Ranges Model.Broker Proofs.BrokerBase Proofs.BrokerPartRanges Proofs.BrokerPartDefs Proofs.BrokerPartMigrateBase.
From Coq Require Import ZifyBool ZifyNat ZifyN Permutation.

Ltac msplit := repeat match goal with |- _ /\ _ => split end.

Lemma csub_some a b c : csub a b = Some c -> b <= a /\ c = a - b.
Proof. unfold csub. destruct (N.ltb a b) eqn:E; [discriminate|]. intros H. inversion H. lia. Qed.

Definition lsum (l : list N) : N := fold_right N.add 0 l.

Lemma lsum_app a b : lsum (a ++ b) = lsum a + lsum b.
Proof.
  induction a as [|x a IH]; [cbn [app]; change (lsum []) with 0; lia|].
  cbn [app]. change (lsum (x :: a ++ b)) with (x + lsum (a ++ b)). change (lsum (x :: a)) with (x + lsum a). lia.
Qed.

Lemma firstn_succ_nth {A} : forall (l : list A) n e, nth_error l n = Some e -> firstn (S n) l = firstn n l ++ [e].
Proof.
  induction l as [|x l IH]; intros n e H; destruct n; cbn [nth_error] in H; try discriminate.
  - inversion H. reflexivity.
  - cbn [firstn app]. f_equal. apply IH. exact H.
Qed.

Definition tot (s : N) (rl : rangelist) (acc : macc) : nat :=
  (cnt s rl + cnt s (a_cur acc) + cnt s (mig_ranges (a_migs acc)))%nat.

Definition migs_nonempty (migs : list (rangelist * mig_meta)) : Prop := forall l m, In (l, m) migs -> l <> [].

Lemma mig_ranges_cons l m migs : mig_ranges ((l, m) :: migs) = l ++ mig_ranges migs.
Proof. reflexivity. Qed.

(* taking remove_num slots from the front range of a source *)
Lemma take_front_spec r tail cur anum remove_num num rl1 cur1 num1 :
  wf_range r -> num = snd r - fst r + 1 -> 1 <= remove_num ->
  (if N.leb num remove_num then (tail, cur ++ [r], anum + num)
   else ((fst r + remove_num, snd r) :: tail, cur ++ [(fst r, remove_num + fst r - 1)], anum + remove_num)) = (rl1, cur1, num1) ->
  Forall wf_range tail -> Forall wf_range cur ->
  exists t, 1 <= t /\ t <= remove_num /\ num1 = anum + t /\ slots_total (r :: tail) = slots_total rl1 + t /\
    Forall wf_range rl1 /\ Forall wf_range cur1 /\ cur1 <> [] /\
    forall s, (cnt s rl1 + cnt s cur1 = cnt s (r :: tail) + cnt s cur)%nat.
Proof.
  intros Hr Hnum Hrem Hstep Ht Hc. unfold wf_range in Hr.
  destruct (N.leb num remove_num) eqn:E; inversion Hstep; subst rl1 cur1 num1; clear Hstep.
  - exists num. repeat split; try lia.
    + rewrite slots_total_cons. lia.
    + assumption.
    + apply Forall_app. split; [assumption|]. constructor; [exact Hr|constructor].
    + intros Hnil. apply app_eq_nil in Hnil. destruct Hnil as [_ Hnil]. discriminate.
    + intros s. rewrite cnt_snoc, cnt_cons. lia.
  - exists remove_num. repeat split; try lia.
    + rewrite !slots_total_cons. cbn [fst snd]. lia.
    + constructor; [|assumption]. unfold wf_range. cbn [fst snd]. lia.
    + apply Forall_app. split; [assumption|]. constructor; [|constructor]. unfold wf_range. cbn [fst snd]. lia.
    + intros Hnil. apply app_eq_nil in Hnil. destruct Hnil as [_ Hnil]. discriminate.
    + intros s. rewrite cnt_snoc, !cnt_cons.
      assert (Hsplit := in_range_split_front s (fst r) (snd r) remove_num).
      replace (fst r, snd r) with r in Hsplit by (destruct r; reflexivity).
      rewrite Hsplit by lia. lia.
Qed.

Section Down.
Variables (epoch avg rem dmn : N) (ex : list N).

Definition dfin (k : N) : N := avg + b2n (N.ltb k rem).
Definition sumF (k : N) : N := avg * k + N.min k rem.
Definition sumE (k : N) : N := lsum (firstn (N.to_nat k) ex).

Lemma sumF_succ k : sumF (k + 1) = sumF k + dfin k.
Proof. unfold sumF, dfin, b2n. destruct (N.ltb k rem) eqn:E; lia. Qed.

Lemma sumE_succ k e : nth_error ex (N.to_nat k) = Some e -> sumE (k + 1) = sumE k + e.
Proof.
  intros H. unfold sumE. replace (N.to_nat (k + 1)) with (S (N.to_nat k)) by lia.
  rewrite (firstn_succ_nth _ _ _ H), lsum_app. cbn [lsum fold_right]. lia.
Qed.

Definition phi (acc : macc) (n : N) : Z :=
  (Z.of_N (sumF (a_dst acc)) + Z.of_N (a_num acc) + Z.of_N n - Z.of_N (sumE (a_dst acc)))%Z.

Definition numinv (acc : macc) : Prop :=
  a_num acc = 0 \/ exists e, nth_error ex (N.to_nat (a_dst acc)) = Some e /\ a_num acc + e < dfin (a_dst acc).

Definition pre (rl : rangelist) (acc : macc) : Prop :=
  a_cur acc = [] \/ (a_dst acc <> dmn /\ slots_total rl <> 0 /\ a_num acc <> 0).

Lemma scale_down_loop_ok : forall fuel idx part rl acc rl' acc',
  scale_down_loop fuel epoch avg rem dmn ex idx part rl acc = Done (rl', acc') ->
  Forall wf_range rl -> Forall wf_range (a_cur acc) -> Forall wf_range (mig_ranges (a_migs acc)) ->
  migs_nonempty (a_migs acc) ->
  (forall s, (tot s rl acc <= 1)%nat) ->
  numinv acc -> pre rl acc ->
  Forall wf_range rl' /\ Forall wf_range (mig_ranges (a_migs acc')) /\ migs_nonempty (a_migs acc') /\
  (forall s, tot s rl' acc' = tot s rl acc) /\ a_cur acc' = [] /\ numinv acc' /\
  phi acc' (slots_total rl') = phi acc (slots_total rl) /\
  (a_dst acc' = dmn \/ slots_total rl' = 0).
Proof.
  induction fuel as [|fuel IH]; intros idx part rl acc rl' acc' H Hwrl Hwcur Hwmig Hne Htot Hnum Hpre;
    cbn [scale_down_loop] in H; [discriminate|].
  destruct (N.eqb (a_dst acc) dmn) eqn:Ed.
  { (* all destinations served *)
    inversion H; subst rl' acc'. clear H.
    assert (Hcur : a_cur acc = []) by (destruct Hpre as [Hc|[Hc _]]; [exact Hc|lia]).
    msplit; auto. left. lia. }
  change (avg + b2n (N.ltb (a_dst acc) rem)) with (dfin (a_dst acc)) in H.
  destruct (nth_error ex (N.to_nat (a_dst acc))) as [e|] eqn:Ee; [|discriminate].
  destruct (csub (dfin (a_dst acc)) (a_num acc)) as [d1|] eqn:Ed1; [|discriminate].
  destruct (csub d1 e) as [need|] eqn:En; [|discriminate].
  apply csub_some in Ed1. destruct Ed1 as [Hd1a Hd1]. apply csub_some in En. destruct En as [Hna Hn].
  destruct (N.eqb need 0) eqn:En0.
  { (* this destination already owns its final number of slots *)
    assert (Hz : a_num acc = 0).
    { destruct Hnum as [Hz|[e' [He' Hlt]]]; [exact Hz|]. rewrite Ee in He'. inversion He'; subst e'. lia. }
    assert (Hcur : a_cur acc = []) by (destruct Hpre as [Hc|[_ [_ Hc]]]; [exact Hc|lia]).
    apply IH in H; cbn [a_dst a_cur a_num a_migs]; auto.
    - destruct H as (H1 & H2 & H3 & H4 & H5 & H6 & H7 & H8). msplit; auto.
      rewrite H7. unfold phi. cbn [a_dst a_num]. rewrite sumF_succ, (sumE_succ _ _ Ee). lia.
    - left. exact Hz.
    - left. exact Hcur. }
  destruct (slots_num rl) as [av|] eqn:Eav; [|discriminate].
  destruct (slots_num_some_wf _ _ Eav) as [_ Hav].
  destruct (N.eqb av 0) eqn:Eav0.
  { (* source exhausted *)
    inversion H; subst rl' acc'. clear H.
    assert (Hcur : a_cur acc = []) by (destruct Hpre as [Hc|[_ [Hc _]]]; [exact Hc|lia]).
    msplit; auto. right. lia. }
  destruct rl as [|r tail]; [discriminate|].
  destruct (range_len r) as [num|] eqn:Er; [|discriminate].
  destruct (range_len_some _ _ Er) as [Hwr Hnumeq].
  pose proof (Forall_inv_tail Hwrl) as Hwtail.
  assert (Hrn : 1 <= N.min need av) by lia.
  match type of H with context [if N.leb ?a ?b then (?x, ?y, ?z) else ?w] =>
    destruct (if N.leb a b then (x, y, z) else w) as [[rl1 cur1] num1] eqn:Estep end.
  destruct (take_front_spec r tail (a_cur acc) (a_num acc) _ _ rl1 cur1 num1 Hwr Hnumeq Hrn Estep Hwtail Hwcur)
    as (t & Ht1 & Ht2 & Hnum1 & Hst & Hwrl1 & Hwcur1 & Hcur1ne & Hcnt).
  clear Estep.
  destruct (slots_num rl1) as [n1|] eqn:En1; [|discriminate].
  destruct (slots_num_some_wf _ _ En1) as [_ Hn1].
  assert (Hcur1le : forall s, (cnt s cur1 <= 1)%nat).
  { intros s. specialize (Htot s). specialize (Hcnt s). unfold tot in Htot. lia. }
  destruct (compact_cnt cur1 Hwcur1 Hcur1le) as [Hcc Hcw].
  destruct (N.leb (dfin (a_dst acc)) (num1 + e) || N.eqb n1 0) eqn:Efl.
  - (* flush *)
    set (meta := mkMeta epoch idx part (N.to_nat (a_dst acc / 2)) (N.eqb (a_dst acc mod 2) 1)) in *.
    assert (Hwm' : Forall wf_range (mig_ranges ((rl_new cur1, meta) :: a_migs acc))).
    { rewrite mig_ranges_cons. apply Forall_app. split; assumption. }
    assert (Hne' : migs_nonempty ((rl_new cur1, meta) :: a_migs acc)).
    { intros l m [Hlm|Hlm]; [|eapply Hne; exact Hlm]. inversion Hlm; subst. apply compact_nonempty. exact Hcur1ne. }
    assert (Htot' : forall s a b, tot s rl1 (mkAcc a [] b ((rl_new cur1, meta) :: a_migs acc)) = tot s (r :: tail) acc).
    { intros s a b. unfold tot. cbn [a_cur a_migs]. rewrite mig_ranges_cons, cnt_app, cnt_nil.
      unfold rl_new. rewrite Hcc. specialize (Hcnt s). lia. }
    destruct (N.leb (dfin (a_dst acc)) (num1 + e)) eqn:Eadv.
    + (* destination complete: advance *)
      assert (Hphi : forall n, phi (mkAcc (a_dst acc + 1) [] 0 ((rl_new cur1, meta) :: a_migs acc)) n
                               = (phi acc (slots_total (r :: tail)) - Z.of_N (slots_total rl1) + Z.of_N n)%Z).
      { intros n. unfold phi. cbn [a_dst a_num]. rewrite sumF_succ, (sumE_succ _ _ Ee). lia. }
      destruct (N.eqb n1 0) eqn:En10.
      * inversion H; subst rl' acc'. clear H. cbn [a_dst a_cur a_num a_migs].
        msplit.
        -- exact Hwrl1.
        -- exact Hwm'.
        -- exact Hne'.
        -- intros s. apply Htot'.
        -- reflexivity.
        -- left. reflexivity.
        -- rewrite Hphi. lia.
        -- right. lia.
      * apply IH in H; cbn [a_dst a_cur a_num a_migs]; auto.
        -- destruct H as (H1 & H2 & H3 & H4 & H5 & H6 & H7 & H8). msplit; auto.
           ++ intros s. rewrite H4. apply Htot'.
           ++ rewrite H7, Hphi. lia.
        -- intros s. rewrite Htot'. apply Htot.
        -- left. reflexivity.
        -- left. reflexivity.
    + (* source exhausted before the destination is complete *)
      cbn [orb] in Efl. rewrite Efl in H.
      inversion H; subst rl' acc'. clear H. cbn [a_dst a_cur a_num a_migs].
      msplit.
      * exact Hwrl1.
      * exact Hwm'.
      * exact Hne'.
      * intros s. apply Htot'.
      * reflexivity.
      * right. exists e. cbn [a_dst a_num]. split; [exact Ee|lia].
      * unfold phi. cbn [a_dst a_num]. lia.
      * right. lia.
  - (* keep collecting for the same destination *)
    apply orb_false_iff in Efl. destruct Efl as [Eadv En10].
    apply IH in H; cbn [a_dst a_cur a_num a_migs]; auto.
    + destruct H as (H1 & H2 & H3 & H4 & H5 & H6 & H7 & H8). msplit; auto.
      * intros s. rewrite H4. unfold tot. cbn [a_cur a_migs]. specialize (Hcnt s). lia.
      * rewrite H7. unfold phi. cbn [a_dst a_num]. lia.
    + intros s. specialize (Htot s). specialize (Hcnt s). unfold tot in *. cbn [a_cur a_migs]. lia.
    + right. exists e. cbn [a_dst a_num]. split; [exact Ee|lia].
    + right. cbn [a_dst a_num]. msplit; lia.
Qed.

End Down.
