(* Proofs about Model/Pipe.v (property C08), part 4: the session's reply FIFO and the fan-out of ReqTask::set_result. *)
From Coq Require Import List Arith Lia NArith Bool.
From UM Require Import Base.BytesDef Base.PipeUtil Model.Pipe Proofs.PipeProofs.
Import ListNotations.
Local Open Scope nat_scope.

Lemma sess_drain_spec : forall ready l out l' out',
  sess_drain ready l out = (l', out') ->
  map fst out' ++ l' = map fst out ++ l /\
  (forall q o, In (q, o) out' -> In (q, o) out \/ lookup_tid q ready = Some o) /\
  (match l' with [] => True | q :: _ => lookup_tid q ready = None end).
Proof.
  induction l as [| q l IH]; intros out l' out' H; cbn [sess_drain] in H.
  - injection H as <- <-. repeat split; auto.
  - destruct (lookup_tid q ready) as [o |] eqn:E.
    + apply IH in H. destruct H as [H1 [H2 H3]]. split; [| split].
      * rewrite H1. rewrite map_app. cbn. rewrite <- app_assoc. reflexivity.
      * intros q' o' Hin. apply H2 in Hin. destruct Hin as [Hin | Hin]; [| auto].
        apply in_app_or in Hin. destruct Hin as [Hin | [Hin | []]]; [auto |]. injection Hin as <- <-. auto.
      * exact H3.
    + injection H as <- <-. repeat split; auto.
Qed.

Definition sess_inv (reqs : list tid) (s : sess) : Prop :=
  map fst (ss_out s) ++ ss_list s = reqs /\
  (forall q o, In (q, o) (ss_out s) -> lookup_tid q (ss_ready s) = Some o).

Lemma lookup_app_some : forall q l l' o, lookup_tid q l = Some o -> lookup_tid q (l ++ l') = Some o.
Proof.
  induction l as [| [x ox] l IH]; intros l' o H; cbn [lookup_tid app] in *; [discriminate |].
  destruct (tid_eqb q x); auto.
Qed.

Lemma sess_reqs_app : forall a b, sess_reqs (a ++ b) = sess_reqs a ++ sess_reqs b.
Proof. induction a as [| e a IH]; intros; cbn [app sess_reqs]; [reflexivity |]. destruct e; rewrite ?IH; reflexivity. Qed.

Lemma sess_inv_step : forall reqs s e, sess_inv reqs s -> sess_inv (reqs ++ sess_reqs [e]) (sess_step s e).
Proof.
  intros reqs s e [I1 I2]. destruct e; cbn [sess_step sess_reqs]; rewrite ?app_nil_r.
  - split; cbn; [rewrite app_assoc, I1; reflexivity | exact I2].
  - destruct (lookup_tid q (ss_ready s)) eqn:E; [split; assumption |].
    split; cbn; [exact I1 |]. intros q' o' Hin. apply lookup_app_some. auto.
  - destruct (sess_drain (ss_ready s) (ss_list s) (ss_out s)) as [l out] eqn:D.
    apply sess_drain_spec in D. destruct D as [D1 [D2 _]]. split; cbn.
    + rewrite D1. exact I1.
    + intros q o Hin. apply D2 in Hin. destruct Hin; auto.
Qed.

Lemma sess_run_app : forall a b s, sess_run s (a ++ b) = sess_run (sess_run s a) b.
Proof. induction a; intros; cbn [app sess_run]; auto. Qed.

Lemma sess_inv_run : forall evs reqs s, sess_inv reqs s -> sess_inv (reqs ++ sess_reqs evs) (sess_run s evs).
Proof.
  induction evs as [| e evs IH]; intros reqs s I; cbn [sess_run].
  - cbn. rewrite app_nil_r. exact I.
  - change (e :: evs) with ([e] ++ evs). rewrite sess_reqs_app, app_assoc. apply IH. apply sess_inv_step. exact I.
Qed.

(* the first resolution of a request's reply future *)
Fixpoint first_done (q : tid) (evs : list sev) : option outcome :=
  match evs with
  | [] => None
  | SDone q' o :: r => if tid_eqb q q' then Some o else first_done q r
  | _ :: r => first_done q r
  end.

Lemma lookup_app_none : forall q l l', lookup_tid q l = None -> lookup_tid q (l ++ l') = lookup_tid q l'.
Proof.
  induction l as [| [x ox] l IH]; intros l' H; cbn [lookup_tid app] in *; [reflexivity |].
  destruct (tid_eqb q x); [discriminate | auto].
Qed.

Lemma ready_is_first_done : forall evs s q,
  lookup_tid q (ss_ready (sess_run s evs)) =
  match lookup_tid q (ss_ready s) with Some o => Some o | None => first_done q evs end.
Proof.
  induction evs as [| e evs IH]; intros s q; cbn [sess_run first_done].
  - destruct (lookup_tid q (ss_ready s)); reflexivity.
  - rewrite IH. destruct e; cbn [sess_step ss_ready].
    + reflexivity.
    + destruct (lookup_tid q0 (ss_ready s)) eqn:E0.
      * destruct (lookup_tid q (ss_ready s)) eqn:E; [reflexivity |].
        destruct (tid_eqb q q0) eqn:Q; [apply tid_eqb_eq in Q; subst; congruence | reflexivity].
      * cbn [ss_ready]. destruct (lookup_tid q (ss_ready s)) eqn:E.
        -- rewrite (lookup_app_some _ _ _ _ E). reflexivity.
        -- rewrite (lookup_app_none _ _ _ E). cbn [lookup_tid]. destruct (tid_eqb q q0); reflexivity.
    + destruct (sess_drain (ss_ready s) (ss_list s) (ss_out s)). reflexivity.
Qed.

(* replies leave the session in request order: what has been written to the client is, id for id, a prefix of the
   request sequence (the rest is still queued, in order); each written reply is the first resolution of that request's
   future; once the front request is resolved a poll writes it, and when every queued request is resolved a poll
   empties the queue *)
Theorem client_order : forall evs,
  let s := sess_run sess_init evs in
  map fst (ss_out s) ++ ss_list s = sess_reqs evs /\
  (forall q o, In (q, o) (ss_out s) -> first_done q evs = Some o) /\
  (NoDup (sess_reqs evs) -> NoDup (map fst (ss_out s))) /\
  (forall s', s' = sess_step s SPoll ->
     (forall q, In q (ss_list s) -> lookup_tid q (ss_ready s) <> None) -> ss_list s' = [] /\
     map fst (ss_out s') = sess_reqs evs).
Proof.
  intros evs s.
  assert (I : sess_inv ([] ++ sess_reqs evs) s) by (apply sess_inv_run; split; [reflexivity | intros ? ? []]).
  cbn [app] in I. destruct I as [I1 I2].
  split; [exact I1 |]. split; [| split].
  - intros q o Hin. apply I2 in Hin. unfold s in Hin. rewrite ready_is_first_done in Hin. cbn in Hin. exact Hin.
  - intros N. rewrite <- I1 in N. clear - N. induction (map fst (ss_out s)) as [| x l IH]; [constructor |].
    cbn in N. inversion N; subst. constructor; [intros Hin; apply H1; apply in_or_app; auto | auto].
  - intros s' -> All. cbn [sess_step].
    destruct (sess_drain (ss_ready s) (ss_list s) (ss_out s)) as [l out] eqn:D.
    apply sess_drain_spec in D. destruct D as [D1 [_ D3]]. cbn [ss_list ss_out].
    assert (L : l = []).
    { destruct l as [| q l]; [reflexivity |]. exfalso. apply (All q); [| exact D3].
      assert (Hin : In q (map fst (ss_out s) ++ ss_list s)) by (rewrite <- D1; apply in_or_app; right; left; reflexivity).
      apply in_app_or in Hin. destruct Hin as [Hin | Hin]; [| exact Hin].
      (* q already written and still queued: impossible, the written ones are resolved *)
      apply in_map_iff in Hin. destruct Hin as [[q' o] [Eq Hin]]. cbn in Eq. subst q'.
      apply I2 in Hin. congruence. }
    subst l. split; [reflexivity |]. rewrite app_nil_r in D1. rewrite D1. exact I1.
Qed.

Example client_order_example :
  let evs := [SReq 1%N; SReq 2%N; SReq 3%N; SDone 3%N (ORep 30%N); SPoll; SDone 2%N OCmdBackend; SPoll;
              SDone 1%N (ORep 10%N); SDone 1%N (ORep 99%N); SPoll] in
  ss_out (sess_run sess_init evs) = [(1%N, ORep 10%N); (2%N, OCmdBackend); (3%N, ORep 30%N)] /\
  ss_out (sess_run sess_init (firstn 7 evs)) = [].
Proof. split; vm_compute; reflexivity. Qed.

(* ---------------------------------------------------------------- ReqTask::set_result *)
Lemma map_fst_const : forall (o : sub_outcome) (v : list tid), map fst (map (fun t : tid => (t, o)) v) = v.
Proof. induction v; cbn; congruence. Qed.

Theorem req_set_result_fanout : forall v res,
  map fst (req_set_result v res) = v /\
  (forall rs, res = MRMulti rs -> length rs = length v ->
     req_set_result v res = map (fun p => (fst p, SubRep (snd p))) (combine v rs)) /\
  (forall rs, res = MRMulti rs -> length rs <> length v ->
     forall t o, In (t, o) (req_set_result v res) -> o = SubInnerError).
Proof.
  intros v res. split; [| split].
  - unfold req_set_result. destruct res; rewrite ?pmap_map.
    + apply map_fst_const.
    + apply map_fst_const.
    + destruct (Nat.eqb (length v) (length rs)) eqn:E; rewrite ?pmap_map, ?pcombine_combine.
      * apply Nat.eqb_eq in E. revert rs E. induction v; intros [| r rs] E; cbn in *; try discriminate; [reflexivity |].
        f_equal. apply IHv. lia.
      * apply map_fst_const.
  - intros rs -> L. unfold req_set_result. rewrite L, Nat.eqb_refl, pmap_map, pcombine_combine. reflexivity.
  - intros rs -> L t o Hin. unfold req_set_result in Hin.
    destruct (Nat.eqb (length v) (length rs)) eqn:E; [apply Nat.eqb_eq in E; congruence |].
    rewrite pmap_map in Hin. apply in_map_iff in Hin. destruct Hin as [x [Hx _]]. congruence.
Qed.
