(* C12: the host-aware allocator never panics (none of the `expect`s of allocate_chunk can fire).
   Progress invariant on the per-host counts after remove_redundant_chunks, with S = counts_sum, M = counts_max and
   r pairs still to allocate:   2*M <= S + 1  /\  2*r <= S.
   It holds when generate_free_chunks passes its checks with an even proxy_num, is preserved by every accepted alloc_one step,
   and gives two distinct hosts with a free proxy, one of them maximal; the link table has an entry for every such pair. *)
From UM Require Import Base.BytesDef Model.Ranges Model.Broker Proofs.BrokerBase Proofs.BrokerAcctBase Proofs.BrokerAcctAlloc
     Proofs.BrokerAcctLink Proofs.BrokerAcctThm.
From Coq Require Import ZifyBool ZifyNat ZifyN.
Ltac Zify.zify_post_hook ::= Z.div_mod_to_equations.

Definition covered (cnts : list (N * N)) (links : ltable) : Prop :=
  forall h1 h2, amem h1 cnts = true -> amem h2 cnts = true -> h1 <> h2 -> has links h1 h2.

Definition prog (cnts : list (N * N)) (r : N) : Prop :=
  2 * counts_max cnts <= counts_sum cnts + 1 /\ 2 * r <= counts_sum cnts.

Definition alloc_inv (cnts : list (N * N)) (links : ltable) (r : nat) : Prop :=
  keys_sorted cnts /\ covered cnts links /\ prog cnts (N.of_nat r).

Lemma max_zero_sum_zero l : counts_max l = 0 -> counts_sum l = 0.
Proof.
  induction l as [|x l IH]; [reflexivity|]. rewrite counts_max_cons, counts_sum_cons. intros H.
  assert (counts_max l = 0) by lia. rewrite (IH H0). lia.
Qed.

Lemma In_aremove_ne {V} k (l : list (N * V)) k0 v0 : keys_sorted l -> In (k0, v0) (aremove k l) -> k0 <> k.
Proof.
  intros Hs Hin ->. pose proof (alookup_aremove_same k l Hs) as Hn. eapply alookup_None_notin; eauto.
Qed.

(* a second host with a free proxy exists *)
Lemma second_host_exists cnts r ha :
  keys_sorted cnts -> prog cnts r -> 1 <= r -> alookup ha cnts = Some (counts_max cnts) ->
  exists hb vb, hb <> ha /\ alookup hb cnts = Some vb /\ 0 < vb.
Proof.
  intros Hs [H1 H2] Hr La. pose proof (counts_sum_remove _ _ _ Hs La) as Hsum.
  destruct (sum_pos_exists (aremove ha cnts)) as (hb & vb & Hin & Hv); [lia|].
  exists hb, vb. split; [eapply In_aremove_ne; eauto|]. split; [|exact Hv].
  apply In_alookup_sorted; [exact Hs|]. eapply aremove_In; eauto.
Qed.

Lemma cnt_of_lookup l h v : alookup h l = Some v -> cnt_of l h = v.
Proof. unfold cnt_of. intros ->. reflexivity. Qed.

Lemma cnt_pos_lookup l h : cnt_of l h <> 0 -> alookup h l = Some (cnt_of l h).
Proof. unfold cnt_of. destruct (alookup h l); [reflexivity|congruence]. Qed.

(* the candidate filter is not empty for a maximal host *)
Lemma cands_nonempty cnts links r ha :
  alloc_inv cnts links (S r) -> alookup ha cnts = Some (counts_max cnts) ->
  exists peers, alookup ha links = Some peers /\
                filter (cand_filter ha (ainsert ha (counts_max cnts - 1) cnts)) peers <> [].
Proof.
  intros (Hs & Hcov & Hp) La.
  destruct (second_host_exists cnts (N.of_nat (S r)) ha Hs Hp ltac:(lia) La) as (hb & vb & Hne & Lb & Hv).
  assert (Hh : has links ha hb).
  { apply Hcov; [apply amem_alookup; eauto|apply amem_alookup; eauto|congruence]. }
  apply has_lookup in Hh. destruct Hh as (peers & c & Lp & Lc). exists peers. split; [exact Lp|].
  apply alookup_In in Lc. intros Hf.
  assert (Hin : In (hb, c) (filter (cand_filter ha (ainsert ha (counts_max cnts - 1) cnts)) peers)).
  { apply filter_In. split; [exact Lc|]. unfold cand_filter. cbn [fst].
    apply N.eqb_neq in Hne. rewrite Hne. rewrite amem_ainsert, cnt_of_ainsert, Hne. cbn [negb orb andb].
    assert (E : amem hb cnts = true) by (apply amem_alookup; eauto). rewrite E. rewrite (cnt_of_lookup _ _ _ Lb).
    cbn [andb]. apply negb_true_iff. apply N.eqb_neq. lia. }
  rewrite Hf in Hin. destruct Hin.
Qed.

Lemma alloc_inv_nonempty cnts links r : alloc_inv cnts links (S r) -> cnts <> [] /\ counts_max cnts <> 0.
Proof.
  intros (_ & _ & H1 & H2). split.
  - intros ->. rewrite counts_sum_nil in H2. lia.
  - intros H. apply max_zero_sum_zero in H. lia.
Qed.

Lemma alloc_one_no_panic s cnts links taken a b r :
  alloc_inv cnts links (S r) -> alloc_one s cnts links taken a b <> Panic.
Proof.
  intros Hinv. destruct (alloc_inv_nonempty _ _ _ Hinv) as [Hne Hmx].
  unfold alloc_one. destruct cnts as [|c0 cr] eqn:Ec; [congruence|]. rewrite <- Ec in *.
  apply N.eqb_neq in Hmx. rewrite Hmx.
  destruct (alookup a (st_proxies s)) as [ra|]; [|discriminate].
  destruct (alookup b (st_proxies s)) as [rb|]; [|discriminate].
  cbv zeta. destruct (_ || _); [discriminate|].
  destruct (negb (N.eqb (cnt_of cnts (pr_host ra)) (counts_max cnts))) eqn:Eg; [discriminate|].
  apply negb_false_iff, N.eqb_eq in Eg. apply N.eqb_neq in Hmx.
  assert (La : alookup (pr_host ra) cnts = Some (counts_max cnts)).
  { rewrite <- Eg. apply cnt_pos_lookup. congruence. }
  destruct (cands_nonempty _ _ _ _ Hinv La) as (peers & Lp & Hf). rewrite Lp.
  fold (cand_filter (pr_host ra) (ainsert (pr_host ra) (counts_max cnts - 1) cnts)).
  change (fun e : N * N => negb (N.eqb (fst e) (pr_host ra)) && amem (fst e) (ainsert (pr_host ra) (counts_max cnts - 1) cnts)
                           && negb (N.eqb (cnt_of (ainsert (pr_host ra) (counts_max cnts - 1) cnts) (fst e)) 0))
    with (cand_filter (pr_host ra) (ainsert (pr_host ra) (counts_max cnts - 1) cnts)).
  destruct (filter _ peers) as [|p0 pr] eqn:Ef; [congruence|].
  destruct (alookup (pr_host rb) (p0 :: pr)); [|discriminate].
  destruct (forallb _ _); discriminate.
Qed.

Lemma forallb_false_In {A} (p : A -> bool) l x : In x l -> p x = false -> forallb p l = false.
Proof.
  intros Hin Hp. destruct (forallb p l) eqn:E; [|reflexivity]. rewrite forallb_forall in E. rewrite (E _ Hin) in Hp. discriminate.
Qed.

Lemma alloc_not_stuck cnts links r : alloc_inv cnts links (S r) -> alloc_stuck cnts links = false.
Proof.
  intros Hinv. destruct (alloc_inv_nonempty _ _ _ Hinv) as [Hne Hmx].
  destruct (max_attained cnts Hne) as (ha & Hin).
  assert (La : alookup ha cnts = Some (counts_max cnts)) by (apply In_alookup_sorted; [apply Hinv|exact Hin]).
  destruct (cands_nonempty _ _ _ _ Hinv La) as (peers & Lp & Hf).
  unfold alloc_stuck. destruct cnts as [|c0 cr] eqn:Ec; [congruence|]. rewrite <- Ec in *.
  apply N.eqb_neq in Hmx. rewrite Hmx.
  eapply forallb_false_In; [exact Hin|]. cbn [fst snd]. rewrite N.eqb_refl, Lp.
  change (fun p : N * N => negb (N.eqb (fst p) ha) && amem (fst p) (ainsert ha (counts_max cnts - 1) cnts)
                           && negb (N.eqb (cnt_of (ainsert ha (counts_max cnts - 1) cnts) (fst p)) 0))
    with (cand_filter ha (ainsert ha (counts_max cnts - 1) cnts)).
  destruct (filter _ peers); [congruence|reflexivity].
Qed.

(* preservation of the invariant by an accepted step *)
Lemma alloc_one_preserves s cnts links taken a b cnts' links' r :
  alloc_inv cnts links (S r) -> alloc_one s cnts links taken a b = Done (cnts', links') -> alloc_inv cnts' links' r.
Proof.
  intros (Hs & Hcov & Hp1 & Hp2) H. apply alloc_one_done in H.
  destruct H as (ra & rb & peers & cb & _ & _ & _ & _ & _ & _ & _ & Hne & Hmx & Hca & _ & Lc & -> & ->).
  set (ha := pr_host ra) in *. set (hb := pr_host rb) in *. set (M := counts_max cnts) in *.
  set (cnts1 := ainsert ha (M - 1) cnts) in *.
  apply alookup_filter in Lc. destruct Lc as [_ Hc]. unfold cand_filter in Hc. cbn [fst] in Hc.
  apply andb_true_iff in Hc. destruct Hc as [Hc Hc3]. apply andb_true_iff in Hc. destruct Hc as [Hc1 Hc2].
  apply negb_true_iff, N.eqb_neq in Hc1. apply negb_true_iff, N.eqb_neq in Hc3.
  assert (Eb : cnt_of cnts1 hb = cnt_of cnts hb).
  { unfold cnts1. rewrite cnt_of_ainsert. apply N.eqb_neq in Hc1. rewrite Hc1. reflexivity. }
  rewrite Eb in *. set (vb := cnt_of cnts hb) in *.
  assert (La : alookup ha cnts = Some M) by (rewrite <- Hca; apply cnt_pos_lookup; congruence).
  assert (Lb : alookup hb cnts = Some vb) by (apply cnt_pos_lookup; exact Hc3).
  assert (Lb1 : alookup hb cnts1 = Some vb) by (unfold cnts1; rewrite alookup_ainsert_other; auto).
  assert (Hs1 : keys_sorted cnts1) by (apply ainsert_sorted; exact Hs).
  set (cnts2 := ainsert hb (vb - 1) cnts1).
  assert (Hs2 : keys_sorted cnts2) by (apply ainsert_sorted; exact Hs1).
  assert (Hvb : vb <= M) by (apply cnt_le_max).
  pose proof (counts_sum_ainsert cnts ha M (M - 1) Hs La) as S1. fold cnts1 in S1.
  pose proof (counts_sum_ainsert cnts1 hb vb (vb - 1) Hs1 Lb1) as S2. fold cnts2 in S2.
  split; [exact Hs2|]. split.
  - intros h1 h2 A1 A2 Hd. apply has_add_keep, has_add_keep. apply Hcov; auto.
    + unfold cnts2, cnts1 in A1. rewrite !amem_ainsert in A1.
      destruct (N.eqb h1 hb) eqn:E1; [apply N.eqb_eq in E1; subst; apply amem_alookup; eauto|].
      destruct (N.eqb h1 ha) eqn:E2; [apply N.eqb_eq in E2; subst; apply amem_alookup; eauto|exact A1].
    + unfold cnts2, cnts1 in A2. rewrite !amem_ainsert in A2.
      destruct (N.eqb h2 hb) eqn:E1; [apply N.eqb_eq in E1; subst; apply amem_alookup; eauto|].
      destruct (N.eqb h2 ha) eqn:E2; [apply N.eqb_eq in E2; subst; apply amem_alookup; eauto|exact A2].
  - assert (HM : 1 <= M) by lia. assert (Hv1 : 1 <= vb) by lia.
    assert (Hle : counts_max cnts2 <= M).
    { pose proof (counts_max_ainsert_le cnts1 hb (vb - 1)). pose proof (counts_max_ainsert_le cnts ha (M - 1)).
      fold cnts1 in H0. fold cnts2 in H. fold M in H0. lia. }
    split; [|lia].
    destruct (N.eq_dec (counts_max cnts2) M) as [Eq|Hlt]; [|lia].
    (* the maximum did not drop: a third host still holds M *)
    assert (Hne2 : cnts2 <> []).
    { intros E. assert (alookup hb cnts2 = Some (vb - 1)) by apply alookup_ainsert_same. rewrite E in H. discriminate. }
    destruct (max_attained cnts2 Hne2) as (h3 & Hin3). rewrite Eq in Hin3.
    apply In_alookup_sorted in Hin3; [|exact Hs2].
    unfold cnts2, cnts1 in Hin3. rewrite !alookup_ainsert in Hin3.
    destruct (N.eqb h3 hb) eqn:E3; [inversion Hin3; lia|].
    destruct (N.eqb h3 ha) eqn:E4; [inversion Hin3; lia|].
    apply N.eqb_neq in E3, E4.
    pose proof (counts_sum_remove cnts ha M Hs La) as R1.
    assert (L3 : alookup h3 (aremove ha cnts) = Some M) by (rewrite alookup_aremove_other; auto).
    pose proof (counts_sum_remove _ h3 M (aremove_sorted ha cnts Hs) L3) as R2.
    assert (L4 : alookup hb (aremove h3 (aremove ha cnts)) = Some vb) by (rewrite !alookup_aremove_other; auto).
    pose proof (counts_sum_remove _ hb vb (aremove_sorted h3 _ (aremove_sorted ha cnts Hs)) L4) as R3.
    lia.
Qed.

Lemma alloc_loop_no_panic s : forall need cnts links taken choices acc,
  alloc_inv cnts links need -> alloc_loop s need cnts links taken choices acc <> Panic.
Proof.
  induction need as [|need IH]; intros cnts links taken choices acc Hinv; cbn [alloc_loop].
  - destruct choices; discriminate.
  - destruct choices as [|[a b] rest].
    + rewrite (alloc_not_stuck _ _ _ Hinv). discriminate.
    + destruct (alloc_one s cnts links taken a b) as [[cnts' links']|e|] eqn:E.
      * apply IH. eapply alloc_one_preserves; eauto.
      * discriminate.
      * exfalso. eapply alloc_one_no_panic; eauto.
Qed.

(* the invariant holds when generate_free_chunks passes its checks *)
Lemma initial_covered s : covered (trim_counts (host_counts (free_proxies s))) (build_link_table s).
Proof.
  assert (G : forall h, amem h (trim_counts (host_counts (free_proxies s))) = true ->
                        In h (all_hosts s) /\ In h (free_hosts s)).
  { intros h Hh. rewrite trim_counts_amem in Hh. apply host_counts_key in Hh. destruct Hh as ([a x] & Hin & Hh). cbn [snd] in Hh.
    unfold free_proxies in Hin. apply filter_In in Hin. destruct Hin as [Hin Hf]. apply is_free_untagged in Hf. subst h.
    split; [eapply all_hosts_In; eauto|eapply free_hosts_In; eauto]. }
  intros h1 h2 A1 A2 Hne. destruct (G _ A1), (G _ A2). apply link_entry; auto.
Qed.

Lemma generate_free_chunks_no_panic s k choices : k mod 2 = 0 -> generate_free_chunks s k choices <> Panic.
Proof.
  intros Hk. unfold generate_free_chunks. set (cnts := trim_counts (host_counts (free_proxies s))).
  destruct (N.ltb (counts_sum cnts) k) eqn:E1; [discriminate|].
  destruct (N.ltb (counts_sum cnts) (2 * counts_max cnts)) eqn:E2; [discriminate|].
  apply alloc_loop_no_panic. split; [apply trim_counts_sorted, host_counts_sorted|]. split; [apply initial_covered|].
  split; [lia|]. rewrite N2Nat.id. lia.
Qed.

Lemma generate_ordered_chunks_no_panic s k first : generate_ordered_chunks s k first <> Panic.
Proof.
  unfold generate_ordered_chunks. destruct (N.ltb _ _); [discriminate|]. destruct (negb _); [discriminate|].
  destruct (pair_up _); discriminate.
Qed.

Lemma gen_chunks_no_panic s k first choices : k mod 2 = 0 -> gen_chunks s k first choices <> Panic.
Proof.
  intros Hk. unfold gen_chunks. destruct (st_ordered s); [apply generate_ordered_chunks_no_panic|apply generate_free_chunks_no_panic; exact Hk].
Qed.

Ltac nopanic_guards :=
  repeat match goal with
         | |- snd (if ?b then (_, Fail _) else _) <> Panic => destruct b; [discriminate|]
         end.

Lemma half_even k : k mod 4 = 0 -> (k / 2) mod 2 = 0.
Proof. lia. Qed.

Lemma add_cluster_no_panic s name k cfg ch : snd (add_cluster s name k cfg ch) <> Panic.
Proof.
  unfold add_cluster. destruct (_ && _); [discriminate|]. destruct (amem _ _); [discriminate|].
  destruct (negb (N.eqb (k mod 4) 0)) eqn:E4; [discriminate|]. apply negb_false_iff, N.eqb_eq in E4.
  nopanic_guards.
  pose proof (gen_chunks_no_panic s (k / 2) 0 ch (half_even _ E4)) as G.
  destruct (gen_chunks s (k / 2) 0 ch); [discriminate|discriminate|congruence].
Qed.

Lemma auto_add_nodes_no_panic s name k ch : snd (auto_add_nodes s name k ch) <> Panic.
Proof.
  unfold auto_add_nodes. destruct (alookup name (st_clusters s)) as [cl|]; [|discriminate].
  destruct (cluster_is_migrating cl); [discriminate|].
  destruct (negb (N.eqb (k mod 4) 0)) eqn:E4; [discriminate|]. apply negb_false_iff, N.eqb_eq in E4.
  nopanic_guards.
  pose proof (gen_chunks_no_panic s (k / 2) (2 * N.of_nat (length (cl_chunks cl))) ch (half_even _ E4)) as G.
  destruct (gen_chunks s (k / 2) _ ch); [discriminate|discriminate|congruence].
Qed.

Lemma auto_scale_up_nodes_no_panic s name k ch : snd (auto_scale_up_nodes s name k ch) <> Panic.
Proof.
  unfold auto_scale_up_nodes. destruct (alookup name (st_clusters s)) as [cl|]; [|discriminate].
  destruct (N.leb _ _); [discriminate|]. apply auto_add_nodes_no_panic.
Qed.

Lemma lift_unit_snd r : snd (lift_unit r) = RPanic -> snd r = Panic.
Proof. destruct r as [s [[]|e|]]; cbn; congruence. Qed.

Lemma allocation_no_panic s o : is_allocation o -> snd (step s o) <> RPanic.
Proof.
  destruct o; cbn [is_allocation step]; try tauto; intros _ H; apply lift_unit_snd in H; revert H.
  - apply add_cluster_no_panic.
  - apply auto_add_nodes_no_panic.
  - apply auto_scale_up_nodes_no_panic.
Qed.

Lemma alloc_progress s cnts links r :
  alloc_inv cnts links (S r) ->
  alloc_stuck cnts links = false /\
  forall taken a b,
    alloc_one s cnts links taken a b <> Panic /\
    forall cnts' links', alloc_one s cnts links taken a b = Done (cnts', links') -> alloc_inv cnts' links' r.
Proof.
  intros H. split; [exact (alloc_not_stuck cnts links r H)|].
  intros taken a b. split; [exact (alloc_one_no_panic s cnts links taken a b r H)|].
  intros cnts' links'. exact (alloc_one_preserves s cnts links taken a b cnts' links' r H).
Qed.
