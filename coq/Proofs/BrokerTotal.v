(* Assembly over all broker invariants: on every reachable store NO operation panics, hence every operation sequence
   whatsoever (no side condition on the steps) stays inside the reachable stores and all C01/C10/C12 conclusions apply to it. *)
From UM Require Import Base.BytesDef Model.Ranges Model.Broker Proofs.BrokerBase Proofs.BrokerPartRanges Proofs.BrokerPartDefs
  Proofs.BrokerPartOpsNodes Proofs.BrokerPartMain Proofs.BrokerBalanceDefs Proofs.BrokerBalanceFrame Proofs.BrokerBalance
  Proofs.BrokerAcctBase Proofs.BrokerAcctOps Proofs.BrokerAcctThm Proofs.BrokerAcctPanic Proofs.BrokerAcctRepl.

Lemma lift_unit_panic' r : snd (lift_unit r) = RPanic -> snd r = Panic.
Proof. destruct r as [s [[]|e|]]; cbn; intros H; congruence. Qed.


Lemma adfn_no_panic s name : snd (auto_delete_free_nodes s name) <> Panic.
Proof.
  unfold auto_delete_free_nodes. destruct (alookup name (st_clusters s)) as [cl|]; [|discriminate].
  destruct (cluster_is_migrating cl); [discriminate|]. destruct (filter chunk_is_free (cl_chunks cl)); discriminate.
Qed.

Lemma adfnie_no_panic s name : snd (auto_delete_free_nodes_if_exists s name) <> Panic.
Proof.
  unfold auto_delete_free_nodes_if_exists. pose proof (adfn_no_panic s name) as G.
  destruct (auto_delete_free_nodes s name) as [s' [u|e|]]; cbn [snd] in *; [discriminate| |congruence].
  destruct e; discriminate.
Qed.

Lemma commit_no_panic s name rl tag e : snd (commit_migration s name rl tag e) <> Panic.
Proof.
  unfold commit_migration. destruct (alookup name (st_clusters s)) as [cl|]; [|discriminate].
  destruct tag; try discriminate;
    (destruct (find_entry_chunks 0 (cl_chunks cl) rl e true) as [[si sp]|]; [|discriminate];
     destruct (find_entry_chunks 0 (cl_chunks cl) rl e false) as [[di dp]|]; discriminate).
Qed.

Lemma commit_api_no_panic s name rl tag e clr : snd (commit_migration_api s name rl tag e clr) <> Panic.
Proof.
  unfold commit_migration_api. pose proof (commit_no_panic s name rl tag e) as G.
  destruct (commit_migration s name rl tag e) as [s' [[]|er|]]; cbn [snd] in *; [|discriminate|congruence].
  destruct clr; [apply adfnie_no_panic|discriminate].
Qed.

(* acct_inv on the stores of BrokerPartDefs.reachable *)
Lemma reachable_acct : forall s, BrokerPartDefs.reachable s -> acct_inv s.
Proof.
  intros s Hr. induction Hr as [o|s o Hr IH Hsnap IHsnap Hnp].
  - exact (BrokerAcctOps.reachable_inv (init_store o) (ex_intro _ o (ex_intro _ [] (conj (Forall_nil _) eq_refl)))).
  - apply step_inv; [exact IH|]. destruct o; cbn [restore_ok]; auto.
Qed.

Theorem step_no_panic : forall s o,
  store_part_inv s -> store_balance_inv s -> acct_inv s -> snd (step s o) <> RPanic.
Proof.
  intros s o Hp Hb Ha.
  destruct o; cbn [step]; try (intros H; apply lift_unit_panic' in H; revert H); try discriminate.
  - (* add_proxy *) unfold add_proxy. destruct (if st_ordered s then index else Some 0); cbn [snd]; [|discriminate].
    destruct (amem addr (st_proxies s)); discriminate.
  - (* remove_proxy *) unfold remove_proxy. destruct (alookup addr (st_proxies s)) as [r|]; [|discriminate].
    destruct (pr_cluster r); discriminate.
  - apply add_cluster_no_panic.
  - unfold remove_cluster. destruct (alookup name (st_clusters s)); discriminate.
  - apply auto_add_nodes_no_panic.
  - apply auto_scale_up_nodes_no_panic.
  - unfold auto_delete_free_nodes. destruct (alookup name (st_clusters s)) as [cl|]; [|discriminate].
    destruct (cluster_is_migrating cl); [discriminate|]. destruct (filter chunk_is_free (cl_chunks cl)); discriminate.
  - apply (planners_no_panic s name 0 Hp Hb).
  - apply (planners_no_panic s name new_num Hp Hb).
  - apply commit_api_no_panic.
  - destruct (nth_out_entry s name j); intros H; apply lift_unit_panic' in H; revert H; apply commit_api_no_panic.
  - (* auto change *)
    unfold auto_change_node_number. destruct (alookup name (st_clusters s)) as [cl|]; [|discriminate].
    destruct (cluster_is_migrating cl); [discriminate|].
    pose proof (auto_delete_free_nodes_part_inv s name Hp) as Hp1.
    pose proof (auto_delete_free_nodes_balance s name Hp Hb) as Hb1.
    destruct (auto_delete_free_nodes s name) as [s1 r1] eqn:E. cbn [fst] in Hp1, Hb1.
    assert (Hr1 : r1 <> Panic).
    { assert (snd (auto_delete_free_nodes s name) <> Panic).
      { unfold auto_delete_free_nodes. destruct (alookup name (st_clusters s)) as [c|]; [|discriminate].
        destruct (cluster_is_migrating c); [discriminate|]. destruct (filter chunk_is_free (cl_chunks c)); discriminate. }
      rewrite E in H. exact H. }
    assert (Tail : forall (ob : outcome unit), ob <> Panic ->
       match alookup name (st_clusters s1) with
       | None => (s1, Fail E_ClusterNotFound)
       | Some cl1 =>
         let existing := 4 * N.of_nat (length (cl_chunks cl1)) in
         if N.eqb existing expected then (s1, Done NoOp)
         else if N.ltb existing expected then
           match auto_scale_up_nodes s1 name expected choices with
           | (s2, Done _) => (s2, Done ScaleOut) | (s2, Fail e) => (s2, Fail e) | (s2, Panic) => (s2, Panic) end
         else match migrate_slots_to_scale_down s1 name expected with
              | (s2, Done _) => (s2, Done ScaleDown) | (s2, Fail e) => (s2, Fail e) | (s2, Panic) => (s2, Panic) end
       end = (fst (match alookup name (st_clusters s1) with
       | None => (s1, @Fail scale_op E_ClusterNotFound)
       | Some cl1 =>
         let existing := 4 * N.of_nat (length (cl_chunks cl1)) in
         if N.eqb existing expected then (s1, Done NoOp)
         else if N.ltb existing expected then
           match auto_scale_up_nodes s1 name expected choices with
           | (s2, Done _) => (s2, Done ScaleOut) | (s2, Fail e) => (s2, Fail e) | (s2, Panic) => (s2, Panic) end
         else match migrate_slots_to_scale_down s1 name expected with
              | (s2, Done _) => (s2, Done ScaleDown) | (s2, Fail e) => (s2, Fail e) | (s2, Panic) => (s2, Panic) end
       end), snd (match alookup name (st_clusters s1) with
       | None => (s1, @Fail scale_op E_ClusterNotFound)
       | Some cl1 =>
         let existing := 4 * N.of_nat (length (cl_chunks cl1)) in
         if N.eqb existing expected then (s1, Done NoOp)
         else if N.ltb existing expected then
           match auto_scale_up_nodes s1 name expected choices with
           | (s2, Done _) => (s2, Done ScaleOut) | (s2, Fail e) => (s2, Fail e) | (s2, Panic) => (s2, Panic) end
         else match migrate_slots_to_scale_down s1 name expected with
              | (s2, Done _) => (s2, Done ScaleDown) | (s2, Fail e) => (s2, Fail e) | (s2, Panic) => (s2, Panic) end
       end))) by (intros; apply surjective_pairing).
    clear Tail.
    assert (Body : forall r, r = match alookup name (st_clusters s1) with
       | None => (s1, @Fail scale_op E_ClusterNotFound)
       | Some cl1 =>
         let existing := 4 * N.of_nat (length (cl_chunks cl1)) in
         if N.eqb existing expected then (s1, Done NoOp)
         else if N.ltb existing expected then
           match auto_scale_up_nodes s1 name expected choices with
           | (s2, Done _) => (s2, Done ScaleOut) | (s2, Fail e) => (s2, Fail e) | (s2, Panic) => (s2, Panic) end
         else match migrate_slots_to_scale_down s1 name expected with
              | (s2, Done _) => (s2, Done ScaleDown) | (s2, Fail e) => (s2, Fail e) | (s2, Panic) => (s2, Panic) end
       end -> snd r <> Panic).
    { intros r ->. destruct (alookup name (st_clusters s1)) as [cl1|]; [|discriminate]. cbn zeta.
      destruct (N.eqb _ expected); [discriminate|]. destruct (N.ltb _ expected).
      - pose proof (auto_scale_up_nodes_no_panic s1 name expected choices) as G.
        destruct (auto_scale_up_nodes s1 name expected choices) as [s2 [u|e|]]; cbn [snd] in *; [discriminate|discriminate|congruence].
      - destruct (planners_no_panic s1 name expected Hp1 Hb1) as (_ & _ & G & _).
        destruct (migrate_slots_to_scale_down s1 name expected) as [s2 [u|e|]]; cbn [snd] in *; [discriminate|discriminate|congruence]. }
    destruct r1 as [u|e|]; [| |congruence].
    + specialize (Body _ eq_refl). destruct (match alookup name (st_clusters s1) with | None => _ | Some _ => _ end) as [s2 [x|e|]];
        cbn [snd] in *; [discriminate|discriminate|congruence].
    + destruct e; try discriminate.
      specialize (Body _ eq_refl). destruct (match alookup name (st_clusters s1) with | None => _ | Some _ => _ end) as [s2 [x|e|]];
        cbn [snd] in *; [discriminate|discriminate|congruence].
  - (* auto scale out *)
    unfold auto_scale_out_node_number. destruct (alookup name (st_clusters s)) as [cl|]; [|discriminate].
    destruct (N.ltb (node_number_with_slots cl) expected); [|discriminate].
    apply (planners_no_panic s name 0 Hp Hb).
  - (* replace *)
    pose proof (replace_failed_proxy_no_panic s addr choice Ha) as G.
    destruct (replace_failed_proxy s addr choice) as [s1 [r|e|]]; cbn [snd] in *; [discriminate|discriminate|congruence].
  - unfold balance_masters. destruct (alookup name (st_clusters s)); discriminate.
  - unfold change_config. destruct (alookup name (st_clusters s)) as [cl|]; [|discriminate].
    destruct (cluster_is_migrating cl); [discriminate|]. destruct valid; discriminate.
  - match goal with |- context [add_failure ?a ?b ?c ?d] => destruct (add_failure a b c d) end. discriminate.
  - unfold force_bump_all_epoch. destruct (N.leb _ (st_epoch s)); discriminate.
  - unfold restore. destruct (N.ltb _ (st_epoch s)); discriminate.
Qed.

(* every operation sequence, unconditionally *)
Inductive reachable_any : store -> Prop :=
| ra_init : forall o, reachable_any (init_store o)
| ra_step : forall s o, reachable_any s -> (forall snap, o = ORestore snap -> reachable_any snap) -> reachable_any (fst (step s o)).

Theorem reachable_any_reachable : forall s, reachable_any s -> BrokerPartDefs.reachable s.
Proof.
  intros s H. induction H as [o|s o H IH Hsnap IHsnap].
  - apply reach_init.
  - apply reach_step; [exact IH|exact IHsnap|].
    apply step_no_panic; [apply reachable_keeps_partition; exact IH|apply reachable_store_balance; exact IH|apply reachable_acct; exact IH].
Qed.

Theorem run_reachable : forall ordered ops, (forall snap, In (ORestore snap) ops -> reachable_any snap) ->
  reachable_any (run (init_store ordered) ops).
Proof.
  intros ordered ops. unfold run.
  assert (G : forall s, reachable_any s -> (forall snap, In (ORestore snap) ops -> reachable_any snap) ->
              reachable_any (fold_left (fun s o => fst (step s o)) ops s)).
  { induction ops as [|o ops IH]; intros s Hs Hr; cbn [fold_left]; [exact Hs|].
    apply IH; [|intros snap Hin; apply Hr; right; exact Hin].
    apply ra_step; [exact Hs|]. intros snap ->. apply Hr. left. reflexivity. }
  intros Hr. apply G; [apply ra_init|exact Hr].
Qed.

Theorem reachable_any_no_panic : forall s o, reachable_any s -> snd (step s o) <> RPanic.
Proof.
  intros s o H. apply reachable_any_reachable in H.
  apply step_no_panic; [apply reachable_keeps_partition; exact H|apply reachable_store_balance; exact H|apply reachable_acct; exact H].
Qed.

Theorem any_history_cluster_view : forall ordered ops, (forall snap, In (ORestore snap) ops -> reachable_any snap) ->
  forall lim name ov, view_cluster lim (run (init_store ordered) ops) name = Some ov ->
  exists v, ov = Some v /\ partition_ok (vc_nodes v).
Proof.
  intros ordered ops Hr lim name ov Hv.
  eapply cluster_view_partition; [apply reachable_any_reachable, run_reachable; exact Hr|exact Hv].
Qed.

Theorem any_history_proxy_view : forall ordered ops, (forall snap, In (ORestore snap) ops -> reachable_any snap) ->
  forall lim a ov, view_proxy lim (run (init_store ordered) ops) a = Some ov ->
  exists v, ov = Some v /\ BrokerPartViewProxy.proxy_partition_ok a v.
Proof.
  intros ordered ops Hr lim a ov Hv.
  eapply proxy_view_partition; [apply reachable_any_reachable, run_reachable; exact Hr|exact Hv].
Qed.
