(* The routing tables of proxy p (install_ns ns p) in terms of the cluster node list ns, under view_wfb ns. *)
From UM Require Import Base.BytesDef Model.Ranges Model.Broker Model.Route
     Proofs.BrokerPartRanges Proofs.BrokerPartDefs Proofs.RouteProofsBase Proofs.RouteProofsView.
From Coq Require Import ZifyBool ZifyNat ZifyN.

Ltac conj_auto := repeat split; first [assumption|reflexivity|auto 8].

(* ---------- the parts of view_wfb ---------- *)
Lemma wf_parts ns : view_wfb ns = true ->
  (forall n rl t, In n ns -> In (rl, t) (vn_slots n) -> t <> VNone -> rl_okb rl = true)
  /\ NoDup (map vn_addr (filter vn_master ns))
  /\ (forall a, In a (proxies_of ns) -> NoDup (map fst (vp_peers (proxy_view_of ns a))))
  /\ (forall n rl m, In n ns -> In (rl, VMigrating m) (vn_slots n) -> vm_src_proxy m <> vm_dst_proxy m).
Proof.
  unfold view_wfb. intros H. repeat (apply andb_true_iff in H; destruct H as [H ?]).
  rename H into W1, H0 into W4, H1 into W3, H2 into W2.
  split; [|split; [|split]].
  - intros n rl t Hn Hsl Ht. rewrite forallb_forall in W1. apply W1. unfold tagged_ranges.
    apply in_flat_map. exists n. split; [exact Hn|]. apply in_flat_map. exists (rl, t). split; [exact Hsl|].
    cbn [snd fst]. destruct t; [congruence|left; reflexivity|left; reflexivity].
  - apply nodupb_NoDup. exact W2.
  - intros a Ha. rewrite forallb_forall in W3. apply nodupb_NoDup. apply W3. exact Ha.
  - intros n rl m Hn Hsl. rewrite forallb_forall in W4.
    assert (Hx : In (rl, m) (migrations ns)).
    { unfold migrations. apply in_flat_map. exists n. split; [exact Hn|]. apply in_flat_map. exists (rl, VMigrating m).
      split; [exact Hsl|left; reflexivity]. }
    specialize (W4 _ Hx). cbn [snd] in W4. apply negb_true_iff in W4. intros E. rewrite E, N.eqb_refl in W4. discriminate.
Qed.

Section Tables.
Variable ns : list vnode.
Hypothesis Hwf : view_wfb ns = true.

Let W1 := proj1 (wf_parts ns Hwf).
Let W2 := proj1 (proj2 (wf_parts ns Hwf)).
Let W3 := proj1 (proj2 (proj2 (wf_parts ns Hwf))).

Lemma local_In p a sls :
  In (a, sls) (pm_local (install_ns ns p)) <->
  exists n, In n ns /\ vn_master n = true /\ vn_proxy n = p /\ a = vn_addr n /\ sls = vn_slots n.
Proof.
  change (pm_local (install_ns ns p))
    with (hm_of (map (fun n => (vn_addr n, vn_slots n)) (filter vn_master (filter (fun n => N.eqb (vn_proxy n) p) ns)))).
  rewrite hm_of_In.
  - rewrite in_map_iff. split.
    + intros [n [E Hn]]. inversion E; subst. apply filter_In in Hn. destruct Hn as [Hn Hm]. apply filter_In in Hn.
      destruct Hn as [Hn Hp]. apply N.eqb_eq in Hp. exists n. auto.
    + intros [n [Hn [Hm [Hp [-> ->]]]]]. exists n. split; [reflexivity|]. apply filter_In. split; [|exact Hm].
      apply filter_In. split; [exact Hn|]. apply N.eqb_eq. exact Hp.
  - rewrite map_map. cbn [fst]. rewrite filter_filter_comm. apply NoDup_map_filter. exact W2.
Qed.

Lemma peers_sound p q sls sl : In p (proxies_of ns) ->
  In (q, sls) (pm_peers (install_ns ns p)) -> In sl sls ->
  exists n, In n ns /\ vn_master n = true /\ vn_proxy n = q /\ q <> p /\ In sl (vn_slots n).
Proof.
  intros Hp H Hsl.
  change (pm_peers (install_ns ns p)) with (hm_of (vp_peers (proxy_view_of ns p))) in H.
  apply (proj1 (hm_of_In _ _ _ (W3 p Hp))) in H.
  cbn [vp_peers proxy_view_of] in H.
  destruct (group_peers_sound _ _ _ _ _ H Hsl) as [[n [Hn [Hq Hs]]]|[sls0 [[] _]]].
  apply filter_In in Hn. destruct Hn as [Hn Hb]. apply andb_true_iff in Hb. destruct Hb as [Hm Hne].
  apply negb_true_iff in Hne. exists n. repeat split; try assumption.
  intros E. rewrite <- E, Hq, N.eqb_refl in Hne. discriminate.
Qed.

Lemma peers_complete p n sl : In p (proxies_of ns) ->
  In n ns -> vn_master n = true -> vn_proxy n <> p -> In sl (vn_slots n) ->
  exists sls, In (vn_proxy n, sls) (pm_peers (install_ns ns p)) /\ In sl sls.
Proof.
  intros Hp Hn Hm Hne Hsl.
  change (pm_peers (install_ns ns p)) with (hm_of (vp_peers (proxy_view_of ns p))).
  destruct (group_peers_complete (filter (fun n => vn_master n && negb (N.eqb (vn_proxy n) p)) ns) [] (vn_proxy n) sl) as [sls [H1 H2]].
  { left. exists n. split; [|auto]. apply filter_In. split; [exact Hn|]. rewrite Hm. cbn [andb]. apply negb_true_iff.
    apply N.eqb_neq. exact Hne. }
  exists sls. split; [|exact H2]. apply (proj2 (hm_of_In _ _ _ (W3 p Hp))). exact H1.
Qed.

(* ---------- slot candidates ---------- *)
Variable s : N.
Hypothesis Hs : s < SLOT_NUM.

Lemma slot_cands_In (m : list (N * list vslot)) a :
  In a (slot_cands m s) <-> exists sls sl, In (a, sls) m /\ In sl sls /\ slot_in s sl = true.
Proof.
  unfold slot_cands. assert (E : N.leb SLOT_NUM s = false) by lia. rewrite E.
  rewrite in_map_iff. split.
  - intros [[a' sls] [Ea H]]. cbn [fst] in Ea. subst a'. apply filter_In in H. destruct H as [H Hb]. cbn [snd] in Hb.
    apply existsb_exists in Hb. destruct Hb as [sl [Hsl Hin]]. exists sls, sl. conj_auto.
  - intros [sls [sl [H [Hsl Hin]]]]. exists (a, sls). split; [reflexivity|]. apply filter_In. split; [exact H|].
    cbn [snd]. apply existsb_exists. exists sl. auto.
Qed.

Lemma cands_local p a :
  In a (slot_cands (pm_local (install_ns ns p)) s) <->
  exists n sl, In n ns /\ vn_master n = true /\ vn_proxy n = p /\ a = vn_addr n /\ In sl (vn_slots n) /\ slot_in s sl = true.
Proof.
  rewrite slot_cands_In. split.
  - intros [sls [sl [H [Hsl Hin]]]]. apply local_In in H. destruct H as [n [Hn [Hm [Hp [-> ->]]]]]. exists n, sl. conj_auto.
  - intros [n [sl [Hn [Hm [Hp [-> [Hsl Hin]]]]]]]. exists (vn_slots n), sl. split; [|auto]. apply local_In. exists n. auto.
Qed.

Lemma cands_peers p q : In p (proxies_of ns) ->
  (In q (slot_cands (pm_peers (install_ns ns p)) s) <->
   exists n sl, In n ns /\ vn_master n = true /\ vn_proxy n = q /\ q <> p /\ In sl (vn_slots n) /\ slot_in s sl = true).
Proof.
  intros Hp. rewrite slot_cands_In. split.
  - intros [sls [sl [H [Hsl Hin]]]]. destruct (peers_sound _ _ _ _ Hp H Hsl) as [n [Hn [Hm [Hq [Hne Hs']]]]]. exists n, sl. conj_auto.
  - intros [n [sl [Hn [Hm [Hq [Hne [Hsl Hin]]]]]]]. subst q.
    destruct (peers_complete p n sl Hp Hn Hm Hne Hsl) as [sls [H1 H2]]. exists sls, sl. conj_auto.
Qed.

(* ---------- tasks ---------- *)
Lemma tasks_In p t :
  In t (local_tasks (install_ns ns p)) <->
  exists n rl, In n ns /\ vn_master n = true /\ vn_proxy n = p /\
    ((exists m, In (rl, VMigrating m) (vn_slots n) /\ t = mkTask (vn_addr n) rl true m) \/
     (exists m, In (rl, VImporting m) (vn_slots n) /\ t = mkTask (vn_addr n) rl false m)).
Proof.
  unfold local_tasks. rewrite in_flat_map. split.
  - intros [[a sls] [H Ht]]. apply local_In in H. destruct H as [n [Hn [Hm [Hp [-> ->]]]]].
    unfold tasks_of_entry in Ht. cbn [fst snd] in Ht. apply in_flat_map in Ht. destruct Ht as [[rl tg] [Hsl Ht]].
    cbn [fst snd] in Ht. exists n, rl. split; [exact Hn|split; [exact Hm|split; [exact Hp|]]].
    destruct tg as [|m|m]; [destruct Ht| |]; (destruct Ht as [<-|[]]); [left|right]; exists m; auto.
  - intros [n [rl [Hn [Hm [Hp H]]]]]. exists (vn_addr n, vn_slots n). split; [apply local_In; exists n; auto|].
    unfold tasks_of_entry. cbn [fst snd]. apply in_flat_map.
    destruct H as [[m [Hsl ->]]|[m [Hsl ->]]]; [exists (rl, VMigrating m)|exists (rl, VImporting m)]; (split; [exact Hsl|left; reflexivity]).
Qed.

Lemma tasks_ranges_ok p t : In t (local_tasks (install_ns ns p)) -> rl_okb (t_ranges t) = true.
Proof.
  intros H. apply tasks_In in H. destruct H as [n [rl [Hn [_ [_ [[m [Hsl ->]]|[m [Hsl ->]]]]]]]]; cbn [t_ranges];
    eapply W1; eauto; discriminate.
Qed.

Lemma tasks_all_ok p : forallb (fun t => rm_ok (t_ranges t)) (local_tasks (install_ns ns p)) = true.
Proof. apply forallb_forall. intros t Ht. apply rm_ok_of_okb. eapply tasks_ranges_ok; eauto. Qed.

Lemma tasks_filter p :
  filter (fun t => rm_contains (t_ranges t) s) (local_tasks (install_ns ns p))
  = filter (fun t => in_rangelist s (t_ranges t)) (local_tasks (install_ns ns p)).
Proof.
  apply filter_ext_in. intros t Ht. apply rm_contains_of_okb; [eapply tasks_ranges_ok; eauto|exact Hs].
Qed.

Lemma route_step_eq ph p :
  route_step ph (install_ns ns p) s =
  match filter (fun t => in_rangelist s (t_ranges t)) (local_tasks (install_ns ns p)) with
  | [] => fallthrough ph (install_ns ns p) s HNotBlocking
  | ts => flat_map (task_send ph (install_ns ns p) s) ts
  end.
Proof. unfold route_step. rewrite tasks_all_ok, tasks_filter. reflexivity. Qed.

End Tables.
