(* Basic lemmas for the migration model: list update, the reply classification of Ttl.v on the stand-in's replies. *)
From UM Require Import Base.BytesDef Base.RespT Model.Ttl Model.Migrate Proofs.TtlProofs.

Lemma nth_error_upd_eq : forall A (l : list A) i x y, nth_error l i = Some y -> nth_error (upd i x l) i = Some x.
Proof.
  induction l as [|a l IH]; intros [|i] x y H; cbn in *; try discriminate; auto. eapply IH; eauto.
Qed.

Lemma nth_error_upd_neq : forall A (l : list A) i j x, i <> j -> nth_error (upd i x l) j = nth_error l j.
Proof.
  induction l as [|a l IH]; intros [|i] [|j] x H; cbn; auto; try congruence.
Qed.

Lemma length_upd : forall A (l : list A) i x, length (upd i x l) = length l.
Proof. induction l as [|a l IH]; intros [|i] x; cbn; auto. Qed.

Lemma nth_error_upd_inv : forall A (l : list A) i j x y,
  nth_error (upd i x l) j = Some y -> (j = i /\ y = x /\ i < length l)%nat \/ (j <> i /\ nth_error l j = Some y).
Proof.
  intros A l i j x y H. destruct (Nat.eq_dec j i) as [->|N].
  - left. assert (Hl : (i < length l)%nat).
    { rewrite <- (length_upd A l i x). apply nth_error_Some. congruence. }
    destruct (nth_error l i) eqn:E.
    + erewrite nth_error_upd_eq in H by eauto. inversion H; auto.
    + apply nth_error_None in E. lia.
  - right. split; auto. rewrite nth_error_upd_neq in H; auto.
Qed.

Lemma nth_error_snoc : forall A (l : list A) x j y,
  nth_error (l ++ [x]) j = Some y -> nth_error l j = Some y \/ (j = length l /\ y = x).
Proof.
  intros A l x j y H. destruct (Nat.lt_ge_cases j (length l)) as [Hlt|Hge].
  - left. rewrite nth_error_app1 in H; auto.
  - right. rewrite nth_error_app2 in H by lia.
    destruct (j - length l)%nat eqn:E; cbn in H.
    + inversion H. split; auto. lia.
    + destruct n; discriminate.
Qed.

Lemma forallb_nth : forall A (f : A -> bool) l i x, forallb f l = true -> nth_error l i = Some x -> f x = true.
Proof.
  intros A f l i x H Hn. rewrite forallb_forall in H. apply H. eapply nth_error_In; eauto.
Qed.

Lemma bytes_eqb_refl : forall a, bytes_eqb a a = true.
Proof. intros a. apply bytes_eqb_eq. reflexivity. Qed.

Lemma bytes_eqb_neq : forall a b, bytes_eqb a b = false <-> a <> b.
Proof.
  intros a b. split.
  - intros H E. apply bytes_eqb_eq in E. congruence.
  - intros H. destruct (bytes_eqb a b) eqn:E; auto. apply bytes_eqb_eq in E. contradiction.
Qed.

(* classification of the stand-in's replies *)
Lemma scan_entry_int_bulk : forall t raw, bytes_eqb t PTTL_KEY_NOT_FOUND = false ->
  scan_entry (Integer t) (Bulk raw) = Entry t raw.
Proof. intros t raw H. unfold scan_entry. rewrite H. reflexivity. Qed.

Lemma scan_entry_notfound : forall d, scan_entry (Integer PTTL_KEY_NOT_FOUND) d = Skip.
Proof. intros d. unfold scan_entry. cbn. destruct d; reflexivity. Qed.

Lemma scan_entry_nil : forall t, scan_entry (Integer t) BulkNil = Skip.
Proof. intros t. unfold scan_entry. destruct (bytes_eqb t PTTL_KEY_NOT_FOUND); reflexivity. Qed.

Lemma scan_entry_int_inv : forall t d pt raw, scan_entry (Integer t) d = Entry pt raw ->
  pt = t /\ d = Bulk raw /\ bytes_eqb t PTTL_KEY_NOT_FOUND = false.
Proof.
  intros t d pt raw H. unfold scan_entry in H.
  destruct (bytes_eqb t PTTL_KEY_NOT_FOUND) eqn:E; destruct d; try discriminate; inversion H; auto.
Qed.

Lemma pull_entry_bulk_int : forall t raw, bytes_eqb t PTTL_KEY_NOT_FOUND = false ->
  pull_entry (Bulk raw) (Integer t) = Entry t raw.
Proof. intros t raw H. unfold pull_entry. rewrite H. reflexivity. Qed.

Lemma pull_entry_int_inv : forall d t pt raw, pull_entry d (Integer t) = Entry pt raw ->
  pt = t /\ d = Bulk raw /\ bytes_eqb t PTTL_KEY_NOT_FOUND = false.
Proof.
  intros d t pt raw H. unfold pull_entry in H.
  destruct (bytes_eqb t PTTL_KEY_NOT_FOUND) eqn:E; destruct d; try discriminate; inversion H; auto.
Qed.

Lemma pull_entry_notfound_noentry : forall d pt raw, pull_entry d (Integer PTTL_KEY_NOT_FOUND) <> Entry pt raw.
Proof. intros d pt raw H. apply pull_entry_int_inv in H. destruct H as (_ & _ & H). vm_compute in H. discriminate. Qed.

Lemma restore_args_cmd : forall key e raw t,
  restore_args e = Some (raw, t) <-> restore_cmd key e = Some [RESTORE; key; t; raw].
Proof.
  intros key e raw t. destruct e; cbn; split; intros H; try discriminate; inversion H; subst; reflexivity.
Qed.
