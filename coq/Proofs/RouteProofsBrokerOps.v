(* C02 on broker histories, part 2: every operation of Model/Broker.v preserves rinv; hence rinv holds on every store reachable
   by ANY operation sequence (BrokerTotal.reachable_any). *)
From UM Require Import Base.BytesDef Model.Ranges Model.Broker Model.Route Proofs.BrokerBase Proofs.BrokerPartRanges
     Proofs.BrokerPartDefs Proofs.BrokerPartMigrateBase Proofs.BrokerPartMain Proofs.BrokerBalanceDefs Proofs.BrokerBalance
     Proofs.BrokerAcctBase Proofs.BrokerTotal Proofs.RouteProofsBrokerInv.
From Coq Require Import ZifyBool ZifyNat ZifyN.

Definition cls_ok (cs : list (N * cluster)) : Prop := forall name cl, In (name, cl) cs -> chunks_ok ent_ok (cl_chunks cl).

Lemma rinv_intro s ps cs : st_proxies s = ps -> st_clusters s = cs -> res_ok ps -> cls_ok cs -> rinv s.
Proof. intros <- <- H1 H2. split; assumption. Qed.

Lemma rinv_res s : rinv s -> res_ok (st_proxies s).
Proof. intros [H _]. exact H. Qed.
Lemma rinv_cls s : rinv s -> cls_ok (st_clusters s).
Proof. intros [_ H]. exact H. Qed.

Lemma rinv_same s s' : st_proxies s' = st_proxies s -> st_clusters s' = st_clusters s -> rinv s -> rinv s'.
Proof. intros E1 E2 [H1 H2]. split; [rewrite E1; exact H1|rewrite E2; exact H2]. Qed.

Lemma rinv_bump s : rinv s -> rinv (bump s).
Proof. apply rinv_same; reflexivity. Qed.

(* ---------- resources ---------- *)
Lemma res_ok_insert ps a r : res_ok ps -> pr_n0 r = 2 * a -> pr_n1 r = 2 * a + 1 -> res_ok (ainsert a r ps).
Proof. intros H H0 H1 a' r' Hin. apply ainsert_In in Hin. destruct Hin as [[-> ->]|Hin]; [auto|eapply H; eauto]. Qed.

Lemma res_ok_remove ps a : res_ok ps -> res_ok (aremove a ps).
Proof. intros H a' r' Hin. apply aremove_In in Hin. eapply H; eauto. Qed.

Lemma res_ok_tag addrs c : forall ps, res_ok ps -> res_ok (tag_proxies ps addrs c).
Proof.
  induction addrs as [|a rest IH]; intros ps H; cbn [tag_proxies]; [exact H|]. apply IH.
  destruct (alookup a ps) as [r|] eqn:E; [|exact H]. apply alookup_In in E. destruct (H _ _ E) as [H0 H1].
  apply res_ok_insert; [exact H|exact H0|exact H1].
Qed.

(* ---------- clusters ---------- *)
Lemma cls_ok_insert cs name cl : cls_ok cs -> chunks_ok ent_ok (cl_chunks cl) -> cls_ok (ainsert name cl cs).
Proof. intros H Hcl n c Hin. apply ainsert_In in Hin. destruct Hin as [[-> ->]|Hin]; [exact Hcl|eapply H; eauto]. Qed.

Lemma cls_ok_remove cs name : cls_ok cs -> cls_ok (aremove name cs).
Proof. intros H n c Hin. apply aremove_In in Hin. eapply H; eauto. Qed.

Lemma cls_ok_lookup cs name cl : cls_ok cs -> alookup name cs = Some cl -> chunks_ok ent_ok (cl_chunks cl).
Proof. intros H E. apply alookup_In in E. eapply H; eauto. Qed.

Lemma cls_ok_epochs cs e : cls_ok cs -> cls_ok (map (fun nc => (fst nc, set_cl_epoch (snd nc) e)) cs).
Proof.
  intros H n c Hin. apply in_map_iff in Hin. destruct Hin as [[n0 c0] [E Hin]]. cbn [fst snd] in E. inversion E; subst.
  cbn [set_cl_epoch cl_chunks]. eapply H; eauto.
Qed.

(* ---------- operations that touch neither resources' nodes nor entries ---------- *)
Lemma add_failure_rinv s a r now : rinv s -> rinv (fst (add_failure s a r now)).
Proof.
  intros H. unfold add_failure. destruct (match alookup a (st_failures s) with Some m => amem r m | None => false end); cbn [fst]; [exact H|].
  eapply rinv_same; [| |exact H]; reflexivity.
Qed.

Lemma get_failures_rinv s now ttl q : rinv s -> rinv (fst (get_failures s now ttl q)).
Proof. intros H. unfold get_failures. cbn [fst]. eapply rinv_same; [| |exact H]; reflexivity. Qed.

Lemma cleanup_failures_rinv s now ttl q : rinv s -> rinv (fst (cleanup_failures s now ttl q)).
Proof. intros H. unfold cleanup_failures. cbn [fst]. apply get_failures_rinv. exact H. Qed.

Lemma add_proxy_rinv s addr host index : rinv s -> rinv (fst (add_proxy s addr host index)).
Proof.
  intros H. unfold add_proxy. destruct (if st_ordered s then index else Some 0) as [idx|]; cbn [fst]; [|exact H].
  destruct (amem addr (st_proxies s)) eqn:Em;
    match goal with |- rinv (if ?b then _ else _) => destruct b end;
    (eapply rinv_intro; [reflexivity|reflexivity| |apply (rinv_cls _ H)]);
    try exact (rinv_res _ H);
    (apply res_ok_insert; [exact (rinv_res _ H)|reflexivity|reflexivity]).
Qed.

Lemma remove_proxy_rinv s addr : rinv s -> rinv (fst (remove_proxy s addr)).
Proof.
  intros H. unfold remove_proxy. destruct (alookup addr (st_proxies s)) as [r|]; cbn [fst]; [|exact H].
  destruct (pr_cluster r); cbn [fst]; [exact H|].
  eapply rinv_intro; [reflexivity|reflexivity|apply res_ok_remove; exact (rinv_res _ H)|exact (rinv_cls _ H)].
Qed.

Lemma chunks_of_pairs_no_migs s : forall pairs ws av rem i cur, no_migs (chunks_of_pairs s pairs ws av rem i cur).
Proof.
  induction pairs as [|[a b] rest IH]; intros ws av rem i cur; cbn [chunks_of_pairs]; [intros c []|].
  intros c [<-|Hin]; [split; reflexivity|eapply IH; exact Hin].
Qed.

Lemma new_chunks_ok s pairs ws : chunks_ok ent_ok (proxy_resource_to_chunk_store s pairs ws).
Proof. apply chunks_ok_no_migs. unfold proxy_resource_to_chunk_store. apply chunks_of_pairs_no_migs. Qed.

Lemma add_cluster_rinv s name k cfg ch : rinv s -> rinv (fst (add_cluster s name k cfg ch)).
Proof.
  intros H. unfold add_cluster.
  repeat match goal with |- rinv (fst (if ?b then _ else _)) => destruct b; cbn [fst]; [exact H|] end.
  destruct (gen_chunks s (k / 2) 0 ch) as [pairs|e|]; cbn [fst]; [|exact H|exact H].
  eapply rinv_intro; [reflexivity|reflexivity| |].
  - apply res_ok_tag. exact (rinv_res _ H).
  - apply cls_ok_insert; [exact (rinv_cls _ H)|]. cbn [cl_chunks]. apply new_chunks_ok.
Qed.

Lemma remove_cluster_rinv s name : rinv s -> rinv (fst (remove_cluster s name)).
Proof.
  intros H. unfold remove_cluster. destruct (alookup name (st_clusters s)) as [cl|]; cbn [fst]; [|exact H].
  eapply rinv_intro; [reflexivity|reflexivity|apply res_ok_tag; exact (rinv_res _ H)|apply cls_ok_remove; exact (rinv_cls _ H)].
Qed.

Lemma auto_add_nodes_rinv s name k ch : rinv s -> rinv (fst (auto_add_nodes s name k ch)).
Proof.
  intros H. unfold auto_add_nodes. destruct (alookup name (st_clusters s)) as [cl|] eqn:El; cbn [fst]; [|exact H].
  repeat match goal with |- rinv (fst (if ?b then _ else _)) => destruct b; cbn [fst]; [exact H|] end.
  destruct (gen_chunks s (k / 2) _ ch) as [pairs|e|]; cbn [fst]; [|exact H|exact H].
  eapply rinv_intro; [reflexivity|reflexivity| |].
  - apply res_ok_tag. exact (rinv_res _ H).
  - apply cls_ok_insert; [exact (rinv_cls _ H)|]. cbn [cl_chunks]. apply chunks_ok_app; [|apply new_chunks_ok].
    eapply cls_ok_lookup; [exact (rinv_cls _ H)|exact El].
Qed.

Lemma auto_scale_up_nodes_rinv s name k ch : rinv s -> rinv (fst (auto_scale_up_nodes s name k ch)).
Proof.
  intros H. unfold auto_scale_up_nodes. destruct (alookup name (st_clusters s)) as [cl|]; cbn [fst]; [|exact H].
  destruct (N.leb k _); cbn [fst]; [exact H|]. apply auto_add_nodes_rinv. exact H.
Qed.

Lemma auto_delete_free_nodes_rinv s name : rinv s -> rinv (fst (auto_delete_free_nodes s name)).
Proof.
  intros H. unfold auto_delete_free_nodes. destruct (alookup name (st_clusters s)) as [cl|] eqn:El; cbn [fst]; [|exact H].
  destruct (cluster_is_migrating cl); cbn [fst]; [exact H|].
  destruct (filter chunk_is_free (cl_chunks cl)) as [|c0 l0]; cbn [fst]; [exact H|].
  eapply rinv_intro; [reflexivity|reflexivity| |].
  - apply res_ok_tag. exact (rinv_res _ H).
  - apply cls_ok_insert; [exact (rinv_cls _ H)|]. cbn [cl_chunks]. apply chunks_ok_filter.
    eapply cls_ok_lookup; [exact (rinv_cls _ H)|exact El].
Qed.

Lemma auto_delete_free_nodes_if_exists_rinv s name : rinv s -> rinv (fst (auto_delete_free_nodes_if_exists s name)).
Proof.
  intros H. unfold auto_delete_free_nodes_if_exists. pose proof (auto_delete_free_nodes_rinv s name H) as G.
  destruct (auto_delete_free_nodes s name) as [s' [u|e|]]; cbn [fst] in *; [exact G| |exact G]. destruct e; exact G.
Qed.

Lemma my_firstn_In {A} (x : A) : forall n l, In x (firstn n l) -> In x l.
Proof. induction n as [|n IH]; intros [|a l]; cbn [firstn In]; try tauto. intros [H|H]; [left; exact H|right; apply IH; exact H]. Qed.
Lemma my_skipn_In {A} (x : A) : forall n l, In x (skipn n l) -> In x l.
Proof. induction n as [|n IH]; intros [|a l]; cbn [skipn In]; try tauto. intros H. right. apply IH. exact H. Qed.

(* ---------- the planners ---------- *)
Lemma migrate_slots_rinv s name :
  store_part_inv s -> store_balance_inv s -> rinv s -> rinv (fst (migrate_slots s name)).
Proof.
  intros Hp Hb H. unfold migrate_slots. cbv zeta.
  change (st_clusters (bump s)) with (st_clusters s).
  destruct (alookup name (st_clusters s)) as [cl|] eqn:El; cbn [fst]; [|apply rinv_bump; exact H].
  destruct (negb (existsb has_empty_stable (cl_chunks cl))); cbn [fst]; [apply rinv_bump; exact H|].
  destruct (cluster_is_migrating cl) eqn:Em; cbn [fst]; [apply rinv_bump; exact H|].
  destruct (remove_slots_from_src cl (st_epoch (bump s))) as [[chunks migs]|e|] eqn:Er; cbn [fst]; try (apply rinv_bump; exact H).
  destruct (assign_dst_slots chunks migs) as [chunks'|e|] eqn:Ea; cbn [fst]; try (apply rinv_bump; exact H).
  pose proof (alookup_In _ _ _ El) as Hin.
  pose proof (not_migrating_no_migs cl Em) as Hnm.
  eapply rinv_intro; [reflexivity|reflexivity|exact (rinv_res _ H)|].
  apply cls_ok_insert; [exact (rinv_cls _ H)|]. cbn [cl_chunks]. apply chunks_ok_compact.
  eapply assign_dst_slots_pre; [exact Ea| |].
  - eapply remove_src_pre; [exact (Hp _ _ Hin)|exact (Hb _ _ Hin)|exact Hnm|exact Er].
  - unfold remove_slots_from_src in Er.
    match type of Er with match ?X with _ => _ end = _ => destruct X as [[ch acc]|?|] eqn:E; try discriminate end.
    inversion Er; subst. eapply chunks_ok_same_ents; [eapply scale_out_chunks_ents; exact E|]. apply chunks_ok_no_migs. exact Hnm.
Qed.

Lemma migrate_slots_to_scale_down_rinv s name k : rinv s -> rinv (fst (migrate_slots_to_scale_down s name k)).
Proof.
  intros H. unfold migrate_slots_to_scale_down. cbv zeta.
  change (st_clusters (bump s)) with (st_clusters s).
  destruct (alookup name (st_clusters s)) as [cl|] eqn:El; cbn [fst]; [|apply rinv_bump; exact H].
  destruct (existsb has_empty_stable (cl_chunks cl)); cbn [fst]; [apply rinv_bump; exact H|].
  destruct (cluster_is_migrating cl) eqn:Em; cbn [fst]; [apply rinv_bump; exact H|].
  match goal with |- rinv (fst (if ?b then _ else _)) => destruct b; cbn [fst]; [apply rinv_bump; exact H|] end.
  destruct (remove_slots_from_src_to_scale_down cl (st_epoch (bump s)) (N.to_nat (k / 4))) as [[chunks migs]|e|] eqn:Er; cbn [fst];
    try (apply rinv_bump; exact H).
  destruct (assign_dst_slots chunks migs) as [chunks'|e|] eqn:Ea; cbn [fst]; try (apply rinv_bump; exact H).
  pose proof (not_migrating_no_migs cl Em) as Hnm.
  eapply rinv_intro; [reflexivity|reflexivity|exact (rinv_res _ H)|].
  apply cls_ok_insert; [exact (rinv_cls _ H)|]. cbn [cl_chunks]. apply chunks_ok_compact.
  eapply assign_dst_slots_pre; [exact Ea|eapply remove_src_down_pre; exact Er|].
  unfold remove_slots_from_src_to_scale_down in Er.
  destruct (existing_nums _) as [ex|]; [|discriminate].
  match type of Er with match ?X with _ => _ end = _ => destruct X as [[ch acc]|?|] eqn:E; try discriminate end.
  inversion Er; subst. apply chunks_ok_app.
  - intros c e Hc He. apply my_firstn_In in Hc. destruct (Hnm c Hc) as [H0 H1]. unfold ck_ents in He. rewrite H0, H1 in He. destruct He.
  - eapply chunks_ok_same_ents; [eapply scale_down_chunks_ents; exact E|]. apply chunks_ok_no_migs.
    intros c Hc. apply Hnm. eapply my_skipn_In. exact Hc.
Qed.

(* ---------- commit ---------- *)
Lemma remove_first_In {A} (p : A -> bool) : forall l x l', remove_first p l = Some (x, l') -> forall y, In y l' -> In y l.
Proof.
  induction l as [|a l IH]; intros x l'; cbn [remove_first]; [discriminate|].
  destruct (p a).
  - intros E. inversion E; subst. intros y Hy. right. exact Hy.
  - destruct (remove_first p l) as [[z r]|] eqn:Er; [|discriminate]. intros E. inversion E; subst.
    intros y [<-|Hy]; [left; reflexivity|right; eapply IH; eauto].
Qed.

Lemma commit_in_ok P rl meta : forall chunks, chunks_ok P chunks -> chunks_ok P (commit_in chunks rl meta).
Proof.
  induction chunks as [|c rest IH]; intros H; cbn [commit_in]; [exact H|]. cbv beta zeta.
  assert (Hrest : chunks_ok P rest) by (intros c' e Hc He; eapply H; [right; exact Hc|exact He]).
  assert (Hc : forall e, In e (ck_ents c) -> P e) by (intros e He; eapply H; [left; reflexivity|exact He]).
  destruct (remove_first _ (ck_mig0 c)) as [[e0 l']|] eqn:E0.
  - intros c' e [<-|Hin] He; [|eapply Hrest; eauto]. apply Hc.
    assert (He' : In e (l' ++ ck_mig1 c)).
    { destruct (ck_stable (set_mig c false l') false); rewrite ents_set_stable in He; exact He. }
    apply in_app_or in He'. unfold ck_ents. apply in_or_app. destruct He' as [He'|He']; [left; eapply remove_first_In; eauto|right; exact He'].
  - destruct (remove_first _ (ck_mig1 c)) as [[e1 l']|] eqn:E1.
    + intros c' e [<-|Hin] He; [|eapply Hrest; eauto]. apply Hc.
      assert (He' : In e (ck_mig0 c ++ l')).
      { destruct (ck_stable (set_mig c true l') true); rewrite ents_set_stable in He; exact He. }
      apply in_app_or in He'. unfold ck_ents. apply in_or_app. destruct He' as [He'|He']; [left; exact He'|right; eapply remove_first_In; eauto].
    + intros c' e [<-|Hin] He; [apply Hc; exact He|]. eapply IH; eauto.
Qed.

Lemma commit_migration_rinv s name rl tag e : rinv s -> rinv (fst (commit_migration s name rl tag e)).
Proof.
  intros H. unfold commit_migration. destruct (alookup name (st_clusters s)) as [cl|] eqn:El; cbn [fst]; [|exact H].
  destruct tag; cbn [fst]; try exact H;
    (destruct (find_entry_chunks 0 (cl_chunks cl) rl e true) as [[si sp]|]; cbn [fst]; [|exact H];
     destruct (find_entry_chunks 0 (cl_chunks cl) rl e false) as [[di dp]|]; cbn [fst]; [|exact H];
     eapply rinv_intro; [reflexivity|reflexivity|exact (rinv_res _ H)|];
     apply cls_ok_insert; [exact (rinv_cls _ H)|]; cbn [cl_chunks]; apply chunks_ok_compact; apply commit_in_ok;
     intros c' e' Hc' He'; apply in_map_iff in Hc'; destruct Hc' as [c [<- Hc]];
     apply ent_ok_pre; apply (cls_ok_lookup _ _ _ (rinv_cls _ H) El c e' Hc);
     unfold ck_ents in *; cbn [ck_mig0 ck_mig1 set_mig] in He';
     apply in_app_or in He'; apply in_or_app; destruct He' as [He'|He']; apply filter_In in He'; [left|right]; apply He').
Qed.

Lemma commit_migration_api_rinv s name rl tag e clr : rinv s -> rinv (fst (commit_migration_api s name rl tag e clr)).
Proof.
  intros H. unfold commit_migration_api. pose proof (commit_migration_rinv s name rl tag e H) as G.
  destruct (commit_migration s name rl tag e) as [s' [[]|er|]]; cbn [fst] in *; [|exact G|exact G].
  destruct clr; [apply auto_delete_free_nodes_if_exists_rinv; exact G|exact G].
Qed.

(* ---------- failover ---------- *)
Lemma map_ents_ok (g : mig_store -> mig_store) l :
  (forall e, ent_ok e -> ent_ok (g e)) -> chunks_ok ent_ok l ->
  chunks_ok ent_ok (map (fun c => set_mig (set_mig c false (map g (ck_mig0 c))) true (map g (ck_mig1 c))) l).
Proof.
  intros Hg H c' e' Hc' He'. apply in_map_iff in Hc'. destruct Hc' as [c [<- Hc]].
  unfold ck_ents in He'. cbn [set_mig ck_mig0 ck_mig1] in He'. rewrite <- map_app in He'. apply in_map_iff in He'.
  destruct He' as [e [<- He]]. apply Hg. eapply H; eauto.
Qed.

Lemma takeover_first_ok failed ne : forall chunks chunks' ps,
  takeover_first chunks failed ne = Some (chunks', ps) -> chunks_ok ent_ok chunks -> chunks_ok ent_ok chunks'.
Proof.
  induction chunks as [|c rest IH]; intros chunks' ps; cbn [takeover_first].
  - intros E. inversion E; subst. auto.
  - intros E H.
    assert (Hrest : chunks_ok ent_ok rest) by (intros c' e Hc He; eapply H; [right; exact Hc|exact He]).
    assert (Hc : forall e, In e (ck_ents c) -> ent_ok e) by (intros e He; eapply H; [left; reflexivity|exact He]).
    assert (Hhead : forall c1, (forall e1, In e1 (ck_ents c1) -> exists e0, In e0 (ck_ents c) /\ (e1 = e0 \/ e1 = set_mig_epoch ne e0)) ->
                         chunks_ok ent_ok (c1 :: rest)).
    { intros c1 H1 c' e [<-|Hin] He; [|eapply Hrest; eauto]. destruct (H1 e He) as [e0 [He0 [->| ->]]]; [auto|apply ent_ok_epoch; auto]. }
    assert (Hmap : forall l e1, In e1 (map (set_mig_epoch ne) l) -> exists e0, In e0 l /\ e1 = set_mig_epoch ne e0).
    { intros l e1 Hx. apply in_map_iff in Hx. destruct Hx as [e0 [<- Hx]]. eauto. }
    destruct (N.eqb (ck_proxy0 c) failed).
    + destruct (role_eqb (ck_role c) RSecond); [discriminate|]. inversion E; subst. apply Hhead.
      intros e1 He1. unfold ck_ents in *. destruct (role_eqb (ck_role c) RFirst); cbn [set_mig set_role ck_mig0 ck_mig1] in He1;
        apply in_app_or in He1; destruct He1 as [He1|He1];
        try (destruct (Hmap _ _ He1) as [e0 [Hx ->]]; exists e0; split; [apply in_or_app; auto|auto]);
        try (exists e1; split; [apply in_or_app; auto|auto]).
    + destruct (N.eqb (ck_proxy1 c) failed).
      * destruct (role_eqb (ck_role c) RFirst); [discriminate|]. inversion E; subst. apply Hhead.
        intros e1 He1. unfold ck_ents in *. destruct (role_eqb (ck_role c) RSecond); cbn [set_mig set_role ck_mig0 ck_mig1] in He1;
          apply in_app_or in He1; destruct He1 as [He1|He1];
          try (destruct (Hmap _ _ He1) as [e0 [Hx ->]]; exists e0; split; [apply in_or_app; auto|auto]);
          try (exists e1; split; [apply in_or_app; auto|auto]).
      * destruct (takeover_first rest failed ne) as [[rest' ps']|] eqn:Et; [|discriminate]. inversion E; subst.
        intros c' e [<-|Hin] He; [apply Hc; exact He|]. eapply IH; eauto.
Qed.

Lemma takeover_master_ok cl failed ne : chunks_ok ent_ok (cl_chunks cl) -> chunks_ok ent_ok (cl_chunks (takeover_master cl failed ne)).
Proof.
  intros H. unfold takeover_master. destruct (takeover_first (cl_chunks cl) failed ne) as [[chunks ps]|] eqn:E; [|exact H].
  cbn [cl_chunks]. apply map_ents_ok.
  - intros e He. unfold reepoch_peers. destruct (_ || _); [apply ent_ok_epoch; exact He|exact He].
  - eapply takeover_first_ok; eauto.
Qed.

Lemma replace_in_chunks_ok failed r rr : forall chunks, chunks_ok ent_ok chunks -> chunks_ok ent_ok (replace_in_chunks chunks failed r rr).
Proof.
  induction chunks as [|c rest IH]; intros H; cbn [replace_in_chunks]; [exact H|].
  assert (Hrest : chunks_ok ent_ok rest) by (intros c' e Hc He; eapply H; [right; exact Hc|exact He]).
  assert (Hc : forall e, In e (ck_ents c) -> ent_ok e) by (intros e He; eapply H; [left; reflexivity|exact He]).
  destruct (N.eqb (ck_proxy0 c) failed); [|destruct (N.eqb (ck_proxy1 c) failed)].
  - intros c' e [<-|Hin] He; [apply Hc; exact He|eapply Hrest; eauto].
  - intros c' e [<-|Hin] He; [apply Hc; exact He|eapply Hrest; eauto].
  - intros c' e [<-|Hin] He; [apply Hc; exact He|eapply IH; eauto].
Qed.

Lemma replace_failed_proxy_rinv s failed choice : rinv s -> rinv (fst (replace_failed_proxy s failed choice)).
Proof.
  intros H. unfold replace_failed_proxy. destruct (alookup failed (st_proxies s)) as [fr|]; cbn [fst]; [|exact H].
  destruct (pr_cluster fr) as [name|]; cbn [fst]; [|eapply rinv_same; [| |exact H]; reflexivity].
  change (st_clusters (bump s)) with (st_clusters s).
  destruct (alookup name (st_clusters s)) as [cl|] eqn:El; cbn [fst]; [|apply rinv_bump; exact H].
  set (s2 := with_clusters (bump s) (ainsert name (takeover_master cl failed (st_epoch (bump s))) (st_clusters s))).
  assert (H2 : rinv s2).
  { eapply rinv_intro; [reflexivity|reflexivity|exact (rinv_res _ H)|].
    apply cls_ok_insert; [exact (rinv_cls _ H)|]. apply takeover_master_ok. eapply cls_ok_lookup; [exact (rinv_cls _ H)|exact El]. }
  destruct (st_ordered s2); cbn [fst]; [apply rinv_bump; exact H2|].
  set (s3 := with_failed s2 (sinsert failed (st_failed s2))).
  assert (H3 : rinv s3) by (eapply rinv_same; [| |exact H2]; reflexivity).
  destruct (generate_new_free_proxy s3 failed choice) as [r|e|]; cbn [fst]; [|exact H3|exact H3].
  change (st_clusters (bump s3)) with (st_clusters s3).
  destruct (alookup name (st_clusters s3)) as [cl2|] eqn:El2; cbn [fst]; [|apply rinv_bump; exact H3].
  eapply rinv_intro; [reflexivity|reflexivity| |].
  - apply res_ok_tag. apply res_ok_tag. exact (rinv_res _ H3).
  - apply cls_ok_insert; [exact (rinv_cls _ H3)|]. cbn [cl_chunks]. apply replace_in_chunks_ok.
    eapply cls_ok_lookup; [exact (rinv_cls _ H3)|exact El2].
Qed.

Lemma balance_masters_rinv s name : rinv s -> rinv (fst (balance_masters s name)).
Proof.
  intros H. unfold balance_masters. destruct (alookup name (st_clusters s)) as [cl|] eqn:El; cbn [fst]; [|exact H].
  eapply rinv_intro; [reflexivity|reflexivity|exact (rinv_res _ H)|].
  apply cls_ok_insert; [exact (rinv_cls _ H)|]. cbn [cl_chunks].
  eapply chunks_ok_same_ents; [|eapply cls_ok_lookup; [exact (rinv_cls _ H)|exact El]].
  rewrite map_map. apply map_ext. intros c. destruct (_ || _); reflexivity.
Qed.

Lemma change_config_rinv s name v cfg : rinv s -> rinv (fst (change_config s name v cfg)).
Proof.
  intros H. unfold change_config. destruct (alookup name (st_clusters s)) as [cl|] eqn:El; cbn [fst]; [|exact H].
  destruct (cluster_is_migrating cl); cbn [fst]; [exact H|]. destruct (negb v); cbn [fst]; [exact H|].
  eapply rinv_intro; [reflexivity|reflexivity|exact (rinv_res _ H)|].
  apply cls_ok_insert; [exact (rinv_cls _ H)|]. cbn [cl_chunks]. eapply cls_ok_lookup; [exact (rinv_cls _ H)|exact El].
Qed.

Lemma set_all_cluster_epochs_rinv s e : rinv s -> rinv (set_all_cluster_epochs s e).
Proof.
  intros H. eapply rinv_intro; [reflexivity|reflexivity|exact (rinv_res _ H)|]. apply cls_ok_epochs. exact (rinv_cls _ H).
Qed.

Lemma force_bump_rinv s e : rinv s -> rinv (fst (force_bump_all_epoch s e)).
Proof. intros H. unfold force_bump_all_epoch. destruct (N.leb e (st_epoch s)); cbn [fst]; [exact H|apply set_all_cluster_epochs_rinv; exact H]. Qed.

Lemma recover_epoch_rinv s e : rinv s -> rinv (recover_epoch s e).
Proof. intros H. apply set_all_cluster_epochs_rinv. exact H. Qed.

Lemma restore_rinv s snap : rinv s -> rinv snap -> rinv (fst (restore s snap)).
Proof. intros H Hs. unfold restore. destruct (N.ltb _ _); cbn [fst]; assumption. Qed.

Lemma auto_change_node_number_rinv s name k ch :
  store_part_inv s -> rinv s -> rinv (fst (auto_change_node_number s name k ch)).
Proof.
  intros Hp H. unfold auto_change_node_number. destruct (alookup name (st_clusters s)) as [cl|]; cbn [fst]; [|exact H].
  destruct (cluster_is_migrating cl); cbn [fst]; [exact H|].
  pose proof (auto_delete_free_nodes_rinv s name H) as H1.
  destruct (auto_delete_free_nodes s name) as [s1 r1]. cbn [fst] in H1.
  assert (Tail : rinv (fst (match alookup name (st_clusters s1) with
       | None => (s1, @Fail scale_op E_ClusterNotFound)
       | Some cl1 =>
         let existing := 4 * N.of_nat (length (cl_chunks cl1)) in
         if N.eqb existing k then (s1, Done NoOp)
         else if N.ltb existing k then
           match auto_scale_up_nodes s1 name k ch with
           | (s2, Done _) => (s2, Done ScaleOut) | (s2, Fail e) => (s2, Fail e) | (s2, Panic) => (s2, Panic) end
         else match migrate_slots_to_scale_down s1 name k with
              | (s2, Done _) => (s2, Done ScaleDown) | (s2, Fail e) => (s2, Fail e) | (s2, Panic) => (s2, Panic) end
       end))).
  { destruct (alookup name (st_clusters s1)) as [cl1|]; cbn [fst]; [|exact H1]. cbv zeta.
    destruct (N.eqb _ k); cbn [fst]; [exact H1|]. destruct (N.ltb _ k).
    - pose proof (auto_scale_up_nodes_rinv s1 name k ch H1) as G.
      destruct (auto_scale_up_nodes s1 name k ch) as [s2 [u|e|]]; cbn [fst] in *; exact G.
    - pose proof (migrate_slots_to_scale_down_rinv s1 name k H1) as G.
      destruct (migrate_slots_to_scale_down s1 name k) as [s2 [u|e|]]; cbn [fst] in *; exact G. }
  destruct r1 as [u|e|]; [exact Tail| |exact H1]. destruct e; try exact H1. exact Tail.
Qed.

Lemma auto_scale_out_node_number_rinv s name k :
  store_part_inv s -> store_balance_inv s -> rinv s -> rinv (fst (auto_scale_out_node_number s name k)).
Proof.
  intros Hp Hb H. unfold auto_scale_out_node_number. destruct (alookup name (st_clusters s)) as [cl|]; cbn [fst]; [|exact H].
  destruct (N.ltb _ k); cbn [fst]; [apply migrate_slots_rinv; assumption|exact H].
Qed.

(* ---------- all operations ---------- *)
Lemma lift_unit_fst' r : fst (lift_unit r) = fst r.
Proof. destruct r as [s [[]|e|]]; reflexivity. Qed.

Theorem step_rinv s o : store_part_inv s -> store_balance_inv s -> rinv s ->
  (forall snap, o = ORestore snap -> rinv snap) -> rinv (fst (Broker.step s o)).
Proof.
  intros Hp Hb H Hsnap. destruct o; cbn [Broker.step]; rewrite ?lift_unit_fst'.
  - apply add_proxy_rinv; exact H.
  - apply remove_proxy_rinv; exact H.
  - apply add_cluster_rinv; exact H.
  - apply remove_cluster_rinv; exact H.
  - apply auto_add_nodes_rinv; exact H.
  - apply auto_scale_up_nodes_rinv; exact H.
  - apply auto_delete_free_nodes_rinv; exact H.
  - apply migrate_slots_rinv; assumption.
  - apply migrate_slots_to_scale_down_rinv; exact H.
  - apply commit_migration_api_rinv; exact H.
  - destruct (nth_out_entry s name j); rewrite lift_unit_fst'; apply commit_migration_api_rinv; exact H.
  - pose proof (auto_change_node_number_rinv s name expected choices Hp H) as G.
    destruct (auto_change_node_number s name expected choices) as [s' [x|e|]]; exact G.
  - apply auto_scale_out_node_number_rinv; assumption.
  - pose proof (replace_failed_proxy_rinv s addr choice H) as G.
    destruct (replace_failed_proxy s addr choice) as [s' [x|e|]]; exact G.
  - apply balance_masters_rinv; exact H.
  - apply change_config_rinv; exact H.
  - pose proof (add_failure_rinv s addr reporter now H) as G. destruct (add_failure s addr reporter now). exact G.
  - pose proof (get_failures_rinv s now ttl quorum H) as G. destruct (get_failures s now ttl quorum). exact G.
  - pose proof (cleanup_failures_rinv s now ttl quorum H) as G. destruct (cleanup_failures s now ttl quorum). exact G.
  - apply force_bump_rinv; exact H.
  - apply recover_epoch_rinv; exact H.
  - apply restore_rinv; [exact H|apply Hsnap; reflexivity].
Qed.

Lemma init_rinv o : rinv (init_store o).
Proof. split; [intros a r []|intros name cl []]. Qed.

Theorem reachable_any_rinv : forall s, reachable_any s -> rinv s.
Proof.
  intros s H. induction H as [o|s o H IH Hsnap IHsnap].
  - apply init_rinv.
  - pose proof (reachable_any_reachable s H) as Hr.
    apply step_rinv; [apply reachable_keeps_partition; exact Hr|apply reachable_store_balance; exact Hr|exact IH|exact IHsnap].
Qed.
