(* Soundness of parse_repl_meta: an accepted SETREPL vector is a header followed by well-formed records. *)
From UM Require Import Base.BytesDef Base.Dec Model.Wire Proofs.WireProofsBase Proofs.WireProofsLeaf Proofs.WireProofsRepl.
From Coq Require Import ZifyBool ZifyNat ZifyN.

Lemma parse_peers_sound_n : forall k t n ps r, (length t <= k)%nat -> parse_peers t n = Some (ps, r) ->
  t = peers_toks ps ++ r /\ n = N.of_nat (length ps).
Proof.
  induction k as [|k IH]; intros t n ps r Hk H.
  - destruct t; [|cbn in Hk; lia]. cbn [parse_peers] in H. destruct (n =? 0) eqn:E; [|discriminate]. inversion H; subst. split; [reflexivity|cbn; lia].
  - destruct t as [|a [|b t]].
    + cbn [parse_peers] in H. destruct (n =? 0) eqn:E; [|discriminate]. inversion H; subst. split; [reflexivity|cbn; lia].
    + cbn [parse_peers] in H. destruct (n =? 0) eqn:E; [|discriminate]. inversion H; subst. split; [reflexivity|cbn; lia].
    + rewrite parse_peers_cons in H. destruct (n =? 0) eqn:E.
      * inversion H; subst. split; [reflexivity|cbn; lia].
      * destruct (parse_peers t (n - 1)) as [[ps' r']|] eqn:E2; [|discriminate]. inversion H; subst.
        cbn [length] in Hk. destruct (IH t (n - 1) ps' r ltac:(lia) E2) as [-> Hn]. split; [reflexivity|]. cbn [length]. lia.
Qed.

Inductive records : list tok -> list repl_rec -> list repl_rec -> Prop :=
| r_nil : records [] [] []
| r_master : forall role name addr ct peers rest ms rs,
    to_upper role = kw_MASTER -> valid_cluster_name name = true -> parse_u64 ct = Some (N.of_nat (length peers)) ->
    records rest ms rs -> records (role :: name :: addr :: ct :: peers_toks peers ++ rest) (MkRec name addr peers :: ms) rs
| r_replica : forall role name addr ct peers rest ms rs,
    to_upper role = kw_REPLICA -> valid_cluster_name name = true -> parse_u64 ct = Some (N.of_nat (length peers)) ->
    records rest ms rs -> records (role :: name :: addr :: ct :: peers_toks peers ++ rest) ms (MkRec name addr peers :: rs).

Lemma RL_sound : forall n toks ms0 rs0 ms' rs', (length toks <= n)%nat -> RL toks ms0 rs0 = Ok (ms', rs') ->
  exists ms rs, ms' = ms0 ++ ms /\ rs' = rs0 ++ rs /\ records toks ms rs.
Proof.
  induction n as [|n IH]; intros toks ms0 rs0 ms' rs' Hn H.
  - destruct toks; [|cbn in Hn; lia]. rewrite RL_nil in H. inversion H; subst. exists [], []. rewrite !app_nil_r. repeat split. constructor.
  - destruct toks as [|role r1]; [rewrite RL_nil in H; inversion H; subst; exists [], []; rewrite !app_nil_r; repeat split; constructor|].
    unfold RL in H. rewrite repl_loop_S in H.
    destruct r1 as [|name r2]; [discriminate|]. destruct (valid_cluster_name name) eqn:En; [|discriminate]. cbn [negb] in H.
    destruct r2 as [|addr r3]; [discriminate|]. destruct r3 as [|ct r4]; [discriminate|].
    destruct (parse_u64 ct) as [cnt|] eqn:Ec; [|discriminate].
    destruct (parse_peers r4 cnt) as [[peers r5]|] eqn:Ep; [|discriminate].
    pose proof (parse_peers_len _ _ _ _ Ep) as L.
    destruct (parse_peers_sound_n (length r4) r4 cnt peers r5 ltac:(lia) Ep) as [-> Hc]. subst cnt.
    cbn [length] in Hn, H. rewrite app_length in *.
    destruct (bytes_eqb (to_upper role) kw_MASTER) eqn:EM.
    + apply beqb_eq in EM. rewrite (repl_loop_fuel _ r5 _ _ (S (length r5))) in H by lia.
      destruct (IH r5 _ _ _ _ ltac:(lia) H) as (ms & rs & -> & -> & R).
      exists (MkRec name addr peers :: ms), rs. rewrite <- app_assoc. repeat split. constructor; assumption.
    + destruct (bytes_eqb (to_upper role) kw_REPLICA) eqn:ER; [|discriminate]. apply beqb_eq in ER.
      rewrite (repl_loop_fuel _ r5 _ _ (S (length r5))) in H by lia.
      destruct (IH r5 _ _ _ _ ltac:(lia) H) as (ms & rs & -> & -> & R).
      exists ms, (MkRec name addr peers :: rs). rewrite <- app_assoc. repeat split. apply r_replica; assumption.
Qed.

Theorem parse_repl_sound : forall toks m, parse_repl toks = Ok m ->
  exists et ft body, toks = et :: ft :: body /\ parse_u64 et = Some (rm_epoch m) /\ flags_from_arg ft = rm_flags m /\
                     records body (rm_masters m) (rm_replicas m).
Proof.
  intros toks m H. unfold parse_repl in H. destruct toks as [|et r1]; [discriminate|].
  destruct (parse_u64 et) as [e|] eqn:Ee; [|discriminate]. destruct r1 as [|ft r2]; [discriminate|].
  fold (RL r2 [] []) in H. destruct (RL r2 [] []) as [[ms rs]|x|] eqn:E; try discriminate. inversion H; subst.
  destruct (RL_sound (length r2) r2 [] [] ms rs ltac:(lia) E) as (ms1 & rs1 & -> & -> & R).
  exists et, ft, r2. cbn [rm_epoch rm_flags rm_masters rm_replicas app]. repeat split; assumption.
Qed.
