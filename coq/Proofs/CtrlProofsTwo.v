(* Control-plane model: the bound on rounds.  After faults stop, one complete migration-sync round followed by one
   complete meta-sync round (by any coordinators) leaves every reported pending migration committed exactly once and
   every listed proxy holding exactly the broker's current view. *)
From UM Require Import Base.BytesDef Model.Ctrl Proofs.CtrlProofsInv Proofs.CtrlProofsMain Proofs.CtrlProofsRound
  Proofs.CtrlProofsMig.
From Coq Require Import ZifyBool ZifyNat ZifyN.

Lemma meta_round_ff_broker : forall served reports k addrs n s,
  queue_free k s ->
  let s' := run served (fst (fst (meta_round served (no_faults reports) k addrs n s))) s in
  now s' = now s /\ queue s' = queue s /\ pending s' = pending s /\ commits s' = commits s.
Proof.
  intros served reports k addrs n s Hq. cbv zeta. rewrite meta_round_ff_events.
  destruct (meta_round_from_ff served reports addrs k (S n) s Hq) as [G1 [G2 [G3 [G4 _]]]]. auto.
Qed.

Section Two.
Variable served : nat -> addr -> option (N * N).
Hypothesis served_mono : served_mono_prop served.
Hypothesis served_same_epoch_same_content : served_same_prop served.

Theorem two_rounds_inv : forall reports st k1 k2 addrs1 addrs2 n1 n2,
  Inv served st -> queue_free k1 st -> queue_free k2 st ->
  let ev1 := fst (fst (mig_round served (no_faults reports) k1 addrs1 n1 st)) in
  let s1 := run served ev1 st in
  let ev2 := fst (fst (meta_round served (no_faults reports) k2 addrs2 n2 s1)) in
  let s2 := run served ev2 s1 in
  (forall a m, In (Report a m) ev1 -> In (m_id m) (pending st) ->
     count_occ N.eq_dec (commits s2) (m_id m) = 1%nat /\ ~ In (m_id m) (pending s2))
  /\ now s2 = now s1
  /\ (forall a E C kd, In a addrs2 -> served (now s2) a = Some (E, C) -> 0 < E ->
        installed s2 a kd = {| k_epoch := E; k_content := C |}).
Proof.
  intros reports st k1 k2 addrs1 addrs2 n1 n2 I Hq1 Hq2 ev1 s1 ev2 s2.
  destruct (mig_round_ff_facts served reports k1 addrs1 n1 st Hq1) as [_ Q]. fold ev1 in Q. fold s1 in Q.
  assert (Hq2' : queue_free k2 s1) by (unfold queue_free; rewrite Q; exact Hq2).
  assert (I1 : Inv served s1) by (apply Inv_run; assumption).
  destruct (meta_round_ff_broker served reports k2 addrs2 n2 s1 Hq2') as [B1 [B2 [B3 B4]]].
  fold ev2 in B1, B2, B3, B4. fold s2 in B1, B2, B3, B4.
  split; [|split; [exact B1|]].
  - intros a m Hr Hp. rewrite B3, B4. unfold s1, ev1. eapply mig_round_exactly_once; eauto.
  - intros a E C kd Hin HS HE. rewrite B1 in HS.
    destruct (converge_round_inv served served_mono served_same_epoch_same_content reports k2 addrs2 n2 s1 I1 Hq2') as [_ G].
    eapply G; eauto.
Qed.

End Two.

(* the same statements for every reachable state (any fault history `pre` from the initial state) *)
Section Reach.
Variable served : nat -> addr -> option (N * N).
Hypothesis served_mono : served_mono_prop served.
Hypothesis served_same_epoch_same_content : served_same_prop served.

Theorem converge_round : forall reports pre k addrs n,
  let st := run served pre init in
  queue_free k st ->
  let st' := run served (fst (fst (meta_round served (no_faults reports) k addrs n st))) st in
  now st' = now st /\
  forall a E C kd, In a addrs -> served (now st) a = Some (E, C) -> 0 < E ->
    installed st' a kd = {| k_epoch := E; k_content := C |}.
Proof.
  intros reports pre k addrs n st Hq. apply converge_round_inv; auto. apply Inv_run. apply Inv_init.
Qed.

Theorem two_rounds : forall reports pre k1 k2 addrs1 addrs2 n1 n2,
  let st := run served pre init in
  queue_free k1 st -> queue_free k2 st ->
  let ev1 := fst (fst (mig_round served (no_faults reports) k1 addrs1 n1 st)) in
  let s1 := run served ev1 st in
  let ev2 := fst (fst (meta_round served (no_faults reports) k2 addrs2 n2 s1)) in
  let s2 := run served ev2 s1 in
  (forall a m, In (Report a m) ev1 -> In (m_id m) (pending st) ->
     count_occ N.eq_dec (commits s2) (m_id m) = 1%nat /\ ~ In (m_id m) (pending s2))
  /\ now s2 = now s1
  /\ (forall a E C kd, In a addrs2 -> served (now s2) a = Some (E, C) -> 0 < E ->
        installed s2 a kd = {| k_epoch := E; k_content := C |}).
Proof.
  intros reports pre k1 k2 addrs1 addrs2 n1 n2 st Hq1 Hq2. apply two_rounds_inv; auto. apply Inv_run. apply Inv_init.
Qed.

End Reach.
