(* C14 on broker views, part 1 (Topo side only): the part of wf_view the C14 theorems actually use.
   wf_view (Proofs/TopoProofs.v) = NoDup claims /\ pairwise /\ partner.  The NoDup conjunct is not needed by any C14 conclusion
   (the conclusions speak about ADDRESSES, and equal claims carry equal addresses), and it is false for some views the broker
   really serves: after a scale-down the drained masters keep an EMPTY stable slot range ([], None); when both masters of such a
   chunk sit on one proxy (after a failover) that proxy lists the claim (proxy, [], None) twice.  So the broker composition goes
   through wf_view_core; wf_view = wf_view_core + NoDup. *)
From UM Require Import Base.BytesDef Base.Dec Base.RespT Model.Slot Model.Topo Proofs.SlotProofs Proofs.SlotProofsRoute
  Proofs.TopoProofs.
From Coq Require Import ZifyBool ZifyNat ZifyN.

Definition wf_view_core (cl : list (addr * tagged_range)) : Prop :=
  (forall c1 c2 s, In c1 cl -> In c2 cl -> c1 <> c2 ->
     in_ranges (sr_ranges (snd c1)) s -> in_ranges (sr_ranges (snd c2)) s ->
     sr_ranges (snd c1) = sr_ranges (snd c2) /\ complementary (sr_tag (snd c1)) (sr_tag (snd c2))) /\
  (forall c1, In c1 cl -> sr_tag (snd c1) <> TNone ->
     exists c2, In c2 cl /\ sr_ranges (snd c2) = sr_ranges (snd c1) /\ complementary (sr_tag (snd c1)) (sr_tag (snd c2))).

Lemma wf_view_core_of : forall cl, wf_view cl -> wf_view_core cl.
Proof. intros cl (_ & H1 & H2). split; assumption. Qed.

Lemma wf_view_of_core : forall cl, NoDup cl -> wf_view_core cl -> wf_view cl.
Proof. intros cl Hnd (H1 & H2). split; [|split]; assumption. Qed.

Lemma shown_unique_claim_core : forall cl st c1 c2 s, wf_view_core cl -> In c1 cl -> In c2 cl ->
  shown st c1 s -> shown st c2 s -> c1 = c2.
Proof.
  intros cl st [a1 sr1] [a2 sr2] s (Hpair & _) H1 H2 [Hs1 Hc1] [Hs2 Hc2]. cbn [snd] in *.
  assert (Hdec : {(a1, sr1) = (a2, sr2)} + {(a1, sr1) <> (a2, sr2)}).
  { repeat decide equality; apply N.eq_dec. }
  destruct Hdec as [E|E]; auto. exfalso.
  destruct (Hpair _ _ s H1 H2 E Hc1 Hc2) as [Hr Hcomp]. cbn [snd] in *.
  rewrite (shown_pair st sr1 sr2 Hr Hcomp) in Hs1. rewrite Hs2 in Hs1. discriminate.
Qed.

Lemma unique_adv_core : forall self m st v s, wf_view_core (claims self m) ->
  (exists c, In c (claims self m) /\ in_ranges (sr_ranges (snd c)) s) ->
  exists a, adv_nodes (gen_cluster_nodes self m st v) a s /\
            forall a', adv_nodes (gen_cluster_nodes self m st v) a' s -> a' = a.
Proof.
  intros self m st v s Hwf ([a sr] & Hin & Hcov). pose proof Hwf as (Hpair & Hpartner). cbn [snd] in Hcov.
  assert (Hex : exists c, In c (claims self m) /\ shown st c s).
  { destruct (should_ignore sr st) eqn:Ei.
    - assert (Ht : sr_tag sr <> TNone).
      { intros Ht. unfold should_ignore in Ei. rewrite Ht in Ei. discriminate. }
      destruct (Hpartner (a, sr) Hin Ht) as ([a2 sr2] & Hin2 & Hr2 & Hc2). cbn [snd] in *.
      exists (a2, sr2). split; auto. split; cbn [snd].
      + rewrite (shown_pair st sr sr2) in Ei; auto. destruct (should_ignore sr2 st); auto; discriminate.
      + rewrite Hr2. auto.
    - exists (a, sr). split; auto. split; auto. }
  destruct Hex as ([a0 sr0] & Hin0 & Hsh0).
  exists a0. split.
  - apply adv_nodes_claims. exists sr0. split; auto.
  - intros a' Ha'. apply adv_nodes_claims in Ha'. destruct Ha' as (sr' & Hin' & Hsh').
    pose proof (shown_unique_claim_core _ st _ _ s Hwf Hin' Hin0 Hsh' Hsh0) as E. inversion E; auto.
Qed.

Lemma migrating_adv_core : forall self m st v a1 sr1 a2 sr2 s, wf_view_core (claims self m) ->
  In (a1, sr1) (claims self m) -> sr_tag sr1 = TMigrating ->
  In (a2, sr2) (claims self m) -> sr_tag sr2 = TImporting ->
  sr_ranges sr1 = sr_ranges sr2 -> in_ranges (sr_ranges sr1) s ->
  forall a, adv_nodes (gen_cluster_nodes self m st v) a s <->
            a = if is_precheck (lookup st (sr_ranges sr1)) then a1 else a2.
Proof.
  intros self m st v a1 sr1 a2 sr2 s Hwf H1 T1 H2 T2 Hr Hc a.
  assert (Hc2 : in_ranges (sr_ranges sr2) s) by (rewrite <- Hr; auto).
  assert (S1 : should_ignore sr1 st = negb (is_precheck (lookup st (sr_ranges sr1)))).
  { unfold should_ignore. rewrite T1. reflexivity. }
  assert (S2 : should_ignore sr2 st = is_precheck (lookup st (sr_ranges sr1))).
  { unfold should_ignore. rewrite T2, Hr. reflexivity. }
  rewrite adv_nodes_claims. split.
  - intros (sr & Hin & Hs).
    destruct (is_precheck (lookup st (sr_ranges sr1))) eqn:EP.
    + assert (E : (a, sr) = (a1, sr1)).
      { apply (shown_unique_claim_core (claims self m) st _ _ s Hwf Hin H1 Hs). split; cbn [snd]; auto. }
      inversion E; auto.
    + assert (E : (a, sr) = (a2, sr2)).
      { apply (shown_unique_claim_core (claims self m) st _ _ s Hwf Hin H2 Hs). split; cbn [snd]; auto. }
      inversion E; auto.
  - intros ->. destruct (is_precheck (lookup st (sr_ranges sr1))) eqn:EP.
    + exists sr1. split; auto. split; cbn [snd]; auto.
    + exists sr2. split; auto. split; cbn [snd]; auto.
Qed.

Lemma migrating_cases_core : forall self m st v a1 sr1 a2 sr2 s, wf_view_core (claims self m) ->
  In (a1, sr1) (claims self m) -> sr_tag sr1 = TMigrating ->
  In (a2, sr2) (claims self m) -> sr_tag sr2 = TImporting ->
  sr_ranges sr1 = sr_ranges sr2 -> in_ranges (sr_ranges sr1) s ->
  (lookup st (sr_ranges sr1) = Some PreCheck -> forall a, adv_nodes (gen_cluster_nodes self m st v) a s <-> a = a1) /\
  (lookup st (sr_ranges sr1) <> Some PreCheck -> forall a, adv_nodes (gen_cluster_nodes self m st v) a s <-> a = a2) /\
  (lookup st (sr_ranges sr1) = None -> forall a, adv_nodes (gen_cluster_nodes self m st v) a s <-> a = a2).
Proof.
  intros self m st v a1 sr1 a2 sr2 s Hwf H1 T1 H2 T2 Hr Hc.
  pose proof (migrating_adv_core self m st v a1 sr1 a2 sr2 s Hwf H1 T1 H2 T2 Hr Hc) as H.
  split; [|split].
  - intros E a. rewrite H, E. reflexivity.
  - intros E a. rewrite H. destruct (lookup st (sr_ranges sr1)) as [[]|]; try reflexivity. congruence.
  - intros E a. rewrite H, E. reflexivity.
Qed.
