(* Shared definitions and generic lemmas for the proof that the slot-migration planners of broker/migrate.rs
   (migrate_slots, migrate_slots_to_scale_down) preserve the slot-partition invariant.
   The planners run in two phases:
     remove phase  (remove_slots_from_src / remove_slots_from_src_to_scale_down): ranges leave the stable lists of the
                   sources and are collected as a list of pending migrations  `migs : list (rangelist * mig_meta)`;
     assign phase  (assign_dst_slots, compact_slots): each pending migration becomes an out entry and an in entry.
   `remove_ok` is what the remove phase establishes, `mig_ready` the invariant of the assign loop. *)
From UM Require Import Base.BytesDef Model.Ranges Model.Broker Proofs.BrokerBase Proofs.BrokerPartRanges Proofs.BrokerPartDefs.
From Coq Require Import ZifyBool ZifyNat ZifyN.

(* ---------- generic list facts ---------- *)
Lemma update_nth_length {A} (f : A -> A) : forall l n, length (update_nth n f l) = length l.
Proof.
  induction l as [|x l IH]; intros n; destruct n; cbn [update_nth length]; auto.
Qed.

Lemma nth_error_update_nth_eq {A} (f : A -> A) : forall l n,
  nth_error (update_nth n f l) n = option_map f (nth_error l n).
Proof.
  induction l as [|x l IH]; intros n; destruct n; cbn [update_nth nth_error option_map]; auto.
Qed.

Lemma nth_error_update_nth_neq {A} (f : A -> A) : forall l n m, n <> m ->
  nth_error (update_nth n f l) m = nth_error l m.
Proof.
  induction l as [|x l IH]; intros n m Hne; destruct n, m; cbn [update_nth nth_error]; auto; congruence.
Qed.

Lemma split_last_spec {A} (l front : list A) r : split_last l = Some (front, r) -> l = front ++ [r].
Proof.
  unfold split_last. intros H. destruct (rev l) as [|x t] eqn:E; [discriminate|].
  inversion H; subst. rewrite <- (rev_involutive l), E. reflexivity.
Qed.

Lemma split_last_none {A} (l : list A) : split_last l = None -> l = [].
Proof.
  unfold split_last. intros H. destruct (rev l) as [|x t] eqn:E; [|discriminate].
  rewrite <- (rev_involutive l), E. reflexivity.
Qed.

(* ---------- counting ---------- *)
Lemma cnt_single s r : cnt s [r] = ind s r.
Proof. rewrite cnt_cons, cnt_nil. lia. Qed.

Lemma cnt_snoc s l r : cnt s (l ++ [r]) = (cnt s l + ind s r)%nat.
Proof. rewrite cnt_app, cnt_single. reflexivity. Qed.

Lemma cnt_rev s l : cnt s (rev l) = cnt s l.
Proof. apply cnt_perm. apply Permutation.Permutation_sym, Permutation.Permutation_rev. Qed.

Lemma ind_wf_self r : wf_range r -> ind (fst r) r = 1%nat.
Proof.
  unfold wf_range, ind. intros H. assert (E : in_range (fst r) r = true) by (apply in_range_spec; lia).
  rewrite E. reflexivity.
Qed.

(* a list none of whose ranges contains any slot is empty, provided its ranges are well formed *)
Lemma cnt_zero_nil l : Forall wf_range l -> (forall s, cnt s l = 0%nat) -> l = [].
Proof.
  intros Hw Hc. destruct l as [|r l]; [reflexivity|]. exfalso.
  inversion Hw as [|? ? Hr _]; subst. specialize (Hc (fst r)). rewrite cnt_cons, (ind_wf_self r Hr) in Hc. lia.
Qed.

(* ---------- what the remove phase hands to the assign phase ---------- *)
Definition mig_ranges (migs : list (rangelist * mig_meta)) : rangelist := flat_map fst migs.

Definition chunk_stable (c : chunk) : rangelist := opt_ranges (ck_stable0 c) ++ opt_ranges (ck_stable1 c).
Definition stable_ranges (chunks : list chunk) : rangelist := flat_map chunk_stable chunks.

Definition no_migs (chunks : list chunk) : Prop := forall c, In c chunks -> ck_mig0 c = [] /\ ck_mig1 c = [].

Definition slot_ind (s : N) : nat := if N.ltb s SLOT_NUM then 1%nat else 0%nat.

Record remove_ok (chunks : list chunk) (migs : list (rangelist * mig_meta)) : Prop := mkRemoveOk {
  ro_size : 2 * N.of_nat (length chunks) <= SLOT_NUM;
  ro_no_migs : no_migs chunks;
  ro_wf_stable : Forall wf_range (stable_ranges chunks);
  ro_wf_migs : Forall wf_range (mig_ranges migs);
  ro_nonempty : forall rl m, In (rl, m) migs -> rl <> [];
  ro_cover : forall s, (cnt s (stable_ranges chunks) + cnt s (mig_ranges migs))%nat = slot_ind s
}.

Record mig_ready (chunks : list chunk) (migs : list (rangelist * mig_meta)) : Prop := mkMigReady {
  mr_size : 2 * N.of_nat (length chunks) <= SLOT_NUM;
  mr_wf : Forall wf_range (flat_map chunk_all_ranges chunks);
  mr_wf_migs : Forall wf_range (mig_ranges migs);
  mr_nonempty : forall pos e, In e (entries_at chunks pos) -> ms_ranges e <> [];
  mr_nonempty_migs : forall rl m, In (rl, m) migs -> rl <> [];
  mr_cover : forall s, (cnt s (owned chunks) + cnt s (mig_ranges migs))%nat = slot_ind s;
  mr_in_out : forall s, cnt s (all_in chunks) = cnt s (all_out chunks);
  mr_twin : forall pos e, In e (entries_at chunks pos) ->
            own_pos e = pos /\ (fst (twin_pos e) < length chunks)%nat /\ In (twin e) (entries_at chunks (twin_pos e))
}.

(* ---------- chunk lists without migration entries ---------- *)
Lemma not_migrating_no_migs cl : cluster_is_migrating cl = false -> no_migs (cl_chunks cl).
Proof.
  unfold cluster_is_migrating, no_migs. intros H c Hc.
  assert (Hm : chunk_is_migrating c = false).
  { destruct (chunk_is_migrating c) eqn:E; [|reflexivity].
    assert (existsb chunk_is_migrating (cl_chunks cl) = true) by (apply existsb_exists; eauto). congruence. }
  unfold chunk_is_migrating in Hm. destruct (ck_mig0 c), (ck_mig1 c); cbn in Hm; try discriminate. auto.
Qed.

Lemma no_migs_cons c l : no_migs (c :: l) <-> (ck_mig0 c = [] /\ ck_mig1 c = []) /\ no_migs l.
Proof.
  unfold no_migs. split.
  - intros H. split; [apply H; left; reflexivity|]. intros c' Hc'. apply H. right. assumption.
  - intros [H1 H2] c' [<-|Hc']; auto.
Qed.

Lemma no_migs_app a b : no_migs (a ++ b) <-> no_migs a /\ no_migs b.
Proof.
  unfold no_migs. split.
  - intros H. split; intros c Hc; apply H; apply in_or_app; auto.
  - intros [H1 H2] c Hc. apply in_app_or in Hc. destruct Hc; auto.
Qed.

Lemma no_migs_entries chunks pos : no_migs chunks -> entries_at chunks pos = [].
Proof.
  unfold entries_at. intros H. destruct (nth_error chunks (fst pos)) as [c|] eqn:E; [|reflexivity].
  apply nth_error_In in E. destruct (H c E) as [H0 H1]. unfold ck_mig. destruct (snd pos); assumption.
Qed.

Lemma no_migs_chunk_owned c : ck_mig0 c = [] -> ck_mig1 c = [] -> chunk_owned c = chunk_stable c.
Proof.
  intros H0 H1. unfold chunk_owned, chunk_stable, out_ranges. rewrite H0, H1. cbn [filter flat_map].
  rewrite !app_nil_r. reflexivity.
Qed.

Lemma no_migs_chunk_all c : ck_mig0 c = [] -> ck_mig1 c = [] -> chunk_all_ranges c = chunk_stable c.
Proof.
  intros H0 H1. unfold chunk_all_ranges, chunk_stable. rewrite H0, H1. cbn [flat_map].
  rewrite !app_nil_r. reflexivity.
Qed.

Lemma no_migs_owned chunks : no_migs chunks -> owned chunks = stable_ranges chunks.
Proof.
  unfold owned, stable_ranges. induction chunks as [|c l IH]; [reflexivity|].
  intros H. apply no_migs_cons in H. destruct H as [[H0 H1] Hl]. cbn [flat_map].
  rewrite (no_migs_chunk_owned c H0 H1), (IH Hl). reflexivity.
Qed.

Lemma no_migs_all_ranges chunks : no_migs chunks -> flat_map chunk_all_ranges chunks = stable_ranges chunks.
Proof.
  unfold stable_ranges. induction chunks as [|c l IH]; [reflexivity|].
  intros H. apply no_migs_cons in H. destruct H as [[H0 H1] Hl]. cbn [flat_map].
  rewrite (no_migs_chunk_all c H0 H1), (IH Hl). reflexivity.
Qed.

Lemma no_migs_all_out chunks : no_migs chunks -> all_out chunks = [].
Proof.
  unfold all_out. induction chunks as [|c l IH]; [reflexivity|].
  intros H. apply no_migs_cons in H. destruct H as [[H0 H1] Hl]. cbn [flat_map].
  rewrite (IH Hl). unfold chunk_out, out_ranges. rewrite H0, H1. reflexivity.
Qed.

Lemma no_migs_all_in chunks : no_migs chunks -> all_in chunks = [].
Proof.
  unfold all_in. induction chunks as [|c l IH]; [reflexivity|].
  intros H. apply no_migs_cons in H. destruct H as [[H0 H1] Hl]. cbn [flat_map].
  rewrite (IH Hl). unfold chunk_in, in_ranges. rewrite H0, H1. reflexivity.
Qed.

(* the partition invariant of a cluster without running migration, in terms of its stable lists only *)
Lemma part_inv_stable chunks : part_inv chunks -> no_migs chunks ->
  Forall wf_range (stable_ranges chunks) /\ (forall s, cnt s (stable_ranges chunks) = slot_ind s).
Proof.
  intros [_ Hw _ Hc _ _] Hn. rewrite (no_migs_all_ranges chunks Hn) in Hw. split; [exact Hw|].
  intros s. rewrite <- (no_migs_owned chunks Hn). apply Hc.
Qed.

Lemma remove_ok_ready chunks migs : remove_ok chunks migs -> mig_ready chunks migs.
Proof.
  intros [Hsz Hn Hws Hwm Hne Hc]. constructor.
  - exact Hsz.
  - rewrite (no_migs_all_ranges chunks Hn). exact Hws.
  - exact Hwm.
  - intros pos e He. rewrite (no_migs_entries chunks pos Hn) in He. destruct He.
  - exact Hne.
  - intros s. rewrite (no_migs_owned chunks Hn). apply Hc.
  - intros s. rewrite (no_migs_all_in chunks Hn), (no_migs_all_out chunks Hn). reflexivity.
  - intros pos e He. rewrite (no_migs_entries chunks pos Hn) in He. destruct He.
Qed.

Lemma mig_ready_nil chunks : mig_ready chunks [] -> part_inv chunks.
Proof.
  intros [Hsz Hw _ Hne _ Hc Hb Ht]. constructor; auto.
  intros s. specialize (Hc s). unfold mig_ranges in Hc. cbn [flat_map] in Hc. rewrite cnt_nil in Hc.
  unfold slot_ind in Hc. lia.
Qed.

(* set_stable does not touch the migration lists *)
Lemma set_stable_mig0 c p v : ck_mig0 (set_stable c p v) = ck_mig0 c.
Proof. destruct p; reflexivity. Qed.
Lemma set_stable_mig1 c p v : ck_mig1 (set_stable c p v) = ck_mig1 c.
Proof. destruct p; reflexivity. Qed.
Lemma set_stable_same c p v : ck_stable (set_stable c p v) p = v.
Proof. destruct p; reflexivity. Qed.
Lemma set_stable_other c p v : ck_stable (set_stable c p v) (negb p) = ck_stable c (negb p).
Proof. destruct p; reflexivity. Qed.

(* ---------- number of slots of a range list as a total function ---------- *)
Definition slots_total (l : rangelist) : N := fold_right (fun r acc => (snd r - fst r + 1) + acc) 0 l.

Lemma slots_total_cons r l : slots_total (r :: l) = (snd r - fst r + 1) + slots_total l.
Proof. reflexivity. Qed.

Lemma slots_total_app a b : slots_total (a ++ b) = slots_total a + slots_total b.
Proof.
  induction a as [|r a IH]; [cbn [app]; unfold slots_total at 2; cbn [fold_right]; lia|].
  cbn [app]. rewrite !slots_total_cons, IH. lia.
Qed.

Lemma range_len_wf r : wf_range r -> range_len r = Some (snd r - fst r + 1).
Proof. unfold wf_range, range_len. intros H. destruct (N.ltb (snd r) (fst r)) eqn:E; [lia|reflexivity]. Qed.

Lemma range_len_some r n : range_len r = Some n -> wf_range r /\ n = snd r - fst r + 1.
Proof.
  unfold wf_range, range_len. destruct (N.ltb (snd r) (fst r)) eqn:E; [discriminate|].
  intros H. inversion H. split; lia.
Qed.

Lemma slots_num_total l : Forall wf_range l -> slots_num l = Some (slots_total l).
Proof.
  induction 1 as [|r l Hr Hl IH]; [reflexivity|].
  cbn [slots_num]. rewrite (range_len_wf r Hr), IH, slots_total_cons. reflexivity.
Qed.

Lemma slots_num_some_wf l n : slots_num l = Some n -> Forall wf_range l /\ n = slots_total l.
Proof.
  revert n. induction l as [|r l IH]; intros n H.
  - inversion H. split; [constructor|reflexivity].
  - cbn [slots_num] in H. destruct (range_len r) as [a|] eqn:Er; [|discriminate].
    destruct (slots_num l) as [b|] eqn:El; [|discriminate]. inversion H; subst.
    destruct (range_len_some r a Er) as [Hr Ha]. destruct (IH b eq_refl) as [Hl Hb].
    split; [constructor; assumption|]. rewrite slots_total_cons. lia.
Qed.

Lemma slots_total_zero_nil l : slots_total l = 0 -> l = [].
Proof. destruct l as [|r l]; [reflexivity|]. rewrite slots_total_cons. lia. Qed.
