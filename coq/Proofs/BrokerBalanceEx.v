(* A concrete reachable history that exercises the balance theorems: create a cluster, add a chunk, scale out, commit the
   migrations, scale in again, commit.  The stores along the way are reachable (checked step by step by computation), so
   the hypotheses of the theorems of BrokerBalance.v are satisfiable by non-trivial values. *)
From UM Require Import Base.BytesDef Model.Ranges Model.Broker Proofs.BrokerBase Proofs.BrokerPartRanges Proofs.BrokerPartDefs
  Proofs.BrokerPartMigrateBase Proofs.BrokerPartMain Proofs.BrokerScale Proofs.BrokerBalanceDefs Proofs.BrokerBalance.
From Coq Require Import ZifyBool ZifyNat ZifyN.

Definition not_restore (o : op) : bool := match o with ORestore _ => false | _ => true end.
Definition not_panic (r : res) : bool := match r with RPanic => false | _ => true end.

(* every step of the script is a non-panicking non-restore operation *)
Fixpoint run_ok (s : store) (ops : list op) : bool :=
  match ops with
  | [] => true
  | o :: rest => not_restore o && not_panic (snd (step s o)) && run_ok (fst (step s o)) rest
  end.

Lemma reachable_run : forall ops s, reachable s -> run_ok s ops = true -> reachable (run s ops).
Proof.
  induction ops as [|o rest IH]; intros s Hr Hok; [exact Hr|].
  cbn [run_ok] in Hok. apply andb_true_iff in Hok. destruct Hok as [Hok Hrest].
  apply andb_true_iff in Hok. destruct Hok as [Hnr Hnp].
  change (run s (o :: rest)) with (run (fst (step s o)) rest). apply IH; [|exact Hrest].
  apply reach_step; [exact Hr| |].
  - intros snap ->. discriminate.
  - intros E. rewrite E in Hnp. discriminate.
Qed.

Definition ex_setup : list op :=
  [OAddProxy 1 (Some 1) None; OAddProxy 2 (Some 2) None; OAddProxy 3 (Some 1) None; OAddProxy 4 (Some 2) None;
   OAddCluster 7 4 0 [(1, 2)]; OAutoAddNodes 7 4 [(3, 4)]].
Definition ex_scale_out : list op := [OMigrateSlots 7; OCommitNth 7 0 false; OCommitNth 7 0 false].
Definition ex_scale_in : list op := [OScaleDown 7 4; OCommitNth 7 0 true; OCommitNth 7 0 true].

Definition ex_s1 : store := run (init_store false) ex_setup.                 (* 1 chunk with slots + 1 free chunk *)
Definition ex_s2 : store := run ex_s1 [OMigrateSlots 7].                     (* scale-out planned: 2 migrations *)
Definition ex_s3 : store := run ex_s1 ex_scale_out.                          (* both committed *)
Definition ex_s4 : store := run ex_s3 [OScaleDown 7 4].                      (* scale-in planned: 2 migrations *)
Definition ex_s5 : store := run ex_s3 ex_scale_in.                           (* committed, free chunk released *)

Example ex_s1_reachable : reachable ex_s1.
Proof. apply reachable_run; [apply reach_init|vm_compute; reflexivity]. Qed.
Example ex_s2_reachable : reachable ex_s2.
Proof. apply reachable_run; [exact ex_s1_reachable|vm_compute; reflexivity]. Qed.
Example ex_s3_reachable : reachable ex_s3.
Proof. apply reachable_run; [exact ex_s1_reachable|vm_compute; reflexivity]. Qed.
Example ex_s4_reachable : reachable ex_s4.
Proof. apply reachable_run; [exact ex_s3_reachable|vm_compute; reflexivity]. Qed.
Example ex_s5_reachable : reachable ex_s5.
Proof. apply reachable_run; [exact ex_s3_reachable|vm_compute; reflexivity]. Qed.

(* sizes (stable, incoming) of all masters of cluster 7 *)
Definition ex_sizes (s : store) : list (N * N) :=
  match alookup 7 (st_clusters s) with
  | Some cl => flat_map (fun c => [(stable_num c false, incoming_num c false); (stable_num c true, incoming_num c true)]) (cl_chunks cl)
  | None => []
  end.
Definition ex_pending (s : store) : nat := match alookup 7 (st_clusters s) with Some cl => pending cl | None => 0%nat end.

(* the planners succeed on reachable stores and the numbers are the fair shares *)
Example ex_history_numbers :
  ex_sizes ex_s1 = [(8192, 0); (8192, 0); (0, 0); (0, 0)] /\ ex_pending ex_s1 = 0%nat /\
  ex_sizes ex_s2 = [(4096, 0); (4096, 0); (0, 4096); (0, 4096)] /\ ex_pending ex_s2 = 2%nat /\
  ex_sizes ex_s3 = [(4096, 0); (4096, 0); (4096, 0); (4096, 0)] /\ ex_pending ex_s3 = 0%nat /\
  ex_sizes ex_s4 = [(4096, 4096); (4096, 4096); (0, 0); (0, 0)] /\ ex_pending ex_s4 = 2%nat /\
  ex_sizes ex_s5 = [(8192, 0); (8192, 0)] /\ ex_pending ex_s5 = 0%nat.
Proof. vm_compute. repeat split; reflexivity. Qed.

(* the general theorems apply to these stores *)
Example ex_s2_balanced : forall name cl, In (name, cl) (st_clusters ex_s2) -> balance_inv (cl_chunks cl).
Proof. apply reachable_balance. exact ex_s2_reachable. Qed.

Example ex_s3_planners : snd (migrate_slots_to_scale_down ex_s3 7 4) <> Panic /\ snd (migrate_slots ex_s1 7) <> Panic.
Proof.
  split.
  - apply (reachable_planners_no_panic ex_s3 7 4 ex_s3_reachable).
  - apply (reachable_planners_no_panic ex_s1 7 4 ex_s1_reachable).
Qed.

Example ex_s3_quiescent : exists cl, alookup 7 (st_clusters ex_s3) = Some cl /\
  exists k, (0 < k)%nat /\ (k <= length (cl_chunks cl))%nat /\
    (forall i c p, nth_error (cl_chunks cl) i = Some c -> (i < k)%nat ->
        exists st, ck_stable c p = Some st /\ slots_total st = share (2 * N.of_nat k) (mindex i p)) /\
    (forall i c, nth_error (cl_chunks cl) i = Some c -> (k <= i)%nat -> ck_stable0 c = None /\ ck_stable1 c = None) /\
    slots_total (stable_ranges (cl_chunks cl)) = SLOT_NUM.
Proof.
  destruct (alookup 7 (st_clusters ex_s3)) as [cl|] eqn:E; [|vm_compute in E; discriminate].
  exists cl. split; [reflexivity|].
  pose proof (alookup_In _ _ _ E) as Hin.
  apply quiescent_balanced.
  - apply (reachable_keeps_partition ex_s3 ex_s3_reachable _ _ Hin).
  - apply (reachable_balance ex_s3 ex_s3_reachable _ _ Hin).
  - assert (Hm : cluster_is_migrating cl = false).
    { assert (Hq : match alookup 7 (st_clusters ex_s3) with Some c => cluster_is_migrating c | None => true end = false)
        by (vm_compute; reflexivity).
      rewrite E in Hq. exact Hq. }
    apply not_migrating_no_migs. exact Hm.
Qed.
