(* Sequential part of C05: the epoch rule of set_meta / update_replicators for one caller at a time and for every
   message history. *)
From UM Require Import Base.BytesDef Model.Epoch.
From Coq Require Import ZifyBool ZifyNat ZifyN.

(* ---------- vocabulary of the statements ---------- *)

(* invariant of every state reached by sequential deliveries: the optimistic epoch equals the installed one *)
Definition seq_inv (s : pstate) : Prop := rp_updating s = rp_epoch s.

Definition msg_epoch (m : msg) : N := match m with MCluster c => cm_epoch c | MRepl r => rm_epoch r end.
Definition msg_force (m : msg) : bool :=
  match m with MCluster c => flag_force (cm_flags c) | MRepl r => flag_force (rm_flags r) end.
Definition msg_host_ok (h : bytes) (m : msg) : bool :=
  match m with MCluster c => hosts_ok h (cm_locals c) | MRepl r => repl_hosts_ok h r end.
(* the epoch installed for the kind of message m *)
Definition kind_epoch (m : msg) (s : pstate) : N := match m with MCluster _ => cl_epoch s | MRepl _ => rp_epoch s end.
Definition accepts (h : bytes) (s : pstate) (m : msg) : Prop := snd (apply_msg h s m) = OK.

(* s' carries (epoch, content) of m for m's kind and the other kind's part of s untouched *)
Definition installed_as (s : pstate) (m : msg) (s' : pstate) : Prop :=
  match m with
  | MCluster c =>
      cl_epoch s' = cm_epoch c /\ cl_meta s' = Some (cm_content c, cm_route c) /\
      rp_updating s' = rp_updating s /\ rp_epoch s' = rp_epoch s /\ rp_roles s' = rp_roles s
  | MRepl r =>
      rp_epoch s' = rm_epoch r /\ rp_updating s' = rm_epoch r /\
      rp_roles s' = new_roles (rp_roles s) r /\ (rp_wf r = true -> rp_roles s' = roles_of r) /\
      cl_epoch s' = cl_epoch s /\ cl_meta s' = cl_meta s
  end.

Fixpoint trace (h : bytes) (s : pstate) (ms : list msg) : list (pstate * msg * pstate * reply) :=
  match ms with
  | [] => []
  | m :: r => let (s1, rep) := apply_msg h s m in (s, m, s1, rep) :: trace h s1 r
  end.

Definition forced_ok_cluster (x : pstate * msg * pstate * reply) : Prop :=
  match x with (_, m, _, rep) => exists c, m = MCluster c /\ flag_force (cm_flags c) = true /\ rep = OK end.
Definition forced_ok_repl (x : pstate * msg * pstate * reply) : Prop :=
  match x with (_, m, _, rep) => exists r, m = MRepl r /\ flag_force (rm_flags r) = true /\ rep = OK end.

(* one delivery: an installed epoch goes down only at an accepted forced message of that kind *)
Definition step_ok (x : pstate * msg * pstate * reply) : Prop :=
  match x with (s, _, s1, _) =>
    seq_inv s /\ seq_inv s1 /\
    (cl_epoch s1 < cl_epoch s -> forced_ok_cluster x) /\
    (rp_epoch s1 < rp_epoch s -> forced_ok_repl x)
  end.

(* ---------- equality tests ---------- *)

Lemma ep_bytes_eqb_eq : forall a b, bytes_eqb a b = true <-> a = b.
Proof.
  induction a as [|x a IH]; intros [|y b]; cbn [bytes_eqb]; split; intros H; try discriminate; auto.
  - apply andb_true_iff in H. destruct H as [H1 H2]. apply N.eqb_eq in H1. apply IH in H2. congruence.
  - inversion H; subst. rewrite N.eqb_refl. cbn. apply IH. reflexivity.
Qed.

Lemma rkey_eqb_eq : forall a b, rkey_eqb a b = true <-> a = b.
Proof.
  intros [a1 a2] [b1 b2]. unfold rkey_eqb. cbn [fst snd]. rewrite andb_true_iff, !ep_bytes_eqb_eq.
  split; [intros [-> ->]; reflexivity | intros H; inversion H; auto].
Qed.

Lemma rkey_eqb_refl : forall a, rkey_eqb a a = true.
Proof. intros a. apply rkey_eqb_eq. reflexivity. Qed.

(* ---------- the reuse rule only matters for ill-formed messages ---------- *)

Lemma last_meta_some_in : forall k l p, last_meta k l = Some p -> exists n, In n l /\ node_key n = k.
Proof.
  induction l as [|n l IH]; cbn [last_meta]; intros p H; [discriminate|].
  destruct (last_meta k l) as [q|] eqn:E.
  - destruct (IH q eq_refl) as (n' & Hin & Hk). exists n'. split; [right; exact Hin|exact Hk].
  - destruct (rkey_eqb (node_key n) k) eqn:Ek; [|discriminate].
    apply rkey_eqb_eq in Ek. exists n. split; [left; reflexivity|exact Ek].
Qed.

Lemma last_meta_none_notin : forall k l, (forall n, In n l -> node_key n <> k) -> last_meta k l = None.
Proof.
  induction l as [|n l IH]; cbn [last_meta]; intros H; [reflexivity|].
  rewrite IH by (intros n' Hn'; apply H; right; exact Hn').
  destruct (rkey_eqb (node_key n) k) eqn:Ek; [|reflexivity].
  apply rkey_eqb_eq in Ek. exfalso. apply (H n); [left; reflexivity|exact Ek].
Qed.

Lemma wf_master_not_replica : forall m n, rp_wf m = true -> In n (rm_masters m) ->
  forall r, In r (rm_replicas m) -> node_key r <> node_key n.
Proof.
  intros m n Hwf Hin r Hr Heq. unfold rp_wf in Hwf. rewrite forallb_forall in Hwf.
  specialize (Hwf n Hin). apply negb_true_iff in Hwf.
  assert (X : existsb (fun r0 => rkey_eqb (node_key n) (node_key r0)) (rm_replicas m) = true).
  { apply existsb_exists. exists r. split; [exact Hr|]. apply rkey_eqb_eq. symmetry. exact Heq. }
  congruence.
Qed.

Lemma decide_wf : forall old m k, rp_wf m = true -> decide old m k = decide [] m k.
Proof.
  intros old m k Hwf. unfold decide at 1. destruct (reused old m k) as [r|] eqn:Er.
  - unfold reused in Er. destruct (lookup_role k old) as [[[|] p]|] eqn:El; try discriminate.
    + destruct (opt_N_eqb (last_meta k (rm_masters m)) p) eqn:Eo; [|discriminate].
      inversion Er; subst r. unfold opt_N_eqb in Eo.
      destruct (last_meta k (rm_masters m)) as [q|] eqn:Em; [|discriminate].
      apply N.eqb_eq in Eo. subst q.
      destruct (last_meta_some_in _ _ _ Em) as (n & Hin & Hk).
      unfold decide, reused. cbn [lookup_role].
      rewrite last_meta_none_notin.
      * rewrite Em. reflexivity.
      * intros r Hr. rewrite <- Hk. eapply wf_master_not_replica; eauto.
    + destruct (opt_N_eqb (last_meta k (rm_replicas m)) p) eqn:Eo; [|discriminate].
      inversion Er; subst r. unfold opt_N_eqb in Eo.
      destruct (last_meta k (rm_replicas m)) as [q|] eqn:Em; [|discriminate].
      apply N.eqb_eq in Eo. subst q.
      unfold decide, reused. cbn [lookup_role]. rewrite Em. reflexivity.
  - unfold decide, reused. cbn [lookup_role]. reflexivity.
Qed.

Lemma new_roles_wf : forall old m, rp_wf m = true -> new_roles old m = roles_of m.
Proof.
  intros old m Hwf. unfold roles_of, new_roles. apply flat_map_ext. intros k.
  rewrite (decide_wf old m k Hwf). reflexivity.
Qed.

(* the class outside which the installed roles are a function of the message alone is not empty: a node listed as
   master and replica keeps its running master replicator, while a fresh proxy starts the replica *)
Definition ill_k : bytes := [99].
Definition ill_a : bytes := [104; 58; 49].
Definition ill_msg : rp_msg :=
  {| rm_epoch := 2; rm_flags := []; rm_masters := [{| rn_cluster := ill_k; rn_addr := ill_a; rn_peers := 1 |}];
     rm_replicas := [{| rn_cluster := ill_k; rn_addr := ill_a; rn_peers := 2 |}] |}.
Lemma roles_depend_on_history_when_ill_formed :
  rp_wf ill_msg = false /\
  new_roles [((ill_k, ill_a), (RMaster, 1))] ill_msg = [((ill_k, ill_a), (RMaster, 1))] /\
  roles_of ill_msg = [((ill_k, ill_a), (RReplica, 2))].
Proof. vm_compute. repeat split. Qed.

(* ---------- one delivery ---------- *)

Lemma reply_eq_dec_OK : forall r : reply, {r = OK} + {r <> OK}.
Proof. intros []; [left; reflexivity|right; discriminate|right; discriminate]. Qed.

Lemma set_cluster_host_bad : forall h s m, hosts_ok h (cm_locals m) = false -> set_cluster h s m = (s, NOT_MY_META).
Proof. intros h s m H. unfold set_cluster. rewrite H. reflexivity. Qed.

Lemma set_repl_host_bad : forall h s m, repl_hosts_ok h m = false -> set_repl h s m = (s, NOT_MY_META).
Proof. intros h s m H. unfold set_repl. rewrite H. reflexivity. Qed.

Lemma host_bad : forall h s m, msg_host_ok h m = false -> apply_msg h s m = (s, NOT_MY_META).
Proof.
  intros h s [c|r] H; cbn [apply_msg msg_host_ok] in *.
  - apply set_cluster_host_bad. exact H.
  - apply set_repl_host_bad. exact H.
Qed.

Lemma pstate_eta : forall s, {| cl_epoch := cl_epoch s; cl_meta := cl_meta s; rp_updating := rp_updating s;
                               rp_epoch := rp_epoch s; rp_roles := rp_roles s |} = s.
Proof. intros []. reflexivity. Qed.

Lemma seq_spec : forall h s m, seq_inv s -> msg_host_ok h m = true ->
  (accepts h s m <-> msg_force m = true \/ kind_epoch m s < msg_epoch m)
  /\ (accepts h s m -> installed_as s m (fst (apply_msg h s m)) /\ seq_inv (fst (apply_msg h s m)))
  /\ (~ accepts h s m -> fst (apply_msg h s m) = s /\ snd (apply_msg h s m) = OLD_EPOCH).
Proof.
  intros h s [c|r] Hinv Hh; unfold accepts; cbn [apply_msg msg_host_ok msg_force kind_epoch msg_epoch] in *.
  - unfold set_cluster. rewrite Hh. cbn [negb].
    destruct (flag_force (cm_flags c)) eqn:Ef; destruct (N.leb (cm_epoch c) (cl_epoch s)) eqn:El;
      cbn [andb negb fst snd installed_as].
    + split; [split; auto|]. split; [intros _; repeat split; auto|]. intros H; exfalso; apply H; reflexivity.
    + split; [split; auto|]. split; [intros _; repeat split; auto|]. intros H; exfalso; apply H; reflexivity.
    + split; [split; [discriminate|intros [H|H]; [discriminate|lia]]|].
      split; [discriminate|]. intros _. split; reflexivity.
    + split; [split; [intros _; right; lia|reflexivity]|].
      split; [intros _; repeat split; auto|]. intros H; exfalso; apply H; reflexivity.
  - unfold set_repl. rewrite Hh. cbn [negb]. unfold seq_inv in Hinv. rewrite Hinv.
    destruct (flag_force (rm_flags r)) eqn:Ef; destruct (N.leb (rm_epoch r) (rp_epoch s)) eqn:El;
      cbn [andb negb fst snd installed_as].
    + split; [split; auto|]. split; [|intros H; exfalso; apply H; reflexivity].
      intros _. split; [|reflexivity]. repeat split; auto. apply new_roles_wf.
    + split; [split; auto|]. split; [|intros H; exfalso; apply H; reflexivity].
      intros _. split; [|reflexivity]. repeat split; auto. apply new_roles_wf.
    + split; [split; [discriminate|intros [H|H]; [discriminate|lia]]|].
      split; [discriminate|]. intros _. split; reflexivity.
    + split; [split; [intros _; right; lia|reflexivity]|].
      split; [|intros H; exfalso; apply H; reflexivity].
      intros _. split; [|reflexivity]. repeat split; auto. apply new_roles_wf.
Qed.

(* the correcting branch of update_replicators (late reject) is not reachable by sequential deliveries *)
Lemma late_reject_unreachable_seq : forall s m, seq_inv s ->
  negb (flag_force (rm_flags m)) && N.leb (rm_epoch m) (rp_updating s) = false ->
  negb (flag_force (rm_flags m)) && N.leb (rm_epoch m) (rp_epoch s) = false.
Proof. intros s m Hinv H. unfold seq_inv in Hinv. rewrite <- Hinv. exact H. Qed.

Lemma apply_inv : forall h s m, seq_inv s -> seq_inv (fst (apply_msg h s m)).
Proof.
  intros h s m Hinv. destruct (msg_host_ok h m) eqn:Hh.
  - destruct (seq_spec h s m Hinv Hh) as (_ & Hacc & Hrej).
    destruct (reply_eq_dec_OK (snd (apply_msg h s m))) as [E|E].
    + apply Hacc. exact E.
    + destruct (Hrej E) as [-> _]. exact Hinv.
  - rewrite (host_bad h s m Hh). exact Hinv.
Qed.

Lemma apply_cases : forall h s m, seq_inv s ->
  (snd (apply_msg h s m) = OK /\ msg_host_ok h m = true /\ installed_as s m (fst (apply_msg h s m))
   /\ (msg_force m = true \/ kind_epoch m s < msg_epoch m))
  \/ (snd (apply_msg h s m) <> OK /\ fst (apply_msg h s m) = s).
Proof.
  intros h s m Hinv. destruct (msg_host_ok h m) eqn:Hh.
  - destruct (seq_spec h s m Hinv Hh) as (Hiff & Hacc & Hrej). unfold accepts in *.
    destruct (reply_eq_dec_OK (snd (apply_msg h s m))) as [E|E].
    + left. split; [exact E|]. split; [reflexivity|]. split; [apply Hacc; exact E|apply Hiff; exact E].
    + right. split; [exact E|]. apply Hrej. exact E.
  - right. rewrite (host_bad h s m Hh). cbn [fst snd]. split; [discriminate|reflexivity].
Qed.

(* ---------- histories ---------- *)

Lemma step_lemma : forall h s m, seq_inv s ->
  step_ok (s, m, fst (apply_msg h s m), snd (apply_msg h s m)).
Proof.
  intros h s m Hinv. unfold step_ok. split; [exact Hinv|]. split; [apply apply_inv; exact Hinv|].
  destruct (apply_cases h s m Hinv) as [(Eok & Hh & Hinst & Hcond)|(Ene & Es)].
  - destruct m as [c|r]; cbn [installed_as msg_force kind_epoch msg_epoch] in *.
    + destruct Hinst as (H1 & H2 & H3 & H4 & H5). split.
      * intros Hlt. unfold forced_ok_cluster. exists c. split; [reflexivity|]. split; [|exact Eok].
        destruct Hcond as [Hf|Hf]; [exact Hf|lia].
      * intros Hlt. lia.
    + destruct Hinst as (H1 & H2 & H3 & H4 & H5 & H6). split.
      * intros Hlt. lia.
      * intros Hlt. unfold forced_ok_repl. exists r. split; [reflexivity|]. split; [|exact Eok].
        destruct Hcond as [Hf|Hf]; [exact Hf|lia].
  - rewrite Es. split; intros Hlt; lia.
Qed.

Lemma history_steps : forall h ms s, seq_inv s -> Forall step_ok (trace h s ms).
Proof.
  induction ms as [|m ms IH]; intros s Hinv; cbn [trace]; [constructor|].
  pose proof (step_lemma h s m Hinv) as Hs. pose proof (apply_inv h s m Hinv) as Hi.
  destruct (apply_msg h s m) as [s1 rep]. cbn [fst snd] in *. constructor; [exact Hs|apply IH; exact Hi].
Qed.

Lemma history_monotone_cluster : forall h ms s, seq_inv s ->
  ~ Exists forced_ok_cluster (trace h s ms) -> cl_epoch s <= cl_epoch (fst (run_msgs h s ms)).
Proof.
  induction ms as [|m ms IH]; intros s Hinv Hno; cbn [trace run_msgs] in *; [cbn [fst]; lia|].
  pose proof (step_lemma h s m Hinv) as Hs. pose proof (apply_inv h s m Hinv) as Hi.
  destruct (apply_msg h s m) as [s1 rep]. cbn [fst snd] in *.
  specialize (IH s1 Hi). destruct (run_msgs h s1 ms) as [s2 reps]. cbn [fst] in *.
  assert (Hle : cl_epoch s1 <= cl_epoch s2).
  { apply IH. intros Hex. apply Hno. right. exact Hex. }
  destruct Hs as (_ & _ & Hc & _).
  destruct (N.ltb (cl_epoch s1) (cl_epoch s)) eqn:El.
  - exfalso. apply Hno. left. apply Hc. lia.
  - lia.
Qed.

Lemma history_monotone_repl : forall h ms s, seq_inv s ->
  ~ Exists forced_ok_repl (trace h s ms) -> rp_epoch s <= rp_epoch (fst (run_msgs h s ms)).
Proof.
  induction ms as [|m ms IH]; intros s Hinv Hno; cbn [trace run_msgs] in *; [cbn [fst]; lia|].
  pose proof (step_lemma h s m Hinv) as Hs. pose proof (apply_inv h s m Hinv) as Hi.
  destruct (apply_msg h s m) as [s1 rep]. cbn [fst snd] in *.
  specialize (IH s1 Hi). destruct (run_msgs h s1 ms) as [s2 reps]. cbn [fst] in *.
  assert (Hle : rp_epoch s1 <= rp_epoch s2).
  { apply IH. intros Hex. apply Hno. right. exact Hex. }
  destruct Hs as (_ & _ & _ & Hc).
  destruct (N.ltb (rp_epoch s1) (rp_epoch s)) eqn:El.
  - exfalso. apply Hno. left. apply Hc. lia.
  - lia.
Qed.

(* what is installed = the last accepted message of the kind *)
Definition cl_matches (acc : option cl_msg) (s0 s : pstate) : Prop :=
  match acc with
  | Some c => cl_epoch s = cm_epoch c /\ cl_meta s = Some (cm_content c, cm_route c)
  | None => cl_epoch s = cl_epoch s0 /\ cl_meta s = cl_meta s0
  end.

Definition rp_matches (acc : option rp_msg) (s0 s : pstate) : Prop :=
  match acc with
  | Some r => rp_epoch s = rm_epoch r /\ (exists old, rp_roles s = new_roles old r)
              /\ (rp_wf r = true -> rp_roles s = roles_of r)
  | None => rp_epoch s = rp_epoch s0 /\ rp_roles s = rp_roles s0
  end.

Lemma history_last_cluster : forall h s0 ms s acc, seq_inv s -> cl_matches acc s0 s ->
  cl_matches (last_ok_cluster h s ms acc) s0 (fst (run_msgs h s ms)).
Proof.
  intros h s0. induction ms as [|m ms IH]; intros s acc Hinv Hm; cbn [last_ok_cluster run_msgs]; [exact Hm|].
  pose proof (apply_cases h s m Hinv) as Hc. pose proof (apply_inv h s m Hinv) as Hi.
  destruct (apply_msg h s m) as [s1 rep]. cbn [fst snd] in *.
  specialize (IH s1). destruct (run_msgs h s1 ms) as [s2 reps] eqn:Er. cbn [fst] in *.
  assert (G : forall acc', cl_matches acc' s0 s1 -> cl_matches (last_ok_cluster h s1 ms acc') s0 s2).
  { intros acc' H. apply (IH acc' Hi H). }
  destruct Hc as [(Eok & _ & Hinst & _)|(Ene & Es)].
  - subst rep. destruct m as [c|r]; cbn [installed_as] in Hinst.
    + apply G. cbn [cl_matches]. destruct Hinst as (H1 & H2 & _). split; assumption.
    + apply G. destruct Hinst as (_ & _ & _ & _ & H5 & H6).
      destruct acc as [c|]; cbn [cl_matches] in *; destruct Hm as [Ha Hb]; split; congruence.
  - subst s1. assert (E : match m with MCluster c => match rep with OK => Some c | _ => acc end | MRepl _ => acc end = acc).
    { destruct m; [destruct rep; [congruence|reflexivity|reflexivity]|reflexivity]. }
    replace (match m with MCluster c => match rep with OK => Some c | _ => acc end | MRepl _ => acc end) with acc.
    apply G. exact Hm.
Qed.

Lemma history_last_repl : forall h s0 ms s acc, seq_inv s -> rp_matches acc s0 s ->
  rp_matches (last_ok_repl h s ms acc) s0 (fst (run_msgs h s ms)).
Proof.
  intros h s0. induction ms as [|m ms IH]; intros s acc Hinv Hm; cbn [last_ok_repl run_msgs]; [exact Hm|].
  pose proof (apply_cases h s m Hinv) as Hc. pose proof (apply_inv h s m Hinv) as Hi.
  destruct (apply_msg h s m) as [s1 rep]. cbn [fst snd] in *.
  specialize (IH s1). destruct (run_msgs h s1 ms) as [s2 reps] eqn:Er. cbn [fst] in *.
  assert (G : forall acc', rp_matches acc' s0 s1 -> rp_matches (last_ok_repl h s1 ms acc') s0 s2).
  { intros acc' H. apply (IH acc' Hi H). }
  destruct Hc as [(Eok & _ & Hinst & _)|(Ene & Es)].
  - subst rep. destruct m as [c|r]; cbn [installed_as] in Hinst.
    + apply G. destruct Hinst as (_ & _ & H3 & H4 & H5).
      destruct acc as [r|]; cbn [rp_matches] in *.
      * destruct Hm as (Ha & (old & Hb) & Hw). split; [congruence|]. split; [exists old; congruence|].
        intros W. rewrite H5. apply Hw. exact W.
      * destruct Hm as [Ha Hb]. split; congruence.
    + apply G. cbn [rp_matches]. destruct Hinst as (H1 & _ & H3 & H4 & _).
      split; [exact H1|]. split; [exists (rp_roles s); exact H3|exact H4].
  - subst s1.
    replace (match m with MCluster _ => acc | MRepl c => match rep with OK => Some c | _ => acc end end) with acc.
    + apply G. exact Hm.
    + destruct m; [reflexivity|destruct rep; [congruence|reflexivity|reflexivity]].
Qed.

Lemma history : forall h ms s0, seq_inv s0 ->
  Forall step_ok (trace h s0 ms)
  /\ cl_matches (last_ok_cluster h s0 ms None) s0 (fst (run_msgs h s0 ms))
  /\ rp_matches (last_ok_repl h s0 ms None) s0 (fst (run_msgs h s0 ms))
  /\ (~ Exists forced_ok_cluster (trace h s0 ms) -> cl_epoch s0 <= cl_epoch (fst (run_msgs h s0 ms)))
  /\ (~ Exists forced_ok_repl (trace h s0 ms) -> rp_epoch s0 <= rp_epoch (fst (run_msgs h s0 ms))).
Proof.
  intros h ms s0 Hinv. split; [apply history_steps; exact Hinv|].
  split; [apply history_last_cluster; [exact Hinv|split; reflexivity]|].
  split; [apply history_last_repl; [exact Hinv|split; reflexivity]|].
  split; [apply history_monotone_cluster; exact Hinv|apply history_monotone_repl; exact Hinv].
Qed.

Lemma ps_init_inv : seq_inv ps_init.
Proof. reflexivity. Qed.
