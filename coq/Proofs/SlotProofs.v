(* C09, part 1: hash tag, CRC16 range, the slot table.  Specs (declarative definitions) + lemmas. *)
From UM Require Import Base.BytesDef Base.Dec Base.RespT Model.Slot.
From Coq Require Import ZifyBool ZifyNat ZifyN Permutation.

(* ================= hash tag ================= *)

(* declarative reading of get_hash_tag: the content between the first '{' and the first '}' after it when that content is
   non-empty, otherwise the whole key *)
Inductive tag_spec (k : bytes) : bytes -> Prop :=
| TagFound : forall pre mid post,
    k = pre ++ c_lbrace :: mid ++ c_rbrace :: post -> ~ In c_lbrace pre -> ~ In c_rbrace mid -> mid <> [] ->
    tag_spec k mid
| TagNoOpen : ~ In c_lbrace k -> tag_spec k k
| TagNoClose : forall pre rest,
    k = pre ++ c_lbrace :: rest -> ~ In c_lbrace pre -> ~ In c_rbrace rest -> tag_spec k k
| TagEmpty : forall pre post,
    k = pre ++ c_lbrace :: c_rbrace :: post -> ~ In c_lbrace pre -> tag_spec k k.

Lemma position_some : forall c l n, position c l = Some n ->
  exists pre post, l = pre ++ c :: post /\ ~ In c pre /\ length pre = n.
Proof.
  induction l as [|x r IH]; intros n H; cbn [position] in H; [discriminate|].
  destruct (N.eqb x c) eqn:E.
  - inversion H; subst. apply N.eqb_eq in E. subst. exists [], r. repeat split; auto.
  - destruct (position c r) as [m|] eqn:P; cbn [option_map] in H; [|discriminate].
    inversion H; subst. destruct (IH m eq_refl) as (pre & post & H1 & H2 & H3).
    exists (x :: pre), post. subst r. repeat split; auto.
    + intros [Hx|Hx]; [apply N.eqb_neq in E; congruence|auto].
    + cbn [length]. congruence.
Qed.

Lemma position_none : forall c l, position c l = None -> ~ In c l.
Proof.
  induction l as [|x r IH]; intros H; cbn [position] in H; [intros []|].
  destruct (N.eqb x c) eqn:E; [discriminate|].
  destruct (position c r) eqn:P; cbn [option_map] in H; [discriminate|].
  intros [Hx|Hx]; [apply N.eqb_neq in E; congruence|exact (IH eq_refl Hx)].
Qed.

Lemma skipn_app_exact : forall {A} (l1 l2 : list A), skipn (length l1) (l1 ++ l2) = l2.
Proof. induction l1; intros; cbn; auto. Qed.

Lemma firstn_app_exact : forall {A} (l1 l2 : list A), firstn (length l1) (l1 ++ l2) = l1.
Proof. induction l1; intros; cbn; f_equal; auto. Qed.

Lemma hash_tag_ok : forall k, get_hash_tag k <> TagPanic /\ tag_spec k (hash_tag k).
Proof.
  intros k. unfold hash_tag, get_hash_tag.
  destruct (position c_lbrace k) as [b|] eqn:P.
  2:{ split; [discriminate|]. apply TagNoOpen. apply position_none; auto. }
  destruct (position_some _ _ _ P) as (pre & rest & Hk & Hpre & Hlen).
  assert (Hs : slice_from k (S b) = Some rest).
  { unfold slice_from. subst k b. rewrite app_length. cbn [length].
    destruct (Nat.leb (S (length pre)) (length pre + S (length rest))) eqn:E; [|apply Nat.leb_gt in E; lia].
    f_equal. replace (S (length pre)) with (length (pre ++ [c_lbrace])) by (rewrite app_length; cbn; lia).
    replace (pre ++ c_lbrace :: rest) with ((pre ++ [c_lbrace]) ++ rest) by (rewrite <- app_assoc; reflexivity).
    apply skipn_app_exact. }
  rewrite Hs.
  destruct (position c_rbrace rest) as [e|] eqn:Q.
  2:{ split; [discriminate|]. eapply TagNoClose; eauto. apply position_none; auto. }
  destruct (position_some _ _ _ Q) as (mid & post & Hr & Hmid & Hlen2).
  destruct (Nat.eqb e 0) eqn:E0.
  { split; [discriminate|]. apply Nat.eqb_eq in E0. subst e. destruct mid; [|discriminate].
    cbn [app] in Hr. subst rest. eapply TagEmpty; eauto. }
  apply Nat.eqb_neq in E0.
  assert (Hsl : slice k (S b) (S b + e) = Some mid).
  { unfold slice. subst k b e rest. rewrite !app_length. cbn [length]. rewrite app_length. cbn [length].
    destruct (Nat.leb (S (length pre)) (S (length pre) + length mid)) eqn:E1; [|apply Nat.leb_gt in E1; lia].
    destruct (Nat.leb (S (length pre) + length mid) (length pre + S (length mid + S (length post)))) eqn:E2;
      [|apply Nat.leb_gt in E2; lia].
    cbn [andb]. f_equal.
    replace (S (length pre) + length mid - S (length pre))%nat with (length mid) by lia.
    replace (S (length pre)) with (length (pre ++ [c_lbrace])) by (rewrite app_length; cbn; lia).
    replace (pre ++ c_lbrace :: mid ++ c_rbrace :: post) with ((pre ++ [c_lbrace]) ++ mid ++ c_rbrace :: post)
      by (rewrite <- app_assoc; reflexivity).
    rewrite skipn_app_exact. apply firstn_app_exact. }
  rewrite Hsl. split; [discriminate|].
  eapply TagFound with (pre := pre) (post := post); eauto.
  - subst k rest. reflexivity.
  - intros ->. cbn in Hlen2. lia.
Qed.

(* the decomposition at the first occurrence is unique *)
Lemma first_occ_unique : forall (c : N) pre1 post1 pre2 post2,
  pre1 ++ c :: post1 = pre2 ++ c :: post2 -> ~ In c pre1 -> ~ In c pre2 -> pre1 = pre2 /\ post1 = post2.
Proof.
  induction pre1 as [|x p1 IH]; intros post1 [|y p2] post2 H H1 H2; cbn [app] in H.
  - inversion H; auto.
  - inversion H; subst. exfalso. apply H2. left; auto.
  - inversion H; subst. exfalso. apply H1. left; auto.
  - inversion H; subst. destruct (IH post1 p2 post2) as [-> ->]; auto.
    + intros Hx; apply H1; right; auto.
    + intros Hx; apply H2; right; auto.
Qed.

Lemma tag_spec_unique : forall k t1 t2, tag_spec k t1 -> tag_spec k t2 -> t1 = t2.
Proof.
  intros k t1 t2 H1 H2.
  destruct H1 as [pre mid post Hk Hp Hm Hne | Hno | pre rest Hk Hp Hr | pre post Hk Hp];
  destruct H2 as [pre' mid' post' Hk' Hp' Hm' Hne' | Hno' | pre' rest' Hk' Hp' Hr' | pre' post' Hk' Hp'];
  auto.
  - rewrite Hk in Hk'. destruct (first_occ_unique _ _ _ _ _ Hk' Hp Hp') as [-> E].
    destruct (first_occ_unique _ _ _ _ _ E Hm Hm') as [-> _]. reflexivity.
  - exfalso. apply Hno'. rewrite Hk. apply in_or_app. right. left. reflexivity.
  - exfalso. rewrite Hk in Hk'. destruct (first_occ_unique _ _ _ _ _ Hk' Hp Hp') as [-> E]. subst rest'.
    apply Hr'. apply in_or_app. right. left. reflexivity.
  - exfalso. rewrite Hk in Hk'. destruct (first_occ_unique _ _ _ _ _ Hk' Hp Hp') as [-> E].
    destruct mid as [|m0 mid]; [congruence|]. cbn [app] in E. inversion E; subst.
    apply Hm. left. reflexivity.
  - exfalso. apply Hno. rewrite Hk'. apply in_or_app. right. left. reflexivity.
  - exfalso. rewrite Hk in Hk'. destruct (first_occ_unique _ _ _ _ _ Hk' Hp Hp') as [-> E]. subst rest.
    apply Hr. apply in_or_app. right. left. reflexivity.
  - exfalso. rewrite Hk in Hk'. destruct (first_occ_unique _ _ _ _ _ Hk' Hp Hp') as [-> E].
    destruct mid' as [|m0 mid']; [congruence|]. cbn [app] in E. inversion E; subst.
    apply Hm'. left. reflexivity.
Qed.

Lemma hash_tag_spec : forall k t, hash_tag k = t <-> tag_spec k t.
Proof.
  intros k t. split.
  - intros <-. apply hash_tag_ok.
  - intros H. eapply tag_spec_unique; [apply hash_tag_ok|exact H].
Qed.

Lemma hash_tag_no_panic : forall k, get_hash_tag k = TagOk (hash_tag k).
Proof.
  intros k. pose proof (hash_tag_ok k) as [H _]. unfold hash_tag. destruct (get_hash_tag k); congruence.
Qed.

(* ================= CRC16 and slot range ================= *)

Lemma land_ffff : forall a, N.land a 65535 < 65536.
Proof.
  intros a. change 65535 with (N.ones 16). rewrite N.land_ones. apply N.mod_lt. discriminate.
Qed.

Lemma crc_shift_range : forall c, crc_shift c < 65536.
Proof. intros c. unfold crc_shift. destruct (N.testbit c 15); apply land_ffff. Qed.

Lemma crc_update_range : forall c b, crc_update c b < 65536.
Proof. intros. unfold crc_update. apply crc_shift_range. Qed.

Lemma crc16_range : forall l, crc16 l < 65536.
Proof.
  intros l. unfold crc16.
  assert (H : forall l c, c < 65536 -> fold_left crc_update l c < 65536).
  { induction l0 as [|b r IH]; intros c Hc; cbn [fold_left]; auto. apply IH. apply crc_update_range. }
  apply H. reflexivity.
Qed.

Lemma slot_range : forall k, slot k < 16384.
Proof. intros k. unfold slot, SLOT_NUM. apply N.mod_lt. discriminate. Qed.

Lemma slot_def : forall k, slot k = crc16 (hash_tag k) mod 16384.
Proof. reflexivity. Qed.

(* same_slot *)
Lemma same_slot_true : forall ks, same_slot ks = true <->
  ks <> [] /\ forall k1 k2, In k1 ks -> In k2 ks -> slot k1 = slot k2.
Proof.
  intros [|k r]; cbn [same_slot].
  - split; [discriminate|intros [H _]; congruence].
  - rewrite forallb_forall. split.
    + intros H. split; [discriminate|]. intros k1 k2 H1 H2.
      assert (E : forall x, In x (k :: r) -> slot x = slot k).
      { intros x [<-|Hx]; auto. apply N.eqb_eq. apply H; auto. }
      rewrite (E k1 H1), (E k2 H2). reflexivity.
    + intros [_ H] x Hx. apply N.eqb_eq. apply H; [right|left]; auto.
Qed.

Lemma same_slot_false : forall ks, same_slot ks = false <->
  ks = [] \/ exists k1 k2, In k1 ks /\ In k2 ks /\ slot k1 <> slot k2.
Proof.
  intros ks. split.
  - intros H. destruct ks as [|k r]; [left; auto|right].
    cbn [same_slot] in H.
    destruct (forallb (fun k' => slot k' =? slot k) r) eqn:E; [discriminate|].
    assert (Hex : exists x, In x r /\ (slot x =? slot k) = false).
    { clear H. induction r as [|y r IH]; cbn [forallb] in E; [discriminate|].
      destruct (slot y =? slot k) eqn:Ey.
      - cbn [andb] in E. destruct (IH E) as (x & Hx & Hs). exists x. split; [right|]; auto.
      - exists y. split; [left|]; auto. }
    destruct Hex as (x & Hx & Hs). exists x, k. repeat split; [right; auto|left; auto|].
    apply N.eqb_neq; auto.
  - intros [->|(k1 & k2 & H1 & H2 & Hne)]; [reflexivity|].
    destruct (same_slot ks) eqn:E; [|reflexivity].
    apply same_slot_true in E. destruct E as [_ E]. exfalso. apply Hne. apply E; auto.
Qed.

(* ================= the slot table ================= *)

Definition covers (rs : list range) (s : N) : Prop :=
  s < SLOT_NUM /\ exists r, In r rs /\ fst r <= s /\ s <= snd r.

(* every range listed under address a *)
Definition ranges_of (m : slot_map) (a : addr) : list range :=
  flat_map (fun e => if bytes_eqb (fst e) a then snd e else []) m.

(* a HashMap has distinct keys; nodes are pairwise disjoint *)
Definition wf_map (m : slot_map) : Prop :=
  NoDup (map fst m) /\
  forall a1 rs1 a2 rs2 s, In (a1, rs1) m -> In (a2, rs2) m -> covers rs1 s -> covers rs2 s -> a1 = a2.

Lemma bytes_eqb_eq : forall a b, bytes_eqb a b = true <-> a = b.
Proof.
  induction a as [|x a IH]; intros [|y b]; cbn [bytes_eqb]; split; intros H; try discriminate; auto.
  - apply andb_true_iff in H. destruct H as [H1 H2]. apply N.eqb_eq in H1. apply IH in H2. congruence.
  - inversion H; subst. rewrite N.eqb_refl. cbn. apply IH. reflexivity.
Qed.

Lemma bytes_eqb_refl : forall a, bytes_eqb a a = true.
Proof. intros. apply bytes_eqb_eq. reflexivity. Qed.

Lemma in_range_iff : forall s r, in_range s r = true <-> fst r <= s /\ s <= snd r.
Proof. intros. unfold in_range. rewrite andb_true_iff, !N.leb_le. tauto. Qed.

Lemma coversb_iff : forall rs s, coversb rs s = true <-> covers rs s.
Proof.
  intros. unfold coversb, covers. rewrite andb_true_iff, N.ltb_lt, existsb_exists.
  split; intros [H1 (r & H2 & H3)]; split; auto; exists r; split; auto; apply in_range_iff; auto.
Qed.

Lemma covers_ranges_of : forall m a s,
  covers (ranges_of m a) s <-> exists rs, In (a, rs) m /\ covers rs s.
Proof.
  intros m a s. unfold covers, ranges_of. split.
  - intros [Hs (r & Hin & Hr)]. apply in_flat_map in Hin. destruct Hin as ([a' rs] & He & Hr').
    cbn [fst snd] in Hr'. destruct (bytes_eqb a' a) eqn:E; [|destruct Hr'].
    apply bytes_eqb_eq in E. subst a'. exists rs. split; auto. split; auto. exists r. auto.
  - intros (rs & Hin & Hs & r & Hr & Hb). split; auto. exists r. split; auto.
    apply in_flat_map. exists (a, rs). split; auto. cbn [fst snd]. rewrite bytes_eqb_refl. auto.
Qed.

(* --- writing ranges --- *)
Lemma write_from_nth : forall t i r v n,
  nth_error (write_from t i r v) n =
  option_map (fun x => if in_range (i + N.of_nat n) r then Some v else x) (nth_error t n).
Proof.
  induction t as [|x t IH]; intros i r v n; cbn [write_from].
  - destruct n; reflexivity.
  - destruct n as [|n]; cbn [nth_error option_map].
    + replace (i + N.of_nat 0) with i by lia. reflexivity.
    + rewrite IH. replace (N.succ i + N.of_nat n) with (i + N.of_nat (S n)) by lia. reflexivity.
Qed.

Lemma write_from_length : forall t i r v, length (write_from t i r v) = length t.
Proof. induction t; intros; cbn [write_from length]; auto. Qed.

Lemma write_range_nth : forall t r v n,
  nth_error (write_range t r v) n =
  option_map (fun x => if in_range (N.of_nat n) r then Some v else x) (nth_error t n).
Proof.
  intros. unfold write_range. destruct (snd r <? fst r) eqn:E.
  - apply N.ltb_lt in E.
    assert (H : in_range (N.of_nat n) r = false).
    { unfold in_range. destruct (fst r <=? N.of_nat n) eqn:E1; cbn [andb]; auto.
      apply N.leb_le in E1. apply N.leb_gt. lia. }
    rewrite H. destruct (nth_error t n); reflexivity.
  - rewrite write_from_nth. replace (0 + N.of_nat n) with (N.of_nat n) by lia. reflexivity.
Qed.

Lemma write_range_length : forall t r v, length (write_range t r v) = length t.
Proof. intros. unfold write_range. destruct (snd r <? fst r); auto. apply write_from_length. Qed.

Lemma write_ranges_nth : forall rs t v n,
  nth_error (write_ranges t rs v) n =
  option_map (fun x => if existsb (in_range (N.of_nat n)) rs then Some v else x) (nth_error t n).
Proof.
  unfold write_ranges. induction rs as [|r rs IH]; intros t v n; cbn [fold_left existsb].
  - destruct (nth_error t n); reflexivity.
  - rewrite IH. rewrite write_range_nth. destruct (nth_error t n) as [x|]; cbn [option_map]; auto.
    destruct (in_range (N.of_nat n) r); cbn [orb]; auto.
    destruct (existsb (in_range (N.of_nat n)) rs); reflexivity.
Qed.

Lemma write_ranges_length : forall rs t v, length (write_ranges t rs v) = length t.
Proof.
  unfold write_ranges. induction rs as [|r rs IH]; intros; cbn [fold_left]; auto.
  rewrite IH. apply write_range_length.
Qed.

(* --- the build loop --- *)
Definition owner_step (s : N) (acc : option addr) (e : addr * list range) : option addr :=
  if existsb (in_range s) (snd e) then Some (fst e) else acc.

Lemma fold_owner_init : forall s m init,
  fold_left (owner_step s) m init =
  match fold_left (owner_step s) m None with Some a => Some a | None => init end.
Proof.
  induction m as [|e m IH]; intros init; cbn [fold_left]; auto.
  rewrite (IH (owner_step s init e)), (IH (owner_step s None e)).
  destruct (fold_left (owner_step s) m None); auto.
  unfold owner_step. destruct (existsb (in_range s) (snd e)); auto.
Qed.

Lemma build_loop_length : forall m t addrs, length (fst (build_loop t addrs m)) = length t.
Proof.
  induction m as [|[a rs] m IH]; intros; cbn [build_loop fst]; auto.
  rewrite IH. apply write_ranges_length.
Qed.

Lemma build_loop_addrs : forall m t addrs, snd (build_loop t addrs m) = addrs ++ map fst m.
Proof.
  induction m as [|[a rs] m IH]; intros; cbn [build_loop snd map fst].
  - rewrite app_nil_r. reflexivity.
  - rewrite IH. rewrite <- app_assoc. reflexivity.
Qed.

Lemma idx_no_underflow : forall (addrs : list addr) a, Nat.pred (length (addrs ++ [a])) = length addrs.
Proof. intros. rewrite app_length. cbn [length]. lia. Qed.

Lemma build_loop_get : forall m t addrs s,
  slot_map_get (build_loop t addrs m) s =
  match fold_left (owner_step s) m None with
  | Some a => if Nat.ltb (N.to_nat s) (length t) then Some a else None
  | None => slot_map_get (t, addrs ++ map fst m) s
  end.
Proof.
  induction m as [|[a rs] m IH]; intros t addrs s; cbn [build_loop fold_left map fst].
  - rewrite app_nil_r. reflexivity.
  - rewrite IH. rewrite write_ranges_length. rewrite idx_no_underflow.
    rewrite (fold_owner_init s m (owner_step s None (a, rs))).
    destruct (fold_left (owner_step s) m None) as [a'|]; auto.
    unfold slot_map_get. cbn [fst snd]. rewrite write_ranges_nth.
    unfold owner_step. cbn [fst snd]. rewrite N2Nat.id.
    destruct (nth_error t (N.to_nat s)) as [x|] eqn:En; cbn [option_map].
    + assert (Hlt : (N.to_nat s < length t)%nat) by (apply nth_error_Some; congruence).
      destruct (existsb (in_range s) rs).
      * rewrite <- app_assoc. cbn [app]. rewrite nth_error_app2 by lia.
        replace (length addrs - length addrs)%nat with O by lia. cbn [nth_error].
        apply Nat.ltb_lt in Hlt. rewrite Hlt. reflexivity.
      * rewrite <- app_assoc. reflexivity.
    + destruct (existsb (in_range s) rs); auto.
      apply nth_error_None in En. destruct (Nat.ltb (N.to_nat s) (length t)) eqn:E; auto.
      apply Nat.ltb_lt in E. lia.
Qed.

Lemma nth_error_repeat_none : forall {A} (x : A) k n, nth_error (repeat x k) n = if Nat.ltb n k then Some x else None.
Proof.
  induction k as [|k IH]; intros n.
  - destruct n; reflexivity.
  - destruct n as [|n].
    + reflexivity.
    + change (repeat x (S k)) with (x :: repeat x k). cbn [nth_error]. rewrite IH.
      change (Nat.ltb (S n) (S k)) with (Nat.ltb n k). reflexivity.
Qed.

Lemma last_owner_fold : forall m s,
  last_owner m s = if s <? SLOT_NUM then fold_left (owner_step s) m None else None.
Proof.
  intros m s. unfold last_owner, coversb, owner_step.
  destruct (s <? SLOT_NUM); cbn [andb]; auto.
  induction m as [|e m IH]; cbn [fold_left]; auto.
Qed.

(* THE TABLE THEOREM: for every slot map in every iteration order and every slot number, the 16384-entry table answers
   the last entry whose ranges cover the slot *)
Lemma table_correct : forall m s, slot_map_get (slot_map_new m) s = last_owner m s.
Proof.
  intros m s. unfold slot_map_new. rewrite build_loop_get, last_owner_fold.
  rewrite repeat_length. cbn [app].
  assert (E : Nat.ltb (N.to_nat s) (N.to_nat SLOT_NUM) = (s <? SLOT_NUM)).
  { destruct (s <? SLOT_NUM) eqn:E1.
    - apply N.ltb_lt in E1. apply Nat.ltb_lt. lia.
    - apply N.ltb_ge in E1. apply Nat.ltb_ge. lia. }
  rewrite E.
  destruct (fold_left (owner_step s) m None) as [a|]; auto.
  - unfold slot_map_get. cbn [fst snd]. rewrite nth_error_repeat_none.
    rewrite E. destruct (s <? SLOT_NUM); reflexivity.
Qed.

Lemma dump_correct : forall m s, s < SLOT_NUM ->
  nth_error (slot_map_dump (slot_map_new m)) (N.to_nat s) = Some (last_owner m s).
Proof.
  intros m s Hs. rewrite <- table_correct. unfold slot_map_dump, slot_map_get.
  rewrite nth_error_map.
  assert (Hl : (N.to_nat s < length (fst (slot_map_new m)))%nat).
  { unfold slot_map_new. rewrite build_loop_length, repeat_length. lia. }
  destruct (nth_error (fst (slot_map_new m)) (N.to_nat s)) as [o|] eqn:E.
  - cbn [option_map]. destruct o; reflexivity.
  - apply nth_error_None in E. lia.
Qed.

Lemma dump_length : forall m, length (slot_map_dump (slot_map_new m)) = N.to_nat SLOT_NUM.
Proof.
  intros. unfold slot_map_dump. rewrite map_length. unfold slot_map_new.
  rewrite build_loop_length. apply repeat_length.
Qed.

(* --- declarative reading of last_owner --- *)
Lemma last_owner_some : forall m s a, last_owner m s = Some a -> exists rs, In (a, rs) m /\ covers rs s.
Proof.
  intros m s a. unfold last_owner.
  assert (H : forall m init, fold_left (fun (acc : option addr) (e : addr * list range) => if coversb (snd e) s then Some (fst e) else acc) m init = Some a ->
              init = Some a \/ exists rs, In (a, rs) m /\ covers rs s).
  { induction m0 as [|[a' rs'] m0 IH]; intros init H; cbn [fold_left] in H; auto.
    destruct (IH _ H) as [H1|(rs & H1 & H2)].
    - cbn [fst snd] in H1. destruct (coversb rs' s) eqn:E.
      + inversion H1; subst. right. exists rs'. split; [left; auto|apply coversb_iff; auto].
      + left; auto.
    - right. exists rs. split; [right|]; auto. }
  intros H0. destruct (H m None H0) as [H1|H1]; [discriminate|auto].
Qed.

Lemma last_owner_none : forall m s, last_owner m s = None <-> forall a rs, In (a, rs) m -> ~ covers rs s.
Proof.
  intros m s. unfold last_owner.
  assert (H : forall m init, fold_left (fun (acc : option addr) (e : addr * list range) => if coversb (snd e) s then Some (fst e) else acc) m init = None <->
              init = None /\ forall a rs, In (a, rs) m -> ~ covers rs s).
  { induction m0 as [|[a' rs'] m0 IH]; intros init; cbn [fold_left].
    - split; [intros ->; split; auto; intros ? ? []|intros [H _]; auto].
    - rewrite IH. cbn [fst snd]. split.
      + intros [H1 H2]. destruct (coversb rs' s) eqn:E; [discriminate|]. split; auto.
        intros a rs [Hin|Hin]; [|eauto]. inversion Hin; subst. rewrite <- coversb_iff. congruence.
      + intros [-> H2]. destruct (coversb rs' s) eqn:E.
        * exfalso. apply (H2 a' rs'); [left; auto|apply coversb_iff; auto].
        * split; auto. intros a rs Hin. apply (H2 a rs). right; auto. }
  rewrite H. split; [intros [_ H1]; auto|intros H1; split; auto].
Qed.

Lemma last_owner_wf : forall m s a, wf_map m ->
  (last_owner m s = Some a <-> covers (ranges_of m a) s).
Proof.
  intros m s a [_ Hd]. rewrite covers_ranges_of. split.
  - apply last_owner_some.
  - intros (rs & Hin & Hc). destruct (last_owner m s) as [a'|] eqn:E.
    + destruct (last_owner_some _ _ _ E) as (rs' & Hin' & Hc'). f_equal. eapply Hd; eauto.
    + exfalso. eapply last_owner_none in E; eauto.
Qed.

Lemma wf_map_perm : forall m m', Permutation m m' -> wf_map m -> wf_map m'.
Proof.
  intros m m' P [Hn Hd]. split.
  - eapply Permutation_NoDup; [|exact Hn]. apply Permutation_map. exact P.
  - intros a1 rs1 a2 rs2 s H1 H2. apply Permutation_sym in P.
    apply Hd; [eapply Permutation_in; [exact P|exact H1]|eapply Permutation_in; [exact P|exact H2]].
Qed.

(* the answer does not depend on the hash order when the nodes are disjoint *)
Lemma last_owner_perm : forall m m' s, Permutation m m' -> wf_map m -> last_owner m s = last_owner m' s.
Proof.
  intros m m' s P Hwf. pose proof (wf_map_perm _ _ P Hwf) as Hwf'.
  destruct (last_owner m s) as [a|] eqn:E.
  - symmetry. apply last_owner_wf; auto. apply last_owner_wf in E; auto.
    apply covers_ranges_of in E. apply covers_ranges_of. destruct E as (rs & Hin & Hc).
    exists rs. split; auto. eapply Permutation_in; eauto.
  - symmetry. apply last_owner_none. intros a rs Hin. eapply last_owner_none in E; eauto.
    eapply Permutation_in; [apply Permutation_sym|]; eauto.
Qed.

(* for arbitrary (overlapping) maps the table's answer is a member of the owner set, and the set is empty iff the table
   has no owner *)
Lemma last_owner_in_owners : forall m s a, last_owner m s = Some a -> In a (owners m s).
Proof.
  intros m s a H. destruct (last_owner_some _ _ _ H) as (rs & Hin & Hc).
  unfold owners. apply in_map_iff. exists (a, rs). split; auto.
  apply filter_In. split; auto. cbn [snd]. apply coversb_iff; auto.
Qed.

Lemma owners_nil : forall m s, owners m s = [] <-> last_owner m s = None.
Proof.
  intros m s. rewrite last_owner_none. unfold owners. split.
  - intros H a rs Hin Hc.
    assert (Hx : In a (map fst (filter (fun e => coversb (snd e) s) m))).
    { apply in_map_iff. exists (a, rs). split; auto. apply filter_In. split; auto. apply coversb_iff; auto. }
    rewrite H in Hx. destruct Hx.
  - intros H. destruct (map fst (filter (fun e => coversb (snd e) s) m)) as [|a l] eqn:E; auto.
    exfalso. assert (Hx : In a (map fst (filter (fun e => coversb (snd e) s) m))) by (rewrite E; left; auto).
    apply in_map_iff in Hx. destruct Hx as ([a' rs] & <- & Hf). apply filter_In in Hf. destruct Hf as [Hin Hc].
    apply (H a' rs); auto. apply coversb_iff; auto.
Qed.
