(* C12: the link table has an entry, in both directions, for any two distinct hosts of which one has an untagged proxy;
   lt_add keeps entries.  Facts about host_counts / counts_sum / counts_max used by the allocator's progress argument. *)
From UM Require Import Base.BytesDef Model.Ranges Model.Broker Proofs.BrokerBase Proofs.BrokerAcctBase.
From Coq Require Import ZifyBool ZifyNat ZifyN.

(* ---------- link table ---------- *)
Definition has (t : ltable) (a b : N) : Prop := lt_get t a b <> None.

Lemma lt_get_add t x y n a b :
  lt_get (lt_add t x y n) a b =
  if N.eqb a x && N.eqb b y then Some ((match lt_get t x y with Some c => c | None => 0 end) + n) else lt_get t a b.
Proof.
  unfold lt_get, lt_add. rewrite alookup_ainsert. destruct (N.eqb a x) eqn:Ea; cbn [andb].
  - apply N.eqb_eq in Ea. subst a. rewrite alookup_ainsert. destruct (N.eqb b y) eqn:Eb.
    + destruct (alookup x t); reflexivity.
    + destruct (alookup x t); reflexivity.
  - reflexivity.
Qed.

Lemma has_add_keep t x y n a b : has t a b -> has (lt_add t x y n) a b.
Proof. unfold has. rewrite lt_get_add. destruct (_ && _); [discriminate|auto]. Qed.

Lemma has_add_new t x y n : has (lt_add t x y n) x y.
Proof. unfold has. rewrite lt_get_add, !N.eqb_refl. discriminate. Qed.

Lemma has_lookup t a b : has t a b -> exists peers c, alookup a t = Some peers /\ alookup b peers = Some c.
Proof.
  unfold has, lt_get. destruct (alookup a t) as [m|]; [|congruence].
  destruct (alookup b m) as [c|] eqn:E; [|congruence]. eauto.
Qed.

Lemma fold_keep {A} (f : ltable -> A -> ltable) a b :
  (forall t x, has t a b -> has (f t x) a b) -> forall l t, has t a b -> has (fold_left f l t) a b.
Proof. intros Hf. induction l as [|x l IH]; intros t H; cbn [fold_left]; auto. Qed.

Definition link_inner (fh : list N) (h1 : N) (t : ltable) (h2 : N) : ltable :=
  if N.eqb h1 h2 then t
  else if negb (smem h1 fh) && negb (smem h2 fh) then t
  else lt_add (lt_add t h1 h2 0) h2 h1 0.

Lemma link_inner_keep fh h1 a b t h2 : has t a b -> has (link_inner fh h1 t h2) a b.
Proof. unfold link_inner. intros H. destruct (N.eqb h1 h2); [exact H|]. destruct (_ && _); [exact H|]. apply has_add_keep, has_add_keep, H. Qed.

Lemma link_inner_new fh h1 h2 l : forall t,
  In h2 l -> h1 <> h2 -> (In h1 fh \/ In h2 fh) ->
  has (fold_left (link_inner fh h1) l t) h1 h2 /\ has (fold_left (link_inner fh h1) l t) h2 h1.
Proof.
  induction l as [|x l IH]; intros t Hin Hne Hf; [destruct Hin|]. cbn [fold_left].
  destruct (N.eq_dec x h2) as [->|Hx].
  - assert (G : has (link_inner fh h1 t h2) h1 h2 /\ has (link_inner fh h1 t h2) h2 h1).
    { unfold link_inner. apply N.eqb_neq in Hne. rewrite Hne.
      assert (E : negb (smem h1 fh) && negb (smem h2 fh) = false).
      { destruct Hf as [Hf|Hf]; apply smem_In in Hf; rewrite Hf; cbn; auto. rewrite andb_false_r. reflexivity. }
      rewrite E. split; [apply has_add_keep, has_add_new|apply has_add_new]. }
    destruct G. split; apply fold_keep; auto; intros; apply link_inner_keep; assumption.
  - destruct Hin as [Hin|Hin]; [contradiction|]. apply IH; assumption.
Qed.

Lemma link_outer_new fh hs h1 h2 l : forall t,
  In h1 l -> In h2 hs -> h1 <> h2 -> (In h1 fh \/ In h2 fh) ->
  has (fold_left (fun t h1 => fold_left (link_inner fh h1) hs t) l t) h1 h2 /\
  has (fold_left (fun t h1 => fold_left (link_inner fh h1) hs t) l t) h2 h1.
Proof.
  induction l as [|x l IH]; intros t Hin1 Hin2 Hne Hf; [destruct Hin1|]. cbn [fold_left].
  assert (Hk : forall a b t x, has t a b -> has (fold_left (link_inner fh x) hs t) a b).
  { intros. apply fold_keep; auto. intros. apply link_inner_keep. assumption. }
  destruct (N.eq_dec x h1) as [->|Hx].
  - destruct (link_inner_new fh h1 h2 hs t Hin2 Hne Hf) as [G1 G2].
    split; apply fold_keep; auto.
  - destruct Hin1 as [Hin1|Hin1]; [contradiction|]. apply IH; assumption.
Qed.

Lemma build_link_table_unfold s :
  build_link_table s =
  fold_left (fun t nc =>
    fold_left (fun t ck => lt_add (lt_add t (ck_host0 ck) (ck_host1 ck) 1) (ck_host1 ck) (ck_host0 ck) 1)
              (cl_chunks (snd nc)) t) (st_clusters s)
    (fold_left (fun t h1 => fold_left (link_inner (free_hosts s) h1) (all_hosts s) t) (all_hosts s) []).
Proof. reflexivity. Qed.

Lemma link_entry s h1 h2 :
  In h1 (all_hosts s) -> In h2 (all_hosts s) -> h1 <> h2 -> (In h1 (free_hosts s) \/ In h2 (free_hosts s)) ->
  has (build_link_table s) h1 h2.
Proof.
  intros H1 H2 Hne Hf. rewrite build_link_table_unfold. apply fold_keep.
  - intros t nc Ht. apply fold_keep; [|exact Ht]. intros t' ck Ht'. apply has_add_keep, has_add_keep, Ht'.
  - apply (link_outer_new (free_hosts s) (all_hosts s) h1 h2 (all_hosts s) [] H1 H2 Hne Hf).
Qed.

(* a chunk's two hosts are linked *)
Lemma link_entry_chunk s name cl ck :
  In (name, cl) (st_clusters s) -> In ck (cl_chunks cl) -> has (build_link_table s) (ck_host0 ck) (ck_host1 ck) /\
                                                          has (build_link_table s) (ck_host1 ck) (ck_host0 ck).
Proof.
  intros Hc Hk. rewrite build_link_table_unfold. generalize (fold_left (fun t h1 => fold_left (link_inner (free_hosts s) h1) (all_hosts s) t) (all_hosts s) []).
  set (fck := fun t ck => lt_add (lt_add t (ck_host0 ck) (ck_host1 ck) 1) (ck_host1 ck) (ck_host0 ck) 1).
  assert (Kck : forall a b t x, has t a b -> has (fck t x) a b) by (intros; apply has_add_keep, has_add_keep; assumption).
  assert (Kcl : forall a b t (nc : N * cluster), has t a b -> has (fold_left fck (cl_chunks (snd nc)) t) a b).
  { intros. apply fold_keep; auto. }
  assert (G1 : forall l t, In ck l -> has (fold_left fck l t) (ck_host0 ck) (ck_host1 ck) /\ has (fold_left fck l t) (ck_host1 ck) (ck_host0 ck)).
  { induction l as [|x l IH]; intros t Hin; [destruct Hin|]. cbn [fold_left]. destruct Hin as [->|Hin]; [|auto].
    split; apply fold_keep; auto; unfold fck; [apply has_add_keep, has_add_new|apply has_add_new]. }
  induction (st_clusters s) as [|nc l IH]; intros t; [destruct Hc|]. cbn [fold_left].
  destruct Hc as [->|Hc]; [|auto]. cbn [snd].
  destruct (G1 (cl_chunks cl) t Hk). split; apply fold_keep; auto.
Qed.

(* ---------- sinsert folds: all_hosts / free_hosts ---------- *)
Lemma In_sinsert k l x : In x (sinsert k l) <-> x = k \/ In x l.
Proof.
  rewrite <- !smem_In. rewrite smem_sinsert. rewrite orb_true_iff, N.eqb_eq. tauto.
Qed.

Lemma all_hosts_In s a r : In (a, r) (st_proxies s) -> In (pr_host r) (all_hosts s).
Proof.
  unfold all_hosts. generalize (@nil N). induction (st_proxies s) as [|e l IH]; intros acc Hin; [destruct Hin|].
  cbn [fold_left]. destruct Hin as [->|Hin]; [|auto]. cbn [snd].
  assert (G : forall l acc x, In x acc -> In x (fold_left (fun acc (e : N * presource) => sinsert (pr_host (snd e)) acc) l acc)).
  { clear. induction l as [|e l IH]; intros acc x H; cbn [fold_left]; auto. apply IH. apply In_sinsert. auto. }
  apply G. apply In_sinsert. auto.
Qed.

Lemma free_hosts_In s a r : In (a, r) (st_proxies s) -> pr_cluster r = None -> In (pr_host r) (free_hosts s).
Proof.
  unfold free_hosts. generalize (@nil N). induction (st_proxies s) as [|e l IH]; intros acc Hin Hc; [destruct Hin|].
  cbn [fold_left]. destruct Hin as [->|Hin]; [|auto]. cbn [snd]. rewrite Hc.
  assert (G : forall l acc x, In x acc ->
              In x (fold_left (fun acc (e : N * presource) => match pr_cluster (snd e) with None => sinsert (pr_host (snd e)) acc | Some _ => acc end) l acc)).
  { clear. induction l as [|e l IH]; intros acc x H; cbn [fold_left]; auto. apply IH. destruct (pr_cluster (snd e)); [exact H|]. apply In_sinsert. auto. }
  apply G. apply In_sinsert. auto.
Qed.

(* ---------- counts: recursive forms of the folds ---------- *)
Lemma counts_sum_fold l a : fold_left (fun m (e : N * N) => m + snd e) l a = a + counts_sum l.
Proof.
  unfold counts_sum. revert a. induction l as [|x l IH]; intros a; cbn [fold_left]; [lia|].
  rewrite IH. rewrite (IH (0 + snd x)). lia.
Qed.

Lemma counts_sum_cons x l : counts_sum (x :: l) = snd x + counts_sum l.
Proof. unfold counts_sum at 1. cbn [fold_left]. rewrite counts_sum_fold. lia. Qed.

Lemma counts_max_fold l a : fold_left (fun m (e : N * N) => N.max m (snd e)) l a = N.max a (counts_max l).
Proof.
  unfold counts_max. revert a. induction l as [|x l IH]; intros a; cbn [fold_left]; [lia|].
  rewrite IH. rewrite (IH (N.max 0 (snd x))). lia.
Qed.

Lemma counts_max_cons x l : counts_max (x :: l) = N.max (snd x) (counts_max l).
Proof. unfold counts_max at 1. cbn [fold_left]. rewrite counts_max_fold. lia. Qed.

Lemma counts_sum_nil : counts_sum [] = 0. Proof. reflexivity. Qed.
Lemma counts_max_nil : counts_max [] = 0. Proof. reflexivity. Qed.

Lemma cnt_le_max l h : cnt_of l h <= counts_max l.
Proof.
  unfold cnt_of. induction l as [|[k v] l IH]; cbn [alookup]; [rewrite counts_max_nil; lia|].
  rewrite counts_max_cons. cbn [snd]. destruct (N.eqb h k); lia.
Qed.

Lemma max_attained l : l <> [] -> exists h, In (h, counts_max l) l.
Proof.
  induction l as [|[k v] l IH]; [congruence|]. intros _. rewrite counts_max_cons. cbn [snd].
  destruct l as [|y l].
  - rewrite counts_max_nil. exists k. left. f_equal. lia.
  - destruct IH as (h & Hh); [discriminate|].
    destruct (N.leb (counts_max (y :: l)) v) eqn:E.
    + exists k. left. f_equal. lia.
    + exists h. right. replace (N.max v (counts_max (y :: l))) with (counts_max (y :: l)) by lia. exact Hh.
Qed.

Lemma max_le_sum l : counts_max l <= counts_sum l.
Proof. induction l as [|x l IH]; [rewrite counts_max_nil; lia|]. rewrite counts_max_cons, counts_sum_cons. lia. Qed.

(* sum splits off one key *)
Lemma counts_sum_remove l h v : keys_sorted l -> alookup h l = Some v -> counts_sum l = v + counts_sum (aremove h l).
Proof.
  induction l as [|[k w] l IH]; cbn [alookup aremove keys_sorted]; [discriminate|].
  intros [Hlt Hs]. destruct (N.eqb h k) eqn:E.
  - intros H. inversion H; subst. rewrite counts_sum_cons. reflexivity.
  - intros H. rewrite !counts_sum_cons. cbn [snd]. rewrite (IH Hs H). lia.
Qed.

Lemma counts_sum_ainsert l h v v' :
  keys_sorted l -> alookup h l = Some v -> counts_sum (ainsert h v' l) + v = counts_sum l + v'.
Proof.
  induction l as [|[k w] l IH]; cbn [alookup ainsert keys_sorted]; [discriminate|].
  intros [Hlt Hs]. destruct (N.eqb h k) eqn:E.
  - intros H. inversion H; subst. rewrite !counts_sum_cons. cbn [snd]. lia.
  - intros H. destruct (N.ltb h k) eqn:E2.
    + exfalso. apply alookup_In in H. specialize (Hlt _ _ H). lia.
    + rewrite !counts_sum_cons. cbn [snd]. specialize (IH Hs H). lia.
Qed.

Lemma sum_pos_exists l : 0 < counts_sum l -> exists h v, In (h, v) l /\ 0 < v.
Proof.
  induction l as [|[k w] l IH]; [rewrite counts_sum_nil; lia|]. rewrite counts_sum_cons. cbn [snd]. intros H.
  destruct (N.eqb w 0) eqn:E.
  - destruct IH as (h & v & Hin & Hv); [lia|]. exists h, v. split; [right|]; assumption.
  - exists k, w. split; [left; reflexivity|lia].
Qed.

Lemma cnt_of_ainsert l h v h' : cnt_of (ainsert h v l) h' = if N.eqb h' h then v else cnt_of l h'.
Proof. unfold cnt_of. rewrite alookup_ainsert. destruct (N.eqb h' h); reflexivity. Qed.

Lemma amem_ainsert {V} (l : list (N * V)) h v h' : amem h' (ainsert h v l) = N.eqb h' h || amem h' l.
Proof. unfold amem. rewrite alookup_ainsert. destruct (N.eqb h' h); reflexivity. Qed.

Lemma counts_max_ainsert_le l h v : counts_max (ainsert h v l) <= N.max v (counts_max l).
Proof.
  induction l as [|[k w] l IH]; cbn [ainsert].
  - rewrite counts_max_cons, counts_max_nil. cbn [snd]. lia.
  - destruct (N.eqb h k); [|destruct (N.ltb h k)]; rewrite ?counts_max_cons in *; cbn [snd] in *; rewrite ?counts_max_cons; cbn [snd]; lia.
Qed.

(* ---------- host_counts ---------- *)
Lemma count_add_sorted h l : keys_sorted l -> keys_sorted (count_add h l).
Proof. intros H. unfold count_add. destruct (alookup h l); apply ainsert_sorted; exact H. Qed.

Lemma host_counts_sorted fp : keys_sorted (host_counts fp).
Proof.
  unfold host_counts. assert (G : forall acc, keys_sorted acc -> keys_sorted (fold_left (fun acc (e : N * presource) => count_add (pr_host (snd e)) acc) fp acc)).
  { induction fp as [|e l IH]; intros acc H; cbn [fold_left]; [exact H|]. apply IH. apply count_add_sorted. exact H. }
  apply G. exact I.
Qed.

(* every key of host_counts is the host of one of the proxies *)
Lemma host_counts_key fp h : amem h (host_counts fp) = true -> exists e, In e fp /\ pr_host (snd e) = h.
Proof.
  unfold host_counts.
  assert (G : forall acc, amem h (fold_left (fun acc (e : N * presource) => count_add (pr_host (snd e)) acc) fp acc) = true ->
                          amem h acc = true \/ exists e, In e fp /\ pr_host (snd e) = h).
  { induction fp as [|e l IH]; intros acc H; cbn [fold_left] in H; [left; exact H|].
    destruct (IH _ H) as [H1|(e' & H1 & H2)].
    - unfold count_add in H1. assert (H1' : N.eqb h (pr_host (snd e)) || amem h acc = true).
      { destruct (alookup (pr_host (snd e)) acc); rewrite amem_ainsert in H1; exact H1. }
      apply orb_true_iff in H1'. destruct H1' as [E|E]; [|left; exact E].
      apply N.eqb_eq in E. right. exists e. split; [left; reflexivity|congruence].
    - right. exists e'. split; [right; exact H1|exact H2]. }
  intros H. destruct (G [] H) as [H1|H1]; [discriminate|exact H1].
Qed.

(* conversely the host of every proxy is a key with a positive count *)
Lemma host_counts_pos fp e : In e fp -> 0 < cnt_of (host_counts fp) (pr_host (snd e)).
Proof.
  unfold host_counts.
  assert (K : forall l acc h, 0 < cnt_of acc h -> 0 < cnt_of (fold_left (fun acc (e : N * presource) => count_add (pr_host (snd e)) acc) l acc) h).
  { induction l as [|x l IH]; intros acc h H; cbn [fold_left]; [exact H|]. apply IH. unfold count_add.
    destruct (alookup (pr_host (snd x)) acc) as [n|] eqn:L; rewrite cnt_of_ainsert; destruct (N.eqb h (pr_host (snd x))); try lia; exact H. }
  generalize (@nil (N * N)). induction fp as [|x l IH]; intros acc Hin; [destruct Hin|]. cbn [fold_left].
  destruct Hin as [->|Hin]; [|auto]. apply K. unfold count_add.
  destruct (alookup (pr_host (snd e)) acc); rewrite cnt_of_ainsert, N.eqb_refl; lia.
Qed.

Lemma cnt_pos_amem l h : 0 < cnt_of l h -> amem h l = true.
Proof. unfold cnt_of, amem. destruct (alookup h l); [reflexivity|lia]. Qed.

(* trim_counts keeps the keys *)
Lemma map_vals_sorted (f : N * N -> N) l : keys_sorted l -> keys_sorted (map (fun e => (fst e, f e)) l).
Proof. apply keys_sorted_map_snd. Qed.

Lemma trim_counts_eq l :
  trim_counts l =
  if N.ltb (counts_sum l) (2 * counts_max l)
  then map (fun e => (fst e, if N.eqb (snd e) (counts_max l) then counts_sum l - counts_max l else snd e)) l
  else l.
Proof.
  unfold trim_counts. destruct (N.ltb _ _); [|reflexivity]. apply map_ext. intros [k v]. cbn [fst snd].
  destruct (N.eqb v _); reflexivity.
Qed.

Lemma trim_counts_sorted l : keys_sorted l -> keys_sorted (trim_counts l).
Proof. intros H. rewrite trim_counts_eq. destruct (N.ltb _ _); [|exact H]. apply keys_sorted_map_snd. exact H. Qed.

Lemma trim_counts_amem l h : amem h (trim_counts l) = amem h l.
Proof.
  rewrite trim_counts_eq. destruct (N.ltb _ _); [|reflexivity]. unfold amem.
  rewrite (alookup_map_snd (fun e : N * N => if N.eqb (snd e) (counts_max l) then counts_sum l - counts_max l else snd e)).
  destruct (alookup h l); reflexivity.
Qed.
