(* C09, part 2: the routing decision and the multi-key handlers. *)
From UM Require Import Base.BytesDef Base.Dec Base.RespT Model.Slot Proofs.SlotProofs.
From Coq Require Import ZifyBool ZifyNat ZifyN Permutation.

(* ================= the routing decision ================= *)

Definition redir_times (cf : cfg) (redir : option N) : option N :=
  match redir with
  | Some t => Some t
  | None => match c_max_redir cf with Some n => Some (n - 1) | None => None end
  end.

(* what the decision must be, read off the ranges *)
Definition decide (cf : cfg) (m : meta) (redir : option N) (s : N) : decision :=
  match last_owner (m_local m) s with
  | Some n => DLocal n
  | None =>
    match last_owner (m_peer m) s with
    | Some a =>
      if c_ar cf then
        match redir_times cf redir with
        | Some t => if t =? 0 then DTooMany else DForward s a (Some (t - 1))
        | None => DForward s a None
        end
      else DMoved s a
    | None => DNotCovered s
    end
  end.

Lemma has_node_in : forall nodes a, has_node nodes a = true <-> In a nodes.
Proof.
  intros. unfold has_node. rewrite existsb_exists. split.
  - intros (x & Hx & E). apply bytes_eqb_eq in E. subst. auto.
  - intros H. exists a. split; auto. apply bytes_eqb_refl.
Qed.

Lemma owner_is_node : forall m s a, last_owner m s = Some a -> has_node (map fst m) a = true.
Proof.
  intros m s a H. apply has_node_in. destruct (last_owner_some _ _ _ H) as (rs & Hin & _).
  apply in_map_iff. exists (a, rs). auto.
Qed.

Lemma route_decide : forall cf m redir s, m_noname m = false ->
  route cf (install cf m) redir (Some s) = decide cf m redir s.
Proof.
  intros cf m redir s Hn. unfold route, decide, install. cbn [i_noname i_local i_local_nodes].
  rewrite Hn. rewrite table_correct.
  destruct (last_owner (m_local m) s) as [n|] eqn:EL.
  - rewrite (owner_is_node _ _ _ EL). reflexivity.
  - unfold send_remote. cbn [i_noname i_peer i_remote_nodes]. rewrite table_correct.
    destruct (last_owner (m_peer m) s) as [a|] eqn:EP; auto.
    destruct (c_ar cf) eqn:EA; auto.
    unfold remote_directly, redir_times. cbn [i_remote_nodes].
    rewrite (owner_is_node _ _ _ EP).
    destruct redir as [t|].
    + destruct (t =? 0); reflexivity.
    + destruct (c_max_redir cf) as [n|]; [destruct (n - 1 =? 0)|]; reflexivity.
Qed.

Definition local_covers (m : meta) (s : N) : Prop := exists n, covers (ranges_of (m_local m) n) s.
Definition peer_covers (m : meta) (s : N) : Prop := exists a, covers (ranges_of (m_peer m) a) s.

Lemma last_owner_none_covers : forall m s, last_owner m s = None <-> forall a, ~ covers (ranges_of m a) s.
Proof.
  intros m s. rewrite last_owner_none. split.
  - intros H a Hc. apply covers_ranges_of in Hc. destruct Hc as (rs & Hin & Hc). eapply H; eauto.
  - intros H a rs Hin Hc. apply (H a). apply covers_ranges_of. eauto.
Qed.

Lemma last_owner_some_covers : forall m s a, last_owner m s = Some a -> covers (ranges_of m a) s.
Proof. intros m s a H. apply covers_ranges_of. apply last_owner_some; auto. Qed.

Ltac splits := repeat match goal with |- _ /\ _ => split | |- _ <-> _ => split end.

Ltac fin0 :=
  solve [ discriminate
        | exfalso; eauto
        | eauto
        | match goal with H : _ = _ |- _ => inversion H; subst; eauto end
        | match goal with H : _ /\ _ |- _ => decompose [and] H; exfalso; eauto end ].
Ltac fin := solve [ intros; splits; intros; fin0 ].

(* the full decision theorem for a named cluster and a command with a key hashing to slot s *)
Lemma decision_spec : forall cf m redir s, m_noname m = false ->
  let d := route cf (install cf m) redir (Some s) in
  (* executed locally only at a node whose own ranges contain the slot; at exactly that node when the local nodes are
     disjoint; and always locally when some local node covers it *)
  (forall n, d = DLocal n -> covers (ranges_of (m_local m) n) s) /\
  (wf_map (m_local m) -> forall n, covers (ranges_of (m_local m) n) s -> d = DLocal n) /\
  (local_covers m s -> exists n, d = DLocal n) /\
  (* MOVED names the slot and a peer whose ranges contain it, only when no local node covers it *)
  (forall s' a, d = DMoved s' a ->
     s' = s /\ covers (ranges_of (m_peer m) a) s /\ ~ local_covers m s /\ c_ar cf = false) /\
  (* active redirection: forwarded to such a peer instead *)
  (forall s' a w, d = DForward s' a w ->
     s' = s /\ covers (ranges_of (m_peer m) a) s /\ ~ local_covers m s /\ c_ar cf = true /\
     w = option_map (fun t => t - 1) (redir_times cf redir)) /\
  (d = DTooMany -> c_ar cf = true /\ ~ local_covers m s /\ peer_covers m s /\ redir_times cf redir = Some 0) /\
  (* a peer covers it and no local node does: MOVED / forwarded (or the redirection budget is exhausted) *)
  (~ local_covers m s -> peer_covers m s ->
     (c_ar cf = false -> exists a, d = DMoved s a) /\
     (c_ar cf = true -> (exists a w, d = DForward s a w) \/ d = DTooMany)) /\
  (* the error iff nobody covers it *)
  (forall s', d = DNotCovered s' <-> s' = s /\ ~ local_covers m s /\ ~ peer_covers m s) /\
  (* unreachable outcomes *)
  d <> DDropped /\ d <> DMissingKey /\ d <> DNoCluster.
Proof.
  intros cf m redir s Hn d. subst d. rewrite (route_decide _ _ _ _ Hn). unfold decide, local_covers, peer_covers.
  destruct (last_owner (m_local m) s) as [n|] eqn:EL.
  - pose proof (last_owner_some_covers _ _ _ EL) as Hc.
    assert (Hwf1 : wf_map (m_local m) -> forall n', covers (ranges_of (m_local m) n') s -> DLocal n = DLocal n').
    { intros Hwf n' H'. f_equal. apply (last_owner_wf _ s n') in H'; auto. congruence. }
    splits; auto; try fin.
  - assert (HnoL : ~ (exists n, covers (ranges_of (m_local m) n) s)).
    { intros (n & Hc). eapply last_owner_none_covers in EL; eauto. }
    destruct (last_owner (m_peer m) s) as [a|] eqn:EP.
    + pose proof (last_owner_some_covers _ _ _ EP) as Hc.
      destruct (c_ar cf) eqn:EA.
      * destruct (redir_times cf redir) as [t|] eqn:ET.
        -- destruct (t =? 0) eqn:E0.
           ++ apply N.eqb_eq in E0. subst t. splits; auto; try fin.
           ++ splits; auto; try fin.
        -- splits; auto; try fin.
      * splits; auto; try fin.
    + assert (HnoP : ~ (exists a, covers (ranges_of (m_peer m) a) s)).
      { intros (a & Hc). eapply last_owner_none_covers in EP; eauto. }
      splits; auto; try fin.
      intros s'; split; [intros H; inversion H; subst; auto|intros (-> & _); reflexivity].
Qed.

Lemma route_noname : forall cf m redir so, m_noname m = true ->
  route cf (install cf m) redir so = no_cluster cf so.
Proof. intros. unfold route, install. cbn [i_noname]. rewrite H. reflexivity. Qed.

Lemma route_no_key : forall cf m redir, m_noname m = false ->
  route cf (install cf m) redir None = DMissingKey.
Proof. intros. unfold route, install. cbn [i_noname]. rewrite H. reflexivity. Qed.

(* ================= multi-key commands ================= *)

(* the key list the same-slot guard looks at, and whether the guard also applies under active redirection *)
Definition multi_guard (c : cmd) : option (bool * list bytes) :=
  match data_kind c with
  | DMget => Some (false, filter_some (skipn 1 c))
  | DDel | DExists =>
    match elem c 2 with Some _ => Some (false, filter_some (skipn 1 c)) | None => None end
  | DMset | DMsetnx => Some (false, pair_check_keys c)
  | DEval =>
    match elem c 2 with
    | Some ns =>
      match btoi_usize ns with
      | Some n => if n =? 1 then None else if u64_max <? 3 + eval_key_count c n then None
                  else Some (true, filter_some (firstn_N (eval_key_count c n) (skipn 3 c)))
      | None => None
      end
    | None => None
    end
  | _ => None
  end.

Lemma multi_refused : forall bk cf ins redir c always ks,
  multi_guard c = Some (always, ks) -> (c_ar cf = false \/ always = true) -> same_slot ks = false ->
  handle_data bk cf ins redir c = Out (Error e_not_same_slot) [].
Proof.
  intros bk cf ins redir c always ks Hg Hor Hs. unfold multi_guard in Hg. unfold handle_data.
  destruct (data_kind c) eqn:EK; try discriminate.
  - assert (E : same_slot (filter_some (skipn 1 c)) = false) by (injection Hg as _ <-; exact Hs).
    assert (Ha : c_ar cf = false) by (destruct Hor as [Ha|Ha]; [auto|injection Hg as <- _; discriminate]).
    unfold handle_mget. rewrite Ha, E. reflexivity.
  - assert (E : same_slot (pair_check_keys c) = false) by (injection Hg as _ <-; exact Hs).
    assert (Ha : c_ar cf = false) by (destruct Hor as [Ha|Ha]; [auto|injection Hg as <- _; discriminate]).
    unfold handle_mset. rewrite Ha, E. reflexivity.
  - assert (E : same_slot (pair_check_keys c) = false) by (injection Hg as _ <-; exact Hs).
    assert (Ha : c_ar cf = false) by (destruct Hor as [Ha|Ha]; [auto|injection Hg as <- _; discriminate]).
    unfold handle_msetnx. rewrite Ha, E. reflexivity.
  - destruct (elem c 2); [|discriminate].
    assert (E : same_slot (filter_some (skipn 1 c)) = false) by (injection Hg as _ <-; exact Hs).
    assert (Ha : c_ar cf = false) by (destruct Hor as [Ha|Ha]; [auto|injection Hg as <- _; discriminate]).
    unfold handle_multi_int. rewrite Ha, E. reflexivity.
  - destruct (elem c 2); [|discriminate].
    assert (E : same_slot (filter_some (skipn 1 c)) = false) by (injection Hg as _ <-; exact Hs).
    assert (Ha : c_ar cf = false) by (destruct Hor as [Ha|Ha]; [auto|injection Hg as <- _; discriminate]).
    unfold handle_multi_int. rewrite Ha, E. reflexivity.
  - unfold handle_eval. destruct (elem c 2) as [ns|]; [|discriminate].
    destruct (btoi_usize ns) as [n|]; [|discriminate].
    destruct (n =? 1); [discriminate|]. destruct (u64_max <? 3 + eval_key_count c n); [discriminate|].
    assert (E : same_slot (filter_some (firstn_N (eval_key_count c n) (skipn 3 c))) = false) by (injection Hg as _ <-; exact Hs).
    rewrite E. reflexivity.
Qed.

(* conversely a guard that passes is not answered by the refusal at the guard: stated through what is sent below *)

Definition out_sent (o : outcome) : list (addr * cmd) :=
  match o with
  | Out _ s => s
  | OutCanceled s => s
  | _ => []
  end.

(* command c' reached address a because the decision for `sub` was Local a / Forward to a *)
Definition sent_by (d : decision) (sub : cmd) (a : addr) (c' : cmd) : Prop :=
  (d = DLocal a /\ c' = sub) \/
  (exists s w, d = DForward s a w /\ c' = match w with None => sub | Some t => wrap sub t end).

Lemma apply_decision_sent : forall bk d sub rep sent a c',
  apply_decision bk d sub = SR rep sent -> In (a, c') sent -> sent_by d sub a c'.
Proof.
  intros bk d sub rep sent a c' H Hin. unfold sent_by.
  destruct d as [n|s x|s x w| |s| | |]; cbn [apply_decision] in H; try discriminate.
  - inversion H; subst. destruct Hin as [E|[]]. inversion E; subst. left; auto.
  - inversion H; subst. destruct Hin.
  - destruct w as [t|]; inversion H; subst; destruct Hin as [E|[]]; inversion E; subst; right; eauto.
  - inversion H; subst. destruct Hin.
  - inversion H; subst. destruct Hin.
  - inversion H; subst. destruct Hin.
  - inversion H; subst. destruct Hin.
Qed.

Lemma single_sent : forall bk cf ins rd sub a c',
  In (a, c') (out_sent (of_sres (single bk cf ins rd sub))) ->
  sent_by (route cf ins rd (cmd_slot sub)) sub a c'.
Proof.
  intros bk cf ins rd sub a c' H. unfold single in *.
  destruct (apply_decision bk (route cf ins rd (cmd_slot sub)) sub) as [rep sent|] eqn:E; cbn in H; [|destruct H].
  eapply apply_decision_sent; eauto.
Qed.

Lemma run_subs_sent : forall bk cf ins subs rs sent a c',
  run_subs bk cf ins subs = (rs, sent) -> In (a, c') sent ->
  exists sub, In sub subs /\ sent_by (route cf ins None (cmd_slot sub)) sub a c'.
Proof.
  induction subs as [|sub subs IH]; intros rs sent a c' H Hin; cbn [run_subs] in H.
  - inversion H; subst. destruct Hin.
  - destruct (run_subs bk cf ins subs) as [rs0 sent0] eqn:ER.
    unfold single in H.
    destruct (apply_decision bk (route cf ins None (cmd_slot sub)) sub) as [rep snt|] eqn:EA.
    + inversion H; subst. apply in_app_or in Hin. destruct Hin as [Hin|Hin].
      * exists sub. split; [left; auto|]. eapply apply_decision_sent; eauto.
      * destruct (IH _ _ _ _ eq_refl Hin) as (sub' & H1 & H2). exists sub'. split; [right|]; auto.
    + inversion H; subst. destruct (IH _ _ _ _ eq_refl Hin) as (sub' & H1 & H2). exists sub'. split; [right|]; auto.
Qed.

Lemma finish_sent : forall a sent, incl (out_sent (finish a sent)) sent.
Proof. intros [r| |] sent x H; cbn in H; auto. destruct H. Qed.

Lemma keys_until_none_in : forall l k, In k (keys_until_none l) -> In (Some k) l.
Proof.
  induction l as [|[b|] l IH]; intros k H; cbn [keys_until_none] in H; try destruct H.
  - subst. left; auto.
  - right. auto.
Qed.

Lemma skipn_in : forall {A} n (l : list A) x, In x (skipn n l) -> In x l.
Proof.
  induction n; intros l x H; cbn [skipn] in H; auto. destruct l; auto. right. auto.
Qed.

Lemma kv_pairs_in : forall l ps e k v, kv_pairs l = (ps, e) -> In (k, v) ps -> In (Some k) l.
Proof.
  fix IH 1. intros l ps e k v H Hin. destruct l as [|[k0|] l]; cbn [kv_pairs] in H.
  - inversion H; subst. destruct Hin.
  - destruct l as [|[v0|] l].
    + inversion H; subst. destruct Hin.
    + destruct (kv_pairs l) as [ps0 e0] eqn:E. inversion H; subst. destruct Hin as [Hin|Hin].
      * inversion Hin; subst. left; auto.
      * right. right. eapply IH; eauto.
    + inversion H; subst. destruct Hin.
  - inversion H; subst. destruct Hin.
Qed.

(* the sub commands the handlers create: one key each (MSETNX: the pairs of one slot), the key taken from the command *)
Inductive sub_of (c : cmd) : cmd -> list bytes -> Prop :=
| SubKey : forall name k, In name [s_GET; s_DEL; s_EXISTS] -> In (Some k) c ->
    sub_of c [Some name; Some k] [k]
| SubSet : forall k v, In (Some k) c -> sub_of c [Some s_SET; Some k; Some v] [k]
| SubGroup : forall k v l,
    Forall (fun kv => In (Some (fst kv)) c /\ slot (fst kv) = slot k) ((k, v) :: l) ->
    sub_of c (msetnx_cmd ((k, v) :: l)) (map fst ((k, v) :: l)).

(* every sub command is routed by the slot of (each of) its key(s) *)
Lemma sub_of_slot : forall c sub ks, sub_of c sub ks ->
  ks <> [] /\ forall k, In k ks -> In (Some k) c /\ cmd_slot sub = Some (slot k).
Proof.
  intros c sub ks H. destruct H as [name k Hn Hk|k v Hk|k v l Hall].
  - split; [discriminate|]. intros k' [<-|[]]. split; auto.
    destruct Hn as [<-|[<-|[<-|[]]]]; reflexivity.
  - split; [discriminate|]. intros k' [<-|[]]. split; auto.
  - split; [discriminate|]. intros k' Hin. apply in_map_iff in Hin. destruct Hin as ([k0 v0] & <- & Hin).
    rewrite Forall_forall in Hall. destruct (Hall _ Hin) as [H1 H2]. cbn [fst] in *. split; auto.
    change (cmd_slot (msetnx_cmd ((k, v) :: l))) with (Some (slot k)). f_equal. auto.
Qed.

(* --- grouping of MSETNX pairs --- *)
Definition group_ok (c : cmd) (g : N * list (bytes * bytes)) : Prop :=
  snd g <> [] /\ Forall (fun kv => In (Some (fst kv)) c /\ slot (fst kv) = fst g) (snd g).

Lemma group_insert_ok : forall c kv g, In (Some (fst kv)) c ->
  Forall (group_ok c) g -> Forall (group_ok c) (group_insert (slot (fst kv)) kv g).
Proof.
  intros c kv g Hk. induction g as [|[s' l] g IH]; intros Hall; cbn [group_insert].
  - constructor; [|constructor]. split; [discriminate|]. constructor; auto.
  - inversion Hall as [|x y [Hne Hf] Hrest]; subst. cbn [fst snd] in *.
    destruct (slot (fst kv) =? s') eqn:E.
    + apply N.eqb_eq in E. constructor; auto. split; cbn [fst snd].
      * destruct l; discriminate.
      * apply Forall_app. split; auto.
    + destruct (slot (fst kv) <? s').
      * constructor; auto. split; [discriminate|]. constructor; auto.
      * constructor; auto. split; auto.
Qed.

Lemma group_by_slot_ok : forall c ps, (forall kv, In kv ps -> In (Some (fst kv)) c) ->
  Forall (group_ok c) (group_by_slot ps).
Proof.
  intros c ps. unfold group_by_slot.
  assert (H : forall ps g, (forall kv, In kv ps -> In (Some (fst kv)) c) -> Forall (group_ok c) g ->
              Forall (group_ok c) (fold_left (fun g kv => group_insert (slot (fst kv)) kv g) ps g)).
  { induction ps0 as [|kv ps0 IH]; intros g Hin Hg; cbn [fold_left]; auto.
    apply IH; [intros; apply Hin; right; auto|]. apply group_insert_ok; auto. apply Hin. left; auto. }
  intros Hin. apply H; auto.
Qed.

Lemma group_sub_of : forall c g, group_ok c g -> exists ks, sub_of c (msetnx_cmd (snd g)) ks.
Proof.
  intros c [s l] [Hne Hall]. cbn [fst snd] in *. destruct l as [|[k v] l]; [congruence|].
  exists (map fst ((k, v) :: l)). apply SubGroup.
  rewrite Forall_forall in *. intros kv Hin. destruct (Hall kv Hin) as [H1 H2]. split; auto.
  destruct (Hall (k, v) (or_introl eq_refl)) as [_ H3]. cbn [fst] in H3. congruence.
Qed.

(* --- what each handler sends --- *)
Definition sent_ok (cf : cfg) (ins : installed) (c : cmd) (a : addr) (c' : cmd) : Prop :=
  exists sub ks, sub_of c sub ks /\ sent_by (route cf ins None (cmd_slot sub)) sub a c'.

Lemma handle_mget_sent : forall bk cf ins c a c',
  In (a, c') (out_sent (handle_mget bk cf ins c)) -> sent_ok cf ins c a c'.
Proof.
  intros bk cf ins c a c' H. unfold handle_mget in H.
  destruct (negb (c_ar cf) && negb (same_slot (filter_some (skipn 1 c)))); [destruct H|].
  destruct (run_subs bk cf ins (map (fun k => [Some s_GET; Some k]) (keys_until_none (skipn 1 c)))) as [rs sent] eqn:ER.
  destruct (map (fun k => [Some s_GET; Some k]) (keys_until_none (skipn 1 c))) as [|s0 subs] eqn:ES; [destruct H|].
  apply finish_sent in H. rewrite <- ES in ER.
  destruct (run_subs_sent _ _ _ _ _ _ _ _ ER H) as (sub & Hin & Hs).
  apply in_map_iff in Hin. destruct Hin as (k & <- & Hk).
  exists [Some s_GET; Some k], [k]. split; auto. apply SubKey; [left; auto|].
  eapply skipn_in. apply keys_until_none_in. eauto.
Qed.

Lemma handle_multi_int_sent : forall bk cf ins name c a c', In name [s_DEL; s_EXISTS] ->
  In (a, c') (out_sent (handle_multi_int bk cf ins name c)) -> sent_ok cf ins c a c'.
Proof.
  intros bk cf ins name c a c' Hname H. unfold handle_multi_int in H.
  destruct (negb (c_ar cf) && negb (same_slot (filter_some (skipn 1 c)))); [destruct H|].
  destruct (run_subs bk cf ins (map (fun k => [Some name; Some k]) (keys_until_none (skipn 1 c)))) as [rs sent] eqn:ER.
  destruct (map (fun k => [Some name; Some k]) (keys_until_none (skipn 1 c))) as [|s0 subs] eqn:ES; [destruct H|].
  apply finish_sent in H. rewrite <- ES in ER.
  destruct (run_subs_sent _ _ _ _ _ _ _ _ ER H) as (sub & Hin & Hs).
  apply in_map_iff in Hin. destruct Hin as (k & <- & Hk).
  exists [Some name; Some k], [k]. split; auto. apply SubKey; [right; auto|].
  eapply skipn_in. apply keys_until_none_in. eauto.
Qed.

Lemma handle_mset_sent : forall bk cf ins c a c',
  In (a, c') (out_sent (handle_mset bk cf ins c)) -> sent_ok cf ins c a c'.
Proof.
  intros bk cf ins c a c' H. unfold handle_mset in H.
  destruct (negb (c_ar cf) && negb (same_slot (pair_check_keys c))); [destruct H|].
  destruct (kv_pairs (skipn 1 c)) as [ps stopped] eqn:EP.
  destruct (run_subs bk cf ins (map (fun kv => [Some s_SET; Some (fst kv); Some (snd kv)]) ps)) as [rs sent] eqn:ER.
  assert (Hs : In (a, c') sent).
  { destruct stopped; [exact H|].
    destruct (map (fun kv => [Some s_SET; Some (fst kv); Some (snd kv)]) ps); [destruct H|].
    apply finish_sent in H. exact H. }
  destruct (run_subs_sent _ _ _ _ _ _ _ _ ER Hs) as (sub & Hin & Hsb).
  apply in_map_iff in Hin. destruct Hin as ([k v] & <- & Hk). cbn [fst snd] in *.
  exists [Some s_SET; Some k; Some v], [k]. split; auto. apply SubSet.
  eapply skipn_in. eapply kv_pairs_in; eauto.
Qed.

Lemma handle_msetnx_sent : forall bk cf ins c a c',
  In (a, c') (out_sent (handle_msetnx bk cf ins c)) -> sent_ok cf ins c a c'.
Proof.
  intros bk cf ins c a c' H. unfold handle_msetnx in H.
  destruct (negb (c_ar cf) && negb (same_slot (pair_check_keys c))); [destruct H|].
  destruct (kv_pairs (skipn 1 c)) as [ps stopped] eqn:EP.
  destruct stopped; [destruct H|].
  destruct (run_subs bk cf ins (map (fun g => msetnx_cmd (snd g)) (group_by_slot ps))) as [rs sent] eqn:ER.
  destruct (map (fun g => msetnx_cmd (snd g)) (group_by_slot ps)) as [|s0 subs] eqn:ES; [destruct H|].
  apply finish_sent in H. rewrite <- ES in ER.
  destruct (run_subs_sent _ _ _ _ _ _ _ _ ER H) as (sub & Hin & Hs).
  apply in_map_iff in Hin. destruct Hin as (g & <- & Hg).
  assert (Hok : Forall (group_ok c) (group_by_slot ps)).
  { apply group_by_slot_ok. intros [k v] Hkv. cbn [fst]. eapply skipn_in. eapply kv_pairs_in; eauto. }
  rewrite Forall_forall in Hok. destruct (group_sub_of c g (Hok g Hg)) as (ks & Hsub).
  exists (msetnx_cmd (snd g)), ks. split; auto.
Qed.

(* everything a data command causes to be sent is either the command itself, routed by its own key, or a one-key
   (one-slot) sub command built from a key of the command and routed by that key *)
Lemma data_sent : forall bk cf ins redir c a c',
  In (a, c') (out_sent (handle_data bk cf ins redir c)) ->
  sent_by (route cf ins redir (cmd_slot c)) c a c' \/ sent_ok cf ins c a c'.
Proof.
  intros bk cf ins redir c a c' H. unfold handle_data in H.
  destruct (data_kind c) eqn:EK.
  - right. eapply handle_mget_sent; eauto.
  - right. eapply handle_mset_sent; eauto.
  - right. eapply handle_msetnx_sent; eauto.
  - destruct (elem c 2).
    + right. eapply handle_multi_int_sent; eauto. left; auto.
    + left. eapply single_sent; eauto.
  - destruct (elem c 2).
    + right. eapply handle_multi_int_sent; eauto. right; left; auto.
    + left. eapply single_sent; eauto.
  - left. unfold handle_eval in H. destruct (elem c 2) as [ns|]; [|destruct H].
    destruct (btoi_usize ns) as [n|]; [|destruct H].
    destruct (n =? 1); [eapply single_sent; eauto|].
    destruct (u64_max <? 3 + eval_key_count c n); [destruct H|].
    destruct (negb (same_slot (filter_some (firstn_N (eval_key_count c n) (skipn 3 c))))); [destruct H|].
    eapply single_sent; eauto.
  - left. eapply single_sent; eauto.
  - destruct H.
  - left. eapply single_sent; eauto.
Qed.

(* an EVAL that is executed has all its declared keys in the slot it is routed by *)
Lemma eval_keys_same_slot : forall bk cf ins redir c ns n a c',
  data_kind c = DEval -> elem c 2 = Some ns -> btoi_usize ns = Some n -> n <> 1 ->
  In (a, c') (out_sent (handle_data bk cf ins redir c)) ->
  same_slot (filter_some (firstn_N (eval_key_count c n) (skipn 3 c))) = true.
Proof.
  intros bk cf ins redir c ns n a c' EK E2 EN Hn1 H. unfold handle_data in H. rewrite EK in H.
  unfold handle_eval in H. rewrite E2, EN in H.
  destruct (n =? 1) eqn:E1; [apply N.eqb_eq in E1; congruence|].
  destruct (u64_max <? 3 + eval_key_count c n); [destruct H|].
  destruct (same_slot (filter_some (firstn_N (eval_key_count c n) (skipn 3 c)))) eqn:E; [reflexivity|].
  cbn [negb out_sent refuse] in H. destruct H.
Qed.

(* no panic unless EVAL's numkeys makes 3 + numkeys overflow, or the summed integer replies overflow a usize *)
Lemma eval_panic_only_overflow : forall bk cf ins redir c,
  handle_eval bk cf ins redir c = OutPanic ->
  exists ns n, elem c 2 = Some ns /\ btoi_usize ns = Some n /\ u64_max < 3 + N.of_nat (length c).
Proof.
  intros bk cf ins redir c H. unfold handle_eval in H.
  destruct (elem c 2) as [ns|]; [|discriminate]. destruct (btoi_usize ns) as [n|] eqn:EN; [|discriminate].
  destruct (n =? 1).
  { destruct (single bk cf ins redir c); discriminate. }
  destruct (u64_max <? 3 + eval_key_count c n) eqn:E.
  - exists ns, n. repeat split; auto. apply N.ltb_lt in E. unfold eval_key_count in E. lia.
  - destruct (negb (same_slot (filter_some (firstn_N (eval_key_count c n) (skipn 3 c))))); [discriminate|].
    destruct (single bk cf ins redir c); discriminate.
Qed.

(* ================= statements in the form Props/C09.v quotes ================= *)
Lemma table_wf : forall m s a, wf_map m -> (slot_map_get (slot_map_new m) s = Some a <-> covers (ranges_of m a) s).
Proof. intros. rewrite table_correct. apply last_owner_wf; auto. Qed.

Lemma table_order : forall m m' s, Permutation m m' -> wf_map m ->
  slot_map_get (slot_map_new m) s = slot_map_get (slot_map_new m') s.
Proof. intros. rewrite !table_correct. apply last_owner_perm; auto. Qed.

Lemma table_overlap : forall m s,
  (forall a, slot_map_get (slot_map_new m) s = Some a -> In a (owners m s)) /\
  (slot_map_get (slot_map_new m) s = None <-> owners m s = []).
Proof.
  intros. rewrite table_correct. split.
  - apply last_owner_in_owners.
  - symmetry. apply owners_nil.
Qed.

Lemma multi_key_sent : forall bk cf ins redir c a c',
  In (a, c') (out_sent (handle_data bk cf ins redir c)) ->
  sent_by (route cf ins redir (cmd_slot c)) c a c' \/
  exists sub ks, sub_of c sub ks /\ ks <> [] /\
    (forall k, In k ks -> In (Some k) c /\ cmd_slot sub = Some (slot k)) /\
    sent_by (route cf ins None (cmd_slot sub)) sub a c'.
Proof.
  intros bk cf ins redir c a c' H. destruct (data_sent _ _ _ _ _ _ _ H) as [H1|(sub & ks & Hs & Hb)]; auto.
  right. exists sub, ks. destruct (sub_of_slot _ _ _ Hs) as [Hne Hk]. auto.
Qed.
