(* Slot-partition invariant (C01, C10): add_cluster.  proxy_resource_to_chunk_store with slots creates 2k consecutive
   ranges starting at 0 whose lengths are average or average+1; they cover [0, SLOT_NUM) exactly once provided
   1 <= k and 2k <= SLOT_NUM (every share is at least one slot). *)
From UM Require Import Base.BytesDef Model.Ranges Model.Broker Proofs.BrokerBase Proofs.BrokerPartRanges Proofs.BrokerPartDefs
  Proofs.BrokerPartOpsFrame Proofs.BrokerPartOpsNodes.
From Coq Require Import ZifyBool ZifyNat ZifyN.
Ltac Zify.zify_post_hook ::= Z.div_mod_to_equations.

Definition sh (rm j : N) : N := if N.ltb j rm then 1 else 0.

(* slot position after n more chunks, starting with chunk i at slot curr *)
Fixpoint endpos (av rm : N) (n : nat) (i curr : N) : N :=
  match n with
  | O => curr
  | S n' => endpos av rm n' (i + 1) (curr + av + sh rm (2 * i) + av + sh rm (2 * i + 1))
  end.

Lemma endpos_closed av rm : forall n i curr,
  endpos av rm n i curr = curr + av * (2 * N.of_nat n) + (N.min (2 * i + 2 * N.of_nat n) rm - N.min (2 * i) rm).
Proof.
  induction n as [|n IH]; intros i curr; cbn [endpos].
  - lia.
  - rewrite IH. unfold sh.
    destruct (N.ltb (2 * i) rm) eqn:E1; destruct (N.ltb (2 * i + 1) rm) eqn:E2; nia.
Qed.

Lemma endpos_ge av rm n i curr : curr <= endpos av rm n i curr.
Proof. rewrite endpos_closed. lia. Qed.

Lemma chunks_of_pairs_slots s av rm : 1 <= av -> forall pairs i curr,
  let l := chunks_of_pairs s pairs true av rm i curr in
  (forall x, cnt x (owned l) = if N.leb curr x && N.ltb x (endpos av rm (length pairs) i curr) then 1%nat else 0%nat)
  /\ Forall wf_range (flat_map chunk_all_ranges l)
  /\ no_migs l.
Proof.
  intros Hav. induction pairs as [|[a b] rest IH]; intros i curr; cbv zeta.
  - cbn [chunks_of_pairs owned flat_map length endpos]. split; [|split].
    + intros x. rewrite cnt_nil. destruct (N.leb curr x && N.ltb x curr) eqn:E; [lia|reflexivity].
    + constructor.
    + intros c [].
  - cbn [chunks_of_pairs length endpos].
    set (e1 := curr + av + (if N.ltb (2 * i) rm then 1 else 0)).
    set (e2 := e1 + av + (if N.ltb (2 * i + 1) rm then 1 else 0)).
    change (curr + av + sh rm (2 * i) + av + sh rm (2 * i + 1)) with e2.
    specialize (IH (i + 1) e2). cbv zeta in IH. destruct IH as (IHc & IHw & IHn).
    assert (H1 : curr <= e1 - 1) by (subst e1; destruct (N.ltb (2 * i) rm); lia).
    assert (H2 : e1 <= e2 - 1) by (subst e2; destruct (N.ltb (2 * i + 1) rm); lia).
    assert (N1 : norm_range (curr, e1 - 1) = (curr, e1 - 1)) by (apply norm_range_wf; exact H1).
    assert (N2 : norm_range (e1, e2 - 1) = (e1, e2 - 1)) by (apply norm_range_wf; exact H2).
    unfold rl_from_single. rewrite N1, N2.
    split; [|split].
    + intros x. unfold owned. cbn [flat_map]. unfold chunk_owned at 1.
      cbn [ck_stable0 ck_stable1 ck_mig0 ck_mig1 opt_ranges out_ranges filter flat_map app].
      rewrite !cnt_cons. fold (owned (chunks_of_pairs s rest true av rm (i + 1) e2)). rewrite IHc.
      pose proof (endpos_ge av rm (length rest) (i + 1) e2) as Hge.
      unfold ind, in_range. cbn [fst snd].
      destruct (N.leb curr x && N.leb x (e1 - 1)) eqn:A; destruct (N.leb e1 x && N.leb x (e2 - 1)) eqn:B;
        destruct (N.leb e2 x && N.ltb x (endpos av rm (length rest) (i + 1) e2)) eqn:C;
        destruct (N.leb curr x && N.ltb x (endpos av rm (length rest) (i + 1) e2)) eqn:D; lia.
    + cbn [flat_map]. unfold chunk_all_ranges at 1.
      cbn [ck_stable0 ck_stable1 ck_mig0 ck_mig1 opt_ranges flat_map app].
      constructor; [exact H1|]. constructor; [exact H2|]. exact IHw.
    + intros c [<-|Hc]; [split; reflexivity|]. apply IHn. exact Hc.
Qed.

Theorem chunk_store_part_inv s pairs :
  1 <= N.of_nat (length pairs) -> 2 * N.of_nat (length pairs) <= SLOT_NUM ->
  part_inv (proxy_resource_to_chunk_store s pairs true).
Proof.
  intros Hk1 Hk2. unfold proxy_resource_to_chunk_store.
  set (M := 2 * N.of_nat (length pairs)).
  set (av := SLOT_NUM / M). set (rm := SLOT_NUM - av * M).
  assert (HM : M <> 0) by (subst M; lia).
  assert (Hav : 1 <= av).
  { subst av. apply N.div_le_lower_bound; [exact HM|]. subst M. lia. }
  assert (Hrm : av * M + rm = SLOT_NUM /\ rm < M).
  { pose proof (N.div_mod SLOT_NUM M HM) as Hdm. pose proof (N.mod_lt SLOT_NUM M HM) as Hlt.
    fold av in Hdm. subst rm. rewrite (N.mul_comm av M). split; lia. }
  destruct (chunks_of_pairs_slots s av rm Hav pairs 0 0) as (Hc & Hw & Hn).
  constructor.
  - rewrite chunks_of_pairs_length. exact Hk2.
  - exact Hw.
  - intros pos e He. rewrite no_migs_entries in He by assumption. destruct He.
  - intros x. rewrite Hc, endpos_closed.
    replace (0 + av * (2 * N.of_nat (length pairs)) + (N.min (2 * 0 + 2 * N.of_nat (length pairs)) rm - N.min (2 * 0) rm))
      with SLOT_NUM by (fold M; lia).
    clear. destruct (N.ltb x SLOT_NUM) eqn:E; destruct (N.leb 0 x) eqn:E2; cbn [andb]; first [reflexivity|lia].
  - intros x. destruct (no_migs_in_out _ Hn) as [-> ->]. reflexivity.
  - intros pos e He. rewrite no_migs_entries in He by assumption. destruct He.
Qed.

Theorem add_cluster_part_inv s name node_num cfg choices :
  store_part_inv s -> store_part_inv (fst (add_cluster s name node_num cfg choices)).
Proof.
  intros H. unfold add_cluster.
  destruct (st_ordered s && _); cbn [fst]; [exact H|].
  destruct (amem name (st_clusters s)); cbn [fst]; [exact H|].
  destruct (negb (N.eqb (node_num mod 4) 0)) eqn:E4; cbn [fst]; [exact H|].
  destruct (N.eqb (node_num / 2) 0) eqn:E0; cbn [fst]; [exact H|].
  destruct (N.ltb SLOT_NUM (node_num / 2)) eqn:Esz; cbn [fst]; [exact H|].
  destruct (gen_chunks s (node_num / 2) 0 choices) as [pairs| |] eqn:Eg; cbn [fst]; try exact H.
  eapply store_inv_insert; [eapply store_inv_clusters; [|exact H]; reflexivity| |reflexivity].
  unfold cluster_inv. cbn [cl_chunks].
  apply gen_chunks_length in Eg; [|lia].
  apply chunk_store_part_inv; lia.
Qed.
