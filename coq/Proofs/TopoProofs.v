(* C14: what CLUSTER NODES / CLUSTER SLOTS advertise. *)
From UM Require Import Base.BytesDef Base.Dec Base.RespT Model.Slot Model.Topo Proofs.SlotProofs Proofs.SlotProofsRoute.
From Coq Require Import ZifyBool ZifyNat ZifyN.

Definition in_ranges (rs : list range) (s : N) : Prop := exists r, In r rs /\ fst r <= s /\ s <= snd r.

(* slot s is listed under address a *)
Definition adv_nodes (ls : list node_line) (a : addr) (s : N) : Prop :=
  exists l, In l ls /\ nl_addr l = a /\ in_ranges (nl_ranges l) s.
Definition adv_slots (es : list slots_entry) (a : addr) (s : N) : Prop :=
  exists e, In e es /\ se_addr e = a /\ se_start e <= s /\ s <= se_end e.

(* the view of the cluster a proxy holds, as a list of claims (address, tagged slot range): its own nodes' slot ranges
   under its service address, then the peers' *)
Definition local_claims (self : addr) (m : tmeta) : list (addr * tagged_range) :=
  map (fun sr => (self, sr)) (flat_map snd (t_local m)).
Definition peer_claims (m : tmeta) : list (addr * tagged_range) :=
  flat_map (fun e => map (fun sr => (fst e, sr)) (snd e)) (t_peer m).
Definition claims (self : addr) (m : tmeta) : list (addr * tagged_range) := local_claims self m ++ peer_claims m.

Definition shown (st : states) (c : addr * tagged_range) (s : N) : Prop :=
  should_ignore (snd c) st = false /\ in_ranges (sr_ranges (snd c)) s.

(* well-formed view: stable ranges are disjoint from everything else; a slot under migration is claimed exactly twice, by
   a MIGRATING and an IMPORTING slot range with the same range list *)
Definition complementary (t1 t2 : tag) : Prop :=
  (t1 = TMigrating /\ t2 = TImporting) \/ (t1 = TImporting /\ t2 = TMigrating).

Definition wf_view (cl : list (addr * tagged_range)) : Prop :=
  NoDup cl /\
  (forall c1 c2 s, In c1 cl -> In c2 cl -> c1 <> c2 ->
     in_ranges (sr_ranges (snd c1)) s -> in_ranges (sr_ranges (snd c2)) s ->
     sr_ranges (snd c1) = sr_ranges (snd c2) /\ complementary (sr_tag (snd c1)) (sr_tag (snd c2))) /\
  (forall c1, In c1 cl -> sr_tag (snd c1) <> TNone ->
     exists c2, In c2 cl /\ sr_ranges (snd c2) = sr_ranges (snd c1) /\ complementary (sr_tag (snd c1)) (sr_tag (snd c2))).

Lemma in_visible : forall st srs r,
  In r (visible st srs) <-> exists sr, In sr srs /\ should_ignore sr st = false /\ In r (sr_ranges sr).
Proof.
  intros st srs r. unfold visible. rewrite in_flat_map. split.
  - intros (sr & Hin & Hr). exists sr. destruct (should_ignore sr st); [destruct Hr|]. auto.
  - intros (sr & Hin & Hi & Hr). exists sr. split; auto. rewrite Hi. auto.
Qed.

Lemma in_ranges_visible : forall st srs s,
  in_ranges (visible st srs) s <-> exists sr, In sr srs /\ should_ignore sr st = false /\ in_ranges (sr_ranges sr) s.
Proof.
  intros. unfold in_ranges. split.
  - intros (r & Hr & Hb). apply in_visible in Hr. destruct Hr as (sr & H1 & H2 & H3). exists sr. eauto.
  - intros (sr & H1 & H2 & r & H3 & Hb). exists r. split; auto. apply in_visible. eauto.
Qed.

Lemma adv_helper : forall ep m st loc v a s,
  adv_nodes (gen_nodes_helper ep m st loc v) a s <->
  exists srs sr, In (a, srs) m /\ In sr srs /\ should_ignore sr st = false /\ in_ranges (sr_ranges sr) s.
Proof.
  intros. unfold adv_nodes, gen_nodes_helper. split.
  - intros (l & Hl & Ha & Hr). apply in_map_iff in Hl. destruct Hl as ([a' srs] & <- & Hin).
    cbn [nl_addr nl_ranges fst snd] in *. subst a'. apply in_ranges_visible in Hr.
    destruct Hr as (sr & H1 & H2 & H3). exists srs, sr. auto.
  - intros (srs & sr & H1 & H2 & H3 & H4).
    eexists. split; [apply in_map_iff; exists (a, srs); split; [reflexivity|exact H1]|].
    cbn [nl_addr nl_ranges fst snd]. split; auto. apply in_ranges_visible. eauto.
Qed.

Lemma in_claims : forall self m a sr,
  In (a, sr) (claims self m) <->
  (a = self /\ In sr (flat_map snd (t_local m))) \/ (exists srs, In (a, srs) (t_peer m) /\ In sr srs).
Proof.
  intros. unfold claims, local_claims, peer_claims. rewrite in_app_iff, in_map_iff, in_flat_map. split.
  - intros [(sr' & E & Hin)|([a' srs] & Hin & Hm)].
    + inversion E; subst. left. auto.
    + apply in_map_iff in Hm. destruct Hm as (sr' & E & Hs). inversion E; subst. right. exists srs. auto.
  - intros [[-> Hin]|(srs & Hin & Hs)].
    + left. exists sr. auto.
    + right. exists (a, srs). split; auto. apply in_map_iff. exists sr. auto.
Qed.

(* CLUSTER NODES lists s under a  iff  some claim of a that is not ignored covers s *)
Lemma adv_nodes_claims : forall self m st v a s,
  adv_nodes (gen_cluster_nodes self m st v) a s <-> exists sr, In (a, sr) (claims self m) /\ shown st (a, sr) s.
Proof.
  intros. unfold gen_cluster_nodes, shown. cbn [snd].
  assert (Happ : forall l1 l2, adv_nodes (l1 ++ l2) a s <-> adv_nodes l1 a s \/ adv_nodes l2 a s).
  { intros. unfold adv_nodes. split.
    - intros (l & Hl & H). apply in_app_or in Hl. destruct Hl; [left|right]; eauto.
    - intros [(l & Hl & H)|(l & Hl & H)]; exists l; split; auto; apply in_or_app; auto. }
  rewrite Happ, !adv_helper. unfold local_as_self. split.
  - intros [(srs & sr & H1 & H2 & H3 & H4)|(srs & sr & H1 & H2 & H3 & H4)].
    + destruct H1 as [E|[]]. inversion E; subst. exists sr. split; auto. apply in_claims. left. auto.
    + exists sr. split; auto. apply in_claims. right. eauto.
  - intros (sr & Hc & H3 & H4). apply in_claims in Hc. destruct Hc as [[-> Hin]|(srs & Hin & Hs)].
    + left. exists (flat_map snd (t_local m)), sr. split; [left; reflexivity|]. auto.
    + right. exists srs, sr. auto.
Qed.

Lemma slots_helper_adv : forall m st es a s, gen_slots_helper m st = Some es ->
  (adv_slots es a s <->
   exists srs sr, In (a, srs) m /\ In sr srs /\ should_ignore sr st = false /\ in_ranges (sr_ranges sr) s).
Proof.
  induction m as [|[a0 srs0] m IH]; intros st es a s H; cbn [gen_slots_helper] in H.
  - inversion H; subst. unfold adv_slots. split; [intros (e & [] & _)|intros (srs & sr & [] & _)].
  - destruct (host_port a0) as [[h p]|]; [|discriminate].
    destruct (gen_slots_helper m st) as [rest|] eqn:ER; [|discriminate]. inversion H; subst. clear H.
    specialize (IH st rest a s ER). unfold adv_slots in *. split.
    + intros (e & He & Ha & Hb). apply in_app_or in He. destruct He as [He|He].
      * apply in_map_iff in He. destruct He as (r & <- & Hr). cbn [se_addr se_start se_end] in *. subst a0.
        apply in_visible in Hr. destruct Hr as (sr & H1 & H2 & H3).
        exists srs0, sr. split; [left; auto|]. split; auto. split; auto. exists r. auto.
      * destruct (proj1 IH (ex_intro _ e (conj He (conj Ha Hb)))) as (srs & sr & H1 & H2).
        exists srs, sr. split; [right|]; auto.
    + intros (srs & sr & [E|Hin] & H2 & H3 & r & Hr & Hb).
      * inversion E; subst.
        exists {| se_start := fst r; se_end := snd r; se_host := h; se_port := p; se_addr := a |}.
        split; [|cbn; auto]. apply in_or_app. left. apply in_map_iff. exists r. split; auto.
        apply in_visible. eauto.
      * destruct (proj2 IH (ex_intro _ srs (ex_intro _ sr (conj Hin (conj H2 (conj H3 (ex_intro _ r (conj Hr Hb))))))))
          as (e & He & Hx). exists e. split; auto. apply in_or_app. right. auto.
Qed.

Lemma adv_slots_claims : forall self m st es a s, gen_cluster_slots self m st = Some es ->
  (adv_slots es a s <-> exists sr, In (a, sr) (claims self m) /\ shown st (a, sr) s).
Proof.
  intros self m st es a s H. unfold gen_cluster_slots in H.
  destruct (gen_slots_helper (local_as_self self m) st) as [l|] eqn:EL; [|discriminate].
  destruct (gen_slots_helper (t_peer m) st) as [r|] eqn:EP; [|discriminate]. inversion H; subst. clear H.
  assert (Happ : adv_slots (l ++ r) a s <-> adv_slots l a s \/ adv_slots r a s).
  { unfold adv_slots. split.
    - intros (e & He & Hx). apply in_app_or in He. destruct He; [left|right]; eauto.
    - intros [(e & He & Hx)|(e & He & Hx)]; exists e; split; auto; apply in_or_app; auto. }
  rewrite Happ, (slots_helper_adv _ _ _ a s EL), (slots_helper_adv _ _ _ a s EP).
  unfold local_as_self, shown. cbn [snd]. split.
  - intros [(srs & sr & H1 & H2 & H3 & H4)|(srs & sr & H1 & H2 & H3 & H4)].
    + destruct H1 as [E|[]]. inversion E; subst. exists sr. split; auto. apply in_claims. left. auto.
    + exists sr. split; auto. apply in_claims. right. eauto.
  - intros (sr & Hc & H3 & H4). apply in_claims in Hc. destruct Hc as [[-> Hin]|(srs & Hin & Hs)].
    + left. exists (flat_map snd (t_local m)), sr. split; [left; reflexivity|]. auto.
    + right. exists srs, sr. auto.
Qed.

(* C14_agree: both commands, both NODES versions, advertise the same (address, slot) relation *)
Lemma nodes_slots_agree : forall self m st es v a s, gen_cluster_slots self m st = Some es ->
  (adv_nodes (gen_cluster_nodes self m st v) a s <-> adv_slots es a s).
Proof. intros. rewrite adv_nodes_claims, (adv_slots_claims _ _ _ _ a s H). reflexivity. Qed.

Lemma version_field : forall self m st v l, In l (gen_cluster_nodes self m st v) ->
  nl_field l = match v with V1 => nl_addr l | V2 => nl_addr l ++ cport_suffix end.
Proof.
  intros self m st v l H. unfold gen_cluster_nodes in H. apply in_app_or in H.
  destruct H as [H|H]; unfold gen_nodes_helper in H; apply in_map_iff in H; destruct H as (e & <- & _);
    destruct v; reflexivity.
Qed.

(* ---------- uniqueness ---------- *)
Lemma complementary_sym : forall t1 t2, complementary t1 t2 -> complementary t2 t1.
Proof. intros t1 t2 [[H1 H2]|[H1 H2]]; [right|left]; auto. Qed.

Lemma shown_pair : forall st sr1 sr2, sr_ranges sr1 = sr_ranges sr2 -> complementary (sr_tag sr1) (sr_tag sr2) ->
  should_ignore sr1 st = negb (should_ignore sr2 st).
Proof.
  intros st sr1 sr2 Hr [[H1 H2]|[H1 H2]]; unfold should_ignore; rewrite H1, H2, Hr;
    destruct (is_precheck (lookup st (sr_ranges sr2))); reflexivity.
Qed.

Lemma unique_adv : forall self m st v s, wf_view (claims self m) ->
  (exists c, In c (claims self m) /\ in_ranges (sr_ranges (snd c)) s) ->
  exists a, adv_nodes (gen_cluster_nodes self m st v) a s /\
            forall a', adv_nodes (gen_cluster_nodes self m st v) a' s -> a' = a.
Proof.
  intros self m st v s (Hnd & Hpair & Hpartner) ([a sr] & Hin & Hcov). cbn [snd] in Hcov.
  (* a shown claim covering s exists *)
  assert (Hex : exists c, In c (claims self m) /\ shown st c s).
  { destruct (should_ignore sr st) eqn:Ei.
    - assert (Ht : sr_tag sr <> TNone).
      { intros Ht. unfold should_ignore in Ei. rewrite Ht in Ei. discriminate. }
      destruct (Hpartner (a, sr) Hin Ht) as ([a2 sr2] & Hin2 & Hr2 & Hc2). cbn [snd] in *.
      exists (a2, sr2). split; auto. split; cbn [snd].
      + rewrite (shown_pair st sr sr2) in Ei; auto. destruct (should_ignore sr2 st); auto; discriminate.
      + rewrite Hr2. auto.
    - exists (a, sr). split; auto. split; auto. }
  destruct Hex as ([a0 sr0] & Hin0 & Hs0 & Hc0). cbn [snd] in *.
  exists a0. split.
  - apply adv_nodes_claims. exists sr0. split; auto. split; auto.
  - intros a' Ha'. apply adv_nodes_claims in Ha'. destruct Ha' as (sr' & Hin' & Hs' & Hc'). cbn [snd] in *.
    destruct (list_eq_dec N.eq_dec a' a0) as [E|E]; auto. exfalso.
    assert (Hne : (a', sr') <> (a0, sr0)) by (intros X; inversion X; auto).
    destruct (Hpair (a', sr') (a0, sr0) s Hin' Hin0 Hne Hc' Hc0) as [Hr Hcomp]. cbn [snd] in *.
    rewrite (shown_pair st sr' sr0 Hr Hcomp) in Hs'. rewrite Hs0 in Hs'. discriminate.
Qed.

(* stronger: two different shown claims never cover the same slot, whatever the states *)
Lemma shown_unique_claim : forall cl st c1 c2 s, wf_view cl -> In c1 cl -> In c2 cl ->
  shown st c1 s -> shown st c2 s -> c1 = c2.
Proof.
  intros cl st [a1 sr1] [a2 sr2] s (Hnd & Hpair & _) H1 H2 [Hs1 Hc1] [Hs2 Hc2]. cbn [snd] in *.
  assert (Hdec : {(a1, sr1) = (a2, sr2)} + {(a1, sr1) <> (a2, sr2)}).
  { repeat decide equality; apply N.eq_dec. }
  destruct Hdec as [E|E]; auto. exfalso.
  destruct (Hpair _ _ s H1 H2 E Hc1 Hc2) as [Hr Hcomp]. cbn [snd] in *.
  rewrite (shown_pair st sr1 sr2 Hr Hcomp) in Hs1. rewrite Hs2 in Hs1. discriminate.
Qed.

(* ---------- migrating slots ---------- *)
Lemma migrating_adv : forall self m st v a1 sr1 a2 sr2 s, wf_view (claims self m) ->
  In (a1, sr1) (claims self m) -> sr_tag sr1 = TMigrating ->
  In (a2, sr2) (claims self m) -> sr_tag sr2 = TImporting ->
  sr_ranges sr1 = sr_ranges sr2 -> in_ranges (sr_ranges sr1) s ->
  forall a, adv_nodes (gen_cluster_nodes self m st v) a s <->
            a = if is_precheck (lookup st (sr_ranges sr1)) then a1 else a2.
Proof.
  intros self m st v a1 sr1 a2 sr2 s Hwf H1 T1 H2 T2 Hr Hc a.
  assert (Hc2 : in_ranges (sr_ranges sr2) s) by (rewrite <- Hr; auto).
  assert (S1 : should_ignore sr1 st = negb (is_precheck (lookup st (sr_ranges sr1)))).
  { unfold should_ignore. rewrite T1. reflexivity. }
  assert (S2 : should_ignore sr2 st = is_precheck (lookup st (sr_ranges sr1))).
  { unfold should_ignore. rewrite T2, Hr. reflexivity. }
  rewrite adv_nodes_claims. split.
  - intros (sr & Hin & Hs).
    destruct (is_precheck (lookup st (sr_ranges sr1))) eqn:EP.
    + assert (E : (a, sr) = (a1, sr1)).
      { apply (shown_unique_claim (claims self m) st _ _ s Hwf Hin H1 Hs). split; cbn [snd]; auto. }
      inversion E; auto.
    + assert (E : (a, sr) = (a2, sr2)).
      { apply (shown_unique_claim (claims self m) st _ _ s Hwf Hin H2 Hs). split; cbn [snd]; auto. }
      inversion E; auto.
  - intros ->. destruct (is_precheck (lookup st (sr_ranges sr1))) eqn:EP.
    + exists sr1. split; auto. split; cbn [snd]; auto.
    + exists sr2. split; auto. split; cbn [snd]; auto.
Qed.

(* ---------- agreement with routing for slots that are not under migration ---------- *)
Lemma in_ranges_existsb : forall rs s, in_ranges rs s <-> existsb (in_range s) rs = true.
Proof.
  intros. unfold in_ranges. rewrite existsb_exists. split; intros (r & H1 & H2); exists r; split; auto;
    apply in_range_iff; auto.
Qed.

Lemma flatten_covers : forall (m : tmap) a s,
  covers (ranges_of (flatten_map m) a) s <->
  s < SLOT_NUM /\ exists srs sr, In (a, srs) m /\ In sr srs /\ in_ranges (sr_ranges sr) s.
Proof.
  intros m a s. rewrite covers_ranges_of. unfold flatten_map, covers. split.
  - intros (rs & Hin & Hs & r & Hr & Hb). split; auto.
    apply in_map_iff in Hin. destruct Hin as ([a' srs] & E & Hin). cbn [fst snd] in E. inversion E; subst.
    apply in_flat_map in Hr. destruct Hr as (sr & H1 & H2). exists srs, sr. split; auto. split; auto. exists r. auto.
  - intros (Hs & srs & sr & H1 & H2 & r & Hr & Hb). exists (flat_map sr_ranges srs). split.
    + apply in_map_iff. exists (a, srs). auto.
    + split; auto. exists r. split; auto. apply in_flat_map. eauto.
Qed.

Lemma stable_routing : forall self m st v cf redir a sr s,
  wf_view (claims self m) -> In (a, sr) (claims self m) -> sr_tag sr = TNone ->
  in_ranges (sr_ranges sr) s -> s < SLOT_NUM ->
  let d := route cf (install cf (routing_meta m)) redir (Some s) in
  (* it is advertised at a and nowhere else *)
  (forall a', adv_nodes (gen_cluster_nodes self m st v) a' s <-> a' = a) /\
  (* a local claim: the proxy executes the command itself, at one of its nodes *)
  (In sr (flat_map snd (t_local m)) -> exists n, d = DLocal n /\ In n (map fst (t_local m))) /\
  (* a peer's claim: MOVED to exactly that peer (forwarded there under active redirection) *)
  (~ In sr (flat_map snd (t_local m)) ->
     (c_ar cf = false -> d = DMoved s a) /\
     (c_ar cf = true -> d = DTooMany \/ exists w, d = DForward s a w)).
Proof.
  intros self m st v cf redir a sr s Hwf Hin Ht Hc Hs d.
  assert (Hshown : shown st (a, sr) s).
  { split; cbn [snd]; auto. unfold should_ignore. rewrite Ht. reflexivity. }
  (* any claim covering s is this one *)
  assert (Honly : forall c, In c (claims self m) -> in_ranges (sr_ranges (snd c)) s -> c = (a, sr)).
  { intros [a' sr'] Hin' Hc'. cbn [snd] in Hc'.
    assert (Hdec : {(a', sr') = (a, sr)} + {(a', sr') <> (a, sr)}) by (repeat decide equality; apply N.eq_dec).
    destruct Hdec as [E|E]; auto. exfalso. destruct Hwf as (_ & Hpair & _).
    destruct (Hpair _ _ s Hin' Hin E Hc' Hc) as [_ [[_ X]|[_ X]]]; cbn [snd] in X; congruence. }
  split; [|split].
  - intros a'. rewrite adv_nodes_claims. split.
    + intros (sr' & Hin' & _ & Hc'). cbn [snd] in Hc'.
      pose proof (Honly (a', sr') Hin' Hc') as E. inversion E; auto.
    + intros ->. exists sr. auto.
  - intros Hloc. subst d. rewrite route_decide by reflexivity. unfold decide.
    cbn [routing_meta m_local m_peer].
    apply in_flat_map in Hloc. destruct Hloc as ([n srs] & Hn & Hsr). cbn [snd] in Hsr.
    assert (Hcov : covers (ranges_of (flatten_map (t_local m)) n) s).
    { apply flatten_covers. split; auto. exists srs, sr. auto. }
    destruct (last_owner (flatten_map (t_local m)) s) as [n'|] eqn:EL.
    + exists n'. split; auto. destruct (last_owner_some _ _ _ EL) as (rs & Hrs & _).
      unfold flatten_map in Hrs. apply in_map_iff in Hrs. destruct Hrs as ([x y] & E & Hxy). inversion E; subst.
      apply in_map_iff. exists (n', y). auto.
    + exfalso. eapply last_owner_none_covers in EL; eauto.
  - intros Hnl.
    assert (HnoL : last_owner (flatten_map (t_local m)) s = None).
    { apply last_owner_none_covers. intros n Hcov. apply flatten_covers in Hcov.
      destruct Hcov as (_ & srs & sr' & H1 & H2 & H3).
      assert (Hcl : In (self, sr') (claims self m)).
      { apply in_claims. left. split; auto. apply in_flat_map. exists (n, srs). auto. }
      pose proof (Honly _ Hcl H3) as E. inversion E; subst. apply Hnl. apply in_flat_map. exists (n, srs). auto. }
    assert (HP : last_owner (flatten_map (t_peer m)) s = Some a).
    { apply in_claims in Hin. destruct Hin as [[-> Hl]|(srs & Hp & Hsr)]; [contradiction|].
      destruct (last_owner (flatten_map (t_peer m)) s) as [a'|] eqn:EP.
      - f_equal. apply last_owner_some_covers in EP. apply flatten_covers in EP.
        destruct EP as (_ & srs' & sr' & H1 & H2 & H3).
        assert (Hcl : In (a', sr') (claims self m)) by (apply in_claims; right; eauto).
        pose proof (Honly _ Hcl H3) as E. inversion E; auto.
      - exfalso. eapply last_owner_none_covers in EP. apply EP. apply flatten_covers. split; auto.
        exists srs, sr. eauto. }
    subst d. rewrite route_decide by reflexivity. unfold decide. cbn [routing_meta m_local m_peer].
    rewrite HnoL, HP. split; intros EA; rewrite EA; auto.
    destruct (redir_times cf redir) as [t|]; [destruct (t =? 0)|]; eauto.
Qed.

(* get_states: every task's range list is a key; with distinct range lists each task reads back its own state *)
Lemma lookup_upsert_same : forall st rl v, lookup (upsert st rl v) rl = Some v.
Proof.
  induction st as [|[k x] st IH]; intros rl v; cbn [upsert lookup].
  - assert (E : ranges_eqb rl rl = true).
    { unfold ranges_eqb. induction rl as [|r rl IHr]; cbn [list_eqb]; auto.
      unfold range_eqb at 1. rewrite !N.eqb_refl. cbn [andb]. auto. }
    rewrite E. reflexivity.
  - destruct (ranges_eqb k rl) eqn:E; cbn [lookup]; rewrite E; auto.
Qed.

Lemma lookup_upsert_other : forall st rl rl' v, ranges_eqb rl rl' = false ->
  (forall k, ranges_eqb k rl = true -> ranges_eqb k rl' = false) ->
  lookup (upsert st rl v) rl' = lookup st rl'.
Proof.
  induction st as [|[k x] st IH]; intros rl rl' v Hne Hk; cbn [upsert lookup].
  - rewrite Hne. reflexivity.
  - destruct (ranges_eqb k rl) eqn:E; cbn [lookup].
    + rewrite (Hk k E). reflexivity.
    + destruct (ranges_eqb k rl'); auto.
Qed.

(* a bystander (no task, hence no state for the range list) and every proxy whose task has left PreCheck see the
   migrating slots at the destination; a proxy whose task is still in PreCheck sees them at the source *)
Lemma migrating_cases : forall self m st v a1 sr1 a2 sr2 s, wf_view (claims self m) ->
  In (a1, sr1) (claims self m) -> sr_tag sr1 = TMigrating ->
  In (a2, sr2) (claims self m) -> sr_tag sr2 = TImporting ->
  sr_ranges sr1 = sr_ranges sr2 -> in_ranges (sr_ranges sr1) s ->
  (lookup st (sr_ranges sr1) = Some PreCheck -> forall a, adv_nodes (gen_cluster_nodes self m st v) a s <-> a = a1) /\
  (lookup st (sr_ranges sr1) <> Some PreCheck -> forall a, adv_nodes (gen_cluster_nodes self m st v) a s <-> a = a2) /\
  (lookup st (sr_ranges sr1) = None -> forall a, adv_nodes (gen_cluster_nodes self m st v) a s <-> a = a2).
Proof.
  intros self m st v a1 sr1 a2 sr2 s Hwf H1 T1 H2 T2 Hr Hc.
  pose proof (migrating_adv self m st v a1 sr1 a2 sr2 s Hwf H1 T1 H2 T2 Hr Hc) as H.
  split; [|split].
  - intros E a. rewrite H, E. reflexivity.
  - intros E a. rewrite H. destruct (lookup st (sr_ranges sr1)) as [[]|]; try reflexivity. congruence.
  - intros E a. rewrite H, E. reflexivity.
Qed.
