(* C16, part B: resource bounds of the cost-annotated parser: consumed bytes, allocation, steps, recursion depth. *)
From UM Require Import Base.BytesDef Base.Dec Base.RespT Model.Resp Model.Cost
  Proofs.RespProofsA Proofs.RespProofsB Proofs.RespProofsC Proofs.CostProofsA.
From Coq Require Import ZifyBool ZifyNat ZifyN.

Definition len (b : bytes) : N := N.of_nat (length b).

(* ---------- leaves ---------- *)

Lemma line_steps_bound : forall b, line_steps b <= len b + 1.
Proof.
  intros b. unfold line_steps, len. destruct (find_lf b) as [i|] eqn:E; [|lia].
  destruct (find_lf_inv _ _ E) as (s & r & -> & _ & <-). rewrite app_length. cbn [length]. lia.
Qed.

Lemma parse_line_c_spec : forall b r c, parse_line_c b = (r, c) ->
  c_alloc c = 0 /\ c_depth c = 0 /\ c_steps c <= len b + 1 /\
  (forall d n, r = COk d n -> (2 <= n <= length b)%nat /\ c_steps c = N.of_nat n + 1 /\ (snd d - fst d + 2 = n)%nat).
Proof.
  intros b r c H. unfold parse_line_c in H. inversion H; subst. cbn [csteps c_alloc c_depth c_steps].
  repeat split; auto using line_steps_bound.
  - destruct (parse_line b) as [d' n'| | | |] eqn:E; try discriminate. cbn [of_pres] in H0. inversion H0; subst.
    destruct (parse_line_inv _ _ _ E) as (s & rest & -> & _ & -> & ->). lia.
  - destruct (parse_line b) as [d' n'| | | |] eqn:E; try discriminate. cbn [of_pres] in H0. inversion H0; subst.
    destruct (parse_line_inv _ _ _ E) as (s & rest & -> & _ & -> & ->). rewrite app_length. cbn [length]. lia.
  - destruct (parse_line b) as [d' n'| | | |] eqn:E; try discriminate. cbn [of_pres] in H0. inversion H0; subst.
    destruct (parse_line_inv _ _ _ E) as (s & rest & -> & Hs & -> & ->). unfold line_steps.
    replace (s ++ c_CR :: c_LF :: rest) with ((s ++ [c_CR]) ++ c_LF :: rest) by (rewrite <- app_assoc; reflexivity).
    rewrite find_lf_complete by (rewrite no_lf_app, Hs; reflexivity). rewrite app_length. cbn [length]. lia.
  - destruct (parse_line b) as [d' n'| | | |] eqn:E; try discriminate. cbn [of_pres] in H0. inversion H0; subst.
    destruct (parse_line_inv _ _ _ E) as (s & rest & -> & Hs & -> & ->). cbn [fst snd]. lia.
Qed.

Lemma parse_len_c_spec : forall b r c, parse_len_c b = (r, c) ->
  c_alloc c = 0 /\ c_depth c = 0 /\ c_steps c <= 2 * (len b + 1) /\
  (forall z n, r = COk z n -> (2 <= n <= length b)%nat /\ c_steps c = 2 * N.of_nat n).
Proof.
  intros b r c H. unfold parse_len_c in H. destruct (parse_line_c b) as [r1 c1] eqn:E1.
  destruct (parse_line_c_spec _ _ _ E1) as (A1 & D1 & S1 & K1). unfold cbind in H.
  destruct r1 as [d n| | | | |]; try (inversion H; subst; repeat split; try lia; intros; discriminate).
  destruct (K1 d n eq_refl) as (Kn & Ks & Kd).
  inversion H; subst. cbn [cadd csteps c_alloc c_depth c_steps]. unfold len in *.
  repeat split; try lia.
  - destruct (slice b (fst d) (snd d)) as [l|]; [|discriminate]. destruct (btoi_i64 l); inversion H0; subst. lia.
  - destruct (slice b (fst d) (snd d)) as [l|]; [|discriminate]. destruct (btoi_i64 l); inversion H0; subst. lia.
  - destruct (slice b (fst d) (snd d)) as [l|]; [|discriminate]. destruct (btoi_i64 l); inversion H0; subst. lia.
Qed.

Lemma parse_bulk_c_spec : forall b r c, parse_bulk_str_c b = (r, c) ->
  c_alloc c = 0 /\ c_depth c = 0 /\ c_steps c <= 2 * (len b + 1) + 3 /\
  (forall v n, r = COk v n -> (2 <= n <= length b)%nat /\ isize v = 1 /\ c_steps c <= 2 * N.of_nat n + 3).
Proof.
  intros b r c H. unfold parse_bulk_str_c in H. destruct (parse_len_c b) as [r1 c1] eqn:E1.
  destruct (parse_len_c_spec _ _ _ E1) as (A1 & D1 & S1 & K1). unfold cbind in H.
  destruct r1 as [z n| | | | |]; try (inversion H; subst; repeat split; try lia; intros; discriminate).
  destruct (K1 z n eq_refl) as (Kn & Ks). unfold len in *.
  destruct (Z.ltb z 0).
  { inversion H; subst. cbn [cadd csteps c_alloc c_depth c_steps]. repeat split; try lia; inversion H0; subst; try lia; reflexivity. }
  destruct (N.leb USIZE_MOD _).
  { inversion H; subst. cbn [cadd csteps c_alloc c_depth c_steps]. repeat split; try lia; discriminate. }
  destruct (N.ltb (N.of_nat (length b)) _) eqn:E2.
  { inversion H; subst. cbn [cadd csteps c_alloc c_depth c_steps]. repeat split; try lia; discriminate. }
  inversion H; subst. cbn [cadd csteps c_alloc c_depth c_steps]. repeat split; try lia.
  - destruct (slice _ _ _); [|discriminate]. destruct (bytes_eqb _ _); inversion H0; subst. lia.
  - destruct (slice _ _ _); [|discriminate]. destruct (bytes_eqb _ _); inversion H0; subst. lia.
  - destruct (slice _ _ _); [|discriminate]. destruct (bytes_eqb _ _); inversion H0; subst. reflexivity.
  - destruct (slice _ _ _); [|discriminate]. destruct (bytes_eqb _ _); inversion H0; subst. lia.
Qed.

(* ---------- the invariant carried through the recursion ---------- *)

Lemma isize_iadvance : forall k v, isize (iadvance k v) = isize v.
Proof.
  intros k. induction v as [d|d|d|d| |l IH| ] using iresp_ind'; cbn [iadvance isize]; try reflexivity.
  f_equal. induction IH as [|x t Hx Ht IHt]; cbn [map fold_right]; [reflexivity|]. rewrite Hx, IHt. reflexivity.
Qed.

Fixpoint isizes (l : list iresp) : N := match l with [] => 0 | x :: t => isize x + isizes t end.

Ltac fin :=
  repeat split; intros; try discriminate;
  repeat match goal with Hv : COk _ _ = COk _ _ |- _ => inversion Hv; clear Hv; subst end;
  cbn [isizes]; try lia; try (cbn [isize]; lia); try nia.

(* S: steps per byte, W: allocation per byte on failure, D: depth *)
Definition prc_good (S W D : N) (prc : bytes -> cres iresp * cost) : Prop :=
  forall x r c, prc x = (r, c) ->
    c_alloc c <= W * len x /\ c_steps c <= S * (len x + 1) /\ c_depth c <= D /\
    (forall v n, r = COk v n ->
       (1 <= n <= length x)%nat /\ c_alloc c + 32 <= 32 * N.of_nat n /\ c_steps c <= S * N.of_nat n /\ isize v <= N.of_nat n).


Lemma isize_arr : forall l, isize (IArr l) = 1 + isizes l.
Proof.
  intros l. cbn [isize]. f_equal.
Qed.

Lemma parse_elems_c_spec : forall S W D prc, 32 <= W -> prc_good S W D prc ->
  forall k n b c r cost, (c <= length b)%nat -> parse_elems_c prc k n b c = (r, cost) ->
    c_alloc cost <= W * (len b - N.of_nat c) /\
    c_steps cost <= (S + 2) * (len b - N.of_nat c) + S /\
    c_depth cost <= D /\
    (forall vs c', r = COk vs c' ->
       (c <= c' <= length b)%nat /\ c_alloc cost + 32 * n <= 32 * (N.of_nat c' - N.of_nat c) /\
       c_steps cost <= (S + 2) * (N.of_nat c' - N.of_nat c) /\ isizes vs <= N.of_nat c' - N.of_nat c /\
       n <= N.of_nat c' - N.of_nat c).
Proof.
  intros S W D prc HW Hg. unfold len. induction k as [|k IH]; intros n b c r cost Hc H; cbn [parse_elems_c] in H.
  - destruct (N.eqb n 0) eqn:En; inversion H; subst; cbn [czero c_alloc c_steps c_depth]; fin.
  - destruct (N.eqb n 0) eqn:En.
    { inversion H; subst; cbn [czero c_alloc c_steps c_depth]; fin. }
    destruct (length b <? c)%nat eqn:El; [lia|].
    destruct (prc (skipn c b)) as [r1 c1] eqn:E1.
    destruct (Hg _ _ _ E1) as (A1 & S1 & D1 & K1). unfold len in A1, S1. rewrite skipn_length in A1, S1.
    unfold cbind in H at 1.
    destruct r1 as [v ec| | | | |]; try (inversion H; subst; fin; fail).
    destruct (K1 v ec eq_refl) as (Kn & Ka & Ks & Ki). rewrite skipn_length in Kn.
    destruct (parse_elems_c prc k (n - 1) b (c + ec)) as [r2 c2] eqn:E2.
    assert (Hc2 : (c + ec <= length b)%nat) by lia.
    destruct (IH _ _ _ _ _ Hc2 E2) as (A2 & S2 & D2 & K2).
    unfold cbind in H.
    destruct r2 as [vs c'| | | | |];
      try (inversion H; subst; cbn [cadd c_alloc c_steps c_depth]; fin; fail).
    destruct (K2 vs c' eq_refl) as (Kc & Ka2 & Ks2 & Ki2 & Kn2).
    inversion H; subst. cbn [cadd csteps c_alloc c_steps c_depth].
    fin; rewrite ?isize_iadvance; try nia.
Qed.

Lemma parse_array_c_spec : forall S W D prc, 8 <= S -> 32 <= W -> prc_good S W D prc ->
  forall nb r c, parse_array_c prc nb = (r, c) ->
    c_alloc c <= (W + 32) * len nb /\ c_steps c <= (S + 2) * len nb + S + 3 /\ c_depth c <= D /\
    (forall v n, r = COk v n ->
       (2 <= n <= length nb)%nat /\ c_alloc c + 32 <= 32 * N.of_nat n /\ c_steps c <= (S + 2) * N.of_nat n /\
       isize v <= N.of_nat n).
Proof.
  intros S W D prc HS HW Hg nb r c H. unfold parse_array_c in H.
  destruct (parse_len_c nb) as [r1 c1] eqn:E1.
  destruct (parse_len_c_spec _ _ _ E1) as (A1 & D1 & S1 & K1). unfold cbind in H at 1. unfold len in *.
  destruct r1 as [z n0| | | | |]; try (inversion H; subst; fin; fail).
  destruct (K1 z n0 eq_refl) as (Kn & Ks).
  destruct (Z.ltb z 0).
  { inversion H; subst. cbn [cadd csteps c_alloc c_depth c_steps]. fin. }
  destruct (N.ltb ISIZE_MAX _).
  { inversion H; subst. cbn [cadd csteps c_alloc c_depth c_steps]. fin. }
  unfold cbind in H at 1.
  destruct (parse_elems_c prc (Datatypes.S (length nb)) (Z.to_N z) nb n0) as [r2 c2] eqn:E2.
  assert (Hc : (n0 <= length nb)%nat) by lia.
  destruct (parse_elems_c_spec S W D prc HW Hg _ _ _ _ _ _ Hc E2) as (A2 & S2 & D2 & K2). unfold len in *.
  unfold cbind in H. unfold ELEM_SIZE in H.
  destruct r2 as [vs c'| | | | |];
    try (inversion H; subst; cbn [cadd czero c_alloc c_depth c_steps]; fin; fail).
  destruct (K2 vs c' eq_refl) as (Kc & Ka2 & Ks2 & Ki2 & Kn2).
  inversion H; subst. cbn [cadd czero c_alloc c_depth c_steps].
  fin; rewrite ?isize_arr; try nia.
Qed.

Lemma parse_resp_c_good : forall rem,
  prc_good (8 + 3 * N.of_nat rem) (32 * (N.of_nat rem + 1)) (N.of_nat rem + 1) (parse_resp_c rem).
Proof.
  induction rem as [|rem IH]; intros x r c H; (destruct x as [|p nb]; [cbn [parse_resp_c] in H; inversion H; subst; cbn; fin|]);
    cbn [parse_resp_c] in H; unfold len; cbn [length].
  - destruct (N.eqb p c_dollar).
    { destruct (parse_bulk_str_c nb) as [r1 c1] eqn:E1. destruct (parse_bulk_c_spec _ _ _ E1) as (A1 & D1 & S1 & K1). unfold len in *.
      unfold cbind in H. destruct r1 as [v n0| | | | |]; try (inversion H; subst; cbn [cdeeper c_alloc c_depth c_steps]; fin; fail).
      destruct (K1 v n0 eq_refl) as (Kn & Ki & Ks). inversion H; subst. cbn [cdeeper cadd csteps c_alloc c_depth c_steps].
      fin; rewrite ?isize_iadvance; try nia. }
    destruct (N.eqb p c_plus).
    { destruct (parse_line_c nb) as [r1 c1] eqn:E1. destruct (parse_line_c_spec _ _ _ E1) as (A1 & D1 & S1 & K1). unfold len in *.
      unfold cbind in H. destruct r1 as [v n0| | | | |]; try (inversion H; subst; cbn [cdeeper c_alloc c_depth c_steps]; fin; fail).
      destruct (K1 v n0 eq_refl) as (Kn & Ks & Kd). inversion H; subst. cbn [cdeeper cadd csteps c_alloc c_depth c_steps isize].
      fin. }
    destruct (N.eqb p c_colon).
    { destruct (parse_line_c nb) as [r1 c1] eqn:E1. destruct (parse_line_c_spec _ _ _ E1) as (A1 & D1 & S1 & K1). unfold len in *.
      unfold cbind in H. destruct r1 as [v n0| | | | |]; try (inversion H; subst; cbn [cdeeper c_alloc c_depth c_steps]; fin; fail).
      destruct (K1 v n0 eq_refl) as (Kn & Ks & Kd). inversion H; subst. cbn [cdeeper cadd csteps c_alloc c_depth c_steps isize].
      fin. }
    destruct (N.eqb p c_minus).
    { destruct (parse_line_c nb) as [r1 c1] eqn:E1. destruct (parse_line_c_spec _ _ _ E1) as (A1 & D1 & S1 & K1). unfold len in *.
      unfold cbind in H. destruct r1 as [v n0| | | | |]; try (inversion H; subst; cbn [cdeeper c_alloc c_depth c_steps]; fin; fail).
      destruct (K1 v n0 eq_refl) as (Kn & Ks & Kd). inversion H; subst. cbn [cdeeper cadd csteps c_alloc c_depth c_steps isize].
      fin. }
    destruct (N.eqb p c_star); inversion H; subst; cbn [cdeeper csteps c_alloc c_depth c_steps]; fin.
  - destruct (N.eqb p c_dollar).
    { destruct (parse_bulk_str_c nb) as [r1 c1] eqn:E1. destruct (parse_bulk_c_spec _ _ _ E1) as (A1 & D1 & S1 & K1). unfold len in *.
      unfold cbind in H. destruct r1 as [v n0| | | | |]; try (inversion H; subst; cbn [cdeeper c_alloc c_depth c_steps]; fin; fail).
      destruct (K1 v n0 eq_refl) as (Kn & Ki & Ks). inversion H; subst. cbn [cdeeper cadd csteps c_alloc c_depth c_steps].
      fin; rewrite ?isize_iadvance; try nia. }
    destruct (N.eqb p c_plus).
    { destruct (parse_line_c nb) as [r1 c1] eqn:E1. destruct (parse_line_c_spec _ _ _ E1) as (A1 & D1 & S1 & K1). unfold len in *.
      unfold cbind in H. destruct r1 as [v n0| | | | |]; try (inversion H; subst; cbn [cdeeper c_alloc c_depth c_steps]; fin; fail).
      destruct (K1 v n0 eq_refl) as (Kn & Ks & Kd). inversion H; subst. cbn [cdeeper cadd csteps c_alloc c_depth c_steps isize].
      fin. }
    destruct (N.eqb p c_colon).
    { destruct (parse_line_c nb) as [r1 c1] eqn:E1. destruct (parse_line_c_spec _ _ _ E1) as (A1 & D1 & S1 & K1). unfold len in *.
      unfold cbind in H. destruct r1 as [v n0| | | | |]; try (inversion H; subst; cbn [cdeeper c_alloc c_depth c_steps]; fin; fail).
      destruct (K1 v n0 eq_refl) as (Kn & Ks & Kd). inversion H; subst. cbn [cdeeper cadd csteps c_alloc c_depth c_steps isize].
      fin. }
    destruct (N.eqb p c_minus).
    { destruct (parse_line_c nb) as [r1 c1] eqn:E1. destruct (parse_line_c_spec _ _ _ E1) as (A1 & D1 & S1 & K1). unfold len in *.
      unfold cbind in H. destruct r1 as [v n0| | | | |]; try (inversion H; subst; cbn [cdeeper c_alloc c_depth c_steps]; fin; fail).
      destruct (K1 v n0 eq_refl) as (Kn & Ks & Kd). inversion H; subst. cbn [cdeeper cadd csteps c_alloc c_depth c_steps isize].
      fin. }
    destruct (N.eqb p c_star); [|inversion H; subst; cbn [cdeeper csteps c_alloc c_depth c_steps]; fin].
    destruct (parse_array_c (parse_resp_c rem) nb) as [r1 c1] eqn:E1.
    assert (HS : 8 <= 8 + 3 * N.of_nat rem) by lia. assert (HW : 32 <= 32 * (N.of_nat rem + 1)) by lia.
    destruct (parse_array_c_spec _ _ _ _ HS HW IH _ _ _ E1) as (A1 & S1 & D1 & K1). unfold len in *.
    unfold cbind in H. destruct r1 as [v n0| | | | |]; try (inversion H; subst; cbn [cdeeper c_alloc c_depth c_steps]; fin; fail).
    destruct (K1 v n0 eq_refl) as (Kn & Ka & Ks & Ki). inversion H; subst. cbn [cdeeper cadd csteps c_alloc c_depth c_steps].
    fin; rewrite ?isize_iadvance; try nia.
Qed.

(* ---------- the decode call ---------- *)

Lemma decode_cost_bounds : forall b,
  let c := snd (decode_cost b) in
  c_alloc c <= 4128 * len b + 40 /\ c_steps c <= 392 * len b + 393 /\ c_depth c <= 129 /\
  (forall v n, fst (decode_cost b) = COk v n -> c_alloc c <= 32 * N.of_nat n + 8 /\ c_steps c <= 392 * N.of_nat n + 1).
Proof.
  intros b. unfold decode_cost. destruct (parse_resp_c MAX_ARRAY_NESTING b) as [r1 c1] eqn:E1.
  destruct (parse_resp_c_good _ _ _ _ E1) as (A1 & S1 & D1 & K1). unfold MAX_ARRAY_NESTING in *. unfold len in *.
  unfold cbind. destruct r1 as [v n0| | | | |]; cbn [fst snd]; try (fin; fail).
  destruct (K1 v n0 eq_refl) as (Kn & Ka & Ks & Ki).
  destruct (length b <? n0)%nat eqn:El; [lia|]. cbn [fst snd cadd c_alloc c_steps c_depth]. unfold SHARED_SIZE. fin.
Qed.
