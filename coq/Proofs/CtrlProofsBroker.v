(* The control-plane theorems instantiated on the Broker model: `served` is no longer abstract but the views the broker
   model (Model/Broker.v) serves along an operation history, and the two hypotheses of the abstract theorems are
   discharged with C04 (Proofs/BrokerEpochMain.v: history_views, same_epoch_same_content_lemma) and, for C13, with
   stays_above_general.
     served_of s0 ops lim t a = (epoch, content_id) of view_proxy lim (Broker.run s0 (firstn t ops)) a
   Broker time t = the store after the first t operations of ops (the store stays at its last value beyond length ops).
   Content identifiers: Ctrl.v keeps its content type N; a view's content (everything but the epoch) is mapped to N by the
   injective content_id of CtrlProofsBrokerEnc.v, so "installed content = content_id v" determines vp_content v. *)
From UM Require Import Base.BytesDef Model.Ranges Model.Broker Proofs.BrokerBase Proofs.BrokerEpochReach
     Proofs.BrokerEpochInv Proofs.BrokerEpochOps Proofs.BrokerEpochMain.
From UM Require Import Proofs.CtrlProofsBrokerFlat Proofs.CtrlProofsBrokerEnc.
From UM Require Import Model.Ctrl Proofs.CtrlProofsInv Proofs.CtrlProofsMain Proofs.CtrlProofsRound Proofs.CtrlProofsMig
     Proofs.CtrlProofsTwo.
From Coq Require Import ZifyBool ZifyNat ZifyN.

Definition served_of (s0 : store) (ops : list op) (lim : N) (t : nat) (a : N) : option (N * N) :=
  match view_proxy lim (Broker.run s0 (firstn t ops)) a with
  | Some (Some v) => Some (vp_epoch v, content_id v)
  | _ => None
  end.

Lemma served_of_view : forall s0 ops lim t a e c,
  served_of s0 ops lim t a = Some (e, c) ->
  exists v, view_proxy lim (Broker.run s0 (firstn t ops)) a = Some (Some v) /\ vp_epoch v = e /\ content_id v = c.
Proof.
  intros s0 ops lim t a e c H. unfold served_of in H.
  destruct (view_proxy lim (Broker.run s0 (firstn t ops)) a) as [[v|]|]; try discriminate.
  inversion H; subst. exists v. auto.
Qed.

Lemma view_served_of : forall s0 ops lim t a v,
  view_proxy lim (Broker.run s0 (firstn t ops)) a = Some (Some v) ->
  served_of s0 ops lim t a = Some (vp_epoch v, content_id v).
Proof. intros s0 ops lim t a v H. unfold served_of. rewrite H. reflexivity. Qed.

(* two points of one history: the later store is reached from the earlier one by a segment that inherits ok_ops *)
Lemma history_segment : forall s0 ops t1 t2,
  epoch_inv s0 -> ok_ops s0 ops -> (t1 <= t2)%nat ->
  let s1 := Broker.run s0 (firstn t1 ops) in
  epoch_inv s1 /\ exists seg, Broker.run s0 (firstn t2 ops) = Broker.run s1 seg /\ ok_ops s1 seg.
Proof.
  intros s0 ops t1 t2 Hinv Hok Hle s1.
  assert (O2 : ok_ops s0 (firstn t2 ops)).
  { rewrite <- (firstn_skipn t2 ops) in Hok. apply ok_ops_app in Hok. tauto. }
  assert (Sp : firstn t2 ops = firstn t1 ops ++ skipn t1 (firstn t2 ops)).
  { rewrite <- (firstn_skipn t1 (firstn t2 ops)) at 1. rewrite firstn_firstn. rewrite Nat.min_l by lia. reflexivity. }
  rewrite Sp in O2. apply ok_ops_app in O2. destruct O2 as [O1 Oseg].
  split.
  - exact (proj2 (proj2 (run_good (firstn t1 ops) s0 O1) Hinv)).
  - exists (skipn t1 (firstn t2 ops)). split; [|exact Oseg].
    rewrite Sp at 1. apply BrokerEpochReach.run_app.
Qed.

Section Instance.
Variable s0 : store.
Variable ops : list op.
Variable lim : N.
Hypothesis Hinv : epoch_inv s0.
Hypothesis Hok : ok_ops s0 ops.

Theorem served_of_mono : served_mono_prop (served_of s0 ops lim).
Proof.
  intros t1 t2 a e1 c1 e2 c2 Hle H1 H2.
  destruct (served_of_view _ _ _ _ _ _ _ H1) as [v1 [V1 [E1 _]]].
  destruct (served_of_view _ _ _ _ _ _ _ H2) as [v2 [V2 [E2 _]]].
  destruct (history_segment s0 ops t1 t2 Hinv Hok Hle) as [I1 [seg [R O]]].
  rewrite R in V2. subst e1 e2.
  exact (proj1 (history_views _ _ _ _ _ _ I1 O V1 V2)).
Qed.

Lemma same_views : forall t1 t2 a v1 v2,
  view_proxy lim (Broker.run s0 (firstn t1 ops)) a = Some (Some v1) ->
  view_proxy lim (Broker.run s0 (firstn t2 ops)) a = Some (Some v2) ->
  vp_epoch v1 = vp_epoch v2 -> v1 = v2.
Proof.
  intros t1 t2 a v1 v2 V1 V2 E.
  destruct (Nat.le_ge_cases t1 t2) as [Hle | Hge].
  - destruct (history_segment s0 ops t1 t2 Hinv Hok Hle) as [I1 [seg [R O]]]. rewrite R in V2.
    exact (same_epoch_same_content_lemma _ _ _ _ _ _ I1 O V1 V2 E).
  - destruct (history_segment s0 ops t2 t1 Hinv Hok Hge) as [I1 [seg [R O]]]. rewrite R in V1.
    symmetry. exact (same_epoch_same_content_lemma _ _ _ _ _ _ I1 O V2 V1 (eq_sym E)).
Qed.

Theorem served_of_same : served_same_prop (served_of s0 ops lim).
Proof.
  intros t1 t2 a e c1 c2 H1 H2.
  destruct (served_of_view _ _ _ _ _ _ _ H1) as [v1 [V1 [E1 C1]]].
  destruct (served_of_view _ _ _ _ _ _ _ H2) as [v2 [V2 [E2 C2]]].
  assert (v1 = v2) by (eapply same_views; eauto; congruence). subst. reflexivity.
Qed.

Notation served := (served_of s0 ops lim).

(* never older, on broker histories: what a proxy holds is the view the broker model served at that epoch *)
Theorem never_older_broker : forall pre evs a k,
  no_restart a evs = true ->
  let st := Ctrl.run served pre init in
  let st' := Ctrl.run served evs st in
  k_epoch (installed st a k) <= k_epoch (installed st' a k)
  /\ (k_epoch (installed st' a k) <> 0 ->
      exists t v, (t <= now st')%nat
        /\ view_proxy lim (Broker.run s0 (firstn t ops)) a = Some (Some v)
        /\ vp_epoch v = k_epoch (installed st' a k) /\ content_id v = k_content (installed st' a k)
        /\ (forall t' v', view_proxy lim (Broker.run s0 (firstn t' ops)) a = Some (Some v') ->
              vp_epoch v' = vp_epoch v -> v' = v)).
Proof.
  intros pre evs a k Hr st st'.
  destruct (never_older served served_of_same pre evs a k Hr) as [M G]. fold st in M, G. fold st' in M, G.
  split; [exact M|]. intros Hne. destruct (G Hne) as [[t [Ht Hs]] _].
  destruct (served_of_view _ _ _ _ _ _ _ Hs) as [v [V [E C]]].
  exists t, v. repeat split; auto.
  intros t' v' V' E'. eapply same_views; eauto.
Qed.

Theorem converge_one_round_broker : forall reports pre k addrs n,
  let st := Ctrl.run served pre init in
  queue_free k st ->
  let st' := Ctrl.run served (fst (fst (meta_round served (no_faults reports) k addrs n st))) st in
  now st' = now st /\
  forall a v kd, In a addrs ->
    view_proxy lim (Broker.run s0 (firstn (now st) ops)) a = Some (Some v) -> 0 < vp_epoch v ->
    installed st' a kd = {| k_epoch := vp_epoch v; k_content := content_id v |}.
Proof.
  intros reports pre k addrs n st Hq st'.
  destruct (converge_round served served_of_mono served_of_same reports pre k addrs n Hq) as [W G].
  split; [exact W|]. intros a v kd Hin V HE. eapply G; eauto. apply view_served_of. exact V.
Qed.

Theorem two_rounds_broker : forall reports pre k1 k2 addrs1 addrs2 n1 n2,
  let st := Ctrl.run served pre init in
  queue_free k1 st -> queue_free k2 st ->
  let ev1 := fst (fst (mig_round served (no_faults reports) k1 addrs1 n1 st)) in
  let s1 := Ctrl.run served ev1 st in
  let ev2 := fst (fst (meta_round served (no_faults reports) k2 addrs2 n2 s1)) in
  let s2 := Ctrl.run served ev2 s1 in
  (forall a m, In (Report a m) ev1 -> In (m_id m) (pending st) ->
     count_occ N.eq_dec (commits s2) (m_id m) = 1%nat /\ ~ In (m_id m) (pending s2))
  /\ now s2 = now s1
  /\ (forall a v kd, In a addrs2 ->
        view_proxy lim (Broker.run s0 (firstn (now s2) ops)) a = Some (Some v) -> 0 < vp_epoch v ->
        installed s2 a kd = {| k_epoch := vp_epoch v; k_content := content_id v |}).
Proof.
  intros reports pre k1 k2 addrs1 addrs2 n1 n2 st Hq1 Hq2 ev1 s1 ev2 s2.
  destruct (two_rounds served served_of_mono served_of_same reports pre k1 k2 addrs1 addrs2 n1 n2 Hq1 Hq2) as [A [B C]].
  split; [exact A|]. split; [exact B|].
  intros a v kd Hin V HE. eapply C; eauto. apply view_served_of. exact V.
Qed.

End Instance.

(* C13 on the broker model: the store restored from ANY snapshot `snap` (epoch_inv holds of every reachable store), epoch
   recovery run as the service runs it with m at least every epoch installed on the listed proxies, then any operations
   without accepted Restore.  No assumption links the proxies' contents or the calls in flight to this history. *)
Theorem reconverge_broker : forall snap m ops lim reports k addrs n (s : Ctrl.state),
  epoch_inv snap -> ok_ops (recover_service snap m) ops ->
  queue_free k s ->
  (forall a kd, In a addrs -> k_epoch (installed s a kd) <= m) ->
  let served := served_of (recover_service snap m) ops lim in
  let s' := Ctrl.run served (fst (fst (meta_round served (no_faults reports) k addrs n s))) s in
  forall a v kd, In a addrs ->
    view_proxy lim (Broker.run (recover_service snap m) (firstn (now s) ops)) a = Some (Some v) ->
    installed s' a kd = {| k_epoch := vp_epoch v; k_content := content_id v |}.
Proof.
  intros snap m ops lim reports k addrs n s Hinv Hok Hq Hm served s' a v kd Hin V.
  unfold s'. eapply reconverge_round; eauto; [|apply view_served_of; exact V].
  intros a' E C kd' Hin' HS.
  destruct (served_of_view _ _ _ _ _ _ _ HS) as [v' [V' [E' _]]]. subst E.
  assert (O : ok_ops (recover_epoch snap (m + 1 + 1)) (firstn (now s) ops)).
  { unfold recover_service in Hok. rewrite <- (firstn_skipn (now s) ops) in Hok. apply ok_ops_app in Hok. tauto. }
  assert (Hlt : m < m + 1 + 1) by lia.
  destruct (stays_above_general snap (m + 1 + 1) m (firstn (now s) ops) Hinv Hlt O) as [G _].
  unfold recover_service in V'. specialize (G lim a' v' V'). specialize (Hm a' kd' Hin'). lia.
Qed.
