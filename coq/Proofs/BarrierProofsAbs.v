(* C11, part 1: the counter abstraction of the barrier model and its inductive invariant.
   An abstract state is (shared counters, number of threads at every program point). One abstract rule per
   transition of Model/Barrier.v thread_step; `astep` moves one thread between program points. *)
From UM Require Import Base.BytesDef Model.Barrier.
Local Open Scope Z_scope.

Inductive alabel := AL_other | AL_handoff | AL_done | AL_panic_sub | AL_enq_failed.

(* arule sh c l sh' c' spawn: a thread at point c may move to c' (spawning an in-flight command iff spawn),
   changing the shared counters from sh to sh' *)
Inductive arule : ashared -> pclass -> alabel -> ashared -> pclass -> bool -> Prop :=
| AR_ref_inc : forall c r q e d x s,
    arule (mkAShared c r q e d x s) C_s0 AL_other (mkAShared c (r + 1) q e d x s) C_s1 false
| AR_load1_blocked : forall c r q e d x s, 0 < c ->
    arule (mkAShared c r q e d x s) C_s1 AL_other (mkAShared c r q e d x s) C_s6 false
| AR_load1_retry : forall c r q e d x s, c = 0 ->
    arule (mkAShared c r q e d x s) C_s1 AL_other (mkAShared c r q e d x s) C_s2r false
| AR_load1_fwd : forall c r q e d x s, c = 0 ->
    arule (mkAShared c r q e d x s) C_s1 AL_other (mkAShared c r q e d x s) C_s2f false
| AR_task_inc : forall c r q e d x s,
    arule (mkAShared c r q e d x s) C_s2f AL_other (mkAShared c (r + 1) q e d x s) C_s3 false
| AR_retry_dec : forall c r q e d x s,
    arule (mkAShared c r q e d x s) C_s2r AL_other (mkAShared c (r - 1) q e d x s) C_fin false
| AR_handoff_ok : forall c r q e d x s,
    arule (mkAShared c r q e d x s) C_s3 AL_handoff (mkAShared c r q e d x s) C_s4 true
| AR_handoff_err : forall c r q e d x s,
    arule (mkAShared c r q e d x s) C_s3 AL_handoff (mkAShared c r q e d x s) C_s4e false
| AR_ok_dec : forall c r q e d x s,
    arule (mkAShared c r q e d x s) C_s4 AL_other (mkAShared c (r - 1) q e d x s) C_fin false
| AR_err_task_dec : forall c r q e d x s,
    arule (mkAShared c r q e d x s) C_s4e AL_other (mkAShared c (r - 1) q e d x s) C_s4f false
| AR_err_dec : forall c r q e d x s,
    arule (mkAShared c r q e d x s) C_s4f AL_other (mkAShared c (r - 1) q e d x s) C_fin false
| AR_blocked_dec : forall c r q e d x s,
    arule (mkAShared c r q e d x s) C_s6 AL_other (mkAShared c (r - 1) q e d x s) C_s7 false
| AR_enqueue : forall c r q e d s,
    arule (mkAShared c r q e d true s) C_s7 AL_other (mkAShared c r (q + 1) (e + 1) d true s) C_s8 false
| AR_enqueue_fail : forall c r q e d s,
    arule (mkAShared c r q e d false s) C_s7 AL_enq_failed (mkAShared c r q e d false s) C_fin false
| AR_load2_blocked : forall c r q e d x s, 0 < c ->
    arule (mkAShared c r q e d x s) C_s8 AL_other (mkAShared c r q e d x s) C_fin false
| AR_load2_release : forall c r q e d x s, c = 0 ->
    arule (mkAShared c r q e d x s) C_s8 AL_other (mkAShared c r q e d x s) C_rr false
| AR_recv_empty : forall c r q e d x s, q = 0 ->
    arule (mkAShared c r q e d x s) C_rr AL_other (mkAShared c r q e d x s) C_fin false
| AR_recv_some : forall c r q e d x s, 0 < q ->
    arule (mkAShared c r q e d x s) C_rr AL_other (mkAShared c r (q - 1) e d x s) C_rh false
| AR_redispatch : forall c r q e d x s,
    arule (mkAShared c r q e d x s) C_rh AL_other (mkAShared c r q e (d + 1) x s) C_rr false
| AR_start_load : forall c r q e d x s,
    arule (mkAShared c r q e d x s) C_b0 AL_other (mkAShared c r q e d x s) C_b0c false
| AR_start_panic : forall c r q e d x s,
    arule (mkAShared c r q e d x s) C_b0 AL_other (mkAShared c r q e d x s) C_fin false
| AR_start_cas_ok_poll : forall c r q e d x s,
    arule (mkAShared c r q e d x s) C_b0c AL_other (mkAShared (c + 1) r q e d x s) C_b1 false
| AR_start_cas_ok_drop : forall c r q e d x s,
    arule (mkAShared c r q e d x s) C_b0c AL_other (mkAShared (c + 1) r q e d x s) C_bd false
| AR_start_cas_fail : forall c r q e d x s,
    arule (mkAShared c r q e d x s) C_b0c AL_other (mkAShared c r q e d x s) C_b0 false
| AR_poll_true : forall c r q e d x s, r = 0 ->
    arule (mkAShared c r q e d x s) C_b1 AL_done (mkAShared c r q e d x true) C_bd false
| AR_poll_false_again : forall c r q e d x s, r <> 0 ->
    arule (mkAShared c r q e d x s) C_b1 AL_other (mkAShared c r q e d x s) C_b1 false
| AR_poll_false_giveup : forall c r q e d x s, r <> 0 ->
    arule (mkAShared c r q e d x s) C_b1 AL_other (mkAShared c r q e d x s) C_bd false
| AR_drop_load : forall c r q e d x s,
    arule (mkAShared c r q e d x s) C_bd AL_other (mkAShared c r q e d x s) C_bdc false
| AR_drop_panic_sub : forall c r q e d x s, c = 0 ->
    arule (mkAShared c r q e d x s) C_bd AL_panic_sub (mkAShared c r q e d x s) C_bp false
| AR_drop_panic_add : forall c r q e d x s,
    arule (mkAShared c r q e d x s) C_bd AL_other (mkAShared c r q e d x s) C_bp false
| AR_drop_cas_ok_last : forall c r q e d x s, c = 1 ->
    arule (mkAShared c r q e d x s) C_bdc AL_other (mkAShared 0 r q e d x false) C_rr false
| AR_drop_cas_ok_more : forall c r q e d x s, 1 < c ->
    arule (mkAShared c r q e d x s) C_bdc AL_other (mkAShared (c - 1) r q e d x s) C_fin false
| AR_drop_cas_fail : forall c r q e d x s,
    arule (mkAShared c r q e d x s) C_bdc AL_other (mkAShared c r q e d x s) C_bd false
| AR_inflight_done : forall c r q e d x s,
    arule (mkAShared c r q e d x s) C_inf AL_other (mkAShared c (r - 1) q e d x s) C_fin false.

Definition astep (a : astate) (l : alabel) (a' : astate) : Prop :=
  exists (c c' : pclass) (sp : bool),
    1 <= a_cnt a c /\
    arule (a_sh a) c l (a_sh a') c' sp /\
    forall x, a_cnt a' x = a_cnt a x - ind x c + ind x c' + (if sp then ind x C_inf else 0).

(* the inductive invariant *)
Definition AInv (a : astate) : Prop :=
  let n := a_cnt a in
  let s := a_sh a in
  (forall x, 0 <= n x) /\
  a_running s = n C_s1 + n C_s2f + n C_s2r + 2 * n C_s3 + n C_s4 + 2 * n C_s4e + n C_s4f + n C_s6 + n C_inf /\
  a_count s = n C_b1 + n C_bd + n C_bdc + n C_bp /\
  (a_sealed s = true -> n C_s2f + n C_s3 = 0 /\ 0 < a_count s) /\
  (0 < a_queue s -> a_count s = 0 -> 0 < n C_s8 + n C_rr + n C_rh) /\
  a_enq s = a_queue s + n C_rh + a_redisp s /\
  a_rx s = true /\
  0 <= a_queue s.

Ltac all_classes H :=
  pose proof (H C_s0); pose proof (H C_s1); pose proof (H C_s2f); pose proof (H C_s2r); pose proof (H C_s3);
  pose proof (H C_s4); pose proof (H C_s4e); pose proof (H C_s4f); pose proof (H C_s6); pose proof (H C_s7);
  pose proof (H C_s8); pose proof (H C_rr); pose proof (H C_rh); pose proof (H C_b0); pose proof (H C_b0c);
  pose proof (H C_b1); pose proof (H C_bd); pose proof (H C_bdc); pose proof (H C_bp); pose proof (H C_inf);
  pose proof (H C_fin).

Lemma nonneg_after : forall (n n' : pclass -> Z) (c c' : pclass) (sp : bool),
  (forall x, 0 <= n x) -> 1 <= n c ->
  (forall x, n' x = n x - ind x c + ind x c' + (if sp then ind x C_inf else 0)) ->
  forall x, 0 <= n' x.
Proof.
  intros n n' c c' sp Hn Hc Hn' x. rewrite Hn'. specialize (Hn x).
  assert (0 <= ind x c' <= 1) by (unfold ind; destruct (pclass_eqb x c'); lia).
  assert (0 <= (if sp then ind x C_inf else 0)) by (destruct sp; unfold ind; try destruct (pclass_eqb x C_inf); lia).
  unfold ind at 1. destruct (pclass_eqb x c) eqn:E.
  - assert (x = c) by (destruct x, c; simpl in E; congruence). subst. lia.
  - lia.
Qed.

Theorem AInv_preserved : forall a l a', AInv a -> astep a l a' -> AInv a'.
Proof.
  intros [s n] l [s' n'] (Hnn & Hrun & Hcount & Hseal & Hq & Henq & Hrx & Hq0) (c & c' & sp & Hc & Hr & Hn').
  cbn [a_sh a_cnt] in *.
  assert (Hnn' : forall x, 0 <= n' x) by (eapply nonneg_after; eauto).
  unfold AInv; cbn [a_sh a_cnt].
  split; [exact Hnn'|].
  clear Hnn'.
  all_classes Hnn. clear Hnn.
  inversion Hr; subst; clear Hr;
    all_classes Hn'; clear Hn';
    cbn [a_running a_count a_sealed a_queue a_enq a_redisp a_rx] in *;
    unfold ind in *; cbn [pclass_eqb] in *;
    match goal with
    | Hs : ?b = true -> _ /\ _ |- _ => destruct b; [destruct (Hs eq_refl) | ]; clear Hs
    end;
    repeat match goal with
           | |- _ /\ _ => split
           | |- _ -> _ => intro
           end;
    try discriminate; try reflexivity; try assumption; lia.
Qed.
