From UM Require Import Base.BytesDef Base.Dec Base.RespT Model.Ttl.
From Coq Require Import ZifyBool ZifyNat ZifyN.

Lemma bytes_eqb_eq : forall a b, bytes_eqb a b = true <-> a = b.
Proof.
  induction a as [|x a IH]; intros [|y b]; cbn [bytes_eqb]; split; intros H; try discriminate; auto.
  - apply andb_true_iff in H. destruct H as [H1 H2]. apply N.eqb_eq in H1. apply IH in H2. congruence.
  - inversion H; subst. rewrite N.eqb_refl. cbn. apply IH. reflexivity.
Qed.

Lemma ttl_persistent : ttl_restore (Z_to_dec (-1)) = to_dec 0.
Proof. vm_compute. reflexivity. Qed.

Lemma Z_to_dec_nonneg_ne_minus1 : forall n, (0 <= n)%Z -> bytes_eqb (Z_to_dec n) PTTL_NO_EXPIRE = false.
Proof.
  intros n Hn. destruct (bytes_eqb (Z_to_dec n) PTTL_NO_EXPIRE) eqn:E; [|reflexivity].
  apply bytes_eqb_eq in E. unfold Z_to_dec in E.
  destruct (Z.ltb n 0) eqn:E0; [lia|].
  destruct (to_dec_spec (Z.to_N n)) as (Hd & _). rewrite E in Hd. vm_compute in Hd. discriminate.
Qed.

Lemma ttl_positive : forall n, (0 <= n < 9223372036854775808)%Z ->
  exists t, btoi_i64 (ttl_restore (Z_to_dec n)) = Some t /\ (0 < t)%Z /\ (t <= Z.max 1 n)%Z.
Proof.
  intros n Hn. unfold ttl_restore, pttl_need_to_be_no_expire, pttl_is_zero.
  rewrite Z_to_dec_nonneg_ne_minus1 by lia.
  rewrite btoi_i64_Z_to_dec by lia.
  destruct (Z.ltb n 0) eqn:E; [lia|].
  destruct (Z.eqb n 0) eqn:E0.
  - exists 1%Z. split; [vm_compute; reflexivity|lia].
  - exists n. split; [apply btoi_i64_Z_to_dec; lia|lia].
Qed.

Lemma not_found_skipped : forall dump,
  scan_entry (Integer PTTL_KEY_NOT_FOUND) dump = Skip /\
  (pull_entry dump (Integer PTTL_KEY_NOT_FOUND) = Skip \/
   (pull_entry dump (Integer PTTL_KEY_NOT_FOUND) = InvalidReply /\ forall r, dump <> Bulk r /\ dump <> BulkNil)).
Proof.
  intros dump. split.
  - unfold scan_entry. cbn. destruct dump; reflexivity.
  - unfold pull_entry. cbn. destruct dump; try (left; reflexivity); right; split; try reflexivity; intros r; split; discriminate.
Qed.

Lemma nil_dump_skipped : forall p, scan_entry (Integer p) BulkNil = Skip /\ pull_entry BulkNil (Integer p) = Skip.
Proof.
  intros p. unfold scan_entry, pull_entry. destruct (bytes_eqb p PTTL_KEY_NOT_FOUND); split; reflexivity.
Qed.

(* nothing is ever transferred for a -2 PTTL or a nil DUMP *)
Lemma no_transfer_when_missing : forall key pr dr,
  (pr = Integer PTTL_KEY_NOT_FOUND \/ dr = BulkNil) ->
  restore_cmd key (scan_entry pr dr) = None /\ restore_cmd key (pull_entry dr pr) = None.
Proof.
  intros key pr dr [->| ->].
  - destruct (not_found_skipped dr) as [H1 [H2|[H2 _]]]; rewrite H1, H2; split; reflexivity.
  - unfold scan_entry, pull_entry. destruct pr; cbn; try (split; reflexivity);
      try (destruct (bytes_eqb b PTTL_KEY_NOT_FOUND); split; reflexivity).
Qed.

(* every path that transfers builds RESTORE from the PTTL payload it read, through ttl_restore *)
Lemma paths_use_ttl_restore : forall key pr dr cmd,
  (restore_cmd key (scan_entry pr dr) = Some cmd \/ restore_cmd key (pull_entry dr pr) = Some cmd) ->
  exists p raw, pr = Integer p /\ dr = Bulk raw /\ p <> PTTL_KEY_NOT_FOUND /\
                cmd = [RESTORE; key; ttl_restore p; raw].
Proof.
  intros key pr dr cmd [H|H].
  - unfold scan_entry in H. destruct pr; try discriminate.
    destruct (bytes_eqb b PTTL_KEY_NOT_FOUND) eqn:E; destruct dr; try discriminate.
    cbn in H. inversion H; subst. exists b, b0. repeat split; auto.
    intros ->. vm_compute in E. discriminate.
  - unfold pull_entry in H. destruct dr; try discriminate; destruct pr; try discriminate;
      try (destruct (bytes_eqb _ PTTL_KEY_NOT_FOUND); discriminate).
    destruct (bytes_eqb b0 PTTL_KEY_NOT_FOUND) eqn:E; try discriminate.
    cbn in H. inversion H; subst. exists b0, b. repeat split; auto.
    intros ->. vm_compute in E. discriminate.
Qed.

(* in a batch every RESTORE carries the expiry derived from the PTTL reply of ITS OWN key and that key's own payload *)
Lemma batch_uses_own_ttl : forall l cmds cmd,
  batch_cmds l = Some cmds -> In cmd cmds ->
  exists key p raw, In (key, Integer p, Bulk raw) l /\ p <> PTTL_KEY_NOT_FOUND /\ cmd = [RESTORE; key; ttl_restore p; raw].
Proof.
  intros l cmds cmd H Hin. unfold batch_cmds in H.
  destruct (existsb _ _); [discriminate|]. inversion H; subst cmds. clear H.
  apply in_flat_map in Hin. destruct Hin as [[k e] [Hin1 Hin2]].
  apply in_map_iff in Hin1. destruct Hin1 as [[[key pr] dr] [Heq Hinl]].
  cbn [fst snd] in Heq. inversion Heq; subst k e. cbn [fst snd] in Hin2.
  destruct (restore_cmd key (scan_entry pr dr)) as [c|] eqn:E; [|destruct Hin2].
  destruct Hin2 as [<-|[]].
  destruct (paths_use_ttl_restore key pr dr c (or_introl E)) as (p & raw & -> & -> & Hp & ->).
  exists key, p, raw. auto.
Qed.

Lemma batch_keeps_order : forall l cmds, batch_cmds l = Some cmds ->
  map (fun c => nth 1 c []) cmds = map (fun x => fst (fst x)) (filter (fun x => match restore_cmd (fst (fst x)) (scan_entry (snd (fst x)) (snd x)) with Some _ => true | None => false end) l).
Proof.
  intros l cmds H. unfold batch_cmds in H. destruct (existsb _ _); [discriminate|]. inversion H; subst cmds. clear H.
  induction l as [|[[key pr] dr] l IH]; cbn [map flat_map filter fst snd]; [reflexivity|].
  destruct (restore_cmd key (scan_entry pr dr)) as [c|] eqn:E.
  - cbn [app map]. rewrite IH. f_equal.
    destruct (paths_use_ttl_restore key pr dr c (or_introl E)) as (p & raw & _ & _ & _ & ->). reflexivity.
  - cbn [app]. exact IH.
Qed.
