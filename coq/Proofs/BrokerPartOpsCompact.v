(* Slot-partition invariant (C01, C10): compact_slots (map compact_chunk) preserves part_inv.
   Under part_inv every single range list stored in a chunk list (stable slots, ranges of an entry) is well formed and
   pairwise disjoint, so RangeList::compact keeps its ownership counts (compact_cnt). *)
From UM Require Import Base.BytesDef Model.Ranges Model.Broker Proofs.BrokerBase Proofs.BrokerPartRanges Proofs.BrokerPartDefs
  Proofs.BrokerPartOpsFrame.
From Coq Require Import ZifyBool ZifyNat ZifyN.

Definition ok_rl (r : rangelist) : Prop := Forall wf_range r /\ forall s, (cnt s r <= 1)%nat.

Lemma compact_ok_cnt r s : ok_rl r -> cnt s (compact r) = cnt s r.
Proof. intros [Hw Hc]. apply (compact_cnt r Hw Hc). Qed.

Lemma compact_ok_wf r : ok_rl r -> Forall wf_range (compact r).
Proof. intros [Hw Hc]. apply (compact_cnt r Hw Hc). Qed.

(* ---------- counting inside flat_map ---------- *)
Lemma cnt_flat_map_In {A} (F : A -> rangelist) l a s : In a l -> (cnt s (F a) <= cnt s (flat_map F l))%nat.
Proof.
  induction l as [|b l IH]; intros H; [destruct H|]. cbn [flat_map]. rewrite cnt_app.
  destruct H as [->|H]; [lia|]. specialize (IH H). lia.
Qed.

Lemma cnt_flat_map_ext {A} (F G : A -> rangelist) l s :
  (forall a, In a l -> cnt s (F a) = cnt s (G a)) -> cnt s (flat_map F l) = cnt s (flat_map G l).
Proof.
  induction l as [|b l IH]; intros H; [reflexivity|]. cbn [flat_map]. rewrite !cnt_app.
  rewrite (H b (or_introl eq_refl)), IH; [reflexivity|]. intros a Ha. apply H. right. exact Ha.
Qed.

Lemma out_ranges_cons e l : out_ranges (e :: l) = (if ms_out e then ms_ranges e else []) ++ out_ranges l.
Proof. unfold out_ranges. cbn [filter]. destruct (ms_out e); reflexivity. Qed.

Lemma in_ranges_cons e l : in_ranges (e :: l) = (if ms_out e then [] else ms_ranges e) ++ in_ranges l.
Proof. unfold in_ranges. cbn [filter]. destruct (ms_out e); reflexivity. Qed.

Lemma out_ranges_app a b : out_ranges (a ++ b) = out_ranges a ++ out_ranges b.
Proof. unfold out_ranges. rewrite filter_app, flat_map_app. reflexivity. Qed.

Lemma in_ranges_app a b : in_ranges (a ++ b) = in_ranges a ++ in_ranges b.
Proof. unfold in_ranges. rewrite filter_app, flat_map_app. reflexivity. Qed.

Lemma cnt_out_In e l s : In e l -> ms_out e = true -> (cnt s (ms_ranges e) <= cnt s (out_ranges l))%nat.
Proof.
  induction l as [|b l IH]; intros H Ho; [destruct H|]. rewrite out_ranges_cons, cnt_app.
  destruct H as [->|H]; [rewrite Ho; lia|]. specialize (IH H Ho). lia.
Qed.

Lemma entries_at_In l pos e : In e (entries_at l pos) -> exists c, In c l /\ In e (ck_mig c (snd pos)).
Proof.
  unfold entries_at. destruct (nth_error l (fst pos)) as [c|] eqn:E; [|intros []].
  intros H. exists c. split; [eapply nth_error_In; exact E|exact H].
Qed.

Lemma In_entries_at l c : In c l -> exists i, forall p, entries_at l (i, p) = ck_mig c p.
Proof.
  intros H. apply In_nth_error in H. destruct H as [i Hi]. exists i. intros p. unfold entries_at. cbn [fst snd].
  rewrite Hi. reflexivity.
Qed.

Lemma cnt_out_part_owned c p s : (cnt s (out_ranges (ck_mig c p)) <= cnt s (chunk_owned c))%nat.
Proof. unfold chunk_owned. rewrite !cnt_app. destruct p; cbn [ck_mig]; lia. Qed.

Lemma cnt_stable_owned c p st s : ck_stable c p = Some st -> (cnt s st <= cnt s (chunk_owned c))%nat.
Proof. unfold chunk_owned, ck_stable. rewrite !cnt_app. destruct p; intros ->; cbn [opt_ranges]; lia. Qed.

Lemma covers_once_le l s : covers_once l -> (cnt s l <= 1)%nat.
Proof. intros H. rewrite (H s). destruct (N.ltb s SLOT_NUM); lia. Qed.

(* ---------- every stored range list is ok under part_inv ---------- *)
Lemma stable_ok l c p st : part_inv l -> In c l -> ck_stable c p = Some st -> ok_rl st.
Proof.
  intros [Sz W Nn C B T] Hc Hst. split.
  - rewrite Forall_forall in *. intros r Hr. apply W. apply in_flat_map. exists c. split; [exact Hc|].
    unfold chunk_all_ranges. unfold ck_stable in Hst. destruct p; rewrite Hst; cbn [opt_ranges]; auto using in_or_app.
  - intros s. pose proof (cnt_stable_owned c p st s Hst). pose proof (cnt_flat_map_In chunk_owned l c s Hc).
    pose proof (covers_once_le _ s C). unfold owned in *. lia.
Qed.

Lemma entry_wf l pos e : part_inv l -> In e (entries_at l pos) -> Forall wf_range (ms_ranges e).
Proof.
  intros [Sz W Nn C B T] He. apply entries_at_In in He. destruct He as (c & Hc & He).
  rewrite Forall_forall in *. intros r Hr. apply W. apply in_flat_map. exists c. split; [exact Hc|].
  unfold chunk_all_ranges. apply in_or_app. right. apply in_or_app. right.
  assert (Hin : In r (flat_map ms_ranges (ck_mig c (snd pos)))) by (apply in_flat_map; eauto).
  destruct (snd pos); cbn [ck_mig] in Hin; auto using in_or_app.
Qed.

Lemma out_entry_cnt l pos e s : part_inv l -> In e (entries_at l pos) -> ms_out e = true -> (cnt s (ms_ranges e) <= 1)%nat.
Proof.
  intros [Sz W Nn C B T] He Ho. apply entries_at_In in He. destruct He as (c & Hc & He).
  pose proof (cnt_out_In e _ s He Ho). pose proof (cnt_out_part_owned c (snd pos) s).
  pose proof (cnt_flat_map_In chunk_owned l c s Hc). pose proof (covers_once_le _ s C). unfold owned in *. lia.
Qed.

Lemma entry_ok l pos e : part_inv l -> In e (entries_at l pos) -> ok_rl (ms_ranges e).
Proof.
  intros H He. split; [eapply entry_wf; eassumption|]. intros s.
  destruct (ms_out e) eqn:Ho; [eapply out_entry_cnt; eassumption|].
  destruct (pi_twin l H pos e He) as (_ & _ & Ht).
  change (ms_ranges e) with (ms_ranges (twin e)). eapply out_entry_cnt; [exact H|exact Ht|].
  cbn [twin ms_out]. rewrite Ho. reflexivity.
Qed.

Lemma chunk_entries_ok l c p e : part_inv l -> In c l -> In e (ck_mig c p) -> ok_rl (ms_ranges e).
Proof.
  intros H Hc He. destruct (In_entries_at l c Hc) as [i Hi]. eapply (entry_ok l (i, p)); [exact H|]. rewrite Hi. exact He.
Qed.

(* ---------- compact on the components ---------- *)
Lemma cnt_out_compact es s : (forall e, In e es -> ok_rl (ms_ranges e)) ->
  cnt s (out_ranges (map compact_mig es)) = cnt s (out_ranges es).
Proof.
  induction es as [|e es IH]; intros H; [reflexivity|]. cbn [map]. rewrite !out_ranges_cons, !cnt_app.
  rewrite IH by (intros; apply H; right; assumption). cbn [compact_mig ms_out ms_ranges].
  destruct (ms_out e); [|reflexivity]. rewrite compact_ok_cnt by (apply H; left; reflexivity). reflexivity.
Qed.

Lemma cnt_in_compact es s : (forall e, In e es -> ok_rl (ms_ranges e)) ->
  cnt s (in_ranges (map compact_mig es)) = cnt s (in_ranges es).
Proof.
  induction es as [|e es IH]; intros H; [reflexivity|]. cbn [map]. rewrite !in_ranges_cons, !cnt_app.
  rewrite IH by (intros; apply H; right; assumption). cbn [compact_mig ms_out ms_ranges].
  destruct (ms_out e); [reflexivity|]. rewrite compact_ok_cnt by (apply H; left; reflexivity). reflexivity.
Qed.

Lemma cnt_opt_compact o s : (forall st, o = Some st -> ok_rl st) ->
  cnt s (opt_ranges (option_map compact o)) = cnt s (opt_ranges o).
Proof. destruct o as [st|]; intros H; cbn [option_map opt_ranges]; [|reflexivity]. apply compact_ok_cnt. auto. Qed.

Lemma entries_at_compact l pos : entries_at (map compact_chunk l) pos = map compact_mig (entries_at l pos).
Proof.
  unfold entries_at. rewrite nth_error_map. destruct (nth_error l (fst pos)) as [c|]; cbn [option_map]; [|reflexivity].
  destruct (snd pos); reflexivity.
Qed.

Theorem part_inv_compact l : part_inv l -> part_inv (compact_slots l).
Proof.
  intros H. pose proof H as [Sz W Nn C B T]. unfold compact_slots.
  assert (Hst : forall c p st, In c l -> ck_stable c p = Some st -> ok_rl st) by (intros; eapply stable_ok; eassumption).
  assert (Hen : forall c p e, In c l -> In e (ck_mig c p) -> ok_rl (ms_ranges e)) by (intros; eapply chunk_entries_ok; eassumption).
  constructor.
  - rewrite map_length. exact Sz.
  - rewrite Forall_forall. intros r Hr. apply in_flat_map in Hr. destruct Hr as (c' & Hc' & Hr).
    apply in_map_iff in Hc'. destruct Hc' as (c & <- & Hc).
    unfold chunk_all_ranges in Hr. cbn [compact_chunk ck_stable0 ck_stable1 ck_mig0 ck_mig1] in Hr.
    assert (Hm : forall p, In r (flat_map ms_ranges (map compact_mig (ck_mig c p))) -> wf_range r).
    { intros p Hp. apply in_flat_map in Hp. destruct Hp as (e' & He' & Hr'). apply in_map_iff in He'.
      destruct He' as (e & <- & He). cbn [compact_mig ms_ranges] in Hr'.
      pose proof (compact_ok_wf _ (Hen c p e Hc He)) as Hwf. rewrite Forall_forall in Hwf. auto. }
    assert (Hs : forall p, In r (opt_ranges (option_map compact (ck_stable c p))) -> wf_range r).
    { intros p Hp. destruct (ck_stable c p) as [st|] eqn:E; cbn [option_map opt_ranges] in Hp; [|destruct Hp].
      pose proof (compact_ok_wf _ (Hst c p st Hc E)) as Hwf. rewrite Forall_forall in Hwf. auto. }
    apply in_app_or in Hr. destruct Hr as [Hr|Hr]; [apply (Hs false); exact Hr|].
    apply in_app_or in Hr. destruct Hr as [Hr|Hr]; [apply (Hs true); exact Hr|].
    apply in_app_or in Hr. destruct Hr as [Hr|Hr]; [apply (Hm false); exact Hr|apply (Hm true); exact Hr].
  - intros pos e' He'. rewrite entries_at_compact in He'. apply in_map_iff in He'. destruct He' as (e & <- & He).
    cbn [compact_mig ms_ranges]. apply compact_nonempty. eapply Nn. exact He.
  - intros s. unfold owned. rewrite flat_map_concat_map, map_map, <- flat_map_concat_map.
    rewrite (cnt_flat_map_ext (fun c => chunk_owned (compact_chunk c)) chunk_owned); [apply C|].
    intros c Hc. unfold chunk_owned. cbn [compact_chunk ck_stable0 ck_stable1 ck_mig0 ck_mig1]. rewrite !cnt_app.
    rewrite (cnt_opt_compact (ck_stable0 c)) by (intros st E; apply (Hst c false st Hc E)).
    rewrite (cnt_opt_compact (ck_stable1 c)) by (intros st E; apply (Hst c true st Hc E)).
    rewrite (cnt_out_compact (ck_mig0 c)) by (intros e He; apply (Hen c false e Hc He)).
    rewrite (cnt_out_compact (ck_mig1 c)) by (intros e He; apply (Hen c true e Hc He)).
    reflexivity.
  - intros s. unfold all_in, all_out. rewrite !flat_map_concat_map, !map_map, <- !flat_map_concat_map.
    rewrite (cnt_flat_map_ext (fun c => chunk_in (compact_chunk c)) chunk_in).
    + rewrite (cnt_flat_map_ext (fun c => chunk_out (compact_chunk c)) chunk_out); [apply B|].
      intros c Hc. unfold chunk_out. cbn [compact_chunk ck_mig0 ck_mig1]. rewrite !cnt_app.
      rewrite (cnt_out_compact (ck_mig0 c)) by (intros e He; apply (Hen c false e Hc He)).
      rewrite (cnt_out_compact (ck_mig1 c)) by (intros e He; apply (Hen c true e Hc He)).
      reflexivity.
    + intros c Hc. unfold chunk_in. cbn [compact_chunk ck_mig0 ck_mig1]. rewrite !cnt_app.
      rewrite (cnt_in_compact (ck_mig0 c)) by (intros e He; apply (Hen c false e Hc He)).
      rewrite (cnt_in_compact (ck_mig1 c)) by (intros e He; apply (Hen c true e Hc He)).
      reflexivity.
  - intros pos e' He'. rewrite entries_at_compact in He'. apply in_map_iff in He'. destruct He' as (e & <- & He).
    destruct (T pos e He) as (T1 & T2 & T3). rewrite map_length, entries_at_compact.
    split; [exact T1|]. split; [exact T2|].
    change (twin (compact_mig e)) with (compact_mig (twin e)). apply in_map. exact T3.
Qed.
