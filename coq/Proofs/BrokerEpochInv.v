(* C04 / C13 groundwork: what a served proxy view depends on, the epoch invariant, and the "served pair unchanged or
   served at a fresher epoch" relation between two stores. *)
From UM Require Import Base.BytesDef Model.Ranges Model.Broker Proofs.BrokerBase Proofs.BrokerEpochReach.
From Coq Require Import ZifyBool ZifyNat ZifyN Lia.

(* ---------- view_proxy as a function of (resource entry, cluster it names if stored, global epoch) ---------- *)
Definition served (s : store) (a : N) : option (presource * option cluster) :=
  match alookup a (st_proxies s) with
  | None => None
  | Some r => Some (r, match pr_cluster r with
                       | None => None
                       | Some n => alookup n (st_clusters s)
                       end)
  end.

Definition view_of (lim addr ge : N) (x : presource * option cluster) : option vproxy :=
  let r := fst x in
  match snd x with
  | None => Some (mkVProxy None ge [mkVNode (pr_n0 r) addr true [] 0 0; mkVNode (pr_n1 r) addr true [] 0 0] [] None)
  | Some cl =>
    match limit_migration lim cl with
    | None => None
    | Some cl' =>
      match cluster_nodes cl' with
      | None => None
      | Some ns =>
        let mine := filter (fun n => N.eqb (vn_proxy n) addr) ns in
        let others := filter (fun n => vn_master n && negb (N.eqb (vn_proxy n) addr)) ns in
        Some (mkVProxy (pr_cluster r) (cl_epoch cl') mine (group_peers others []) (Some (cl_config cl')))
      end
    end
  end.

Lemma view_proxy_served lim s a :
  view_proxy lim s a = match served s a with
                       | None => None
                       | Some x => Some (view_of lim a (st_epoch s) x)
                       end.
Proof.
  unfold view_proxy, served, view_of.
  destruct (alookup a (st_proxies s)) as [r|]; [|reflexivity].
  cbn [fst snd]. destruct (pr_cluster r) as [n|]; [|reflexivity].
  destruct (alookup n (st_clusters s)) as [cl|]; reflexivity.
Qed.

Definition srv_epoch (ge : N) (x : presource * option cluster) : N :=
  match snd x with Some cl => cl_epoch cl | None => ge end.

Lemma limit_migration_epoch lim cl cl' : limit_migration lim cl = Some cl' -> cl_epoch cl' = cl_epoch cl.
Proof.
  unfold limit_migration. destruct (N.eqb lim 0); [intros H; inversion H; reflexivity|].
  destruct (limit_loop _ _ _ _ _); intros H; inversion H. reflexivity.
Qed.

Lemma view_of_epoch lim a ge x v : view_of lim a ge x = Some v -> vp_epoch v = srv_epoch ge x.
Proof.
  unfold view_of, srv_epoch. destruct (snd x) as [cl|].
  - destruct (limit_migration lim cl) as [cl'|] eqn:E; [|discriminate].
    destruct (cluster_nodes cl'); [|discriminate]. intros H. inversion H. cbn [vp_epoch].
    eapply limit_migration_epoch; eauto.
  - intros H. inversion H. reflexivity.
Qed.

(* everything of a view except its epoch *)
Definition vp_content (v : vproxy) : option N * list vnode * list (N * list vslot) * option N :=
  (vp_cluster v, vp_nodes v, vp_peers v, vp_config v).

Lemma vproxy_eq v v' : vp_epoch v = vp_epoch v' -> vp_content v = vp_content v' -> v = v'.
Proof. destruct v, v'. unfold vp_content. cbn. intros -> H. inversion H. reflexivity. Qed.

Lemma view_of_content lim a ge ge' x v v' :
  view_of lim a ge x = Some v -> view_of lim a ge' x = Some v' -> vp_content v = vp_content v'.
Proof.
  unfold view_of. destruct (snd x) as [cl|].
  - intros H H'. rewrite H in H'. inversion H'. reflexivity.
  - intros H H'. inversion H. inversion H'. reflexivity.
Qed.

(* ---------- the invariant ---------- *)
Definition epoch_inv (s : store) : Prop :=
  keys_sorted (st_clusters s) /\ keys_sorted (st_proxies s)
  /\ forall n c, alookup n (st_clusters s) = Some c -> cl_epoch c <= st_epoch s.

Lemma epoch_inv_init b : epoch_inv (init_store b).
Proof. repeat split; cbn; auto. discriminate. Qed.

Lemma served_epoch_le s a x : epoch_inv s -> served s a = Some x -> srv_epoch (st_epoch s) x <= st_epoch s.
Proof.
  intros (_ & _ & Hb). unfold served, srv_epoch. destruct (alookup a (st_proxies s)) as [r|]; [|discriminate].
  intros H. inversion H. cbn [snd]. destruct (pr_cluster r) as [n|]; [|lia].
  destruct (alookup n (st_clusters s)) eqn:E; [eauto|lia].
Qed.

(* ---------- relation between a store and a later one ---------- *)
Definition srv_rel (s s' : store) (a : N) : Prop :=
  served s' a = served s a \/
  match served s' a with
  | None => True
  | Some x => st_epoch s < srv_epoch (st_epoch s') x
  end.

Definition step_rel (s s' : store) : Prop := st_epoch s <= st_epoch s' /\ forall a, srv_rel s s' a.

Lemma step_rel_refl s : step_rel s s.
Proof. split; [lia|]. intros a. left. reflexivity. Qed.

Lemma srv_epoch_mono ge ge' x : ge <= ge' -> srv_epoch ge x <= srv_epoch ge' x.
Proof. unfold srv_epoch. destruct (snd x); lia. Qed.

Lemma step_rel_trans s1 s2 s3 : step_rel s1 s2 -> step_rel s2 s3 -> step_rel s1 s3.
Proof.
  intros [H12 R12] [H23 R23]. split; [lia|]. intros a.
  destruct (R23 a) as [E|F].
  - destruct (R12 a) as [E'|F'].
    + left. congruence.
    + right. rewrite E. destruct (served s2 a) as [x|]; [|exact I].
      pose proof (srv_epoch_mono _ _ x H23). lia.
  - right. destruct (served s3 a) as [x|]; [|exact I]. lia.
Qed.

(* the C04 statement between any two related stores *)
Lemma step_rel_views_strong s s' lim a v v' :
  epoch_inv s -> step_rel s s' ->
  view_proxy lim s a = Some (Some v) -> view_proxy lim s' a = Some (Some v') ->
  vp_epoch v < vp_epoch v' \/ (vp_epoch v <= vp_epoch v' /\ vp_content v' = vp_content v).
Proof.
  intros Hinv [Hmono Hrel]. rewrite !view_proxy_served.
  destruct (served s a) as [x|] eqn:Ex; [|discriminate].
  destruct (served s' a) as [x'|] eqn:Ex'; [|discriminate].
  intros Hv Hv'. inversion Hv as [Hv1]. inversion Hv' as [Hv1'].
  pose proof (view_of_epoch _ _ _ _ _ Hv1) as Ee. pose proof (view_of_epoch _ _ _ _ _ Hv1') as Ee'.
  pose proof (served_epoch_le _ _ _ Hinv Ex) as Hle.
  destruct (Hrel a) as [E|F].
  - rewrite Ex, Ex' in E. inversion E; subst x'.
    pose proof (view_of_content _ _ _ _ _ _ _ Hv1 Hv1') as Ec.
    pose proof (srv_epoch_mono _ _ x Hmono). right. split; [lia|congruence].
  - rewrite Ex' in F. left. lia.
Qed.

Lemma step_rel_views s s' lim a v v' :
  epoch_inv s -> step_rel s s' ->
  view_proxy lim s a = Some (Some v) -> view_proxy lim s' a = Some (Some v') ->
  vp_epoch v <= vp_epoch v' /\ (vp_content v' <> vp_content v -> vp_epoch v < vp_epoch v').
Proof.
  intros Hinv Hrel Hv Hv'. destruct (step_rel_views_strong _ _ _ _ _ _ Hinv Hrel Hv Hv') as [H|[H1 H2]].
  - split; [lia|intros _; exact H].
  - split; [exact H1|]. intros Hne. congruence.
Qed.

Lemma view_epoch_le s lim a v : epoch_inv s -> view_proxy lim s a = Some (Some v) -> vp_epoch v <= st_epoch s.
Proof.
  intros Hinv. rewrite view_proxy_served. destruct (served s a) as [x|] eqn:Ex; [|discriminate].
  intros Hv. inversion Hv as [Hv1]. rewrite (view_of_epoch _ _ _ _ _ Hv1). eapply served_epoch_le; eauto.
Qed.

(* ---------- building step_rel from the components ---------- *)
Definition cl_fresh (s s' : store) (n : N) : Prop :=
  match alookup n (st_clusters s') with
  | Some cl' => st_epoch s < cl_epoch cl'
  | None => st_epoch s < st_epoch s'
  end.

Definition cl_rel (s s' : store) : Prop :=
  forall n, alookup n (st_clusters s') = alookup n (st_clusters s) \/ cl_fresh s s' n.

Definition pr_rel (s s' : store) (a : N) : Prop :=
  alookup a (st_proxies s') = alookup a (st_proxies s) \/
  match alookup a (st_proxies s') with
  | None => True
  | Some r' => match pr_cluster r' with
               | None => st_epoch s < st_epoch s'
               | Some n => cl_fresh s s' n
               end
  end.

Lemma step_rel_build s s' :
  st_epoch s <= st_epoch s' -> cl_rel s s' -> (forall a, pr_rel s s' a) -> step_rel s s'.
Proof.
  intros Hmono Hcl Hpr. split; [exact Hmono|]. intros a. unfold srv_rel, served.
  destruct (Hpr a) as [E|F].
  - rewrite E. destruct (alookup a (st_proxies s)) as [r|]; [|left; reflexivity].
    destruct (pr_cluster r) as [n|]; [|left; reflexivity].
    destruct (Hcl n) as [E2|F2]; [left; rewrite E2; reflexivity|].
    right. unfold srv_epoch, cl_fresh in *. cbn [snd]. destruct (alookup n (st_clusters s')); exact F2.
  - right. destruct (alookup a (st_proxies s')) as [r'|]; [|exact I].
    unfold srv_epoch, cl_fresh in *. cbn [snd]. destruct (pr_cluster r') as [n|]; [|exact F].
    destruct (alookup n (st_clusters s')); exact F.
Qed.

(* ---------- tag_proxies ---------- *)
Lemma tag_lookup ps l c a :
  alookup a (tag_proxies ps l c) = alookup a ps \/
  exists r, alookup a (tag_proxies ps l c) = Some r /\ pr_cluster r = c.
Proof.
  revert ps. induction l as [|x rest IH]; intros ps; cbn [tag_proxies]; [left; reflexivity|].
  destruct (alookup x ps) as [r0|] eqn:Ex; [|apply IH].
  destruct (IH (ainsert x (set_pr_cluster r0 c) ps)) as [E|E]; [|right; exact E].
  rewrite E, alookup_ainsert. destruct (N.eqb a x) eqn:Eax; [|left; reflexivity].
  right. eexists. split; reflexivity.
Qed.

Lemma tag_sorted ps l c : keys_sorted ps -> keys_sorted (tag_proxies ps l c).
Proof.
  revert ps. induction l as [|x rest IH]; intros ps Hs; cbn [tag_proxies]; [exact Hs|].
  apply IH. destruct (alookup x ps); [apply ainsert_sorted|]; exact Hs.
Qed.

(* ---------- lookups in a sorted list after removal / map ---------- *)
Lemma alookup_aremove {V} k k0 (l : list (N * V)) :
  keys_sorted l -> alookup k0 (aremove k l) = if N.eqb k0 k then None else alookup k0 l.
Proof.
  intros Hs. destruct (N.eqb k0 k) eqn:E.
  - apply N.eqb_eq in E. subst. apply alookup_aremove_same. exact Hs.
  - apply alookup_aremove_other. intros ->. rewrite N.eqb_refl in E. discriminate.
Qed.

Lemma alookup_map {V W} (f : V -> W) k (l : list (N * V)) :
  alookup k (map (fun e => (fst e, f (snd e))) l) = option_map f (alookup k l).
Proof.
  induction l as [|[k' v] l IH]; cbn [map alookup fst snd]; [reflexivity|].
  destruct (N.eqb k k'); [reflexivity|exact IH].
Qed.

Lemma keys_sorted_map {V W} (f : V -> W) (l : list (N * V)) :
  keys_sorted l -> keys_sorted (map (fun e => (fst e, f (snd e))) l).
Proof.
  induction l as [|[k v] l IH]; cbn [map keys_sorted fst snd]; auto.
  intros [Hlt Hs]. split; auto. intros k' v' H. apply in_map_iff in H.
  destruct H as [[k2 v2] [Heq Hin]]. cbn [fst snd] in Heq. inversion Heq; subst. eauto.
Qed.

(* ---------- `good`: one store leads to another keeping the invariant and the relation ---------- *)
Definition good (s s' : store) : Prop :=
  st_epoch s <= st_epoch s' /\ (epoch_inv s -> step_rel s s' /\ epoch_inv s').

Lemma good_refl s : good s s.
Proof. split; [lia|]. intros H. split; [apply step_rel_refl|exact H]. Qed.

Lemma good_trans s1 s2 s3 : good s1 s2 -> good s2 s3 -> good s1 s3.
Proof.
  intros [M12 G12] [M23 G23]. split; [lia|]. intros H1.
  destruct (G12 H1) as [R12 H2]. destruct (G23 H2) as [R23 H3].
  split; [eapply step_rel_trans; eauto|exact H3].
Qed.

(* clusters and proxies untouched *)
Lemma good_frame s s' :
  st_clusters s' = st_clusters s -> st_proxies s' = st_proxies s -> st_epoch s <= st_epoch s' -> good s s'.
Proof.
  intros Ec Ep He. split; [lia|]. intros (H1 & H2 & H3). split.
  - apply step_rel_build; [exact He| |].
    + intros n. left. rewrite Ec. reflexivity.
    + intros a. left. rewrite Ep. reflexivity.
  - unfold epoch_inv. rewrite Ec, Ep. repeat split; auto. intros n c Hn. specialize (H3 _ _ Hn). lia.
Qed.

(* one cluster replaced / created at a fresh epoch; some proxies released, some attached to that cluster *)
Lemma good_insert s s' name cl' l1 l2 :
  st_clusters s' = ainsert name cl' (st_clusters s) ->
  st_proxies s' = tag_proxies (tag_proxies (st_proxies s) l1 None) l2 (Some name) ->
  st_epoch s < cl_epoch cl' -> cl_epoch cl' <= st_epoch s' ->
  good s s'.
Proof.
  intros Ec Ep Hf Hle. split; [lia|]. intros (H1 & H2 & H3).
  assert (Hfresh : cl_fresh s s' name) by (unfold cl_fresh; rewrite Ec, alookup_ainsert_same; exact Hf).
  split.
  - apply step_rel_build; [lia| |].
    + intros n. destruct (N.eqb n name) eqn:E.
      * apply N.eqb_eq in E. subst. right. exact Hfresh.
      * left. rewrite Ec, alookup_ainsert, E. reflexivity.
    + intros a. unfold pr_rel. rewrite Ep.
      destruct (tag_lookup (tag_proxies (st_proxies s) l1 None) l2 (Some name) a) as [E|[r [E Er]]].
      * rewrite E. destruct (tag_lookup (st_proxies s) l1 None a) as [E2|[r [E2 Er]]]; [left; exact E2|].
        right. rewrite E2, Er. lia.
      * right. rewrite E, Er. exact Hfresh.
  - unfold epoch_inv. rewrite Ec, Ep. repeat split.
    + apply ainsert_sorted; exact H1.
    + apply tag_sorted, tag_sorted; exact H2.
    + intros n c. rewrite alookup_ainsert. destruct (N.eqb n name); intros Hn.
      * inversion Hn; subst. exact Hle.
      * specialize (H3 _ _ Hn). lia.
Qed.

(* the stored cluster written back unchanged *)
Lemma good_reinsert s s' name cl :
  alookup name (st_clusters s) = Some cl ->
  st_clusters s' = ainsert name cl (st_clusters s) ->
  st_proxies s' = st_proxies s -> st_epoch s <= st_epoch s' -> good s s'.
Proof.
  intros Hl Ec Ep He. split; [lia|]. intros (H1 & H2 & H3).
  assert (Hsame : forall n, alookup n (st_clusters s') = alookup n (st_clusters s)).
  { intros n. rewrite Ec, alookup_ainsert. destruct (N.eqb n name) eqn:E; [|reflexivity].
    apply N.eqb_eq in E. subst. symmetry. exact Hl. }
  split.
  - apply step_rel_build; [exact He| |].
    + intros n. left. apply Hsame.
    + intros a. left. rewrite Ep. reflexivity.
  - unfold epoch_inv. rewrite Ep. repeat split; auto.
    + rewrite Ec. apply ainsert_sorted; exact H1.
    + intros n c. rewrite Hsame. intros Hn. specialize (H3 _ _ Hn). lia.
Qed.

(* a cluster removed, its proxies released, global epoch raised *)
Lemma good_remove s s' name l :
  st_clusters s' = aremove name (st_clusters s) ->
  st_proxies s' = tag_proxies (st_proxies s) l None ->
  st_epoch s < st_epoch s' -> good s s'.
Proof.
  intros Ec Ep He. split; [lia|]. intros (H1 & H2 & H3). split.
  - apply step_rel_build; [lia| |].
    + intros n. unfold cl_fresh. rewrite Ec, (alookup_aremove _ _ _ H1).
      destruct (N.eqb n name); [right; exact He|left; reflexivity].
    + intros a. unfold pr_rel. rewrite Ep.
      destruct (tag_lookup (st_proxies s) l None a) as [E|[r [E Er]]]; [left; exact E|].
      right. rewrite E, Er. exact He.
  - unfold epoch_inv. rewrite Ec, Ep. repeat split.
    + apply aremove_sorted; exact H1.
    + apply tag_sorted; exact H2.
    + intros n c. rewrite (alookup_aremove _ _ _ H1). destruct (N.eqb n name); [discriminate|].
      intros Hn. specialize (H3 _ _ Hn). lia.
Qed.

(* every cluster and the global epoch set to e > global epoch *)
Lemma good_setall s e : st_epoch s < e -> good s (set_all_cluster_epochs s e).
Proof.
  intros He. split; [unfold set_all_cluster_epochs; cbn [st_epoch with_clusters with_epoch]; lia|]. intros (H1 & H2 & H3). unfold set_all_cluster_epochs. split.
  - apply step_rel_build; cbn [st_epoch st_clusters st_proxies with_clusters with_epoch]; [lia| |].
    + intros n. unfold cl_fresh. cbn [st_epoch st_clusters st_proxies with_clusters with_epoch].
      rewrite (alookup_map (fun c => set_cl_epoch c e)).
      destruct (alookup n (st_clusters s)); cbn [option_map]; [right; exact He|left; reflexivity].
    + intros a. left. reflexivity.
  - unfold epoch_inv. cbn [st_epoch st_clusters st_proxies with_clusters with_epoch]. repeat split.
    + apply (keys_sorted_map (fun c => set_cl_epoch c e)); exact H1.
    + exact H2.
    + intros n c. rewrite (alookup_map (fun c => set_cl_epoch c e)).
      destruct (alookup n (st_clusters s)); cbn [option_map]; [|discriminate].
      intros Hn. inversion Hn. cbn [cl_epoch set_cl_epoch]. lia.
Qed.
