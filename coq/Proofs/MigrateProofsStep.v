(* Preservation of the invariant by every step of the migration model (property C03). *)
From UM Require Import Base.BytesDef Base.RespT Model.Ttl Model.Migrate Proofs.TtlProofs Proofs.MigrateProofsBase
  Proofs.MigrateProofsInv Proofs.MigrateProofsFrame.

Ltac unfold_cls :=
  unfold needs_klock, needs_slock, in_pull, in_handler, held, half_dump, half_pttl, saw_none, del_pending, at_fwd,
         ready_del, is_delete, cl_lock, cl_pending, cl_started, post_pc, pc_klock, set_pc, set_cl in *;
  cbn [opc ocmd ocl in_slow holder scan_holder scan_holding visiting] in *.

(* facts about op i in state s, with the op destructed *)
Ltac start I Hn :=
  pose proof (i_glob _ I) as G; pose proof (i_wf _ I _ _ Hn) as W; pose proof (i_loc _ I _ _ Hn) as Lo.

Lemma other_holders_klock : forall s i, Inv s -> klock (gl s) = Some i ->
  forall j oj, j <> i -> nth_error (ops s) j = Some oj -> holder (opc oj) = false.
Proof.
  intros s i I K j oj N Hj. destruct (holder (opc oj)) eqn:E; auto.
  apply holder_klock in E. apply (l_klock _ _ _ (i_loc _ I _ _ Hj)) in E. congruence.
Qed.

Lemma holders_uncommitted : forall s, Inv s -> committed (gl s) = true ->
  forall j oj, nth_error (ops s) j = Some oj -> holder (opc oj) = false.
Proof.
  intros s I K j oj Hj. destruct (holder (opc oj)) eqn:E; auto.
  apply held_holder in E. destruct (held oj) as [[r t]|] eqn:Eh; [|congruence].
  destruct (l_held _ _ _ (i_loc _ I _ _ Hj) _ _ Eh) as [X _]. congruence.
Qed.

Lemma ready_src_none : forall s j oj, Inv s -> nth_error (ops s) j = Some oj -> ready_del oj = true -> src (gl s) = None.
Proof. intros s j oj I Hj R. apply ready_none in R. exact (l_none _ _ _ (i_loc _ I _ _ Hj) R). Qed.

Lemma no_ready_if_src : forall s, Inv s -> src (gl s) <> None ->
  forall j oj, nth_error (ops s) j = Some oj -> ready_del oj = false.
Proof.
  intros s I S j oj Hj. destruct (ready_del oj) eqn:E; auto. exfalso. apply S. eapply ready_src_none; eauto.
Qed.

Lemma committed_src_none : forall g, Glob g -> committed g = true -> src g = None /\ scan g = SPassed.
Proof.
  intros g G C. destruct G as [Gw Gs Gd Gp Gv Gf Gc Gt Gr Gl Ga]. apply Gc in C.
  assert (S : scan g = SPassed) by (apply Gf; rewrite C; reflexivity). split; auto.
Qed.

Lemma committed_frozen : forall g, Glob g -> committed g = true -> frozen g = true.
Proof. intros g G C. apply (g_commit _ G) in C. unfold frozen. rewrite C. reflexivity. Qed.

(* an operation step that leaves the globals unchanged *)
Lemma inv_upd_same : forall s i o o',
  Inv s -> nth_error (ops s) i = Some o -> Wf o' -> Loc (gl s) i o' ->
  (ready_del o' = true -> ready_del o = false ->
     (forall j oj, j <> i -> nth_error (ops s) j = Some oj -> holder (opc oj) = false) /\ scan_holder (scan (gl s)) = false) ->
  (holder (opc o') = true -> holder (opc o) = false ->
     forall j oj, j <> i -> nth_error (ops s) j = Some oj -> ready_del oj = false) ->
  Inv (mkState (gl s) (upd i o' (ops s))).
Proof. intros. eapply inv_upd; eauto. apply (i_glob _ H). Qed.

Ltac wf_tac W := destruct W as [Wc Wp Wl]; constructor; unfold_cls; auto; try congruence; try discriminate.
Ltac loc_tac Lo := destruct Lo as [Lk Ls Lw Lf Lh Ld Lp Ln Lq Lx]; constructor; unfold_cls; simp_g; auto; try congruence; try discriminate.
Ltac noready := unfold_cls; rewrite ?andb_false_r; intros; try discriminate.

(* ---------- routing ---------- *)
Lemma ev_simple_route : forall s i c p p' cl,
  Inv s -> nth_error (ops s) i = Some (mkOp c p cl) ->
  (p = PAtSrc \/ p = PSrcQueued \/ p = PAtDst) -> (p' = PAtSrc \/ p' = PSrcQueued \/ p' = PSrcHanded \/ p' = PAtDst) ->
  Inv (mkState (gl s) (upd i (mkOp c p' cl) (ops s))).
Proof.
  intros s i c p p' cl I Hn Hp Hp'. start I Hn.
  assert (Hcl : cl = CNone).
  { destruct W as [_ _ Wl]. unfold_cls. destruct cl; auto; specialize (Wl eq_refl); destruct Hp as [->|[->| ->]]; discriminate. }
  subst cl. eapply inv_upd_same; eauto.
  - wf_tac W. destruct Hp' as [->|[->|[->| ->]]]; discriminate.
  - loc_tac Lo; destruct Hp' as [->|[->|[->| ->]]]; cbn; intros; discriminate.
  - destruct Hp' as [->|[->|[->| ->]]]; noready.
  - destruct Hp' as [->|[->|[->| ->]]]; noready.
Qed.

Lemma pull_not_delete : forall c, classified_cmd c = true -> cpush c = false -> ckind c <> KDelete.
Proof. intros c H1 H2 E. unfold classified_cmd in H1. rewrite E in H1. congruence. Qed.

Lemma cl_none_of : forall c p cl, Wf (mkOp c p cl) -> post_pc p = false -> cl = CNone.
Proof. intros c p cl [_ _ Wl] H. unfold_cls. destruct cl; auto; specialize (Wl eq_refl); congruence. Qed.

Lemma ev_direct : forall s i c cl,
  Inv s -> nth_error (ops s) i = Some (mkOp c PAtDst cl) -> committed (gl s) = true ->
  Inv (mkState (gl s) (upd i (mkOp c PFwd cl) (ops s))).
Proof.
  intros s i c cl I Hn C. start I Hn. assert (cl = CNone) by (eapply cl_none_of; eauto). subst cl.
  destruct (committed_src_none _ G C) as [S P]. pose proof (committed_frozen _ G C) as F.
  eapply inv_upd_same; eauto.
  - wf_tac W.
  - loc_tac Lo.
  - intros _ _. split.
    + intros j oj _ Hj. eapply holders_uncommitted; eauto.
    + rewrite P. reflexivity.
  - noready.
Qed.

Lemma ev_send_exists : forall s i c cl,
  Inv s -> nth_error (ops s) i = Some (mkOp c PAtDst cl) -> dph_serving (dph (gl s)) = true -> cpush c = false ->
  Inv (mkState (gl s) (upd i (mkOp c PExistsSent cl) (ops s))).
Proof.
  intros s i c cl I Hn D P. start I Hn. assert (cl = CNone) by (eapply cl_none_of; eauto). subst cl.
  pose proof (g_serving _ G D) as F.
  eapply inv_upd_same; eauto.
  - wf_tac W.
  - loc_tac Lo.
  - noready.
  - noready.
Qed.

Lemma ev_exists_exec : forall s i c cl,
  Inv s -> nth_error (ops s) i = Some (mkOp c PExistsSent cl) ->
  Inv (mkState (gl s) (upd i (mkOp c (if is_none (dst (gl s)) then PExistsNo else PFwd) cl) (ops s))).
Proof.
  intros s i c cl I Hn. start I Hn. assert (cl = CNone) by (eapply cl_none_of; eauto). subst cl.
  assert (ND : ckind c <> KDelete).
  { destruct W as [Wc Wp _]. apply pull_not_delete; auto. }
  destruct (dst (gl s)) eqn:Ed; cbn [is_none].
  - eapply inv_upd_same; eauto.
    + wf_tac W.
    + loc_tac Lo. destruct (ckind c); congruence.
    + unfold_cls. destruct (ckind c); try congruence; cbn; discriminate.
    + noready.
  - eapply inv_upd_same; eauto.
    + wf_tac W.
    + loc_tac Lo.
    + noready.
    + noready.
Qed.

Lemma ev_pull_lock_fail : forall s i c cl,
  Inv s -> nth_error (ops s) i = Some (mkOp c PExistsNo cl) ->
  Inv (mkState (gl s) (upd i (mkOp c PExistsSent cl) (ops s))).
Proof.
  intros s i c cl I Hn. start I Hn. assert (cl = CNone) by (eapply cl_none_of; eauto). subst cl.
  eapply inv_upd_same; eauto.
  - wf_tac W.
  - loc_tac Lo.
  - noready.
  - noready.
Qed.

Lemma ev_dump_exec : forall s i c cl,
  Inv s -> nth_error (ops s) i = Some (mkOp c PDumpSent cl) ->
  Inv (mkState (gl s) (upd i (mkOp c (PDumpGot (redis_dump (src (gl s)))) cl) (ops s))).
Proof.
  intros s i c cl I Hn. start I Hn. assert (cl = CNone) by (eapply cl_none_of; eauto). subst cl.
  eapply inv_upd_same; eauto.
  - wf_tac W.
  - loc_tac Lo; destruct (src (gl s)) as [[r t]|]; cbn; intros; try congruence; try discriminate.
  - noready.
  - noready.
Qed.

Lemma ev_push_pending : forall s i c cl n,
  Inv s -> nth_error (ops s) i = Some (mkOp c PAtDst cl) -> dph_serving (dph (gl s)) = true ->
  Inv (mkState (gl s) (upd i (mkOp c (PPushPending n) cl) (ops s))).
Proof.
  intros s i c cl n I Hn D. start I Hn. assert (cl = CNone) by (eapply cl_none_of; eauto). subst cl.
  pose proof (g_serving _ G D) as F.
  eapply inv_upd_same; eauto.
  - wf_tac W.
  - loc_tac Lo.
  - noready.
  - noready.
Qed.

Lemma ev_push_retry_fail : forall s i c cl n p',
  Inv s -> nth_error (ops s) i = Some (mkOp c (PPushPending n) cl) -> (p' = PPushPending (S n) \/ p' = PDone RErr) ->
  Inv (mkState (gl s) (upd i (mkOp c p' cl) (ops s))).
Proof.
  intros s i c cl n p' I Hn Hp. start I Hn. assert (cl = CNone) by (eapply cl_none_of; eauto). subst cl.
  eapply inv_upd_same; eauto.
  - wf_tac W; destruct Hp as [->| ->]; discriminate.
  - loc_tac Lo; destruct Hp as [->| ->]; cbn; auto; intros; try discriminate.
  - destruct Hp as [->| ->]; noready.
  - destruct Hp as [->| ->]; noready.
Qed.

Lemma ev_sync_queue : forall s i c cl,
  Inv s -> nth_error (ops s) i = Some (mkOp c PUmsyncSent cl) ->
  Inv (mkState (gl s) (upd i (mkOp c PSyncQueued cl) (ops s))).
Proof.
  intros s i c cl I Hn. start I Hn. assert (cl = CNone) by (eapply cl_none_of; eauto). subst cl.
  eapply inv_upd_same; eauto.
  - wf_tac W.
  - loc_tac Lo.
  - noready.
  - noready.
Qed.

(* UMSYNC answered without a transfer: MIGRATION_TASK_NOT_FOUND after the commit, MIGRATING_FINISHED after the scan *)
Lemma ev_sync_replied_passed : forall s i c cl p,
  Inv s -> nth_error (ops s) i = Some (mkOp c p cl) -> (p = PUmsyncSent \/ p = PSyncQueued) ->
  scan (gl s) = SPassed ->
  Inv (mkState (gl s) (upd i (mkOp c PUmsyncReplied cl) (ops s))).
Proof.
  intros s i c cl p I Hn Hp P. start I Hn.
  assert (cl = CNone) by (eapply cl_none_of; eauto; destruct Hp as [->| ->]; reflexivity). subst cl.
  pose proof (g_spassed _ G P) as S.
  assert (K : klock (gl s) = Some i).
  { apply (l_klock _ _ _ Lo). destruct Hp as [->| ->]; reflexivity. }
  eapply inv_upd_same; eauto.
  - wf_tac W; destruct Hp as [->| ->]; auto.
  - loc_tac Lo; destruct Hp as [->| ->]; cbn in *; auto.
  - intros _ _. split.
    + eapply other_holders_klock; eauto.
    + rewrite P. reflexivity.
  - noready.
Qed.

Lemma ev_fast_pttl : forall s i c cl,
  Inv s -> nth_error (ops s) i = Some (mkOp c PFastLocked cl) ->
  Inv (mkState (gl s) (upd i (mkOp c (PFastPttl (redis_pttl (src (gl s)))) cl) (ops s))).
Proof.
  intros s i c cl I Hn. start I Hn. assert (cl = CNone) by (eapply cl_none_of; eauto). subst cl.
  eapply inv_upd_same; eauto.
  - wf_tac W.
  - pose proof (g_wf _ G) as Gw.
    loc_tac Lo; destruct (src (gl s)) as [[r t]|] eqn:Es; cbn; intros; try congruence; try discriminate.
    + rewrite (Gw _ _ eq_refl) in H. inversion H; subst. reflexivity.
    + rewrite (Gw _ _ eq_refl) in H. discriminate.
  - noready.
  - noready.
Qed.

Lemma ev_slow_pttl : forall s i c cl,
  Inv s -> nth_error (ops s) i = Some (mkOp c PSyncQueued cl) -> visiting (scan (gl s)) = false ->
  Inv (mkState (gl s) (upd i (mkOp c (PSlowPttl (redis_pttl (src (gl s)))) cl) (ops s))).
Proof.
  intros s i c cl I Hn V. start I Hn. assert (cl = CNone) by (eapply cl_none_of; eauto). subst cl.
  eapply inv_upd_same; eauto.
  - wf_tac W.
  - pose proof (g_wf _ G) as Gw.
    loc_tac Lo; destruct (src (gl s)) as [[r t]|] eqn:Es; cbn; intros; try congruence; try discriminate.
    + rewrite (Gw _ _ eq_refl) in H. inversion H; subst. reflexivity.
    + rewrite (Gw _ _ eq_refl) in H. discriminate.
  - noready.
  - noready.
Qed.

Lemma ev_reply : forall s i c cl r,
  Inv s -> nth_error (ops s) i = Some (mkOp c (PDone r) cl) ->
  Inv (mkState (gl s) (upd i (mkOp c (PReplied r) cl) (ops s))).
Proof.
  intros s i c cl r I Hn. start I Hn.
  eapply inv_upd_same; eauto.
  - wf_tac W.
  - loc_tac Lo.
  - noready.
  - noready.
Qed.

(* ---------- operation steps that change the shared state ---------- *)
Ltac frame_intro := intros j oj Nj Hj Wj Lj.

Lemma ev_exec_src : forall s i c cl,
  Inv s -> nth_error (ops s) i = Some (mkOp c PSrcHanded cl) -> sph_le_blocking (sph (gl s)) = true ->
  Inv (mkState (set_src (gl s) (exec_kind (ckind c) PTTL_NO_EXPIRE (src (gl s))))
               (upd i (mkOp c (PDone (ROk (val (src (gl s))))) cl) (ops s))).
Proof.
  intros s i c cl I Hn C. start I Hn. assert (cl = CNone) by (eapply cl_none_of; eauto). subst cl.
  assert (F : frozen (gl s) = false) by (unfold frozen; rewrite C; reflexivity).
  eapply inv_upd; eauto.
  - apply gf_src_exec; auto. intros raw t E. destruct (ckind c); cbn in E.
    + eapply (g_wf _ G); eauto.
    + inversion E. reflexivity.
    + discriminate.
  - wf_tac W.
  - loc_tac Lo.
  - frame_intro. apply fr_src_exec; auto.
  - noready.
  - noready.
Qed.

Lemma ev_klock_acquire : forall s i c cl p p',
  Inv s -> nth_error (ops s) i = Some (mkOp c p cl) -> klock (gl s) = None ->
  (p = PExistsNo /\ p' = PDumpSent \/ (p = PAtDst \/ (exists n, p = PPushPending n)) /\ p' = PUmsyncSent) ->
  (p = PAtDst -> dph_serving (dph (gl s)) = true) ->
  Inv (mkState (set_klock (gl s) (Some i)) (upd i (mkOp c p' cl) (ops s))).
Proof.
  intros s i c cl p p' I Hn K Hp D. start I Hn.
  assert (cl = CNone).
  { eapply cl_none_of; eauto. destruct Hp as [[-> _]|[[->|[n ->]] _]]; reflexivity. }
  subst cl.
  assert (F : frozen (gl s) = true).
  { destruct Hp as [[-> _]|[[->|[n ->]] _]].
    - apply (l_frozen _ _ _ Lo). reflexivity.
    - apply (g_serving _ G). auto.
    - apply (l_frozen _ _ _ Lo). reflexivity. }
  eapply inv_upd; eauto.
  - apply gf_klock; auto.
  - wf_tac W; destruct Hp as [[-> ->]|[[->|[n ->]] ->]]; cbn in *; auto; try discriminate.
  - loc_tac Lo; destruct Hp as [[-> ->]|[[->|[n ->]] ->]]; cbn in *; auto; intros; try discriminate.
  - frame_intro. apply fr_klock_acquire; auto.
  - destruct Hp as [[-> ->]|[[->|[n ->]] ->]]; noready.
  - destruct Hp as [[-> ->]|[[->|[n ->]] ->]]; noready.
Qed.

Lemma pull_skip_src_none : forall g d, Glob g ->
  (d = BulkNil -> src g = None) -> pull_entry d (redis_pttl (src g)) = Skip -> src g = None.
Proof.
  intros g d G Hn E. destruct (src g) as [[r t]|] eqn:Es; auto. cbn in E.
  pose proof (g_wf _ G _ _ Es) as Ht. unfold pull_entry in E. rewrite Ht in E.
  destruct d; try discriminate. apply Hn. reflexivity.
Qed.

Lemma ev_pttl_exec : forall s i c cl d g' o',
  Inv s -> nth_error (ops s) i = Some (mkOp c (PDumpGot d) cl) ->
  op_step (gl s) i (mkOp c (PDumpGot d) cl) (EvPttlExec i) = Some (g', o') ->
  Inv (mkState g' (upd i o' (ops s))).
Proof.
  intros s i c cl d g' o' I Hn Hs. start I Hn. assert (cl = CNone) by (eapply cl_none_of; eauto). subst cl.
  assert (ND : ckind c <> KDelete).
  { destruct W as [Wc Wp _]. apply pull_not_delete; auto. }
  assert (K : klock (gl s) = Some i) by (apply (l_klock _ _ _ Lo); reflexivity).
  unfold op_step in Hs. cbn [opc ocmd ocl] in Hs.
  destruct (pull_entry d (redis_pttl (src (gl s)))) as [p raw| |] eqn:E; inversion Hs; subst; clear Hs.
  - (* an entry: RESTORE + command are sent *)
    destruct (src (gl s)) as [[r t]|] eqn:Es; cbn in E; [|exfalso; eapply pull_entry_notfound_noentry; eauto].
    apply pull_entry_int_inv in E. destruct E as (-> & -> & Ht).
    eapply inv_upd_same; eauto.
    + wf_tac W.
    + loc_tac Lo. intros r' t' Hh. inversion Hh; subst. split.
      * destruct (committed (gl s)) eqn:Ec; auto. destruct (committed_src_none _ G Ec). congruence.
      * intros Ed. rewrite Es. cbn. split; auto. specialize (Ld _ eq_refl). rewrite Es in Ld. cbn in Ld. auto.
    + noready.
    + intros _ _ j oj _ Hj. eapply no_ready_if_src; eauto. congruence.
  - (* nothing on the source: forward the command *)
    assert (S : src (gl s) = None).
    { eapply pull_skip_src_none; eauto. intros ->. apply (l_none _ _ _ Lo). reflexivity. }
    eapply inv_upd; eauto.
    + apply gf_klock; auto.
    + wf_tac W.
    + loc_tac Lo; try (destruct (ckind c); congruence).
    + frame_intro. eapply fr_klock_release; eauto.
    + unfold_cls. destruct (ckind c); try congruence; cbn; discriminate.
    + noready.
  - eapply inv_upd; eauto.
    + apply gf_klock; auto.
    + wf_tac W.
    + loc_tac Lo.
    + frame_intro. eapply fr_klock_release; eauto.
    + noready.
    + noready.
Qed.

Lemma ev_restore_exec : forall s i c cl raw t,
  Inv s -> nth_error (ops s) i = Some (mkOp c (PRestoreSent raw t) cl) ->
  Inv (mkState (set_dst (gl s) (redis_restore (dst (gl s)) raw t)) (upd i (mkOp c PFwd CLock) (ops s))).
Proof.
  intros s i c cl raw t I Hn. start I Hn. assert (cl = CNone) by (eapply cl_none_of; eauto). subst cl.
  assert (ND : ckind c <> KDelete).
  { destruct W as [Wc Wp _]. apply pull_not_delete; auto. }
  assert (F : frozen (gl s) = true) by (apply (l_frozen _ _ _ Lo); reflexivity).
  eapply inv_upd; eauto.
  - apply gf_restore; auto.
  - wf_tac W.
  - loc_tac Lo; try (destruct (ckind c); congruence); intros;
      try (exfalso; eapply restore_not_none; eauto; fail); try apply restore_is_none.
  - frame_intro. apply fr_restore; auto.
  - unfold_cls. destruct (ckind c); try congruence; cbn; discriminate.
  - noready.
Qed.

(* a transfer's RESTORE on the destination: fast push path, slow push path *)
Lemma ev_push_restore : forall s i c cl raw t p p',
  Inv s -> nth_error (ops s) i = Some (mkOp c p cl) ->
  (p = PFastRestore raw t /\ p' = PFastDel \/ p = PSlowRestore raw t /\ p' = PSlowDel) ->
  Inv (mkState (set_dst (gl s) (redis_restore (dst (gl s)) raw t)) (upd i (mkOp c p' cl) (ops s))).
Proof.
  intros s i c cl raw t p p' I Hn Hp. start I Hn.
  assert (cl = CNone) by (eapply cl_none_of; eauto; destruct Hp as [[-> _]|[-> _]]; reflexivity). subst cl.
  assert (F : frozen (gl s) = true) by (apply (l_frozen _ _ _ Lo); destruct Hp as [[-> _]|[-> _]]; reflexivity).
  eapply inv_upd; eauto.
  - apply gf_restore; auto.
  - wf_tac W; destruct Hp as [[-> ->]|[-> ->]]; auto.
  - loc_tac Lo; destruct Hp as [[-> ->]|[-> ->]]; cbn in *; auto; intros; try discriminate;
      try apply restore_is_none.
  - frame_intro. apply fr_restore; auto.
  - destruct Hp as [[-> ->]|[-> ->]]; noready.
  - destruct Hp as [[-> ->]|[-> ->]]; noready.
Qed.

Lemma ev_pull_unlock : forall s i c p,
  Inv s -> nth_error (ops s) i = Some (mkOp c p CLock) ->
  Inv (mkState (set_klock (gl s) None) (upd i (mkOp c p CDel) (ops s))).
Proof.
  intros s i c p I Hn. start I Hn.
  assert (K : klock (gl s) = Some i).
  { apply (l_klock _ _ _ Lo). unfold_cls. apply orb_true_r. }
  assert (P : post_pc p = true) by (apply (w_cl _ W); reflexivity).
  eapply inv_upd; eauto.
  - apply gf_klock; auto.
  - wf_tac W.
  - loc_tac Lo; destruct p; try discriminate; cbn in *; auto.
  - frame_intro. eapply fr_klock_release; eauto.
  - unfold_cls. intros H1 H2. congruence.
  - unfold_cls. intros H1 H2. congruence.
Qed.

Lemma ev_pull_del : forall s i c p,
  Inv s -> nth_error (ops s) i = Some (mkOp c p CDel) ->
  Inv (mkState (set_src (gl s) None) (upd i (mkOp c p CDone) (ops s))).
Proof.
  intros s i c p I Hn. start I Hn.
  assert (D : is_none (src (gl s)) = false -> is_none (dst (gl s)) = false).
  { apply (l_delp _ _ _ Lo). reflexivity. }
  assert (P : post_pc p = true) by (apply (w_cl _ W); reflexivity).
  eapply inv_upd; eauto.
  - apply gf_src_del; auto.
  - wf_tac W.
  - loc_tac Lo; destruct p; try discriminate; cbn in *; auto; intros; try discriminate.
  - frame_intro. apply fr_src_del; auto.
  - unfold_cls. intros H1 H2. congruence.
  - unfold_cls. intros H1 H2. congruence.
Qed.

Lemma ev_sync_lock : forall s i c cl,
  Inv s -> nth_error (ops s) i = Some (mkOp c PUmsyncSent cl) -> slock (gl s) = None ->
  Inv (mkState (set_slock (gl s) (Some (HOp i))) (upd i (mkOp c PFastLocked cl) (ops s))).
Proof.
  intros s i c cl I Hn S. start I Hn. assert (cl = CNone) by (eapply cl_none_of; eauto). subst cl.
  eapply inv_upd; eauto.
  - apply gf_slock_op_acquire; auto.
  - wf_tac W.
  - loc_tac Lo.
  - frame_intro. apply fr_slock_acquire; auto.
  - noready.
  - noready.
Qed.

(* the second read (DUMP) of the scan-style paths: what scan_entry yields on the stand-in's replies *)
Lemma scan_entry_cases : forall g p, Glob g ->
  (forall t, p = Integer t ->
     if bytes_eqb t PTTL_KEY_NOT_FOUND then src g = None
     else (is_none (src g) = false -> dst g = None -> pttl_of (src g) = Some t)) ->
  match scan_entry p (redis_dump (src g)) with
  | Entry pt raw => exists t0, src g = Some (raw, t0) /\ (dst g = None -> pt = t0)
  | Skip => src g = None
  | InvalidReply => True
  end.
Proof.
  intros g p G Hp. destruct p; cbn; auto. specialize (Hp _ eq_refl).
  destruct (bytes_eqb b PTTL_KEY_NOT_FOUND) eqn:Eb.
  - rewrite Hp. cbn. auto.
  - destruct (src g) as [[r t0]|] eqn:Es; cbn; auto.
    exists t0. split; auto. intros Ed. specialize (Hp eq_refl Ed). cbn in Hp. congruence.
Qed.

Lemma ev_fast_dump : forall s i c cl p g' o',
  Inv s -> nth_error (ops s) i = Some (mkOp c (PFastPttl p) cl) ->
  op_step (gl s) i (mkOp c (PFastPttl p) cl) (EvFastDump i) = Some (g', o') ->
  Inv (mkState g' (upd i o' (ops s))).
Proof.
  intros s i c cl p g' o' I Hn Hs. start I Hn. assert (cl = CNone) by (eapply cl_none_of; eauto). subst cl.
  assert (K : klock (gl s) = Some i) by (apply (l_klock _ _ _ Lo); reflexivity).
  assert (S : slock (gl s) = Some (HOp i)) by (apply (l_slock _ _ _ Lo); reflexivity).
  assert (C : match scan_entry p (redis_dump (src (gl s))) with
              | Entry pt raw => exists t0, src (gl s) = Some (raw, t0) /\ (dst (gl s) = None -> pt = t0)
              | Skip => src (gl s) = None
              | InvalidReply => True
              end).
  { apply scan_entry_cases; auto. intros t ->.
    destruct (bytes_eqb t PTTL_KEY_NOT_FOUND) eqn:Eb.
    - apply (l_none _ _ _ Lo). unfold_cls. auto.
    - apply (l_hpttl _ _ _ Lo). unfold_cls. rewrite Eb. reflexivity. }
  unfold op_step in Hs. cbn [opc ocmd ocl] in Hs.
  destruct (scan_entry p (redis_dump (src (gl s)))) as [pt raw| |] eqn:E; inversion Hs; subst; clear Hs.
  - destruct C as (t0 & Es & Et).
    eapply inv_upd_same; eauto.
    + wf_tac W.
    + loc_tac Lo. intros r' t' Hh. inversion Hh; subst. split.
      * destruct (committed (gl s)) eqn:Ec; auto. destruct (committed_src_none _ G Ec). congruence.
      * intros Ed. rewrite Es. cbn. split; auto. rewrite (Et Ed). reflexivity.
    + noready.
    + intros _ _ j oj _ Hj. eapply no_ready_if_src; eauto. congruence.
  - (* nothing to transfer: OK reply, slot lock released *)
    eapply inv_upd; eauto.
    + eapply gf_slock_op_release; eauto.
    + wf_tac W.
    + loc_tac Lo.
    + frame_intro. eapply fr_slock_release; eauto.
    + intros _ _. split.
      * eapply other_holders_klock; eauto.
      * cbn. destruct (scan (gl s)) eqn:Esc; auto. destruct (g_visit _ G) as [X _]; [rewrite Esc; reflexivity|congruence].
    + noready.
  - eapply inv_upd; eauto.
    + apply gf_klock. eapply gf_slock_op_release; eauto.
    + wf_tac W.
    + loc_tac Lo.
    + frame_intro. eapply fr_klock_release; eauto. eapply fr_slock_release; eauto.
    + noready.
    + noready.
Qed.

Lemma ev_fast_del : forall s i c cl,
  Inv s -> nth_error (ops s) i = Some (mkOp c PFastDel cl) ->
  Inv (mkState (set_slock (set_src (gl s) None) None) (upd i (mkOp c PUmsyncReplied cl) (ops s))).
Proof.
  intros s i c cl I Hn. start I Hn. assert (cl = CNone) by (eapply cl_none_of; eauto). subst cl.
  assert (K : klock (gl s) = Some i) by (apply (l_klock _ _ _ Lo); reflexivity).
  assert (S : slock (gl s) = Some (HOp i)) by (apply (l_slock _ _ _ Lo); reflexivity).
  assert (D : is_none (src (gl s)) = false -> is_none (dst (gl s)) = false).
  { apply (l_delp _ _ _ Lo). reflexivity. }
  eapply inv_upd; eauto.
  - eapply gf_slock_op_release; eauto. apply gf_src_del; auto.
  - wf_tac W.
  - loc_tac Lo.
  - frame_intro. eapply fr_slock_release; eauto. apply fr_src_del; auto.
  - intros _ _. split.
    + eapply other_holders_klock; eauto.
    + cbn. destruct (scan (gl s)) eqn:Esc; auto. destruct (g_visit _ G) as [X _]; [rewrite Esc; reflexivity|congruence].
  - noready.
Qed.

Lemma ev_slow_dump : forall s i c cl p g' o',
  Inv s -> nth_error (ops s) i = Some (mkOp c (PSlowPttl p) cl) ->
  op_step (gl s) i (mkOp c (PSlowPttl p) cl) (EvSlowDump i) = Some (g', o') ->
  Inv (mkState g' (upd i o' (ops s))).
Proof.
  intros s i c cl p g' o' I Hn Hs. start I Hn. assert (cl = CNone) by (eapply cl_none_of; eauto). subst cl.
  assert (K : klock (gl s) = Some i) by (apply (l_klock _ _ _ Lo); reflexivity).
  assert (V : visiting (scan (gl s)) = false) by (apply (l_slow _ _ _ Lo); reflexivity).
  assert (C : match scan_entry p (redis_dump (src (gl s))) with
              | Entry pt raw => exists t0, src (gl s) = Some (raw, t0) /\ (dst (gl s) = None -> pt = t0)
              | Skip => src (gl s) = None
              | InvalidReply => True
              end).
  { apply scan_entry_cases; auto. intros t ->.
    destruct (bytes_eqb t PTTL_KEY_NOT_FOUND) eqn:Eb.
    - apply (l_none _ _ _ Lo). unfold_cls. auto.
    - apply (l_hpttl _ _ _ Lo). unfold_cls. rewrite Eb. reflexivity. }
  unfold op_step in Hs. cbn [opc ocmd ocl] in Hs.
  destruct (scan_entry p (redis_dump (src (gl s)))) as [pt raw| |] eqn:E; inversion Hs; subst; clear Hs.
  - destruct C as (t0 & Es & Et).
    eapply inv_upd_same; eauto.
    + wf_tac W.
    + loc_tac Lo. intros r' t' Hh. inversion Hh; subst. split.
      * destruct (committed (gl s)) eqn:Ec; auto. destruct (committed_src_none _ G Ec). congruence.
      * intros Ed. rewrite Es. cbn. split; auto. rewrite (Et Ed). reflexivity.
    + noready.
    + intros _ _ j oj _ Hj. eapply no_ready_if_src; eauto. congruence.
  - eapply inv_upd_same; eauto.
    + wf_tac W.
    + loc_tac Lo.
    + intros _ _. split.
      * eapply other_holders_klock; eauto.
      * destruct (scan (gl s)); cbn in *; auto; discriminate.
    + noready.
  - eapply inv_upd; eauto.
    + apply gf_klock. auto.
    + wf_tac W.
    + loc_tac Lo.
    + frame_intro. eapply fr_klock_release; eauto.
    + noready.
    + noready.
Qed.

Lemma ev_slow_del : forall s i c cl,
  Inv s -> nth_error (ops s) i = Some (mkOp c PSlowDel cl) ->
  Inv (mkState (set_src (gl s) None) (upd i (mkOp c PUmsyncReplied cl) (ops s))).
Proof.
  intros s i c cl I Hn. start I Hn. assert (cl = CNone) by (eapply cl_none_of; eauto). subst cl.
  assert (K : klock (gl s) = Some i) by (apply (l_klock _ _ _ Lo); reflexivity).
  assert (V : visiting (scan (gl s)) = false) by (apply (l_slow _ _ _ Lo); reflexivity).
  assert (D : is_none (src (gl s)) = false -> is_none (dst (gl s)) = false).
  { apply (l_delp _ _ _ Lo). reflexivity. }
  eapply inv_upd; eauto.
  - apply gf_src_del; auto.
  - wf_tac W.
  - loc_tac Lo.
  - frame_intro. apply fr_src_del; auto.
  - intros _ _. split.
    + eapply other_holders_klock; eauto.
    + cbn. destruct (scan (gl s)); cbn in *; auto; discriminate.
  - noready.
Qed.

Lemma ev_push_forward : forall s i c cl,
  Inv s -> nth_error (ops s) i = Some (mkOp c PUmsyncReplied cl) ->
  Inv (mkState (set_klock (gl s) None) (upd i (mkOp c PFwd cl) (ops s))).
Proof.
  intros s i c cl I Hn. start I Hn. assert (cl = CNone) by (eapply cl_none_of; eauto). subst cl.
  assert (K : klock (gl s) = Some i) by (apply (l_klock _ _ _ Lo); reflexivity).
  assert (S : src (gl s) = None) by (apply (l_none _ _ _ Lo); reflexivity).
  eapply inv_upd; eauto.
  - apply gf_klock; auto.
  - wf_tac W.
  - loc_tac Lo.
  - frame_intro. eapply fr_klock_release; eauto.
  - unfold_cls. intros H1 H2. rewrite andb_true_r in *. congruence.
  - noready.
Qed.

Lemma set_dst_same : forall g, set_dst g (dst g) = g.
Proof. intros []; reflexivity. Qed.

Lemma ev_exec_dst : forall s i c cl,
  Inv s -> nth_error (ops s) i = Some (mkOp c PFwd cl) ->
  Inv (mkState (set_dst (gl s) (exec_kind (ckind c) RESTORE_NO_EXPIRE (dst (gl s))))
               (upd i (mkOp c (PDone (ROk (val (dst (gl s))))) cl) (ops s))).
Proof.
  intros s i c cl I Hn. start I Hn.
  assert (F : frozen (gl s) = true) by (apply (l_frozen _ _ _ Lo); reflexivity).
  destruct (ckind c) eqn:Ek; cbn [exec_kind].
  - rewrite set_dst_same. eapply inv_upd_same; eauto.
    + wf_tac W.
    + loc_tac Lo.
    + noready.
    + noready.
  - eapply inv_upd; eauto.
    + apply gf_dst_some; auto.
    + wf_tac W.
    + loc_tac Lo; intros; discriminate.
    + frame_intro. apply fr_dst_some; auto.
    + noready.
    + noready.
  - assert (R : ready_del (mkOp c PFwd cl) = true) by (unfold_cls; rewrite Ek; reflexivity).
    assert (S : src (gl s) = None) by (eapply ready_src_none; eauto).
    eapply inv_upd; eauto.
    + apply gf_dst_del; auto. exact (i_pscan _ I _ _ Hn R).
    + wf_tac W.
    + loc_tac Lo; intros; rewrite S in *; try discriminate.
    + frame_intro. apply fr_dst_del; auto. exact (i_pair _ I _ _ _ _ Hn Hj R).
    + noready.
    + noready.
Qed.

(* ---------- invocation ---------- *)
Lemma ev_invoke : forall s c (atsrc : bool), Inv s -> classified_cmd c = true ->
  Inv (mkState (gl s) (ops s ++ [mkOp c (if atsrc then PAtSrc else PAtDst) CNone])).
Proof.
  intros s c atsrc I C. destruct I as [IG IW IL IP IS].
  assert (Wn : Wf (mkOp c (if atsrc then PAtSrc else PAtDst) CNone)).
  { constructor; unfold_cls; auto; destruct atsrc; cbn; intros; discriminate. }
  assert (Ln : forall i, Loc (gl s) i (mkOp c (if atsrc then PAtSrc else PAtDst) CNone)).
  { intros i. constructor; unfold_cls; destruct atsrc; cbn; intros; discriminate. }
  assert (Rn : ready_del (mkOp c (if atsrc then PAtSrc else PAtDst) CNone) = false).
  { unfold_cls. destruct atsrc; apply andb_false_r. }
  assert (Hn : holder (opc (mkOp c (if atsrc then PAtSrc else PAtDst) CNone)) = false).
  { cbn. destruct atsrc; reflexivity. }
  constructor; cbn [gl ops]; auto.
  - intros i o H. apply nth_error_snoc in H. destruct H as [H|[_ ->]]; eauto.
  - intros i o H. apply nth_error_snoc in H. destruct H as [H|[_ ->]]; eauto.
  - intros i j oi oj Hi Hj R. apply nth_error_snoc in Hi. apply nth_error_snoc in Hj.
    destruct Hi as [Hi|[_ ->]]; destruct Hj as [Hj|[_ ->]]; eauto; congruence.
  - intros i oi Hi R. apply nth_error_snoc in Hi. destruct Hi as [Hi|[_ ->]]; eauto; congruence.
Qed.

(* ---------- scanner ---------- *)
Lemma sph_eqb_eq : forall a b, sph_eqb a b = true -> a = b.
Proof. intros [] []; cbn; congruence. Qed.
Lemma dph_eqb_eq : forall a b, dph_eqb a b = true -> a = b.
Proof. intros [] []; cbn; congruence. Qed.

Lemma ev_scan_skip : forall s, Inv s ->
  scan (gl s) = SBefore -> sph (gl s) = SScanning -> src (gl s) = None ->
  Inv (mkState (set_scan (gl s) SPassed) (ops s)).
Proof.
  intros s I B P S. pose proof (i_glob _ I) as G. apply inv_glob; auto.
  - glob_start G; rewrite ?P; cbn; auto; intros; try discriminate.
  - intros j oj Hj Wj Lj. apply fr_scan; auto.
  - cbn. discriminate.
Qed.

Lemma ev_scan_lock : forall s, Inv s ->
  scan (gl s) = SBefore -> sph (gl s) = SScanning -> slock (gl s) = None -> no_slow (ops s) = true ->
  Inv (mkState (set_scan (set_slock (gl s) (Some HScan)) SLocked) (ops s)).
Proof.
  intros s I B P S N. pose proof (i_glob _ I) as G. apply inv_glob; auto.
  - glob_start G; rewrite ?P; cbn; auto; intros; try discriminate.
  - intros j oj Hj Wj Lj. apply fr_scan.
    + intros X. rewrite (no_slow_nth _ _ _ N Hj) in X. discriminate.
    + apply fr_slock_acquire; auto.
  - cbn. discriminate.
Qed.

Lemma visiting_no_slow : forall s j oj, Inv s -> visiting (scan (gl s)) = true ->
  nth_error (ops s) j = Some oj -> in_slow (opc oj) = true -> False.
Proof. intros s j oj I V Hj X. apply (l_slow _ _ _ (i_loc _ I _ _ Hj)) in X. congruence. Qed.

Lemma ev_scan_pttl : forall s, Inv s -> scan (gl s) = SLocked ->
  Inv (mkState (set_scan (gl s) (SPttl (redis_pttl (src (gl s))))) (ops s)).
Proof.
  intros s I B. pose proof (i_glob _ I) as G.
  assert (V : visiting (scan (gl s)) = true) by (rewrite B; reflexivity).
  destruct (g_visit _ G V) as [Sl Sp].
  apply inv_glob; auto.
  - pose proof (g_wf _ G) as Gw'. glob_start G; rewrite ?B, ?Sp in *; cbn in *; auto; intros; try discriminate.
    destruct (src (gl s)) as [[r t0]|] eqn:Es; cbn in *; inversion H; subst.
    + rewrite (Gw' _ _ eq_refl). auto.
    + cbn. reflexivity.
  - intros j oj Hj Wj Lj. apply fr_scan; auto. intros X. exfalso. eapply visiting_no_slow; eauto.
  - cbn. discriminate.
Qed.

Lemma ev_scan_dump : forall s p g', Inv s -> scan (gl s) = SPttl p ->
  glob_step (gl s) (ops s) EvScanDump = Some g' ->
  Inv (mkState g' (ops s)).
Proof.
  intros s p g' I B Hs. pose proof (i_glob _ I) as G.
  assert (V : visiting (scan (gl s)) = true) by (rewrite B; reflexivity).
  destruct (g_visit _ G V) as [Sl Sp].
  assert (C : match scan_entry p (redis_dump (src (gl s))) with
              | Entry pt raw => exists t0, src (gl s) = Some (raw, t0) /\ (dst (gl s) = None -> pt = t0)
              | Skip => src (gl s) = None
              | InvalidReply => True
              end).
  { apply scan_entry_cases; auto. intros t ->. apply (g_spttl _ G). auto. }
  unfold glob_step in Hs. rewrite B in Hs.
  destruct (scan_entry p (redis_dump (src (gl s)))) as [pt raw| |] eqn:E; inversion Hs; subst; clear Hs.
  - destruct C as (t0 & Es & Et). apply inv_glob; auto.
    + glob_start G; rewrite ?B, ?Sp in *; cbn in *; auto; intros; try discriminate.
      inversion H; subst. rewrite Es. cbn. split; auto. rewrite (Et H0). reflexivity.
    + intros j oj Hj Wj Lj. apply fr_scan; auto. intros X. exfalso. eapply visiting_no_slow; eauto.
    + intros _ _ j oj Hj. eapply no_ready_if_src; eauto. congruence.
  - apply inv_glob; auto.
    + glob_start G; rewrite ?B, ?Sp in *; cbn in *; auto; intros; try discriminate.
    + intros j oj Hj Wj Lj. apply fr_scan; auto. apply fr_slock_release_scan; auto.
    + cbn. discriminate.
  - apply inv_glob; auto.
    + glob_start G; rewrite ?B, ?Sp in *; cbn in *; auto; intros; try discriminate.
    + intros j oj Hj Wj Lj. apply fr_scan; auto. apply fr_slock_release_scan; auto.
    + cbn. discriminate.
Qed.

Lemma ev_scan_restore : forall s raw t, Inv s -> scan (gl s) = SRestore raw t ->
  Inv (mkState (set_scan (set_dst (gl s) (redis_restore (dst (gl s)) raw t)) SDel) (ops s)).
Proof.
  intros s raw t I B. pose proof (i_glob _ I) as G.
  assert (V : visiting (scan (gl s)) = true) by (rewrite B; reflexivity).
  destruct (g_visit _ G V) as [Sl Sp].
  apply inv_glob; auto.
  - glob_start G; rewrite ?B, ?Sp in *; cbn in *; auto; intros; try discriminate.
    apply restore_is_none.
  - intros j oj Hj Wj Lj. apply fr_scan.
    + intros X. exfalso. eapply visiting_no_slow; eauto.
    + apply fr_restore; auto.
  - cbn. discriminate.
Qed.

Lemma ev_scan_del : forall s, Inv s -> scan (gl s) = SDel ->
  Inv (mkState (set_scan (set_slock (set_src (gl s) None) None) SPassed) (ops s)).
Proof.
  intros s I B. pose proof (i_glob _ I) as G.
  assert (V : visiting (scan (gl s)) = true) by (rewrite B; reflexivity).
  destruct (g_visit _ G V) as [Sl Sp].
  pose proof (g_sdel _ G B) as D.
  apply inv_glob; auto.
  - glob_start G; rewrite ?B, ?Sp in *; cbn in *; auto; intros; try discriminate.
  - intros j oj Hj Wj Lj. apply fr_scan; auto. apply fr_slock_release_scan; auto. apply fr_src_del; auto.
  - cbn. discriminate.
Qed.

(* ---------- handshake and commit ---------- *)
Lemma ev_sph : forall s p', Inv s ->
  (sph (gl s) = SPreCheck /\ p' = SPreBlocking \/
   sph (gl s) = SPreBlocking /\ p' = SPreSwitch \/
   sph (gl s) = SPreSwitch /\ p' = SScanning \/
   sph (gl s) = SScanning /\ p' = SFinalSwitch /\ scan (gl s) = SPassed \/
   sph (gl s) = SFinalSwitch /\ p' = SSwitchCommitted) ->
  Inv (mkState (set_sph (gl s) p') (ops s)).
Proof.
  intros s p' I H. pose proof (i_glob _ I) as G. apply inv_glob; auto.
  - destruct H as [[P ->]|[[P ->]|[[P ->]|[(P & -> & B)|[P ->]]]]];
      glob_start G; rewrite ?P, ?B in *; cbn in *; auto; intros; try discriminate; try congruence;
      try (destruct (Gv H); discriminate); try (specialize (Gc H); discriminate).
  - intros j oj Hj Wj Lj. apply fr_sph; auto. simp_g.
    destruct H as [[P ->]|[[P ->]|[[P ->]|[(P & -> & B)|[P ->]]]]]; rewrite P; cbn; auto.
  - simp_g. intros; congruence.
Qed.

Lemma ev_dph : forall s p', Inv s -> frozen (gl s) = true -> Inv (mkState (set_dph (gl s) p') (ops s)).
Proof.
  intros s p' I F. pose proof (i_glob _ I) as G. apply inv_glob; auto.
  - glob_start G.
  - intros j oj Hj Wj Lj. apply fr_dph; auto.
  - simp_g. intros; congruence.
Qed.

Lemma ev_commit : forall s, Inv s -> sph (gl s) = SSwitchCommitted -> no_holder (ops s) = true ->
  Inv (mkState (set_committed (gl s) true) (ops s)).
Proof.
  intros s I P N. pose proof (i_glob _ I) as G. apply inv_glob; auto.
  - glob_start G.
  - intros j oj Hj Wj Lj. apply fr_commit; auto. eapply no_holder_nth; eauto.
  - simp_g. intros; congruence.
Qed.

(* the effect of a multi-key command on a key other than its first key: forwarded when the key is imported *)
Lemma ev_ensured : forall s i c cl,
  Inv s -> nth_error (ops s) i = Some (mkOp c PAtDst cl) -> dph_serving (dph (gl s)) = true ->
  (negb (is_none (dst (gl s))) || is_none (src (gl s))) = true ->
  ensured_step s (EvEnsured i) = true ->
  Inv (mkState (gl s) (upd i (mkOp c PFwd cl) (ops s))).
Proof.
  intros s i c cl I Hn D M E. start I Hn. assert (cl = CNone) by (eapply cl_none_of; eauto). subst cl.
  pose proof (g_serving _ G D) as F.
  assert (X : dst (gl s) = None -> src (gl s) = None).
  { intros Ed. rewrite Ed in M. cbn in M. apply is_none_true in M. exact M. }
  unfold ensured_step in E. rewrite Hn in E. cbn [ocmd] in E.
  eapply inv_upd_same; eauto.
  - wf_tac W.
  - loc_tac Lo. intros Hd. destruct (ckind c); try discriminate.
    apply andb_true_iff in E. destruct E as [E _]. apply andb_true_iff in E. destruct E as [E _].
    apply is_none_true in E. exact E.
  - unfold_cls. intros R _. destruct (ckind c); cbn in R; try discriminate.
    apply andb_true_iff in E. destruct E as [E E3]. apply andb_true_iff in E. destruct E as [E1 E2]. split.
    + intros j oj _ Hj. eapply no_holder_nth; eauto.
    + apply negb_true_iff in E3. exact E3.
  - noready.
Qed.

(* ---------- every step ---------- *)
Definition step_ok (s : state) (e : event) : bool := c11_step s e && commit_step s e && classified_step e && ensured_step s e.

Lemma andb3 : forall a b c, a && b && c = true -> a = true /\ b = true /\ c = true.
Proof. intros [] [] []; cbn; auto. Qed.

Lemma op_step_inv : forall s i o e g' o',
  Inv s -> c11_step s e = true -> ensured_step s e = true ->
  nth_error (ops s) i = Some o -> ev_op e = Some i -> is_cl_event e = false ->
  op_step (gl s) i o e = Some (g', o') -> Inv (mkState g' (upd i o' (ops s))).
Proof.
  intros s i [c p cl] e g' o' I C Ce Hn He Hc Hs.
  destruct e; cbn in He, Hc; try discriminate; inversion He; subst; clear He;
    pose proof Hs as Hs0; unfold op_step in Hs; cbn [opc ocmd ocl] in Hs; destruct p; try discriminate.
  - (* EvSrcHandoff *) destruct (sph_lt_scanning (sph (gl s))); inversion Hs; subst. eapply ev_simple_route; eauto.
  - (* EvSrcQueue *) destruct (sph_blocking (sph (gl s))); inversion Hs; subst. eapply ev_simple_route; eauto.
  - (* EvSrcRelease *) destruct (sph_lt_scanning (sph (gl s))); inversion Hs; subst. eapply ev_simple_route; eauto.
  - (* EvSrcRedirect *) destruct (sph_lt_scanning (sph (gl s))); inversion Hs; subst. eapply ev_simple_route; eauto 6.
  - (* EvExecSrc *) inversion Hs; subst. apply ev_exec_src; auto.
  - (* EvDstRedirect *) destruct (negb (dph_serving (dph (gl s))) && negb (committed (gl s))); inversion Hs; subst.
    eapply ev_simple_route; eauto.
  - (* EvDirect *) destruct (committed (gl s)) eqn:E; inversion Hs; subst. apply ev_direct; auto.
  - (* EvSendExists *)
    destruct (dph_serving (dph (gl s)) && negb (committed (gl s)) && negb (cpush c)) eqn:E; inversion Hs; subst.
    apply andb3 in E. destruct E as (E1 & E2 & E3). apply negb_true_iff in E3. apply ev_send_exists; auto.
  - (* EvExistsExec *) inversion Hs; subst. apply ev_exists_exec; auto.
  - (* EvPullLock *) destruct ok.
    + destruct (is_none (klock (gl s))) eqn:E; inversion Hs; subst. apply is_none_true in E.
      eapply ev_klock_acquire; eauto. intros; discriminate.
    + inversion Hs; subst. apply ev_pull_lock_fail; auto.
  - (* EvDumpExec *) inversion Hs; subst. apply ev_dump_exec; auto.
  - (* EvPttlExec *) eapply ev_pttl_exec; eauto.
  - (* EvRestoreExec *) inversion Hs; subst. eapply ev_restore_exec; eauto.
  - (* EvPushLock *)
    destruct (dph_serving (dph (gl s)) && negb (committed (gl s)) && cpush c) eqn:E; try discriminate.
    apply andb3 in E. destruct E as (E1 & E2 & E3). destruct ok.
    + destruct (is_none (klock (gl s))) eqn:Ek; inversion Hs; subst. apply is_none_true in Ek.
      eapply ev_klock_acquire; eauto.
    + inversion Hs; subst. apply ev_push_pending; auto.
  - (* EvPushRetry *) destruct ok.
    + destruct (is_none (klock (gl s))) eqn:Ek; inversion Hs; subst. apply is_none_true in Ek.
      eapply ev_klock_acquire; eauto. intros; discriminate.
    + destruct (Nat.ltb (S n) UMSYNC_RETRY_TIMES); inversion Hs; subst; eapply ev_push_retry_fail; eauto.
  - (* EvSyncLock *) destruct ok.
    + destruct (is_none (slock (gl s))) eqn:Ek; inversion Hs; subst. apply is_none_true in Ek. apply ev_sync_lock; auto.
    + inversion Hs; subst. apply ev_sync_queue; auto.
  - (* EvSyncNotFound *) destruct (committed (gl s)) eqn:E; inversion Hs; subst.
    eapply ev_sync_replied_passed; eauto. apply (committed_src_none _ (i_glob _ I) E).
  - (* EvFastPttl *) inversion Hs; subst. apply ev_fast_pttl; auto.
  - (* EvFastDump *) eapply ev_fast_dump; eauto.
  - (* EvFastRestore *) inversion Hs; subst. eapply ev_push_restore; eauto.
  - (* EvFastDel *) inversion Hs; subst. apply ev_fast_del; auto.
  - (* EvSlowPttl *)
    destruct (negb (visiting (scan (gl s))) && sph_eqb (sph (gl s)) SScanning) eqn:E; inversion Hs; subst.
    apply andb_true_iff in E. destruct E as [E _]. apply negb_true_iff in E. apply ev_slow_pttl; auto.
  - (* EvSlowDump *) eapply ev_slow_dump; eauto.
  - (* EvSlowRestore *) inversion Hs; subst. eapply ev_push_restore; eauto.
  - (* EvSlowDel *) inversion Hs; subst. apply ev_slow_del; auto.
  - (* EvSyncFinished *) destruct (scan (gl s)) eqn:E; cbn in Hs; inversion Hs; subst.
    eapply ev_sync_replied_passed; eauto.
  - (* EvPushForward *) inversion Hs; subst. apply ev_push_forward; auto.
  - (* EvExecDst *) inversion Hs; subst. apply ev_exec_dst; auto.
  - (* EvReply *) inversion Hs; subst. apply ev_reply; auto.
  - (* EvEnsured *)
    destruct (dph_serving (dph (gl s)) && negb (committed (gl s)) && (negb (is_none (dst (gl s))) || is_none (src (gl s)))) eqn:E;
      inversion Hs; subst.
    apply andb3 in E. destruct E as (E1 & E2 & E3). apply ev_ensured; auto.
Qed.

Lemma cl_step_inv : forall s i o e g' o',
  Inv s -> nth_error (ops s) i = Some o -> cl_step (gl s) o e = Some (g', o') ->
  Inv (mkState g' (upd i o' (ops s))).
Proof.
  intros s i [c p cl] e g' o' I Hn Hs. unfold cl_step in Hs. cbn [ocl] in Hs.
  destruct e; try discriminate; destruct cl; inversion Hs; subst.
  - apply ev_pull_unlock; auto.
  - apply ev_pull_del; auto.
Qed.

Lemma glob_step_inv : forall s e g',
  Inv s -> commit_step s e = true -> glob_step (gl s) (ops s) e = Some g' -> Inv (mkState g' (ops s)).
Proof.
  intros s e g' I C Hs. pose proof (i_glob _ I) as G.
  destruct e; cbn [glob_step] in Hs; try discriminate.
  - (* EvScanSkip *)
    destruct (is_before (scan (gl s)) && sph_eqb (sph (gl s)) SScanning && is_none (src (gl s)) && no_slow (ops s)) eqn:E;
      inversion Hs; subst. apply andb_true_iff in E. destruct E as [E E4]. apply andb3 in E. destruct E as (E1 & E2 & E3).
    apply ev_scan_skip; auto.
    + destruct (scan (gl s)); cbn in E1; congruence.
    + apply sph_eqb_eq; auto.
    + apply is_none_true; auto.
  - (* EvScanLock *)
    destruct (is_before (scan (gl s)) && sph_eqb (sph (gl s)) SScanning && is_none (slock (gl s)) && no_slow (ops s)) eqn:E;
      inversion Hs; subst. apply andb_true_iff in E. destruct E as [E E4]. apply andb3 in E. destruct E as (E1 & E2 & E3).
    apply ev_scan_lock; auto.
    + destruct (scan (gl s)); cbn in E1; congruence.
    + apply sph_eqb_eq; auto.
    + apply is_none_true; auto.
  - (* EvScanPttl *) destruct (scan (gl s)) eqn:E; inversion Hs; subst. apply ev_scan_pttl; auto.
  - (* EvScanDump *) destruct (scan (gl s)) eqn:E; try discriminate. eapply ev_scan_dump; eauto.
    cbn [glob_step]. rewrite E. exact Hs.
  - (* EvScanRestore *) destruct (scan (gl s)) eqn:E; inversion Hs; subst. apply ev_scan_restore; auto.
  - (* EvScanDel *) destruct (scan (gl s)) eqn:E; inversion Hs; subst. apply ev_scan_del; auto.
  - (* EvPreCheckAck *)
    destruct (sph_eqb (sph (gl s)) SPreCheck && dph_eqb (dph (gl s)) DPreCheck) eqn:E; inversion Hs; subst.
    apply andb_true_iff in E. destruct E as [E _]. apply sph_eqb_eq in E. apply ev_sph; auto.
  - (* EvBlockingDone *)
    destruct (sph_eqb (sph (gl s)) SPreBlocking) eqn:E; inversion Hs; subst. apply sph_eqb_eq in E. apply ev_sph; auto.
  - (* EvDstPreSwitch *)
    destruct (sph_eqb (sph (gl s)) SPreSwitch && dph_eqb (dph (gl s)) DPreCheck) eqn:E; inversion Hs; subst.
    apply andb_true_iff in E. destruct E as [E _]. apply sph_eqb_eq in E. apply ev_dph; auto.
    unfold frozen. rewrite E. reflexivity.
  - (* EvSrcScanning *)
    destruct (sph_eqb (sph (gl s)) SPreSwitch && dph_eqb (dph (gl s)) DPreSwitch) eqn:E; inversion Hs; subst.
    apply andb_true_iff in E. destruct E as [E _]. apply sph_eqb_eq in E. apply ev_sph; auto.
  - (* EvScanFinished *)
    destruct (sph_eqb (sph (gl s)) SScanning && is_passed (scan (gl s)) && no_slow (ops s)) eqn:E; inversion Hs; subst.
    apply andb3 in E. destruct E as (E1 & E2 & _). apply sph_eqb_eq in E1. apply ev_sph; auto.
    right; right; right; left. repeat split; auto. destruct (scan (gl s)); cbn in E2; congruence.
  - (* EvDstFinal *)
    destruct (sph_eqb (sph (gl s)) SFinalSwitch && dph_eqb (dph (gl s)) DPreSwitch) eqn:E; inversion Hs; subst.
    apply andb_true_iff in E. destruct E as [E _]. apply sph_eqb_eq in E. apply ev_dph; auto.
    unfold frozen. rewrite E. reflexivity.
  - (* EvSrcFinal *)
    destruct (sph_eqb (sph (gl s)) SFinalSwitch && dph_eqb (dph (gl s)) DSwitchCommitted) eqn:E; inversion Hs; subst.
    apply andb_true_iff in E. destruct E as [E _]. apply sph_eqb_eq in E. apply ev_sph; auto 10.
  - (* EvCommit *)
    destruct (sph_eqb (sph (gl s)) SSwitchCommitted && negb (committed (gl s))) eqn:E; inversion Hs; subst.
    apply andb_true_iff in E. destruct E as [E _]. apply sph_eqb_eq in E. apply ev_commit; auto.
Qed.

Theorem step_inv : forall s e s', Inv s -> step_ok s e = true -> step s e = Some s' -> Inv s'.
Proof.
  intros s e s' I Ok Hs. unfold step_ok in Ok. apply andb_true_iff in Ok. destruct Ok as [Ok C4].
  apply andb3 in Ok. destruct Ok as (C1 & C2 & C3).
  unfold step in Hs.
  destruct (ev_op e) as [i|] eqn:Eo.
  - assert (NI : forall c b, e <> EvInvoke c b) by (intros c b ->; discriminate).
    assert (Hs' : match nth_error (ops s) i with
                  | Some o => match (if is_cl_event e then cl_step (gl s) o e else op_step (gl s) i o e) with
                              | Some (g', o') => Some (mkState g' (upd i o' (ops s)))
                              | None => None
                              end
                  | None => None
                  end = Some s').
    { destruct e; try exact Hs; discriminate. }
    clear Hs. destruct (nth_error (ops s) i) as [o|] eqn:Hn; [|discriminate].
    destruct (is_cl_event e) eqn:Ec.
    + destruct (cl_step (gl s) o e) as [[g' o']|] eqn:E; inversion Hs'; subst. eapply cl_step_inv; eauto.
    + destruct (op_step (gl s) i o e) as [[g' o']|] eqn:E; inversion Hs'; subst. eapply op_step_inv; eauto.
  - destruct e; cbn in Eo; try discriminate;
      try (destruct (glob_step (gl s) (ops s) _) as [g'|] eqn:E; inversion Hs; subst; eapply glob_step_inv; eauto; fail).
    inversion Hs; subst. apply ev_invoke; auto.
Qed.
