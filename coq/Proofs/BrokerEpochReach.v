(* Reachable broker stores and the generic "invariant of every reachable store" principle (used by C18, C04, C13).
   Choice made for ORestore (which installs an arbitrary caller-supplied snapshot): BOTH forms are provided.
   - `op_wf P o`   : an ORestore's snapshot itself satisfies P (every other operation is unconstrained);
   - `reachable s` : inductive; the snapshot of an ORestore must itself be reachable (this is what the broker's replica /
                     persistence path does: snapshots are earlier states of a broker).
   An invariant preserved by every step under `op_wf` holds of every reachable store and of `run s ops` for ALL op lists
   whose Restore snapshots satisfy it (in particular of all Restore-free lists, unconditionally). *)
From UM Require Import Base.BytesDef Model.Ranges Model.Broker Proofs.BrokerBase.

Definition op_wf (P : store -> Prop) (o : op) : Prop :=
  match o with ORestore snap => P snap | _ => True end.

Inductive reachable : store -> Prop :=
| reach_init (b : bool) : reachable (init_store b)
| reach_step (s : store) (o : op) :
    reachable s -> (forall snap, o = ORestore snap -> reachable snap) -> reachable (fst (step s o)).

Lemma run_app s ops1 ops2 : run s (ops1 ++ ops2) = run (run s ops1) ops2.
Proof. unfold run. apply fold_left_app. Qed.

Lemma run_cons s o ops : run s (o :: ops) = run (fst (step s o)) ops.
Proof. reflexivity. Qed.

Lemma run_nil s : run s [] = s.
Proof. reflexivity. Qed.

Lemma inv_run (P : store -> Prop) :
  (forall s o, P s -> op_wf P o -> P (fst (step s o))) ->
  forall ops s, P s -> Forall (op_wf P) ops -> P (run s ops).
Proof.
  intros P_step. induction ops as [|o ops IH]; intros s Hs Hall; [exact Hs|].
  inversion Hall; subst. rewrite run_cons. apply IH; auto.
Qed.

Lemma inv_reachable (P : store -> Prop) :
  (forall s o, P s -> op_wf P o -> P (fst (step s o))) ->
  (forall b, P (init_store b)) ->
  forall s, reachable s -> P s.
Proof.
  intros P_step P_init s. induction 1 as [b|s o Hr IH Hsnap IHsnap]; [apply P_init|].
  apply P_step; [exact IH|]. destruct o; cbn [op_wf]; auto.
Qed.

Lemma op_wf_impl (P Q : store -> Prop) o : (forall s, P s -> Q s) -> op_wf P o -> op_wf Q o.
Proof. destruct o; cbn [op_wf]; auto. Qed.

Lemma reachable_run ops : forall s, reachable s -> Forall (op_wf reachable) ops -> reachable (run s ops).
Proof.
  apply inv_run. intros s o Hs Ho. apply reach_step; [exact Hs|].
  intros snap ->. exact Ho.
Qed.

(* operation lists without ORestore *)
Definition is_restore (o : op) : bool := match o with ORestore _ => true | _ => false end.
Definition restore_free (ops : list op) : Prop := Forall (fun o => is_restore o = false) ops.

Lemma restore_free_op_wf P ops : restore_free ops -> Forall (op_wf P) ops.
Proof.
  unfold restore_free. intros H. eapply Forall_impl; [|exact H].
  intros o Ho. destruct o; cbn in *; auto; discriminate.
Qed.
