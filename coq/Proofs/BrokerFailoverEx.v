(* Concrete stores used by the Examples of Props/C06.v (non-vacuity witnesses): a cluster that is in the middle of a
   scale-out migration (both parts of chunk 0 migrate to chunk 1), before and after one and two failovers. *)
From UM Require Import Base.BytesDef Model.Ranges Model.Broker.

Definition ex_ops : list op :=
  [OAddProxy 1 (Some 10) None; OAddProxy 2 (Some 11) None; OAddProxy 3 (Some 10) None; OAddProxy 4 (Some 11) None;
   OAddProxy 5 (Some 10) None; OAddProxy 6 (Some 11) None; OAddProxy 7 (Some 10) None; OAddProxy 8 (Some 11) None;
   OAddProxy 9 (Some 10) None; OAddProxy 10 (Some 11) None;
   OAddCluster 1 4 1 [(5, 4)]; OAutoAddNodes 1 4 [(8, 3)]; OMigrateSlots 1].

(* chunk 0 = proxies 5 / 4 (role Normal, both parts migrating out), chunk 1 = proxies 8 / 3 (importing) *)
Definition ex_store : store := run (init_store false) ex_ops.
(* proxy 5 failed and was replaced by 7: chunk 0 in role SecondChunkMaster *)
Definition ex_store1 : store := run ex_store [OReplaceFailed 5 (Some 7)].
(* then proxy 4 failed too, replaced by 6: chunk 0 goes SecondChunkMaster -> FirstChunkMaster, both parts move *)
Definition ex_store2 : store := run ex_store1 [OReplaceFailed 4 (Some 6)].

Definition ex_cluster (s : store) : cluster :=
  match alookup 1 (st_clusters s) with Some cl => cl | None => mkCluster 0 [] 0 end.
