(* Concrete stores used by the Examples of Props/C06.v (non-vacuity witnesses): a cluster that is in the middle of a
   scale-out migration (both parts of chunk 0 migrate to chunk 1), before and after one and two failovers; plus boolean
   checkers (with soundness lemmas) for the hypotheses mig_wf / epochs_le / first_at so that the Examples can be
   discharged by computation on these concrete stores. *)
From UM Require Import Base.BytesDef Model.Ranges Model.Broker Proofs.BrokerBase Proofs.BrokerFailoverStruct
  Proofs.BrokerFailoverTakeover Proofs.BrokerFailoverStore.

Definition ex_ops : list op :=
  [OAddProxy 1 (Some 10) None; OAddProxy 2 (Some 11) None; OAddProxy 3 (Some 10) None; OAddProxy 4 (Some 11) None;
   OAddProxy 5 (Some 10) None; OAddProxy 6 (Some 11) None; OAddProxy 7 (Some 10) None; OAddProxy 8 (Some 11) None;
   OAddProxy 9 (Some 10) None; OAddProxy 10 (Some 11) None;
   OAddCluster 1 4 1 [(5, 4)]; OAutoAddNodes 1 4 [(8, 3)]; OMigrateSlots 1].

(* chunk 0 = proxies 5 / 4 (role Normal, both parts migrating out), chunk 1 = proxies 8 / 3 (importing) *)
Definition ex_store : store := run (init_store false) ex_ops.
(* proxy 5 failed and was replaced by 7: chunk 0 in role SecondChunkMaster *)
Definition ex_store1 : store := run ex_store [OReplaceFailed 5 (Some 7)].
(* then proxy 4 failed too, replaced by 6: chunk 0 goes SecondChunkMaster -> FirstChunkMaster, both parts move *)
Definition ex_store2 : store := run ex_store1 [OReplaceFailed 4 (Some 6)].

Definition ex_cluster (s : store) : cluster :=
  match alookup 1 (st_clusters s) with Some cl => cl | None => mkCluster 0 [] 0 end.

(* ---------- boolean checkers ---------- *)
Fixpoint rl_eqb (a b : rangelist) : bool :=
  match a, b with
  | [], [] => true
  | x :: a', y :: b' => N.eqb (fst x) (fst y) && N.eqb (snd x) (snd y) && rl_eqb a' b'
  | _, _ => false
  end.

Lemma rl_eqb_eq a b : rl_eqb a b = true -> a = b.
Proof.
  revert b. induction a as [|[x1 x2] a IH]; intros [|[y1 y2] b]; cbn [rl_eqb fst snd]; try discriminate; [reflexivity|].
  intros H. apply andb_true_iff in H. destruct H as [H H3]. apply andb_true_iff in H. destruct H as [H1 H2].
  apply N.eqb_eq in H1. apply N.eqb_eq in H2. subst. rewrite (IH b H3). reflexivity.
Qed.

Lemma meta_eqb_eq a b : meta_eqb a b = true -> a = b.
Proof.
  destruct a as [e si sp di dp], b as [e' si' sp' di' dp']. unfold meta_eqb. cbn.
  intros H. repeat (apply andb_true_iff in H; destruct H as [H ?]).
  apply N.eqb_eq in H. apply Nat.eqb_eq in H3. apply Bool.eqb_prop in H2. apply Nat.eqb_eq in H1. apply Bool.eqb_prop in H0.
  subst. reflexivity.
Qed.

Definition entry_ok (chunks : list chunk) (j : nat) (p : bool) (m : mig_store) : bool :=
  pos_eqb (if ms_out m then src_pos m else dst_pos m) (j, p) &&
  match nth_error chunks (fst (if ms_out m then dst_pos m else src_pos m)) with
  | Some ct => existsb (fun m2 => Bool.eqb (ms_out m2) (negb (ms_out m)) && rl_eqb (ms_ranges m2) (ms_ranges m)
                                  && meta_eqb (ms_meta m2) (ms_meta m))
                       (ck_mig ct (snd (if ms_out m then dst_pos m else src_pos m)))
  | None => false
  end.

Fixpoint wf_from (chunks : list chunk) (j : nat) (rest : list chunk) : bool :=
  match rest with
  | [] => true
  | c :: r => forallb (entry_ok chunks j false) (ck_mig c false) && forallb (entry_ok chunks j true) (ck_mig c true)
              && wf_from chunks (S j) r
  end.

Definition mig_wf_b (chunks : list chunk) : bool := wf_from chunks 0 chunks.

Lemma wf_from_sound chunks : forall rest j, wf_from chunks j rest = true ->
  forall k c p m, nth_error rest k = Some c -> In m (ck_mig c p) -> entry_ok chunks (j + k) p m = true.
Proof.
  induction rest as [|c0 rest IH]; intros j H k c p m Hk Hm.
  - destruct k; discriminate.
  - cbn [wf_from] in H. apply andb_true_iff in H. destruct H as [H H3]. apply andb_true_iff in H. destruct H as [H1 H2].
    destruct k as [|k].
    + cbn in Hk. inversion Hk; subst c0. rewrite Nat.add_0_r.
      destruct p; [apply (proj1 (forallb_forall _ _) H2 m Hm)|apply (proj1 (forallb_forall _ _) H1 m Hm)].
    + cbn in Hk. replace (j + S k)%nat with (S j + k)%nat by lia. apply (IH (S j) H3 k c p m Hk Hm).
Qed.

Lemma mig_wf_b_sound chunks : mig_wf_b chunks = true -> mig_wf chunks.
Proof.
  intros H j cj p m Hj Hm.
  pose proof (wf_from_sound chunks chunks 0 H j cj p m Hj Hm) as Hok. cbn [Nat.add] in Hok.
  unfold entry_ok in Hok. apply andb_true_iff in Hok. destruct Hok as [H1 H2].
  apply pos_eqb_eq in H1. split; [exact H1|].
  destruct (nth_error chunks (fst (if ms_out m then dst_pos m else src_pos m))) as [ct|]; [|discriminate].
  apply existsb_exists in H2. destruct H2 as (m2 & Hin & Hc).
  apply andb_true_iff in Hc. destruct Hc as [Hc H5]. apply andb_true_iff in Hc. destruct Hc as [H3 H4].
  exists ct, m2. split; [reflexivity|]. split; [exact Hin|].
  split; [apply Bool.eqb_prop; exact H3|]. split; [apply rl_eqb_eq; exact H4|apply meta_eqb_eq; exact H5].
Qed.

Definition epochs_le_b (chunks : list chunk) (E : N) : bool :=
  forallb (fun c => forallb (fun m => N.leb (mm_epoch (ms_meta m)) E) (ck_mig0 c ++ ck_mig1 c)) chunks.

Lemma epochs_le_b_sound chunks E : epochs_le_b chunks E = true -> epochs_le chunks E.
Proof.
  intros H j cj p m Hj Hm. unfold epochs_le_b in H.
  pose proof (proj1 (forallb_forall _ _) H cj (nth_error_In _ _ Hj)) as Hc.
  assert (Hin : In m (ck_mig0 cj ++ ck_mig1 cj)) by (apply in_app_iff; destruct p; cbn [ck_mig] in Hm; auto).
  pose proof (proj1 (forallb_forall _ _) Hc m Hin) as Hle. apply N.leb_le in Hle. exact Hle.
Qed.

(* a one-cluster store satisfies store_epochs_le when its only cluster does *)
Lemma store_epochs_le_single s n cl :
  st_clusters s = [(n, cl)] -> epochs_le_b (cl_chunks cl) (st_epoch s) = true -> store_epochs_le s.
Proof.
  intros Hc Hb n0 cl0 Hl. rewrite Hc in Hl. cbn [alookup] in Hl.
  destruct (N.eqb n0 n); [|discriminate]. inversion Hl; subst cl0. apply epochs_le_b_sound. exact Hb.
Qed.

Fixpoint first_at_b (chunks : list chunk) (f : N) (i : nat) (pos : bool) : bool :=
  match chunks, i with
  | c :: _, O => N.eqb (ck_proxy c pos) f && (negb pos || negb (N.eqb (ck_proxy0 c) f))
  | c :: rest, S i' => negb (N.eqb (ck_proxy0 c) f) && negb (N.eqb (ck_proxy1 c) f) && first_at_b rest f i' pos
  | [], _ => false
  end.

Lemma first_at_b_sound : forall chunks f i pos, first_at_b chunks f i pos = true ->
  exists c, first_at chunks f i c pos.
Proof.
  induction chunks as [|c0 rest IH]; intros f i pos H; [destruct i; discriminate|].
  destruct i as [|i]; cbn [first_at_b] in H.
  - apply andb_true_iff in H. destruct H as [H1 H2]. apply N.eqb_eq in H1.
    exists c0. split; [reflexivity|]. split; [exact H1|]. split; [|intros j cj Hj; lia].
    intros ->. cbn in H2. apply negb_true_iff in H2. apply N.eqb_neq. exact H2.
  - apply andb_true_iff in H. destruct H as [H H3]. apply andb_true_iff in H. destruct H as [H1 H2].
    apply negb_true_iff in H1. apply negb_true_iff in H2. apply N.eqb_neq in H1. apply N.eqb_neq in H2.
    destruct (IH f i pos H3) as (c & Hn & Hp & Hp0 & Hb).
    exists c. split; [exact Hn|]. split; [exact Hp|]. split; [exact Hp0|].
    intros [|j] cj Hj Hcj.
    + cbn in Hcj. inversion Hcj; subst. auto.
    + apply (Hb j cj); [lia|exact Hcj].
Qed.
