(* C12 accounting: definitions of the invariant and the list lemmas it needs.
   Model/Broker.v and Proofs/BrokerBase.v are read-only; everything here is additional. *)
From UM Require Import Base.BytesDef Model.Ranges Model.Broker Proofs.BrokerBase.
From Coq Require Import ZifyBool ZifyNat ZifyN Permutation.

(* ---------- booleans on N ---------- *)
Lemma neqb_neq a b : N.eqb a b = false <-> a <> b.
Proof. apply N.eqb_neq. Qed.

Lemma smem_In k l : smem k l = true <-> In k l.
Proof.
  unfold smem. rewrite existsb_exists. split.
  - intros (x & Hin & E). apply N.eqb_eq in E. subst. exact Hin.
  - intros H. exists k. split; [exact H|apply N.eqb_refl].
Qed.

Lemma smem_false_In k l : smem k l = false <-> ~ In k l.
Proof.
  rewrite <- smem_In. destruct (smem k l); split; intros H; try congruence; try tauto.
Qed.

(* ---------- sorted association lists ---------- *)
Lemma keys_sorted_tail {V} (x : N * V) l : keys_sorted (x :: l) -> keys_sorted l.
Proof. destruct x. cbn [keys_sorted]. tauto. Qed.

Lemma keys_sorted_NoDup {V} (l : list (N * V)) : keys_sorted l -> NoDup (map fst l).
Proof.
  induction l as [|[k v] l IH]; cbn [keys_sorted map fst]; [constructor|].
  intros [Hlt Hs]. constructor; [|auto].
  intros Hin. apply in_map_iff in Hin. destruct Hin as ([k' v'] & E & Hin). cbn [fst] in E. subst k'.
  specialize (Hlt _ _ Hin). lia.
Qed.

Lemma alookup_None_notin {V} k (l : list (N * V)) : alookup k l = None -> forall v, ~ In (k, v) l.
Proof.
  induction l as [|[k' v'] l IH]; cbn [alookup In]; [tauto|].
  destruct (N.eqb k k') eqn:E; [discriminate|].
  intros H v [Heq|Hin]; [inversion Heq; subst; rewrite N.eqb_refl in E; discriminate|]. eapply IH; eauto.
Qed.

Lemma alookup_filter {V} (p : N * V -> bool) k v l :
  alookup k (filter p l) = Some v -> In (k, v) l /\ p (k, v) = true.
Proof.
  induction l as [|[k' v'] l IH]; cbn [filter alookup]; [discriminate|].
  destruct (p (k', v')) eqn:Ep.
  - cbn [alookup]. destruct (N.eqb k k') eqn:E.
    + intros H. inversion H; subst. apply N.eqb_eq in E. subst. split; [left; reflexivity|exact Ep].
    + intros H. destruct (IH H). split; [right|]; auto.
  - intros H. destruct (IH H). split; [right|]; auto.
Qed.

(* ---------- tag_proxies ---------- *)
Lemma set_pr_cluster_idem r c : set_pr_cluster (set_pr_cluster r c) c = set_pr_cluster r c.
Proof. reflexivity. Qed.

Lemma alookup_tag ps addrs c a :
  alookup a (tag_proxies ps addrs c) =
  match alookup a ps with
  | Some r => Some (if smem a addrs then set_pr_cluster r c else r)
  | None => None
  end.
Proof.
  revert ps. induction addrs as [|a0 rest IH]; intros ps; cbn [tag_proxies].
  - destruct (alookup a ps); reflexivity.
  - rewrite IH. unfold smem. cbn [existsb]. fold (smem a rest).
    destruct (alookup a0 ps) as [r0|] eqn:E0.
    + rewrite alookup_ainsert. destruct (N.eqb a a0) eqn:E.
      * apply N.eqb_eq in E. subst a0. rewrite E0. cbn [orb]. destruct (smem a rest); reflexivity.
      * cbn [orb]. reflexivity.
    + destruct (N.eqb a a0) eqn:E.
      * apply N.eqb_eq in E. subst a0. rewrite E0. reflexivity.
      * cbn [orb]. reflexivity.
Qed.

Lemma tag_sorted ps addrs c : keys_sorted ps -> keys_sorted (tag_proxies ps addrs c).
Proof.
  revert ps. induction addrs as [|a0 rest IH]; intros ps Hs; cbn [tag_proxies]; [exact Hs|].
  apply IH. destruct (alookup a0 ps); [apply ainsert_sorted|]; exact Hs.
Qed.

(* ---------- skeleton of a chunk: the fields the accounting talks about ---------- *)
Definition skel := (N * N * N * N * N * N * N * N)%type.
Definition ck_skel (c : chunk) : skel :=
  (ck_proxy0 c, ck_proxy1 c, ck_host0 c, ck_host1 c, ck_n0 c, ck_n1 c, ck_n2 c, ck_n3 c).
Definition cl_skel (cl : cluster) : list skel := map ck_skel (cl_chunks cl).
Definition skel_proxies (k : skel) : list N := let '(p0, p1, _, _, _, _, _, _) := k in [p0; p1].

Lemma cluster_proxies_skel cl : cluster_proxies cl = flat_map skel_proxies (cl_skel cl).
Proof.
  unfold cluster_proxies, cl_skel. induction (cl_chunks cl) as [|c l IH]; cbn [flat_map map]; [reflexivity|].
  rewrite IH. reflexivity.
Qed.

Lemma cluster_proxies_same cl cl' : cl_skel cl' = cl_skel cl -> cluster_proxies cl' = cluster_proxies cl.
Proof. intros H. rewrite !cluster_proxies_skel, H. reflexivity. Qed.

(* ---------- the accounting invariant ---------- *)
(* one half of a chunk: the proxy is registered, tagged with this cluster, and the chunk records its host / node addresses *)
Definition half_ok (ps : list (N * presource)) (name a h n0 n1 : N) : Prop :=
  exists r, alookup a ps = Some r /\ pr_cluster r = Some name /\ pr_host r = h /\ pr_n0 r = n0 /\ pr_n1 r = n1.

Definition chunk_ok (ps : list (N * presource)) (name : N) (c : chunk) : Prop :=
  half_ok ps name (ck_proxy0 c) (ck_host0 c) (ck_n0 c) (ck_n1 c) /\
  half_ok ps name (ck_proxy1 c) (ck_host1 c) (ck_n2 c) (ck_n3 c).

Definition skel_ok (ps : list (N * presource)) (name : N) (k : skel) : Prop :=
  let '(p0, p1, h0, h1, n0, n1, n2, n3) := k in half_ok ps name p0 h0 n0 n1 /\ half_ok ps name p1 h1 n2 n3.

Lemma chunk_ok_skel ps name c : chunk_ok ps name c <-> skel_ok ps name (ck_skel c).
Proof. reflexivity. Qed.

Definition cluster_ok (ps : list (N * presource)) (name : N) (cl : cluster) : Prop :=
  Forall (chunk_ok ps name) (cl_chunks cl) /\ NoDup (cluster_proxies cl).

Lemma Forall_chunk_ok_skel ps name l : Forall (chunk_ok ps name) l <-> Forall (skel_ok ps name) (map ck_skel l).
Proof. rewrite Forall_map. reflexivity. Qed.

Lemma cluster_ok_same ps name cl cl' : cl_skel cl' = cl_skel cl -> cluster_ok ps name cl -> cluster_ok ps name cl'.
Proof.
  intros H [H1 H2]. split.
  - apply Forall_chunk_ok_skel. fold (cl_skel cl'). rewrite H. apply Forall_chunk_ok_skel. exact H1.
  - rewrite (cluster_proxies_same _ _ H). exact H2.
Qed.

(* all chunk proxy positions of all clusters *)
Definition all_positions (cs : list (N * cluster)) : list N := flat_map (fun nc => cluster_proxies (snd nc)) cs.

Definition acct (ps : list (N * presource)) (cs : list (N * cluster)) : Prop :=
  keys_sorted ps /\ keys_sorted cs /\
  (forall n cl, alookup n cs = Some cl -> cluster_ok ps n cl) /\
  (forall a r n, alookup a ps = Some r -> pr_cluster r = Some n ->
                 exists cl, alookup n cs = Some cl /\ In a (cluster_proxies cl)).

Definition acct_inv (s : store) : Prop := acct (st_proxies s) (st_clusters s).

(* a proxy occurring in a cluster's chunks is tagged with that cluster *)
Lemma in_cluster_tagged ps name cl a :
  cluster_ok ps name cl -> In a (cluster_proxies cl) -> exists r, alookup a ps = Some r /\ pr_cluster r = Some name.
Proof.
  intros [HF _] Hin. unfold cluster_proxies in Hin. apply in_flat_map in Hin. destruct Hin as (c & Hc & Ha).
  rewrite Forall_forall in HF. destruct (HF _ Hc) as [(r0 & L0 & C0 & _) (r1 & L1 & C1 & _)].
  cbn [chunk_proxies In] in Ha. destruct Ha as [<-|[<-|[]]]; eauto.
Qed.

(* ---------- NoDup / flat_map ---------- *)
Lemma NoDup_app_intro {A} (l1 l2 : list A) :
  NoDup l1 -> NoDup l2 -> (forall x, In x l1 -> In x l2 -> False) -> NoDup (l1 ++ l2).
Proof.
  induction l1 as [|x l1 IH]; cbn [app]; intros H1 H2 Hd; [exact H2|].
  inversion H1; subst. constructor.
  - rewrite in_app_iff. intros [H|H]; [auto|]. apply (Hd x); [left; reflexivity|exact H].
  - apply IH; auto. intros y Hy1 Hy2. apply (Hd y); [right; exact Hy1|exact Hy2].
Qed.

Lemma NoDup_app_l {A} (l1 l2 : list A) : NoDup (l1 ++ l2) -> NoDup l1.
Proof. induction l1 as [|x l1 IH]; cbn [app]; intros H; [constructor|]. inversion H; subst. constructor; [rewrite in_app_iff in *; tauto|auto]. Qed.
Lemma NoDup_app_r {A} (l1 l2 : list A) : NoDup (l1 ++ l2) -> NoDup l2.
Proof. induction l1 as [|x l1 IH]; cbn [app]; intros H; [exact H|]. inversion H; subst. auto. Qed.
Lemma NoDup_app_disj {A} (l1 l2 : list A) x : NoDup (l1 ++ l2) -> In x l1 -> In x l2 -> False.
Proof.
  induction l1 as [|y l1 IH]; cbn [app In]; intros H H1 H2; [tauto|].
  apply NoDup_cons_iff in H. destruct H as [Hn Hd].
  destruct H1 as [->|H1]; [apply Hn; rewrite in_app_iff; tauto|eauto].
Qed.

Lemma all_positions_NoDup ps cs : acct ps cs -> NoDup (all_positions cs).
Proof.
  intros (_ & Hcs & Hok & _). unfold all_positions.
  assert (Hsub : forall n cl, In (n, cl) cs -> alookup n cs = Some cl) by (intros; apply In_alookup_sorted; auto).
  assert (G : forall l, keys_sorted l -> (forall n cl, In (n, cl) l -> alookup n cs = Some cl) ->
              NoDup (flat_map (fun nc => cluster_proxies (snd nc)) l)); [|apply G; auto].
  clear Hcs Hsub.
  induction l as [|[n cl] l IH]; intros Hs Hsub; cbn [flat_map snd]; [constructor|].
  apply NoDup_app_intro.
  - apply (Hok n cl). apply Hsub. left. reflexivity.
  - apply IH; [eapply keys_sorted_tail; eauto|]. intros. apply Hsub. right. assumption.
  - intros a Ha Hb. apply in_flat_map in Hb. destruct Hb as ([n2 cl2] & Hin2 & Ha2). cbn [snd] in Ha2.
    destruct (in_cluster_tagged ps n cl a) as (r & L & C); [apply Hok, Hsub; left; reflexivity|exact Ha|].
    destruct (in_cluster_tagged ps n2 cl2 a) as (r2 & L2 & C2); [apply Hok, Hsub; right; exact Hin2|exact Ha2|].
    rewrite L in L2. inversion L2; subst r2. rewrite C in C2. inversion C2; subst n2.
    cbn [keys_sorted] in Hs. destruct Hs as [Hlt _]. specialize (Hlt _ _ Hin2). lia.
Qed.

Lemma flat_map_filter_split {A B} (f : A -> list B) (p : A -> bool) l x :
  In x (flat_map f l) -> In x (flat_map f (filter p l)) \/ In x (flat_map f (filter (fun c => negb (p c)) l)).
Proof.
  induction l as [|c l IH]; cbn [flat_map filter]; [tauto|].
  rewrite in_app_iff. intros [H|H].
  - destruct (p c); cbn [negb flat_map]; rewrite in_app_iff; tauto.
  - destruct (IH H); destruct (p c); cbn [negb flat_map]; rewrite ?in_app_iff; tauto.
Qed.

Lemma flat_map_filter_sub {A B} (f : A -> list B) (p : A -> bool) l x :
  In x (flat_map f (filter p l)) -> In x (flat_map f l).
Proof.
  rewrite !in_flat_map. intros (c & Hc & Hx). apply filter_In in Hc. destruct Hc. eauto.
Qed.

Lemma NoDup_flat_map_filter {A B} (f : A -> list B) (p : A -> bool) l :
  NoDup (flat_map f l) -> NoDup (flat_map f (filter p l)).
Proof.
  induction l as [|c l IH]; cbn [flat_map filter]; intros H; [constructor|].
  destruct (p c); cbn [flat_map].
  - apply NoDup_app_intro; [eapply NoDup_app_l; eauto|apply IH; eapply NoDup_app_r; eauto|].
    intros x H1 H2. apply flat_map_filter_sub in H2. eapply NoDup_app_disj; eauto.
  - apply IH. eapply NoDup_app_r; eauto.
Qed.

Lemma flat_map_filter_disj {A B} (f : A -> list B) (p : A -> bool) l x :
  NoDup (flat_map f l) -> In x (flat_map f (filter p l)) -> In x (flat_map f (filter (fun c => negb (p c)) l)) -> False.
Proof.
  induction l as [|c l IH]; cbn [flat_map filter]; intros H H1 H2; [tauto|].
  pose proof (NoDup_app_r _ _ H) as Hr.
  destruct (p c); cbn [negb flat_map] in *.
  - rewrite in_app_iff in H1. destruct H1 as [H1|H1]; [|eauto].
    apply flat_map_filter_sub in H2. eapply NoDup_app_disj; eauto.
  - rewrite in_app_iff in H2. destruct H2 as [H2|H2]; [|eauto].
    apply flat_map_filter_sub in H1. eapply NoDup_app_disj; eauto.
Qed.

(* ---------- update_nth / map keep the skeleton ---------- *)
Lemma map_update_nth {A B} (g : A -> B) (f : A -> A) n l :
  (forall x, g (f x) = g x) -> map g (update_nth n f l) = map g l.
Proof.
  intros Hf. revert n. induction l as [|x l IH]; intros n; destruct n; cbn [update_nth map]; try reflexivity.
  - rewrite Hf. reflexivity.
  - rewrite IH. reflexivity.
Qed.

Lemma map_map_same {A B} (g : A -> B) (f : A -> A) l : (forall x, g (f x) = g x) -> map g (map f l) = map g l.
Proof. intros Hf. rewrite map_map. apply map_ext. exact Hf. Qed.

Lemma skel_set_stable c p v : ck_skel (set_stable c p v) = ck_skel c.
Proof. destruct p; reflexivity. Qed.
Lemma skel_set_mig c p v : ck_skel (set_mig c p v) = ck_skel c.
Proof. destruct p; reflexivity. Qed.
Lemma skel_set_role c r : ck_skel (set_role c r) = ck_skel c.
Proof. reflexivity. Qed.
Lemma skel_compact_chunk c : ck_skel (compact_chunk c) = ck_skel c.
Proof. reflexivity. Qed.

(* replacing a stored cluster by one with the same skeleton *)
Lemma acct_same_skel ps cs name cl cl' :
  acct ps cs -> alookup name cs = Some cl -> cl_skel cl' = cl_skel cl -> acct ps (ainsert name cl' cs).
Proof.
  intros (Hps & Hcs & Hok & Hback) L Hsk. split; [exact Hps|]. split; [apply ainsert_sorted; exact Hcs|]. split.
  - intros n c2. rewrite alookup_ainsert. destruct (N.eqb n name) eqn:E.
    + intros H. inversion H; subst c2. apply N.eqb_eq in E. subst n. eapply cluster_ok_same; eauto.
    + apply Hok.
  - intros a r n La Ca. destruct (Hback a r n La Ca) as (c2 & L2 & Hin). rewrite alookup_ainsert.
    destruct (N.eqb n name) eqn:E.
    + apply N.eqb_eq in E. subst n. rewrite L in L2. inversion L2; subst c2.
      exists cl'. split; [reflexivity|]. rewrite (cluster_proxies_same _ _ Hsk). exact Hin.
    + eauto.
Qed.

(* mapping every cluster to one with the same skeleton *)
Lemma alookup_map_snd {V W} (f : N * V -> W) k (l : list (N * V)) :
  alookup k (map (fun nc => (fst nc, f nc)) l) = match alookup k l with Some v => Some (f (k, v)) | None => None end.
Proof.
  induction l as [|[k' v'] l IH]; cbn [map alookup fst]; [reflexivity|].
  destruct (N.eqb k k') eqn:E; [apply N.eqb_eq in E; subst; reflexivity|exact IH].
Qed.

Lemma keys_sorted_map_snd {V W} (f : N * V -> W) (l : list (N * V)) :
  keys_sorted l -> keys_sorted (map (fun nc => (fst nc, f nc)) l).
Proof.
  induction l as [|[k v] l IH]; cbn [map keys_sorted fst]; [tauto|].
  intros [Hlt Hs]. split; [|auto]. intros k' w Hin. apply in_map_iff in Hin. destruct Hin as ([k2 v2] & E & Hin).
  cbn [fst] in E. inversion E; subst. eauto.
Qed.

Lemma acct_map_clusters ps cs (f : N * cluster -> cluster) :
  (forall nc, cl_skel (f nc) = cl_skel (snd nc)) -> acct ps cs -> acct ps (map (fun nc => (fst nc, f nc)) cs).
Proof.
  intros Hf (Hps & Hcs & Hok & Hback). split; [exact Hps|]. split; [apply keys_sorted_map_snd; exact Hcs|]. split.
  - intros n c2. rewrite alookup_map_snd. destruct (alookup n cs) as [cl|] eqn:L; [|discriminate].
    intros H. inversion H; subst c2. eapply cluster_ok_same; [apply (Hf (n, cl))|]. cbn [snd]. auto.
  - intros a r n La Ca. destruct (Hback a r n La Ca) as (c2 & L2 & Hin). rewrite alookup_map_snd, L2.
    eexists. split; [reflexivity|]. rewrite (cluster_proxies_same _ _ (Hf (n, c2))). exact Hin.
Qed.
