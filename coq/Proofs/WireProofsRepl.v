(* ReplicatorMeta (UMCTL SETREPL): fuel lemmas, round trip, truncation at record boundaries only. *)
From UM Require Import Base.BytesDef Base.Dec Model.Wire Proofs.WireProofsBase Proofs.WireProofsLeaf.
From Coq Require Import ZifyBool ZifyNat ZifyN.

Lemma parse_peers_zero : forall toks, parse_peers toks 0 = Some ([], toks).
Proof. intros [|a [|b r]]; reflexivity. Qed.

Lemma parse_peers_cons : forall a b r n, parse_peers (a :: b :: r) n =
  if n =? 0 then Some ([], a :: b :: r)
  else match parse_peers r (n - 1) with
       | None => None
       | Some (ps, r') => Some ((a, b) :: ps, r')
       end.
Proof. reflexivity. Qed.

Lemma parse_peers_len_n : forall k t n ps r, (length t <= k)%nat -> parse_peers t n = Some (ps, r) -> (length r <= length t)%nat.
Proof.
  induction k as [|k IH]; intros t n ps r Hk H.
  - destruct t; [|cbn in Hk; lia]. cbn [parse_peers] in H. destruct (n =? 0); [|discriminate]. inversion H; subst. lia.
  - destruct t as [|a [|b t]].
    + cbn [parse_peers] in H. destruct (n =? 0); [|discriminate]. inversion H; subst. lia.
    + cbn [parse_peers] in H. destruct (n =? 0); [|discriminate]. inversion H; subst. lia.
    + rewrite parse_peers_cons in H. destruct (n =? 0).
      * inversion H; subst. lia.
      * destruct (parse_peers t (n - 1)) as [[ps' r']|] eqn:E; [|discriminate]. inversion H; subst.
        apply IH in E; [|cbn [length] in Hk; lia]. cbn [length]. lia.
Qed.

Lemma parse_peers_len : forall t n ps r, parse_peers t n = Some (ps, r) -> (length r <= length t)%nat.
Proof. intros t n ps r H. apply (parse_peers_len_n (length t) t n ps r); [lia|exact H]. Qed.

Definition peers_toks (ps : list (tok * tok)) : list tok := flat_map (fun p => [fst p; snd p]) ps.

Lemma parse_peers_roundtrip : forall ps rest, parse_peers (peers_toks ps ++ rest) (N.of_nat (length ps)) = Some (ps, rest).
Proof.
  induction ps as [|[a b] ps IH]; intros rest.
  - apply parse_peers_zero.
  - unfold peers_toks. cbn [flat_map fst snd app length]. fold (peers_toks ps).
    rewrite parse_peers_cons. rewrite Nat2N.inj_succ.
    destruct (N.succ (N.of_nat (length ps)) =? 0) eqn:E; [apply N.eqb_eq in E; destruct (N.neq_succ_0 _ E)|].
    rewrite <- N.pred_sub, N.pred_succ. rewrite IH. reflexivity.
Qed.

Lemma repl_loop_S : forall f role r1 ms rs, repl_loop (S f) (role :: r1) ms rs =
  match r1 with
  | [] => Err EInvalidClusterName
  | name :: r2 =>
    if negb (valid_cluster_name name) then Err EInvalidClusterName
    else match r2 with
    | [] => Err EInvalidArgs
    | addr :: r3 =>
      match r3 with
      | [] => Err EInvalidArgs
      | cnt :: r4 =>
        match parse_u64 cnt with
        | None => Err EInvalidArgs
        | Some n =>
          match parse_peers r4 n with
          | None => Err EInvalidArgs
          | Some (peers, r5) =>
            if bytes_eqb (to_upper role) kw_MASTER then repl_loop f r5 (ms ++ [MkRec name addr peers]) rs
            else if bytes_eqb (to_upper role) kw_REPLICA then repl_loop f r5 ms (rs ++ [MkRec name addr peers])
            else Err EInvalidRole
          end
        end
      end
    end
  end.
Proof. reflexivity. Qed.

Lemma repl_loop_fuel : forall f1 toks ms rs f2, (length toks < f1)%nat -> (length toks < f2)%nat ->
  repl_loop f1 toks ms rs = repl_loop f2 toks ms rs.
Proof.
  induction f1 as [|f1 IH]; intros toks ms rs f2 H1 H2; [lia|].
  destruct f2 as [|f2]; [lia|]. destruct toks as [|role r1]; [reflexivity|].
  rewrite !repl_loop_S. destruct r1 as [|name r2]; [reflexivity|].
  destruct (negb (valid_cluster_name name)); [reflexivity|].
  destruct r2 as [|addr r3]; [reflexivity|]. destruct r3 as [|cnt r4]; [reflexivity|].
  destruct (parse_u64 cnt); [|reflexivity].
  destruct (parse_peers r4 n) as [[peers r5]|] eqn:E; [|reflexivity].
  apply parse_peers_len in E. cbn [length] in H1, H2.
  destruct (bytes_eqb (to_upper role) kw_MASTER); [apply IH; lia|].
  destruct (bytes_eqb (to_upper role) kw_REPLICA); [apply IH; lia|reflexivity].
Qed.

Definition RL (toks : list tok) (ms rs : list repl_rec) := repl_loop (S (length toks)) toks ms rs.

Lemma RL_nil : forall ms rs, RL [] ms rs = Ok (ms, rs).
Proof. reflexivity. Qed.

Lemma RL_rec : forall role r rest ms rs, wf_rec r = true ->
  RL (rec_args role r ++ rest) ms rs =
  if bytes_eqb (to_upper role) kw_MASTER then RL rest (ms ++ [r]) rs
  else if bytes_eqb (to_upper role) kw_REPLICA then RL rest ms (rs ++ [r])
  else Err EInvalidRole.
Proof.
  intros role [name addr peers] rest ms rs H. unfold wf_rec in H. cbn [rr_cluster rr_peers] in H.
  apply andb_true_iff in H. destruct H as [Hn Hl]. apply N.leb_le in Hl.
  unfold RL, rec_args. cbn [rr_cluster rr_addr rr_peers app]. rewrite repl_loop_S. rewrite Hn. cbn [negb].
  rewrite parse_u64_to_dec by (unfold usize_max in Hl; exact Hl).
  fold (peers_toks peers). rewrite parse_peers_roundtrip.
  destruct (bytes_eqb (to_upper role) kw_MASTER); [apply repl_loop_fuel; cbn [length]; try rewrite app_length; lia|].
  destruct (bytes_eqb (to_upper role) kw_REPLICA); [apply repl_loop_fuel; cbn [length]; try rewrite app_length; lia|reflexivity].
Qed.

Lemma RL_masters : forall l rest ms rs, forallb wf_rec l = true ->
  RL (flat_map (rec_args kw_master) l ++ rest) ms rs = RL rest (ms ++ l) rs.
Proof.
  induction l as [|r l IH]; intros rest ms rs H.
  - cbn [flat_map app]. rewrite app_nil_r. reflexivity.
  - cbn [forallb] in H. apply andb_true_iff in H. destruct H as [Hr Hl].
    cbn [flat_map]. rewrite <- app_assoc. rewrite (RL_rec kw_master r _ ms rs Hr).
    replace (bytes_eqb (to_upper kw_master) kw_MASTER) with true by reflexivity.
    rewrite (IH rest _ rs Hl). rewrite <- app_assoc. reflexivity.
Qed.

Lemma RL_replicas : forall l rest ms rs, forallb wf_rec l = true ->
  RL (flat_map (rec_args kw_replica) l ++ rest) ms rs = RL rest ms (rs ++ l).
Proof.
  induction l as [|r l IH]; intros rest ms rs H.
  - cbn [flat_map app]. rewrite app_nil_r. reflexivity.
  - cbn [forallb] in H. apply andb_true_iff in H. destruct H as [Hr Hl].
    cbn [flat_map]. rewrite <- app_assoc. rewrite (RL_rec kw_replica r _ ms rs Hr).
    replace (bytes_eqb (to_upper kw_replica) kw_MASTER) with false by reflexivity.
    replace (bytes_eqb (to_upper kw_replica) kw_REPLICA) with true by reflexivity.
    rewrite (IH rest ms _ Hl). rewrite <- app_assoc. reflexivity.
Qed.

Lemma flags_roundtrip' : forall fl, flags_from_arg (flags_to_arg fl) = fl.
Proof. intros [[|] [|]]; reflexivity. Qed.

Lemma parse_repl_RL : forall e fl r2, e <= u64_max ->
  parse_repl (to_dec e :: fl :: r2) =
  match RL r2 [] [] with
  | Ok (ms, rs) => Ok (MkRepl e (flags_from_arg fl) ms rs)
  | Err x => Err x
  | Panic => Panic
  end.
Proof. intros e fl r2 He. unfold parse_repl. rewrite (parse_u64_to_dec e He). reflexivity. Qed.

Theorem repl_roundtrip : forall m, wf_repl m = true -> parse_repl (encode_repl m) = Ok m.
Proof.
  intros [e fl ms rs] H. unfold wf_repl in H. cbn [rm_epoch rm_masters rm_replicas] in H.
  apply andb_true_iff in H. destruct H as [H Hrs]. apply andb_true_iff in H. destruct H as [He Hms]. apply N.leb_le in He.
  unfold encode_repl. cbn [rm_epoch rm_flags rm_masters rm_replicas app].
  rewrite (parse_repl_RL e _ _ He). rewrite (RL_masters ms _ [] [] Hms).
  pose proof (RL_replicas rs [] ms [] Hrs) as R. rewrite app_nil_r in R. cbn [app] in *. rewrite R, RL_nil.
  rewrite flags_roundtrip'. reflexivity.
Qed.

(* ---------- truncation ---------- *)
Definition rec_len (r : repl_rec) : nat := (4 + 2 * length (rr_peers r))%nat.

Lemma rec_args_length : forall role r, length (rec_args role r) = rec_len r.
Proof.
  intros role r. unfold rec_args, rec_len. cbn [length app]. f_equal. f_equal. f_equal. f_equal.
  induction (rr_peers r) as [|p l IH]; [reflexivity|]. cbn [flat_map length app]. rewrite IH. lia.
Qed.

(* a strict, non-empty prefix of one record is rejected whatever has been collected before *)
Lemma parse_peers_short : forall ps k, (k < length (peers_toks ps))%nat ->
  parse_peers (firstn k (peers_toks ps)) (N.of_nat (length ps)) = None.
Proof.
  induction ps as [|[a b] ps IH]; intros k Hk; [cbn in Hk; lia|].
  unfold peers_toks in *. cbn [flat_map fst snd app length] in *. fold (peers_toks ps) in *.
  rewrite Nat2N.inj_succ.
  destruct k as [|[|k]].
  - cbn [firstn parse_peers]. destruct (N.succ (N.of_nat (length ps)) =? 0) eqn:E; [apply N.eqb_eq in E; destruct (N.neq_succ_0 _ E)|reflexivity].
  - cbn [firstn parse_peers]. destruct (N.succ (N.of_nat (length ps)) =? 0) eqn:E; [apply N.eqb_eq in E; destruct (N.neq_succ_0 _ E)|reflexivity].
  - cbn [firstn]. rewrite parse_peers_cons.
    destruct (N.succ (N.of_nat (length ps)) =? 0) eqn:E; [apply N.eqb_eq in E; destruct (N.neq_succ_0 _ E)|].
    rewrite <- N.pred_sub, N.pred_succ. rewrite IH by lia. reflexivity.
Qed.

Lemma RL_partial_rec : forall role r k ms rs, wf_rec r = true -> (0 < k)%nat -> (k < rec_len r)%nat ->
  is_err (RL (firstn k (rec_args role r)) ms rs) = true.
Proof.
  intros role [name addr peers] k ms rs H H0 Hk. unfold wf_rec in H. cbn [rr_cluster rr_peers] in H.
  apply andb_true_iff in H. destruct H as [Hn Hl]. apply N.leb_le in Hl.
  unfold rec_len in Hk. cbn [rr_peers] in Hk.
  unfold rec_args. cbn [rr_cluster rr_addr rr_peers app]. fold (peers_toks peers).
  destruct k as [|[|[|[|k]]]]; [lia| | | |]; unfold RL.
  - cbn [firstn]. rewrite repl_loop_S. reflexivity.
  - cbn [firstn]. rewrite repl_loop_S. rewrite Hn. reflexivity.
  - cbn [firstn]. rewrite repl_loop_S. rewrite Hn. reflexivity.
  - cbn [firstn]. rewrite repl_loop_S. rewrite Hn. cbn [negb].
    rewrite parse_u64_to_dec by (unfold usize_max in Hl; exact Hl).
    rewrite parse_peers_short; [reflexivity|].
    assert (length (peers_toks peers) = (2 * length peers)%nat).
    { clear. induction peers as [|p l IH]; [reflexivity|]. unfold peers_toks in *. cbn [flat_map length app]. rewrite IH. lia. }
    lia.
Qed.

Definition recs_toks (ms rs : list repl_rec) : list tok :=
  flat_map (rec_args kw_master) ms ++ flat_map (rec_args kw_replica) rs.

(* generic: cutting a concatenation of units *)
Lemma firstn_units : forall (us : list (list tok)) k, (k <= length (concat us))%nat ->
  exists j k', firstn k (concat us) = concat (firstn j us) ++ firstn k' (nth j us []) /\
               (k' < length (nth j us []) \/ (k' = 0 /\ j = length us))%nat /\
               k = (length (concat (firstn j us)) + k')%nat /\ (j <= length us)%nat.
Proof.
  induction us as [|u us IH]; intros k Hk.
  - cbn in Hk. exists 0%nat, 0%nat. assert (k = 0%nat) by lia. subst. cbn. repeat split; auto.
  - cbn [concat] in Hk. rewrite app_length in Hk.
    destruct (Nat.ltb k (length u)) eqn:E.
    + apply Nat.ltb_lt in E. exists 0%nat, k. cbn [firstn concat nth app length].
      repeat split; try lia. rewrite firstn_app. replace (k - length u)%nat with 0%nat by lia. cbn [firstn]. rewrite app_nil_r. reflexivity.
    + apply Nat.ltb_ge in E. destruct (IH (k - length u)%nat) as (j & k' & E1 & E2 & E3 & E4); [lia|].
      exists (S j), k'. cbn [firstn concat nth length]. repeat split; try lia.
      * rewrite firstn_app. rewrite firstn_all2 by lia. rewrite E1. rewrite app_assoc. reflexivity.
      * rewrite app_length. lia.
Qed.

Lemma prefix_sums_in : forall l base j, (j <= length l)%nat -> In (base + sum_nat (firstn j l))%nat (prefix_sums base l).
Proof.
  induction l as [|x l IH]; intros base j Hj.
  - cbn in Hj. assert (j = 0%nat) by lia. subst. cbn. left. lia.
  - destruct j as [|j].
    + cbn [firstn sum_nat fold_right prefix_sums]. left. lia.
    + cbn [firstn sum_nat fold_right prefix_sums]. right. cbn [length] in Hj.
      specialize (IH (base + x)%nat j). unfold sum_nat in IH. replace (base + (x + fold_right Nat.add 0 (firstn j l)))%nat
        with (base + x + fold_right Nat.add 0 (firstn j l))%nat by lia. apply IH. lia.
Qed.

Lemma existsb_eqb_in : forall k l, In k l -> existsb (Nat.eqb k) l = true.
Proof. intros k l H. apply existsb_exists. exists k. split; [exact H|apply Nat.eqb_refl]. Qed.

Lemma length_concat_sum : forall (us : list (list tok)), length (concat us) = sum_nat (map (@length tok) us).
Proof. induction us as [|u us IH]; [reflexivity|]. cbn [concat map sum_nat fold_right]. rewrite app_length, IH. reflexivity. Qed.

Lemma firstn_map : forall A B (f : A -> B) j l, firstn j (map f l) = map f (firstn j l).
Proof. intros A B f j. induction j as [|j IH]; intros [|x l]; cbn [firstn map]; try reflexivity. rewrite IH. reflexivity. Qed.

Lemma forallb_firstn : forall A (f : A -> bool) j l, forallb f l = true -> forallb f (firstn j l) = true.
Proof.
  intros A f j. induction j as [|j IH]; intros [|x l] H; cbn [firstn forallb] in *; try reflexivity.
  apply andb_true_iff in H. destruct H as [H1 H2]. rewrite H1, (IH l H2). reflexivity.
Qed.

Definition unit_toks (u : tok * repl_rec) : list tok := rec_args (fst u) (snd u).
Definition wf_unit (u : tok * repl_rec) : bool :=
  (bytes_eqb (fst u) kw_master || bytes_eqb (fst u) kw_replica) && wf_rec (snd u).
Definition units_of (m : repl_meta) : list (tok * repl_rec) :=
  map (pair kw_master) (rm_masters m) ++ map (pair kw_replica) (rm_replicas m).

Lemma RL_units : forall us rest ms rs, forallb wf_unit us = true ->
  exists ms' rs', RL (concat (map unit_toks us) ++ rest) ms rs = RL rest ms' rs'.
Proof.
  induction us as [|[role r] us IH]; intros rest ms rs H.
  - exists ms, rs. reflexivity.
  - cbn [forallb] in H. apply andb_true_iff in H. destruct H as [Hu Hus].
    unfold wf_unit in Hu. cbn [fst snd] in Hu. apply andb_true_iff in Hu. destruct Hu as [Hrole Hr].
    cbn [map concat]. unfold unit_toks at 1. cbn [fst snd]. rewrite <- app_assoc. rewrite (RL_rec role r _ ms rs Hr).
    apply orb_true_iff in Hrole. destruct Hrole as [E|E]; apply beqb_eq in E; subst role.
    + replace (bytes_eqb (to_upper kw_master) kw_MASTER) with true by reflexivity. apply IH. exact Hus.
    + replace (bytes_eqb (to_upper kw_replica) kw_MASTER) with false by reflexivity.
      replace (bytes_eqb (to_upper kw_replica) kw_REPLICA) with true by reflexivity. apply IH. exact Hus.
Qed.

Lemma encode_repl_units : forall m,
  encode_repl m = to_dec (rm_epoch m) :: flags_to_arg (rm_flags m) :: concat (map unit_toks (units_of m)).
Proof.
  intros m. unfold encode_repl, units_of. cbn [app]. f_equal. f_equal.
  rewrite map_app, concat_app, !flat_map_concat_map, !map_map. reflexivity.
Qed.

Lemma wf_units_of : forall m, wf_repl m = true -> forallb wf_unit (units_of m) = true.
Proof.
  intros m H. unfold wf_repl in H. apply andb_true_iff in H. destruct H as [H Hrs]. apply andb_true_iff in H. destruct H as [_ Hms].
  unfold units_of. rewrite forallb_app. apply andb_true_iff. split.
  - induction (rm_masters m) as [|r l IH]; [reflexivity|]. cbn [forallb map] in *. apply andb_true_iff in Hms. destruct Hms as [H1 H2].
    unfold wf_unit at 1. cbn [fst snd]. rewrite H1. rewrite (IH H2). reflexivity.
  - induction (rm_replicas m) as [|r l IH]; [reflexivity|]. cbn [forallb map] in *. apply andb_true_iff in Hrs. destruct Hrs as [H1 H2].
    unfold wf_unit at 1. cbn [fst snd]. rewrite H1. rewrite (IH H2). reflexivity.
Qed.

Lemma units_lengths : forall m, map (@length tok) (map unit_toks (units_of m)) = map rec_len (rm_masters m ++ rm_replicas m).
Proof.
  intros m. unfold units_of. rewrite !map_app, !map_map. f_equal; apply map_ext; intros r; apply rec_args_length.
Qed.

Theorem repl_truncation : forall m k, wf_repl m = true -> (k < length (encode_repl m))%nat ->
  is_err (parse_repl (firstn k (encode_repl m))) = true \/ at_record_boundary m k = true.
Proof.
  intros m k H Hk. pose proof H as Hw. unfold wf_repl in Hw. apply andb_true_iff in Hw. destruct Hw as [Hw _].
  apply andb_true_iff in Hw. destruct Hw as [He _]. apply N.leb_le in He.
  rewrite encode_repl_units in *. destruct k as [|[|k]].
  - left. reflexivity.
  - left. cbn [firstn]. unfold parse_repl. rewrite (parse_u64_to_dec _ He). reflexivity.
  - cbn [firstn]. rewrite (parse_repl_RL _ _ _ He). cbn [length] in Hk.
    set (us := map unit_toks (units_of m)) in *.
    destruct (firstn_units us k) as (j & k' & E1 & E2 & E3 & E4); [lia|].
    destruct (Nat.eqb k' 0) eqn:E0.
    + apply Nat.eqb_eq in E0. subst k'. right. unfold at_record_boundary, repl_boundaries. apply existsb_eqb_in.
      rewrite <- units_lengths. fold us. rewrite Nat.add_0_r in E3. rewrite E3, length_concat_sum, <- firstn_map.
      replace (S (S (sum_nat (firstn j (map (@length tok) us))))) with (2 + sum_nat (firstn j (map (@length tok) us)))%nat by lia.
      apply prefix_sums_in. rewrite map_length. exact E4.
    + apply Nat.eqb_neq in E0. left. rewrite E1.
      destruct E2 as [E2|[E2 _]]; [|lia].
      assert (Hin : In (nth j us []) us).
      { destruct (nth_in_or_default j us []) as [Hi|Hd]; [exact Hi|]. rewrite Hd in E2. cbn in E2. lia. }
      unfold us in Hin. apply in_map_iff in Hin. destruct Hin as (u & Eu & Hu).
      pose proof (wf_units_of m H) as Hall. rewrite forallb_forall in Hall. pose proof (Hall u Hu) as Hwu.
      unfold us. rewrite firstn_map.
      destruct (RL_units (firstn j (units_of m)) (firstn k' (nth j us [])) [] []) as (ms' & rs' & R).
      { apply forallb_firstn. apply wf_units_of. exact H. }
      unfold us in R. rewrite R. rewrite <- Eu. unfold unit_toks.
      unfold wf_unit in Hwu. apply andb_true_iff in Hwu. destruct Hwu as [_ Hwr].
      assert (Hlt : (k' < rec_len (snd u))%nat).
      { unfold us in E2. rewrite <- Eu in E2. unfold unit_toks in E2. rewrite rec_args_length in E2. exact E2. }
      pose proof (RL_partial_rec (fst u) (snd u) k' ms' rs' Hwr ltac:(lia) Hlt) as P.
      destruct (RL (firstn k' (rec_args (fst u) (snd u))) ms' rs') as [[a b]|e|]; try discriminate. reflexivity.
Qed.
