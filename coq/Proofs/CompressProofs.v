(* C20: value compression is transparent.  Everything is proved for abstract compress / decompress functions that
   satisfy the round-trip law (tested against the real zstd calls by harness/compress). *)
From UM Require Import Base.BytesDef Base.Dec Base.RespT Model.Compress.
From Coq Require Import ZifyBool ZifyNat ZifyN.

Lemma cp_bytes_eqb_eq : forall a b, bytes_eqb a b = true <-> a = b.
Proof.
  induction a as [|x a IH]; intros [|y b]; cbn [bytes_eqb]; split; intros H; try discriminate; auto.
  - apply andb_true_iff in H. destruct H as [H1 H2]. apply N.eqb_eq in H1. apply IH in H2. congruence.
  - inversion H; subst. rewrite N.eqb_refl. cbn. apply IH. reflexivity.
Qed.

Lemma cp_bytes_eqb_refl : forall a, bytes_eqb a a = true.
Proof. intros a. apply cp_bytes_eqb_eq. reflexivity. Qed.

Lemma cp_bytes_eqb_neq : forall a b, a <> b -> bytes_eqb a b = false.
Proof.
  intros a b H. destruct (bytes_eqb a b) eqn:E; [|reflexivity]. apply cp_bytes_eqb_eq in E. contradiction.
Qed.

(* vocabulary *)
Definition nine (t : dtype) : Prop := t <> TStrOther /\ t <> TOther.

(* the value positions the compressor reads exist (otherwise the proxy itself answers "invalid command") *)
Definition shape_ok (c : cmd) : bool :=
  match cmd_dtype c with
  | TGetset | TSet | TSetnx => Nat.leb 3 (length c)
  | TSetex | TPsetex => Nat.leb 4 (length c)
  | _ => true
  end.

(* the positions whose content compress_cmd may change, by command type *)
Definition value_position (t : dtype) (len i : nat) : bool :=
  match t with
  | TGetset | TSet | TSetnx => Nat.eqb i 2
  | TSetex | TPsetex => Nat.eqb i 3
  | TMset | TMsetnx => Nat.leb 2 i && Nat.even i && Nat.ltb i len
  | _ => false
  end.

Lemma strategy_eq_dec : forall a b : strategy, {a = b} + {a <> b}.
Proof. decide equality. Qed.

Section ZstdProofs.
Variable compress : bytes -> bytes.
Variable decompress : bytes -> option bytes.
Hypothesis zstd_roundtrip : forall v, decompress (compress v) = Some v.

Notation compress_cmd := (compress_cmd compress).
Notation decompress_reply := (decompress_reply decompress).
Notation single := (single compress decompress).
Notation exec := (exec compress decompress).
Notation exec_all := (exec_all compress decompress).
Notation exec_mget := (exec_mget compress decompress).
Notation exec_mset := (exec_mset compress decompress).
Notation exec_msetnx := (exec_msetnx compress decompress).
Notation mget_loop := (mget_loop compress decompress).
Notation mset_loop := (mset_loop compress decompress).

(* the stored image of a logical (uncompressed) store *)
Definition enc (lg : store) : store := map (fun kv => (fst kv, compress (snd kv))) lg.
Definition enc_pairs (ps : list (bytes * bytes)) : list (bytes * bytes) := map (fun kv => (fst kv, compress (snd kv))) ps.

Lemma lookup_enc : forall k lg, lookup k (enc lg) = option_map compress (lookup k lg).
Proof.
  induction lg as [|[k' v] lg IH]; cbn [enc map lookup fst snd]; [reflexivity|].
  destruct (bytes_eqb k' k); [reflexivity|exact IH].
Qed.

Lemma set_key_enc : forall k v lg, set_key k (compress v) (enc lg) = enc (set_key k v lg).
Proof.
  induction lg as [|[k' v'] lg IH]; cbn [enc map set_key fst snd]; [reflexivity|].
  destruct (bytes_eqb k' k); cbn [map fst snd]; [reflexivity|]. f_equal. exact IH.
Qed.

Lemma set_all_enc : forall ps lg, set_all (enc_pairs ps) (enc lg) = enc (set_all ps lg).
Proof.
  unfold set_all. induction ps as [|[k v] ps IH]; intros lg; cbn [enc_pairs map fold_left fst snd]; [reflexivity|].
  rewrite set_key_enc. apply IH.
Qed.

Lemma pairs_of_compress : forall args,
  pairs_of (compress_pairs compress args) = option_map enc_pairs (pairs_of args).
Proof.
  fix IH 1. intros [|k [|v r]]; cbn [compress_pairs pairs_of option_map enc_pairs map]; try reflexivity.
  rewrite IH. destruct (pairs_of r); reflexivity.
Qed.

Lemma get_reply_enc : forall s t lg k, s <> Disabled -> (t = TGet \/ t = TGetset) ->
  decompress_reply s t (get_reply (enc lg) k) = get_reply lg k.
Proof.
  intros s t lg k Hs Ht. unfold get_reply. rewrite lookup_enc.
  destruct (lookup k lg) as [v|]; cbn [option_map].
  - destruct s; [contradiction| |]; destruct Ht as [-> | ->]; cbn [decompress_reply]; rewrite zstd_roundtrip; reflexivity.
  - destruct s; [contradiction| |]; destruct Ht as [-> | ->]; reflexivity.
Qed.

Lemma exists_enc : forall ps lg,
  existsb (fun kv => is_some (lookup (fst kv) (enc lg))) (enc_pairs ps)
  = existsb (fun kv => is_some (lookup (fst kv) lg)) ps.
Proof.
  induction ps as [|[k v] ps IH]; intros lg; cbn [enc_pairs map existsb fst snd]; [reflexivity|].
  rewrite lookup_enc. fold (enc_pairs ps). rewrite IH. destruct (lookup k lg); reflexivity.
Qed.

Definition sim (x y : store * resp) : Prop := fst x = enc (fst y) /\ snd x = snd y.

(* one command through handle_single_key_data_cmd: compressed system on the encoded store = uncompressed system on
   the logical store.  (A raw MGET never gets here: the executor splits it.) *)
Lemma single_sim : forall s lg c, s <> Disabled ->
  cmd_dtype c <> TStrOther -> cmd_dtype c <> TMget -> shape_ok c = true ->
  sim (single s (enc lg) c) (single Disabled lg c).
Proof.
  intros s lg c Hs Hn1 Hn2 Hshape. unfold sim.
  destruct c as [|name args].
  { destruct s; [contradiction| |]; cbn; split; reflexivity. }
  unfold shape_ok in Hshape. cbn [cmd_dtype] in *.
  unfold Compress.single. cbn [Compress.compress_cmd cmd_dtype].
  assert (Hc : Compress.compress_cmd compress s (name :: args) =
               match cmd_type name with
               | TGetset | TSet | TSetnx => compress_one compress (name :: args) 2
               | TPsetex | TSetex => compress_one compress (name :: args) 3
               | TMset | TMsetnx => CForward (name :: compress_pairs compress args)
               | TStrOther | TMget => match s with SetGetOnly => CRestricted | _ => CForward (name :: args) end
               | TGet | TOther => CForward (name :: args)
               end).
  { destruct s; [contradiction| |]; reflexivity. }
  rewrite Hc. clear Hc.
  destruct (cmd_type name) eqn:Et; try congruence.
  - (* TGet *)
    unfold backend. rewrite Et. destruct args as [|k [|x r]]; cbn [fst snd]; try (split; [reflexivity|destruct s; [contradiction| |]; reflexivity]).
    split; [reflexivity|]. etransitivity; [apply get_reply_enc; auto|reflexivity].
  - (* TGetset *)
    cbn [length] in Hshape. destruct args as [|k [|v r]]; cbn [length] in Hshape; try discriminate.
    unfold compress_one. cbn [nth_error replace_nth]. unfold backend. rewrite Et.
    destruct r as [|x r].
    + cbn [fst snd]. split; [apply set_key_enc|]. etransitivity; [apply get_reply_enc; auto|reflexivity].
    + cbn [fst snd]. split; [reflexivity|destruct s; [contradiction| |]; reflexivity].
  - (* TSet *)
    cbn [length] in Hshape. destruct args as [|k [|v r]]; cbn [length] in Hshape; try discriminate.
    unfold compress_one. cbn [nth_error replace_nth]. unfold backend. rewrite Et. cbn [fst snd].
    split; [apply set_key_enc|destruct s; [contradiction| |]; reflexivity].
  - (* TSetnx *)
    cbn [length] in Hshape. destruct args as [|k [|v r]]; cbn [length] in Hshape; try discriminate.
    unfold compress_one. cbn [nth_error replace_nth]. unfold backend. rewrite Et.
    destruct r as [|x r].
    + rewrite lookup_enc. destruct (lookup k lg) as [o|]; cbn [option_map is_some fst snd].
      * split; [reflexivity|destruct s; [contradiction| |]; reflexivity].
      * split; [apply set_key_enc|destruct s; [contradiction| |]; reflexivity].
    + cbn [fst snd]. split; [reflexivity|destruct s; [contradiction| |]; reflexivity].
  - (* TSetex *)
    cbn [length] in Hshape. destruct args as [|k [|t [|v r]]]; cbn [length] in Hshape; try discriminate.
    unfold compress_one. cbn [nth_error replace_nth]. unfold backend. rewrite Et.
    destruct r as [|x r]; cbn [fst snd].
    + split; [apply set_key_enc|destruct s; [contradiction| |]; reflexivity].
    + split; [reflexivity|destruct s; [contradiction| |]; reflexivity].
  - (* TPsetex *)
    cbn [length] in Hshape. destruct args as [|k [|t [|v r]]]; cbn [length] in Hshape; try discriminate.
    unfold compress_one. cbn [nth_error replace_nth]. unfold backend. rewrite Et.
    destruct r as [|x r]; cbn [fst snd].
    + split; [apply set_key_enc|destruct s; [contradiction| |]; reflexivity].
    + split; [reflexivity|destruct s; [contradiction| |]; reflexivity].
  - (* TMset *)
    unfold backend. rewrite Et. rewrite pairs_of_compress.
    destruct (pairs_of args) as [[|p ps]|]; cbn [option_map enc_pairs map fst snd];
      try (split; [reflexivity|destruct s; [contradiction| |]; reflexivity]).
    split.
    + change ((fst p, compress (snd p)) :: map (fun kv => (fst kv, compress (snd kv))) ps) with (enc_pairs (p :: ps)).
      apply set_all_enc.
    + destruct s; [contradiction| |]; reflexivity.
  - (* TMsetnx *)
    unfold backend. rewrite Et. rewrite pairs_of_compress.
    destruct (pairs_of args) as [[|p ps]|]; cbn [option_map enc_pairs map];
      try (cbn [fst snd]; split; [reflexivity|destruct s; [contradiction| |]; reflexivity]).
    change ((fst p, compress (snd p)) :: map (fun kv => (fst kv, compress (snd kv))) ps) with (enc_pairs (p :: ps)).
    rewrite exists_enc.
    destruct (existsb (fun kv => is_some (lookup (fst kv) lg)) (p :: ps)); cbn [fst snd].
    + split; [reflexivity|destruct s; [contradiction| |]; reflexivity].
    + split; [apply set_all_enc|destruct s; [contradiction| |]; reflexivity].
  - (* TOther *)
    unfold backend. rewrite Et. cbn [fst snd]. split; [reflexivity|destruct s; [contradiction| |]; reflexivity].
Qed.

Lemma type_GET : cmd_type n_GET = TGet. Proof. reflexivity. Qed.
Lemma type_SET : cmd_type n_SET = TSet. Proof. reflexivity. Qed.
Lemma type_MSETNX : cmd_type n_MSETNX = TMsetnx. Proof. reflexivity. Qed.

Lemma mget_loop_sim : forall s, s <> Disabled -> forall keys lg,
  fst (mget_loop s (enc lg) keys) = enc (fst (mget_loop Disabled lg keys)) /\
  snd (mget_loop s (enc lg) keys) = snd (mget_loop Disabled lg keys).
Proof.
  intros s Hs. induction keys as [|k keys IH]; intros lg; cbn [Compress.mget_loop]; [split; reflexivity|].
  assert (H : sim (single s (enc lg) [n_GET; k]) (single Disabled lg [n_GET; k])).
  { apply single_sim; auto; cbn [cmd_dtype]; rewrite ?type_GET; try discriminate; try reflexivity. }
  destruct (single s (enc lg) [n_GET; k]) as [st1 rep1]. destruct (single Disabled lg [n_GET; k]) as [lg1 rep1'].
  destruct H as [H1 H2]. cbn [fst snd] in H1, H2. subst st1 rep1.
  specialize (IH lg1). destruct (mget_loop s (enc lg1) keys) as [st2 reps]. destruct (mget_loop Disabled lg1 keys) as [lg2 reps'].
  cbn [fst snd] in *. destruct IH as [-> ->]. split; reflexivity.
Qed.

Lemma mset_loop_sim : forall s, s <> Disabled -> forall args lg,
  fst (mset_loop s (enc lg) args) = enc (fst (mset_loop Disabled lg args)) /\
  snd (mset_loop s (enc lg) args) = snd (mset_loop Disabled lg args).
Proof.
  intros s Hs. fix IH 1. intros [|k [|v r]] lg; cbn [Compress.mset_loop]; try (split; reflexivity).
  assert (H : sim (single s (enc lg) [n_SET; k; v]) (single Disabled lg [n_SET; k; v])).
  { apply single_sim; auto; cbn [cmd_dtype]; rewrite ?type_SET; try discriminate; try reflexivity. }
  destruct (single s (enc lg) [n_SET; k; v]) as [st1 rep1]. destruct (single Disabled lg [n_SET; k; v]) as [lg1 rep1'].
  destruct H as [H1 H2]. cbn [fst snd] in H1, H2. subst st1 rep1.
  specialize (IH r lg1). destruct (mset_loop s (enc lg1) r) as [st2 reps]. destruct (mset_loop Disabled lg1 r) as [lg2 reps'].
  cbn [fst snd] in *. destruct IH as [-> ->]. split; reflexivity.
Qed.

(* THE transparency statement: any of the nine commands in any shape whose value positions exist *)
Lemma exec_sim : forall s lg c, s <> Disabled -> cmd_dtype c <> TStrOther -> shape_ok c = true ->
  sim (exec s (enc lg) c) (exec Disabled lg c).
Proof.
  intros s lg c Hs Hn Hshape. destruct c as [|name args].
  { unfold sim. cbn. split; reflexivity. }
  unfold Compress.exec. cbn [cmd_dtype] in Hn.
  destruct (cmd_type name) eqn:Et; try congruence;
    try (apply single_sim; auto; cbn [cmd_dtype]; rewrite Et; discriminate).
  - (* MSET *)
    destruct args as [|a0 args0]; [unfold sim; cbn [fst snd]; split; reflexivity|]. remember (a0 :: args0) as args.
    unfold Compress.exec_mset. pose proof (mset_loop_sim s Hs args lg) as [H1 H2].
    destruct (mset_loop s (enc lg) args) as [st' reps]. destruct (mset_loop Disabled lg args) as [lg' reps'].
    cbn [fst snd] in H1, H2. subst st' reps. unfold sim.
    destruct reps' as [[|r0 l]|]; cbn [fst snd]; try (split; reflexivity).
    destruct (first_error (r0 :: l)); cbn [fst snd]; split; reflexivity.
  - (* MSETNX *)
    destruct args as [|a0 args0]; [unfold sim; cbn [fst snd]; split; reflexivity|]. remember (a0 :: args0) as args.
    unfold Compress.exec_msetnx. destruct (pairs_of args) as [[|p ps]|]; try (unfold sim; cbn [fst snd]; split; reflexivity).
    assert (H : sim (single s (enc lg) (n_MSETNX :: args)) (single Disabled lg (n_MSETNX :: args))).
    { apply single_sim; auto; cbn [cmd_dtype]; rewrite ?type_MSETNX; try discriminate; try reflexivity. }
    destruct (single s (enc lg) (n_MSETNX :: args)) as [st1 rep1]. destruct (single Disabled lg (n_MSETNX :: args)) as [lg1 rep1'].
    destruct H as [H1 H2]. cbn [fst snd] in H1, H2. subst st1 rep1. unfold sim.
    destruct rep1'; cbn [fst snd]; try (split; reflexivity).
    destruct (btou u64_max b); cbn [fst snd]; split; reflexivity.
  - (* MGET *)
    destruct args as [|k0 keys]; [unfold sim; cbn [fst snd]; split; reflexivity|]. unfold Compress.exec_mget.
    pose proof (mget_loop_sim s Hs (k0 :: keys) lg) as [H1 H2].
    destruct (mget_loop s (enc lg) (k0 :: keys)) as [st' reps]. destruct (mget_loop Disabled lg (k0 :: keys)) as [lg' reps'].
    cbn [fst snd] in H1, H2. subst st' reps. unfold sim.
    destruct (first_error reps'); cbn [fst snd]; split; reflexivity.
Qed.

Lemma exec_all_sim : forall s, s <> Disabled -> forall cs lg,
  Forall (fun c => cmd_dtype c <> TStrOther /\ shape_ok c = true) cs ->
  fst (exec_all s (enc lg) cs) = enc (fst (exec_all Disabled lg cs)) /\
  snd (exec_all s (enc lg) cs) = snd (exec_all Disabled lg cs).
Proof.
  intros s Hs. induction cs as [|c cs IH]; intros lg Hall; cbn [Compress.exec_all]; [split; reflexivity|].
  inversion Hall as [|c0 cs0 [Hn Hsh] Hrest]; subst.
  pose proof (exec_sim s lg c Hs Hn Hsh) as [H1 H2].
  destruct (exec s (enc lg) c) as [st1 rep1]. destruct (exec Disabled lg c) as [lg1 rep1'].
  cbn [fst snd] in H1, H2. subst st1 rep1.
  specialize (IH lg1 Hrest). destruct (exec_all s (enc lg1) cs) as [st2 reps]. destruct (exec_all Disabled lg1 cs) as [lg2 reps'].
  cbn [fst snd] in *. destruct IH as [-> ->]. split; reflexivity.
Qed.

(* ---------- write then read: byte-identical ---------- *)

Lemma lookup_set_same : forall k v st, lookup k (set_key k v st) = Some v.
Proof.
  induction st as [|[k' v'] st IH]; cbn [set_key lookup].
  - rewrite cp_bytes_eqb_refl. reflexivity.
  - destruct (bytes_eqb k' k) eqn:E; cbn [lookup]; rewrite E; [reflexivity|exact IH].
Qed.

Lemma lookup_set_other : forall k k' v st, k' <> k -> lookup k (set_key k' v st) = lookup k st.
Proof.
  intros k k' v st Hne. induction st as [|[k2 v2] st IH]; cbn [set_key lookup].
  - rewrite (cp_bytes_eqb_neq k' k Hne). reflexivity.
  - destruct (bytes_eqb k2 k') eqn:E; cbn [lookup].
    + apply cp_bytes_eqb_eq in E. subst k2. rewrite (cp_bytes_eqb_neq k' k Hne). reflexivity.
    + destruct (bytes_eqb k2 k); [reflexivity|exact IH].
Qed.

Lemma lookup_set_all : forall ps st k v, NoDup (map fst ps) -> In (k, v) ps -> lookup k (set_all ps st) = Some v.
Proof.
  unfold set_all. induction ps as [|[k' v'] ps IH]; intros st k v Hnd Hin; [destruct Hin|].
  cbn [map fst] in Hnd. inversion Hnd as [|x l Hnotin Hnd']; subst. cbn [fold_left fst snd].
  destruct Hin as [Heq|Hin].
  - inversion Heq; subst k' v'.
    assert (G : forall ps st, ~ In k (map fst ps) -> lookup k (fold_left (fun s kv => set_key (fst kv) (snd kv) s) ps st) = lookup k st).
    { clear. induction ps as [|[k2 v2] ps IH]; intros st Hn; cbn [fold_left fst snd]; [reflexivity|].
      rewrite IH by (intros H; apply Hn; right; exact H). apply lookup_set_other. intros ->. apply Hn. left. reflexivity. }
    rewrite G by exact Hnotin. apply lookup_set_same.
  - apply IH; assumption.
Qed.

(* what the nine reads return on a logical store *)
Definition reads_back (s : strategy) (st : store) (k v : bytes) : Prop :=
  snd (exec s st [n_GET; k]) = Bulk v
  /\ (forall x, snd (exec s st [n_GETSET; k; x]) = Bulk v)
  /\ (forall ks1 ks2, exists l1 l2, snd (exec s st (n_MGET :: ks1 ++ k :: ks2)) = Arr (l1 ++ Bulk v :: l2)
                                    /\ length l1 = length ks1 /\ length l2 = length ks2).

Lemma plain_mget_loop : forall keys lg,
  mget_loop Disabled lg keys = (lg, map (get_reply lg) keys).
Proof.
  induction keys as [|k keys IH]; intros lg; cbn [Compress.mget_loop map]; [reflexivity|].
  unfold Compress.single at 1. cbn [Compress.compress_cmd]. unfold backend. rewrite type_GET. cbn [Compress.decompress_reply].
  rewrite IH. reflexivity.
Qed.

Lemma first_error_get : forall lg keys, first_error (map (get_reply lg) keys) = None.
Proof.
  induction keys as [|k keys IH]; cbn [map first_error]; [reflexivity|].
  unfold get_reply at 1. destruct (lookup k lg); cbn [is_error]; exact IH.
Qed.

Lemma plain_reads_back : forall lg k v, lookup k lg = Some v -> reads_back Disabled lg k v.
Proof.
  intros lg k v Hl. unfold reads_back. split; [|split].
  - cbn. unfold get_reply. rewrite Hl. reflexivity.
  - intros x. cbn. unfold get_reply. rewrite Hl. reflexivity.
  - intros ks1 ks2. exists (map (get_reply lg) ks1), (map (get_reply lg) ks2).
    unfold Compress.exec. change (cmd_type n_MGET) with TMget. cbn iota.
    destruct (ks1 ++ k :: ks2) as [|k0 r] eqn:E; [destruct ks1; discriminate|]. unfold Compress.exec_mget. rewrite <- E.
    rewrite plain_mget_loop. rewrite first_error_get. cbn [snd].
    rewrite map_app. cbn [map]. unfold get_reply at 2. rewrite Hl.
    split; [reflexivity|]. rewrite !map_length. split; reflexivity.
Qed.

(* reading through the compressing proxy returns what the uncompressed system returns *)
Lemma reads_back_enc : forall s lg k v, s <> Disabled -> lookup k lg = Some v -> reads_back s (enc lg) k v.
Proof.
  intros s lg k v Hs Hl. destruct (plain_reads_back lg k v Hl) as (P1 & P2 & P3).
  unfold reads_back. split; [|split].
  - destruct (exec_sim s lg [n_GET; k] Hs) as [_ H]; [cbn; discriminate|reflexivity|]. rewrite H. exact P1.
  - intros x. destruct (exec_sim s lg [n_GETSET; k; x] Hs) as [_ H]; [cbn; discriminate|reflexivity|]. rewrite H. apply P2.
  - intros ks1 ks2. destruct (exec_sim s lg (n_MGET :: ks1 ++ k :: ks2) Hs) as [_ H]; [cbn; discriminate|reflexivity|].
    rewrite H. apply P3.
Qed.

(* the write commands: which (key, value) the uncompressed system holds afterwards *)
Inductive writes (lg : store) : cmd -> bytes -> bytes -> Prop :=
| W_set : forall k v opts, writes lg (n_SET :: k :: v :: opts) k v
| W_setnx : forall k v, lookup k lg = None -> writes lg [n_SETNX; k; v] k v
| W_setex : forall k t v, writes lg [n_SETEX; k; t; v] k v
| W_psetex : forall k t v, writes lg [n_PSETEX; k; t; v] k v
| W_getset : forall k v, writes lg [n_GETSET; k; v] k v
| W_mset : forall args (ps : list (bytes * bytes)) k v, pairs_of args = Some ps -> NoDup (map fst ps) -> In (k, v) ps ->
    writes lg (n_MSET :: args) k v
| W_msetnx : forall args (ps : list (bytes * bytes)) k v, pairs_of args = Some ps -> NoDup (map fst ps) -> In (k, v) ps ->
    (forall k' v', In (k', v') ps -> lookup k' lg = None) ->
    writes lg (n_MSETNX :: args) k v.

Lemma plain_mset_loop : forall args ps lg, pairs_of args = Some ps ->
  exists reps, mset_loop Disabled lg args = (set_all ps lg, Some reps) /\ first_error reps = None /\ length reps = length ps.
Proof.
  fix IH 1. intros [|k [|v r]] ps lg Hp; cbn [pairs_of] in Hp.
  - inversion Hp; subst. exists []. cbn. repeat split.
  - discriminate.
  - destruct (pairs_of r) as [p|] eqn:Er; [|discriminate]. inversion Hp; subst ps.
    cbn [Compress.mset_loop]. unfold Compress.single at 1. cbn [Compress.compress_cmd]. unfold backend. rewrite type_SET.
    cbn [Compress.decompress_reply].
    destruct (IH r p (set_key k v lg) Er) as (reps & E & F & L). rewrite E.
    exists (Simple MSG_OK :: reps). split; [reflexivity|]. split; [cbn; exact F|cbn; rewrite L; reflexivity].
Qed.

Lemma existsb_none : forall (ps : list (bytes * bytes)) lg, (forall k' v', In (k', v') ps -> lookup k' lg = None) ->
  existsb (fun kv => is_some (lookup (fst kv) lg)) ps = false.
Proof.
  induction ps as [|[k v] ps IH]; intros lg H; cbn [existsb fst]; [reflexivity|].
  rewrite (H k v) by (left; reflexivity). cbn [is_some orb]. apply IH. intros k' v' Hin. apply (H k' v'). right. exact Hin.
Qed.

Lemma plain_write : forall lg w k v, writes lg w k v -> lookup k (fst (exec Disabled lg w)) = Some v.
Proof.
  intros lg w k v H. destruct H.
  - cbn. apply lookup_set_same.
  - cbn. rewrite H. cbn. apply lookup_set_same.
  - cbn. apply lookup_set_same.
  - cbn. apply lookup_set_same.
  - cbn. apply lookup_set_same.
  - unfold Compress.exec. change (cmd_type n_MSET) with TMset. cbn iota.
    destruct args as [|a0 args0]; [cbn in H; inversion H; subst ps; destruct H1|]. remember (a0 :: args0) as args.
    unfold Compress.exec_mset.
    destruct (plain_mset_loop args ps lg H) as (reps & E & F & L). rewrite E.
    destruct reps as [|r0 l]; cbn [fst]; [apply lookup_set_all; assumption|].
    rewrite F. cbn [fst]. apply lookup_set_all; assumption.
  - unfold Compress.exec. change (cmd_type n_MSETNX) with TMsetnx. cbn iota.
    destruct args as [|a0 args0]; [cbn in H; inversion H; subst ps; destruct H1|]. remember (a0 :: args0) as args.
    unfold Compress.exec_msetnx. rewrite H.
    destruct ps as [|p ps]; [destruct H1|].
    unfold Compress.single. cbn [Compress.compress_cmd]. unfold backend. rewrite type_MSETNX. rewrite H.
    rewrite existsb_none by assumption. cbn [Compress.decompress_reply fst snd].
    replace (btou u64_max [49]) with (Some 1) by (vm_compute; reflexivity). cbn [fst].
    apply lookup_set_all; assumption.
Qed.

Lemma writes_shape : forall lg w k v, writes lg w k v -> cmd_dtype w <> TStrOther /\ shape_ok w = true.
Proof.
  intros lg w k v H. destruct H; cbn; split; try discriminate; reflexivity.
Qed.

(* C20_transparent: with compression enabled, on a store holding only values written through the proxy (enc lg), a value
   written through any of the seven write commands is returned byte-identical by GET, GETSET and MGET *)
Lemma transparent : forall s lg w k v, s <> Disabled -> writes lg w k v ->
  reads_back s (fst (exec s (enc lg) w)) k v.
Proof.
  intros s lg w k v Hs Hw. destruct (writes_shape lg w k v Hw) as [Hn Hsh].
  destruct (exec_sim s lg w Hs Hn Hsh) as [H1 _]. rewrite H1.
  apply reads_back_enc; [exact Hs|]. apply plain_write. exact Hw.
Qed.

(* ---------- untouched positions ---------- *)

Lemma replace_nth_spec : forall i x l, (i < length l)%nat ->
  length (replace_nth i x l) = length l /\
  nth_error (replace_nth i x l) i = Some x /\
  forall j, j <> i -> nth_error (replace_nth i x l) j = nth_error l j.
Proof. clear zstd_roundtrip.
  induction i as [|i IH]; intros x [|y l] Hlt; cbn [length] in Hlt; try lia.
  - cbn [replace_nth length nth_error]. split; [reflexivity|]. split; [reflexivity|].
    intros [|j] Hj; [congruence|reflexivity].
  - cbn [replace_nth length]. destruct (IH x l) as (L & A & B); [lia|].
    split; [rewrite L; reflexivity|]. split; [exact A|].
    intros [|j] Hj; [reflexivity|]. cbn [nth_error]. apply B. congruence.
Qed.

Lemma compress_pairs_spec : forall rest,
  length (compress_pairs compress rest) = length rest /\
  forall j, nth_error (compress_pairs compress rest) j =
            if Nat.odd j then option_map compress (nth_error rest j) else nth_error rest j.
Proof. clear zstd_roundtrip.
  fix IH 1. intros [|k [|v r]]; cbn [compress_pairs length].
  - split; [reflexivity|]. intros j. destruct j; cbn; [reflexivity|]. destruct (Nat.odd (S j)); reflexivity.
  - split; [reflexivity|]. intros [|[|j]]; cbn [nth_error]; try reflexivity. destruct (Nat.odd (S (S j))); reflexivity.
  - destruct (IH r) as [L A]. split; [rewrite L; reflexivity|].
    intros [|[|j]]; cbn [nth_error]; try reflexivity. rewrite A.
    replace (Nat.odd (S (S j))) with (Nat.odd j) by (rewrite Nat.odd_succ_succ; reflexivity). reflexivity.
Qed.

Lemma compress_one_spec : forall c n c', compress_one compress c n = CForward c' ->
  length c' = length c /\
  nth_error c' n = option_map compress (nth_error c n) /\
  forall j, j <> n -> nth_error c' j = nth_error c j.
Proof. clear zstd_roundtrip.
  intros c n c' H. unfold compress_one in H. destruct (nth_error c n) as [v|] eqn:En; [|discriminate].
  inversion H; subst c'. assert (Hlt : (n < length c)%nat) by (apply nth_error_Some; congruence).
  destruct (replace_nth_spec n (compress v) c Hlt) as (L & A & B).
  split; [exact L|]. split; [rewrite A; reflexivity|exact B].
Qed.

Lemma pairs_forward_spec : forall name rest,
  length (name :: compress_pairs compress rest) = length (name :: rest) /\
  forall i, nth_error (name :: compress_pairs compress rest) i =
            if Nat.leb 2 i && Nat.even i then option_map compress (nth_error (name :: rest) i)
            else nth_error (name :: rest) i.
Proof. clear zstd_roundtrip.
  intros name rest. destruct (compress_pairs_spec rest) as [L A]. split; [cbn [length]; rewrite L; reflexivity|].
  intros [|j]; [reflexivity|]. cbn [nth_error]. rewrite A. rewrite Nat.even_succ.
  destruct j as [|j]; [reflexivity|]. cbn [Nat.leb andb]. reflexivity.
Qed.

(* compress_cmd: the command is forwarded with the same length; every position outside the value positions of its
   type is byte-identical (command name, keys, options, expire times); a value position holds compress of the
   original.  With strategy Disabled, and for every command that is neither written nor restricted, nothing changes. *)
Lemma untouched_cmd : forall s c c', compress_cmd s c = CForward c' ->
  length c' = length c /\
  (forall i, value_position (cmd_dtype c) (length c) i = false \/ s = Disabled -> nth_error c' i = nth_error c i) /\
  (forall i, s <> Disabled -> value_position (cmd_dtype c) (length c) i = true ->
             nth_error c' i = option_map compress (nth_error c i)).
Proof. clear zstd_roundtrip.
  intros s c c' H.
  assert (Hdis : s = Disabled -> c' = c).
  { intros ->. cbn in H. inversion H. reflexivity. }
  destruct c as [|name rest].
  { assert (c' = []) by (destruct s; cbn in H; inversion H; reflexivity). subst c'.
    split; [reflexivity|]. split; [reflexivity|]. intros i _ Hv. cbn in Hv. discriminate. }
  assert (Hen : s <> Disabled ->
            Compress.compress_cmd compress s (name :: rest) =
               match cmd_type name with
               | TGetset | TSet | TSetnx => compress_one compress (name :: rest) 2
               | TPsetex | TSetex => compress_one compress (name :: rest) 3
               | TMset | TMsetnx => CForward (name :: compress_pairs compress rest)
               | TStrOther | TMget => match s with SetGetOnly => CRestricted | _ => CForward (name :: rest) end
               | TGet | TOther => CForward (name :: rest)
               end).
  { intros Hs. destruct s; [contradiction| |]; reflexivity. }
  destruct (strategy_eq_dec s Disabled) as [Hd|Hd].
  { rewrite (Hdis Hd). split; [reflexivity|]. split; [reflexivity|]. intros i Hs; contradiction. }
  rewrite (Hen Hd) in H. clear Hen Hdis. cbn [cmd_dtype].
  assert (Hid : c' = name :: rest ->
     length c' = length (name :: rest) /\
     (forall i, value_position (cmd_type name) (length (name :: rest)) i = false \/ s = Disabled -> nth_error c' i = nth_error (name :: rest) i)).
  { intros ->. split; reflexivity. }
  destruct (cmd_type name) eqn:Et.
  - (* TGet *) inversion H; subst c'. destruct (Hid eq_refl) as [L A]. split; [exact L|]. split; [exact A|]. intros i _ Hv; discriminate.
  - (* TGetset *) destruct (compress_one_spec _ _ _ H) as (L & A & B). split; [exact L|]. split.
    + intros i [Hv|Hs]; [|contradiction]. cbn [value_position] in Hv. apply Nat.eqb_neq in Hv. apply B. exact Hv.
    + intros i _ Hv. cbn [value_position] in Hv. apply Nat.eqb_eq in Hv. subst i. exact A.
  - (* TSet *) destruct (compress_one_spec _ _ _ H) as (L & A & B). split; [exact L|]. split.
    + intros i [Hv|Hs]; [|contradiction]. cbn [value_position] in Hv. apply Nat.eqb_neq in Hv. apply B. exact Hv.
    + intros i _ Hv. cbn [value_position] in Hv. apply Nat.eqb_eq in Hv. subst i. exact A.
  - (* TSetnx *) destruct (compress_one_spec _ _ _ H) as (L & A & B). split; [exact L|]. split.
    + intros i [Hv|Hs]; [|contradiction]. cbn [value_position] in Hv. apply Nat.eqb_neq in Hv. apply B. exact Hv.
    + intros i _ Hv. cbn [value_position] in Hv. apply Nat.eqb_eq in Hv. subst i. exact A.
  - (* TSetex *) destruct (compress_one_spec _ _ _ H) as (L & A & B). split; [exact L|]. split.
    + intros i [Hv|Hs]; [|contradiction]. cbn [value_position] in Hv. apply Nat.eqb_neq in Hv. apply B. exact Hv.
    + intros i _ Hv. cbn [value_position] in Hv. apply Nat.eqb_eq in Hv. subst i. exact A.
  - (* TPsetex *) destruct (compress_one_spec _ _ _ H) as (L & A & B). split; [exact L|]. split.
    + intros i [Hv|Hs]; [|contradiction]. cbn [value_position] in Hv. apply Nat.eqb_neq in Hv. apply B. exact Hv.
    + intros i _ Hv. cbn [value_position] in Hv. apply Nat.eqb_eq in Hv. subst i. exact A.
  - (* TMset *) inversion H; subst c'. destruct (pairs_forward_spec name rest) as [L A]. split; [exact L|]. split.
    + intros i [Hv|Hs]; [|contradiction]. rewrite A. cbn [value_position] in Hv.
      destruct (Nat.leb 2 i && Nat.even i) eqn:E; [|reflexivity]. cbn [andb] in Hv. apply Nat.ltb_ge in Hv.
      assert (N1 : nth_error (name :: rest) i = None) by (apply nth_error_None; exact Hv). rewrite N1. reflexivity.
    + intros i _ Hv. rewrite A. cbn [value_position] in Hv. apply andb_true_iff in Hv. destruct Hv as [Hv _]. rewrite Hv. reflexivity.
  - (* TMsetnx *) inversion H; subst c'. destruct (pairs_forward_spec name rest) as [L A]. split; [exact L|]. split.
    + intros i [Hv|Hs]; [|contradiction]. rewrite A. cbn [value_position] in Hv.
      destruct (Nat.leb 2 i && Nat.even i) eqn:E; [|reflexivity]. cbn [andb] in Hv. apply Nat.ltb_ge in Hv.
      assert (N1 : nth_error (name :: rest) i = None) by (apply nth_error_None; exact Hv). rewrite N1. reflexivity.
    + intros i _ Hv. rewrite A. cbn [value_position] in Hv. apply andb_true_iff in Hv. destruct Hv as [Hv _]. rewrite Hv. reflexivity.
  - (* TMget *) destruct s; try discriminate; try contradiction. inversion H; subst c'. destruct (Hid eq_refl) as [L A]. split; [exact L|]. split; [exact A|]. intros i _ Hv; discriminate.
  - (* TStrOther *) destruct s; try discriminate; try contradiction. inversion H; subst c'. destruct (Hid eq_refl) as [L A]. split; [exact L|]. split; [exact A|]. intros i _ Hv; discriminate.
  - (* TOther *) inversion H; subst c'. destruct (Hid eq_refl) as [L A]. split; [exact L|]. split; [exact A|]. intros i _ Hv; discriminate.
Qed.

(* decompress_reply rewrites only bulk strings of GET / GETSET replies and bulk elements of an MGET array *)
Lemma untouched_reply : forall s t r,
  (s = Disabled \/ (t <> TGet /\ t <> TGetset /\ t <> TMget) -> decompress_reply s t r = r)
  /\ ((t = TGet \/ t = TGetset) -> (forall b, r <> Bulk b) -> decompress_reply s t r = r)
  /\ (t = TMget -> (forall l, r <> Arr l) -> decompress_reply s t r = r).
Proof. clear zstd_roundtrip.
  intros s t r. split; [|split].
  - intros [->|(A & B & C)]; [reflexivity|]. destruct s; [reflexivity| |]; destruct t; try reflexivity; congruence.
  - intros Ht Hr. destruct s; [reflexivity| |]; destruct Ht as [-> | ->]; cbn; destruct r; try reflexivity; exfalso; eapply Hr; reflexivity.
  - intros -> Hr. destruct s; [reflexivity| |]; cbn; destruct r; try reflexivity; exfalso; eapply Hr; reflexivity.
Qed.

(* a value that was stored without going through the compressor (written while compression was disabled, or by
   APPEND under allow_all): GET answers whatever zstd makes of the raw bytes, nil when they are no zstd frame *)
Lemma raw_value_read : forall s st k b, s <> Disabled -> lookup k st = Some b ->
  snd (exec s st [n_GET; k]) = match decompress b with Some v => Bulk v | None => BulkNil end.
Proof. clear zstd_roundtrip.
  intros s st k b Hs Hl. unfold Compress.exec. change (cmd_type n_GET) with TGet. cbn iota.
  unfold Compress.single.
  assert (E : compress_cmd s [n_GET; k] = CForward [n_GET; k]) by (destruct s; reflexivity). rewrite E.
  unfold backend. change (cmd_type n_GET) with TGet. cbn iota. cbn [snd cmd_dtype]. change (cmd_type n_GET) with TGet.
  unfold get_reply. rewrite Hl. destruct s; [contradiction| |]; reflexivity.
Qed.

(* ---------- restricted mode ---------- *)

Lemma restricted : forall name args st, cmd_type name = TStrOther ->
  exec SetGetOnly st (name :: args) = (st, Error MSG_RESTRICTED)
  /\ compress_cmd SetGetOnly (name :: args) = CRestricted.
Proof. clear zstd_roundtrip.
  intros name args st Ht. unfold Compress.exec, Compress.single. cbn [Compress.compress_cmd]. rewrite Ht. split; reflexivity.
Qed.

Lemma disabled_identity : forall c t r, compress_cmd Disabled c = CForward c /\ decompress_reply Disabled t r = r.
Proof. clear zstd_roundtrip. intros. split; reflexivity. Qed.

End ZstdProofs.

(* ---------- the proxy's own table of string commands ---------- *)

Definition nine_lower : list bytes :=
  [[103; 101; 116] (* get *); [103; 101; 116; 115; 101; 116] (* getset *); [115; 101; 116] (* set *);
   [115; 101; 116; 110; 120] (* setnx *); [115; 101; 116; 101; 120] (* setex *); [112; 115; 101; 116; 101; 120] (* psetex *);
   [109; 115; 101; 116] (* mset *); [109; 115; 101; 116; 110; 120] (* msetnx *); [109; 103; 101; 116] (* mget *)].

Lemma table_other_restricted : forall name, In name string_table -> existsb (bytes_eqb name) nine_lower = false ->
  cmd_type name = TStrOther.
Proof.
  intros name Hin Hn. unfold string_table in Hin.
  repeat (destruct Hin as [<-|Hin]; [first [reflexivity | (vm_compute in Hn; discriminate)]|]).
  destruct Hin.
Qed.

Lemma table_nine_typed : forall name, In name nine_lower -> nine (cmd_type name) /\ In name string_table.
Proof.
  intros name Hin. unfold nine_lower in Hin.
  repeat (destruct Hin as [<-|Hin]; [split; [split; vm_compute; discriminate|vm_compute; tauto]|]).
  destruct Hin.
Qed.

Lemma restricted_names_typed : forall name, In name restricted_names -> cmd_type name = TStrOther.
Proof.
  intros name Hin. unfold restricted_names in Hin.
  repeat (destruct Hin as [<-|Hin]; [reflexivity|]). destruct Hin.
Qed.

Lemma table_counts : length string_table = 23%nat /\ length nine_lower = 9%nat /\
  length (filter (fun n => negb (existsb (bytes_eqb n) nine_lower)) string_table) = 14%nat.
Proof. vm_compute. repeat split. Qed.

(* names the proxy's DataCmdType does not know are not refused: they are forwarded unchanged and would see the
   compressed bytes (SUBSTR, GETDEL, GETEX, ... : outside the supported-command table) *)
Lemma outside_table_forwarded : forall compress s args,
  Compress.compress_cmd compress s (n_SUBSTR :: args) = CForward (n_SUBSTR :: args) /\
  Compress.compress_cmd compress s (n_GETDEL :: args) = CForward (n_GETDEL :: args) /\
  Compress.compress_cmd compress s (n_GETEX :: args) = CForward (n_GETEX :: args).
Proof. intros compress s args. destruct s; repeat split; reflexivity. Qed.

Lemma table_restricted_exec : forall compress decompress name args st,
  In name string_table -> existsb (bytes_eqb name) nine_lower = false ->
  Compress.exec compress decompress SetGetOnly st (name :: args) = (st, Error MSG_RESTRICTED).
Proof.
  intros compress decompress name args st Hin Hn.
  apply (restricted compress decompress name args st). apply table_other_restricted; assumption.
Qed.
