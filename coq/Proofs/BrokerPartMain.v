(* C01 assembled: every store reachable by non-panicking operations keeps the partition invariant,
   and every view served from such a store is an exact partition with matched migration twins. *)
From UM Require Import Base.BytesDef Model.Ranges Model.Broker Proofs.BrokerPartRanges Proofs.BrokerPartDefs
  Proofs.BrokerPartMigrate Proofs.BrokerPartOps Proofs.BrokerPartView Proofs.BrokerPartViewProxy.

Theorem step_keeps_partition : forall s o,
  store_part_inv s -> (forall snap, o = ORestore snap -> store_part_inv snap) -> snd (step s o) <> RPanic ->
  store_part_inv (fst (step s o)).
Proof. exact (step_part_inv migrate_slots_part_inv scale_down_part_inv). Qed.

Theorem reachable_keeps_partition : forall s, reachable s -> store_part_inv s.
Proof. exact (reachable_part_inv migrate_slots_part_inv scale_down_part_inv). Qed.

Theorem cluster_view_partition : forall s, reachable s -> forall lim name ov,
  view_cluster lim s name = Some ov -> exists v, ov = Some v /\ partition_ok (vc_nodes v).
Proof.
  intros s Hr lim name ov Hv. eapply view_cluster_partition; [apply reachable_keeps_partition; exact Hr|exact Hv].
Qed.

Theorem proxy_view_partition : forall s, reachable s -> forall lim a ov,
  view_proxy lim s a = Some ov -> exists v, ov = Some v /\ proxy_partition_ok a v.
Proof.
  intros s Hr lim a ov Hv. eapply view_proxy_partition; [apply reachable_keeps_partition; exact Hr|exact Hv].
Qed.
