(* RangeList::compact really produces the normal form: start <= end, sorted by start, neither overlapping nor adjacent. *)
From UM Require Import Base.BytesDef Base.Dec Model.Wire Proofs.WireProofsBase Proofs.WireProofsLeaf.
From Coq Require Import ZifyBool ZifyNat ZifyN.

Fixpoint sorted_st (lo : N) (l : list range) : Prop :=
  match l with
  | [] => True
  | r :: l' => lo <= fst r /\ sorted_st (fst r) l'
  end.

Definition ordered (r : range) : Prop := fst r <= snd r.

Lemma sorted_st_weaken : forall l lo lo', lo' <= lo -> sorted_st lo l -> sorted_st lo' l.
Proof. intros [|r l] lo lo' H S; cbn in *; [exact I|]. destruct S. split; [lia|assumption]. Qed.

Lemma insert_sorted : forall l r lo, sorted_st lo l -> lo <= fst r -> sorted_st lo (insert_range r l).
Proof.
  induction l as [|x l IH]; intros r lo S H; cbn [insert_range sorted_st] in *.
  - auto.
  - destruct S as [S1 S2]. destruct (fst r <=? fst x) eqn:E; cbn [sorted_st].
    + repeat split; try lia. exact S2.
    + split; [exact S1|]. apply IH; [exact S2|lia].
Qed.

Lemma sort_sorted : forall l, sorted_st 0 (sort_ranges l).
Proof. induction l as [|r l IH]; cbn [sort_ranges]; [exact I|]. apply insert_sorted; [exact IH|lia]. Qed.

Lemma insert_ordered : forall l r, ordered r -> Forall ordered l -> Forall ordered (insert_range r l).
Proof.
  induction l as [|x l IH]; intros r Hr Hl; cbn [insert_range]; [constructor; auto|].
  inversion Hl; subst. destruct (fst r <=? fst x); constructor; auto.
Qed.

Lemma sort_ordered : forall l, Forall ordered l -> Forall ordered (sort_ranges l).
Proof. induction l as [|r l IH]; intros H; cbn [sort_ranges]; [constructor|]. inversion H; subst. apply insert_ordered; auto. Qed.

Lemma norm_ordered : forall l, Forall ordered (map norm_range l).
Proof.
  induction l as [|r l IH]; cbn [map]; constructor; [|exact IH].
  unfold ordered, norm_range. destruct (snd r <? fst r) eqn:E; cbn [fst snd]; lia.
Qed.

Lemma merge_compact : forall rest cur out, ordered cur -> Forall ordered rest -> sorted_st (fst cur) rest ->
  merge_ranges cur rest = Some out -> is_compact out = true /\ exists e tl, out = (fst cur, e) :: tl.
Proof.
  induction rest as [|e rest IH]; intros cur out Hc Hr Hs H; cbn [merge_ranges] in H.
  - inversion H; subst. unfold ordered in Hc. cbn [is_compact]. split; [|destruct cur; eauto].
    rewrite andb_true_r. apply andb_true_iff. split; [lia|reflexivity].
  - inversion Hr; subst. cbn [sorted_st] in Hs. destruct Hs as [Hs1 Hs2]. unfold ordered in *.
    destruct (usize_max <=? snd cur); [discriminate|].
    destruct (fst e <=? snd cur + 1) eqn:E.
    + apply (IH (fst cur, N.max (snd cur) (snd e)) out); cbn [fst snd]; try assumption; [lia|].
      eapply sorted_st_weaken; [|exact Hs2]. exact Hs1.
    + destruct (merge_ranges e rest) as [l|] eqn:Em; [|discriminate]. inversion H; subst.
      destruct (IH e l H2 H3 Hs2 Em) as (Hl & e' & tl & ->).
      split; [|destruct cur; eauto]. cbn [is_compact fst snd] in *. rewrite Hl.
      apply andb_true_iff. split; [|reflexivity]. apply andb_true_iff. split; lia.
Qed.

Theorem compact_is_compact : forall l c, compact l = Some c -> is_compact c = true.
Proof.
  intros l c H. unfold compact in H.
  pose proof (sort_sorted (map norm_range l)) as S. pose proof (sort_ordered _ (norm_ordered l)) as O.
  destruct (sort_ranges (map norm_range l)) as [|x r]; [inversion H; reflexivity|].
  inversion O; subst. cbn [sorted_st] in S. destruct S as [_ S].
  destruct (merge_compact r x c H2 H3 S H) as [Hc _]. exact Hc.
Qed.

(* every range list a successful parse returns is in normal form *)
Corollary parse_range_list_compact : forall toks c rest, parse_range_list toks = Ok (c, rest) -> is_compact c = true.
Proof.
  intros toks c rest H. unfold parse_range_list in H. destruct toks as [|t toks]; [discriminate|].
  destruct (parse_u64 t); [|discriminate]. destruct (parse_ranges toks n) as [[rs r']|]; [|discriminate].
  destruct (compact rs) as [c'|] eqn:E; [|discriminate]. inversion H; subst. eapply compact_is_compact; eassumption.
Qed.
