(* RangeList::compact really produces the normal form: start <= end, sorted by start, neither overlapping nor adjacent. *)
From UM Require Import Base.BytesDef Base.Dec Model.Wire Proofs.WireProofsBase Proofs.WireProofsLeaf.
From Coq Require Import ZifyBool ZifyNat ZifyN.

Fixpoint sorted_st (lo : N) (l : list range) : Prop :=
  match l with
  | [] => True
  | r :: l' => lo <= fst r /\ sorted_st (fst r) l'
  end.

Definition ordered (r : range) : Prop := fst r <= snd r.

Lemma sorted_st_weaken : forall l lo lo', lo' <= lo -> sorted_st lo l -> sorted_st lo' l.
Proof. intros [|r l] lo lo' H S; cbn in *; [exact I|]. destruct S. split; [lia|assumption]. Qed.

Lemma insert_sorted : forall l r lo, sorted_st lo l -> lo <= fst r -> sorted_st lo (insert_range r l).
Proof.
  induction l as [|x l IH]; intros r lo S H; cbn [insert_range sorted_st] in *.
  - auto.
  - destruct S as [S1 S2]. destruct (fst r <=? fst x) eqn:E; cbn [sorted_st].
    + repeat split; try lia. exact S2.
    + split; [exact S1|]. apply IH; [exact S2|lia].
Qed.

Lemma sort_sorted : forall l, sorted_st 0 (sort_ranges l).
Proof. induction l as [|r l IH]; cbn [sort_ranges]; [exact I|]. apply insert_sorted; [exact IH|lia]. Qed.

Lemma insert_ordered : forall l r, ordered r -> Forall ordered l -> Forall ordered (insert_range r l).
Proof.
  induction l as [|x l IH]; intros r Hr Hl; cbn [insert_range]; [constructor; auto|].
  inversion Hl; subst. destruct (fst r <=? fst x); constructor; auto.
Qed.

Lemma sort_ordered : forall l, Forall ordered l -> Forall ordered (sort_ranges l).
Proof. induction l as [|r l IH]; intros H; cbn [sort_ranges]; [constructor|]. inversion H; subst. apply insert_ordered; auto. Qed.

Lemma norm_ordered : forall l, Forall ordered (map norm_range l).
Proof.
  induction l as [|r l IH]; cbn [map]; constructor; [|exact IH].
  unfold ordered, norm_range. destruct (snd r <? fst r) eqn:E; cbn [fst snd]; lia.
Qed.

Lemma merge_compact : forall rest cur out, ordered cur -> Forall ordered rest -> sorted_st (fst cur) rest ->
  merge_ranges cur rest = Some out -> is_compact out = true /\ exists e tl, out = (fst cur, e) :: tl.
Proof.
  induction rest as [|e rest IH]; intros cur out Hc Hr Hs H; cbn [merge_ranges] in H.
  - inversion H; subst. unfold ordered in Hc. cbn [is_compact]. split; [|destruct cur; eauto].
    rewrite andb_true_r. apply andb_true_iff. split; [lia|reflexivity].
  - inversion Hr; subst. cbn [sorted_st] in Hs. destruct Hs as [Hs1 Hs2]. unfold ordered in *.
    destruct (usize_max <=? snd cur); [discriminate|].
    destruct (fst e <=? snd cur + 1) eqn:E.
    + apply (IH (fst cur, N.max (snd cur) (snd e)) out); cbn [fst snd]; try assumption; [lia|].
      eapply sorted_st_weaken; [|exact Hs2]. exact Hs1.
    + destruct (merge_ranges e rest) as [l|] eqn:Em; [|discriminate]. inversion H; subst.
      destruct (IH e l H2 H3 Hs2 Em) as (Hl & e' & tl & ->).
      split; [|destruct cur; eauto]. cbn [is_compact fst snd] in *. rewrite Hl.
      apply andb_true_iff. split; [|reflexivity]. apply andb_true_iff. split; lia.
Qed.

Theorem compact_is_compact : forall l c, compact l = Some c -> is_compact c = true.
Proof.
  intros l c H. unfold compact in H.
  pose proof (sort_sorted (map norm_range l)) as S. pose proof (sort_ordered _ (norm_ordered l)) as O.
  destruct (sort_ranges (map norm_range l)) as [|x r]; [inversion H; reflexivity|].
  inversion O; subst. cbn [sorted_st] in S. destruct S as [_ S].
  destruct (merge_compact r x c H2 H3 S H) as [Hc _]. exact Hc.
Qed.

(* every range list a successful parse returns is in normal form *)
Corollary parse_range_list_compact : forall toks c rest, parse_range_list toks = Ok (c, rest) -> is_compact c = true.
Proof.
  intros toks c rest H. unfold parse_range_list in H. destruct toks as [|t toks]; [discriminate|].
  destruct (parse_u64 t); [|discriminate]. destruct (parse_ranges toks n) as [[rs r']|]; [|discriminate].
  destruct (compact rs) as [c'|] eqn:E; [|discriminate]. inversion H; subst. eapply compact_is_compact; eassumption.
Qed.

(* ---------- the index loop of RangeList::compact equals the list version: its two `expect`s are unreachable ---------- *)
Lemma set_nth_app_r : forall A (d : list A) x y t, set_nth (length d) x (d ++ y :: t) = d ++ x :: t.
Proof. intros A d x y t. induction d as [|h d IH]; cbn [length app set_nth]; [reflexivity|]. rewrite IH. reflexivity. Qed.

Lemma nth_error_app_len : forall A (d : list A) y t, nth_error (d ++ y :: t) (length d) = Some y.
Proof. intros A d y t. induction d as [|h d IH]; cbn [length app nth_error]; [reflexivity|exact IH]. Qed.

Lemma firstn_app_len1 : forall A (d : list A) y t, firstn (length d + 1) (d ++ y :: t) = d ++ [y].
Proof. intros A d y t. induction d as [|h d IH]; cbn [length app firstn Nat.add]; [reflexivity|]. rewrite IH. reflexivity. Qed.

Lemma nth_error_at : forall A (d : list A) y t n, n = length d -> nth_error (d ++ y :: t) n = Some y.
Proof. intros; subst; apply nth_error_app_len. Qed.

Lemma set_nth_at : forall A (d : list A) x y t n, n = length d -> set_nth n x (d ++ y :: t) = d ++ x :: t.
Proof. intros; subst; apply set_nth_app_r. Qed.

Lemma compact_loop_inv : forall rest f done cur junk, (length rest < f)%nat ->
  compact_loop f (done ++ cur :: junk ++ rest) (length done) (length done + 1 + length junk) =
  match merge_ranges cur rest with
  | Some l => CDone (done ++ l)
  | None => CPanicOverflow
  end.
Proof.
  induction rest as [|e rest IH]; intros f done cur junk Hf; (destruct f as [|f]; [cbn in Hf; lia|]); cbn [compact_loop merge_ranges].
  - rewrite app_nil_r.
    rewrite (proj2 (nth_error_None (done ++ cur :: junk) (length done + 1 + length junk)))
      by (rewrite app_length; cbn [length]; lia).
    rewrite firstn_app_len1. reflexivity.
  - assert (E1 : done ++ cur :: junk ++ e :: rest = (done ++ cur :: junk) ++ e :: rest) by (rewrite <- app_assoc; reflexivity).
    rewrite E1 at 1. rewrite (nth_error_at _ (done ++ cur :: junk) e rest) by (rewrite app_length; cbn [length]; lia).
    rewrite (nth_error_at _ done cur (junk ++ e :: rest)) by reflexivity.
    destruct (usize_max <=? snd cur); [reflexivity|].
    destruct (fst e <=? snd cur + 1).
    + rewrite (set_nth_at _ done _ cur (junk ++ e :: rest)) by reflexivity.
      replace (junk ++ e :: rest) with ((junk ++ [e]) ++ rest) by (rewrite <- app_assoc; reflexivity).
      replace (S (length done + 1 + length junk)) with (length done + 1 + length (junk ++ [e]))%nat
        by (rewrite app_length; cbn [length]; lia).
      apply IH. cbn [length] in Hf. lia.
    + assert (E2 : done ++ cur :: junk ++ e :: rest = (done ++ [cur]) ++ (junk ++ e :: rest)) by (rewrite <- app_assoc; reflexivity).
      rewrite E2.
      destruct junk as [|j junk]; cbn [app].
      * rewrite (nth_error_at _ (done ++ [cur]) e rest) by (rewrite app_length; cbn [length]; lia).
        rewrite (set_nth_at _ (done ++ [cur]) e e rest) by (rewrite app_length; cbn [length]; lia).
        replace (S (length done)) with (length (done ++ [cur])) by (rewrite app_length; cbn [length]; lia).
        replace (S (length done + 1 + length (@nil range))) with (length (done ++ [cur]) + 1 + length (@nil range))%nat
          by (rewrite app_length; cbn [length]; lia).
        pose proof (IH f (done ++ [cur]) e [] ltac:(cbn [length] in Hf; lia)) as R. cbn [app] in R. rewrite R.
        destruct (merge_ranges e rest); [rewrite <- app_assoc; reflexivity|reflexivity].
      * rewrite (nth_error_at _ (done ++ [cur]) j (junk ++ e :: rest)) by (rewrite app_length; cbn [length]; lia).
        rewrite (set_nth_at _ (done ++ [cur]) e j (junk ++ e :: rest)) by (rewrite app_length; cbn [length]; lia).
        replace (S (length done)) with (length (done ++ [cur])) by (rewrite app_length; cbn [length]; lia).
        replace (junk ++ e :: rest) with ((junk ++ [e]) ++ rest) by (rewrite <- app_assoc; reflexivity).
        replace (S (length done + 1 + length (j :: junk))) with (length (done ++ [cur]) + 1 + length (junk ++ [e]))%nat
          by (rewrite !app_length; cbn [length]; lia).
        rewrite (IH f (done ++ [cur]) e (junk ++ [e]) ltac:(cbn [length] in Hf; lia)).
        destruct (merge_ranges e rest); [rewrite <- app_assoc; reflexivity|reflexivity].
Qed.

Theorem compact_idx_faithful : forall l,
  compact_idx l = match compact l with Some c => CDone c | None => CPanicOverflow end.
Proof.
  intros l. unfold compact_idx, compact. cbv zeta. destruct (sort_ranges (map norm_range l)) as [|c r]; [reflexivity|].
  pose proof (compact_loop_inv r (S (length (c :: r))) [] c [] ltac:(cbn [length]; lia)) as R.
  cbn [app length Nat.add] in R |- *. rewrite R. destruct (merge_ranges c r); reflexivity.
Qed.
