(* C02 glue: the metadata a proxy installs from ITS OWN broker view (get_proxy_by_address) is the cut `install_ns` of the
   node list of the cluster view (get_cluster_by_name) taken under the same migration limit. *)
From UM Require Import Base.BytesDef Model.Ranges Model.Broker Model.Route.

Theorem install_of_view : forall lim st a v name vc,
  view_proxy lim st a = Some (Some v) -> vp_cluster v = Some name ->
  view_cluster lim st name = Some (Some vc) ->
  install v = install_ns (vc_nodes vc) a.
Proof.
  intros lim st a v name vc Hv Hn Hc. unfold view_proxy in Hv. unfold view_cluster in Hc.
  destruct (alookup a (st_proxies st)) as [r|]; [|discriminate].
  destruct (pr_cluster r) as [name'|].
  - destruct (alookup name' (st_clusters st)) as [cl|] eqn:Ecl.
    + destruct (limit_migration lim cl) as [cl'|] eqn:El; [|discriminate].
      destruct (cluster_nodes cl') as [ns|] eqn:En; [|discriminate].
      inversion Hv; subst v. cbn [vp_cluster] in Hn. inversion Hn; subst name'.
      rewrite Ecl, El, En in Hc. inversion Hc; subst vc. cbn [vc_nodes]. reflexivity.
    + inversion Hv; subst v. discriminate.
  - inversion Hv; subst v. discriminate.
Qed.
