(* Proofs about Model/Pipe.v (property C08), part 2: the FIFO matching invariant.  Under the backend hypothesis (a reply
   is read only for a request already written on the same connection, the k-th reply answers the k-th request) the
   tasks queue and the stream of replies stay aligned, the three "InvalidState" branches of handle_conn are unreachable,
   and a task completed with a backend reply got the reply read at its own position on the last connection it was
   written on. *)
From Coq Require Import List Arith Lia NArith Bool.
From UM Require Import Base.BytesDef Base.PipeUtil Model.Pipe Proofs.PipeProofs.
Import ListNotations.
Local Open Scope nat_scope.

Lemma suffix_split : forall (A : Type) (consumed written packets tasks : list A),
  written ++ packets = consumed ++ tasks -> length consumed <= length written ->
  exists m, tasks = m ++ packets /\ written = consumed ++ m.
Proof.
  induction consumed as [| x cs IH]; intros written packets tasks E L.
  - exists written. cbn in *. auto.
  - destruct written as [| y w]; [cbn in L; lia |].
    cbn in E. injection E as -> E. cbn in L. apply IH in E; [| lia].
    destruct E as [m [-> ->]]. exists m. auto.
Qed.

Definition align (s : state) : Prop :=
  s_mode s = MConnected ->
  (exists consumed, c_written (s_conn s) ++ c_packets (s_conn s) = consumed ++ c_tasks (s_conn s) /\
                    length consumed = c_nread (s_conn s)) /\
  c_nread (s_conn s) <= length (c_written (s_conn s)) /\
  (forall k t, nth_error (c_written (s_conn s)) k = Some t -> In (g_connno (s_ghost s), k, t) (g_wlog (s_ghost s))).

Definition wlog_le (s : state) : Prop :=
  forall c k t, In (c, k, t) (g_wlog (s_ghost s)) -> c <= g_connno (s_ghost s).

Definition own (s : state) : Prop :=
  forall t r, In (t, ORep r) (s_done s) ->
    exists c k, In (c, k, t) (g_wlog (s_ghost s)) /\ In (c, k, r) (g_rlog (s_ghost s)) /\
                forall c' k', In (c', k', t) (g_wlog (s_ghost s)) -> c' <= c.

Definition answered (answer : tid -> reply) (s : state) : Prop :=
  forall t r, In (t, ORep r) (s_done s) -> r = answer t.

Definition own_inv (answer : tid -> reply) (s : state) : Prop :=
  align s /\ wlog_le s /\ own s /\ answered answer s /\ g_invalid (s_ghost s) = false.

Lemma own_inv_init : forall answer, own_inv answer init.
Proof.
  intros. unfold own_inv, align, wlog_le, own, answered, init; cbn.
  repeat split; intros; try discriminate; try contradiction.
Qed.

(* completions added by a failing connection are never backend replies *)
Lemma err_not_rep : forall e t r (l : list tid), ~ In (t, ORep r) (map (fun x : tid => (x, cmd_err_of e)) l).
Proof. intros e t r l H. apply in_map_iff in H. destruct H as [x [E _]]. destruct e; discriminate. Qed.

Lemma own_inv_conn_fail : forall answer s rt e,
  wlog_le s -> own s -> answered answer s -> g_invalid (s_ghost s) = false ->
  own_inv answer (conn_fail s rt e false).
Proof.
  intros answer s rt e W O An G.
  destruct (conn_fail_spec s rt e false) as (Hm & _ & _ & _ & Hg & Hd).
  unfold own_inv, align, wlog_le, own, answered. rewrite Hm, Hg. cbn.
  assert (D : forall t r, In (t, ORep r) (s_done (conn_fail s rt e false)) -> In (t, ORep r) (s_done s)).
  { intros t r H. destruct Hd as [(_ & _ & Hd) | (_ & _ & Hd)]; rewrite Hd in H; [| exact H].
    apply in_app_or in H. destruct H as [H | H]; [exfalso; eapply err_not_rep; eauto | exact H]. }
  split; [intros; discriminate |]. split; [exact W |]. split; [| split].
  - intros t r H. apply D in H. apply O in H. exact H.
  - intros t r H. apply D in H. apply An in H. exact H.
  - rewrite G. reflexivity.
Qed.

Ltac own_unfold :=
  unfold own_inv, align, wlog_le, own, answered, set_conn, set_chan, add_done, set_ghost in *;
  cbn [s_mode s_conn_failed s_chan s_retry s_conn s_done s_ghost c_retry_in c_rt c_tasks c_packets c_written c_nread
       g_connno g_wlog g_rlog g_fails g_invalid] in *.

Lemma in_packets_pending : forall s t,
  align s -> s_mode s = MConnected -> In t (c_packets (s_conn s)) -> In t (pending s).
Proof.
  intros s t A M H. destruct (A M) as [[cons [E L]] [Le _]].
  destruct (suffix_split _ cons _ _ _ E ltac:(lia)) as [m [Et _]].
  unfold pending. apply in_or_app. right. apply in_or_app. left. rewrite Et. apply in_or_app. auto.
Qed.

Ltac get_align :=
  match goal with Hex : exists consumed : list tid, _ |- _ => destruct Hex as [cons [E L]] end;
  match goal with Hle : c_nread _ <= length _ |- _ => rename Hle into Le end;
  match goal with Hw0 : forall (k : nat) (t : tid), nth_error _ k = Some t -> _ |- _ => rename Hw0 into Hw end.

Ltac split5 := split; [| split; [| split; [| split]]].

(* a completion list grown by non-reply outcomes keeps own / answered *)
Lemma rep_in_cons_err : forall t r t0 o (l : list (tid * outcome)),
  is_error o = true -> In (t, ORep r) ((t0, o) :: l) -> In (t, ORep r) l.
Proof. intros t r t0 o l E [H | H]; [inversion H; subst; discriminate | exact H]. Qed.

Lemma rep_in_map_err : forall t r o (ts : list tid) (l : list (tid * outcome)),
  is_error o = true -> In (t, ORep r) (map (fun x : tid => (x, o)) ts ++ l) -> In (t, ORep r) l.
Proof.
  intros t r o ts l E H. apply in_app_or in H. destruct H as [H | H]; [| exact H].
  apply in_map_iff in H. destruct H as [x [Hx _]]. inversion Hx; subst. discriminate.
Qed.

Lemma own_inv_step : forall answer h sub s e s',
  step h s e = Some s' -> base_inv sub s -> NoDup (sub ++ submitted [e]) -> reply_ok answer s e = true ->
  own_inv answer s -> own_inv answer s'.
Proof.
  intros answer h sub s e s' H [[I1 [I2 I3]] A] N RO (AL & W & O & An & G).
  destruct e.
  - (* Submit *) destr_step H; own_unfold; split5; auto;
      intros tx rx Hd; apply rep_in_cons_err in Hd; eauto.
  - (* SubmitMulti *) destr_step H; own_unfold; rewrite ?pmap_map; split5; auto;
      intros tx rx Hd; apply rep_in_cons_err in Hd; auto; apply rep_in_map_err in Hd; eauto.
  - (* ConnOk *) destr_step H; own_unfold; split5; auto.
    + intros _. split; [exists []; cbn; auto |]. split; [lia |]. intros k t Hn. destruct k; discriminate.
    + intros c k t Hin. apply W in Hin. lia.
  - (* ConnFail *) destr_step H; own_unfold; rewrite ?pmap_map; split5; auto; try (intros; congruence);
      intros tx rx Hd; apply rep_in_map_err in Hd; eauto.
  - (* WaitDone *) destr_step H; own_unfold; split5; auto; intros; congruence.
  - (* Poll *) destr_step H; own_unfold; use_inv; split5; auto; intros _; get_align; (split; [| auto]);
      exists cons; (split; [| exact L]); rewrite !app_assoc; rewrite E; reflexivity.
  - (* Arrive *) destr_step H; bool_hyps; own_unfold; use_inv; split5; auto; try (intros; congruence).
    + intros _. get_align. split; [| auto].
      exists cons. split; [| exact L]. rewrite !app_assoc. rewrite E. reflexivity.
    + intros tx rx Hd; apply rep_in_cons_err in Hd; eauto.
    + intros tx rx Hd; apply rep_in_cons_err in Hd; eauto.
  - (* WriteOk *)
    assert (Hpend : s_mode s = MConnected -> forall x, In x (c_packets (s_conn s)) -> In x (pending s))
      by (intros; eapply in_packets_pending; eauto).
    destr_step H; bool_hyps.
    + (* normal *)
      specialize (Hpend eq_refl). own_unfold; use_inv. get_align.
      rewrite Heql in *. split5; auto.
      * intros _. split; [| split].
        -- exists cons. split; [| exact L]. rewrite <- app_assoc. exact E.
        -- rewrite app_length. lia.
        -- intros k tq Hn. destruct (Nat.lt_ge_cases k (length (c_written (s_conn s)))) as [Lt | Ge].
           ++ rewrite nth_error_app1 in Hn by assumption. right. auto.
           ++ rewrite nth_error_app2 in Hn by assumption.
              destruct (k - length (c_written (s_conn s))) eqn:Ek; [| destruct n; discriminate].
              cbn in Hn. injection Hn as <-. left. f_equal. f_equal. lia.
      * intros c k tq [Hin | Hin]; [injection Hin as <- _ _; lia | eauto].
      * intros tq r Hd. destruct (O tq r Hd) as [c [k [Hw' [Hr Hl]]]].
        exists c, k. split; [right; exact Hw' |]. split; [exact Hr |].
        intros c' k' [Hin | Hin]; [| eauto].
        injection Hin as <- _ <-.
        (* the written task would be both done and pending *)
        exfalso. assert (P : In t0 (pending s)) by (apply Hpend; left; reflexivity).
        apply (in_map fst) in Hd. cbn [fst] in Hd. apply cnt_in in Hd. apply cnt_in in P.
        cbn [submitted] in N. rewrite app_nil_r in N.
        pose proof (proj1 (nodup_cnt _) N t0) as Nt. specialize (A t0). unfold done_ids in A. lia.
    + (* InvalidState branch: impossible *)
      exfalso. apply Nat.leb_gt in Heqb0. own_unfold; use_inv. get_align.
      destruct (suffix_split _ cons _ _ _ E ltac:(lia)) as [m [Et _]].
      rewrite Heql in Et. rewrite Et in Heqb0. rewrite app_length in Heqb0. cbn in Heqb0. lia.
  - (* WriteErr *) destr_step H; bool_hyps. apply own_inv_conn_fail; auto.
  - (* Reply *)
    cbn [reply_ok] in RO. rewrite pnth_error_nth_error in RO.
    destruct (nth_error (c_written (s_conn s)) (c_nread (s_conn s))) as [tw |] eqn:Hn; [| discriminate].
    apply N.eqb_eq in RO. subst r.
    assert (Lt : c_nread (s_conn s) < length (c_written (s_conn s))) by (apply nth_error_Some; congruence).
    destr_step H; bool_hyps; own_unfold; use_inv; get_align;
    match goal with
    | Ht : c_tasks (s_conn s) = [] |- _ =>
        (* no task: impossible *)
        exfalso; rewrite Ht in E; rewrite app_nil_r in E;
        apply (f_equal (@length tid)) in E; rewrite app_length in E; lia
    | Ht : c_tasks (s_conn s) = ?tf :: ?ts |- _ =>
        (* the front task gets the reply *)
        rewrite Ht in E;
        assert (T : tf = tw) by
          (assert (Hx : nth_error (c_written (s_conn s) ++ c_packets (s_conn s)) (c_nread (s_conn s)) = Some tw)
             by (rewrite nth_error_app1 by assumption; exact Hn);
           rewrite E in Hx; rewrite nth_error_app2 in Hx by lia; rewrite L, Nat.sub_diag in Hx; cbn in Hx; congruence);
        subst tw; split5; auto;
        [ intros _; (split; [| split; [lia | exact Hw]]);
          exists (cons ++ [tf]); (split; [rewrite <- app_assoc; exact E | rewrite app_length; cbn; lia])
        | intros tq rq [Hd | Hd];
          [ injection Hd as <- <-; exists (g_connno (s_ghost s)), (c_nread (s_conn s));
            (split; [auto |]); (split; [left; reflexivity |]); intros c' k' Hin; eapply W; eauto
          | destruct (O tq rq Hd) as [c [k [Hw' [Hr Hl]]]]; exists c, k; (split; [auto |]); (split; [right; auto | auto]) ]
        | intros tq rq [Hd | Hd]; [injection Hd as <- <-; reflexivity | eauto] ]
    end.
  - (* ReadErr *)
    cbn [reply_ok] in RO. apply Nat.ltb_lt in RO.
    destr_step H; bool_hyps; own_unfold; use_inv; get_align;
    match goal with
    | Ht : c_tasks (s_conn s) = [] |- _ =>
        exfalso; rewrite Ht in E; rewrite app_nil_r in E;
        apply (f_equal (@length tid)) in E; rewrite app_length in E; lia
    | Ht : c_tasks (s_conn s) = ?tf :: ?ts |- _ =>
        rewrite Ht in E; split5; auto;
        [ intros _; (split; [| split; [lia | exact Hw]]);
          exists (cons ++ [tf]); (split; [rewrite <- app_assoc; exact E | rewrite app_length; cbn; lia])
        | intros tq rq Hd; apply rep_in_cons_err in Hd; eauto
        | intros tq rq Hd; apply rep_in_cons_err in Hd; eauto ]
    end.
  - (* Closed *) destr_step H; bool_hyps. apply own_inv_conn_fail; auto.
  - (* Timeout *) destr_step H; bool_hyps. apply own_inv_conn_fail; auto.
  - (* SenderClosed *) destr_step H; bool_hyps; own_unfold; rewrite ?pmap_map; split5; auto; try (intros; congruence);
      intros tx rx Hd; apply rep_in_map_err in Hd; eauto.
Qed.

Lemma NoDup_app_l : forall (A : Type) (a b : list A), NoDup (a ++ b) -> NoDup a.
Proof.
  induction a as [| x a IH]; intros b H; [constructor |].
  cbn in H. inversion H; subst. constructor; [| eapply IH; eauto].
  intros Hin. apply H2. apply in_or_app. auto.
Qed.

Lemma own_inv_run : forall answer h evs sub s s',
  run h s evs = Some s' -> base_inv sub s -> NoDup (sub ++ submitted evs) -> backend_ok answer h s evs = true ->
  own_inv answer s -> own_inv answer s'.
Proof.
  induction evs as [| e evs IH]; intros sub s s' R B N K I; cbn [run] in R.
  - injection R as <-. exact I.
  - cbn [backend_ok] in K. apply andb_prop in K. destruct K as [K1 K2].
    destruct (step h s e) as [s1 |] eqn:E; [| discriminate].
    change (e :: evs) with ([e] ++ evs) in N. rewrite submitted_app, app_assoc in N.
    eapply (IH (sub ++ submitted [e])); eauto.
    + eapply base_inv_step; eauto.
    + eapply own_inv_step; eauto. eapply NoDup_app_l; eauto.
Qed.

Section Backend.
  (* the reply the backend gives to the request carrying id t *)
  Variable answer : tid -> reply.

  Theorem own_exchange : forall h evs s,
    run h init evs = Some s -> NoDup (submitted evs) -> backend_ok answer h init evs = true ->
    (forall t r, In (t, ORep r) (s_done s) ->
       r = answer t /\
       exists c k, In (c, k, t) (g_wlog (s_ghost s)) /\ In (c, k, r) (g_rlog (s_ghost s)) /\
                   forall c' k', In (c', k', t) (g_wlog (s_ghost s)) -> c' <= c) /\
    g_invalid (s_ghost s) = false.
  Proof.
    intros h evs s R N K.
    destruct (own_inv_run answer h evs [] init s R base_inv_init N K (own_inv_init answer)) as (_ & _ & O & An & G).
    split; [| exact G]. intros t r H. split; [apply An; exact H | apply O; exact H].
  Qed.
End Backend.

(* after a partial read and a break the unanswered tasks are re-sent on the next connection and matched there *)
Example own_exchange_example :
  let answer := fun t : tid => (t * 10)%N in
  let evs := [Submit 1%N; Submit 2%N; Submit 3%N; ConnOk; Poll; Arrive 1%N; Arrive 2%N; Arrive 3%N;
              WriteOk 1%N; WriteOk 2%N; WriteOk 3%N; Poll; Reply 10%N; Closed;
              ConnOk; Poll; WriteOk 2%N; WriteOk 3%N; Poll; Reply 20%N; Reply 30%N] in
  backend_ok answer false init evs = true /\ NoDup (submitted evs) /\
  exists s, run false init evs = Some s /\
            s_done s = [(3%N, ORep 30%N); (2%N, ORep 20%N); (1%N, ORep 10%N)] /\
            g_wlog (s_ghost s) = [(2, 1, 3%N); (2, 0, 2%N); (1, 2, 3%N); (1, 1, 2%N); (1, 0, 1%N)].
Proof.
  cbv zeta. split; [vm_compute; reflexivity |]. split.
  - repeat constructor; cbn; intuition discriminate.
  - eexists. split; [vm_compute; reflexivity |]. split; reflexivity.
Qed.

(* without the backend hypothesis the matching is lost: a reply that arrives before its request was written is handed to
   the front task, whose own request then goes out with no task attached (and the next write hits the InvalidState
   branch) - this is why the hypothesis is needed *)
Example early_reply_is_misdelivered :
  let evs := [Submit 1%N; ConnOk; Poll; Arrive 1%N; Reply 99%N] in
  exists s, run false init evs = Some s /\ s_done s = [(1%N, ORep 99%N)] /\ g_wlog (s_ghost s) = [].
Proof. eexists. split; [vm_compute; reflexivity |]. split; reflexivity. Qed.
